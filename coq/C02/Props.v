(* C02 property theorems (statements only; proofs in Proofs*.v).  D ranges over every "csr with
   division" (C02/Dsr.v); Qc_sum_dsr gives calibrate(), Qc_max_dsr gives max_calibrate(). *)
From Coq Require Import List Arith Bool PeanoNat.
From PV Require Import Base.Semiring Base.Ravel Base.FinSum Base.RefFactor Base.VE
  C02.Dsr C02.Model C02.Spec C02.Cert C02.ProofsInv C02.ProofsPeel C02.ProofsChk C02.ProofsConv C02.ProofsQuery C02.ProofsSched C02.ProofsShapes C02.ProofsBfs C02.ProofsTree C02.ProofsFin.
Import ListNotations.

(* One belief-update message i -> j, in any state reached by messages, preserves
     joint(a) = prod_i beta_i(a) * prod_k inv(mu_k(a))        (inv 0 = 0: pgmpy's 0/0 = 0)
   together with scopes, non-negativity and the support invariant  mu_k(a) = 0 -> beta_u(a) = beta_v(a) = 0
   for the edge's end cliques u, v (fields of [Inv]).  Unbounded: any tree, any cardinalities, any
   potentials >= 0, sum or max.  (Stated with inv instead of the purely multiplicative form
   prod beta' * prod mu = prod beta * prod mu', which loses the information where mu = 0.) *)
Theorem C02_update_invariant : forall (D : dsr) (card : var -> nat) (t : ctree D) (st : bstate D) (i j : nat),
  tree_ok D card t -> Inv D card t st -> Inv D card t (update D card t st i j).
Proof. exact update_preserves_Inv. Qed.
Print Assumptions C02_update_invariant.

(* The whole schedule as coded (every clique as root, pull, BFS push, early exit) consists of such
   messages from the initial state, so its result satisfies the invariant. *)
Theorem C02_schedule_invariant : forall (D : dsr) (card : var -> nat) (t : ctree D),
  tree_ok D card t -> Inv D card t (calibrate D card t).
Proof. exact calibrate_Inv. Qed.
Print Assumptions C02_schedule_invariant.

(* Calibrated => exact.  In a state satisfying the invariant in which every edge carries a sepset
   belief equal to both end cliques' sepset marginals (what _is_converged tests), for every leaf-
   elimination order of the clique tree ending in clique r (tree + running intersection, Spec.peels),
   the belief of r is the sum/max-marginal of the product of the initial potentials over the
   eliminated variables.  Unbounded. *)
Theorem C02_message_is_marginal : forall (D : dsr) (card : var -> nat) (t : ctree D) (st : bstate D),
  tree_ok D card t -> Inv D card t st -> all_edges_set D t st -> sepset_agree D card t st ->
  forall order r, peels D t (all_cl D t) (all_ed D t) order [r] [] ->
  forall a, valid card a ->
    feval D card (belief D card st r) a =
    sum_over (pvars D card t st order) (map card (pvars D card t st order)) (joint D card t) a.
Proof. exact peel_to_root. Qed.
Print Assumptions C02_message_is_marginal.

(* Converged => neighbours agree: if the (boolean, exact) convergence test of the model answers true in a
   state satisfying the invariant, every edge carries a sepset belief and it equals, on every valid
   assignment, the sepset marginal (sum/max) of BOTH end cliques.  Unbounded. *)
Theorem C02_calibrated_agree : forall (D : dsr) (card : var -> nat) (t : ctree D) (st : bstate D),
  tree_ok D card t -> Inv D card t st -> is_converged D card t st = true ->
  all_edges_set D t st /\ sepset_agree D card t st.
Proof. exact is_converged_sound. Qed.
Print Assumptions C02_calibrated_agree.

(* Division guard: wherever a sepset belief is zero, the new message sigma and both end cliques' beliefs
   are zero, so sigma/mu in _update_beliefs and belief/mu in _query only ever meet 0/0 (= 0), never
   pgmpy's x/0 = inf; the model's totalised inverse is therefore faithful.  Unbounded. *)
Theorem C02_no_inf : forall (D : dsr) (card : var -> nat) (t : ctree D) (st : bstate D) k i j mu a,
  tree_ok D card t -> Inv D card t st -> k < length (tedges D t) ->
  (nth k (tedges D t) (0, 0) = (i, j) \/ nth k (tedges D t) (0, 0) = (j, i)) ->
  nth k (sep D st) None = Some mu -> valid card a -> feval D card mu a = zero ->
  feval D card (sigma_of D card t st i j) a = zero /\
  feval D card (belief D card st i) a = zero /\ feval D card (belief D card st j) a = zero.
Proof. exact division_guard. Qed.
Print Assumptions C02_no_inf.

(* Once converged, any further message changes no clique belief and no (inverse) sepset belief, at any
   valid assignment: where the loop stops after convergence does not matter.  Unbounded. *)
Theorem C02_converged_stable : forall (D : dsr) (card : var -> nat) (t : ctree D) (st : bstate D) i j,
  tree_ok D card t -> Inv D card t st -> all_edges_set D t st -> sepset_agree D card t st ->
  forall a, valid card a ->
    (forall m, m < length (cliques D t) ->
       feval D card (belief D card (update D card t st i j) m) a = feval D card (belief D card st m) a) /\
    (forall k, k < length (tedges D t) ->
       sinv D card a (nth k (sep D (update D card t st i j)) None) = sinv D card a (nth k (sep D st) None)).
Proof. exact update_after_converged. Qed.
Print Assumptions C02_converged_stable.

(* Out-of-clique expression: for every elimination order that leaves the cliques [sub] and the edges
   [esub], prod_{i in sub} beta_i * prod_{k in esub} 1/mu_k is the marginal of the joint onto the
   subtree's scope.  Unbounded. *)
Theorem C02_subtree_expression : forall (D : dsr) (card : var -> nat) (t : ctree D) (st : bstate D),
  tree_ok D card t -> Inv D card t st -> all_edges_set D t st -> sepset_agree D card t st ->
  forall order sub esub, peels D t (all_cl D t) (all_ed D t) order sub esub ->
  forall a, valid card a ->
    G D card st sub esub a =
    sum_over (pvars D card t st order) (map card (pvars D card t st order)) (joint D card t) a.
Proof. exact peel_to_subtree. Qed.
Print Assumptions C02_subtree_expression.

(* bp_query = posterior.  In a converged state satisfying the invariant, if the run-time certificate of
   the query holds (Cert.query_cert: the complement of the subtree peels away, the traversal visits each
   remaining clique / edge once, evidence variables live only in the subtree, evidence states in range),
   the factor computed by _query as coded -- subtree, root belief x child belief / sepset belief,
   evidence reduction, variable elimination (Base/VE.ve_run_correct) -- is, pointwise, the joint with the
   evidence substituted and summed over a duplicate-free enumeration vs of EXACTLY the variables of the tree
   that are neither query nor evidence variables (Spec.enumerates_complement): the posterior numerator over
   Q (pgmpy then normalises).  Unbounded; no _partial. *)
Theorem C02_query_eq_posterior : forall (D : dsr) (card : var -> nat) (t : ctree D) (st : bstate D) Q ev r,
  tree_ok D card t -> Inv D card t st -> is_converged D card t st = true ->
  bp_query D card t st Q ev = Some r -> query_cert D card t Q ev r = true ->
  exists vs,
    enumerates_complement vs (all_vars D t) (Q ++ map fst ev) /\
    forall a, valid card a -> feval D card (q_factor D r) a = posterior_num D card t ev vs a.
Proof. exact query_eq_posterior. Qed.
Print Assumptions C02_query_eq_posterior.

(* several factors on one clique (commit 660eaae): the joint of the tree is the product of all of them *)
Theorem C02_joint_of_groups : forall (D : dsr) (card : var -> nat) cl es ad (groups : list (list (factor D))) a,
  Forall (Forall (wf D card)) groups -> valid card a ->
  joint D card (tree_of_groups D card cl es ad groups) a =
  prod_list (map (fun g => eval_prod D card g a) groups).
Proof. exact joint_of_groups. Qed.
Print Assumptions C02_joint_of_groups.

(* verified checkers: the elimination-sequence checker decides Spec.peels; jt_chk (applied to pgmpy's
   own junction tree on every run) is sound for Spec.junction_tree (tree + running intersection) *)
Theorem C02_peel_chk_iff : forall (D : dsr) (t : ctree D) order rem erem rem' erem',
  peel_chk D t rem erem order = Some (rem', erem') <-> peels D t rem erem order rem' erem'.
Proof. exact peel_chk_spec. Qed.
Print Assumptions C02_peel_chk_iff.
Theorem C02_jt_chk_sound : forall (D : dsr) (t : ctree D), jt_chk D t = true -> junction_tree D t.
Proof. exact jt_chk_sound. Qed.
Print Assumptions C02_jt_chk_sound.

(* Finite domain: the schedule AS CODED calibrates (converged, every clique and sepset belief equal to
   the brute-force marginal) every clique tree with <= 3 cliques of two binary variables (<= 4 variables;
   single, pair, chain with the hub first/middle/last, star) and every table over {0,1,2} (<= 2 cliques)
   or {0,1} (3 cliques): 23026 trees, sum and max. *)
Theorem C02_schedule_calibrates_upto3cliques_4binvars :
  (forall t, In t (trees_upto3 Qc_sum_dsr g3 g2) -> calibratedb Qc_sum_dsr t = true) /\
  (forall t, In t (trees_upto3 Qc_max_dsr g3 g2) -> calibratedb Qc_max_dsr t = true).
Proof. exact schedule_calibrates_upto3. Qed.
Print Assumptions C02_schedule_calibrates_upto3cliques_4binvars.

(* THE SCHEDULE THEOREM.  For EVERY clique tree (ProofsTree.is_tree: the edge list has n-1 pairwise distinct
   undirected edges without loops on the n cliques, is connected, and the adjacency lists -- in any order --
   list exactly the neighbours), any number of cliques, any clique numbering (= root order), all
   cardinalities and all non-negative potentials (zeros included), sum or max: the schedule as coded (every
   clique as root in node order, pull from each neighbour, push along networkx's BFS edges, early exit when
   _is_converged) ends with a sepset belief on every edge equal to both end cliques' sepset marginals.
   No per-tree certificate.  Proof: (1) a message u->v makes its edge consistent from u's side, keeps
   consistency from v's side of that edge (0/0 guard) and touches no other consistency except v's
   (ProofsSched); (2) on a tree, BFS from r traverses every edge exactly once, parent to child, after the
   parent's own unique incoming message (ProofsBfs: discovery chain, completeness with fuel n+1, pigeonhole
   on n-1 edges); (3) so what is known is never lost at the end of a round, the round rooted at x makes every
   edge at x consistent from x's side and, through the pull phase, from the neighbour's side (ProofsTree);
   after the rounds rooted at both ends every edge is consistent from both sides; the early exit is covered
   by C02_calibrated_agree. *)
Theorem C02_schedule_calibrates : forall (D : dsr) (card : var -> nat) (t : ctree D),
  tree_ok D card t -> ProofsTree.is_tree D t ->
  all_edges_set D t (calibrate D card t) /\ sepset_agree D card t (calibrate D card t).
Proof. exact schedule_calibrates. Qed.
Print Assumptions C02_schedule_calibrates.

(* ... hence on a junction tree (tree + running intersection: a leaf-elimination order ending in r) the
   belief of every clique r after calibrate()/max_calibrate() is the exact sum/max-marginal of the product
   of all potentials.  Unbounded. *)
Theorem C02_calibrate_is_marginal : forall (D : dsr) (card : var -> nat) (t : ctree D),
  tree_ok D card t -> ProofsTree.is_tree D t ->
  forall order r, peels D t (all_cl D t) (all_ed D t) order [r] [] ->
  forall a, valid card a ->
    feval D card (belief D card (calibrate D card t) r) a =
    sum_over (pvars D card t (calibrate D card t) order) (map card (pvars D card t (calibrate D card t) order))
             (joint D card t) a.
Proof. exact calibrate_is_marginal. Qed.
Print Assumptions C02_calibrate_is_marginal.

(* the symbolic replay of the schedule succeeds on every tree; the boolean tree check (applied to pgmpy's own
   tree on every run) is sound for is_tree *)
Theorem C02_sched_chk_every_tree : forall (D : dsr) (t : ctree D), is_tree D t -> sched_chk D t = true.
Proof. exact sched_chk_tree. Qed.
Print Assumptions C02_sched_chk_every_tree.
Theorem C02_tree_chk_sound : forall (D : dsr) (t : ctree D),
  tree_shape_chk (length (cliques D t)) (tedges D t) (adj D t) = true -> is_tree D t.
Proof. exact tree_chk_sound. Qed.
Print Assumptions C02_tree_chk_sound.

(* the certificate-based form (any shape on which the replay succeeds, tree or not) *)
Theorem C02_schedule_calibrates_given_sched_chk : forall (D : dsr) (card : var -> nat) (t : ctree D),
  tree_ok D card t -> sched_chk D t = true ->
  all_edges_set D t (calibrate D card t) /\ sepset_agree D card t (calibrate D card t).
Proof. exact sched_chk_calibrates. Qed.
Print Assumptions C02_schedule_calibrates_given_sched_chk.

(* Finite domain (now subsumed by C02_sched_chk_every_tree; kept as an independent computation): sched_chk holds for every
   labelled tree on <= 5 cliques with the adjacency lists arising from every ordering of the edge list
   (1 + 1 + 3*2 + 16*6 + 125*24 shapes) and every labelled tree on 6 cliques in parent edge order (1296). *)
Theorem C02_sched_chk_upto5cliques_allorders_6cliques :
  (forall t, In t (shapes_upto5 Qc_sum_dsr ++ shapes_oneorder Qc_sum_dsr 6) -> sched_chk Qc_sum_dsr t = true) /\
  (forall t, In t (shapes_upto5 Qc_max_dsr ++ shapes_oneorder Qc_max_dsr 6) -> sched_chk Qc_max_dsr t = true).
Proof. exact sched_chk_shapes. Qed.
Print Assumptions C02_sched_chk_upto5cliques_allorders_6cliques.

(* The claim "after pull + push from ONE root every belief is the marginal" is FALSE for the schedule as
   coded (the pull phase only pulls the neighbours' current beliefs): chain {0,1}-{1,2}-{2,3}, all-one
   tables, first root = clique 0 is not converged after its round, although the full schedule calibrates
   it.  Hence the schedule theorem above needs all roots. *)
Theorem C02_one_root_not_enough_refuted :
  is_converged Qc_sum_dsr card2 chain3_ones
    (root_round Qc_sum_dsr card2 chain3_ones (init_state Qc_sum_dsr chain3_ones) 0) = false /\
  calibratedb Qc_sum_dsr chain3_ones = true.
Proof. exact first_root_not_enough. Qed.
Print Assumptions C02_one_root_not_enough_refuted.

(* ================================================================== END TO END (composition with C14)
   C14 proves, for every Markov network, that MarkovNetwork.to_junction_tree of the model -- triangulate as coded along
   ANY order (every heuristic), the maximal cliques of the result, ANY maximum-weight spanning tree of the clique
   graph -- is a connected clique tree with the running-intersection property whose clique potentials multiply to
   the product of all factors.  The bridging lemmas below translate C14's notions (Spec.is_tree: connected with n-1
   edges; Spec.rip: the cliques holding a variable are connected among themselves) into C02's (tree_shape; a
   leaf-elimination order ending in any clique).  No junction-tree certificate remains; the only facts taken from
   networkx are C14's two certified ones: F lists the maximal cliques, and the spanning tree has maximum weight. *)
From PV Require C14.UGraph C14.Model C14.Spec C14.ProofsRIP.
From PV Require Import C02.ProofsBridge C02.ProofsBridge2 C02.ProofsEndToEnd.

(* C14's tree (connected, n-1 edges) with adjacency lists in any order is C02's tree: in particular it has no loop
   and no repeated edge *)
Theorem C02_bridge_tree : forall (D : dsr) (t : ctree D),
  C14.Spec.is_tree (jt_of D t) -> adj_ok D t -> ProofsTree.is_tree D t.
Proof. exact bridge_tree_shape. Qed.
Print Assumptions C02_bridge_tree.

(* C14's path-based running intersection on a tree gives a leaf-elimination order ending in ANY clique r (eliminate in
   the reverse of the breadth-first discovery order from r) *)
Theorem C02_bridge_rip_peel_order : forall (D : dsr) (t : ctree D),
  C14.Spec.is_tree (jt_of D t) -> C14.Spec.rip (jt_of D t) -> adj_ok D t ->
  forall r, r < length (cliques D t) -> exists order, peels D t (all_cl D t) (all_ed D t) order [r] [].
Proof. exact rip_gives_peel_order. Qed.
Print Assumptions C02_bridge_rip_peel_order.

(* Markov network -> junction tree -> calibrate()/max_calibrate() as coded: every sepset belief equals both
   neighbours' sepset marginals, and every clique belief is the exact sum/max-marginal of the SOURCE model's joint
   (the product of ALL its factors) over an enumeration vs of exactly the variables outside the clique.  All
   cardinalities, all non-negative factors, any number of variables. *)
Theorem C02_end_to_end_calibration : forall (D : dsr) (card : var -> nat) (g : C14.UGraph.ugraph) (order : list nat)
  (inplace : bool) (F : list (list var)) (E0 : list (nat * nat)) (adjl : list (list nat)) (fs : list (factor D)),
  C14.UGraph.noloop (C14.UGraph.uedges g) ->
  (forall v, In v (C14.UGraph.endpoints (C14.UGraph.uedges g)) -> In v order) ->
  C14.ProofsRIP.max_cliques_of (C14.UGraph.uedges (C14.Model.triangulate_order g order inplace))
                               (C14.UGraph.vertices (C14.Model.triangulate_order g order inplace)) F ->
  C14.ProofsRIP.max_weight_tree {| C14.Model.jcliques := F; C14.Model.jedges := E0 |} ->
  Forall (wf D card) fs -> Forall (fnn D card) fs ->
  (forall f, In f fs -> incl (fvars f) (C14.UGraph.vertices g) /\ C14.UGraph.is_clique (C14.UGraph.uedges g) (fvars f)) ->
  exists ps, C14.Model.jt_potentials D card F fs = C14.Model.Ok ps /\
  let t := tree_from D F E0 adjl ps in
  adj_ok D t ->
  let st := calibrate D card t in
  all_edges_set D t st /\ sepset_agree D card t st /\
  forall r, r < length F ->
    exists vs, enumerates_complement vs (all_vars D t) (clq D t r) /\
      forall a, valid card a ->
        feval D card (belief D card st r) a = sum_over vs (map card vs) (C14.Spec.joint D card fs) a.
Proof. exact e2e_calibration. Qed.
Print Assumptions C02_end_to_end_calibration.

(* ... and BeliefPropagation.query as coded on that tree returns the SOURCE joint with the evidence substituted,
   summed over exactly the non-query non-evidence variables (pgmpy then normalises).  Remaining per-query certificate:
   Cert.query_cert (the traversal of the query's subtree, proved sound); no junction-tree certificate. *)
Theorem C02_end_to_end_query : forall (D : dsr) (card : var -> nat) (g : C14.UGraph.ugraph) (order : list nat)
  (inplace : bool) (F : list (list var)) (E0 : list (nat * nat)) (adjl : list (list nat)) (fs : list (factor D)),
  C14.UGraph.noloop (C14.UGraph.uedges g) ->
  (forall v, In v (C14.UGraph.endpoints (C14.UGraph.uedges g)) -> In v order) ->
  C14.ProofsRIP.max_cliques_of (C14.UGraph.uedges (C14.Model.triangulate_order g order inplace))
                               (C14.UGraph.vertices (C14.Model.triangulate_order g order inplace)) F ->
  C14.ProofsRIP.max_weight_tree {| C14.Model.jcliques := F; C14.Model.jedges := E0 |} ->
  Forall (wf D card) fs -> Forall (fnn D card) fs ->
  (forall f, In f fs -> incl (fvars f) (C14.UGraph.vertices g) /\ C14.UGraph.is_clique (C14.UGraph.uedges g) (fvars f)) ->
  exists ps, C14.Model.jt_potentials D card F fs = C14.Model.Ok ps /\
  let t := tree_from D F E0 adjl ps in
  adj_ok D t ->
  forall Q ev r, bp_query D card t (calibrate D card t) Q ev = Some r -> query_cert D card t Q ev r = true ->
    exists vs, enumerates_complement vs (all_vars D t) (Q ++ map fst ev) /\
      forall a, valid card a ->
        feval D card (q_factor D r) a =
        sum_over vs (map card vs) (fun b => C14.Spec.joint D card fs (upds b ev)) a.
Proof. exact e2e_query. Qed.
Print Assumptions C02_end_to_end_query.

(* Bayesian network: through moralisation (C14.Model.bn_to_mn, one factor per CPD), the same, with the joint written
   as the product of the CPDs *)
Theorem C02_end_to_end_calibration_bn : forall (D : dsr) (card : var -> nat) (dag : Base.Graph.digraph)
  (cpds : list (C14.Model.cpd D)) (order : list nat) (inplace : bool) (F : list (list var)) (E0 : list (nat * nat))
  (adjl : list (list nat)),
  Base.Graph.wf_graph dag -> NoDup (Base.Graph.edges dag) -> (forall a, ~ In (a, a) (Base.Graph.edges dag)) ->
  (forall c, In c cpds -> In (C14.Model.cchild D c) (Base.Graph.nodes dag) /\
     forall p, In p (C14.Model.cpars D c) -> In (p, C14.Model.cchild D c) (Base.Graph.edges dag)) ->
  let g := C14.Model.moral_graph dag in
  let fs := C14.Model.mfactors D (C14.Model.bn_to_mn D dag cpds) in
  Forall (wf D card) fs -> Forall (fnn D card) fs ->
  (forall v, In v (C14.UGraph.endpoints (C14.UGraph.uedges g)) -> In v order) ->
  let g' := C14.Model.triangulate_order g order inplace in
  C14.ProofsRIP.max_cliques_of (C14.UGraph.uedges g') (C14.UGraph.vertices g') F ->
  C14.ProofsRIP.max_weight_tree {| C14.Model.jcliques := F; C14.Model.jedges := E0 |} ->
  exists ps, C14.Model.jt_potentials D card F fs = C14.Model.Ok ps /\
  let t := tree_from D F E0 adjl ps in
  adj_ok D t ->
  let st := calibrate D card t in
  all_edges_set D t st /\ sepset_agree D card t st /\
  forall r, r < length F ->
    exists vs, enumerates_complement vs (all_vars D t) (clq D t r) /\
      forall a, valid card a ->
        feval D card (belief D card st r) a =
        sum_over vs (map card vs) (fun b => prod_list (map (fun c => C14.Model.cpd_eval D card c b) cpds)) a.
Proof. exact e2e_calibration_bn. Qed.
Print Assumptions C02_end_to_end_calibration_bn.
