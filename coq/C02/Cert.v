(* C02: the run-time certificate of one query (executable; its soundness is ProofsQuery.query_cert_sound) *)
From Coq Require Import List Arith Bool PeanoNat.
From PV Require Import Base.Semiring Base.Ravel Base.FinSum Base.RefFactor C02.Dsr C02.Model.
Import ListNotations.

(* ---- boolean check that (edges, adjacency) is a tree: ProofsTree.tree_shape_chk_sound ---------------- *)
Definition canon (e : nat * nat) : nat * nat := if fst e <=? snd e then e else (snd e, fst e).
Definition adjacentb (es : list (nat * nat)) (x y : nat) : bool :=
  existsb (fun e => ((fst e =? x) && (snd e =? y)) || ((fst e =? y) && (snd e =? x))) es.
Definition pair_code (n : nat) (e : nat * nat) : nat := fst (canon e) * n + snd (canon e).
Definition tree_shape_chk (n : nat) (es : list (nat * nat)) (adj : list (list nat)) : bool :=
  (0 <? n) && (length adj =? n) &&
  forallb (fun x => forallb (fun y => adjacentb es x y) (nth x adj [])) (seq 0 n) &&
  forallb (fun e => (fst e <? n) && (snd e <? n) && negb (fst e =? snd e) &&
                    memn (snd e) (nth (fst e) adj []) && memn (fst e) (nth (snd e) adj [])) es &&
  nodupb (map (pair_code n) es) && (length es =? n - 1) &&
  forallb (fun x => memn x (0 :: map snd (bfs_edges adj 0))) (seq 0 n).


Section Cert.
Variable D : dsr.
Variable card : var -> nat.
Definition edges_of_pairs (t : ctree D) (pcs : list (nat * nat)) : option (list nat) :=
  sequence (map (fun pc => find_edge (tedges D t) (fst pc) (snd pc) 0) pcs).
(* every clique containing one of the variables vs is in sub *)
Definition covers (t : ctree D) (sub : list nat) (vs : list var) : bool :=
  forallb (fun i => negb (existsb (fun v => memv v (clq D t i)) vs) || memn i sub) (all_cl D t).
(* the complement of the subtree peels away leaving exactly the subtree's cliques; the traversal visits
   every remaining clique once and uses every remaining edge once; query and evidence variables live only
   in the subtree, evidence states are in range, the eliminated variables are listed once *)
Definition query_cert (t : ctree D) (Q : list var) (ev : list (var * nat)) (r : qresult D) : bool :=
  match peel_to D t (q_sub D r), edges_of_pairs t (q_pairs D r) with
  | Some (_, erem), Some ks =>
      same_set erem ks && nodupb ks && nodupb (q_root D r :: map snd (q_pairs D r)) &&
      same_set (q_root D r :: map snd (q_pairs D r)) (q_sub D r) &&
      covers t (q_sub D r) (Q ++ map fst ev) &&
      forallb (fun e => snd e <? card (fst e)) ev &&
      nodupb (query_elim D t (q_sub D r) Q ev) &&
      forallb (fun i => i <? length (cliques D t)) (q_sub D r)
  | _, _ => false
  end.

(* ---- symbolic schedule certificate (depends on the SHAPE of the tree only, not on the numbers) ----------
   [cons] lists directed pairs (x, y): "edge {x,y} is consistent from x's side" (the sepset belief equals x's
   sepset marginal).  A message u -> v makes the edge u-consistent, keeps v-consistency of that same edge
   (ProofsSched.track_update), and may destroy v-consistency of v's other edges. *)
Definition memp (x y : nat) (l : list (nat * nat)) : bool :=
  existsb (fun xy => (fst xy =? x) && (snd xy =? y)) l.
Definition track_step (t : ctree D) (cons : list (nat * nat)) (m : nat * nat) : list (nat * nat) :=
  match find_edge (tedges D t) (fst m) (snd m) 0 with
  | None => cons
  | Some _ => (fst m, snd m) ::
              filter (fun xy => negb ((fst xy =? snd m) && negb (snd xy =? fst m))) cons
  end.
Definition round_msgs (t : ctree D) (r : nat) : list (nat * nat) :=
  map (fun nb => (nb, r)) (nth r (adj D t) []) ++ bfs_edges (adj D t) r.
Definition track_round (t : ctree D) (cons : list (nat * nat)) (r : nat) : list (nat * nat) :=
  fold_left (track_step t) (round_msgs t r) cons.
Definition full_cons (t : ctree D) (cons : list (nat * nat)) : bool :=
  forallb (fun k => let e := nth k (tedges D t) (0, 0) in
             memp (fst e) (snd e) cons && memp (snd e) (fst e) cons &&
             match find_edge (tedges D t) (fst e) (snd e) 0 with Some k' => k' =? k | None => false end)
          (all_ed D t).
Definition sched_chk (t : ctree D) : bool :=
  full_cons t (fold_left (track_round t) (all_cl D t) []).
End Cert.
