(* C02 finite-domain theorem: for every clique tree with <= 3 cliques of <= 2 binary variables each
   (<= 4 variables; shapes: single clique, pair, chain and star in every position of the hub) and every
   potential table with entries from the grid {0,1,2} (1-2 cliques) / {0,1} (3 cliques) -- zeros
   included -- the schedule AS CODED ends converged, with every clique belief and every sepset belief
   EQUAL to the brute-force marginal of the product of the initial potentials (sum and max). *)
From Coq Require Import List Arith Bool PeanoNat.
From PV Require Import Base.Semiring Base.Ravel Base.FinSum Base.RefFactor C02.Dsr C02.Model.
Import ListNotations.

Definition card2 : var -> nat := fun _ => 2.

Section Fin.
Variable D : dsr.
Variable grid3 grid2 : list D.

Definition calibratedb (t : ctree D) : bool :=
  let st := calibrate D card2 t in
  is_converged D card2 t st &&
  forallb (fun i => feq_on D card2 (clq D t i) (belief D card2 st i) (brute_marginal D card2 t (clq D t i)))
          (all_cl D t) &&
  forallb (fun ke : nat * (nat * nat) =>
             let '(k, (i, j)) := ke in
             match nth k (sep D st) None with
             | Some mu => feq_on D card2 (sepset D t i j) mu (brute_marginal D card2 t (sepset D t i j))
             | None => false
             end)
          (combine (all_ed D t) (tedges D t)).

Fixpoint tabs (grid : list D) (n : nat) : list (list D) :=
  match n with
  | 0 => [[]]
  | S m => flat_map (fun x => map (cons x) (tabs grid m)) grid
  end.
Definition mk (cl : list (list var)) (es : list (nat * nat)) (ad : list (list nat)) (tb : list (list D)) : ctree D :=
  {| cliques := cl; tedges := es; adj := ad;
     pots := map (fun ct => {| fvars := fst ct; fvals := snd ct |}) (combine cl tb) |}.

Definition trees1 : list (ctree D) :=
  map (fun a => mk [[0; 1]] [] [[]] [a]) (tabs grid3 4).
Definition trees2 : list (ctree D) :=
  flat_map (fun a => map (fun b => mk [[0; 1]; [1; 2]] [(0, 1)] [[1]; [0]] [a; b]) (tabs grid3 4)) (tabs grid3 4).
Definition shapes3 : list (list (list var) * list (nat * nat) * list (list nat)) :=
  [ ([[0; 1]; [1; 2]; [2; 3]], [(0, 1); (1, 2)], [[1]; [0; 2]; [1]]);     (* chain, hub in the middle *)
    ([[1; 2]; [0; 1]; [2; 3]], [(0, 1); (0, 2)], [[1; 2]; [0]; [0]]);     (* chain, hub first *)
    ([[0; 1]; [2; 3]; [1; 2]], [(2, 0); (1, 2)], [[2]; [2]; [0; 1]]);     (* chain, hub last *)
    ([[0; 1]; [0; 2]; [0; 3]], [(0, 1); (2, 0)], [[1; 2]; [0]; [0]]) ].   (* star around variable 0 *)
Definition trees3 : list (ctree D) :=
  flat_map (fun sh => let '(cl, es, ad) := sh in
    flat_map (fun a => flat_map (fun b => map (fun c => mk cl es ad [a; b; c]) (tabs grid2 4)) (tabs grid2 4))
             (tabs grid2 4)) shapes3.
Definition trees_upto3 : list (ctree D) := trees1 ++ trees2 ++ trees3.
End Fin.

From Coq Require Import QArith Qcanon.
Local Open Scope Qc_scope.
Definition g3 : list Qc := [0; 1; Q2Qc (2 # 1)].
Definition g2 : list Qc := [0; 1].

Lemma fin_sum_1 : forallb (calibratedb Qc_sum_dsr) (trees1 Qc_sum_dsr g3) = true.
Proof. vm_compute. reflexivity. Qed.
Lemma fin_max_1 : forallb (calibratedb Qc_max_dsr) (trees1 Qc_max_dsr g3) = true.
Proof. vm_compute. reflexivity. Qed.
Lemma fin_sum_2 : forallb (calibratedb Qc_sum_dsr) (trees2 Qc_sum_dsr g3) = true.
Proof. vm_compute. reflexivity. Qed.
Lemma fin_max_2 : forallb (calibratedb Qc_max_dsr) (trees2 Qc_max_dsr g3) = true.
Proof. vm_compute. reflexivity. Qed.
Lemma fin_sum_3 : forallb (calibratedb Qc_sum_dsr) (trees3 Qc_sum_dsr g2) = true.
Proof. vm_compute. reflexivity. Qed.
Lemma fin_max_3 : forallb (calibratedb Qc_max_dsr) (trees3 Qc_max_dsr g2) = true.
Proof. vm_compute. reflexivity. Qed.

Theorem schedule_calibrates_upto3 :
  (forall t, In t (trees_upto3 Qc_sum_dsr g3 g2) -> calibratedb Qc_sum_dsr t = true) /\
  (forall t, In t (trees_upto3 Qc_max_dsr g3 g2) -> calibratedb Qc_max_dsr t = true).
Proof.
  split; intros t Ht; unfold trees_upto3 in Ht; apply in_app_or in Ht; destruct Ht as [Ht|Ht];
    try (apply in_app_or in Ht; destruct Ht as [Ht|Ht]).
  - exact (proj1 (forallb_forall _ _) fin_sum_1 t Ht).
  - exact (proj1 (forallb_forall _ _) fin_sum_2 t Ht).
  - exact (proj1 (forallb_forall _ _) fin_sum_3 t Ht).
  - exact (proj1 (forallb_forall _ _) fin_max_1 t Ht).
  - exact (proj1 (forallb_forall _ _) fin_max_2 t Ht).
  - exact (proj1 (forallb_forall _ _) fin_max_3 t Ht).
Qed.

(* One root is NOT enough: the pull phase only pulls from the root's neighbours (their initial
   potentials), so after pull + BFS push from the first root the root itself has not seen cliques at
   distance 2.  Witness: the chain {0,1}-{1,2}-{2,3} with all-one tables, root = clique 0. *)
Definition chain3_ones : ctree Qc_sum_dsr :=
  mk Qc_sum_dsr [[0; 1]; [1; 2]; [2; 3]]%nat [(0, 1); (1, 2)]%nat [[1]; [0; 2]; [1]]%nat
     [[1; 1; 1; 1]; [1; 1; 1; 1]; [1; 1; 1; 1]].
Lemma first_root_not_enough :
  is_converged Qc_sum_dsr card2 chain3_ones
    (root_round Qc_sum_dsr card2 chain3_ones (init_state Qc_sum_dsr chain3_ones) 0%nat) = false /\
  calibratedb Qc_sum_dsr chain3_ones = true.
Proof. vm_compute. split; reflexivity. Qed.
