(* C02: the symbolic schedule certificate holds for EVERY tree.  In the round rooted at r every tree edge
   gets a BFS message from its r-side end p to the far end c, after which p receives nothing more; the
   far end only ever receives from p.  Hence: consistency from x's side of an edge {x,y}, once known, is
   still known at the end of every later round; the round rooted at x establishes it for all of x's
   edges and (through the pull phase) also consistency from y's side of every edge {y, x}.  After the
   rounds rooted at both ends of an edge, the edge is consistent from both sides. *)
From Coq Require Import List Arith Bool PeanoNat Lia.
From PV Require Import Base.RefFactor C02.Dsr C02.Model C02.Cert C02.ProofsInv C02.ProofsBfs.
Import ListNotations.

Definition tstep (cons : list (nat * nat)) (m : nat * nat) : list (nat * nat) :=
  (fst m, snd m) :: filter (fun xy => negb ((fst xy =? snd m) && negb (snd xy =? fst m))) cons.

Lemma tstep_keep x y C M : In (x, y) C -> (forall u v, In (u, v) M -> v = x -> u = y) ->
  In (x, y) (fold_left tstep M C).
Proof.
  revert C. induction M as [|[u v] M IH]; intros C HC HM; [exact HC|]. simpl. apply IH.
  - right. apply filter_In. split; [exact HC|]. simpl.
    destruct (Nat.eqb_spec x v) as [->|]; [|reflexivity].
    rewrite (HM u v (or_introl eq_refl) eq_refl). rewrite Nat.eqb_refl. reflexivity.
  - intros u' v' H. apply HM. right. exact H.
Qed.
Lemma tstep_make x y C M1 M2 : (forall u v, In (u, v) M2 -> v = x -> u = y) ->
  In (x, y) (fold_left tstep (M1 ++ (x, y) :: M2) C).
Proof.
  intros HM. rewrite fold_left_app. simpl. apply tstep_keep; [left; reflexivity|exact HM].
Qed.

Lemma find_edge_complete es u v : forall k0, adjacent es u v -> find_edge es u v k0 <> None.
Proof.
  induction es as [|[a b] es IH]; intros k0 [H|H]; try (destruct H; fail); simpl.
  - destruct H as [E|H]; [inversion E; subst; rewrite !Nat.eqb_refl; simpl; discriminate|].
    destruct (((a =? u) && (b =? v)) || ((a =? v) && (b =? u))); [discriminate|]. apply IH. left. exact H.
  - destruct H as [E|H]; [inversion E; subst; rewrite !Nat.eqb_refl; simpl; rewrite orb_true_r; discriminate|].
    destruct (((a =? u) && (b =? v)) || ((a =? v) && (b =? u))); [discriminate|]. apply IH. right. exact H.
Qed.

Section Tree.
Variable D : dsr.
Variable t : ctree D.
Let n := length (cliques D t).
Let es := tedges D t.
Hypothesis HT : tree_shape n es (adj D t).

Lemma fold_track_tstep M : (forall u v, In (u, v) M -> adjacent es u v) ->
  forall C, fold_left (track_step D t) M C = fold_left tstep M C.
Proof.
  induction M as [|[u v] M IH]; intros HM C; [reflexivity|]. simpl.
  assert (Hs : track_step D t C (u, v) = tstep C (u, v)).
  { unfold track_step, tstep. cbn [fst snd]. fold es.
    destruct (find_edge es u v 0) eqn:E; [reflexivity|]. exfalso.
    apply (find_edge_complete es u v 0 (HM u v (or_introl eq_refl))). exact E. }
  rewrite Hs. apply IH. intros u' v' H. apply HM. right. exact H.
Qed.

(* one round *)
Lemma round_props r C x y : r < n -> adjacent es x y ->
  let C' := track_round D t C r in
  (In (x, y) C -> In (x, y) C') /\ (x = r -> In (x, y) C') /\ (y = r -> In (x, y) C').
Proof.
  intros Hr Hxy. cbv zeta. unfold track_round, round_msgs.
  set (pulls := map (fun nb => (nb, r)) (nth r (adj D t) [])).
  set (E := bfs_edges (adj D t) r).
  assert (Hpull : forall u v, In (u, v) pulls -> v = r /\ In u (nth r (adj D t) [])).
  { intros u v H. unfold pulls in H. apply in_map_iff in H. destruct H as [nb [Eq Hnb]]. inversion Eq; subst. auto. }
  assert (Hadjm : forall u v, In (u, v) (pulls ++ E) -> adjacent es u v).
  { intros u v H. apply in_app_or in H. destruct H as [H|H].
    - destruct (Hpull u v H) as [-> Hu]. apply adjacent_sym. apply (ts_adj n es _ HT r u Hr). exact Hu.
    - apply (bfs_edges_adjacent n es _ HT r Hr). exact H. }
  rewrite (fold_track_tstep _ Hadjm).
  pose proof (bfs_edges_chain (adj D t) r) as Hch. fold E in Hch.
  assert (Huniq : forall u v w, In (u, v) E -> In (w, v) E -> u = w).
  { intros u v w. apply (chain_ok_target_unique E [r]). exact Hch. }
  assert (Hnr : forall u, ~ In (u, r) E).
  { intros u H. apply (chain_ok_fresh E [r] Hch u r H). left. reflexivity. }
  destruct (bfs_edges_cover n es _ HT r Hr x y Hxy) as [Hin|Hin]; fold E in Hin.
  - (* x is the BFS parent of y: sent after x's own (unique) incoming message *)
    assert (Hgoal : In (x, y) (fold_left tstep (pulls ++ E) C)).
    { apply in_split in Hin. destruct Hin as [l1 [l2 HE]]. rewrite HE, app_assoc. apply tstep_make.
      intros u v Huv ->. exfalso. rewrite HE in Hch.
      destruct (chain_ok_split l1 [r] x y l2 Hch) as [A [_ Cc]]. apply (Cc u x Huv). right. exact A. }
    repeat split; intros; exact Hgoal.
  - (* y is the BFS parent of x: x receives from y only *)
    assert (Hxr : x <> r) by (intros ->; apply (Hnr y); exact Hin).
    assert (Honly : forall u v, In (u, v) E -> v = x -> u = y).
    { intros u v H ->. apply (Huniq u x y H Hin). }
    split; [|split].
    + intros HC. apply tstep_keep; [exact HC|]. intros u v H Hv. apply in_app_or in H. destruct H as [H|H].
      * destruct (Hpull u v H) as [Hv' _]. congruence.
      * apply (Honly u v H Hv).
    + intros Hx. contradiction.
    + intros ->. assert (Hp : In (x, r) pulls).
      { unfold pulls. apply in_map_iff. exists x. split; [reflexivity|].
        apply (ts_adj n es _ HT r x Hr). apply adjacent_sym. exact Hxy. }
      apply in_split in Hp. destruct Hp as [p1 [p2 Hp]]. rewrite Hp, <- app_assoc. simpl. apply tstep_make.
      intros u v H Hv. apply in_app_or in H. destruct H as [H|H].
      * assert (H' : In (u, v) pulls) by (rewrite Hp; apply in_or_app; right; right; exact H).
        destruct (Hpull u v H') as [Hv' _]. congruence.
      * apply (Honly u v H Hv).
Qed.

(* all rounds, any root order *)
Lemma rounds_props R : forall C x y, (forall r, In r R -> r < n) -> adjacent es x y ->
  In (x, y) C \/ In x R \/ In y R -> In (x, y) (fold_left (track_round D t) R C).
Proof.
  induction R as [|r R IH]; intros C x y HR Hxy H; simpl.
  - destruct H as [H|[[]|[]]]. exact H.
  - assert (Hr : r < n) by (apply HR; left; reflexivity).
    destruct (round_props r C x y Hr Hxy) as [A [B Cc]].
    apply IH; [intros r' H'; apply HR; right; exact H'|exact Hxy|].
    destruct H as [H|[[H|H]|[H|H]]]; auto.
Qed.

Lemma In_memp x y l : In (x, y) l -> memp x y l = true.
Proof.
  intros H. unfold memp. apply existsb_exists. exists (x, y). split; [exact H|]. simpl. rewrite !Nat.eqb_refl. reflexivity.
Qed.

Theorem sched_chk_tree : sched_chk D t = true.
Proof.
  unfold sched_chk, full_cons. apply forallb_forall. intros k Hk. apply in_seq in Hk. fold es.
  destruct (nth k es (0, 0)) as [i j] eqn:Ek. cbn [fst snd].
  assert (Hin : In (i, j) es) by (rewrite <- Ek; apply nth_In; unfold all_ed in Hk; fold es in Hk; lia).
  assert (Hij : adjacent es i j) by (left; exact Hin).
  destruct (adjacent_rng n es _ HT i j Hij) as [Hi [Hj _]].
  assert (HR : forall r, In r (all_cl D t) -> r < n) by (intros r Hr; apply in_seq in Hr; fold n in Hr; lia).
  assert (Hi' : In i (all_cl D t)) by (apply in_seq; fold n; lia).
  rewrite (In_memp i j), (In_memp j i).
  2:{ apply rounds_props; [exact HR|apply adjacent_sym; exact Hij|]. right. right. exact Hi'. }
  2:{ apply rounds_props; [exact HR|exact Hij|]. right. left. exact Hi'. }
  simpl. destruct (find_edge es i j 0) as [k'|] eqn:Ef; [|exfalso; apply (find_edge_complete es i j 0 Hij Ef)].
  apply Nat.eqb_eq. apply find_edge_spec in Ef. rewrite Nat.sub_0_r in Ef. destruct Ef as [_ [Hk' Hn']].
  assert (Hc : nth k' (map canon es) (0, 0) = nth k (map canon es) (0, 0)).
  { change (0, 0) with (canon (0, 0)). rewrite !map_nth, Ek. destruct Hn' as [-> | ->]; [reflexivity|apply canon_sym]. }
  apply (proj1 (NoDup_nth (map canon es) (0, 0)) (ts_nodup n es _ HT)); [rewrite map_length; exact Hk'| |exact Hc].
  rewrite map_length. unfold all_ed in Hk. fold es in Hk. lia.
Qed.
End Tree.

(* ---- a boolean check of [tree_shape], sound; applied to pgmpy's own tree on every run ------------------- *)
Lemma adjacentb_spec es x y : adjacentb es x y = true <-> adjacent es x y.
Proof.
  unfold adjacentb, adjacent. rewrite existsb_exists. split.
  - intros [[a b] [Hin H]]. simpl in H. apply orb_true_iff in H.
    destruct H as [H|H]; apply andb_true_iff in H; destruct H as [H1 H2]; apply Nat.eqb_eq in H1, H2; subst; auto.
  - intros [H|H]; [exists (x, y)|exists (y, x)]; (split; [exact H|]); simpl; rewrite !Nat.eqb_refl; simpl;
      [reflexivity|apply orb_true_r].
Qed.
Lemma nodupb_NoDup l : nodupb l = true -> NoDup l.
Proof.
  assert (Hl : forall l, length (dedup l) <= length l).
  { intros l0. induction l0 as [|x l0 IH]; simpl; [lia|]. destruct (memn x l0); simpl; lia. }
  unfold nodupb. induction l as [|x l IH]; intros H; [constructor|]. apply Nat.eqb_eq in H. simpl in H.
  pose proof (Hl l) as Hll. destruct (memn x l) eqn:E; simpl in H; [lia|].
  constructor; [intros Hin; apply memn_In' in Hin; congruence|]. apply IH. apply Nat.eqb_eq. lia.
Qed.
Lemma chain_reach es E : forall S, chain_ok S E -> (forall p c, In (p, c) E -> adjacent es p c) ->
  (forall s, In s S -> reach es 0 s) -> forall x, In x (map snd E) -> reach es 0 x.
Proof.
  induction E as [|[p c] E IH]; intros S H Ha Hs x Hx; [destruct Hx|]. simpl in H. destruct H as [H1 [_ H3]].
  assert (Hc : reach es 0 c).
  { eapply reach_trans; [apply Hs; exact H1|]. econstructor; [apply (Ha p c); left; reflexivity|constructor]. }
  destruct Hx as [<-|Hx]; [exact Hc|].
  apply (IH (c :: S) H3); [intros p' c' H; apply Ha; right; exact H| |exact Hx].
  intros s [<-|H]; [exact Hc|apply Hs; exact H].
Qed.

Theorem tree_shape_chk_sound n es adj : tree_shape_chk n es adj = true -> tree_shape n es adj.
Proof.
  unfold tree_shape_chk. rewrite !andb_true_iff. intros [[[[[[H1 H2] H3] H4] H5] H6] H7].
  apply Nat.ltb_lt in H1. apply Nat.eqb_eq in H2, H6. rewrite forallb_forall in H3, H4, H7.
  assert (Hrng : forall u v, In (u, v) es -> u < n /\ v < n /\ u <> v).
  { intros u v H. specialize (H4 (u, v) H). simpl in H4. rewrite !andb_true_iff in H4.
    destruct H4 as [[[[A B] C] _] _]. apply Nat.ltb_lt in A, B. apply negb_true_iff, Nat.eqb_neq in C. auto. }
  assert (Hadj : forall x y, x < n -> In y (nth x adj []) <-> adjacent es x y).
  { intros x y Hx. split.
    - intros Hy. apply adjacentb_spec. assert (Hs : In x (seq 0 n)) by (apply in_seq; lia).
      specialize (H3 x Hs). rewrite forallb_forall in H3. apply H3. exact Hy.
    - intros [H|H]; specialize (H4 _ H); simpl in H4; rewrite !andb_true_iff in H4;
        destruct H4 as [[_ A] B]; apply memn_In'; assumption. }
  constructor; try assumption.
  - (* distinct undirected edges *)
    apply nodupb_NoDup in H5. clear - H5 Hrng.
    induction es as [|[u v] es IH]; [constructor|]. simpl in *. inversion H5 as [|? ? Hn Hd]; subst.
    constructor; [|apply IH; [exact Hd|intros a b H; apply Hrng; right; exact H]].
    intros Hin. apply Hn. apply in_map_iff in Hin. destruct Hin as [e [Ee He]]. apply in_map_iff.
    exists e. split; [|exact He]. unfold pair_code. rewrite Ee. reflexivity.
  - (* connected *)
    intros x Hx. assert (Hs : In x (seq 0 n)) by (apply in_seq; lia). specialize (H7 x Hs).
    apply memn_In' in H7. destruct H7 as [<-|H7]; [constructor|].
    apply (chain_reach es (bfs_edges adj 0) [0]); [apply bfs_chain; intros z Hz; exact Hz| | |exact H7].
    + intros p c H. unfold bfs_edges in H. apply bfs_adj in H.
      destruct (Nat.lt_ge_cases p n) as [Hp|Hp]; [apply (Hadj p c Hp); exact H|].
      rewrite nth_overflow in H by lia. destruct H.
    + intros s [<-|[]]. constructor.
Qed.

(* ---- the schedule theorem without any per-tree certificate ------------------------------------------------ *)
From PV Require Import Base.Semiring Base.FinSum C02.Spec C02.ProofsPeel C02.ProofsSched.
Definition is_tree (D : dsr) (t : ctree D) : Prop :=
  tree_shape (length (cliques D t)) (tedges D t) (adj D t).
Theorem schedule_calibrates (D : dsr) (card : var -> nat) (t : ctree D) :
  tree_ok D card t -> is_tree D t ->
  all_edges_set D t (calibrate D card t) /\ sepset_agree D card t (calibrate D card t).
Proof. intros Htok HT. apply sched_chk_calibrates; [exact Htok|apply sched_chk_tree; exact HT]. Qed.
Theorem calibrate_is_marginal (D : dsr) (card : var -> nat) (t : ctree D) :
  tree_ok D card t -> is_tree D t ->
  forall order r, peels D t (all_cl D t) (all_ed D t) order [r] [] ->
  forall a, valid card a ->
    feval D card (belief D card (calibrate D card t) r) a =
    sum_over (pvars D card t (calibrate D card t) order) (map card (pvars D card t (calibrate D card t) order))
             (joint D card t) a.
Proof. intros Htok HT. apply sched_chk_marginal; [exact Htok|apply sched_chk_tree; exact HT]. Qed.
Theorem tree_chk_sound (D : dsr) (t : ctree D) :
  tree_shape_chk (length (cliques D t)) (tedges D t) (adj D t) = true -> is_tree D t.
Proof. apply tree_shape_chk_sound. Qed.

(* non-vacuity: a chain of three cliques, the hub in the middle, is a tree *)
Example is_tree_chain3 : is_tree Qc_sum_dsr
  {| cliques := [[0; 1]; [1; 2]; [2; 3]]; tedges := [(0, 1); (1, 2)]; adj := [[1]; [0; 2]; [1]]; pots := [] |}.
Proof. apply tree_chk_sound. vm_compute. reflexivity. Qed.
