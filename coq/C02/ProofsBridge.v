(* C02 <-> C14 bridge, part 1: C14's clique-tree notions (Spec.is_tree: connected with n-1 edges; Spec.rip:
   for every variable the cliques holding it are connected among themselves) imply C02's
   (ProofsBfs.tree_shape; Spec.peels: a leaf-elimination order ending in any chosen clique). *)
From Coq Require Import List Arith Bool PeanoNat Lia.
From PV Require Base.Reach Base.Graph C14.UGraph C14.Model C14.Spec C14.ProofsJT C14.ProofsRIP.
From PV Require Import Base.Semiring Base.Ravel Base.FinSum Base.RefFactor
  C02.Dsr C02.Model C02.Spec C02.Cert C02.ProofsInv C02.ProofsPeel C02.ProofsBfs.
Import ListNotations.

Notation Rreach := (Base.Reach.reach nat).
Notation tnext := C14.Model.tnext.
Notation conn_on := C14.Spec.conn_on.
Notation Adj := C14.UGraph.Adj.

Lemma Rreach_to_reach E S i j : Rreach (tnext E S) [i] j -> reach E i j.
Proof.
  induction 1 as [x Hx|x y _ IH Hy].
  - destruct Hx as [<-|[]]. constructor.
  - apply C14.ProofsRIP.In_tnext in Hy. destruct Hy as [Hy _].
    eapply reach_trans; [exact IH|]. econstructor; [exact Hy|constructor].
Qed.

Lemma Rreach_adj_sub E E' S i j : (forall x y, x <> y -> Adj E x y -> Adj E' x y) ->
  Rreach (tnext E S) [i] j -> Rreach (tnext E' S) [i] j.
Proof.
  intros Hs. induction 1 as [x Hx|x y _ IH Hy]; [apply Base.Reach.reach_src; exact Hx|].
  apply C14.ProofsRIP.In_tnext in Hy. destruct Hy as [Hy HyS].
  destruct (Nat.eq_dec x y) as [->|Hne]; [exact IH|].
  eapply Base.Reach.reach_step; [exact IH|]. apply C14.ProofsRIP.In_tnext. split; [apply Hs; assumption|exact HyS].
Qed.

(* a connected graph on n vertices with n-1 edges: dropping one edge entry whose adjacency is still provided by the
   others is impossible *)
Lemma tree_no_redundant_entry (E l1 l2 : list (nat * nat)) e0 V :
  NoDup V -> V <> [] -> conn_on E V -> length E + 1 = length V -> E = l1 ++ e0 :: l2 ->
  (forall x y, x <> y -> Adj E x y -> Adj (l1 ++ l2) x y) -> False.
Proof.
  intros HV Hne Hc Hlen HE Hs.
  assert (Hc' : conn_on (l1 ++ l2) V).
  { intros i j Hi Hj. apply (Rreach_adj_sub E (l1 ++ l2) V i j Hs). apply Hc; assumption. }
  pose proof (C14.ProofsRIP.conn_edges_lower (l1 ++ l2) V HV Hne Hc') as H1.
  pose proof (C14.ProofsRIP.count_le_length (C14.ProofsRIP.inside V) (l1 ++ l2)) as H2.
  rewrite HE in Hlen. rewrite !app_length in *. simpl in Hlen. lia.
Qed.

Lemma dup_canon_split (E : list (nat * nat)) :
  NoDup (map canon E) \/
  exists l1 e1 l2 e2 l3, E = l1 ++ e1 :: l2 ++ e2 :: l3 /\ canon e1 = canon e2.
Proof.
  induction E as [|e r IH]; [left; constructor|].
  destruct (in_dec (fun a b : nat * nat => ltac:(decide equality; apply Nat.eq_dec)) (canon e) (map canon r)) as [Hin|Hn].
  - right. apply in_map_iff in Hin. destruct Hin as [e2 [Hc Hin]]. apply in_split in Hin.
    destruct Hin as [l2 [l3 ->]]. exists [], e, l2, e2, l3. split; [reflexivity|symmetry; exact Hc].
  - destruct IH as [IH|[l1 [e1 [l2 [e2 [l3 [-> Hc]]]]]]].
    + left. simpl. constructor; assumption.
    + right. exists (e :: l1), e1, l2, e2, l3. split; [reflexivity|exact Hc].
Qed.

Section Bridge.
Variable D : dsr.
Variable t : ctree D.
Let n := length (cliques D t).
Let es := tedges D t.
Definition jt_of : C14.Model.jtree := {| C14.Model.jcliques := cliques D t; C14.Model.jedges := tedges D t |}.

(* the adjacency lists, in any order, list exactly the neighbours *)
Definition adj_ok : Prop :=
  length (adj D t) = n /\ forall x y, x < n -> (In y (nth x (adj D t) []) <-> adjacent es x y).

Hypothesis Htree : C14.Spec.is_tree jt_of.

Lemma bridge_seq_nonempty : seq 0 n <> [].
Proof.
  intros E. assert (H0 : length (seq 0 n) = 0) by (rewrite E; reflexivity). rewrite seq_length in H0.
  destruct Htree as [H _]. assert (Hx : 0 < n) by exact H. lia.
Qed.

Lemma bridge_noloop a : ~ In (a, a) es.
Proof.
  intros Hin. destruct Htree as (Hpos & Hrng & Hlen & Hconn). cbn in Hlen, Hconn. fold n es in Hlen, Hconn.
  apply in_split in Hin. destruct Hin as [l1 [l2 HE]].
  apply (tree_no_redundant_entry es l1 l2 (a, a) (seq 0 n)); try assumption.
  - apply seq_NoDup.
  - apply bridge_seq_nonempty.
  - rewrite seq_length. exact Hlen.
  - intros x y Hne [H|H]; rewrite HE in H; apply in_app_or in H; [left|right]; apply in_or_app;
      (destruct H as [H|[H|H]]; [left; exact H|inversion H; subst; contradiction|right; exact H]).
Qed.

Lemma bridge_nodup : NoDup (map canon es).
Proof.
  destruct (dup_canon_split es) as [H|[l1 [e1 [l2 [e2 [l3 [HE Hc]]]]]]]; [exact H|exfalso].
  destruct Htree as (Hpos & Hrng & Hlen & Hconn). cbn in Hlen, Hconn. fold n es in Hlen, Hconn.
  apply (tree_no_redundant_entry es (l1 ++ e1 :: l2) l3 e2 (seq 0 n)); try assumption.
  - apply seq_NoDup.
  - apply bridge_seq_nonempty.
  - rewrite seq_length. exact Hlen.
  - rewrite HE, <- app_assoc. reflexivity.
  - intros x y Hne Hxy.
    assert (Hgen : forall u v, In (u, v) es -> In (u, v) ((l1 ++ e1 :: l2) ++ l3) \/ (u, v) = e2).
    { intros u v H. rewrite HE in H. apply in_app_or in H. destruct H as [H|[H|H]].
      - left. apply in_or_app. left. apply in_or_app. left. exact H.
      - left. apply in_or_app. left. apply in_or_app. right. left. exact H.
      - apply in_app_or in H. destruct H as [H|[H|H]].
        + left. apply in_or_app. left. apply in_or_app. right. right. exact H.
        + right. symmetry. exact H.
        + left. apply in_or_app. right. exact H. }
    assert (He1 : In e1 ((l1 ++ e1 :: l2) ++ l3)) by (apply in_or_app; left; apply in_or_app; right; left; reflexivity).
    destruct e1 as [a b]. destruct e2 as [c d]. apply canon_eq in Hc.
    destruct Hxy as [H|H]; destruct (Hgen _ _ H) as [H'|H'].
    + left. exact H'.
    + inversion H'; subst. destruct Hc as [Hc|Hc]; inversion Hc; subst; [left|right]; exact He1.
    + right. exact H'.
    + inversion H'; subst. destruct Hc as [Hc|Hc]; inversion Hc; subst; [right|left]; exact He1.
Qed.

Theorem bridge_tree_shape : adj_ok -> tree_shape n es (adj D t).
Proof.
  intros [Hal Hadj]. destruct Htree as (Hpos & Hrng & Hlen & Hconn). cbn in Hpos, Hrng, Hlen, Hconn.
  fold n es in Hpos, Hrng, Hlen, Hconn. constructor.
  - exact Hpos.
  - exact Hal.
  - exact Hadj.
  - intros u v H. destruct (Hrng (u, v) H) as [H1 H2]. simpl in H1, H2. repeat split; try assumption.
    intros ->. apply (bridge_noloop v). exact H.
  - apply bridge_nodup.
  - assert (Hx : length es + 1 = n) by exact Hlen. lia.
  - intros x Hx. assert (Hp : 0 < n) by exact Hpos.
    assert (H0 : In 0 (seq 0 n)) by (apply in_seq; lia). assert (H1 : In x (seq 0 n)) by (apply in_seq; lia).
    apply (Rreach_to_reach es (seq 0 n)). apply Hconn; assumption.
Qed.
End Bridge.
