(* C02: the belief-update invariant.  Every message (in any schedule) preserves
     joint(a) = prod_i beta_i(a) * prod_k inv(mu_k(a))          (inv 0 = 0; absent mu counts as 1)
   together with non-negativity, the scopes, and the support invariant
     mu_k(a) = 0  ->  both end cliques' beliefs vanish at a
   which is the guard under which the model's totalised division equals pgmpy's (no x/0 with x<>0). *)
From Coq Require Import List Arith Bool PeanoNat Lia.
From PV Require Import Base.Semiring Base.Ravel Base.FinSum Base.RefFactor Base.VE C02.Dsr C02.Model C02.Spec.
Import ListNotations.

(* ---- list plumbing ---------------------------------------------------------------------- *)
Lemma length_set_nth {A} (x : A) l : forall n, length (set_nth n x l) = length l.
Proof. induction l as [|y l IH]; intros [|n]; simpl; auto. Qed.
Lemma nth_set_nth_eq {A} (x d : A) l : forall n, n < length l -> nth n (set_nth n x l) d = x.
Proof. induction l as [|y l IH]; intros [|n] H; simpl in *; try lia; auto. apply IH. lia. Qed.
Lemma nth_set_nth_neq {A} (x d : A) l : forall n m, n <> m -> nth m (set_nth n x l) d = nth m l d.
Proof. induction l as [|y l IH]; intros [|n] [|m] H; simpl; auto; try lia. Qed.
Lemma set_nth_split {A} (x d : A) l : forall n, n < length l ->
  exists l1 l2, l = l1 ++ nth n l d :: l2 /\ set_nth n x l = l1 ++ x :: l2.
Proof.
  induction l as [|y l IH]; intros [|n] H; simpl in *; try lia.
  - exists [], l. split; reflexivity.
  - destruct (IH n) as [l1 [l2 [E1 E2]]]; [lia|]. exists (y :: l1), l2. simpl. rewrite <- E1, E2. split; reflexivity.
Qed.

Lemma find_edge_spec es : forall i j k0 k, find_edge es i j k0 = Some k ->
  k0 <= k /\ k - k0 < length es /\
  (nth (k - k0) es (0, 0) = (i, j) \/ nth (k - k0) es (0, 0) = (j, i)).
Proof.
  induction es as [|[u v] es IH]; intros i j k0 k H; simpl in H; [discriminate|].
  destruct (((u =? i) && (v =? j)) || ((u =? j) && (v =? i))) eqn:E.
  - inversion H; subst. rewrite Nat.sub_diag. simpl. split; [lia|split; [lia|]].
    apply orb_true_iff in E. destruct E as [E|E]; apply andb_true_iff in E; destruct E as [E1 E2];
      apply Nat.eqb_eq in E1, E2; subst; auto.
  - apply IH in H. destruct H as [H1 [H2 H3]]. split; [lia|]. simpl.
    replace (k - k0) with (S (k - S k0)) by lia. split; [lia|exact H3].
Qed.

Section Inv.
Variable D : dsr.
Variable card : var -> nat.
Notation factor := (RefFactor.factor D).
Notation feval := (RefFactor.feval D card).
Notation valid := (RefFactor.valid card).
Notation wf := (RefFactor.wf D card).
Notation ctree := (ctree D).
Notation bstate := (bstate D).
Notation fprod := (RefFactor.fprod D card).
Notation fmarg := (RefFactor.fmarg D card).
Notation fone := (RefFactor.fone D card).

Definition same_vars (a b : list var) : Prop := forall v, In v a <-> In v b.
Definition fnn (f : factor) : Prop := forall a, valid a -> nn (feval f a).
(* inv of an optional sepset belief at a *)
Definition sinv (a : asg) (o : option factor) : D :=
  match o with Some mu => inv (feval mu a) | None => one end.
Definition bprod (st : bstate) (a : asg) : D := prod_list (map (fun f => feval f a) (bel D st)).
Definition sprod (st : bstate) (a : asg) : D := prod_list (map (sinv a) (sep D st)).

Record Inv (t : ctree) (st : bstate) : Prop := {
  inv_len_b : length (bel D st) = length (cliques D t);
  inv_len_s : length (sep D st) = length (tedges D t);
  inv_wf : forall i, i < length (cliques D t) ->
             wf (belief D card st i) /\ same_vars (fvars (belief D card st i)) (clq D t i) /\ fnn (belief D card st i);
  inv_sep : forall k mu, k < length (tedges D t) -> nth k (sep D st) None = Some mu ->
              wf mu /\ fnn mu /\
              same_vars (fvars mu) (sepset D t (fst (nth k (tedges D t) (0, 0))) (snd (nth k (tedges D t) (0, 0))));
  inv_R : forall a, valid a -> joint D card t a = mul (bprod st a) (sprod st a);
  inv_supp : forall k mu i j, k < length (tedges D t) -> nth k (sep D st) None = Some mu ->
               nth k (tedges D t) (0, 0) = (i, j) ->
               forall a, valid a -> feval mu a = zero ->
                 feval (belief D card st i) a = zero /\ feval (belief D card st j) a = zero
}.

(* what the harness input must satisfy (checked by Run.wf_tree / pots_ok, plus non-negative tables) *)
Record tree_ok (t : ctree) : Prop := {
  tok_len : length (pots D t) = length (cliques D t);
  tok_pots : forall i, i < length (cliques D t) ->
      wf (nth i (pots D t) fone) /\ same_vars (fvars (nth i (pots D t) fone)) (clq D t i) /\
      fnn (nth i (pots D t) fone);
  tok_edges : forall k, k < length (tedges D t) ->
      fst (nth k (tedges D t) (0, 0)) < length (cliques D t) /\
      snd (nth k (tedges D t) (0, 0)) < length (cliques D t) /\
      fst (nth k (tedges D t) (0, 0)) <> snd (nth k (tedges D t) (0, 0))
}.

(* ---- sums of non-negative terms --------------------------------------------------------- *)
Lemma nn_sum_over_valid vs : forall (g : asg -> D) a, valid a ->
  (forall b, valid b -> nn (g b)) -> nn (sum_over vs (map card vs) g a).
Proof.
  induction vs as [|v vs IH]; intros g a Ha H; [apply H; exact Ha|].
  cbn [map sum_over]. apply nn_sum_list. apply Forall_forall. intros x Hx.
  apply in_map_iff in Hx. destruct Hx as [i [<- Hi]]. apply in_seq in Hi.
  apply IH; [apply valid_upd; [exact Ha|lia]|exact H].
Qed.

Lemma sum_over_nn_zero vs : forall (g : asg -> D) a, ext g -> valid a ->
  (forall b, valid b -> nn (g b)) -> sum_over vs (map card vs) g a = zero -> g a = zero.
Proof.
  induction vs as [|v vs IH]; intros g a Hg Ha Hnn Hz; [exact Hz|].
  cbn [map sum_over] in Hz.
  assert (Hterm : sum_over vs (map card vs) g (upd a v (a v)) = zero).
  { apply (sum_list_zsf D _) with (x := sum_over vs (map card vs) g (upd a v (a v))) in Hz; [exact Hz| |].
    - apply Forall_forall. intros x Hx. apply in_map_iff in Hx. destruct Hx as [i [<- Hi]]. apply in_seq in Hi.
      apply nn_sum_over_valid; [apply valid_upd; [exact Ha|lia]|exact Hnn].
    - apply in_map_iff. exists (a v). split; [reflexivity|]. apply in_seq. split; [lia|]. simpl. apply Ha. }
  apply IH in Hterm; [|exact Hg|apply valid_upd; [exact Ha|apply Ha]|exact Hnn].
  rewrite <- Hterm. apply Hg. apply aeq_sym. apply upd_id.
Qed.

(* ---- the message sigma -------------------------------------------------------------------- *)
Lemma feval_fdiv0 (f g : factor) a : wf f -> valid a -> incl (fvars g) (fvars f) ->
  feval (fdiv0 D card f g) a = mul (feval f a) (inv (feval g a)).
Proof.
  intros [Hf _] Ha Hi. unfold fdiv0. apply feval_fbuild; [exact Hf|exact Ha|].
  intros x y Hxy. f_equal; [|f_equal].
  - apply feval_depends_only. exact Hxy.
  - apply feval_depends_only. intros v Hv. apply Hxy. apply Hi. exact Hv.
Qed.
Lemma wf_fdiv0 (f g : factor) : wf f -> wf (fdiv0 D card f g).
Proof. intros [Hf _]. apply wf_fbuild. exact Hf. Qed.

Lemma sigma_eval (t : ctree) st i j a : wf (belief D card st i) -> valid a ->
  feval (sigma_of D card t st i j) a =
  sum_over (vinter (fvars (belief D card st i)) (vminus (clq D t i) (sepset D t i j)))
           (map card (vinter (fvars (belief D card st i)) (vminus (clq D t i) (sepset D t i j))))
           (feval (belief D card st i)) a.
Proof. intros Hw Ha. unfold sigma_of. apply feval_fmarg; assumption. Qed.

Lemma sigma_zero (t : ctree) st i j a : wf (belief D card st i) -> fnn (belief D card st i) -> valid a ->
  feval (sigma_of D card t st i j) a = zero -> feval (belief D card st i) a = zero.
Proof.
  intros Hw Hn Ha Hz. rewrite sigma_eval in Hz by assumption.
  eapply sum_over_nn_zero; [apply feval_ext|exact Ha|exact Hn|exact Hz].
Qed.
Lemma sigma_nn (t : ctree) st i j : wf (belief D card st i) -> fnn (belief D card st i) ->
  fnn (sigma_of D card t st i j).
Proof. intros Hw Hn a Ha. rewrite sigma_eval by assumption. apply nn_sum_over_valid; assumption. Qed.
Lemma sigma_wf (t : ctree) st i j : wf (belief D card st i) -> wf (sigma_of D card t st i j).
Proof. intros Hw. apply wf_fmarg. exact Hw. Qed.

Lemma In_vinter x a b : In x (vinter a b) <-> In x a /\ In x b.
Proof. unfold vinter. rewrite filter_In, memv_In. reflexivity. Qed.

(* scope of sigma = the sepset (as sets), given the belief's scope is the clique *)
Lemma sigma_vars (t : ctree) st i j : same_vars (fvars (belief D card st i)) (clq D t i) ->
  same_vars (fvars (sigma_of D card t st i j)) (sepset D t i j).
Proof.
  intros Hs v. unfold sigma_of. rewrite fvars_fmarg, In_vminus, In_vminus. unfold sepset.
  rewrite In_vinter. rewrite (Hs v). split.
  - intros [H1 H2]. split; [exact H1|].
    destruct (in_dec Nat.eq_dec v (clq D t j)) as [Hj|Hj]; [exact Hj|].
    exfalso. apply H2. split; [exact H1|]. intros [_ H]. contradiction.
  - intros [H1 H2]. split; [exact H1|]. intros [_ H]. apply H. split; assumption.
Qed.

(* ---- products with one entry replaced ------------------------------------------------------ *)
Lemma prod_map_split {A} (g : A -> D) l1 x l2 :
  prod_list (map g (l1 ++ x :: l2)) = mul (g x) (mul (prod_list (map g l1)) (prod_list (map g l2))).
Proof.
  rewrite map_app, prod_list_app. simpl.
  rewrite (mul_assoc D), (mul_comm D (prod_list (map g l1)) (g x)), <- (mul_assoc D). reflexivity.
Qed.

Lemma zero_in_bprod st a i : i < length (bel D st) -> feval (belief D card st i) a = zero -> bprod st a = zero.
Proof.
  intros Hi Hz. unfold bprod. apply prod_list_zero. rewrite <- Hz. apply in_map_iff.
  exists (belief D card st i). split; [reflexivity|]. unfold belief. apply nth_In. exact Hi.
Qed.

(* ---- one message preserves the invariant ---------------------------------------------------- *)
Lemma mul_swap_l (a b c : D) : mul a (mul b c) = mul b (mul a c).
Proof. rewrite (mul_assoc D a b c), (mul_comm D a b), <- (mul_assoc D b a c). reflexivity. Qed.
Lemma mul_swap_r (a b c : D) : mul (mul a b) c = mul (mul a c) b.
Proof. rewrite <- (mul_assoc D a b c), (mul_comm D b c), (mul_assoc D a c b). reflexivity. Qed.
Lemma shuffle6 (A sg s P io S : D) :
  mul (mul (mul A (mul sg s)) P) (mul io S) = mul (mul sg io) (mul (mul A P) (mul s S)).
Proof.
  rewrite (mul_swap_l A sg s).
  rewrite <- (mul_assoc D sg (mul A s) P).
  rewrite <- (mul_assoc D sg (mul (mul A s) P) (mul io S)).
  rewrite (mul_swap_l (mul (mul A s) P) io S).
  rewrite (mul_assoc D sg io).
  rewrite (mul_swap_r A s P).
  rewrite <- (mul_assoc D (mul A P) s S). reflexivity.
Qed.

Lemma sepset_sym (t : ctree) i j : same_vars (sepset D t i j) (sepset D t j i).
Proof. intros v. unfold sepset. rewrite !In_vinter. tauto. Qed.

Theorem update_preserves_Inv (t : ctree) (st : bstate) (i j : nat) :
  tree_ok t -> Inv t st -> Inv t (update D card t st i j).
Proof.
  intros Htok HI. unfold update. destruct (find_edge (tedges D t) i j 0) as [k|] eqn:Ek; [|exact HI].
  apply find_edge_spec in Ek. rewrite Nat.sub_0_r in Ek. destruct Ek as [_ [Hk Hnth]].
  destruct (tok_edges t Htok k Hk) as [He1 [He2 He3]].
  assert (Hi : i < length (cliques D t)) by (destruct Hnth as [E|E]; rewrite E in *; simpl in *; lia).
  assert (Hj : j < length (cliques D t)) by (destruct Hnth as [E|E]; rewrite E in *; simpl in *; lia).
  assert (Hij : i <> j) by (destruct Hnth as [E|E]; rewrite E in *; simpl in *; lia).
  destruct (inv_wf t st HI i Hi) as [Hwi [Hsi Hni]].
  destruct (inv_wf t st HI j Hj) as [Hwj [Hsj Hnj]].
  set (sigma := sigma_of D card t st i j).
  assert (Hws : wf sigma) by (apply sigma_wf; exact Hwi).
  assert (Hns : fnn sigma) by (apply sigma_nn; assumption).
  assert (Hvs : same_vars (fvars sigma) (sepset D t i j)) by (apply sigma_vars; exact Hsi).
  assert (Hek : same_vars (sepset D t (fst (nth k (tedges D t) (0, 0))) (snd (nth k (tedges D t) (0, 0))))
                          (sepset D t i j)).
  { destruct Hnth as [E|E]; rewrite E; simpl; [intros v; tauto|apply sepset_sym]. }
  set (old := nth k (sep D st) None).
  set (msg := match old with Some mu => fdiv0 D card sigma mu | None => sigma end).
  assert (Hmsg_wf : wf msg) by (unfold msg; destruct old; [apply wf_fdiv0|]; exact Hws).
  assert (Hmsg_vars : fvars msg = fvars sigma) by (unfold msg; destruct old; reflexivity).
  assert (Hmsg_eval : forall a, valid a -> feval msg a = mul (feval sigma a) (sinv a old)).
  { intros a Ha. unfold msg. destruct old as [mu|] eqn:Emu; simpl.
    - apply feval_fdiv0; [exact Hws|exact Ha|].
      destruct (inv_sep t st HI k mu Hk Emu) as [_ [_ Hsc]].
      intros v Hv. apply Hvs. apply Hek. apply Hsc. exact Hv.
    - symmetry. apply mul_1_r. }
  assert (Hsinv_nn : forall a, valid a -> nn (sinv a old)).
  { intros a Ha. destruct old as [mu|] eqn:Emu; simpl; [|apply nn_one].
    apply nn_inv. destruct (inv_sep t st HI k mu Hk Emu) as [_ [Hn _]]. apply Hn. exact Ha. }
  set (bj' := fprod (belief D card st j) msg).
  assert (Hwb' : wf bj') by (apply wf_fprod; assumption).
  assert (Hvb' : same_vars (fvars bj') (clq D t j)).
  { intros v. unfold bj'. rewrite fvars_fprod, In_vunion, Hmsg_vars, (Hvs v), (Hsj v). unfold sepset.
    rewrite In_vinter. tauto. }
  assert (Hbj'_eval : forall a, valid a ->
            feval bj' a = mul (feval (belief D card st j) a) (mul (feval sigma a) (sinv a old))).
  { intros a Ha. unfold bj'. rewrite feval_fprod by assumption. rewrite Hmsg_eval by exact Ha. reflexivity. }
  assert (Hlenb : j < length (bel D st)) by (rewrite (inv_len_b t st HI); exact Hj).
  assert (Hlens : k < length (sep D st)) by (rewrite (inv_len_s t st HI); exact Hk).
  set (st' := {| bel := set_nth j bj' (bel D st); sep := set_nth k (Some sigma) (sep D st) |}).
  assert (Hbel_j : belief D card st' j = bj').
  { unfold belief, st'. simpl. apply nth_set_nth_eq. exact Hlenb. }
  assert (Hbel_o : forall m, m <> j -> belief D card st' m = belief D card st m).
  { intros m Hm. unfold belief, st'. simpl. apply nth_set_nth_neq. congruence. }
  assert (Hsep_k : nth k (sep D st') None = Some sigma).
  { unfold st'. simpl. apply nth_set_nth_eq. exact Hlens. }
  assert (Hsep_o : forall m, m <> k -> nth m (sep D st') None = nth m (sep D st) None).
  { intros m Hm. unfold st'. simpl. apply nth_set_nth_neq. congruence. }
  assert (Hzero_j : forall a, valid a -> feval (belief D card st j) a = zero -> feval bj' a = zero).
  { intros a Ha Hz. rewrite Hbj'_eval by exact Ha. rewrite Hz. apply mul_0_l. }
  constructor.
  - unfold st'. simpl. rewrite length_set_nth. apply (inv_len_b t st HI).
  - unfold st'. simpl. rewrite length_set_nth. apply (inv_len_s t st HI).
  - intros m Hm. destruct (Nat.eq_dec m j) as [->|Hne].
    + rewrite Hbel_j. split; [exact Hwb'|split; [exact Hvb'|]].
      intros a Ha. rewrite Hbj'_eval by exact Ha. apply nn_mul; [apply Hnj; exact Ha|].
      apply nn_mul; [apply Hns; exact Ha|apply Hsinv_nn; exact Ha].
    + rewrite Hbel_o by exact Hne. apply (inv_wf t st HI m Hm).
  - intros k' mu Hk' Hmu. destruct (Nat.eq_dec k' k) as [->|Hne].
    + rewrite Hsep_k in Hmu. inversion Hmu; subst mu. split; [exact Hws|split; [exact Hns|]].
      intros v. rewrite (Hvs v). symmetry. apply Hek.
    + rewrite Hsep_o in Hmu by exact Hne. apply (inv_sep t st HI k' mu Hk' Hmu).
  - intros a Ha.
    destruct (set_nth_split bj' (fone) (bel D st) j Hlenb) as [l1 [l2 [Eb1 Eb2]]].
    destruct (set_nth_split (Some sigma) None (sep D st) k Hlens) as [s1 [s2 [Es1 Es2]]].
    assert (Hnew : mul (bprod st' a) (sprod st' a) =
                   mul (mul (feval sigma a) (inv (feval sigma a))) (mul (bprod st a) (sprod st a))).
    { unfold bprod, sprod, st'. simpl bel. simpl sep. rewrite Eb2, Es2.
      rewrite Eb1 at 1. rewrite Es1 at 1. rewrite !prod_map_split.
      fold (belief D card st j). fold old. cbn [sinv].
      rewrite Hbj'_eval by exact Ha. apply shuffle6. }
    rewrite Hnew. rewrite (inv_R t st HI a Ha).
    destruct (eqz_dec D (feval sigma a)) as [Hz|Hnz].
    + rewrite Hz, mul_0_l, mul_0_l.
      assert (Hbi : feval (belief D card st i) a = zero) by (eapply sigma_zero; eassumption).
      rewrite (zero_in_bprod st a i); [apply mul_0_l|rewrite (inv_len_b t st HI); exact Hi|exact Hbi].
    + rewrite (inv_mul D _ Hnz), mul_1_l. reflexivity.
  - intros k' mu u v Hk' Hmu Huv a Ha Hz.
    assert (Hgen : forall w, feval (belief D card st w) a = zero -> feval (belief D card st' w) a = zero).
    { intros w Hw. destruct (Nat.eq_dec w j) as [->|Hne]; [rewrite Hbel_j; apply Hzero_j; assumption|].
      rewrite Hbel_o by exact Hne. exact Hw. }
    destruct (Nat.eq_dec k' k) as [->|Hne].
    + rewrite Hsep_k in Hmu. inversion Hmu; subst mu.
      assert (Hbi : feval (belief D card st i) a = zero) by (eapply sigma_zero; eassumption).
      assert (Hbi' : feval (belief D card st' i) a = zero) by (apply Hgen; exact Hbi).
      assert (Hbj' : feval (belief D card st' j) a = zero).
      { rewrite Hbel_j, Hbj'_eval by exact Ha. rewrite Hz, mul_0_l. apply mul_0_r. }
      destruct Hnth as [E|E]; rewrite E in Huv; inversion Huv; subst; split; assumption.
    + rewrite Hsep_o in Hmu by exact Hne.
      destruct (inv_supp t st HI k' mu u v Hk' Hmu Huv a Ha Hz) as [H1 H2].
      split; apply Hgen; assumption.
Qed.

(* ---- the initial state ----------------------------------------------------------------------- *)
Lemma nth_map_none {A B} (l : list A) k : nth k (map (fun _ => @None B) l) None = None.
Proof. revert k. induction l as [|x l IH]; intros [|k]; simpl; auto. Qed.
Lemma prod_map_one {A} (l : list A) : prod_list (map (fun _ => (one : D)) l) = one.
Proof. induction l as [|x l IH]; simpl; [reflexivity|]. rewrite IH. apply mul_1_l. Qed.

Theorem init_Inv (t : ctree) : tree_ok t -> Inv t (init_state D t).
Proof.
  intros Htok. constructor.
  - simpl. apply (tok_len t Htok).
  - simpl. apply map_length.
  - intros i Hi. unfold belief. simpl. apply (tok_pots t Htok i Hi).
  - intros k mu _ H. simpl in H. rewrite nth_map_none in H. discriminate.
  - intros a Ha. unfold joint, bprod, sprod, eval_prod. simpl. rewrite map_map. simpl.
    rewrite prod_map_one. symmetry. apply mul_1_r.
  - intros k mu i j _ H. simpl in H. rewrite nth_map_none in H. discriminate.
Qed.

(* ---- the schedule as coded: only messages, so the invariant holds throughout ------------------- *)
Lemma fold_update_Inv {A} (t : ctree) (f : A -> nat * nat) (l : list A) : forall st,
  tree_ok t -> Inv t st -> Inv t (fold_left (fun s x => update D card t s (fst (f x)) (snd (f x))) l st).
Proof.
  induction l as [|x l IH]; intros st Htok HI; [exact HI|]. simpl. apply IH; [exact Htok|].
  apply update_preserves_Inv; assumption.
Qed.
Lemma root_round_Inv (t : ctree) st r : tree_ok t -> Inv t st -> Inv t (root_round D card t st r).
Proof.
  intros Htok HI. unfold root_round.
  apply (fold_update_Inv t (fun e : nat * nat => e)); [exact Htok|].
  apply (fold_update_Inv t (fun nb : nat => (nb, r))); assumption.
Qed.
Lemma calib_loop_Inv (t : ctree) roots : forall st, tree_ok t -> Inv t st -> Inv t (calib_loop D card t roots st).
Proof.
  induction roots as [|r rs IH]; intros st Htok HI; [exact HI|]. simpl.
  destruct (is_converged D card t st); [exact HI|]. apply IH; [exact Htok|]. apply root_round_Inv; assumption.
Qed.
Theorem calibrate_Inv (t : ctree) : tree_ok t -> Inv t (calibrate D card t).
Proof. intros Htok. unfold calibrate. apply calib_loop_Inv; [exact Htok|]. apply init_Inv. exact Htok. Qed.
End Inv.
