(* C02 model: pgmpy.inference.ExactInference.BeliefPropagation on a GIVEN clique tree
   (calibration by belief-update message passing, and the out-of-clique query), over the reference
   factor algebra of coq/Base/RefFactor.v and a csr with totalised inverse (C02/Dsr.v): the same code
   runs with operation = marginalize (Qc_sum_dsr) or maximize (Qc_max_dsr).
   The clique tree (cliques, edges, adjacency order, one potential per clique) is an input: the
   construction (triangulation, maximal cliques, spanning tree, factor assignment) is property C14's.
   Executable definitions only; proofs are in Proofs*.v. *)
From Coq Require Import List Arith Bool PeanoNat.
From PV Require Import Base.Semiring Base.Ravel Base.FinSum Base.RefFactor Base.VE C02.Dsr.
Import ListNotations.

Fixpoint set_nth {A} (n : nat) (x : A) (l : list A) : list A :=
  match l, n with
  | [], _ => []
  | _ :: r, 0 => x :: r
  | y :: r, S m => y :: set_nth m x r
  end.
Definition memn (x : nat) (l : list nat) : bool := existsb (Nat.eqb x) l.
Fixpoint dedup (l : list nat) : list nat :=
  match l with [] => [] | x :: r => if memn x r then dedup r else x :: dedup r end.
Definition nodupb (l : list nat) : bool := length (dedup l) =? length l.
Fixpoint first_some {A B} (f : A -> option B) (l : list A) : option B :=
  match l with [] => None | x :: r => match f x with Some y => Some y | None => first_some f r end end.

(* all index tuples of a shape, row-major *)
Fixpoint all_idx (cs : list nat) : list (list nat) :=
  match cs with
  | [] => [[]]
  | c :: r => flat_map (fun i => map (cons i) (all_idx r)) (seq 0 c)
  end.

(* position of the tree edge {i,j} in the edge list (sepset_beliefs is keyed by frozenset(edge)) *)
Fixpoint find_edge (es : list (nat * nat)) (i j k : nat) : option nat :=
  match es with
  | [] => None
  | (u, v) :: r =>
      if ((u =? i) && (v =? j)) || ((u =? j) && (v =? i)) then Some k else find_edge r i j (S k)
  end.

(* nx.bfs_edges(G, source): level order; adjacency order is an input *)
Fixpoint new_children (ns seen : list nat) : list nat :=
  match ns with
  | [] => []
  | c :: r => if memn c seen then new_children r seen else c :: new_children r (c :: seen)
  end.
Fixpoint bfs (fuel : nat) (adj : list (list nat)) (queue seen : list nat) : list (nat * nat) :=
  match fuel with
  | 0 => []
  | S f =>
      match queue with
      | [] => []
      | p :: q =>
          let ch := new_children (nth p adj []) seen in
          map (pair p) ch ++ bfs f adj (q ++ ch) (seen ++ ch)
      end
  end.
Definition bfs_edges (adj : list (list nat)) (src : nat) : list (nat * nat) :=
  bfs (S (length adj)) adj [src] [src].

(* the unique path between two nodes of a tree (nx.shortest_path on the junction tree) *)
Fixpoint path_to (fuel : nat) (adj : list (list nat)) (prev cur target : nat) : option (list nat) :=
  match fuel with
  | 0 => None
  | S f =>
      if cur =? target then Some [cur]
      else first_some (fun nb => if nb =? prev then None
                                 else option_map (cons cur) (path_to f adj cur nb target))
                      (nth cur adj [])
  end.

Section BP.
Variable D : dsr.
Variable card : var -> nat.
Notation factor := (RefFactor.factor D).
Notation feval := (RefFactor.feval D card).
Notation fbuild := (RefFactor.fbuild D card).
Notation fprod := (RefFactor.fprod D card).
Notation fmarg := (RefFactor.fmarg D card).
Notation fred := (RefFactor.fred D card).
Notation fone := (RefFactor.fone D card).
Notation fprod_list := (RefFactor.fprod_list D card).

(* DiscreteFactor.divide restricted to its guard-free part: 0/0 = 0 (inv 0 = 0).  pgmpy's x/0 = inf
   for x <> 0 is not representable; theorem C02_no_inf shows it never arises during calibration/query *)
Definition fdiv0 (f g : factor) : factor :=
  fbuild (fvars f) (fun a => mul (feval f a) (inv (feval g a))).

Record ctree := {
  cliques : list (list var);      (* junction_tree.nodes(), in that order *)
  tedges : list (nat * nat);      (* junction_tree.edges() as pairs of clique positions *)
  adj : list (list nat);          (* junction_tree.neighbors(c) for every clique, in networkx's order *)
  pots : list factor              (* initial belief of every clique: see [tree_of_groups] *)
}.
(* _calibrate_junction_tree initialises the belief of a clique as factor_product of ALL factors of the
   junction tree whose scope equals the clique (commit 660eaae; before, only the first was used) *)
Definition tree_of_groups (cl : list (list var)) (es : list (nat * nat)) (ad : list (list nat))
  (groups : list (list factor)) : ctree :=
  {| cliques := cl; tedges := es; adj := ad; pots := map fprod_list groups |}.
Record bstate := {
  bel : list factor;              (* clique_beliefs *)
  sep : list (option factor)      (* sepset_beliefs, by edge position; None as initialised *)
}.

Definition clq (t : ctree) (i : nat) : list var := nth i (cliques t) [].
Definition belief (st : bstate) (i : nat) : factor := nth i (bel st) fone.
Definition sepset (t : ctree) (i j : nat) : list var := vinter (clq t i) (clq t j).

Definition init_state (t : ctree) : bstate :=
  {| bel := pots t; sep := map (fun _ => None) (tedges t) |}.

(* _update_beliefs(sending i, receiving j) *)
Definition sigma_of (t : ctree) (st : bstate) (i j : nat) : factor :=
  fmarg (vminus (clq t i) (sepset t i j)) (belief st i).
Definition update (t : ctree) (st : bstate) (i j : nat) : bstate :=
  match find_edge (tedges t) i j 0 with
  | None => st
  | Some k =>
      let sigma := sigma_of t st i j in
      let msg := match nth k (sep st) None with
                 | Some mu => fdiv0 sigma mu
                 | None => sigma
                 end in
      {| bel := set_nth j (fprod (belief st j) msg) (bel st);
         sep := set_nth k (Some sigma) (sep st) |}
  end.

(* factor != factor on a common scope S (exact here; numpy.allclose in pgmpy) *)
Definition feq_on (S : list var) (f g : factor) : bool :=
  forallb (fun idx => eqk (feval f (asg_of S idx)) (feval g (asg_of S idx))) (all_idx (map card S)).

(* _is_converged *)
Definition edge_converged (t : ctree) (st : bstate) (ke : nat * (nat * nat)) : bool :=
  let '(k, (i, j)) := ke in
  match nth k (sep st) None with
  | None => false
  | Some mu =>
      let S := sepset t i j in
      let m1 := sigma_of t st i j in
      let m2 := sigma_of t st j i in
      feq_on S m1 m2 && feq_on S m1 mu
  end.
Definition is_converged (t : ctree) (st : bstate) : bool :=
  negb (length (bel st) =? 0) &&
  forallb (edge_converged t st) (combine (seq 0 (length (tedges t))) (tedges t)).

(* _calibrate_junction_tree: for every clique as root (until converged): pull from the neighbours,
   then push along the BFS edges *)
Definition root_round (t : ctree) (st : bstate) (r : nat) : bstate :=
  let st1 := fold_left (fun s nb => update t s nb r) (nth r (adj t) []) st in
  fold_left (fun s e => update t s (fst e) (snd e)) (bfs_edges (adj t) r) st1.
Fixpoint calib_loop (t : ctree) (roots : list nat) (st : bstate) : bstate :=
  match roots with
  | [] => st
  | r :: rs => if is_converged t st then st else calib_loop t rs (root_round t st r)
  end.
Definition calibrate (t : ctree) : bstate :=
  calib_loop t (seq 0 (length (cliques t))) (init_state t).

(* ---- _query ------------------------------------------------------------------------------- *)
Definition cliques_with (t : ctree) (vs : list var) : list nat :=
  filter (fun i => existsb (fun v => memv v (clq t i)) vs) (seq 0 (length (cliques t))).
Fixpoint consecutive_paths (t : ctree) (l : list nat) : list nat :=
  match l with
  | a :: ((b :: _) as r) =>
      match path_to (S (length (cliques t))) (adj t) a a b with
      | Some p => p ++ consecutive_paths t r
      | None => consecutive_paths t r
      end
  | _ => []
  end.
Definition subtree_nodes (t : ctree) (vs : list var) : list nat :=
  let w := cliques_with t vs in dedup (w ++ consecutive_paths t w).
Definition sub_nbrs (t : ctree) (sub : list nat) (i : nat) : list nat :=
  filter (fun c => memn c sub) (nth i (adj t) []).
Definition pick_root (t : ctree) (sub : list nat) : nat :=
  match sub with
  | [r] => r
  | _ => match filter (fun i => length (sub_nbrs t sub i) =? 1) sub with
         | r :: _ => r
         | [] => hd 0 sub
         end
  end.
(* the while-loop over parent_nodes: (parent, child) pairs in the order they are appended *)
Fixpoint traverse_sub (fuel : nat) (t : ctree) (sub parents traversed : list nat) : list (nat * nat) :=
  match fuel with
  | 0 => []
  | S f =>
      match parents with
      | [] => []
      | p :: ps =>
          let ch := filter (fun c => negb (memn c traversed)) (sub_nbrs t sub p) in
          map (pair p) ch ++ traverse_sub f t sub (ps ++ ch) (traversed ++ [p])
      end
  end.
Definition child_potential (t : ctree) (st : bstate) (pc : nat * nat) : option factor :=
  let (p, c) := pc in
  match find_edge (tedges t) p c 0 with
  | Some k => match nth k (sep st) None with
              | Some mu => Some (fdiv0 (belief st c) mu)
              | None => None
              end
  | None => None
  end.
Fixpoint sequence {A} (l : list (option A)) : option (list A) :=
  match l with
  | [] => Some []
  | Some x :: r => option_map (cons x) (sequence r)
  | None :: _ => None
  end.
(* clique_potential_list for a given root and traversal *)
Definition potential_list (t : ctree) (st : bstate) (root : nat) (pcs : list (nat * nat))
  : option (list factor) :=
  option_map (cons (belief st root)) (sequence (map (child_potential t st) pcs)).

(* VariableElimination(subtree).query(variables, evidence): reduce every factor by the evidence,
   sum out everything else (any order: Base/VE.ve_run_correct), multiply what is left *)
Definition ve_answer (fs : list factor) (ev : list (var * nat)) (elim : list var) : factor :=
  fprod_list (ve_run D card (map (fred ev) fs) elim).
Definition scope_of (t : ctree) (sub : list nat) : list var :=
  fold_right (fun i acc => vunion (clq t i) acc) [] sub.
Definition query_elim (t : ctree) (sub : list nat) (Q : list var) (ev : list (var * nat)) : list var :=
  vminus (vminus (scope_of t sub) Q) (map fst ev).

Record qresult := {
  q_sub : list nat; q_root : nat; q_pairs : list (nat * nat); q_factor : factor
}.
Definition bp_query (t : ctree) (st : bstate) (Q : list var) (ev : list (var * nat)) : option qresult :=
  let sub := subtree_nodes t (Q ++ map fst ev) in
  let root := pick_root t sub in
  let pcs := traverse_sub (S (length (cliques t))) t sub [root] [] in
  match potential_list t st root pcs with
  | Some fs => Some {| q_sub := sub; q_root := root; q_pairs := pcs;
                       q_factor := ve_answer fs ev (query_elim t sub Q ev) |}
  | None => None
  end.

(* table of a factor over a given variable order *)
Definition table_on (S : list var) (f : factor) : list D :=
  map (fun idx => feval f (asg_of S idx)) (all_idx (map card S)).

(* ---- certificates for "the clique tree is a tree with the running-intersection property" ----
   A peel step (l, p, k): clique l is a leaf hanging on p by edge k, and every variable l shares
   with any other remaining clique is in p.  [peel_chk] checks a whole elimination sequence and
   returns what remains; [greedy_peel] searches one (unverified search, verified check). *)
Definition subsetv (a b : list var) : bool := forallb (fun x => memv x b) a.
Definition edge_joins (e : nat * nat) (l p : nat) : bool :=
  let (u, v) := e in ((u =? l) && (v =? p)) || ((u =? p) && (v =? l)).
Definition edge_touches (e : nat * nat) (l : nat) : bool :=
  let (u, v) := e in (u =? l) || (v =? l).
Definition remn (x : nat) (l : list nat) : list nat := filter (fun y => negb (y =? x)) l.
Definition peel_step_ok (t : ctree) (rem erem : list nat) (s : nat * nat * nat) : bool :=
  let '(l, p, k) := s in
  memn l rem && memn p rem && negb (l =? p) && memn k erem &&
  edge_joins (nth k (tedges t) (0, 0)) l p &&
  forallb (fun k' => (k' =? k) || negb (edge_touches (nth k' (tedges t) (0, 0)) l)) erem &&
  forallb (fun i => (i =? l) || subsetv (vinter (clq t l) (clq t i)) (clq t p)) rem.
Fixpoint peel_chk (t : ctree) (rem erem : list nat) (order : list (nat * nat * nat))
  : option (list nat * list nat) :=
  match order with
  | [] => Some (rem, erem)
  | ((l, p, k) as s) :: r =>
      if peel_step_ok t rem erem s then peel_chk t (remn l rem) (remn k erem) r else None
  end.
Definition find_peel (t : ctree) (rem erem keep : list nat) : option (nat * nat * nat) :=
  first_some (fun l =>
    if memn l keep then None else
    first_some (fun k =>
      let (u, v) := nth k (tedges t) (0, 0) in
      let p := if u =? l then v else u in
      if peel_step_ok t rem erem (l, p, k) then Some (l, p, k) else None) erem) rem.
Fixpoint greedy_peel (fuel : nat) (t : ctree) (rem erem keep : list nat) : list (nat * nat * nat) :=
  match fuel with
  | 0 => []
  | S f => match find_peel t rem erem keep with
           | Some (l, p, k) => (l, p, k) :: greedy_peel f t (remn l rem) (remn k erem) keep
           | None => []
           end
  end.
Definition all_cl (t : ctree) : list nat := seq 0 (length (cliques t)).
Definition all_ed (t : ctree) : list nat := seq 0 (length (tedges t)).
Definition same_set (a b : list nat) : bool :=
  forallb (fun x => memn x b) a && forallb (fun x => memn x a) b.
(* the tree can be peeled down to exactly the cliques [keep], and the remaining edges are exactly
   the edges among [keep] actually used ([kedges]) *)
Definition peel_to (t : ctree) (keep : list nat) : option (list (nat * nat * nat) * list nat) :=
  let order := greedy_peel (length (cliques t)) t (all_cl t) (all_ed t) keep in
  match peel_chk t (all_cl t) (all_ed t) order with
  | Some (rem, erem) => if same_set rem keep then Some (order, erem) else None
  | None => None
  end.
(* junction tree: peels down to a single clique with no edge left *)
Definition jt_chk (t : ctree) : bool :=
  match cliques t with
  | [] => false
  | _ => match peel_to t [0] with Some (_, []) => true | _ => false end
  end.
Definition peel_vars (t : ctree) (order : list (nat * nat * nat)) : list var :=
  flat_map (fun s => let '(l, p, _) := s in vminus (clq t l) (clq t p)) order.

(* shape checks that the harness input is a clique tree description at all *)
Definition wf_tree (t : ctree) : bool :=
  (length (adj t) =? length (cliques t)) && (length (pots t) =? length (cliques t)) &&
  forallb (fun e => (fst e <? length (cliques t)) && (snd e <? length (cliques t)) &&
                    negb (fst e =? snd e)) (tedges t) &&
  forallb (fun i => forallb (fun j => match find_edge (tedges t) i j 0 with Some _ => true | None => false end)
                            (nth i (adj t) [])) (all_cl t) &&
  forallb (fun i => same_set (fvars (nth i (pots t) fone)) (clq t i)) (all_cl t).

(* ---- brute force (the Spec, computed) ---------------------------------------------------- *)
Definition all_vars (t : ctree) : list var := scope_of t (all_cl t).
Definition joint_factor (t : ctree) : factor := fprod_list (pots t).
Definition brute_marginal (t : ctree) (keep : list var) : factor :=
  fmarg (vminus (all_vars t) keep) (joint_factor t).
Definition brute_query (t : ctree) (Q : list var) (ev : list (var * nat)) : factor :=
  fmarg (vminus (vminus (all_vars t) Q) (map fst ev)) (fred ev (joint_factor t)).
End BP.
