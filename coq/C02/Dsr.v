(* A csr (coq/Base/Semiring.v) extended with what belief-UPDATE message passing needs on top of
   variable elimination: a totalised inverse (inv 0 = 0, so that a * inv b is pgmpy's factor division
   with 0/0 = 0; x/0 with x <> 0 is excluded by the guard theorems), a predicate [nn] of "non-negative"
   elements on which the additive monoid is zero-sum-free, and a decidable equality (used by the
   convergence test).  Instances: (Qc,+,x) and (Qc,max,x), both with nn q := 0 <= q. *)
From Coq Require Import List QArith Qcanon Lia Lqa Bool.
From PV Require Import Base.Semiring.
Import ListNotations.

Record dsr := {
  dbase :> csr;
  inv : dbase -> dbase;
  nn : dbase -> Prop;
  eqk : dbase -> dbase -> bool;
  eqk_spec : forall a b, eqk a b = true <-> a = b;
  inv_zero : inv zero = zero;
  inv_mul : forall a, a <> zero -> mul a (inv a) = one;
  nn_ok : forall a, nn a -> ok a;
  nn_zero : nn zero;
  nn_one : nn one;
  nn_add : forall a b, nn a -> nn b -> nn (add a b);
  nn_mul : forall a b, nn a -> nn b -> nn (mul a b);
  nn_inv : forall a, nn a -> nn (inv a);
  zsf : forall a b, nn a -> nn b -> add a b = zero -> a = zero /\ b = zero
}.

Arguments inv {_}. Arguments nn {_}. Arguments eqk {_}.

Section DsrFacts.
Variable D : dsr.
Lemma eqk_refl (a : D) : eqk a a = true.
Proof. apply eqk_spec. reflexivity. Qed.
Lemma eqz_dec (a : D) : {a = zero} + {a <> zero}.
Proof.
  destruct (eqk a zero) eqn:E; [left; apply eqk_spec; exact E|right].
  intros H. apply eqk_spec in H. congruence.
Qed.
Lemma nn_sum_list (l : list D) : Forall nn l -> nn (sum_list l).
Proof. induction 1; simpl; [apply nn_zero|apply nn_add; assumption]. Qed.
Lemma nn_prod_list (l : list D) : Forall nn l -> nn (prod_list l).
Proof. induction 1; simpl; [apply nn_one|apply nn_mul; assumption]. Qed.
Lemma sum_list_zsf (l : list D) : Forall nn l -> sum_list l = zero -> forall x, In x l -> x = zero.
Proof.
  induction 1 as [|y l Hy Hl IH]; intros Hs x Hx; [destruct Hx|]. simpl in Hs.
  apply zsf in Hs; [|exact Hy|apply nn_sum_list; exact Hl]. destruct Hs as [H1 H2].
  destruct Hx as [<-|Hx]; [exact H1|apply IH; assumption].
Qed.
Lemma prod_list_zero (l : list D) : In zero l -> prod_list l = zero.
Proof.
  induction l as [|y l IH]; intros H; [destruct H|]. simpl. destruct H as [->|H].
  - apply mul_0_l.
  - rewrite IH by exact H. apply mul_0_r.
Qed.
End DsrFacts.

Local Open Scope Qc_scope.

Lemma Qc_eq_bool_iff (a b : Qc) : Qc_eq_bool a b = true <-> a = b.
Proof.
  split; [apply Qc_eq_bool_correct|]. intros ->. unfold Qc_eq_bool.
  destruct (Qc_eq_dec b b) as [_|H]; [reflexivity|exfalso; apply H; reflexivity].
Qed.
Lemma Qc_inv_mul (a : Qc) : a <> 0 -> a * / a = 1.
Proof. intros H. apply Qcmult_inv_r. exact H. Qed.
Lemma Qc_nn_inv (a : Qc) : 0 <= a -> 0 <= / a.
Proof.
  intros H. unfold Qcle in *. unfold Qcinv. cbn [this Q2Qc] in *. change (Qred 0) with 0%Q in *.
  assert (E : (Qred (/ a) == / a)%Q) by apply Qred_correct. rewrite E.
  apply Qinv_le_0_compat. exact H.
Qed.
Lemma Qc_plus_zsf (a b : Qc) : 0 <= a -> 0 <= b -> a + b = 0 -> a = 0 /\ b = 0.
Proof.
  intros Ha Hb H.
  assert (Hq : (this a + this b == 0)%Q).
  { assert (E : (this (a + b) == this a + this b)%Q) by (unfold Qcplus; cbn [this Q2Qc]; apply Qred_correct).
    rewrite <- E, H. reflexivity. }
  unfold Qcle in *. cbn [this Q2Qc] in *.
  change (Qred 0) with 0%Q in *. split; apply Qc_is_canon; cbn [this Q2Qc]; change (Qred 0) with 0%Q; lra.
Qed.
Lemma Qc_max_zsf (a b : Qc) : 0 <= a -> 0 <= b -> Qcmax a b = 0 -> a = 0 /\ b = 0.
Proof.
  intros Ha Hb H. unfold Qcmax in H. destruct (Qclt_le_dec a b) as [L|L]; subst.
  - split; [|reflexivity]. exfalso. apply (Qclt_not_le _ _ L). exact Ha.
  - split; [reflexivity|]. apply Qcle_antisym; assumption.
Qed.
Lemma Qc_nn_mul (a b : Qc) : 0 <= a -> 0 <= b -> 0 <= a * b.
Proof. intros Ha Hb. replace (Q2Qc 0) with (Q2Qc 0 * b) by ring. apply Qcmult_le_compat_r; assumption. Qed.
Lemma Qc_nn_add (a b : Qc) : 0 <= a -> 0 <= b -> 0 <= a + b.
Proof. intros Ha Hb. replace (Q2Qc 0) with (Q2Qc 0 + 0) by ring. apply Qcplus_le_compat; assumption. Qed.

Definition Qc_sum_dsr : dsr.
Proof.
  refine {| dbase := Qc_sum_csr; inv := Qcinv; nn := fun q : Qc => 0 <= q; eqk := Qc_eq_bool |}.
  - apply Qc_eq_bool_iff.
  - reflexivity.
  - apply Qc_inv_mul.
  - intros; exact I.
  - apply Qcle_refl.
  - discriminate.
  - apply Qc_nn_add.
  - apply Qc_nn_mul.
  - apply Qc_nn_inv.
  - apply Qc_plus_zsf.
Defined.

Definition Qc_max_dsr : dsr.
Proof.
  refine {| dbase := Qc_max_csr; inv := Qcinv; nn := fun q : Qc => 0 <= q; eqk := Qc_eq_bool |}.
  - apply Qc_eq_bool_iff.
  - reflexivity.
  - apply Qc_inv_mul.
  - intros a H; exact H.
  - apply Qcle_refl.
  - discriminate.
  - apply Qcmax_nonneg.
  - apply Qc_nn_mul.
  - apply Qc_nn_inv.
  - apply Qc_max_zsf.
Defined.
