(* C02: leaf elimination ("peeling").  Under the message invariant (ProofsInv.Inv) and local
   consistency of every edge (what _is_converged tests), summing the joint over the private variables
   of the peeled cliques leaves exactly  prod_{i in rem} beta_i * prod_{k in erem} inv(mu_k).
   With rem = [r] this says beta_r is the marginal of the joint (calibrated => exact);
   with rem = the query's subtree it is Koller-Friedman's out-of-clique expression. *)
From Coq Require Import List Arith Bool PeanoNat Lia Permutation.
From PV Require Import Base.Semiring Base.Ravel Base.FinSum Base.RefFactor Base.VE
  C02.Dsr C02.Model C02.Spec C02.ProofsInv.
Import ListNotations.

Section Peel.
Variable D : dsr.
Variable card : var -> nat.
Notation factor := (RefFactor.factor D).
Notation feval := (RefFactor.feval D card).
Notation valid := (RefFactor.valid card).
Notation wf := (RefFactor.wf D card).
Notation ctree := (ctree D).
Notation bstate := (bstate D).
Notation belief := (belief D card).
Notation Inv := (Inv D card).
Notation sinv := (sinv D card).

Variable t : ctree.
Variable st : bstate.
Hypothesis Htok : tree_ok D card t.
Hypothesis HI : Inv t st.
Hypothesis Hset : all_edges_set D t st.
Hypothesis Hagree : sepset_agree D card t st.

Definition G (rem erem : list nat) (a : asg) : D :=
  mul (prod_list (map (fun i => feval (belief st i) a) rem))
      (prod_list (map (fun k => sinv a (nth k (sep D st) None)) erem)).

(* the variables summed when peeling l off p, in the order sigma_{l->p} sums them *)
Definition pv1 (l p : nat) : list var :=
  vinter (fvars (belief st l)) (vminus (clq D t l) (sepset D t l p)).
Fixpoint pvars (order : list (nat * nat * nat)) : list var :=
  match order with
  | [] => []
  | (l, p, _) :: r => pvars r ++ pv1 l p
  end.

(* ---- products over index lists -------------------------------------------------------------- *)
Lemma prod_remn (g : nat -> D) x l : NoDup l -> In x l ->
  prod_list (map g l) = mul (g x) (prod_list (map g (remn x l))).
Proof.
  induction l as [|y l IH]; intros Hn Hx; [destruct Hx|]. inversion Hn as [|? ? Hy Hn']; subst.
  simpl. destruct (Nat.eq_dec y x) as [->|Hne].
  - rewrite Nat.eqb_refl. simpl. f_equal. f_equal.
    clear - Hy. induction l as [|z l IH]; [reflexivity|]. simpl.
    destruct (Nat.eqb z x) eqn:E; [apply Nat.eqb_eq in E; subst; exfalso; apply Hy; left; reflexivity|].
    simpl. f_equal. apply IH. intros H. apply Hy. right. exact H.
  - destruct Hx as [Hx|Hx]; [congruence|]. apply Nat.eqb_neq in Hne. rewrite Hne. simpl.
    rewrite IH by assumption. apply mul_swap_l.
Qed.
Lemma In_remn x y l : In y (remn x l) <-> In y l /\ y <> x.
Proof.
  unfold remn. rewrite filter_In, negb_true_iff, Nat.eqb_neq. reflexivity.
Qed.
Lemma NoDup_remn x l : NoDup l -> NoDup (remn x l).
Proof. apply NoDup_filter. Qed.
Lemma map_nth_seq {A B} (g : A -> B) (l : list A) d :
  map (fun i => g (nth i l d)) (seq 0 (length l)) = map g l.
Proof.
  induction l as [|x l IH]; [reflexivity|]. simpl. f_equal. rewrite <- seq_shift, map_map. exact IH.
Qed.

Lemma G_all a : valid a -> G (all_cl D t) (all_ed D t) a = joint D card t a.
Proof.
  intros Ha. rewrite (inv_R D card t st HI a Ha). unfold G, all_cl, all_ed, bprod, sprod.
  rewrite <- (inv_len_b D card t st HI), <- (inv_len_s D card t st HI).
  unfold Model.belief. rewrite (map_nth_seq (fun f => feval f a) (bel D st)).
  rewrite (map_nth_seq (sinv a) (sep D st)). reflexivity.
Qed.

(* ---- moving a factor that ignores the summed variables out of a sum (valid assignments only) -- *)
Lemma sum_over_mul_r_valid vs : forall (f g : asg -> D) a, valid a ->
  ignores_all f vs -> (forall b, valid b -> ok (f b)) ->
  sum_over vs (map card vs) (fun b => mul (g b) (f b)) a = mul (sum_over vs (map card vs) g a) (f a).
Proof.
  induction vs as [|v vs IH]; intros f g a Ha Hi Hok; [reflexivity|].
  cbn [map sum_over]. rewrite (mul_comm D _ (f a)). rewrite sum_list_mul_l by (apply Hok; exact Ha).
  rewrite map_map. apply sum_list_ext. intros i Hin. apply in_seq in Hin.
  rewrite IH; [|apply valid_upd; [exact Ha|lia]|intros w Hw; apply Hi; right; exact Hw|exact Hok].
  rewrite (Hi v (or_introl eq_refl)). apply mul_comm.
Qed.

Definition edges_in (rem erem : list nat) : Prop :=
  forall k, In k erem -> k < length (tedges D t) /\
    In (fst (nth k (tedges D t) (0, 0))) rem /\ In (snd (nth k (tedges D t) (0, 0))) rem.
Definition cl_in (rem : list nat) : Prop := forall i, In i rem -> i < length (cliques D t).

Lemma belief_ignores i v : i < length (cliques D t) -> ~ In v (clq D t i) -> ignores (feval (belief st i)) v.
Proof.
  intros Hi Hv. destruct (inv_wf D card t st HI i Hi) as [_ [Hs _]].
  apply (depends_only_ignores D _ (fvars (belief st i))); [apply feval_depends_only|].
  intros H. apply Hv. apply Hs. exact H.
Qed.
Lemma sinv_ignores k v : k < length (tedges D t) ->
  ~ In v (sepset D t (fst (nth k (tedges D t) (0, 0))) (snd (nth k (tedges D t) (0, 0)))) ->
  ignores (fun a => sinv a (nth k (sep D st) None)) v.
Proof.
  intros Hk Hv a i. destruct (nth k (sep D st) None) as [mu|] eqn:E; simpl; [|reflexivity].
  destruct (inv_sep D card t st HI k mu Hk E) as [_ [_ Hs]]. f_equal.
  apply (depends_only_ignores D _ (fvars mu)); [apply feval_depends_only|].
  intros H. apply Hv. apply Hs. exact H.
Qed.
Lemma prod_ignores {A} (g : A -> asg -> D) (l : list A) v :
  (forall x, In x l -> ignores (g x) v) -> ignores (fun a => prod_list (map (fun x => g x a) l)) v.
Proof.
  intros H a i. induction l as [|x l IH]; [reflexivity|]. simpl.
  rewrite (H x (or_introl eq_refl) a i). rewrite IH; [reflexivity|]. intros y Hy. apply H. right. exact Hy.
Qed.
Lemma In_pv1 l p v : l < length (cliques D t) -> In v (pv1 l p) <-> In v (clq D t l) /\ ~ In v (clq D t p).
Proof.
  intros Hl. destruct (inv_wf D card t st HI l Hl) as [_ [Hs _]].
  unfold pv1. rewrite In_vinter, In_vminus. unfold sepset. rewrite In_vinter, (Hs v). tauto.
Qed.

Lemma G_nn rem erem a : cl_in rem -> (forall k, In k erem -> k < length (tedges D t)) -> valid a -> nn (G rem erem a).
Proof.
  intros Hc He Ha. unfold G. apply nn_mul; apply nn_prod_list; apply Forall_forall; intros x Hx;
    apply in_map_iff in Hx; destruct Hx as [y [<- Hy]].
  - destruct (inv_wf D card t st HI y (Hc y Hy)) as [_ [_ Hn]]. apply Hn. exact Ha.
  - destruct (nth y (sep D st) None) as [mu|] eqn:E; simpl; [|apply nn_one]. apply nn_inv.
    destruct (inv_sep D card t st HI y mu (He y Hy) E) as [_ [Hn _]]. apply Hn. exact Ha.
Qed.

(* ---- one peel step ----------------------------------------------------------------------------- *)
Lemma peel_one rem erem l p k a :
  NoDup rem -> NoDup erem -> cl_in rem -> edges_in rem erem -> peel_step D t rem erem l p k -> valid a ->
  sum_over (pv1 l p) (map card (pv1 l p)) (G rem erem) a = G (remn l rem) (remn k erem) a.
Proof.
  intros Hnr Hne Hcl Hed [Hl [Hp [Hlp [Hk [Hnth [Hleaf Hrip]]]]]] Ha.
  assert (Hll : l < length (cliques D t)) by (apply Hcl; exact Hl).
  assert (Hpl : p < length (cliques D t)) by (apply Hcl; exact Hp).
  destruct (Hed k Hk) as [Hkl _].
  destruct (Hset k Hkl) as [mu Hmu].
  set (G' := G (remn l rem) (remn k erem)).
  set (sk := fun b => sinv b (nth k (sep D st) None)).
  assert (Hsplit : forall b, G rem erem b = mul (feval (belief st l) b) (mul (sk b) (G' b))).
  { intros b. unfold G, G', sk. rewrite (prod_remn (fun i => feval (belief st i) b) l rem Hnr Hl).
    rewrite (prod_remn (fun k0 => sinv b (nth k0 (sep D st) None)) k erem Hne Hk).
    rewrite <- !(mul_assoc D). f_equal. apply mul_swap_l. }
  (* G' and sk ignore the private variables of l *)
  assert (Hpriv : forall v, In v (pv1 l p) -> In v (clq D t l) /\ ~ In v (clq D t p)).
  { intros v Hv. apply In_pv1; assumption. }
  assert (Hign_sk : ignores_all sk (pv1 l p)).
  { intros v Hv. apply sinv_ignores; [exact Hkl|]. apply Hpriv in Hv. destruct Hv as [_ Hv].
    unfold sepset. rewrite In_vinter. destruct Hnth as [E|E]; rewrite E; simpl; tauto. }
  assert (Hign_G' : ignores_all G' (pv1 l p)).
  { intros v Hv. apply Hpriv in Hv. destruct Hv as [Hvl Hvp]. unfold G', G. intros b i.
    f_equal.
    - apply (prod_ignores (fun i0 b0 => feval (belief st i0) b0)). intros x Hx. apply In_remn in Hx.
      destruct Hx as [Hx Hxl]. apply belief_ignores; [apply Hcl; exact Hx|].
      intros Hvx. apply Hvp. apply (Hrip x Hx Hxl v Hvl Hvx).
    - apply (prod_ignores (fun k0 b0 => sinv b0 (nth k0 (sep D st) None))). intros x Hx. apply In_remn in Hx.
      destruct Hx as [Hx Hxk]. destruct (Hed x Hx) as [Hxl [Hu _]]. destruct (Hleaf x Hx Hxk) as [Hul _].
      apply sinv_ignores; [exact Hxl|]. unfold sepset. rewrite In_vinter. intros [Hvu _].
      apply Hvp. apply (Hrip _ Hu Hul v Hvl Hvu). }
  assert (Hcl' : cl_in (remn l rem)) by (intros x Hx; apply In_remn in Hx; apply Hcl; apply Hx).
  assert (He' : forall k0, In k0 (remn k erem) -> k0 < length (tedges D t)).
  { intros x Hx. apply In_remn in Hx. apply Hed. apply Hx. }
  rewrite (sum_over_ext_valid D card (pv1 l p) (G rem erem)
             (fun b => mul (feval (belief st l) b) (mul (sk b) (G' b))) a Ha (fun b _ => Hsplit b)).
  rewrite (sum_over_mul_r_valid (pv1 l p) (fun b => mul (sk b) (G' b)) (feval (belief st l)) a Ha).
  2:{ intros v Hv b i. rewrite (Hign_sk v Hv b i), (Hign_G' v Hv b i). reflexivity. }
  2:{ intros b Hb. apply nn_ok. apply nn_mul; [|apply G_nn; assumption].
      unfold sk. rewrite Hmu. simpl. apply nn_inv.
      destruct (inv_sep D card t st HI k mu Hkl Hmu) as [_ [Hn _]]. apply Hn. exact Hb. }
  (* the sum of beta_l over its private variables is the message sigma_{l->p} = mu_k *)
  assert (Hw : wf (belief st l)) by (apply (inv_wf D card t st HI l Hll)).
  unfold pv1. rewrite <- (sigma_eval D card t st l p a Hw Ha).
  assert (Hsig : feval (sigma_of D card t st l p) a = feval mu a).
  { destruct Hnth as [E|E].
    - apply (proj1 (Hagree k l p mu E Hkl Hmu a Ha)).
    - apply (proj2 (Hagree k p l mu E Hkl Hmu a Ha)). }
  rewrite Hsig. unfold sk. rewrite Hmu. simpl.
  destruct (eqz_dec D (feval mu a)) as [Hz|Hnz].
  - rewrite Hz, mul_0_l. symmetry.
    assert (Hbp : feval (belief st p) a = zero).
    { destruct Hnth as [E|E].
      - apply (proj2 (inv_supp D card t st HI k mu l p Hkl Hmu E a Ha Hz)).
      - apply (proj1 (inv_supp D card t st HI k mu p l Hkl Hmu E a Ha Hz)). }
    unfold G', G. rewrite (prod_list_zero D (map (fun i => feval (belief st i) a) (remn l rem))); [apply mul_0_l|].
    rewrite <- Hbp. apply in_map_iff. exists p. split; [reflexivity|]. apply In_remn. split; [exact Hp|congruence].
  - rewrite (mul_assoc D), (inv_mul D _ Hnz). apply mul_1_l.
Qed.

Lemma edges_in_remn rem erem l p k : edges_in rem erem -> peel_step D t rem erem l p k ->
  edges_in (remn l rem) (remn k erem).
Proof.
  intros Hed [_ [_ [_ [_ [_ [Hleaf _]]]]]] x Hx. apply In_remn in Hx. destruct Hx as [Hx Hxk].
  destruct (Hed x Hx) as [H1 [H2 H3]]. destruct (Hleaf x Hx Hxk) as [H4 H5].
  split; [exact H1|]. split; apply In_remn; split; assumption.
Qed.

(* ---- a whole elimination sequence ------------------------------------------------------------------ *)
Theorem peel_sum rem erem order rem' erem' :
  peels D t rem erem order rem' erem' ->
  NoDup rem -> NoDup erem -> cl_in rem -> edges_in rem erem ->
  forall a, valid a ->
    sum_over (pvars order) (map card (pvars order)) (G rem erem) a = G rem' erem' a.
Proof.
  induction 1 as [rem erem|rem erem l p k order rem' erem' Hstep Hrest IH]; intros Hnr Hne Hcl Hed a Ha.
  - reflexivity.
  - cbn [pvars]. rewrite map_app. rewrite sum_over_app by (symmetry; apply map_length).
    rewrite (sum_over_ext_valid D card (pvars order) _ (G (remn l rem) (remn k erem)) a Ha).
    2:{ intros b Hb. apply peel_one; assumption. }
    apply IH; [apply NoDup_remn; exact Hnr|apply NoDup_remn; exact Hne| |eapply edges_in_remn; eassumption|exact Ha].
    intros x Hx. apply In_remn in Hx. apply Hcl. apply Hx.
Qed.

Lemma all_cl_ok : NoDup (all_cl D t) /\ cl_in (all_cl D t).
Proof. split; [apply seq_NoDup|]. intros i Hi. apply in_seq in Hi. lia. Qed.
Lemma all_ed_ok : NoDup (all_ed D t) /\ edges_in (all_cl D t) (all_ed D t).
Proof.
  split; [apply seq_NoDup|]. intros k Hk. apply in_seq in Hk.
  destruct (tok_edges D card t Htok k) as [H1 [H2 _]]; [lia|].
  split; [lia|]. split; apply in_seq; lia.
Qed.

(* calibrated => exact: the belief of the last remaining clique is the marginal of the joint *)
Theorem peel_to_root order r :
  peels D t (all_cl D t) (all_ed D t) order [r] [] ->
  forall a, valid a ->
    feval (belief st r) a = sum_over (pvars order) (map card (pvars order)) (joint D card t) a.
Proof.
  intros Hp a Ha.
  rewrite (sum_over_ext_valid D card (pvars order) (joint D card t) (G (all_cl D t) (all_ed D t)) a Ha)
    by (intros b Hb; symmetry; apply G_all; exact Hb).
  rewrite (peel_sum _ _ _ _ _ Hp (proj1 all_cl_ok) (proj1 all_ed_ok) (proj2 all_cl_ok) (proj2 all_ed_ok) a Ha).
  unfold G. simpl. rewrite !mul_1_r. reflexivity.
Qed.

(* the out-of-clique expression of a subtree *)
Theorem peel_to_subtree order sub esub :
  peels D t (all_cl D t) (all_ed D t) order sub esub ->
  forall a, valid a ->
    G sub esub a = sum_over (pvars order) (map card (pvars order)) (joint D card t) a.
Proof.
  intros Hp a Ha.
  rewrite (sum_over_ext_valid D card (pvars order) (joint D card t) (G (all_cl D t) (all_ed D t)) a Ha)
    by (intros b Hb; symmetry; apply G_all; exact Hb).
  symmetry. apply (peel_sum _ _ _ _ _ Hp (proj1 all_cl_ok) (proj1 all_ed_ok) (proj2 all_cl_ok) (proj2 all_ed_ok) a Ha).
Qed.
End Peel.
