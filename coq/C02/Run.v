(* C02 entry points for the extracted driver: sx -> sx *)
From Coq Require Import List Bool Arith ZArith QArith Qcanon.
From PV Require Import Base.Sx Base.Semiring Base.Ravel Base.FinSum Base.RefFactor Base.VE C02.Dsr C02.Model C02.Cert.
Import ListNotations.

Section Generic.
Variable D : dsr.
Variable toQ : D -> Qc.
Variable ofQ : Qc -> D.

Definition dec_factor (s : sx) : option (factor D) :=
  match sx_pair (sx_list sx_nat) (sx_list sx_Qc) s with
  | Some (vs, vals) => Some {| fvars := vs; fvals := map ofQ vals |}
  | None => None
  end.
Definition dec_tree (sc scl se sa sp : sx) : option ((var -> nat) * ctree D) :=
  match sx_list sx_nat sc, sx_list (sx_list sx_nat) scl, sx_list (sx_pair sx_nat sx_nat) se,
        sx_list (sx_list sx_nat) sa, sx_list (sx_list dec_factor) sp with
  | Some cards, Some cl, Some es, Some ad, Some gs =>
      let card := fun v => nth v cards 0%nat in
      if forallb (fun g => negb (length g =? 0)%nat &&
                           forallb (fun f => nodupb (fvars f) && (length (fvals f) =? prod (map card (fvars f)))%nat) g) gs
      then Some (card, tree_of_groups D card cl es ad gs) else None
  | _, _, _, _, _ => None
  end.
Definition of_tab (l : list D) : sx := of_list (fun x => of_Qc (toQ x)) l.

(* tables must have the right length and the scopes no duplicates *)
Definition pots_ok (card : var -> nat) (t : ctree D) : bool :=
  forallb (fun f => nodupb (fvars f) && (length (fvals f) =? prod (map card (fvars f)))) (pots D t).

(* [cards cliques edges adj pots] -> [jt_ok; sched_ok; converged; beliefs; sepsets; brute clique marginals;
                                       brute sepset marginals];   error 1 = malformed tree *)
Definition calibrate_reply (lite : bool) (card : var -> nat) (t : ctree D) : sx :=
  if wf_tree D card t && pots_ok card t then
    let st := calibrate D card t in
    sx_ok (SL [ of_bool (jt_chk D t);
                of_bool (sched_chk D t &&
                         tree_shape_chk (length (cliques D t)) (tedges D t) (adj D t));
                of_bool (is_converged D card t st);
                of_list (fun i => of_tab (table_on D card (clq D t i) (belief D card st i))) (all_cl D t);
                of_list (fun ke => let '(k, (i, j)) := ke in
                           SL [ of_list of_nat (sepset D t i j);
                                match nth k (sep D st) None with
                                | Some mu => SL [of_tab (table_on D card (sepset D t i j) mu)]
                                | None => SL []
                                end ])
                        (combine (all_ed D t) (tedges D t));
                of_list (fun i => of_tab (table_on D card (clq D t i) (brute_marginal D card t (clq D t i))))
                        (if lite then [] else all_cl D t);
                of_list (fun e => of_tab (table_on D card (sepset D t (fst e) (snd e))
                                                   (brute_marginal D card t (sepset D t (fst e) (snd e)))))
                        (if lite then [] else tedges D t) ])
  else sx_err 1.

(* [.. Q ev] -> [cert; table over Q of the VE answer (unnormalised); per-variable tables;
                 brute-force table over Q (unnormalised)]; error 2 = a sepset belief is missing *)
Definition query_reply (lite : bool) (card : var -> nat) (t : ctree D) (Q : list var) (ev : list (var * nat)) : sx :=
  if wf_tree D card t && pots_ok card t then
    let st0 := init_state D t in
    let st := if is_converged D card t st0 then st0 else calibrate D card t in
    match bp_query D card t st Q ev with
    | Some r =>
        sx_ok (SL [ of_bool (query_cert D card t Q ev r);
                    of_tab (table_on D card Q (q_factor D r));
                    of_list (fun q => of_tab (table_on D card [q] (fmarg D card (vminus Q [q]) (q_factor D r)))) Q;
                    (if lite then SL [] else of_tab (table_on D card Q (brute_query D card t Q ev)));
                    of_list of_nat (q_sub D r) ])
    | None => sx_err 2
    end
  else sx_err 1.

Definition gen_calibrate (lite : bool) (s : sx) : sx :=
  match s with
  | SL [sc; scl; se; sa; sp] =>
      match dec_tree sc scl se sa sp with
      | Some (card, t) => calibrate_reply lite card t
      | None => bad_request
      end
  | _ => bad_request
  end.
Definition gen_query (lite : bool) (s : sx) : sx :=
  match s with
  | SL [sc; scl; se; sa; sp; sq; sev] =>
      match dec_tree sc scl se sa sp, sx_list sx_nat sq, sx_list (sx_pair sx_nat sx_nat) sev with
      | Some (card, t), Some Q, Some ev => query_reply lite card t Q ev
      | _, _, _ => bad_request
      end
  | _ => bad_request
  end.
End Generic.

Definition idQ (q : Qc) : Qc := q.
Definition run_c02_calibrate (s : sx) : sx := gen_calibrate Qc_sum_dsr idQ idQ false s.
Definition run_c02_max_calibrate (s : sx) : sx := gen_calibrate Qc_max_dsr idQ idQ false s.
Definition run_c02_query (s : sx) : sx := gen_query Qc_sum_dsr idQ idQ false s.
(* the same without the model-side brute force (mid-sized models: the harness supplies the exact brute force) *)
Definition run_c02_calibrate_lite (s : sx) : sx := gen_calibrate Qc_sum_dsr idQ idQ true s.
Definition run_c02_max_calibrate_lite (s : sx) : sx := gen_calibrate Qc_max_dsr idQ idQ true s.
Definition run_c02_query_lite (s : sx) : sx := gen_query Qc_sum_dsr idQ idQ true s.
