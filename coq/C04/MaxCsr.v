(* The max-product semiring with an explicit bottom element: (Qc + {-inf}, max, x).  Its zero is -inf (None), so
   the identity law  max(-inf, a) = a  holds for EVERY a and a finite "sum" is the true maximum also of negative
   entries; only distributivity  a * max(b,c) = max(a*b, a*c)  needs the guard  a >= 0  (or a = -inf). *)
From Coq Require Import List QArith Qcanon Lia Lqa.
From PV Require Import Base.Semiring.
Import ListNotations.
Local Open Scope Qc_scope.

Definition omax (a b : option Qc) : option Qc :=
  match a, b with
  | None, x => x
  | x, None => x
  | Some p, Some q => Some (Qcmax p q)
  end.
Definition omul (a b : option Qc) : option Qc :=
  match a, b with Some p, Some q => Some (p * q) | _, _ => None end.
Definition ook (a : option Qc) : Prop := match a with None => True | Some q => 0 <= q end.

Definition Qcm_csr : csr.
Proof.
  refine {| K := option Qc; zero := None; one := Some 1; add := omax; mul := omul; ok := ook |}.
  - exact I.
  - discriminate.
  - intros [a|] [b|] Ha Hb; simpl in *; try assumption; try exact I. apply Qcmax_nonneg; assumption.
  - intros [a|] [b|] Ha Hb; simpl in *; try exact I.
    replace (Q2Qc 0) with (Q2Qc 0 * b) by ring. apply Qcmult_le_compat_r; assumption.
  - intros [a|] [b|]; simpl; try reflexivity. f_equal. apply Qcmax_comm.
  - intros [a|] [b|] [c|]; simpl; try reflexivity. f_equal. apply Qcmax_assoc.
  - intros a _. reflexivity.
  - intros [a|] [b|]; simpl; try reflexivity. f_equal. ring.
  - intros [a|] [b|] [c|]; simpl; try reflexivity. f_equal. ring.
  - intros [a|]; simpl; [f_equal; ring|reflexivity].
  - intros a. reflexivity.
  - intros [a|] [b|] [c|] Ha; simpl in *; try reflexivity. f_equal. apply Qcmax_mul_l. exact Ha.
Defined.
