(* Executable model of pgmpy.factors.discrete.DiscreteFactor (and factors/base.py folds), written the
   way pgmpy computes: its own variable list, cardinality array, state-name dict, value tensor (whose
   shape is a separate thing from `cardinality`, as in pgmpy), einsum index lists built from variable
   positions, swapaxes alignment loops, integer slicing, name->number with the fall back to numbers.
   Python set iteration orders are explicit ORDER PARAMETERS.  No proofs in this file. *)
From Coq Require Import List Arith Lia PeanoNat Bool ZArith QArith Qcanon.
From PV Require Import Base.Semiring Base.Ravel Base.FinSum Base.RefFactor C04.Tensor.
Import ListNotations.
Local Close Scope Qc_scope.
Local Close Scope Q_scope.
Local Open Scope nat_scope.

Definition name := Z.
Inductive err := ErrValue | ErrKey | ErrIndex | ErrType.
Inductive res (A : Type) := Ok (x : A) | Err (e : err).
Arguments Ok {A}. Arguments Err {A}.
Definition bind {A B} (r : res A) (f : A -> res B) : res B := match r with Ok x => f x | Err e => Err e end.
Notation "'do' x <- r ; k" := (bind r (fun x => k)) (at level 200, x pattern, r at level 100, k at level 200).

(* ---- python dict  variable -> list of state names  (insertion ordered) ----------------------- *)
Definition sdict := list (var * list name).
Fixpoint dlookup (v : var) (d : sdict) : option (list name) :=
  match d with [] => None | (w, l) :: r => if Nat.eqb w v then Some l else dlookup v r end.
Fixpoint dset (v : var) (l : list name) (d : sdict) : sdict :=
  match d with
  | [] => [(v, l)]
  | (w, l') :: r => if Nat.eqb w v then (w, l) :: r else (w, l') :: dset v l r
  end.
(* d1.update(d2) *)
Definition dupdate (d1 d2 : sdict) : sdict := fold_left (fun acc kv => dset (fst kv) (snd kv) acc) d2 d1.
(* del d[v] : None = KeyError *)
Fixpoint ddel (v : var) (d : sdict) : option sdict :=
  match d with
  | [] => None
  | (w, l) :: r => if Nat.eqb w v then Some r else option_map (cons (w, l)) (ddel v r)
  end.
Fixpoint ddel_list (vs : list var) (d : sdict) : option sdict :=
  match vs with [] => Some d | v :: r => match ddel v d with Some d' => ddel_list r d' | None => None end end.
Definition dkeys (d : sdict) : list var := map fst d.

Definition posz := index_of Z.eqb.
Definition memz := mem_of Z.eqb.
Fixpoint nodupz (l : list name) : bool := match l with [] => true | x :: r => negb (memz x r) && nodupz r end.
Definition subsetv (a b : list var) : bool := forallb (fun x => memv x b) a.
Definition subsetz (a b : list name) : bool := forallb (fun x => memz x b) a.

(* a[i] for a Python int i on an axis of size d: negative indices wrap, out of range = IndexError *)
Definition py_index (z : Z) (d : nat) : option nat :=
  if ((0 <=? z) && (z <? Z.of_nat d))%Z then Some (Z.to_nat z)
  else if ((z <? 0) && (- Z.of_nat d <=? z))%Z then Some (Z.to_nat (z + Z.of_nat d))
  else None.

(* the harness interns state names: Python ints are themselves, str -> [10^6, 2*10^6), tuples above *)
Definition is_str (z : name) : bool := ((1000000 <=? z) && (z <? 2000000))%Z.

Section Factor.
Context {A : Type}.

Record dfactor := { dvars : list var; dcard : list nat; dstates : sdict; dvals : tensor A }.

(* state_names[v] / name_to_no[v][nm] / no_to_name[v][i]  (the three dicts are always updated together) *)
Definition states_of (f : dfactor) (v : var) : list name := match dlookup v (dstates f) with Some l => l | None => [] end.
Definition name_to_no (f : dfactor) (v : var) (nm : name) : option nat :=
  match dlookup v (dstates f) with
  | Some l => if memz nm l then Some (posz nm l) else None
  | None => None
  end.
Definition card_of (f : dfactor) (v : var) : nat := nth (posn v (dvars f)) (dcard f) 0.

(* __init__(variables, cardinality, values, state_names) *)
Definition default_states (vars : list var) (card : list nat) : sdict :=
  map2 (fun v c => (v, map Z.of_nat (seq 0 c))) vars card.
Definition mk_factor (vars : list var) (card : list nat) (values : list A) (sn : sdict) : res dfactor :=
  if negb (Nat.eqb (length card) (length vars)) then Err ErrValue
  else if negb (Nat.eqb (length values) (prod card)) then Err ErrValue
  else if negb (nodupb vars) then Err ErrValue
  else match sn with
       | [] => Ok {| dvars := vars; dcard := card; dstates := default_states vars card;
                     dvals := {| tshape := card; tdata := values |} |}
       | _ => if forallb (fun kv => nodupz (snd kv)) sn
              then Ok {| dvars := vars; dcard := card; dstates := sn; dvals := {| tshape := card; tdata := values |} |}
              else Err ErrValue
       end.

Definition scope (f : dfactor) : list var := dvars f.
(* get_cardinality(variables) *)
Definition get_cardinality (f : dfactor) (vs : list var) : res (list (var * nat)) :=
  if forallb (fun v => memv v (dvars f)) vs
  then Ok (map (fun v => (v, nth (posn v (dvars f)) (dcard f) 0)) vs)
  else Err ErrValue.

(* copy(): fresh variables list, cardinality array, values; the three dicts are shallow copies *)
Definition copy (f : dfactor) : dfactor :=
  {| dvars := dvars f; dcard := dcard f; dstates := dstates f; dvals := dvals f |}.

Fixpoint kw_lookup (v : var) (kw : list (var * name)) : option name :=
  match kw with [] => None | (w, s) :: r => if Nat.eqb w v then Some s else kw_lookup v r end.
(* later entries of a list of pairs override earlier ones (dict(...) / slice_[i] = ... in a loop) *)
Definition kw_last (v : var) (kw : list (var * name)) : option name := kw_lookup v (rev kw).

Fixpoint traverse_res {X Y} (g : X -> res Y) (l : list X) : res (list Y) :=
  match l with
  | [] => Ok []
  | x :: r => do y <- g x; do ys <- traverse_res g r; Ok (y :: ys)
  end.
Fixpoint py_indices (zs : list Z) (sh : list nat) : res (list nat) :=
  match zs, sh with
  | [], [] => Ok []
  | z :: zs', dd :: sh' => match py_index z dd with
                          | Some i => do r <- py_indices zs' sh'; Ok (i :: r)
                          | None => Err ErrIndex end
  | _, _ => Err ErrIndex
  end.

(* get_value(kwargs): names first, fall back to the given value as a state number (per variable) *)
Definition get_value (dflt : A) (f : dfactor) (kw : list (var * name)) : res A :=
  if negb (forallb (fun p => memv (fst p) (dvars f)) kw) then Err ErrValue
  else
    do index <- traverse_res (fun v => match kw_last v kw with
                                       | None => Err ErrValue
                                       | Some s => match name_to_no f v s with
                                                   | Some i => Ok (Z.of_nat i)
                                                   | None => Ok s end end) (dvars f);
    do idx <- py_indices index (tshape (dvals f));
    Ok (tget dflt (dvals f) idx).

(* set_value(value, kwargs): str states by name (KeyError when unknown), anything else as a number *)
Definition set_value (f : dfactor) (x : A) (kw : list (var * name)) : res dfactor :=
  if negb (forallb (fun p => memv (fst p) (dvars f)) kw) then Err ErrValue
  else
    do index <- traverse_res (fun v => match kw_last v kw with
                                       | None => Err ErrValue
                                       | Some s => if is_str s
                                                   then match name_to_no f v s with
                                                        | Some i => Ok (Z.of_nat i) | None => Err ErrKey end
                                                   else Ok s end) (dvars f);
    do idx <- py_indices index (tshape (dvals f));
    Ok {| dvars := dvars f; dcard := dcard f; dstates := dstates f;
          dvals := {| tshape := tshape (dvals f);
                      tdata := set_nth (ravel (tshape (dvals f)) idx) x (tdata (dvals f)) |} |}.

(* assignment(index): the mod / floor-div loop over the reversed cardinalities, then flipped *)
Fixpoint assign_loop (rev_card : list nat) (i : nat) : list nat :=
  match rev_card with [] => [] | c :: r => (i mod c) :: assign_loop r (i / c) end.
Definition assignment1 (f : dfactor) (i : nat) : res (list (var * name)) :=
  if prod (dcard f) - 1 <? i then Err ErrIndex
  else let nums := rev (assign_loop (rev (dcard f)) i) in
       traverse_res (fun vk => match dlookup (fst vk) (dstates f) with
                               | Some l => if snd vk <? length l then Ok (fst vk, nth (snd vk) l 0%Z) else Err ErrKey
                               | None => Err ErrKey end)
                    (combine (dvars f) nums).
Definition assignment (f : dfactor) (is_ : list nat) : res (list (list (var * name))) :=
  if forallb (fun i => i <=? prod (dcard f) - 1) is_ then traverse_res (assignment1 f) is_ else Err ErrIndex.

(* ---- reduce(values): by state NAME; if any name is unknown ALL are taken as state numbers ----- *)
Definition reduce_numbers (f : dfactor) (ev : list (var * name)) : list (var * Z) :=
  match traverse_res (fun p => match name_to_no f (fst p) (snd p) with
                               | Some i => Ok (fst p, Z.of_nat i) | None => Err ErrKey end) ev with
  | Ok l => l
  | Err _ => ev
  end.
Definition index_to_keep (n : nat) (del : list nat) : list nat := filter (fun k => negb (memv k del)) (seq 0 n).
(* slice_ = [slice(None)] * n ; slice_[var_index] = state *)
Definition reduce_slice (f : dfactor) (evn : list (var * Z)) : list (option Z) :=
  fold_left (fun sl p => set_nth (posn (fst p) (dvars f)) (Some (snd p)) sl) evn (repeat None (length (dvars f))).
Fixpoint norm_slice (sl : list (option Z)) (sh : list nat) : res (list (option nat)) :=
  match sl, sh with
  | [], [] => Ok []
  | None :: sl', _ :: sh' => do r <- norm_slice sl' sh'; Ok (None :: r)
  | Some z :: sl', dd :: sh' => match py_index z dd with
                               | Some i => do r <- norm_slice sl' sh'; Ok (Some i :: r)
                               | None => Err ErrIndex end
  | _, _ => Err ErrIndex
  end.
Definition reduce (dflt : A) (f : dfactor) (ev : list (var * name)) : res dfactor :=
  if negb (forallb (fun p => memv (fst p) (dvars f)) ev) then Err ErrValue
  else
    let evn := reduce_numbers f ev in
    let sl := reduce_slice f evn in
    let keep := index_to_keep (length (dvars f)) (map (fun p => posn (fst p) (dvars f)) evn) in
    match ddel_list (map fst evn) (dstates f) with
    | None => Err ErrKey
    | Some st =>
        do nsl <- norm_slice sl (tshape (dvals f));
        Ok {| dvars := gather 0 keep (dvars f); dcard := gather 0 keep (dcard f); dstates := st;
              dvals := t_slice dflt nsl (dvals f) |}
    end.
End Factor.
Arguments dfactor A : clear implicits.

(* ---- operations that need the arithmetic ------------------------------------------------------ *)
Section Arith.
Variable R : csr.
Notation fac := (dfactor R).

Definition identity_factor (f : fac) : res fac :=
  mk_factor (dvars f) (dcard f) (repeat (one : R) (length (tdata (dvals f)))) (dstates f).

(* marginalize(variables): einsum(values, range(n), index_to_keep) *)
Definition marginalize (f : fac) (X : list var) : res fac :=
  if negb (forallb (fun v => memv v (dvars f)) X) then Err ErrValue
  else
    let n := length (dvars f) in
    let var_indexes := map (fun v => posn v (dvars f)) X in
    let keep := index_to_keep n var_indexes in
    match ddel_list X (dstates f) with
    | None => Err ErrKey
    | Some st =>
        Ok {| dvars := gather 0 keep (dvars f); dcard := gather 0 keep (dcard f); dstates := st;
              dvals := t_einsum R [(dvals f, seq 0 n)] keep |}
    end.

(* maximize(variables): max(values, axis=tuple(var_indexes)); "max" is the csr's addition *)
Definition maximize (f : fac) (X : list var) : res fac :=
  if negb (forallb (fun v => memv v (dvars f)) X) then Err ErrValue
  else
    let n := length (dvars f) in
    let var_indexes := map (fun v => posn v (dvars f)) X in
    let keep := index_to_keep n var_indexes in
    match ddel_list X (dstates f) with
    | None => Err ErrKey
    | Some st =>
        Ok {| dvars := gather 0 keep (dvars f); dcard := gather 0 keep (dcard f); dstates := st;
              dvals := t_reduce_axes R var_indexes (dvals f) |}
    end.

(* is [o] an ordering of the Python set with the elements of [s] ? *)
Definition is_order_of (o s : list var) : bool := nodupb o && subsetv o s && subsetv s o.

(* product(phi1): new_variables = list(set(phi.variables).union(phi1.variables)) = [order] *)
Definition product (f g : fac) (order : list var) : res fac :=
  if negb (is_order_of order (dvars f ++ dvars g)) then Err ErrType (* not a possible set order: bad request *)
  else
    let var_to_int := fun v => posn v order in
    let ops := [(dvals f, map var_to_int (dvars f)); (dvals g, map var_to_int (dvars g))] in
    let out := seq 0 (length order) in
    if negb (einsum_okb R ops out) then Err ErrValue
    else
      let phi_card := fun v => if memv v (dvars g) then card_of g v else card_of f v in
      Ok {| dvars := order; dcard := map phi_card order; dstates := dupdate (dstates f) (dstates g);
            dvals := t_einsum R ops out |}.
Definition product_scalar (f : fac) (c : R) : fac :=
  {| dvars := dvars f; dcard := dcard f; dstates := dstates f; dvals := t_map (fun x => mul x c) (dvals f) |}.

(* the swapaxes alignment loop of sum / divide / __eq__:
     for axis in range(ndim): e = vars1.index(target[axis]); swap vars1[axis], vars1[e]; vals1.swapaxes(axis, e) *)
Definition align_step {B} (db : B) (target : list var) (st : list var * tensor B) (axis : nat) : list var * tensor B :=
  let e := posn (nth axis target 0) (fst st) in
  (swapl 0 axis e (fst st), t_swapaxes db axis e (snd st)).
Definition align_loop {B} (db : B) (target : list var) (n : nat) (vars1 : list var) (vals1 : tensor B) :=
  fold_left (align_step db target) (seq 0 n) (vars1, vals1).

Definition set_diff (a b : list var) : list var := filter (fun x => negb (memv x b)) a.

(* sum(phi1): ex1 = order of set(phi1.variables) - set(phi.variables); ex2 = order of the converse set *)
Definition sum (f g : fac) (ex1 ex2 : list var) : res fac :=
  if negb (is_order_of ex1 (set_diff (dvars g) (dvars f))) then Err ErrType
  else
    let '(pvars, pcard, pstates, pvals) :=
      match ex1 with
      | [] => (dvars f, dcard f, dstates f, dvals f)
      | _ => (dvars f ++ ex1, dcard f ++ map (card_of g) ex1, dupdate (dstates f) (dstates g),
              t_expand (length ex1) (dvals f))
      end in
    if negb (is_order_of ex2 (set_diff pvars (dvars g))) then Err ErrType
    else
      let '(gvars, gvals) :=
        match ex2 with
        | [] => (dvars g, dvals g)
        | _ => (dvars g ++ ex2, t_expand (length ex2) (dvals g))
        end in
      let '(_, gvals') := align_loop zero pvars (trank pvals) gvars gvals in
      if negb (shapes_compatb (tshape pvals) (tshape gvals')) then Err ErrValue
      else Ok {| dvars := pvars; dcard := pcard; dstates := pstates;
                 dvals := t_bop zero zero add pvals gvals' |}.
Definition sum_scalar (f : fac) (c : R) : fac :=
  {| dvars := dvars f; dcard := dcard f; dstates := dstates f; dvals := t_map (fun x => add x c) (dvals f) |}.

(* factors/base.py: reduce(lambda phi1, phi2: phi1 * phi2, args) *)
Fixpoint fp_go (acc : fac) (r : list fac) (os : list (list var)) : res fac :=
  match r, os with
  | [], _ => Ok acc
  | g :: r', o :: os' => do acc' <- product acc g o; fp_go acc' r' os'
  | _ :: _, [] => Err ErrType
  end.
Definition factor_product (fs : list fac) (orders : list (list var)) : res fac :=
  match fs with
  | [] => Err ErrType
  | [f] => Ok (copy f)
  | f :: r => fp_go f r orders
  end.

(* factor_sum_product(output_vars, factors): contract(values_1, variables_1, ..., output_vars) *)
Definition factor_sum_product (out : list var) (fs : list fac) : res fac :=
  let ops := map (fun f : fac => (dvals f, dvars f)) fs in
  if negb (einsum_okb R ops out) then Err ErrValue
  else
    let states := fold_left (fun acc (f : fac) => dupdate acc (dstates f)) fs [] in
    let vals := t_einsum R ops out in
    match traverse_res (fun v => match dlookup v states with Some l => Ok (v, l) | None => Err ErrKey end) out with
    | Err e => Err e
    | Ok sn => mk_factor out (tshape vals) (tdata vals) sn
    end.
End Arith.

(* ---- rationals: divide, normalize, ==, hash ---------------------------------------------------- *)
Notation qfac := (dfactor Qc).

(* IEEE results of a division of finite numbers: finite, +inf, -inf, nan *)
Inductive xq := XFin (q : Qc) | XPInf | XNInf | XNaN.
Definition qdiv_ieee (x y : Qc) : xq :=
  if Qc_eq_dec y 0%Qc then (if Qc_eq_dec x 0%Qc then XNaN else if Qclt_le_dec 0%Qc x then XPInf else XNInf)
  else XFin (x / y)%Qc.
(* phi.values[isnan(phi.values)] = 0 *)
Definition nan_to_0 (x : xq) : xq := match x with XNaN => XFin 0%Qc | o => o end.
Definition qdiv (x y : Qc) : xq := nan_to_0 (qdiv_ieee x y).

(* divide(phi1): ex = order of set(phi.variables) - set(phi1.variables) *)
Definition divide (f g : qfac) (ex : list var) : res (dfactor xq) :=
  if negb (subsetv (dvars g) (dvars f)) then Err ErrValue
  else if negb (is_order_of ex (set_diff (dvars f) (dvars g))) then Err ErrType
  else
    let '(gvars, gvals) :=
      match ex with
      | [] => (dvars g, dvals g)
      | _ => (dvars g ++ ex, t_expand (length ex) (dvals g))
      end in
    let '(_, gvals') := align_loop 0%Qc (dvars f) (trank (dvals f)) gvars gvals in
    if negb (shapes_compatb (tshape (dvals f)) (tshape gvals')) then Err ErrValue
    else Ok {| dvars := dvars f; dcard := dcard f; dstates := dstates f;
               dvals := t_bop 0%Qc 0%Qc qdiv (dvals f) gvals' |}.
Definition factor_divide (f g : qfac) (ex : list var) := divide f g ex.

(* normalize(): values / values.sum()   (elementwise IEEE division by the total; nan is NOT replaced) *)
Definition normalize (f : qfac) : dfactor xq :=
  let tot := t_total Qc_sum_csr (dvals f) in
  {| dvars := dvars f; dcard := dcard f; dstates := dstates f;
     dvals := {| tshape := tshape (dvals f); tdata := map (fun x => qdiv_ieee x tot) (tdata (dvals f)) |} |}.

Definition Qcabs (x : Qc) : Qc := if Qclt_le_dec x 0%Qc then (- x)%Qc else x.
Definition Qcleb (x y : Qc) : bool := if Qclt_le_dec y x then false else true.
(* np.allclose(a, b, atol, rtol): all |a - b| <= atol + rtol * |b| *)
Definition closeb (atol rtol a b : Qc) : bool := Qcleb (Qcabs (a - b)%Qc) (atol + rtol * Qcabs b)%Qc.

Fixpoint list_eqb {X} (e : X -> X -> bool) (a b : list X) : bool :=
  match a, b with [] , [] => true | x :: a', y :: b' => e x y && list_eqb e a' b' | _, _ => false end.

(* the alignment loop of __eq__ also swaps the cardinality entries *)
Definition eq_align_step (target : list var) (st : list var * list nat * tensor Qc) (axis : nat) :=
  let '(vars1, card1, vals1) := st in
  let e := posn (nth axis target 0) vars1 in
  (swapl 0 axis e vars1, swapl 0 axis e card1, t_swapaxes 0%Qc axis e vals1).

(* state re-alignment: for axis, var in enumerate(self.variables) *)
Fixpoint eq_state_loop (self : qfac) (ostates : sdict) (vars : list var) (axis : nat) (vals : tensor Qc)
  : res (option (tensor Qc)) :=
  match vars with
  | [] => Ok (Some vals)
  | v :: r =>
      match dlookup v (dstates self), dlookup v ostates with
      | Some ls, Some lo =>
          if negb (subsetz ls lo && subsetz lo ls) then Ok None
          else if list_eqb Z.eqb ls lo then eq_state_loop self ostates r (S axis) vals
          else eq_state_loop self ostates r (S axis) (t_take 0%Qc axis (map (fun s => posz s lo) ls) vals)
      | _, _ => Err ErrKey
      end
  end.

Definition factor_eqb (atol rtol : Qc) (self other : qfac) : res bool :=
  if negb (subsetv (dvars self) (dvars other) && subsetv (dvars other) (dvars self)) then Ok false
  else
    let '(pvars, pcard, pvals) :=
      if list_eqb Nat.eqb (dvars self) (dvars other) then (dvars other, dcard other, dvals other)
      else fold_left (eq_align_step (dvars self)) (seq 0 (trank (dvals self))) (dvars other, dcard other, dvals other) in
    do r <- eq_state_loop self (dstates other) (dvars self) 0 pvals;
    match r with
    | None => Ok false
    | Some pvals' =>
        if negb (list_eqb Nat.eqb (tshape pvals') (tshape (dvals self))) then Ok false
        else if negb (forallb (fun ab => closeb atol rtol (fst ab) (snd ab)) (combine (tdata pvals') (tdata (dvals self))))
        then Ok false
        else Ok (list_eqb Nat.eqb (dcard self) pcard)
    end.

(* __hash__: everything the final hash(...) is computed from.  hv = Python's hash of a variable name *)
Fixpoint insertz (x : Z) (l : list Z) : list Z :=
  match l with [] => [x] | y :: r => if (x <=? y)%Z then x :: l else y :: insertz x r end.
Definition sortz (l : list Z) : list Z := fold_right insertz [] l.
Fixpoint insertn (x : nat) (l : list nat) : list nat :=
  match l with [] => [x] | y :: r => if x <=? y then x :: l else y :: insertn x r end.
Definition sortn (l : list nat) : list nat := nodup Nat.eq_dec (fold_right insertn [] l).

Definition hash_step (sorted : list Z) (st : list Z * list nat * tensor Qc) (axis : nat) :=
  let '(hs, card1, vals1) := st in
  let e := posz (nth axis sorted 0%Z) hs in
  (swapl 0%Z axis e hs, swapl 0 axis e card1, t_swapaxes 0%Qc axis e vals1).
Record hkey := { hk_vars : list Z; hk_vals : list Qc; hk_card : list nat; hk_keys : list var }.
Definition hash_key (hv : var -> Z) (f : qfac) : hkey :=
  let hs := map hv (dvars f) in
  let sorted := sortz hs in
  let '(_, card1, vals1) := fold_left (hash_step sorted) (seq 0 (trank (dvals f))) (hs, dcard f, dvals f) in
  {| hk_vars := sorted; hk_vals := tdata vals1; hk_card := card1; hk_keys := sortn (dkeys (dstates f)) |}.

(* ---- a tiny store model of copy() and of the out-of-place protocol ----------------------------- *)
(* Objects: a factor object holds locations of its variables list, cardinality array, values array and
   of its state-name dict; the dict holds locations of the inner state lists (copied by copy() too). *)
Inductive obj :=
| OVars (l : list var) | OCard (l : list nat) | OVals (t : tensor Qc)
| ODict (d : list (var * nat))            (* variable -> location of its state list *)
| OStates (l : list name)
| OFactor (lv lc lx ld : nat).
Definition store := list obj.             (* location = position *)
Definition alloc (s : store) (o : obj) : store * nat := (s ++ [o], length s).
Definition sread (s : store) (l : nat) : option obj := nth_error s l.
Definition swrite (s : store) (l : nat) (o : obj) : store := set_nth l o s.

(* copy(): fresh list / arrays / dict object AND fresh inner state lists
   (copy.state_names = {var: list(names) for var, names in self.state_names.items()}) *)
Fixpoint copy_states (s : store) (dd : list (var * nat)) : store * list (var * nat) :=
  match dd with
  | [] => (s, [])
  | (v, l) :: r =>
      let o := match sread s l with Some (OStates x) => OStates x | _ => OStates [] end in
      let '(s1, l') := alloc s o in
      let '(s2, r') := copy_states s1 r in
      (s2, (v, l') :: r')
  end.
Definition store_copy (s : store) (lf : nat) : option (store * nat) :=
  match sread s lf with
  | Some (OFactor lv lc lx ld) =>
      match sread s lv, sread s lc, sread s lx, sread s ld with
      | Some (OVars v), Some (OCard c), Some (OVals x), Some (ODict dd) =>
          let '(s0, dd') := copy_states s dd in
          let '(s1, lv') := alloc s0 (OVars v) in
          let '(s2, lc') := alloc s1 (OCard c) in
          let '(s3, lx') := alloc s2 (OVals x) in
          let '(s4, ld') := alloc s3 (ODict dd') in
          Some (alloc s4 (OFactor lv' lc' lx' ld'))
      | _, _, _, _ => None
      end
  | _ => None
  end.
(* the mutations the public API can perform on a factor object: rebinding / in-place update of its own
   variables, cardinality, values, dict (never of an inner state list) *)
Inductive mutation := MVars (l : list var) | MCard (l : list nat) | MVals (t : tensor Qc) | MDict (d : list (var * nat)).
Definition store_mutate (s : store) (lf : nat) (m : mutation) : store :=
  match sread s lf with
  | Some (OFactor lv lc lx ld) =>
      match m with
      | MVars l => swrite s lv (OVars l)
      | MCard l => swrite s lc (OCard l)
      | MVals t => swrite s lx (OVals t)
      | MDict dd => swrite s ld (ODict dd)
      end
  | _ => s
  end.
(* observable content of a factor object *)
Definition observe (s : store) (lf : nat) : option (list var * list nat * tensor Qc * list (var * option obj)) :=
  match sread s lf with
  | Some (OFactor lv lc lx ld) =>
      match sread s lv, sread s lc, sread s lx, sread s ld with
      | Some (OVars v), Some (OCard c), Some (OVals x), Some (ODict dd) =>
          Some (v, c, x, map (fun p => (fst p, sread s (snd p))) dd)
      | _, _, _, _ => None
      end
  | _ => None
  end.

(* the FactorSet constructor copies every factor it is given (self.factors = set([factor.copy() ...])); FactorSet.copy()
   and the out-of-place product a.product(b, inplace=False) = a.copy() + b.copy()'s factors therefore hold fresh
   copies of all member factors of both operands *)
Fixpoint store_copy_all (s : store) (lfs : list nat) : option (store * list nat) :=
  match lfs with
  | [] => Some (s, [])
  | lf :: r => match store_copy s lf with
               | Some (s1, lf') => match store_copy_all s1 r with
                                   | Some (s2, ls) => Some (s2, lf' :: ls)
                                   | None => None end
               | None => None end
  end.
Definition factorset_product_store (s : store) (a b : list nat) : option (store * list nat) := store_copy_all s (a ++ b).

(* FactorDict.dot(other) = sum((self[clique] * other[clique]).values.sum() for clique in self): per clique the
   flat total of the product factor (set order of the product as a parameter), summed from 0 left to right *)
Section FactorDictDot.
Variable R : csr.
Definition dot1 (f g : dfactor R) (order : list var) : res R :=
  do h <- product R f g order; Ok (t_total R (dvals h)).
Fixpoint fd_dot_go (acc : R) (ps : list (dfactor R * dfactor R * list var)) : res R :=
  match ps with
  | [] => Ok acc
  | (f, g, o) :: r => do x <- dot1 f g o; fd_dot_go (add acc x) r
  end.
Definition factordict_dot (ps : list (dfactor R * dfactor R * list var)) : res R := fd_dot_go zero ps.
End FactorDictDot.

(* the table seen in the max-product semiring with bottom (C04/MaxCsr.v): every entry q becomes Some q *)
Definition lift_factor (f : dfactor Qc) : dfactor (option Qc) :=
  {| dvars := dvars f; dcard := dcard f; dstates := dstates f;
     dvals := {| tshape := tshape (dvals f); tdata := map Some (tdata (dvals f)) |} |}.
