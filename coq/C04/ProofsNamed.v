(* named-assignment form of the product theorem *)
From Coq Require Import List Arith Lia PeanoNat Bool ZArith.
From PV Require Import Base.Semiring Base.Ravel Base.FinSum Base.RefFactor C04.Tensor C04.TensorFacts C04.Model C04.Spec C04.ProofsProd.
Import ListNotations.

Lemma dlookup_dset v w l d : dlookup v (dset w l d) = if Nat.eqb w v then Some l else dlookup v d.
Proof.
  induction d as [|[x lx] d IH]; simpl.
  - destruct (Nat.eqb w v); reflexivity.
  - destruct (Nat.eqb x w) eqn:E; simpl.
    + apply Nat.eqb_eq in E. subst. destruct (Nat.eqb w v); reflexivity.
    + rewrite IH. destruct (Nat.eqb x v) eqn:E2; [|reflexivity].
      apply Nat.eqb_eq in E2. subst. rewrite Nat.eqb_sym, E. reflexivity.
Qed.
Lemma dlookup_dupdate v d2 : forall d1, dlookup v (dupdate d1 d2) =
  match dlookup v (rev d2) with Some l => Some l | None => dlookup v d1 end.
Proof.
  unfold dupdate. induction d2 as [|[w l] d2 IH] using rev_ind; intros d1; [reflexivity|].
  rewrite fold_left_app, rev_app_distr. cbn [fold_left rev app fst snd dlookup]. rewrite dlookup_dset.
  destruct (Nat.eqb w v); [reflexivity|]. apply IH.
Qed.
Section Named.
Variable R : csr.
Variable card : var -> nat.
Variable st : var -> list name.
Notation fac := (dfactor R).

(* every entry of the factor's state dict is the global state list (operands agree on shared variables) and
   every variable of the factor is a key *)
Definition sdict_ok (f : fac) : Prop :=
  (forall v l, In (v, l) (dstates f) -> l = st v) /\ (forall v, In v (dvars f) -> In v (map fst (dstates f))).

Lemma dlookup_In v (d : sdict) l : dlookup v d = Some l -> In (v, l) d.
Proof.
  induction d as [|[w lw] d IH]; [discriminate|]. simpl. destruct (Nat.eqb w v) eqn:E.
  - apply Nat.eqb_eq in E. intros H. inversion H; subst. left. reflexivity.
  - intros H. right. apply IH. exact H.
Qed.
Lemma dlookup_some_of_key v (d : sdict) : In v (map fst d) -> exists l, dlookup v d = Some l.
Proof.
  induction d as [|[w lw] d IH]; [intros []|]. simpl. destruct (Nat.eqb w v) eqn:E; [eexists; reflexivity|].
  intros [H|H]; [subst; rewrite Nat.eqb_refl in E; discriminate|apply IH; exact H].
Qed.
Lemma sdict_ok_states (f : fac) v : sdict_ok f -> In v (dvars f) -> states_of f v = st v.
Proof.
  intros [H1 H2] Hv. unfold states_of. destruct (dlookup_some_of_key v (dstates f) (H2 v Hv)) as [l Hl].
  rewrite Hl. apply (H1 v l). apply dlookup_In. exact Hl.
Qed.

Theorem product_named (f g : fac) order h :
  dwf card f -> dwf card g -> sdict_ok f -> sdict_ok g ->
  (forall v, length (st v) = card v) ->
  product R f g order = Ok h ->
  (forall v, In v (dvars h) -> states_of h v = st v) /\
  forall nu : var -> name, (forall v, In (nu v) (st v)) ->
    neval zero h nu = mul (neval zero f nu) (neval zero g nu).
Proof.
  intros Hf Hg Sf Sg Hlen H.
  destruct (product_pointwise R card f g order h Hf Hg H) as (Hh & Ho & Hs & Hst & Hev).
  assert (Hstates : forall v, In v (dvars h) -> states_of h v = st v).
  { intros v Hv. unfold states_of. rewrite Hst, dlookup_dupdate. rewrite Ho in Hv. apply Hs in Hv.
    destruct (dlookup v (rev (dstates g))) as [l|] eqn:E.
    - destruct Sg as [Sg1 _]. apply (Sg1 v l). apply in_rev. apply dlookup_In. exact E.
    - destruct Hv as [Hv|Hv].
      + apply (sdict_ok_states f v Sf Hv).
      + exfalso. destruct Sg as [Sg1 Sg2]. specialize (Sg2 v Hv).
        assert (Hk : In v (map fst (rev (dstates g)))) by (rewrite map_rev; apply -> in_rev; exact Sg2).
        destruct (dlookup_some_of_key v _ Hk) as [l Hl]. congruence. }
  split; [exact Hstates|].
  intros nu Hnu. unfold neval.
  set (a0 := fun v => posz (nu v) (st v)).
  assert (Ha0 : valid card a0).
  { intros v. unfold a0. rewrite <- Hlen. specialize (Hnu v). unfold posz.
    induction (st v) as [|x l IH]; [destruct Hnu|]. simpl. destruct (Z.eqb x (nu v)) eqn:E; [lia|].
    destruct Hnu as [Hx|Hx]; [subst; rewrite Z.eqb_refl in E; discriminate|]. specialize (IH Hx). lia. }
  assert (Hdep : forall (k : fac), (forall v, In v (dvars k) -> states_of k v = st v) ->
                   deval zero k (nidx k nu) = deval zero k a0).
  { intros k Hk. unfold deval. f_equal. apply map_ext_in. intros v Hv. unfold nidx, a0. rewrite (Hk v Hv). reflexivity. }
  rewrite (Hdep h Hstates), (Hdep f (fun v Hv => sdict_ok_states f v Sf Hv)), (Hdep g (fun v Hv => sdict_ok_states g v Sg Hv)).
  apply Hev. exact Ha0.
Qed.
End Named.
