(* marginalize / maximize: sum (csr addition) over the removed variables *)
From Coq Require Import List Arith Lia PeanoNat Bool ZArith.
From PV Require Import Base.Semiring Base.Ravel Base.FinSum Base.RefFactor C04.Tensor C04.TensorFacts C04.Model C04.Spec C04.ProofsProd.
Import ListNotations.

Lemma filter_map_comm {A B} (g : A -> B) (p : B -> bool) l : filter p (map g l) = map g (filter (fun x => p (g x)) l).
Proof. induction l as [|x l IH]; [reflexivity|]. simpl. destruct (p (g x)); simpl; rewrite IH; reflexivity. Qed.

Lemma gather_filter_seq {A} (d : A) (p : A -> bool) (l : list A) :
  gather d (filter (fun k => p (nth k l d)) (seq 0 (length l))) l = filter p l.
Proof.
  unfold gather. induction l as [|x l IH]; [reflexivity|].
  cbn [length seq filter nth]. rewrite <- seq_shift. rewrite filter_map_comm. cbn [nth].
  destruct (p x); cbn [map nth]; rewrite map_map; cbn [nth]; rewrite IH; reflexivity.
Qed.

Lemma gather_map {A B} (f : A -> B) (d : A) ps l : (forall p, In p ps -> p < length l) ->
  gather (f d) ps (map f l) = map f (gather d ps l).
Proof.
  intros H. unfold gather. rewrite map_map. apply map_ext_in. intros p Hp. apply map_nth.
Qed.

Lemma NoDup_filter' {A} (p : A -> bool) l : NoDup l -> NoDup (filter p l).
Proof. apply NoDup_filter. Qed.

Lemma nodup_id (l : list nat) : NoDup l -> nodup Nat.eq_dec l = l.
Proof. apply nodup_fixed_point. Qed.

Lemma ldim_in_seq sh : forall off k, k < length sh -> ldim_in (off + k) (seq off (length sh)) sh = Some (nth k sh 0).
Proof.
  induction sh as [|c sh IH]; intros off k Hk; [simpl in Hk; lia|]. cbn [length seq ldim_in].
  destruct k as [|k].
  - rewrite Nat.add_0_r, Nat.eqb_refl. reflexivity.
  - destruct (Nat.eqb off (off + S k)) eqn:E; [apply Nat.eqb_eq in E; lia|].
    replace (off + S k) with (S off + k) by lia. apply IH. simpl in Hk. lia.
Qed.

Lemma nth_map0 (c : nat -> nat) (l : list nat) k : k < length l -> nth k (map c l) 0 = c (nth k l 0).
Proof. intros H. rewrite (nth_indep _ 0 (c 0)) by (rewrite map_length; exact H). apply map_nth. Qed.

Lemma gather_map0 (c : nat -> nat) ps (l : list nat) : (forall p, In p ps -> p < length l) ->
  gather 0 ps (map c l) = map c (gather 0 ps l).
Proof. intros H. unfold gather. rewrite map_map. apply map_ext_in. intros p Hp. apply nth_map0. apply H. exact Hp. Qed.

Section Marg.
Variable R : csr.
Variable card : var -> nat.

Lemma ldim_single (t : tensor R) k : k < trank t -> ldim R [(t, seq 0 (trank t))] k = nth k (tshape t) 0.
Proof.
  intros H. cbn [ldim fst snd]. unfold trank in *. pose proof (ldim_in_seq (tshape t) 0 k H) as E. cbn [plus] in E.
  rewrite E. reflexivity.
Qed.
Notation fac := (dfactor R).
Notation deval := (@deval R zero).
Notation dwf := (@dwf R card).

(* moving a sum over axis labels to a sum over the variables sitting on these axes *)
Lemma sum_over_relabel vars (G G' : asg -> R) : NoDup vars ->
  (forall b c, (forall k, k < length vars -> b k = c (nth k vars 0)) -> G b = G' c) ->
  forall ls cs b c, (forall k, In k ls -> k < length vars) ->
    (forall k, k < length vars -> b k = c (nth k vars 0)) ->
    sum_over ls cs G b = sum_over (map (fun k => nth k vars 0) ls) cs G' c.
Proof.
  intros Hn HG. induction ls as [|l ls IH]; intros cs b c Hls Hbc; [apply HG; exact Hbc|].
  destruct cs as [|cc cs]; [apply HG; exact Hbc|]. cbn [map sum_over].
  apply sum_list_ext. intros i _. apply IH; [intros k Hk; apply Hls; right; exact Hk|].
  intros k Hk. unfold upd. destruct (Nat.eqb k l) eqn:E.
  - apply Nat.eqb_eq in E. subst. rewrite Nat.eqb_refl. reflexivity.
  - destruct (Nat.eqb (nth k vars 0) (nth l vars 0)) eqn:E2; [|apply Hbc; exact Hk].
    apply Nat.eqb_eq in E2. exfalso. apply Nat.eqb_neq in E. apply E.
    apply (proj1 (NoDup_nth vars 0) Hn); [exact Hk|apply Hls; left; reflexivity|exact E2].
Qed.

Lemma memv_pos_nth (vars X : list var) k : NoDup vars -> (forall v, In v X -> In v vars) -> k < length vars ->
  memv k (map (fun v : var => posn v vars) X) = memv (nth k vars 0) X.
Proof.
  intros Hn HX Hk. destruct (memv (nth k vars 0) X) eqn:E.
  - apply memv_In. apply memv_In in E. apply in_map_iff. exists (nth k vars 0). split; [|exact E].
    apply posn_of_nth; assumption.
  - apply memv_false. apply memv_false in E. intros Hi. apply E. apply in_map_iff in Hi.
    destruct Hi as [v [Hv1 Hv2]]. destruct (posn_nth vars v (HX v Hv2)) as [H1 _]. rewrite Hv1 in H1.
    replace (nth k vars 0) with v by (symmetry; exact H1). exact Hv2.
Qed.

Lemma keep_vars (vars X : list var) : NoDup vars -> (forall v, In v X -> In v vars) ->
  index_to_keep (@length var vars) (@map nat nat (fun v : nat => posn v vars) X) =
  filter (fun k => negb (memv (nth k vars 0) X)) (seq 0 (length vars)).
Proof.
  intros Hn HX. unfold index_to_keep. apply filter_ext_in. intros k Hk. apply in_seq in Hk.
  rewrite memv_pos_nth by (try assumption; lia). reflexivity.
Qed.

Theorem marginalize_pointwise (f : fac) X h :
  dwf f -> marginalize R f X = Ok h ->
  dwf h /\ dvars h = vminus (dvars f) X /\
  forall a, valid card a ->
    deval h a = sum_over (vinter (dvars f) X) (map card (vinter (dvars f) X)) (deval f) a.
Proof.
  intros Hf H. pose proof Hf as (Hn & Hc & Hs & Hw). unfold marginalize in H.
  match type of H with (if negb ?c then _ else _) = _ => destruct c eqn:EX; [|discriminate] end. cbn [negb] in H.
  destruct (ddel_list X (dstates f)) as [st'|]; [|discriminate]. inversion H; subst h; clear H.
  cbn [dvars dcard dvals].
  assert (HX : forall v, In v X -> In v (dvars f)).
  { intros v Hv. apply memv_In. rewrite forallb_forall in EX. apply EX. exact Hv. }
  set (vars := dvars f) in *.
  rewrite (keep_vars vars X Hn HX). set (n := length vars).
  set (keep := filter (fun k => negb (memv (nth k vars 0) X)) (seq 0 n)).
  assert (Hkeep : forall k, In k keep -> k < n).
  { intros k Hk. apply filter_In in Hk. destruct Hk as [Hk _]. apply in_seq in Hk. lia. }
  assert (Hgv : gather 0 keep vars = vminus vars X).
  { unfold keep, n. exact (gather_filter_seq 0 (fun v => negb (memv v X)) vars). }
  set (ops := [(dvals f, seq 0 n)]).
  assert (Hld : forall k, k < n -> ldim R ops k = card (nth k vars 0)).
  { intros k Hk. unfold ops.
    assert (Hr : n = trank (dvals f)) by (unfold trank; rewrite Hs, Hc, map_length; reflexivity).
    rewrite Hr. rewrite ldim_single by (rewrite <- Hr; exact Hk). rewrite Hs, Hc. apply nth_map0. exact Hk. }
  split.
  { unfold Spec.dwf. cbn [dvars dcard dvals]. split; [rewrite Hgv; apply NoDup_filter; exact Hn|]. split.
    - rewrite Hc. apply (gather_map0 card keep vars). exact Hkeep.
    - split; [|apply twf_tbuild]. unfold t_einsum. cbn [tshape tbuild]. rewrite Hc.
      etransitivity; [|symmetry; exact (gather_map0 card keep vars Hkeep)].
      unfold gather. rewrite map_map. apply map_ext_in.
      intros k Hk. apply (Hld k (Hkeep k Hk)). }
  split; [exact Hgv|].
  intros a Ha. unfold Spec.deval at 1. cbn [dvars dvals].
  set (b := fun k => a (nth k vars 0)).
  assert (Hmb : map a (gather 0 keep vars) = map b keep) by (unfold gather; rewrite map_map; reflexivity).
  rewrite Hmb. rewrite tget_einsum.
  2:{ apply NoDup_filter. apply seq_NoDup. }
  2:{ intros k Hk. rewrite Hld by (apply Hkeep; exact Hk). unfold b. apply Ha. }
  (* the summed labels are the axes of the removed variables *)
  assert (Hsl : summed_labels R ops keep = filter (fun k => memv (nth k vars 0) X) (seq 0 n)).
  { unfold summed_labels, all_labels, ops. cbn [map snd concat]. rewrite app_nil_r.
    rewrite nodup_id by (apply NoDup_filter; apply seq_NoDup).
    apply filter_ext_in. intros k Hk. apply in_seq in Hk.
    destruct (memv (nth k vars 0) X) eqn:E.
    - apply negb_true_iff. apply memv_false. intros Hi. apply filter_In in Hi. destruct Hi as [_ Hi]. rewrite E in Hi. discriminate.
    - apply negb_false_iff. apply memv_In. apply filter_In. split; [apply in_seq; lia|]. rewrite E. reflexivity. }
  rewrite Hsl. set (s := filter (fun k => memv (nth k vars 0) X) (seq 0 n)).
  assert (Hs_lt : forall k, In k s -> k < n).
  { intros k Hk. apply filter_In in Hk. destruct Hk as [Hk _]. apply in_seq in Hk. lia. }
  assert (Hxs : map (fun k => nth k vars 0) s = vinter vars X).
  { unfold s, n. exact (gather_filter_seq 0 (fun v => memv v X) vars). }
  rewrite (sum_over_relabel vars (ein_term R ops) (deval f) Hn) with (c := a).
  - transitivity (sum_over (vinter vars X) (map (ldim R ops) s) (deval f) a); [f_equal; exact Hxs|].
    f_equal. etransitivity; [|apply (f_equal (map card)); exact Hxs].
    rewrite map_map. apply map_ext_in. intros k Hk. apply Hld. apply Hs_lt. exact Hk.
  - intros b' c' Hbc. unfold ein_term, ops, Spec.deval. cbn [map fst snd]. unfold prod_list. cbn [fold_right].
    rewrite mul_1_r. f_equal. fold vars. etransitivity; [|exact (map_nth_seq c' vars 0)].
    apply map_ext_in. intros k Hk. apply in_seq in Hk. apply Hbc. unfold n in Hk. lia.
  - exact Hs_lt.
  - intros k _. reflexivity.
Qed.

Lemma maximize_is_marginalize (f : fac) X : dwf f -> maximize R f X = marginalize R f X.
Proof.
  intros (Hn & Hc & Hs & Hw). unfold maximize, marginalize, t_reduce_axes, index_to_keep, trank.
  rewrite Hs, Hc, map_length. reflexivity.
Qed.

Corollary marginalize_refines (f : fac) X h a :
  dwf f -> marginalize R f X = Ok h -> valid card a ->
  feval R card (to_ref h) a = feval R card (fmarg R card X (to_ref f)) a.
Proof.
  intros Hf H Ha. destruct (marginalize_pointwise f X h Hf H) as (Hh & _ & Hev).
  rewrite (deval_feval R card) by exact Hh. rewrite Hev by exact Ha.
  rewrite feval_fmarg by (try apply wf_to_ref; assumption). cbn [to_ref fvars].
  apply sum_over_ext_fun. intros b. symmetry. apply (deval_feval R card). exact Hf.
Qed.
End Marg.
