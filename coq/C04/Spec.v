(* What the theorems of C04 talk about: evaluation of a modelled DiscreteFactor at an assignment of
   state indices (deval) and at a NAMED assignment (neval), well-formedness, and the embedding into
   the reference factor algebra of Base/RefFactor.v. *)
From Coq Require Import List Arith Lia PeanoNat Bool ZArith.
From PV Require Import Base.Semiring Base.Ravel Base.FinSum Base.RefFactor C04.Tensor C04.Model.
Import ListNotations.

Section Spec.
Context {A : Type} (d : A).
(* global cardinalities and state lists: operands that share a variable agree on them *)
Variable card : var -> nat.
Variable st : var -> list name.

(* value at the assignment a of state INDICES *)
Definition deval (f : dfactor A) (a : asg) : A := tget d (dvals f) (map a (dvars f)).

(* well formed w.r.t. the global cardinalities: distinct variables, cardinality array and value shape
   list card in the factor's own variable order *)
Definition dwf (f : dfactor A) : Prop :=
  NoDup (dvars f) /\ dcard f = map card (dvars f) /\ tshape (dvals f) = dcard f /\ twf (dvals f).
(* state names: every variable of the factor is a key of its dict with the global state list, of the
   right length and without repetition *)
Definition swf (f : dfactor A) : Prop :=
  forall v, In v (dvars f) -> dlookup v (dstates f) = Some (st v).
Definition st_ok : Prop := forall v, length (st v) = card v /\ NoDup (st v).

(* value at a NAMED assignment nu : variable -> state name *)
Definition nidx (f : dfactor A) (nu : var -> name) : asg := fun v => posz (nu v) (states_of f v).
Definition nvalid (f : dfactor A) (nu : var -> name) : Prop :=
  forall v, In v (dvars f) -> In (nu v) (states_of f v).
Definition neval (f : dfactor A) (nu : var -> name) : A := deval f (nidx f nu).
End Spec.

(* the reference factor carrying the same table *)
Definition to_ref {R : csr} (f : dfactor R) : factor R := {| fvars := dvars f; fvals := tdata (dvals f) |}.
