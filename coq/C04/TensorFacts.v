(* Characterising lemmas of the primitives of Tensor.v *)
From Coq Require Import List Arith Lia PeanoNat Bool.
From PV Require Import Base.Semiring Base.Ravel Base.FinSum Base.RefFactor C04.Tensor.
Import ListNotations.

(* ---------------------------------------------------------------- lists *)
Lemma posn_nth (l : list nat) v : In v l -> nth (posn v l) l 0 = v /\ posn v l < length l.
Proof.
  induction l as [|x l IH]; intros H; [destruct H|]. unfold posn in *. cbn [index_of].
  destruct (Nat.eqb x v) eqn:E.
  - apply Nat.eqb_eq in E. subst. simpl. split; [reflexivity|lia].
  - destruct H as [H|H]; [subst; rewrite Nat.eqb_refl in E; discriminate|].
    destruct (IH H) as [H1 H2]. simpl. split; [exact H1|lia].
Qed.
Lemma posn_of_nth (l : list nat) k : NoDup l -> k < length l -> posn (nth k l 0) l = k.
Proof.
  revert k. induction l as [|x l IH]; intros k Hn Hk; [simpl in Hk; lia|].
  inversion Hn as [|? ? Hx Hn']; subst. unfold posn in *. destruct k as [|k]; cbn [nth index_of].
  - rewrite Nat.eqb_refl. reflexivity.
  - destruct (Nat.eqb x (nth k l 0)) eqn:E.
    + apply Nat.eqb_eq in E. exfalso. apply Hx. rewrite E. apply nth_In. simpl in Hk. lia.
    + f_equal. apply IH; [exact Hn'|simpl in Hk; lia].
Qed.

Lemma map_nth_seq {A B} (f : A -> B) (l : list A) d :
  map (fun k => f (nth k l d)) (seq 0 (length l)) = map f l.
Proof.
  induction l as [|x l IH]; [reflexivity|]. cbn [length seq map nth]. f_equal.
  rewrite <- seq_shift, map_map. exact IH.
Qed.

Lemma in_range_map (c a : nat -> nat) vs : (forall v, In v vs -> a v < c v) -> in_range (map c vs) (map a vs).
Proof.
  induction vs as [|v vs IH]; intros H; simpl; constructor; [apply H; left; reflexivity|].
  apply IH. intros w Hw. apply H. right. exact Hw.
Qed.

Lemma in_range_nth sh : forall idx k, in_range sh idx -> k < length sh -> nth k idx 0 < nth k sh 0.
Proof.
  induction sh as [|c sh IH]; intros idx k H Hk; [simpl in Hk; lia|].
  inversion H; subst. destruct k; simpl; [assumption|]. apply IH; [assumption|simpl in Hk; lia].
Qed.

Lemma in_range_gather sh idx ps : in_range sh idx -> (forall p, In p ps -> p < length sh) ->
  in_range (gather 0 ps sh) (gather 0 ps idx).
Proof.
  intros H Hp. unfold gather. induction ps as [|p ps IH]; simpl; constructor.
  - apply in_range_nth; [exact H|apply Hp; left; reflexivity].
  - apply IH. intros q Hq. apply Hp. right. exact Hq.
Qed.

(* ---------------------------------------------------------------- basic tensor facts *)
Section PolyFacts.
Context {A : Type} (d : A).

Lemma tget_tbuild sh (f : list nat -> A) idx : in_range sh idx -> tget d (tbuild sh f) idx = f idx.
Proof. intros H. unfold tget, tbuild. simpl. apply t_get_build. exact H. Qed.
Lemma twf_tbuild sh (f : list nat -> A) : twf (tbuild sh f).
Proof. unfold twf, tbuild. simpl. apply t_build_length. Qed.

Lemma tensor_ext (t1 t2 : tensor A) : twf t1 -> twf t2 -> tshape t1 = tshape t2 ->
  (forall idx, in_range (tshape t1) idx -> tget d t1 idx = tget d t2 idx) -> t1 = t2.
Proof.
  destruct t1 as [s1 d1], t2 as [s2 d2]. unfold twf, tget. simpl. intros H1 H2 Hs H. subst s2.
  f_equal. apply (t_ext A d s1); assumption.
Qed.

(* a.swapaxes(i,j)[idx] = a[idx with positions i and j exchanged] *)
Lemma tget_swapaxes i j (t : tensor A) idx :
  in_range (swapl 0 i j (tshape t)) idx -> tget d (t_swapaxes d i j t) idx = tget d t (swapl 0 i j idx).
Proof. intros H. unfold t_swapaxes. rewrite tget_tbuild by exact H. reflexivity. Qed.

(* np.transpose(a, axes)[idx] = a[idx'] with idx'[axes[k]] = idx[k] *)
Lemma tget_transpose axes (t : tensor A) idx :
  in_range (gather 0 axes (tshape t)) idx ->
  tget d (t_transpose d axes t) idx = tget d t (map (fun j => nth (posn j axes) idx 0) (seq 0 (trank t))).
Proof. intros H. unfold t_transpose. rewrite tget_tbuild by exact H. reflexivity. Qed.

(* a[sl][idx] = a[fill sl idx] *)
Lemma tget_slice sl (t : tensor A) idx :
  in_range (kept_dims sl (tshape t)) idx -> tget d (t_slice d sl t) idx = tget d t (fill sl idx).
Proof. intros H. unfold t_slice. rewrite tget_tbuild by exact H. reflexivity. Qed.

(* take along one axis *)
Lemma tget_take ax ref (t : tensor A) idx :
  in_range (set_nth ax (length ref) (tshape t)) idx ->
  tget d (t_take d ax ref t) idx = tget d t (set_nth ax (nth (nth ax idx 0) ref 0) idx).
Proof. intros H. unfold t_take. rewrite tget_tbuild by exact H. reflexivity. Qed.

(* a[..., None, ..., None] : same data, k trailing axes of size 1 *)
Lemma prod_repeat1 k : prod (repeat 1 k) = 1.
Proof. induction k as [|k IH]; [reflexivity|]. cbn [repeat]. rewrite prod_cons, IH. reflexivity. Qed.
Lemma ravel_expand sh : forall idx k, length idx = length sh ->
  ravel (sh ++ repeat 1 k) (idx ++ repeat 0 k) = ravel sh idx.
Proof.
  induction sh as [|c sh IH]; intros idx k Hl; destruct idx as [|i idx]; try discriminate.
  - simpl. induction k as [|k IHk]; [reflexivity|]. simpl. exact IHk.
  - cbn [app ravel]. rewrite IH by (simpl in Hl; lia). rewrite prod_app, prod_repeat1. lia.
Qed.
Lemma tget_expand k (t : tensor A) idx : length idx = trank t ->
  tget d (t_expand k t) (idx ++ repeat 0 k) = tget d t idx.
Proof.
  intros Hl. unfold tget, t_expand, t_reshape, t_get. simpl. rewrite ravel_expand by exact Hl. reflexivity.
Qed.
End PolyFacts.

Lemma tget_bop {A B C} (da : A) (db : B) (dc : C) (op : A -> B -> C) t1 t2 idx :
  in_range (map2 bdim (tshape t1) (tshape t2)) idx ->
  tget dc (t_bop da db op t1 t2) idx = op (tget da t1 (clip (tshape t1) idx)) (tget db t2 (clip (tshape t2) idx)).
Proof. intros H. unfold t_bop. rewrite (tget_tbuild dc) by exact H. reflexivity. Qed.

(* ---------------------------------------------------------------- einsum *)
Section EinsumFacts.
Variable R : csr.

Lemma ein_term_depends_only (ops : list (operand R)) : depends_only (ein_term R ops) (all_labels R ops).
Proof.
  unfold ein_term, all_labels. induction ops as [|o ops IH]; intros a b Hab; [reflexivity|].
  cbn [map concat] in *. unfold prod_list in *. cbn [fold_right].
  assert (E : map a (snd o) = map b (snd o)).
  { apply map_ext_in. intros v Hv. apply Hab. apply in_or_app. left. exact Hv. }
  rewrite E. f_equal. apply IH. intros v Hv. apply Hab. apply in_or_app. right. exact Hv.
Qed.

Lemma existsb_eqb_memv x l : existsb (Nat.eqb x) l = memv x l.
Proof. reflexivity. Qed.

(* einsum by its meaning: the output entry at the index given by assignment [a] of the labels is the sum,
   over the labels that are not output labels, of the product of the operand entries *)
Theorem tget_einsum (ops : list (operand R)) out (a : asg) :
  NoDup out -> (forall v, In v out -> a v < ldim R ops v) ->
  tget zero (t_einsum R ops out) (map a out) =
  sum_over (summed_labels R ops out) (map (ldim R ops) (summed_labels R ops out)) (ein_term R ops) a.
Proof.
  intros Hn Hb. unfold t_einsum. rewrite tget_tbuild by (apply in_range_map; exact Hb).
  set (s := summed_labels R ops out).
  assert (Hd : depends_only (sum_over s (map (ldim R ops) s) (ein_term R ops))
                 (filter (fun x => negb (existsb (Nat.eqb x) s)) (all_labels R ops))).
  { apply sum_over_depends_only; [apply ein_term_depends_only|symmetry; apply map_length]. }
  apply Hd. intros v Hv. apply filter_In in Hv. destruct Hv as [Hv1 Hv2].
  apply asg_of_map.
  destruct (memv v out) eqn:E; [apply memv_In; exact E|]. exfalso.
  apply negb_true_iff in Hv2. rewrite existsb_eqb_memv in Hv2. apply memv_false in Hv2. apply Hv2.
  unfold s, summed_labels. apply nodup_In. apply filter_In. split; [exact Hv1|]. rewrite E. reflexivity.
Qed.

Lemma summed_labels_nil (ops : list (operand R)) out :
  (forall x, In x (all_labels R ops) -> In x out) -> summed_labels R ops out = [].
Proof.
  intros H. unfold summed_labels.
  replace (filter (fun x => negb (memv x out)) (all_labels R ops)) with (@nil nat); [reflexivity|].
  symmetry. induction (all_labels R ops) as [|x l IH]; [reflexivity|]. simpl.
  assert (Hx : memv x out = true) by (apply memv_In; apply H; left; reflexivity).
  rewrite Hx. simpl. apply IH. intros y Hy. apply H. right. exact Hy.
Qed.

(* no summed label: einsum is the pointwise product *)
Corollary tget_einsum_nosum (ops : list (operand R)) out (a : asg) :
  NoDup out -> (forall v, In v out -> a v < ldim R ops v) ->
  (forall x, In x (all_labels R ops) -> In x out) ->
  tget zero (t_einsum R ops out) (map a out) = ein_term R ops a.
Proof.
  intros Hn Hb Hall. rewrite tget_einsum by assumption. rewrite summed_labels_nil by exact Hall. reflexivity.
Qed.
End EinsumFacts.
