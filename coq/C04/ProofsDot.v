(* FactorDict.dot: sum over all assignments of f*g per clique; invariant under axis permutation of either operand *)
From Coq Require Import List Arith Lia PeanoNat Bool ZArith Permutation.
From PV Require Import Base.Semiring Base.Ravel Base.FinSum Base.RefFactor C04.Tensor C04.TensorFacts C04.Model C04.Spec
  C04.ProofsProd C04.ProofsMarg C04.ProofsAlg C04.ProofsAlg2 C04.ProofsNorm.
Import ListNotations.

Section Dot.
Variable R : csr.
Variable card : var -> nat.
Hypothesis all_ok : forall x : R, ok x.
Notation fac := (dfactor R).
Notation deval := (@deval R zero).
Notation dwf := (@dwf R card).

(* the per-clique term of dot is the sum over ALL assignments of the clique's variables of f(x) * g(x) *)
Theorem dot1_spec (f g : fac) o x a0 :
  dwf f -> dwf g -> valid card a0 -> dot1 R f g o = Ok x ->
  NoDup o /\ (forall v, In v o <-> In v (dvars f) \/ In v (dvars g)) /\
  x = sum_over o (map card o) (fun b => mul (deval f b) (deval g b)) a0.
Proof.
  intros Hf Hg Ha H. unfold dot1 in H. destruct (product R f g o) as [h|e] eqn:E; [|discriminate]. cbn [bind] in H.
  inversion H; subst x; clear H.
  destruct (product_pointwise R card f g o h Hf Hg E) as ((Hn & Hc & Hs & Hw) & Ho & Hmem & _ & Hev).
  rewrite Ho in Hn, Hc. split; [exact Hn|]. split; [exact Hmem|].
  unfold t_total.
  etransitivity; [exact (total_sum_over R card all_ok o (tdata (dvals h)) a0 Hn
                           (eq_trans Hw (f_equal prod (eq_trans Hs Hc))))|].
  apply (sum_over_ext_valid R card); [exact Ha|]. intros b Hb. rewrite <- (Hev b Hb).
  unfold Spec.deval, tget, t_get. rewrite Hs, Hc, Ho. reflexivity.
Qed.

Lemma mul_deval_ext (f g : fac) : ext (fun b => mul (deval f b) (deval g b)).
Proof. intros a b Hab. rewrite (deval_ext R f a b Hab), (deval_ext R g a b Hab). reflexivity. Qed.

Theorem dot1_axis_order_irrelevant (f g f' g' : fac) o o' x x' a0 :
  dwf f -> dwf g -> dwf f' -> dwf g' -> valid card a0 ->
  same_meaning R card f f' -> same_meaning R card g g' ->
  dot1 R f g o = Ok x -> dot1 R f' g' o' = Ok x' -> x = x'.
Proof.
  intros Hf Hg Hf' Hg' Ha [Hv1 He1] [Hv2 He2] H H'.
  destruct (dot1_spec f g o x a0 Hf Hg Ha H) as (Hn & Hm & ->).
  destruct (dot1_spec f' g' o' x' a0 Hf' Hg' Ha H') as (Hn' & Hm' & ->).
  assert (P : Permutation o o').
  { apply NoDup_Permutation; [exact Hn|exact Hn'|]. intros v. rewrite Hm, Hm', Hv1, Hv2. reflexivity. }
  rewrite (sum_over_perm R card o o' _ P (mul_deval_ext f g) a0).
  apply (sum_over_ext_valid R card); [exact Ha|]. intros b Hb. rewrite (He1 b Hb), (He2 b Hb). reflexivity.
Qed.

(* the whole dictionary inner product *)
Definition clique_rel (p p' : fac * fac * list var) : Prop :=
  let '(f, g, _) := p in let '(f', g', _) := p' in
  dwf f /\ dwf g /\ dwf f' /\ dwf g' /\ same_meaning R card f f' /\ same_meaning R card g g'.

Theorem factordict_dot_axis_order_irrelevant ps ps' a0 : valid card a0 -> Forall2 clique_rel ps ps' ->
  forall acc x x', fd_dot_go R acc ps = Ok x -> fd_dot_go R acc ps' = Ok x' -> x = x'.
Proof.
  intros Ha F. induction F as [|[[f g] o] [[f' g'] o'] ps ps' Hr F IH]; intros acc x x' H H'.
  - cbn in H, H'. congruence.
  - cbn [fd_dot_go] in H, H'.
    destruct (dot1 R f g o) as [y|] eqn:E; [|discriminate]. destruct (dot1 R f' g' o') as [y'|] eqn:E'; [|discriminate].
    cbn [bind] in H, H'. destruct Hr as (Hf & Hg & Hf' & Hg' & S1 & S2).
    rewrite (dot1_axis_order_irrelevant f g f' g' o o' y y' a0 Hf Hg Hf' Hg' Ha S1 S2 E E') in H.
    exact (IH _ _ _ H H').
Qed.
End Dot.
