(* C04 property theorems.  Model: coq/C04/Model.v (pgmpy's DiscreteFactor as it computes), primitives by
   meaning: Tensor.v/TensorFacts.v, notions: Spec.v.  All statements are for every csr R (sum-product and
   max-product), every number of variables, every cardinality function and every Python set order
   parameter.  [deval f a] is the table entry at the state-index assignment a; the result's state-name
   dict is phi.state_names.update(phi1.state_names), so names follow indices (see C04_product_pointwise).

   NOT proved: hash equality for exactly-equal factors listed in DIFFERENT axis orders (only the same-axis-order case,
     C04_hash_respects_eq_partial; for factors equal up to STATE order the statement is false - C04_hash_eq_inconsistent). *)
From Coq Require Import List Arith Lia PeanoNat Bool ZArith QArith Qcanon.
From PV Require Import Base.Semiring Base.Ravel Base.FinSum Base.RefFactor
  C04.Tensor C04.TensorFacts C04.Model C04.Spec C04.ProofsProd C04.ProofsMarg C04.ProofsAlg C04.ProofsStore C04.ProofsNamed
  C04.ProofsReduce C04.ProofsAlign C04.ProofsDivSum C04.ProofsAlg2 C04.ProofsNorm C04.ProofsEq C04.ProofsDot
  C04.MaxCsr C04.ProofsEqAll C04.ProofsEqNamed C04.ProofsMaxAny C04.ProofsHash C04.ProofsPower.
Import ListNotations.
Local Close Scope Qc_scope.
Local Close Scope Q_scope.
Local Open Scope nat_scope.

(* einsum by its documented meaning (the primitive every product/marginalisation goes through) *)
Theorem C04_einsum_meaning (R : csr) (ops : list (operand R)) out (a : asg) :
  NoDup out -> (forall v, In v out -> a v < ldim R ops v) ->
  tget zero (t_einsum R ops out) (map a out) =
  sum_over (summed_labels R ops out) (map (ldim R ops) (summed_labels R ops out)) (ein_term R ops) a.
Proof. exact (tget_einsum R ops out a). Qed.
Print Assumptions C04_einsum_meaning.

(* product: well formed result over the given set order; scope = union; state dict = update; value =
   product of the operand values, at every assignment *)
Theorem C04_product_pointwise (R : csr) (card : var -> nat) (f g : dfactor R) order h :
  dwf card f -> dwf card g -> product R f g order = Ok h ->
  dwf card h /\ dvars h = order /\ (forall v, In v order <-> In v (dvars f) \/ In v (dvars g)) /\
  dstates h = dupdate (dstates f) (dstates g) /\
  forall a, valid card a -> deval zero h a = mul (deval zero f a) (deval zero g a).
Proof. exact (product_pointwise R card f g order h). Qed.
Print Assumptions C04_product_pointwise.

(* the same at NAMED assignments: the result's state lists are the operands' and the value at every named
   assignment is the product of the operands' values at that named assignment *)
Theorem C04_product_named (R : csr) (card : var -> nat) (st : var -> list name) (f g : dfactor R) order h :
  dwf card f -> dwf card g -> sdict_ok R st f -> sdict_ok R st g ->
  (forall v, length (st v) = card v) ->
  product R f g order = Ok h ->
  (forall v, In v (dvars h) -> states_of h v = st v) /\
  forall nu : var -> name, (forall v, In (nu v) (st v)) ->
    neval zero h nu = mul (neval zero f nu) (neval zero g nu).
Proof. exact (product_named R card st f g order h). Qed.
Print Assumptions C04_product_named.

Example C04_product_nonvacuous :
  exists h, product Qc_sum_csr
      {| dvars := [0; 1]; dcard := [2; 3]; dstates := []; dvals := tbuild [2; 3] (fun _ => 1%Qc) |}
      {| dvars := [1; 2]; dcard := [3; 2]; dstates := []; dvals := tbuild [3; 2] (fun _ => 1%Qc) |} [2; 0; 1] = Ok h.
Proof. eexists. vm_compute. reflexivity. Qed.

(* marginalize: scope = remaining variables in order; value = SUM over the removed variables *)
Theorem C04_marginalize (R : csr) (card : var -> nat) (f : dfactor R) X h :
  dwf card f -> marginalize R f X = Ok h ->
  dwf card h /\ dvars h = vminus (dvars f) X /\
  forall a, valid card a ->
    deval zero h a = sum_over (vinter (dvars f) X) (map card (vinter (dvars f) X)) (deval zero f) a.
Proof. exact (marginalize_pointwise R card f X h). Qed.
Print Assumptions C04_marginalize.

(* maximize: the same statement in the max-product semiring (sum_over of Qc_max_csr is the maximum over
   the removed variables; its laws need non-negative tables, which is its [ok] guard) *)
Theorem C04_maximize (R : csr) (card : var -> nat) (f : dfactor R) X h :
  dwf card f -> maximize R f X = Ok h ->
  dwf card h /\ dvars h = vminus (dvars f) X /\
  forall a, valid card a ->
    deval zero h a = sum_over (vinter (dvars f) X) (map card (vinter (dvars f) X)) (deval zero f) a.
Proof. intros Hf H. rewrite (maximize_is_marginalize R card f X Hf) in H. exact (marginalize_pointwise R card f X h Hf H). Qed.
Print Assumptions C04_maximize.

Example C04_marginalize_nonvacuous :
  exists h, marginalize Qc_sum_csr
      {| dvars := [0; 1]; dcard := [2; 3]; dstates := [(0, [0%Z; 1%Z]); (1, [0%Z; 1%Z; 2%Z])];
         dvals := tbuild [2; 3] (fun _ => 1%Qc) |} [0] = Ok h /\ dvars h = [1].
Proof. eexists. vm_compute. split; reflexivity. Qed.

(* the literal operations refine the reference factor algebra of Base/RefFactor.v (on which VE, BP, MAP,
   ... are proved) *)
Theorem C04_refines_reference_product (R : csr) (card : var -> nat) (f g : dfactor R) order h a :
  dwf card f -> dwf card g -> product R f g order = Ok h -> valid card a ->
  feval R card (to_ref h) a = feval R card (fprod R card (to_ref f) (to_ref g)) a.
Proof. exact (product_refines R card f g order h a). Qed.
Print Assumptions C04_refines_reference_product.

Theorem C04_refines_reference_marginalize (R : csr) (card : var -> nat) (f : dfactor R) X h a :
  dwf card f -> marginalize R f X = Ok h -> valid card a ->
  feval R card (to_ref h) a = feval R card (fmarg R card X (to_ref f)) a.
Proof. exact (marginalize_refines R card f X h a). Qed.
Print Assumptions C04_refines_reference_marginalize.

Theorem C04_refines_reference_maximize (R : csr) (card : var -> nat) (f : dfactor R) X h a :
  dwf card f -> maximize R f X = Ok h -> valid card a ->
  feval R card (to_ref h) a = feval R card (fmarg R card X (to_ref f)) a.
Proof. intros Hf H. rewrite (maximize_is_marginalize R card f X Hf) in H. exact (marginalize_refines R card f X h a Hf H). Qed.
Print Assumptions C04_refines_reference_maximize.

(* listing the variables of the operands in other orders (tables transposed accordingly: same meaning),
   or a different Python set order for the result, does not change the meaning of the product *)
Theorem C04_axis_order_irrelevant_product (R : csr) (card : var -> nat) (f g f' g' : dfactor R) o o' h h' :
  dwf card f -> dwf card g -> dwf card f' -> dwf card g' ->
  same_meaning R card f f' -> same_meaning R card g g' ->
  product R f g o = Ok h -> product R f' g' o' = Ok h' -> same_meaning R card h h'.
Proof. exact (product_axis_order_irrelevant R card f g f' g' o o' h h'). Qed.
Print Assumptions C04_axis_order_irrelevant_product.

Theorem C04_product_commutative (R : csr) (card : var -> nat) (f g : dfactor R) o o' h h' a :
  dwf card f -> dwf card g -> product R f g o = Ok h -> product R g f o' = Ok h' -> valid card a ->
  deval zero h a = deval zero h' a.
Proof. exact (product_comm_eval R card f g o o' h h' a). Qed.
Print Assumptions C04_product_commutative.

Theorem C04_product_associative (R : csr) (card : var -> nat) (f g k : dfactor R) o1 o2 o3 o4 fg fg_k gk f_gk a :
  dwf card f -> dwf card g -> dwf card k ->
  product R f g o1 = Ok fg -> product R fg k o2 = Ok fg_k ->
  product R g k o3 = Ok gk -> product R f gk o4 = Ok f_gk -> valid card a ->
  deval zero fg_k a = deval zero f_gk a.
Proof. exact (product_assoc_eval R card f g k o1 o2 o3 o4 fg fg_k gk f_gk a). Qed.
Print Assumptions C04_product_associative.

(* factor_product (factors/base.py) as a fold: value = product of all operand values *)
Theorem C04_factor_product_fold (R : csr) (card : var -> nat) (r : list (dfactor R)) (acc : dfactor R) os h :
  dwf card acc -> Forall (dwf card) r -> fp_go R acc r os = Ok h ->
  dwf card h /\ forall a, valid card a ->
    deval zero h a = mul (deval zero acc a) (prod_list (map (fun g => deval zero g a) r)).
Proof. exact (fp_go_pointwise R card r acc os h). Qed.
Print Assumptions C04_factor_product_fold.

(* out-of-place purity in the store model of copy() (fresh variables / cardinality / values / dict objects and fresh
   inner state lists, as pgmpy does since c8361ae): whatever is done afterwards to the copy through its own objects, the operand's observable content is unchanged *)
Theorem C04_out_of_place_pure (s : store) (lf : nat) s' lf' (ms : list mutation) :
  store_ok s lf -> store_copy s lf = Some (s', lf') ->
  observe (fold_left (fun st m => store_mutate st lf' m) ms s') lf = observe s lf.
Proof. exact (copy_pure s lf s' lf' ms). Qed.
Print Assumptions C04_out_of_place_pure.

(* ---------------------------------------------------------------------------------------------------------
   reduce: by state NAME with the documented all-or-nothing fall back to state numbers (negative numbers wrap).
   [red_idx card f ev v] is the state index selected for v: the LAST pair for v in reduce_numbers f ev (names
   translated to positions when every name is known, the given values otherwise), read as a Python index. *)
Theorem C04_reduce {A} (d : A) (card : var -> nat) (f : dfactor A) ev h :
  dwf card f -> reduce d f ev = Ok h ->
  dwf card h /\ dvars h = vminus (dvars f) (map fst ev) /\
  ddel_list (map fst ev) (dstates f) = Some (dstates h) /\
  (forall v, In v (map fst ev) -> exists i, red_idx card f ev v = Some i /\ i < card v) /\
  forall a, valid card a -> deval d h a = deval d f (red_asg card f ev a).
Proof. exact (reduce_pointwise d card f ev h). Qed.
Print Assumptions C04_reduce.

(* every given state is a known name: the selected index is the position of the (last) given name *)
Theorem C04_reduce_by_name {A} (card : var -> nat) (f : dfactor A) ev v nm :
  dwf card f -> (forall p, In p ev -> name_to_no f (fst p) (snd p) <> None) ->
  ev_last v ev = Some nm -> In v (dvars f) -> length (states_of f v) = card v ->
  red_idx card f ev v = Some (posz nm (states_of f v)) /\ In nm (states_of f v).
Proof. exact (red_idx_by_name card f ev v nm). Qed.
Print Assumptions C04_reduce_by_name.

(* some given state is not a name of its variable: ALL given states are used as state numbers *)
Theorem C04_reduce_numbers_fallback {A} (f : dfactor A) ev :
  (exists p, In p ev /\ name_to_no f (fst p) (snd p) = None) -> reduce_numbers f ev = ev.
Proof. exact (reduce_numbers_fallback f ev). Qed.
Print Assumptions C04_reduce_numbers_fallback.

Theorem C04_refines_reference_reduce (R : csr) (card : var -> nat) (f : dfactor R) ev h a :
  dwf card f -> reduce zero f ev = Ok h -> valid card a ->
  feval R card (to_ref h) a = feval R card (fred R card (red_ev card f ev) (to_ref f)) a.
Proof. exact (reduce_refines R card f ev h a). Qed.
Print Assumptions C04_refines_reference_reduce.

(* the swapaxes alignment loop of sum / divide / ==: afterwards the operand's variable list IS the target's, its
   shape is the target-ordered shape, and the entry at every assignment is unchanged *)
Theorem C04_align_loop {B} (db : B) (c1 : var -> nat) (target vars1 : list var) (vals1 : tensor B) :
  NoDup target -> (forall v, In v vars1 <-> In v target) -> length vars1 = length target ->
  tshape vals1 = map c1 vars1 ->
  let r := align_loop db target (length target) vars1 vals1 in
  fst r = target /\ tshape (snd r) = map c1 target /\
  forall a : asg, (forall v, In v target -> a v < c1 v) ->
    tget db (snd r) (map a target) = tget db vals1 (map a vars1).
Proof. exact (align_loop_spec db c1 target vars1 vals1). Qed.
Print Assumptions C04_align_loop.

(* divide: scope/cardinalities/state names of the dividend; value = IEEE quotient with nan (0/0) replaced by 0 and
   x/0 = +inf / -inf as explicit tags (qdiv) *)
Theorem C04_divide_pointwise (card : var -> nat) (dx : xq) (f g : dfactor Qc) ex h :
  dwf card f -> dwf card g -> divide f g ex = Ok h ->
  dwf card h /\ dvars h = dvars f /\ dstates h = dstates f /\
  (forall v, In v (dvars g) -> In v (dvars f)) /\
  forall a, valid card a -> deval dx h a = qdiv (deval 0%Qc f a) (deval 0%Qc g a).
Proof. exact (divide_pointwise card dx f g ex h). Qed.
Print Assumptions C04_divide_pointwise.

Example C04_divide_conventions :
  qdiv 0%Qc 0%Qc = XFin 0%Qc /\ qdiv 1%Qc 0%Qc = XPInf /\ qdiv (-(1))%Qc 0%Qc = XNInf /\ qdiv 1%Qc (1 + 1)%Qc = XFin (1 / (1 + 1))%Qc.
Proof. repeat split; vm_compute; reflexivity. Qed.

Theorem C04_sum_pointwise (card : var -> nat) (R : csr) (f g : dfactor R) ex1 ex2 h :
  dwf card f -> dwf card g -> sum R f g ex1 ex2 = Ok h ->
  dwf card h /\ dvars h = dvars f ++ ex1 /\
  (forall v, In v (dvars h) <-> In v (dvars f) \/ In v (dvars g)) /\
  dstates h = match ex1 with [] => dstates f | _ => dupdate (dstates f) (dstates g) end /\
  forall a, valid card a -> deval zero h a = add (deval zero f a) (deval zero g a).
Proof. exact (sum_pointwise card R f g ex1 ex2 h). Qed.
Print Assumptions C04_sum_pointwise.

Example C04_sum_divide_nonvacuous :
  (exists h, sum Qc_sum_csr
      {| dvars := [0; 1]; dcard := [2; 3]; dstates := []; dvals := tbuild [2; 3] (fun _ => 1%Qc) |}
      {| dvars := [2; 1]; dcard := [2; 3]; dstates := []; dvals := tbuild [2; 3] (fun _ => 1%Qc) |} [2] [0] = Ok h) /\
  (exists h, divide
      {| dvars := [0; 1; 2]; dcard := [2; 3; 2]; dstates := []; dvals := tbuild [2; 3; 2] (fun _ => 1%Qc) |}
      {| dvars := [2; 1]; dcard := [2; 3]; dstates := []; dvals := tbuild [2; 3] (fun _ => 0%Qc) |} [0] = Ok h).
Proof. split; eexists; vm_compute; reflexivity. Qed.

(* normalize: every entry divided (IEEE) by the sum over ALL assignments of the factor's variables *)
Theorem C04_normalize (card : var -> nat) (dx : xq) (f : dfactor Qc) a0 :
  dwf card f ->
  dwf card (normalize f) /\ dvars (normalize f) = dvars f /\ dstates (normalize f) = dstates f /\
  forall a, valid card a -> deval dx (normalize f) a = qdiv_ieee (deval 0%Qc f a) (total_of card f a0).
Proof. exact (normalize_pointwise card dx f a0). Qed.
Print Assumptions C04_normalize.
Theorem C04_normalize_nonzero (card : var -> nat) (dx : xq) (f : dfactor Qc) a0 a :
  dwf card f -> total_of card f a0 <> 0%Qc -> valid card a ->
  deval dx (normalize f) a = XFin (deval 0%Qc f a / total_of card f a0)%Qc.
Proof. exact (normalize_pointwise_nonzero card dx f a0 a). Qed.
Print Assumptions C04_normalize_nonzero.

(* axis-order irrelevance for the other operations *)
Theorem C04_axis_order_irrelevant_marginalize (R : csr) (card : var -> nat) (f f' : dfactor R) X h h' :
  dwf card f -> dwf card f' -> same_meaning R card f f' ->
  marginalize R f X = Ok h -> marginalize R f' X = Ok h' -> same_meaning R card h h'.
Proof. exact (marginalize_axis_order_irrelevant R card f f' X h h'). Qed.
Print Assumptions C04_axis_order_irrelevant_marginalize.
Theorem C04_axis_order_irrelevant_maximize (R : csr) (card : var -> nat) (f f' : dfactor R) X h h' :
  dwf card f -> dwf card f' -> same_meaning R card f f' ->
  maximize R f X = Ok h -> maximize R f' X = Ok h' -> same_meaning R card h h'.
Proof. exact (maximize_axis_order_irrelevant R card f f' X h h'). Qed.
Print Assumptions C04_axis_order_irrelevant_maximize.
Theorem C04_axis_order_irrelevant_sum (R : csr) (card : var -> nat) (f g f' g' : dfactor R) e1 e2 e1' e2' h h' :
  dwf card f -> dwf card g -> dwf card f' -> dwf card g' ->
  same_meaning R card f f' -> same_meaning R card g g' ->
  sum R f g e1 e2 = Ok h -> sum R f' g' e1' e2' = Ok h' -> same_meaning R card h h'.
Proof. exact (sum_axis_order_irrelevant R card f g f' g' e1 e2 e1' e2' h h'). Qed.
Print Assumptions C04_axis_order_irrelevant_sum.
Theorem C04_axis_order_irrelevant_reduce (R : csr) (card : var -> nat) (f f' : dfactor R) ev h h' :
  dwf card f -> dwf card f' -> same_meaning R card f f' ->
  (forall v nm, name_to_no f v nm = name_to_no f' v nm) ->
  reduce zero f ev = Ok h -> reduce zero f' ev = Ok h' -> same_meaning R card h h'.
Proof. exact (reduce_axis_order_irrelevant R card f f' ev h h'). Qed.
Print Assumptions C04_axis_order_irrelevant_reduce.
Theorem C04_axis_order_irrelevant_divide (card : var -> nat) (dx : xq) (f g f' g' : dfactor Qc) e e' h h' :
  dwf card f -> dwf card g -> dwf card f' -> dwf card g' ->
  same_meaning Qc_sum_csr card f f' -> same_meaning Qc_sum_csr card g g' ->
  divide f g e = Ok h -> divide f' g' e' = Ok h' ->
  (forall v, In v (dvars h) <-> In v (dvars h')) /\ forall a, valid card a -> deval dx h a = deval dx h' a.
Proof. exact (divide_axis_order_irrelevant card dx f g f' g' e e' h h'). Qed.
Print Assumptions C04_axis_order_irrelevant_divide.

(* summing out X then Y = summing out Y then X, on the literal model *)
Theorem C04_sum_out_order_irrelevant (R : csr) (card : var -> nat) (f : dfactor R) X Y h1 h2 k1 k2 :
  dwf card f -> (forall v, In v X -> ~ In v Y) ->
  marginalize R f X = Ok h1 -> marginalize R h1 Y = Ok h2 ->
  marginalize R f Y = Ok k1 -> marginalize R k1 X = Ok k2 -> same_meaning R card h2 k2.
Proof. exact (sum_out_order_irrelevant R card f X Y h1 h2 k1 k2). Qed.
Print Assumptions C04_sum_out_order_irrelevant.

(* scalar operands: phi * c, phi + c *)
Theorem C04_product_scalar (R : csr) (card : var -> nat) (f : dfactor R) c a : dwf card f -> valid card a ->
  deval zero (product_scalar R f c) a = mul (deval zero f a) c.
Proof. exact (product_scalar_pointwise R card f c a). Qed.
Print Assumptions C04_product_scalar.
Theorem C04_sum_scalar (R : csr) (card : var -> nat) (f : dfactor R) c a : dwf card f -> valid card a ->
  deval zero (sum_scalar R f c) a = add (deval zero f a) c.
Proof. exact (sum_scalar_pointwise R card f c a). Qed.
Print Assumptions C04_sum_scalar.

(* == : PARTIAL.  Full statement (not proved): for well formed self, other,
     factor_eqb atol rtol self other = Ok true  <->  same variable set /\ same state SET per variable /\
     for every named assignment nu: |neval other nu - neval self nu| <= atol + rtol * |neval self nu|.
   Proved: the case where no re-alignment is needed (same variable order, same state lists): == is true exactly when
   every entry of other is within atol + rtol*|entry of self| of the entry of self (exact arithmetic, tolerances as
   parameters; closeb is characterised by C04_closeb_spec).  Missing: the alignment loop with cardinality swaps
   (value part: C04_align_loop) and the per-axis state re-ordering by integer-list indexing. *)
Theorem C04_eq_iff_partial (card : var -> nat) (atol rtol : Qc) (self other : dfactor Qc) :
  dwf card self -> dwf card other -> dvars self = dvars other ->
  (forall v, In v (dvars self) -> exists l, dlookup v (dstates self) = Some l /\ dlookup v (dstates other) = Some l) ->
  (factor_eqb atol rtol self other = Ok true <->
   forall idx, in_range (dcard self) idx ->
     closeb atol rtol (tget 0%Qc (dvals other) idx) (tget 0%Qc (dvals self) idx) = true).
Proof. exact (eq_iff_aligned card atol rtol self other). Qed.
Print Assumptions C04_eq_iff_partial.
Theorem C04_closeb_spec (atol rtol a b : Qc) :
  closeb atol rtol a b = true <-> (Qcabs (a - b) <= atol + rtol * Qcabs b)%Qc.
Proof. exact (closeb_spec atol rtol a b). Qed.
Print Assumptions C04_closeb_spec.

(* FactorSet (anchor file pgmpy/factors/FactorSet.py) in the store model: the constructor / copy() / the out-of-place
   product hold fresh copies of every member factor of both operands, so no sequence of mutations of the result's
   member factors (in-place marginalize, values updates, field rebinding) changes the observable content of any
   member factor of an operand.  (The harness checks the same on the real objects with `is` and by mutation.) *)
Theorem C04_factorset_product_pure (s : store) (a b : list nat) s' new (ms : list (nat * mutation)) :
  (forall lf, In lf (a ++ b) -> store_ok s lf) ->
  factorset_product_store s a b = Some (s', new) ->
  (forall p, In p ms -> In (fst p) new) ->
  forall lf, In lf (a ++ b) ->
    observe (fold_left (fun st p => store_mutate st (fst p) (snd p)) ms s') lf = observe s lf.
Proof. exact (factorset_product_pure s a b s' new ms). Qed.
Print Assumptions C04_factorset_product_pure.

Example C04_factorset_product_nonvacuous :
  let s := [OStates [0%Z; 1%Z]; OVars [0]; OCard [2]; OVals (tbuild [2] (fun _ => 1%Qc)); ODict [(0, 0)]; OFactor 1 2 3 4] in
  store_ok s 5 /\ exists s' new, factorset_product_store s [5] [5] = Some (s', new) /\ length new = 2.
Proof.
  split.
  - exists 1, 2, 3, 4, [0], [2], (tbuild [2] (fun _ => 1%Qc)), [(0, 0)]. repeat split. intros p [<-|[]]. cbn. lia.
  - eexists. eexists. split; [vm_compute; reflexivity|reflexivity].
Qed.

(* FactorDict.dot (anchor file pgmpy/factors/FactorDict.py): per clique, (self[c] * other[c]).values.sum() is the sum
   over ALL assignments of the clique's variables of f(x)*g(x) (for semirings whose laws are unguarded, e.g. the
   sum-product semiring over Qc: [forall x, ok x]), hence independent of the order in which either operand lists
   the clique's variables and of the product's set order; the same for the whole dictionary sum. *)
Theorem C04_factordict_dot_pointwise (R : csr) (card : var -> nat) (all_ok : forall x : R, ok x)
  (f g : dfactor R) o x a0 :
  dwf card f -> dwf card g -> valid card a0 -> dot1 R f g o = Ok x ->
  NoDup o /\ (forall v, In v o <-> In v (dvars f) \/ In v (dvars g)) /\
  x = sum_over o (map card o) (fun b => mul (deval zero f b) (deval zero g b)) a0.
Proof. exact (dot1_spec R card all_ok f g o x a0). Qed.
Print Assumptions C04_factordict_dot_pointwise.

Theorem C04_factordict_dot_axis_order_irrelevant (R : csr) (card : var -> nat) (all_ok : forall x : R, ok x)
  ps ps' a0 : valid card a0 -> Forall2 (clique_rel R card) ps ps' ->
  forall acc x x', fd_dot_go R acc ps = Ok x -> fd_dot_go R acc ps' = Ok x' -> x = x'.
Proof. exact (factordict_dot_axis_order_irrelevant R card all_ok ps ps' a0). Qed.
Print Assumptions C04_factordict_dot_axis_order_irrelevant.

Example C04_factordict_dot_nonvacuous :
  exists x, factordict_dot Qc_sum_csr
     [({| dvars := [0; 1]; dcard := [2; 3]; dstates := []; dvals := tbuild [2; 3] (fun _ => 1%Qc) |},
       {| dvars := [1; 0]; dcard := [3; 2]; dstates := []; dvals := tbuild [3; 2] (fun _ => 1%Qc) |}, [0; 1])] = Ok x.
Proof. eexists. vm_compute. reflexivity. Qed.

(* == in full: for well formed operands (same global cardinalities) whose state dictionaries give every variable of
   self a duplicate-free state list of the right length (sts for self, sto for other - in ANY order, the variable lists
   in ANY axis order), the modelled DiscreteFactor.__eq__ (set test on the scopes, swapaxes alignment loop with its
   cardinality swaps, per-variable state-SET test and re-ordering by integer-list indexing, shape test, allclose,
   cardinality test) returns true IF AND ONLY IF the scopes are equal as sets, every variable has the same state-name
   SET in both, and at EVERY named assignment nu the value of other is within the tolerance relation of the value of
   self:  |other(nu) - self(nu)| <= atol + rtol*|self(nu)|  (closeb, exact arithmetic, C04_closeb_spec);
   with atol = rtol = 0 this is pointwise equality of the two functions on named assignments. *)
Theorem C04_eq_iff (card : var -> nat) (self other : dfactor Qc) (sts sto : var -> list name) (atol rtol : Qc) :
  dwf card self -> dwf card other ->
  (forall v, In v (dvars self) -> dlookup v (dstates self) = Some (sts v) /\ NoDup (sts v) /\ length (sts v) = card v) ->
  (forall v, In v (dvars self) -> dlookup v (dstates other) = Some (sto v) /\ NoDup (sto v) /\ length (sto v) = card v) ->
  (factor_eqb atol rtol self other = Ok true <->
   ((forall v, In v (dvars self) <-> In v (dvars other)) /\
    (forall v, In v (dvars self) -> forall nm, In nm (sts v) <-> In nm (sto v)) /\
    forall nu : var -> name, (forall v, In v (dvars self) -> In (nu v) (sts v)) ->
      closeb atol rtol (neval 0%Qc other nu) (neval 0%Qc self nu) = true)).
Proof. intros H1 H2 H3 H4. exact (factor_eqb_iff_named card self other sts sto H1 H2 H3 H4 atol rtol). Qed.
Print Assumptions C04_eq_iff.

(* the same at state indices: other is read at the index carrying the NAME that self gives to its index *)
Theorem C04_eq_iff_indices (card : var -> nat) (self other : dfactor Qc) (sts sto : var -> list name) (atol rtol : Qc) :
  dwf card self -> dwf card other ->
  (forall v, In v (dvars self) -> dlookup v (dstates self) = Some (sts v) /\ NoDup (sts v) /\ length (sts v) = card v) ->
  (forall v, In v (dvars self) -> dlookup v (dstates other) = Some (sto v) /\ NoDup (sto v) /\ length (sto v) = card v) ->
  (factor_eqb atol rtol self other = Ok true <->
   ((forall v, In v (dvars self) <-> In v (dvars other)) /\ (forall v, In v (dvars self) -> seteq sts sto v = true) /\
    forall a, bounded card self a ->
      closeb atol rtol (deval 0%Qc other (mix sts sto (dvars self) a)) (deval 0%Qc self a) = true)).
Proof. intros H1 H2 H3 H4. exact (factor_eqb_iff_idx card self other sts sto H1 H2 H3 H4 atol rtol). Qed.
Print Assumptions C04_eq_iff_indices.

(* maximize for tables with entries of ANY sign, in the max-product semiring with a bottom element (zero = -inf, so the
   finite "sum" is the true maximum; MaxCsr.v): the result entry is attained by, and bounds, the values of f over all
   assignments that agree with a outside the removed variables *)
Theorem C04_maximize_any_sign (card : var -> nat) (f : dfactor Qc) X h :
  dwf card f -> maximize Qcm_csr (lift_factor f) X = Ok h ->
  dwf card h /\ dvars h = vminus (dvars f) X /\
  forall a, valid card a ->
    exists M, deval None h a = Some M /\
      (forall b, valid card b -> agree_outside (vinter (dvars f) X) a b -> (deval 0%Qc f b <= M)%Qc) /\
      exists b, valid card b /\ agree_outside (vinter (dvars f) X) a b /\ deval 0%Qc f b = M.
Proof. exact (maximize_any_sign card f X h). Qed.
Print Assumptions C04_maximize_any_sign.

Example C04_maximize_negative_example :
  exists h, maximize Qcm_csr (lift_factor {| dvars := [0; 1]; dcard := [2; 2]; dstates := [(0, [0%Z; 1%Z]); (1, [0%Z; 1%Z])];
                       dvals := {| tshape := [2; 2]; tdata := [(-(1 + 1 + 1))%Qc; (-(1))%Qc; (-(1 + 1))%Qc; (-(1 + 1 + 1 + 1))%Qc] |} |}) [1] = Ok h
            /\ tdata (dvals h) = [Some (-(1))%Qc; Some (-(1 + 1))%Qc].
Proof. eexists. split; vm_compute; reflexivity. Qed.

(* __hash__ (as far as the model covers it: the tuple the final hash is computed from).  PARTIAL: same variable order.
   Full statement not proved: exactly equal factors in different AXIS orders have equal keys (needs canonicity of the sort
   of the variable hashes and the hash-driven alignment loop). *)
Theorem C04_hash_respects_eq_partial (card : var -> nat) (hv : var -> Z) (f g : dfactor Qc) :
  dwf card f -> dwf card g -> dvars f = dvars g -> dkeys (dstates f) = dkeys (dstates g) ->
  (forall a, (forall v, In v (dvars f) -> a v < card v) -> deval 0%Qc f a = deval 0%Qc g a) ->
  hash_key hv f = hash_key hv g.
Proof. exact (hash_respects_eq_same_axes card hv f g). Qed.
Print Assumptions C04_hash_respects_eq_partial.

(* REFUTED beyond that: == (even with zero tolerance) holds for factors equal up to STATE order, whose hash keys differ;
   pgmpy behaves the same (DiscreteFactor(['A'],[2],[1,2],{'A':['x','y']}) vs DiscreteFactor(['A'],[2],[2,1],{'A':['y','x']})) *)
Theorem C04_hash_eq_inconsistent :
  exists (f g : dfactor Qc) (hv : var -> Z),
    factor_eqb 0%Qc 0%Qc f g = Ok true /\ hash_key hv f <> hash_key hv g.
Proof. exact hash_eq_inconsistent. Qed.
Print Assumptions C04_hash_eq_inconsistent.

(* products count MULTIPLICITY: the factor_product fold (C04_factor_product_fold has no distinctness hypothesis) of a factor
   listed n+1 times is its (n+1)-th pointwise power, and a value-equal member (same meaning, any axis order) counts again;
   likewise einsum's term (C04_einsum_meaning) is the product over the operand LIST *)
Theorem C04_factor_product_power (R : csr) (card : var -> nat) (f : dfactor R) n os h a :
  dwf card f -> fp_go R f (repeat f n) os = Ok h -> valid card a ->
  deval zero h a = prod_list (repeat (deval zero f a) (S n)).
Proof. exact (factor_product_power R card f n os h a). Qed.
Print Assumptions C04_factor_product_power.
Theorem C04_factor_product_counts_equal_members (R : csr) (card : var -> nat) (f f' g : dfactor R) o1 o2 h a :
  dwf card f -> dwf card f' -> dwf card g -> same_meaning R card f f' ->
  fp_go R f [g; f'] [o1; o2] = Ok h -> valid card a ->
  deval zero h a = mul (mul (deval zero f a) (deval zero g a)) (deval zero f a).
Proof. exact (factor_product_counts_equal_members R card f f' g o1 o2 h a). Qed.
Print Assumptions C04_factor_product_counts_equal_members.
