(* C04 property theorems.  Model: coq/C04/Model.v (pgmpy's DiscreteFactor as it computes), primitives by
   meaning: Tensor.v/TensorFacts.v, notions: Spec.v.  All statements are for every csr R (sum-product and
   max-product), every number of variables, every cardinality function and every Python set order
   parameter.  [deval f a] is the table entry at the state-index assignment a; the result's state-name
   dict is phi.state_names.update(phi1.state_names), so names follow indices (see C04_product_pointwise).

   NOT proved in the time available (modelled, extracted and checked against pgmpy on every run, see
   harness/c04.py; statements intended):
     C04_sum_pointwise / C04_divide_pointwise : for wf operands with (divide: scope g <= scope f)
        deval (sum f g) a = deval f a + deval g a ; devalx (divide f g) a = qdiv (deval f a) (deval g a)
        (needs the invariant of the swapaxes alignment loop: pointwise value preserved, prefix aligned);
     C04_reduce : deval (reduce f ev) a = deval f (upds a ev') with ev' the name->number translation (fall back
        to numbers when any name is unknown);
     C04_normalize, C04_eq_iff, C04_hash_respects_eq, marginalize under axis permutation. *)
From Coq Require Import List Arith Lia PeanoNat Bool ZArith QArith Qcanon.
From PV Require Import Base.Semiring Base.Ravel Base.FinSum Base.RefFactor
  C04.Tensor C04.TensorFacts C04.Model C04.Spec C04.ProofsProd C04.ProofsMarg C04.ProofsAlg C04.ProofsStore C04.ProofsNamed.
Import ListNotations.
Local Close Scope Qc_scope.
Local Close Scope Q_scope.
Local Open Scope nat_scope.

(* einsum by its documented meaning (the primitive every product/marginalisation goes through) *)
Theorem C04_einsum_meaning (R : csr) (ops : list (operand R)) out (a : asg) :
  NoDup out -> (forall v, In v out -> a v < ldim R ops v) ->
  tget zero (t_einsum R ops out) (map a out) =
  sum_over (summed_labels R ops out) (map (ldim R ops) (summed_labels R ops out)) (ein_term R ops) a.
Proof. exact (tget_einsum R ops out a). Qed.
Print Assumptions C04_einsum_meaning.

(* product: well formed result over the given set order; scope = union; state dict = update; value =
   product of the operand values, at every assignment *)
Theorem C04_product_pointwise (R : csr) (card : var -> nat) (f g : dfactor R) order h :
  dwf card f -> dwf card g -> product R f g order = Ok h ->
  dwf card h /\ dvars h = order /\ (forall v, In v order <-> In v (dvars f) \/ In v (dvars g)) /\
  dstates h = dupdate (dstates f) (dstates g) /\
  forall a, valid card a -> deval zero h a = mul (deval zero f a) (deval zero g a).
Proof. exact (product_pointwise R card f g order h). Qed.
Print Assumptions C04_product_pointwise.

(* the same at NAMED assignments: the result's state lists are the operands' and the value at every named
   assignment is the product of the operands' values at that named assignment *)
Theorem C04_product_named (R : csr) (card : var -> nat) (st : var -> list name) (f g : dfactor R) order h :
  dwf card f -> dwf card g -> sdict_ok R st f -> sdict_ok R st g ->
  (forall v, length (st v) = card v) ->
  product R f g order = Ok h ->
  (forall v, In v (dvars h) -> states_of h v = st v) /\
  forall nu : var -> name, (forall v, In (nu v) (st v)) ->
    neval zero h nu = mul (neval zero f nu) (neval zero g nu).
Proof. exact (product_named R card st f g order h). Qed.
Print Assumptions C04_product_named.

Example C04_product_nonvacuous :
  exists h, product Qc_sum_csr
      {| dvars := [0; 1]; dcard := [2; 3]; dstates := []; dvals := tbuild [2; 3] (fun _ => 1%Qc) |}
      {| dvars := [1; 2]; dcard := [3; 2]; dstates := []; dvals := tbuild [3; 2] (fun _ => 1%Qc) |} [2; 0; 1] = Ok h.
Proof. eexists. vm_compute. reflexivity. Qed.

(* marginalize: scope = remaining variables in order; value = SUM over the removed variables *)
Theorem C04_marginalize (R : csr) (card : var -> nat) (f : dfactor R) X h :
  dwf card f -> marginalize R f X = Ok h ->
  dwf card h /\ dvars h = vminus (dvars f) X /\
  forall a, valid card a ->
    deval zero h a = sum_over (vinter (dvars f) X) (map card (vinter (dvars f) X)) (deval zero f) a.
Proof. exact (marginalize_pointwise R card f X h). Qed.
Print Assumptions C04_marginalize.

(* maximize: the same statement in the max-product semiring (sum_over of Qc_max_csr is the maximum over
   the removed variables; its laws need non-negative tables, which is its [ok] guard) *)
Theorem C04_maximize (R : csr) (card : var -> nat) (f : dfactor R) X h :
  dwf card f -> maximize R f X = Ok h ->
  dwf card h /\ dvars h = vminus (dvars f) X /\
  forall a, valid card a ->
    deval zero h a = sum_over (vinter (dvars f) X) (map card (vinter (dvars f) X)) (deval zero f) a.
Proof. intros Hf H. rewrite (maximize_is_marginalize R card f X Hf) in H. exact (marginalize_pointwise R card f X h Hf H). Qed.
Print Assumptions C04_maximize.

Example C04_marginalize_nonvacuous :
  exists h, marginalize Qc_sum_csr
      {| dvars := [0; 1]; dcard := [2; 3]; dstates := [(0, [0%Z; 1%Z]); (1, [0%Z; 1%Z; 2%Z])];
         dvals := tbuild [2; 3] (fun _ => 1%Qc) |} [0] = Ok h /\ dvars h = [1].
Proof. eexists. vm_compute. split; reflexivity. Qed.

(* the literal operations refine the reference factor algebra of Base/RefFactor.v (on which VE, BP, MAP,
   ... are proved) *)
Theorem C04_refines_reference_product (R : csr) (card : var -> nat) (f g : dfactor R) order h a :
  dwf card f -> dwf card g -> product R f g order = Ok h -> valid card a ->
  feval R card (to_ref h) a = feval R card (fprod R card (to_ref f) (to_ref g)) a.
Proof. exact (product_refines R card f g order h a). Qed.
Print Assumptions C04_refines_reference_product.

Theorem C04_refines_reference_marginalize (R : csr) (card : var -> nat) (f : dfactor R) X h a :
  dwf card f -> marginalize R f X = Ok h -> valid card a ->
  feval R card (to_ref h) a = feval R card (fmarg R card X (to_ref f)) a.
Proof. exact (marginalize_refines R card f X h a). Qed.
Print Assumptions C04_refines_reference_marginalize.

Theorem C04_refines_reference_maximize (R : csr) (card : var -> nat) (f : dfactor R) X h a :
  dwf card f -> maximize R f X = Ok h -> valid card a ->
  feval R card (to_ref h) a = feval R card (fmarg R card X (to_ref f)) a.
Proof. intros Hf H. rewrite (maximize_is_marginalize R card f X Hf) in H. exact (marginalize_refines R card f X h a Hf H). Qed.
Print Assumptions C04_refines_reference_maximize.

(* listing the variables of the operands in other orders (tables transposed accordingly: same meaning),
   or a different Python set order for the result, does not change the meaning of the product *)
Theorem C04_axis_order_irrelevant_product (R : csr) (card : var -> nat) (f g f' g' : dfactor R) o o' h h' :
  dwf card f -> dwf card g -> dwf card f' -> dwf card g' ->
  same_meaning R card f f' -> same_meaning R card g g' ->
  product R f g o = Ok h -> product R f' g' o' = Ok h' -> same_meaning R card h h'.
Proof. exact (product_axis_order_irrelevant R card f g f' g' o o' h h'). Qed.
Print Assumptions C04_axis_order_irrelevant_product.

Theorem C04_product_commutative (R : csr) (card : var -> nat) (f g : dfactor R) o o' h h' a :
  dwf card f -> dwf card g -> product R f g o = Ok h -> product R g f o' = Ok h' -> valid card a ->
  deval zero h a = deval zero h' a.
Proof. exact (product_comm_eval R card f g o o' h h' a). Qed.
Print Assumptions C04_product_commutative.

Theorem C04_product_associative (R : csr) (card : var -> nat) (f g k : dfactor R) o1 o2 o3 o4 fg fg_k gk f_gk a :
  dwf card f -> dwf card g -> dwf card k ->
  product R f g o1 = Ok fg -> product R fg k o2 = Ok fg_k ->
  product R g k o3 = Ok gk -> product R f gk o4 = Ok f_gk -> valid card a ->
  deval zero fg_k a = deval zero f_gk a.
Proof. exact (product_assoc_eval R card f g k o1 o2 o3 o4 fg fg_k gk f_gk a). Qed.
Print Assumptions C04_product_associative.

(* factor_product (factors/base.py) as a fold: value = product of all operand values *)
Theorem C04_factor_product_fold (R : csr) (card : var -> nat) (r : list (dfactor R)) (acc : dfactor R) os h :
  dwf card acc -> Forall (dwf card) r -> fp_go R acc r os = Ok h ->
  dwf card h /\ forall a, valid card a ->
    deval zero h a = mul (deval zero acc a) (prod_list (map (fun g => deval zero g a) r)).
Proof. exact (fp_go_pointwise R card r acc os h). Qed.
Print Assumptions C04_factor_product_fold.

(* out-of-place purity in the store model of copy(): whatever is done afterwards to the copy through its own
   variables / cardinality / values / dict objects, the operand's observable content is unchanged *)
Theorem C04_out_of_place_pure (s : store) (lf : nat) s' lf' (ms : list mutation) :
  store_ok s lf -> store_copy s lf = Some (s', lf') ->
  observe (fold_left (fun st m => store_mutate st lf' m) ms s') lf = observe s lf.
Proof. exact (copy_pure s lf s' lf' ms). Qed.
Print Assumptions C04_out_of_place_pure.
