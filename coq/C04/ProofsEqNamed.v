(* == : the statement on NAMED assignments *)
From Coq Require Import List Arith Lia PeanoNat Bool ZArith QArith Qcanon.
From PV Require Import Base.Semiring Base.Ravel Base.FinSum Base.RefFactor C04.Tensor C04.TensorFacts C04.Model C04.Spec
  C04.ProofsProd C04.ProofsEq C04.ProofsEqAll.
Import ListNotations.
Local Close Scope Qc_scope.
Local Close Scope Q_scope.
Local Open Scope nat_scope.

Section EqNamed.
Variable card : var -> nat.
Variables self other : dfactor Qc.
Variable sts sto : var -> list name.
Hypothesis Hself : dwf card self.
Hypothesis Hother : dwf card other.
Notation T := (dvars self).
Hypothesis Hsts : forall v, In v T -> dlookup v (dstates self) = Some (sts v) /\ NoDup (sts v) /\ length (sts v) = card v.
Hypothesis Hsto : forall v, In v T -> dlookup v (dstates other) = Some (sto v) /\ NoDup (sto v) /\ length (sto v) = card v.

Lemma deval_agree (f : dfactor Qc) a b : (forall v, In v (dvars f) -> a v = b v) -> deval 0%Qc f a = deval 0%Qc f b.
Proof. intros H. unfold deval. f_equal. apply map_ext_in. exact H. Qed.

Lemma states_self v : In v T -> states_of self v = sts v.
Proof. intros Hv. unfold states_of. destruct (Hsts v Hv) as (E & _). rewrite E. reflexivity. Qed.
Lemma states_other v : In v T -> states_of other v = sto v.
Proof. intros Hv. unfold states_of. destruct (Hsto v Hv) as (E & _). rewrite E. reflexivity. Qed.

Theorem factor_eqb_iff_named (atol rtol : Qc) :
  factor_eqb atol rtol self other = Ok true <->
  ((forall v, In v T <-> In v (dvars other)) /\
   (forall v, In v T -> forall nm, In nm (sts v) <-> In nm (sto v)) /\
   forall nu : var -> name, (forall v, In v T -> In (nu v) (sts v)) ->
     closeb atol rtol (neval 0%Qc other nu) (neval 0%Qc self nu) = true).
Proof.
  rewrite (factor_eqb_iff_idx card self other sts sto Hself Hother Hsts Hsto atol rtol).
  split; intros (Hv & Hs & Hp); (split; [exact Hv|]); split.
  - intros v Hv' nm. specialize (Hs v Hv'). unfold seteq in Hs. apply andb_true_iff in Hs. destruct Hs as [S1 S2].
    split; [apply (proj1 (subsetz_incl _ _) S1)|apply (proj1 (subsetz_incl _ _) S2)].
  - intros nu Hnu. set (a := fun v => posz (nu v) (sts v)).
    assert (Ha : bounded card self a).
    { intros v Hv'. unfold a. destruct (Hsts v Hv') as (_ & _ & L). rewrite <- L. apply posz_lt. apply Hnu. exact Hv'. }
    specialize (Hp a Ha). unfold neval.
    rewrite (deval_agree other (nidx other nu) (mix sts sto T a)), (deval_agree self (nidx self nu) a); [exact Hp| |].
    + intros v Hv'. unfold nidx, a. rewrite states_self by exact Hv'. reflexivity.
    + intros v Hv'. apply Hv in Hv'. unfold nidx, mix, sigma, a. rewrite states_other by exact Hv'.
      assert (E : memv v T = true) by (apply memv_In; exact Hv'). rewrite E.
      rewrite nth_posz by (apply Hnu; exact Hv'). reflexivity.
  - intros v Hv'. unfold seteq. apply andb_true_iff.
    split; apply subsetz_incl; intros x Hx; apply (Hs v Hv' x); exact Hx.
  - intros a Ha. set (nu := fun v => nth (a v) (sts v) 0%Z).
    assert (Hnu : forall v, In v T -> In (nu v) (sts v)).
    { intros v Hv'. unfold nu. apply nth_In. destruct (Hsts v Hv') as (_ & _ & L).
      change (a v < length (sts v)). rewrite L. apply Ha. exact Hv'. }
    specialize (Hp nu Hnu). unfold neval in Hp.
    rewrite (deval_agree other (nidx other nu) (mix sts sto T a)), (deval_agree self (nidx self nu) a) in Hp; [exact Hp| |].
    + intros v Hv'. unfold nidx, nu. rewrite states_self by exact Hv'. destruct (Hsts v Hv') as (_ & N & L).
      apply posz_nth; [exact N|]. change (a v < length (sts v)). rewrite L. apply Ha. exact Hv'.
    + intros v Hv'. apply Hv in Hv'. unfold nidx, mix, sigma, nu. rewrite states_other by exact Hv'.
      assert (E : memv v T = true) by (apply memv_In; exact Hv'). rewrite E. reflexivity.
Qed.
End EqNamed.
