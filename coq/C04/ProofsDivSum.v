(* divide and sum: None-expansion, alignment loop, broadcasting elementwise operation *)
From Coq Require Import List Arith Lia PeanoNat Bool ZArith QArith Qcanon.
From PV Require Import Base.Semiring Base.Ravel Base.FinSum Base.RefFactor C04.Tensor C04.TensorFacts C04.Model C04.Spec
  C04.ProofsProd C04.ProofsMarg C04.ProofsReduce C04.ProofsAlign.
Import ListNotations.
Local Close Scope Qc_scope.
Local Close Scope Q_scope.
Local Open Scope nat_scope.

Lemma map2_map {A B C} (op : B -> B -> C) (f g : A -> B) (l : list A) :
  map2 op (map f l) (map g l) = map (fun v => op (f v) (g v)) l.
Proof. induction l as [|x l IH]; [reflexivity|]. cbn [map map2]. rewrite IH. reflexivity. Qed.

Lemma expand_pair_spec {B} (ex vs : list var) (t : tensor B) :
  let p := match ex with [] => (vs, t) | _ => (vs ++ ex, t_expand (length ex) t) end in
  fst p = vs ++ ex /\ tshape (snd p) = tshape t ++ repeat 1 (length ex) /\ tdata (snd p) = tdata t.
Proof. destruct ex; cbn; rewrite ?app_nil_r; repeat split; reflexivity. Qed.

Lemma expand_eval {B} (db : B) (T t : tensor B) k idx :
  tshape T = tshape t ++ repeat 1 k -> tdata T = tdata t -> length idx = trank t ->
  tget db T (idx ++ repeat 0 k) = tget db t idx.
Proof.
  intros Hs Hd Hl. unfold tget, t_get. rewrite Hs, Hd. rewrite ravel_expand by exact Hl. reflexivity.
Qed.

Lemma NoDup_same_length (l l' : list var) : NoDup l -> NoDup l' -> (forall v, In v l <-> In v l') -> length l = length l'.
Proof.
  intros H1 H2 H. apply Nat.le_antisymm; apply NoDup_incl_length; try assumption; intros v Hv; apply H; exact Hv.
Qed.

Section DivSum.
Variable card : var -> nat.

(* size of variable v's axis in an operand with variables vs after None-expansion *)
Definition cdim (vs : list var) (v : var) : nat := if memv v vs then card v else 1.
(* what broadcasting does to an index: axes of size 1 are read at 0 *)
Definition clipa (c : var -> nat) (a : asg) : asg := fun v => if Nat.eqb (c v) 1 then 0 else a v.

Lemma clip_map c a (vs : list var) : clip (map c vs) (map a vs) = map (clipa c a) vs.
Proof. unfold clip. rewrite map2_map. reflexivity. Qed.

Lemma clipa_card_valid a v : valid card a -> clipa card a v = a v.
Proof. intros H. unfold clipa. destruct (Nat.eqb (card v) 1) eqn:E; [|reflexivity]. apply Nat.eqb_eq in E. specialize (H v). lia. Qed.
Lemma clipa_cdim_in vs a v : valid card a -> In v vs -> clipa (cdim vs) a v = a v.
Proof.
  intros H Hv. unfold clipa, cdim. apply memv_In in Hv. rewrite Hv.
  destruct (Nat.eqb (card v) 1) eqn:E; [|reflexivity]. apply Nat.eqb_eq in E. specialize (H v). lia.
Qed.
Lemma clipa_cdim_out vs a v : ~ In v vs -> clipa (cdim vs) a v = 0.
Proof. intros Hv. unfold clipa, cdim. apply memv_false in Hv. rewrite Hv. reflexivity. Qed.
Lemma clipa_cdim_lt vs a v : valid card a -> clipa (cdim vs) a v < cdim vs v.
Proof.
  intros H. unfold clipa. destruct (Nat.eqb (cdim vs v) 1) eqn:E; [apply Nat.eqb_eq in E; lia|].
  unfold cdim in *. destruct (memv v vs); [apply H|rewrite Nat.eqb_refl in E; discriminate].
Qed.

Lemma map_cdim_expand (vs ex : list var) : (forall v, In v ex -> ~ In v vs) ->
  map card vs ++ repeat 1 (length ex) = map (cdim vs) (vs ++ ex).
Proof.
  intros H. rewrite map_app. f_equal.
  - apply map_ext_in. intros v Hv. unfold cdim. apply memv_In in Hv. rewrite Hv. reflexivity.
  - induction ex as [|x ex IH]; [reflexivity|]. cbn [length repeat map]. f_equal.
    + unfold cdim. assert (E : memv x vs = false) by (apply memv_false; apply H; left; reflexivity). rewrite E. reflexivity.
    + apply IH. intros v Hv. apply H. right. exact Hv.
Qed.
Lemma map_clipa_expand (vs ex : list var) a : (forall v, In v ex -> ~ In v vs) ->
  map (clipa (cdim vs) a) (vs ++ ex) = map (clipa (cdim vs) a) vs ++ repeat 0 (length ex).
Proof.
  intros H. rewrite map_app. f_equal. induction ex as [|x ex IH]; [reflexivity|]. cbn [length repeat map]. f_equal.
  - apply clipa_cdim_out. apply H. left. reflexivity.
  - apply IH. intros v Hv. apply H. right. exact Hv.
Qed.

(* an operand with variables vs (shape = cardinalities), None-expanded by the variables ex *)
Lemma expanded_eval {B} (db : B) (vs ex : list var) (T t : tensor B) a :
  (forall v, In v ex -> ~ In v vs) -> tshape t = map card vs ->
  tshape T = tshape t ++ repeat 1 (length ex) -> tdata T = tdata t -> valid card a ->
  tshape T = map (cdim vs) (vs ++ ex) /\
  tget db T (map (clipa (cdim vs) a) (vs ++ ex)) = tget db t (map a vs).
Proof.
  intros Hd Hs HT Hdata Ha. split; [rewrite HT, Hs; apply map_cdim_expand; exact Hd|].
  rewrite map_clipa_expand by exact Hd. rewrite (expand_eval db T t) by (try assumption; unfold trank; rewrite Hs, !map_length; reflexivity).
  f_equal. apply map_ext_in. intros v Hv. apply clipa_cdim_in; assumption.
Qed.

(* the core: P has the target's axes with sizes cP, G0 has a permutation of them with sizes cG; after the
   alignment loop the broadcasting operation combines the entries of the same variables *)
Lemma bop_aligned {B1 B2 B3} (d1 : B1) (d2 : B2) (d3 : B3) (op : B1 -> B2 -> B3)
  (target gv0 : list var) (cP cG : var -> nat) (P : tensor B1) (G0 : tensor B2) :
  NoDup target -> (forall v, In v gv0 <-> In v target) -> length gv0 = length target ->
  tshape P = map cP target -> tshape G0 = map cG gv0 ->
  (forall v, In v target -> bdim (cP v) (cG v) = card v) ->
  (forall v, In v target -> cG v = card v \/ cG v = 1) ->
  let H := t_bop d1 d2 op P (snd (align_loop d2 target (trank P) gv0 G0)) in
  tshape H = map card target /\ twf H /\
  forall a, valid card a ->
    tget d3 H (map a target) = op (tget d1 P (map (clipa cP a) target)) (tget d2 G0 (map (clipa cG a) gv0)).
Proof.
  intros Hn Hmem Hlen HP HG Hb HcG H.
  assert (Hr : trank P = length target) by (unfold trank; rewrite HP, map_length; reflexivity).
  subst H. rewrite Hr.
  destruct (align_loop_spec d2 cG target gv0 G0 Hn Hmem Hlen HG) as (_ & Hs & Hev).
  set (G' := snd (align_loop d2 target (length target) gv0 G0)) in *.
  assert (Hshape : map2 bdim (tshape P) (tshape G') = map card target).
  { rewrite HP, Hs, map2_map. apply map_ext_in. exact Hb. }
  split; [unfold t_bop; cbn [tshape tbuild]; exact Hshape|]. split; [apply twf_tbuild|].
  intros a Ha. rewrite tget_bop.
  - rewrite HP, Hs, !clip_map. f_equal. apply Hev. intros v Hv. unfold clipa.
    destruct (Nat.eqb (cG v) 1) eqn:E; [apply Nat.eqb_eq in E; lia|].
    destruct (HcG v Hv) as [E1|E1]; [rewrite E1; apply Ha|rewrite E1, Nat.eqb_refl in E; discriminate].
  - rewrite Hshape. apply in_range_map. intros v _. apply Ha.
Qed.

Lemma bdim_card_cdim vs v : bdim (card v) (cdim vs v) = card v.
Proof.
  unfold bdim, cdim. destruct (Nat.eqb (card v) 1) eqn:E; [|reflexivity]. apply Nat.eqb_eq in E.
  destruct (memv v vs); congruence.
Qed.

Lemma set_diff_In a b v : In v (set_diff a b) <-> In v a /\ ~ In v b.
Proof. unfold set_diff. rewrite filter_In, negb_true_iff, memv_false. reflexivity. Qed.

(* ---- divide ------------------------------------------------------------------------------------ *)
Theorem divide_pointwise (dx : xq) (f g : dfactor Qc) ex h :
  dwf card f -> dwf card g -> divide f g ex = Ok h ->
  dwf card h /\ dvars h = dvars f /\ dstates h = dstates f /\
  (forall v, In v (dvars g) -> In v (dvars f)) /\
  forall a, valid card a -> deval dx h a = qdiv (deval 0%Qc f a) (deval 0%Qc g a).
Proof.
  intros Hf Hg H. pose proof Hf as (Hnf & Hcf & Hsf & Hwf). pose proof Hg as (Hng & Hcg & Hsg & Hwg).
  unfold divide in H.
  destruct (subsetv (dvars g) (dvars f)) eqn:Esub; [|discriminate]. cbn [negb] in H.
  destruct (is_order_of ex (set_diff (dvars f) (dvars g))) eqn:Eo; [|discriminate]. cbn [negb] in H.
  pose proof (expand_pair_spec ex (dvars g) (dvals g)) as Sp. cbv zeta in Sp.
  destruct (match ex with [] => (dvars g, dvals g) | _ => (dvars g ++ ex, t_expand (length ex) (dvals g)) end)
    as [gvars gvals] eqn:Ep. cbn [fst snd] in Sp. destruct Sp as (Sv & Ssh & Sd).
  apply is_order_of_spec in Eo. destruct Eo as (Hnex & Hex1 & Hex2).
  assert (Hsub : forall v, In v (dvars g) -> In v (dvars f)) by (apply subsetv_In; exact Esub).
  assert (Hdisj : forall v, In v ex -> ~ In v (dvars g)) by (intros v Hv; apply (set_diff_In (dvars f) (dvars g) v); apply Hex1; exact Hv).
  assert (Hmem : forall v, In v gvars <-> In v (dvars f)).
  { intros v. rewrite Sv, in_app_iff. split.
    - intros [Hv|Hv]; [apply Hsub; exact Hv|apply (set_diff_In (dvars f) (dvars g) v); apply Hex1; exact Hv].
    - intros Hv. destruct (in_dec Nat.eq_dec v (dvars g)) as [i|n]; [left; exact i|right].
      apply Hex2. apply set_diff_In. split; assumption. }
  assert (Hng' : NoDup gvars).
  { rewrite Sv. apply NoDup_app_disj; [exact Hng|exact Hnex|]. intros v Hv Hv2. exact (Hdisj v Hv2 Hv). }
  assert (Hlen : length gvars = length (dvars f)) by (apply NoDup_same_length; assumption).
  assert (HG : tshape gvals = map (cdim (dvars g)) gvars).
  { rewrite Ssh, Sv, Hsg, Hcg. apply map_cdim_expand. exact Hdisj. }
  pose proof (bop_aligned 0%Qc 0%Qc dx qdiv (dvars f) gvars card (cdim (dvars g)) (dvals f) gvals
                Hnf Hmem Hlen (eq_trans Hsf Hcf) HG
                (fun v _ => bdim_card_cdim (dvars g) v)) as Hb.
  assert (HcG : forall v, In v (dvars f) -> cdim (dvars g) v = card v \/ cdim (dvars g) v = 1).
  { intros v _. unfold cdim. destruct (memv v (dvars g)); auto. }
  specialize (Hb HcG). cbv zeta in Hb.
  destruct (align_loop 0%Qc (dvars f) (trank (dvals f)) gvars gvals) as [x G'] eqn:El. cbn [snd] in Hb.
  destruct (shapes_compatb (tshape (dvals f)) (tshape G')); [|discriminate]. cbn [negb] in H.
  inversion H; subst h; clear H. cbn [dvars dcard dstates dvals].
  destruct Hb as (Hb1 & Hb2 & Hb3).
  split.
  { split; [exact Hnf|]. split; [exact Hcf|]. cbn [dvars dcard dvals]. split; [rewrite Hb1; symmetry; exact Hcf|exact Hb2]. }
  split; [reflexivity|]. split; [reflexivity|]. split; [exact Hsub|].
  intros a Ha. unfold deval at 1. cbn [dvars dvals]. rewrite Hb3 by exact Ha. f_equal.
  - unfold deval. f_equal. apply map_ext. intros v. apply clipa_card_valid. exact Ha.
  - rewrite Sv. destruct (expanded_eval 0%Qc (dvars g) ex gvals (dvals g) a Hdisj (eq_trans Hsg Hcg) Ssh Sd Ha) as [_ E]. exact E.
Qed.

(* ---- sum ----------------------------------------------------------------------------------------- *)
Section Sum.
Variable R : csr.

Lemma sum_phi_spec (f g : dfactor R) (ex1 : list var) :
  let '(pv, pc, ps, pvals) :=
      match ex1 with
      | [] => (dvars f, dcard f, dstates f, dvals f)
      | _ => (dvars f ++ ex1, dcard f ++ map (card_of g) ex1, dupdate (dstates f) (dstates g),
              t_expand (length ex1) (dvals f))
      end in
  pv = dvars f ++ ex1 /\ pc = dcard f ++ map (card_of g) ex1 /\
  ps = match ex1 with [] => dstates f | _ => dupdate (dstates f) (dstates g) end /\
  tshape pvals = tshape (dvals f) ++ repeat 1 (length ex1) /\ tdata pvals = tdata (dvals f).
Proof. destruct ex1; cbn; rewrite ?app_nil_r; repeat split; reflexivity. Qed.

Lemma bdim_cdim_cdim fv gv v : In v fv \/ In v gv -> bdim (cdim fv v) (cdim gv v) = card v.
Proof.
  intros H. unfold bdim, cdim. destruct (memv v fv) eqn:E1.
  - destruct (Nat.eqb (card v) 1) eqn:E; [|reflexivity]. apply Nat.eqb_eq in E. destruct (memv v gv); congruence.
  - cbn. apply memv_false in E1. destruct H as [H|H]; [contradiction|]. apply memv_In in H. rewrite H. reflexivity.
Qed.

Theorem sum_pointwise (f g : dfactor R) ex1 ex2 h :
  dwf card f -> dwf card g -> sum R f g ex1 ex2 = Ok h ->
  dwf card h /\ dvars h = dvars f ++ ex1 /\
  (forall v, In v (dvars h) <-> In v (dvars f) \/ In v (dvars g)) /\
  dstates h = match ex1 with [] => dstates f | _ => dupdate (dstates f) (dstates g) end /\
  forall a, valid card a -> deval zero h a = add (deval zero f a) (deval zero g a).
Proof.
  intros Hf Hg H. pose proof Hf as (Hnf & Hcf & Hsf & Hwf). pose proof Hg as (Hng & Hcg & Hsg & Hwg).
  unfold sum in H.
  destruct (is_order_of ex1 (set_diff (dvars g) (dvars f))) eqn:Eo1; [|discriminate]. cbn [negb] in H.
  pose proof (sum_phi_spec f g ex1) as Sp.
  destruct (match ex1 with [] => _ | _ :: _ => _ end) as [[[pv pc] ps] pvals] eqn:Ep.
  destruct Sp as (Spv & Spc & Sps & Spsh & Spd).
  destruct (is_order_of ex2 (set_diff pv (dvars g))) eqn:Eo2; [|discriminate]. cbn [negb] in H.
  pose proof (expand_pair_spec ex2 (dvars g) (dvals g)) as Sg. cbv zeta in Sg.
  destruct (match ex2 with [] => (dvars g, dvals g) | _ => (dvars g ++ ex2, t_expand (length ex2) (dvals g)) end)
    as [gvars gvals] eqn:Eg. cbn [fst snd] in Sg. destruct Sg as (Sv & Ssh & Sd).
  apply is_order_of_spec in Eo1. destruct Eo1 as (Hn1 & H11 & H12).
  apply is_order_of_spec in Eo2. destruct Eo2 as (Hn2 & H21 & H22).
  assert (Hd1 : forall v, In v ex1 -> ~ In v (dvars f)) by (intros v Hv; apply (set_diff_In (dvars g) (dvars f) v); apply H11; exact Hv).
  assert (He1g : forall v, In v ex1 -> In v (dvars g)) by (intros v Hv; apply (set_diff_In (dvars g) (dvars f) v); apply H11; exact Hv).
  assert (Hd2 : forall v, In v ex2 -> ~ In v (dvars g)) by (intros v Hv; apply (set_diff_In pv (dvars g) v); apply H21; exact Hv).
  assert (Hnpv : NoDup pv).
  { rewrite Spv. apply NoDup_app_disj; [exact Hnf|exact Hn1|]. intros v Hv Hv2. exact (Hd1 v Hv2 Hv). }
  assert (Hpv : forall v, In v pv <-> In v (dvars f) \/ In v (dvars g)).
  { intros v. rewrite Spv, in_app_iff. split.
    - intros [Hv|Hv]; [left; exact Hv|right; apply He1g; exact Hv].
    - intros [Hv|Hv]; [left; exact Hv|]. destruct (in_dec Nat.eq_dec v (dvars f)) as [i|n]; [left; exact i|right].
      apply H12. apply set_diff_In. split; assumption. }
  assert (Hmem : forall v, In v gvars <-> In v pv).
  { intros v. rewrite Sv, in_app_iff. split.
    - intros [Hv|Hv]; [apply Hpv; right; exact Hv|apply (set_diff_In pv (dvars g) v); apply H21; exact Hv].
    - intros Hv. destruct (in_dec Nat.eq_dec v (dvars g)) as [i|n]; [left; exact i|right].
      apply H22. apply set_diff_In. split; assumption. }
  assert (Hng' : NoDup gvars).
  { rewrite Sv. apply NoDup_app_disj; [exact Hng|exact Hn2|]. intros v Hv Hv2. exact (Hd2 v Hv2 Hv). }
  assert (Hlen : length gvars = length pv) by (apply NoDup_same_length; assumption).
  assert (HP : tshape pvals = map (cdim (dvars f)) pv).
  { rewrite Spsh, Spv, Hsf, Hcf. apply map_cdim_expand. exact Hd1. }
  assert (HG : tshape gvals = map (cdim (dvars g)) gvars).
  { rewrite Ssh, Sv, Hsg, Hcg. apply map_cdim_expand. exact Hd2. }
  pose proof (bop_aligned zero zero zero add pv gvars (cdim (dvars f)) (cdim (dvars g)) pvals gvals
                Hnpv Hmem Hlen HP HG
                (fun v Hv => bdim_cdim_cdim (dvars f) (dvars g) v (proj1 (Hpv v) Hv))) as Hb.
  assert (HcG : forall v, In v pv -> cdim (dvars g) v = card v \/ cdim (dvars g) v = 1).
  { intros v _. unfold cdim. destruct (memv v (dvars g)); auto. }
  specialize (Hb HcG). cbv zeta in Hb.
  destruct (align_loop zero pv (trank pvals) gvars gvals) as [x G'] eqn:El. cbn [snd] in Hb.
  destruct (shapes_compatb (tshape pvals) (tshape G')); [|discriminate]. cbn [negb] in H.
  inversion H; subst h; clear H. cbn [dvars dcard dstates dvals].
  destruct Hb as (Hb1 & Hb2 & Hb3).
  assert (Hpc : pc = map card pv).
  { rewrite Spc, Spv, map_app, Hcf. f_equal. apply map_ext_in. intros v Hv. apply (card_of_wf R card g v Hg). apply He1g. exact Hv. }
  split.
  { split; [exact Hnpv|]. cbn [dvars dcard dvals]. split; [exact Hpc|]. split; [rewrite Hb1; symmetry; exact Hpc|exact Hb2]. }
  split; [exact Spv|]. split; [exact Hpv|]. split; [exact Sps|].
  intros a Ha. unfold deval at 1. cbn [dvars dvals]. rewrite Hb3 by exact Ha. f_equal.
  - rewrite Spv. destruct (expanded_eval zero (dvars f) ex1 pvals (dvals f) a Hd1 (eq_trans Hsf Hcf) Spsh Spd Ha) as [_ E]. exact E.
  - rewrite Sv. destruct (expanded_eval zero (dvars g) ex2 gvals (dvals g) a Hd2 (eq_trans Hsg Hcg) Ssh Sd Ha) as [_ E]. exact E.
Qed.
End Sum.
End DivSum.
