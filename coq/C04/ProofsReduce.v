(* reduce: by name with the all-or-nothing fall back to numbers; refinement of RefFactor.fred *)
From Coq Require Import List Arith Lia PeanoNat Bool ZArith.
From PV Require Import Base.Semiring Base.Ravel Base.FinSum Base.RefFactor C04.Tensor C04.TensorFacts C04.Model C04.Spec C04.ProofsProd C04.ProofsMarg.
Import ListNotations.

(* the LAST pair for variable v in a list of (variable, value) pairs (later slice_[i] = ... override) *)
Fixpoint ev_last {B} (v : var) (ev : list (var * B)) : option B :=
  match ev with
  | [] => None
  | p :: r => match ev_last v r with Some z => Some z | None => if Nat.eqb (fst p) v then Some (snd p) else None end
  end.

Lemma ev_last_none {B} v (ev : list (var * B)) : ev_last v ev = None <-> ~ In v (map fst ev).
Proof.
  induction ev as [|p r IH]; simpl; [tauto|]. destruct (ev_last v r) eqn:E.
  - split; [discriminate|]. intros H. exfalso. apply H. right. destruct (in_dec Nat.eq_dec v (map fst r)) as [i|n]; [exact i|].
    apply IH in n. discriminate.
  - destruct (Nat.eqb (fst p) v) eqn:E2.
    + apply Nat.eqb_eq in E2. split; [discriminate|]. intros H. exfalso. apply H. left. exact E2.
    + apply Nat.eqb_neq in E2. split; [|reflexivity]. intros _ [H|H]; [contradiction|]. apply IH in H; [exact H|reflexivity].
Qed.

Lemma set_nth_posn_map {B} (vars : list var) (g : var -> B) w x : NoDup vars -> In w vars ->
  set_nth (posn w vars) x (map g vars) = map (fun v => if Nat.eqb w v then x else g v) vars.
Proof.
  induction vars as [|y r IH]; intros Hn Hw; [destruct Hw|]. inversion Hn as [|? ? Hy Hn']; subst.
  unfold posn in *. cbn [index_of map]. destruct (Nat.eqb y w) eqn:E.
  - apply Nat.eqb_eq in E. subst. cbn [set_nth]. rewrite Nat.eqb_refl. f_equal.
    apply map_ext_in. intros v Hv. destruct (Nat.eqb w v) eqn:E2; [|reflexivity].
    apply Nat.eqb_eq in E2. subst. contradiction.
  - cbn [set_nth]. rewrite Nat.eqb_sym, E. f_equal. apply IH; [exact Hn'|].
    destruct Hw as [Hw|Hw]; [subst; rewrite Nat.eqb_refl in E; discriminate|exact Hw].
Qed.

Lemma fold_slice_spec {B} (vars : list var) (evn : list (var * B)) : NoDup vars ->
  (forall p, In p evn -> In (fst p) vars) ->
  forall g : var -> option B,
  fold_left (fun sl p => set_nth (posn (fst p) vars) (Some (snd p)) sl) evn (map g vars) =
  map (fun v => match ev_last v evn with Some z => Some z | None => g v end) vars.
Proof.
  intros Hn. induction evn as [|p r IH]; intros Hin g; [reflexivity|]. cbn [fold_left].
  rewrite set_nth_posn_map by (try exact Hn; apply Hin; left; reflexivity).
  rewrite IH by (intros q Hq; apply Hin; right; exact Hq).
  apply map_ext. intros v. cbn [ev_last]. destruct (ev_last v r); [reflexivity|]. unfold var in *. destruct (Nat.eqb (fst p) v); reflexivity.
Qed.

Lemma py_index_lt z c i : py_index z c = Some i -> i < c.
Proof.
  unfold py_index. destruct ((0 <=? z)%Z && (z <? Z.of_nat c)%Z) eqn:E.
  - intros H. inversion H; subst. apply andb_true_iff in E. destruct E as [E1 E2].
    apply Z.leb_le in E1. apply Z.ltb_lt in E2. lia.
  - destruct ((z <? 0)%Z && (- Z.of_nat c <=? z)%Z) eqn:E2; [|discriminate].
    intros H. inversion H; subst. apply andb_true_iff in E2. destruct E2 as [E1 E3].
    apply Z.ltb_lt in E1. apply Z.leb_le in E3. lia.
Qed.
Lemma py_index_of_nat i c : i < c -> py_index (Z.of_nat i) c = Some i.
Proof.
  intros H. unfold py_index.
  replace ((0 <=? Z.of_nat i)%Z && (Z.of_nat i <? Z.of_nat c)%Z) with true.
  - rewrite Nat2Z.id. reflexivity.
  - symmetry. apply andb_true_iff. split; [apply Z.leb_le; lia|apply Z.ltb_lt; lia].
Qed.

Lemma in_range_eq s s' i : s = s' -> in_range s' i -> in_range s i.
Proof. intros ->. exact (fun H => H). Qed.

Section Reduce.
Context {A : Type} (d : A).
Variable card : var -> nat.
Notation fac := (dfactor A).
Notation deval := (@deval A d).
Notation dwf := (@dwf A card).

(* the state index selected for variable v by reduce(ev), None when v is not reduced *)
Definition red_idx (f : fac) (ev : list (var * name)) (v : var) : option nat :=
  match ev_last v (reduce_numbers f ev) with Some z => py_index z (card v) | None => None end.
Definition red_asg (f : fac) (ev : list (var * name)) (a : asg) : asg :=
  fun v => match red_idx f ev v with Some i => i | None => a v end.
(* the evidence as (variable, state index) pairs, for RefFactor.fred *)
Definition red_ev (f : fac) (ev : list (var * name)) : list (var * nat) :=
  map (fun v => (v, match red_idx f ev v with Some i => i | None => 0 end)) (map fst ev).

Lemma traverse_fst (f : fac) ev l :
  traverse_res (fun p : var * name => match name_to_no f (fst p) (snd p) with
                               | Some i => Ok (fst p, Z.of_nat i) | None => Err ErrKey end) ev = Ok l ->
  map fst l = map fst ev /\
  l = map (fun p => (fst p, match name_to_no f (fst p) (snd p) with Some i => Z.of_nat i | None => 0%Z end)) ev /\
  forall p, In p ev -> name_to_no f (fst p) (snd p) <> None.
Proof.
  revert l. induction ev as [|p r IH]; intros l H; simpl in H.
  - inversion H. repeat split. intros p [].
  - destruct (name_to_no f (fst p) (snd p)) eqn:E; [|discriminate]. cbn [bind] in H.
    destruct (traverse_res _ r) as [l'|] eqn:E2; [|discriminate]. cbn [bind] in H. inversion H; subst.
    destruct (IH l' eq_refl) as (H1 & H2 & H3). cbn [map fst]. rewrite H1, E. split; [reflexivity|]. split.
    + f_equal. exact H2.
    + intros q [Hq|Hq]; [subst; congruence|apply H3; exact Hq].
Qed.
Lemma reduce_numbers_fst (f : fac) ev : map fst (reduce_numbers f ev) = map fst ev.
Proof.
  unfold reduce_numbers. destruct (traverse_res _ ev) as [l|] eqn:E; [|reflexivity]. apply (traverse_fst f ev l E).
Qed.
(* every name known: numbers are the positions of the names; some name unknown: the given values *)
Lemma reduce_numbers_by_name (f : fac) ev :
  (forall p, In p ev -> name_to_no f (fst p) (snd p) <> None) ->
  reduce_numbers f ev =
  map (fun p => (fst p, match name_to_no f (fst p) (snd p) with Some i => Z.of_nat i | None => 0%Z end)) ev.
Proof.
  intros H. unfold reduce_numbers. destruct (traverse_res _ ev) as [l|e] eqn:E; [apply (traverse_fst f ev l E)|].
  exfalso. induction ev as [|p r IH]; simpl in E; [discriminate|].
  destruct (name_to_no f (fst p) (snd p)) eqn:E1; [|apply (H p (or_introl eq_refl)); exact E1]. cbn [bind] in E.
  destruct (traverse_res _ r) eqn:E2; [discriminate|]. cbn [bind] in E. apply IH; [intros q Hq; apply H; right; exact Hq|exact E].
Qed.
Lemma reduce_numbers_fallback (f : fac) ev :
  (exists p, In p ev /\ name_to_no f (fst p) (snd p) = None) -> reduce_numbers f ev = ev.
Proof.
  intros [p [Hp Hn]]. unfold reduce_numbers. destruct (traverse_res _ ev) as [l|e] eqn:E; [|reflexivity].
  exfalso. apply (proj2 (proj2 (traverse_fst f ev l E)) p Hp). exact Hn.
Qed.

Lemma norm_slice_spec (look : var -> option Z) (vars : list var) nsl :
  norm_slice (map look vars) (map card vars) = Ok nsl ->
  nsl = map (fun v => match look v with Some z => py_index z (card v) | None => None end) vars /\
  forall v z, In v vars -> look v = Some z -> py_index z (card v) <> None.
Proof.
  revert nsl. induction vars as [|w r IH]; intros nsl H; cbn [map norm_slice] in H.
  - inversion H. split; [reflexivity|]. intros v z [].
  - destruct (look w) as [z|] eqn:E.
    + destruct (py_index z (card w)) as [i|] eqn:E2; [|discriminate].
      destruct (norm_slice (map look r) (map card r)) as [r'|] eqn:E3; [|discriminate]. cbn [bind] in H. inversion H; subst.
      destruct (IH r' eq_refl) as [H1 H2]. split.
      * cbn [map]. rewrite E, E2, <- H1. reflexivity.
      * intros v z' [Hv|Hv] Hl; [subst; rewrite E in Hl; inversion Hl; subst; congruence|apply (H2 v z' Hv Hl)].
    + destruct (norm_slice (map look r) (map card r)) as [r'|] eqn:E3; [|discriminate]. cbn [bind] in H. inversion H; subst.
      destruct (IH r' eq_refl) as [H1 H2]. split.
      * cbn [map]. rewrite E, <- H1. reflexivity.
      * intros v z' [Hv|Hv] Hl; [subst; congruence|apply (H2 v z' Hv Hl)].
Qed.

Lemma kept_dims_spec (li : var -> option nat) (vars : list var) :
  kept_dims (map li vars) (map card vars) =
  map card (filter (fun v => match li v with Some _ => false | None => true end) vars).
Proof.
  induction vars as [|w r IH]; [reflexivity|]. cbn [map kept_dims filter]. destruct (li w); cbn [map]; rewrite IH; reflexivity.
Qed.
Lemma fill_spec (li : var -> option nat) (a : asg) (vars : list var) :
  fill (map li vars) (map a (filter (fun v => match li v with Some _ => false | None => true end) vars)) =
  map (fun v => match li v with Some i => i | None => a v end) vars.
Proof.
  induction vars as [|w r IH]; [reflexivity|]. cbn [map fill filter]. destruct (li w); cbn [map fill]; rewrite IH; reflexivity.
Qed.

Lemma card_of_wf' (f : fac) v : dwf f -> In v (dvars f) -> card_of f v = card v.
Proof.
  intros (Hn & Hc & _) Hv. unfold card_of. rewrite Hc.
  destruct (posn_nth (dvars f) v Hv) as [H1 H2]. rewrite nth_map0 by exact H2. f_equal. exact H1.
Qed.

Theorem reduce_pointwise (f : fac) ev h :
  dwf f -> reduce d f ev = Ok h ->
  dwf h /\ dvars h = vminus (dvars f) (map fst ev) /\
  ddel_list (map fst ev) (dstates f) = Some (dstates h) /\
  (forall v, In v (map fst ev) -> exists i, red_idx f ev v = Some i /\ i < card v) /\
  forall a, valid card a -> deval h a = deval f (red_asg f ev a).
Proof.
  intros Hf H. pose proof Hf as (Hn & Hc & Hs & Hw). unfold reduce in H.
  match type of H with (if negb ?c then _ else _) = _ => destruct c eqn:EX; [|discriminate] end. cbn [negb] in H.
  rewrite reduce_numbers_fst in H.
  destruct (ddel_list (map fst ev) (dstates f)) as [st'|] eqn:Ed; [|discriminate].
  destruct (norm_slice _ _) as [nsl|] eqn:En; [|discriminate]. cbn [bind] in H. inversion H; subst h; clear H.
  cbn [dvars dcard dvals dstates].
  set (vars := dvars f) in *. set (evn := reduce_numbers f ev) in *.
  assert (Hfst : map fst evn = map fst ev) by apply reduce_numbers_fst.
  assert (HX : forall v, In v (map fst ev) -> In v vars).
  { intros v Hv. apply in_map_iff in Hv. destruct Hv as [p [<- Hp]]. apply memv_In. rewrite forallb_forall in EX. apply (EX p Hp). }
  assert (Hevn : forall p, In p evn -> In (fst p) vars).
  { intros p Hp. apply HX. rewrite <- Hfst. apply in_map. exact Hp. }
  (* the slice list *)
  assert (Hsl : reduce_slice f evn = map (fun v => ev_last v evn) vars).
  { unfold reduce_slice. fold vars.
    replace (repeat (@None Z) (length vars)) with (map (fun _ : var => @None Z) vars).
    - rewrite (fold_slice_spec vars evn Hn Hevn). apply map_ext. intros v. destruct (ev_last v evn); reflexivity.
    - clear. induction vars as [|x l IH]; [reflexivity|]. simpl. f_equal. exact IH. }
  rewrite Hsl, Hs, Hc in En. apply norm_slice_spec in En. destruct En as [Hnsl Hpy].
  set (li := fun v => match ev_last v evn with Some z => py_index z (card v) | None => None end) in *.
  assert (Hli : forall v, red_idx f ev v = li v) by reflexivity.
  assert (Hli_none : forall v, In v vars -> (li v = None <-> ~ In v (map fst ev))).
  { intros v Hv. unfold li. rewrite <- Hfst. destruct (ev_last v evn) as [z|] eqn:E.
    - split; [intros H; exfalso; exact (Hpy v z Hv E H)|]. intros H. apply ev_last_none in H. congruence.
    - split; [intros _; apply ev_last_none; exact E|reflexivity]. }
  (* the kept axes *)
  assert (Hkeep : index_to_keep (@length var vars) (@map (var * Z) nat (fun p => posn (fst p) vars) evn) =
                  filter (fun k => negb (memv (nth k vars 0) (map fst ev))) (seq 0 (length vars))).
  { rewrite <- Hfst. rewrite <- (keep_vars vars (map fst evn) Hn).
    - rewrite map_map. reflexivity.
    - intros v Hv. apply HX. rewrite <- Hfst. exact Hv. }
  unfold var in *. rewrite Hkeep.
  set (keep := filter (fun k => negb (memv (nth k vars 0) (map fst ev))) (seq 0 (length vars))).
  assert (Hkeep_lt : forall k, In k keep -> k < length vars).
  { intros k Hk. apply filter_In in Hk. destruct Hk as [Hk _]. apply in_seq in Hk. lia. }
  assert (Hgv : gather 0 keep vars = vminus vars (map fst ev)).
  { unfold keep. exact (gather_filter_seq 0 (fun v => negb (memv v (map fst ev))) vars). }
  assert (Hfil : filter (fun v => match li v with Some _ => false | None => true end) vars = vminus vars (map fst ev)).
  { unfold vminus. apply filter_ext_in. intros v Hv. destruct (li v) eqn:E.
    - symmetry. apply negb_false_iff. apply memv_In. destruct (in_dec Nat.eq_dec v (map fst ev)) as [i|n0]; [exact i|].
      apply (Hli_none v Hv) in n0. congruence.
    - symmetry. apply negb_true_iff. apply memv_false. apply (Hli_none v Hv). exact E. }
  split.
  { unfold Spec.dwf. cbn [dvars dcard dvals]. split; [rewrite Hgv; apply NoDup_filter; exact Hn|]. split.
    - rewrite Hc. apply (gather_map0 card keep vars). exact Hkeep_lt.
    - split; [|apply twf_tbuild]. unfold t_slice. cbn [tshape tbuild]. rewrite Hs, Hc, Hnsl.
      etransitivity; [apply (kept_dims_spec li vars)|]. etransitivity; [apply (f_equal (map card)); exact Hfil|].
      etransitivity; [|symmetry; exact (gather_map0 card keep vars Hkeep_lt)]. f_equal. symmetry. exact Hgv. }
  split; [exact Hgv|]. split; [reflexivity|]. split.
  { intros v Hv. rewrite Hli. destruct (li v) as [i|] eqn:E.
    - exists i. split; [reflexivity|]. unfold li in E. destruct (ev_last v evn); [|discriminate]. apply (py_index_lt _ _ _ E).
    - exfalso. apply (Hli_none v (HX v Hv)) in E. contradiction. }
  intros a Ha. unfold Spec.deval at 1. cbn [dvars dvals].
  assert (Hidx : map a (gather 0 keep vars) = map a (filter (fun v => match li v with Some _ => false | None => true end) vars)).
  { f_equal. rewrite Hfil. exact Hgv. }
  rewrite Hidx, Hnsl. rewrite tget_slice.
  - unfold Spec.deval. f_equal. etransitivity; [exact (fill_spec li a vars)|]. reflexivity.
  - rewrite Hs, Hc. eapply in_range_eq; [exact (kept_dims_spec li vars)|]. apply in_range_map. intros v _. apply Ha.
Qed.

(* by NAME: when every given state is a known name, the selected index is the position of the last given name *)
Corollary red_idx_by_name (f : fac) ev v nm :
  dwf f -> (forall p, In p ev -> name_to_no f (fst p) (snd p) <> None) ->
  ev_last v ev = Some nm -> In v (dvars f) ->
  length (states_of f v) = card v ->
  red_idx f ev v = Some (posz nm (states_of f v)) /\ In nm (states_of f v).
Proof.
  intros Hf Hall Hl Hv Hlen. unfold red_idx. rewrite (reduce_numbers_by_name f ev Hall).
  assert (E : forall ev0, (forall p, In p ev0 -> name_to_no f (fst p) (snd p) <> None) -> ev_last v ev0 = Some nm ->
     ev_last v (map (fun p : var * name => (fst p, match name_to_no f (fst p) (snd p) with Some i => Z.of_nat i | None => 0%Z end)) ev0)
     = Some (Z.of_nat (posz nm (states_of f v))) /\ In nm (states_of f v)).
  { induction ev0 as [|p r IH]; intros Hk H0; [discriminate|]. cbn [map ev_last fst snd] in *.
    destruct (ev_last v r) as [z|] eqn:E1.
    - inversion H0; subst. destruct (IH (fun q Hq => Hk q (or_intror Hq)) eq_refl) as [I1 I2]. rewrite I1. split; [reflexivity|exact I2].
    - assert (E2 : ev_last v (map (fun p : var * name => (fst p, match name_to_no f (fst p) (snd p) with Some i => Z.of_nat i | None => 0%Z end)) r) = None).
      { apply ev_last_none. rewrite map_map. cbn [fst]. apply ev_last_none. exact E1. }
      rewrite E2. destruct (Nat.eqb (fst p) v) eqn:E3; [|discriminate]. inversion H0; subst.
      apply Nat.eqb_eq in E3. pose proof (Hk p (or_introl eq_refl)) as Hp. rewrite E3 in Hp |- *.
      unfold name_to_no in Hp |- *. unfold states_of. destruct (dlookup v (dstates f)) as [l|]; [|congruence].
      unfold memz in Hp |- *. destruct (mem_of Z.eqb (snd p) l) eqn:E4; [|congruence]. split; [reflexivity|].
      unfold mem_of in E4. apply existsb_exists in E4. destruct E4 as [y [Hy1 Hy2]]. apply Z.eqb_eq in Hy2. subst. exact Hy1. }
  destruct (E ev Hall Hl) as [E1 E2]. rewrite E1. split; [|exact E2].
  apply py_index_of_nat. rewrite <- Hlen. clear - E2. unfold posz.
  induction (states_of f v) as [|x l IH]; [destruct E2|]. simpl. destruct (Z.eqb x nm) eqn:E; [lia|].
  destruct E2 as [H|H]; [subst; rewrite Z.eqb_refl in E; discriminate|]. specialize (IH H). lia.
Qed.
End Reduce.

(* refinement of the reference reduction *)
Section ReduceRef.
Variable R : csr.
Variable card : var -> nat.

Lemma upds_map (g : var -> nat) (vs : list var) a v :
  upds a (map (fun w => (w, g w)) vs) v = if memv v vs then g v else a v.
Proof.
  induction vs as [|w r IH]; [reflexivity|]. cbn [map upds]. unfold upd, memv. cbn [existsb].
  destruct (Nat.eqb v w) eqn:E; [apply Nat.eqb_eq in E; subst; reflexivity|]. exact IH.
Qed.

Theorem reduce_refines (f : dfactor R) ev h a :
  dwf card f -> reduce zero f ev = Ok h -> valid card a ->
  feval R card (to_ref h) a = feval R card (fred R card (red_ev card f ev) (to_ref f)) a.
Proof.
  intros Hf H Ha. destruct (reduce_pointwise zero card f ev h Hf H) as (Hh & _ & _ & Hidx & Hev).
  rewrite (deval_feval R card) by exact Hh. rewrite Hev by exact Ha.
  rewrite feval_fred by (try apply wf_to_ref; assumption).
  rewrite (deval_feval R card) by exact Hf. unfold deval. f_equal. apply map_ext_in. intros v Hv.
  unfold red_ev. rewrite upds_map. unfold red_asg. destruct (memv v (map fst ev)) eqn:E.
  - apply memv_In in E. destruct (Hidx v E) as [i [Hi _]]. rewrite Hi. reflexivity.
  - apply memv_false in E. unfold red_idx. rewrite <- (reduce_numbers_fst f ev) in E. apply ev_last_none in E. rewrite E. reflexivity.
Qed.
End ReduceRef.
