(* C04 entry points for the extracted driver: sx -> sx.
   A factor travels as its constructor arguments [vars card values state_names] and is built by the
   modelled __init__ (mk_factor); a result factor as [vars card states shape data].
   Error codes: 1 ValueError, 2 KeyError, 3 IndexError, 4 TypeError / impossible order parameter. *)
From Coq Require Import List Bool Arith ZArith QArith Qcanon.
From PV Require Import Base.Sx Base.Semiring Base.Ravel Base.FinSum Base.RefFactor C04.Tensor C04.Model C04.MaxCsr.
Import ListNotations.
Local Close Scope Qc_scope.
Local Close Scope Q_scope.
Local Open Scope nat_scope.

Definition err_code (e : err) : Z :=
  match e with ErrValue => 1 | ErrKey => 2 | ErrIndex => 3 | ErrType => 4 end%Z.

Definition sx_sdict : sx -> option sdict := sx_list (sx_pair sx_nat (sx_list sx_Z)).
Definition of_sdict (d : sdict) : sx := of_list (of_pair of_nat (of_list SZ)) d.

Definition dec_factor (s : sx) : option (res (dfactor Qc)) :=
  match s with
  | SL [sv; sc; sx_; sn] =>
      match sx_list sx_nat sv, sx_list sx_nat sc, sx_list sx_Qc sx_, sx_sdict sn with
      | Some v, Some c, Some x, Some n => Some (mk_factor v c x n)
      | _, _, _, _ => None
      end
  | _ => None
  end.

Definition of_xq (x : xq) : sx :=
  match x with XFin q => SL [SZ 0; of_Qc q] | XPInf => SL [SZ 1] | XNInf => SL [SZ 2] | XNaN => SL [SZ 3] end%Z.
Definition of_factor {A} (e : A -> sx) (f : dfactor A) : sx :=
  SL [of_list of_nat (dvars f); of_list of_nat (dcard f); of_sdict (dstates f);
      of_list of_nat (tshape (dvals f)); of_list e (tdata (dvals f))].
Definition reply {A} (e : A -> sx) (r : res A) : sx :=
  match r with Ok x => sx_ok (e x) | Err er => sx_err (err_code er) end.

(* decode one / two factors and run k *)
Definition with1 (s : sx) (k : dfactor Qc -> sx) : sx :=
  match dec_factor s with
  | Some (Ok f) => k f
  | Some (Err e) => sx_err (err_code e)
  | None => bad_request
  end.
Definition with2 (s1 s2 : sx) (k : dfactor Qc -> dfactor Qc -> sx) : sx := with1 s1 (fun f => with1 s2 (k f)).

Definition sx_kw : sx -> option (list (var * name)) := sx_list (sx_pair sx_nat sx_Z).
Definition nonnegb (f : dfactor Qc) : bool := forallb (fun x => Qcleb 0%Qc x) (tdata (dvals f)).

Definition run_c04_mk (s : sx) : sx := with1 s (fun f => sx_ok (of_factor of_Qc f)).

Definition run_c04_product (s : sx) : sx :=
  match s with
  | SL [sf; sg; so] =>
      match sx_list sx_nat so with
      | Some o => with2 sf sg (fun f g => reply (of_factor of_Qc) (product Qc_sum_csr f g o))
      | None => bad_request end
  | _ => bad_request
  end.
Definition run_c04_product_scalar (s : sx) : sx :=
  match s with
  | SL [sf; sc] => match sx_Qc sc with
                   | Some c => with1 sf (fun f => sx_ok (of_factor of_Qc (product_scalar Qc_sum_csr f c)))
                   | None => bad_request end
  | _ => bad_request
  end.
Definition run_c04_sum (s : sx) : sx :=
  match s with
  | SL [sf; sg; s1; s2] =>
      match sx_list sx_nat s1, sx_list sx_nat s2 with
      | Some e1, Some e2 => with2 sf sg (fun f g => reply (of_factor of_Qc) (sum Qc_sum_csr f g e1 e2))
      | _, _ => bad_request end
  | _ => bad_request
  end.
Definition run_c04_sum_scalar (s : sx) : sx :=
  match s with
  | SL [sf; sc] => match sx_Qc sc with
                   | Some c => with1 sf (fun f => sx_ok (of_factor of_Qc (sum_scalar Qc_sum_csr f c)))
                   | None => bad_request end
  | _ => bad_request
  end.
Definition run_c04_divide (s : sx) : sx :=
  match s with
  | SL [sf; sg; se] =>
      match sx_list sx_nat se with
      | Some e => with2 sf sg (fun f g => reply (of_factor of_xq) (divide f g e))
      | None => bad_request end
  | _ => bad_request
  end.
Definition run_c04_marginalize (s : sx) : sx :=
  match s with
  | SL [sf; sX] =>
      match sx_list sx_nat sX with
      | Some X => with1 sf (fun f => reply (of_factor of_Qc) (marginalize Qc_sum_csr f X))
      | None => bad_request end
  | _ => bad_request
  end.
(* max over the removed axes in the max-product semiring with bottom element (C04/MaxCsr.v): entries of any sign *)
Definition of_oQc (o : option Qc) : sx := match o with Some q => of_Qc q | None => SL [] end.
Definition run_c04_maximize (s : sx) : sx :=
  match s with
  | SL [sf; sX] =>
      match sx_list sx_nat sX with
      | Some X => with1 sf (fun f => reply (of_factor of_oQc) (maximize Qcm_csr (lift_factor f) X))
      | None => bad_request end
  | _ => bad_request
  end.
Definition run_c04_reduce (s : sx) : sx :=
  match s with
  | SL [sf; se] =>
      match sx_kw se with
      | Some ev => with1 sf (fun f => reply (of_factor of_Qc) (reduce 0%Qc f ev))
      | None => bad_request end
  | _ => bad_request
  end.
Definition run_c04_normalize (s : sx) : sx := with1 s (fun f => sx_ok (of_factor of_xq (normalize f))).
Definition run_c04_identity (s : sx) : sx := with1 s (fun f => reply (of_factor of_Qc) (identity_factor Qc_sum_csr f)).
Definition run_c04_get_value (s : sx) : sx :=
  match s with
  | SL [sf; sk] => match sx_kw sk with
                   | Some kw => with1 sf (fun f => reply of_Qc (get_value 0%Qc f kw))
                   | None => bad_request end
  | _ => bad_request
  end.
Definition run_c04_set_value (s : sx) : sx :=
  match s with
  | SL [sf; sv; sk] => match sx_Qc sv, sx_kw sk with
                       | Some x, Some kw => with1 sf (fun f => reply (of_factor of_Qc) (set_value f x kw))
                       | _, _ => bad_request end
  | _ => bad_request
  end.
Definition run_c04_assignment (s : sx) : sx :=
  match s with
  | SL [sf; si] => match sx_list sx_nat si with
                   | Some is_ => with1 sf (fun f => reply (of_list (of_list (of_pair of_nat SZ))) (assignment f is_))
                   | None => bad_request end
  | _ => bad_request
  end.
Definition run_c04_get_cardinality (s : sx) : sx :=
  match s with
  | SL [sf; sv] => match sx_list sx_nat sv with
                   | Some vs => with1 sf (fun f => reply (of_list (of_pair of_nat of_nat)) (get_cardinality f vs))
                   | None => bad_request end
  | _ => bad_request
  end.
Definition run_c04_eq (s : sx) : sx :=
  match s with
  | SL [sa; sr; sf; sg] =>
      match sx_Qc sa, sx_Qc sr with
      | Some atol, Some rtol => with2 sf sg (fun f g => reply of_bool (factor_eqb atol rtol f g))
      | _, _ => bad_request end
  | _ => bad_request
  end.
Fixpoint assoc_z (l : list (nat * Z)) (v : nat) : Z :=
  match l with [] => 0%Z | (w, z) :: r => if Nat.eqb w v then z else assoc_z r v end.
Definition run_c04_hash (s : sx) : sx :=
  match s with
  | SL [sh; sf] =>
      match sx_list (sx_pair sx_nat sx_Z) sh with
      | Some h => with1 sf (fun f => let k := hash_key (assoc_z h) f in
                                     sx_ok (SL [of_list SZ (hk_vars k); of_list of_Qc (hk_vals k);
                                                of_list of_nat (hk_card k); of_list of_nat (hk_keys k)]))
      | None => bad_request end
  | _ => bad_request
  end.

Fixpoint collect {A} (l : list (option (res A))) : option (res (list A)) :=
  match l with
  | [] => Some (Ok [])
  | None :: _ => None
  | Some (Err e) :: _ => Some (Err e)
  | Some (Ok x) :: r => match collect r with
                        | Some (Ok xs) => Some (Ok (x :: xs))
                        | o => o end
  end.
Definition run_c04_factor_product (s : sx) : sx :=
  match s with
  | SL [SL sfs; so] =>
      match collect (map dec_factor sfs), sx_list (sx_list sx_nat) so with
      | Some (Ok fs), Some os => reply (of_factor of_Qc) (factor_product Qc_sum_csr fs os)
      | Some (Err e), Some _ => sx_err (err_code e)
      | _, _ => bad_request end
  | _ => bad_request
  end.
Definition run_c04_factor_sum_product (s : sx) : sx :=
  match s with
  | SL [sout; SL sfs] =>
      match collect (map dec_factor sfs), sx_list sx_nat sout with
      | Some (Ok fs), Some out => reply (of_factor of_Qc) (factor_sum_product Qc_sum_csr out fs)
      | Some (Err e), Some _ => sx_err (err_code e)
      | _, _ => bad_request end
  | _ => bad_request
  end.

(* store model of copy(): [nvars] -> [fresh_vars fresh_card fresh_vals fresh_dict inner_lists_shared operand_unchanged] *)
Definition obj_eqb_loc (a b : nat) : bool := Nat.eqb a b.
Definition run_c04_copy_graph (s : sx) : sx :=
  match sx_nat s with
  | Some n =>
      let vars := seq 0 n in
      let s0 : store := map (fun v => OStates [0%Z; 1%Z]) vars in
      let '(s1, lv) := alloc s0 (OVars vars) in
      let '(s2, lc) := alloc s1 (OCard (map (fun _ => 2) vars)) in
      let '(s3, lx) := alloc s2 (OVals {| tshape := map (fun _ => 2) vars; tdata := [] |}) in
      let '(s4, ld) := alloc s3 (ODict (map (fun v => (v, v)) vars)) in
      let '(s5, lf) := alloc s4 (OFactor lv lc lx ld) in
      match store_copy s5 lf with
      | Some (s6, lf') =>
          match sread s6 lf', sread s6 lf with
          | Some (OFactor lv' lc' lx' ld'), Some (OFactor lv0 lc0 lx0 ld0) =>
              let inner_shared :=
                match sread s6 ld', sread s6 ld0 with
                | Some (ODict d1), Some (ODict d0) => list_eqb Nat.eqb (map snd d1) (map snd d0)
                | _, _ => false end in
              sx_ok (SL [of_bool (negb (Nat.eqb lv' lv0)); of_bool (negb (Nat.eqb lc' lc0));
                         of_bool (negb (Nat.eqb lx' lx0)); of_bool (negb (Nat.eqb ld' ld0));
                         of_bool inner_shared])
          | _, _ => bad_request
          end
      | None => bad_request
      end
  | None => bad_request
  end.
