(* maximize for tables with entries of any sign: the result is the true maximum over the removed variables *)
From Coq Require Import List Arith Lia PeanoNat Bool ZArith QArith Qcanon.
From PV Require Import Base.Semiring Base.Ravel Base.FinSum Base.RefFactor C04.Tensor C04.TensorFacts C04.Model C04.Spec
  C04.ProofsProd C04.ProofsMarg C04.ProofsAlg C04.ProofsNorm C04.MaxCsr.
Import ListNotations.
Local Close Scope Qc_scope.
Local Close Scope Q_scope.
Local Open Scope nat_scope.

Lemma Qcmax_ge_l a b : (a <= Qcmax a b)%Qc.
Proof. unfold Qcmax. destruct (Qclt_le_dec a b) as [H|H]; [apply Qclt_le_weak; exact H|apply Qcle_refl]. Qed.
Lemma Qcmax_ge_r a b : (b <= Qcmax a b)%Qc.
Proof. unfold Qcmax. destruct (Qclt_le_dec a b) as [H|H]; [apply Qcle_refl|exact H]. Qed.
Lemma Qcmax_cases a b : Qcmax a b = a \/ Qcmax a b = b.
Proof. unfold Qcmax. destruct (Qclt_le_dec a b); auto. Qed.

(* the csr "sum" of a non-empty list of finite values is their maximum *)
Lemma omax_list {I} (F : I -> option Qc) : forall l : list I, l <> [] ->
  (forall i, In i l -> exists m, F i = Some m) ->
  exists M, sum_list (R := Qcm_csr) (map F l) = Some M /\
            (forall i m, In i l -> F i = Some m -> (m <= M)%Qc) /\ exists j, In j l /\ F j = Some M.
Proof.
  induction l as [|x l IH]; intros Hne Hall; [contradiction|].
  destruct (Hall x (or_introl eq_refl)) as [mx Hx].
  destruct l as [|y r].
  - exists mx. cbn. rewrite Hx. split; [reflexivity|]. split.
    + intros i m Hi Hm. destruct Hi as [Hi|[]]. subst i. rewrite Hx in Hm. inversion Hm. apply Qcle_refl.
    + exists x. split; [left; reflexivity|exact Hx].
  - destruct IH as (M' & HS & Hub & j & Hj & HFj); [discriminate|intros i Hi; apply Hall; right; exact Hi|].
    change (sum_list (R := Qcm_csr) (map F (x :: y :: r))) with (omax (F x) (sum_list (R := Qcm_csr) (map F (y :: r)))).
    rewrite HS, Hx. cbn [omax]. exists (Qcmax mx M'). split; [reflexivity|]. split.
    + intros i m Hi0 Hm. destruct Hi0 as [Hi|Hi]; [subst i|].
      * rewrite Hx in Hm. inversion Hm. apply Qcmax_ge_l.
      * eapply Qcle_trans; [apply (Hub i m Hi Hm)|apply Qcmax_ge_r].
    + destruct (Qcmax_cases mx M') as [E|E]; rewrite E.
      * exists x. split; [left; reflexivity|exact Hx].
      * exists j. split; [right; exact Hj|exact HFj].
Qed.

Section MaxAny.
Variable card : var -> nat.

Definition agree_outside (xs : list var) (a b : asg) : Prop := forall v, ~ In v xs -> b v = a v.

(* sum_over in the max csr = maximum over the assignments of xs *)
Lemma omax_sum_over (g : asg -> Qc) (Hg : forall a b, aeq a b -> g a = g b) : forall xs a, valid card a ->
  exists M, sum_over (R := Qcm_csr) xs (map card xs) (fun b => Some (g b)) a = Some M /\
            (forall b, valid card b -> agree_outside xs a b -> (g b <= M)%Qc) /\
            exists b, valid card b /\ agree_outside xs a b /\ g b = M.
Proof.
  induction xs as [|v r IH]; intros a Ha.
  - exists (g a). cbn. split; [reflexivity|]. split.
    + intros b _ Hb. rewrite (Hg b a); [apply Qcle_refl|]. intros w. apply Hb. intros [].
    + exists a. split; [exact Ha|]. split; [intros w _; reflexivity|reflexivity].
  - cbn [map sum_over].
    set (F := fun i => sum_over (R := Qcm_csr) r (map card r) (fun b => Some (g b)) (upd a v i)).
    assert (Hpos : seq 0 (card v) <> []).
    { specialize (Ha v). destruct (card v); [lia|discriminate]. }
    assert (Hall : forall i, In i (seq 0 (card v)) -> exists m, F i = Some m).
    { intros i Hi. apply in_seq in Hi. destruct (IH (upd a v i)) as (m & Hm & _); [apply valid_upd; [exact Ha|lia]|]. exists m. exact Hm. }
    destruct (omax_list F (seq 0 (card v)) Hpos Hall) as (M & HS & Hub & j & Hj & HFj).
    exists M. split; [exact HS|]. split.
    + intros b Hb Hab. set (i := b v).
      assert (Hi : In i (seq 0 (card v))) by (apply in_seq; unfold i; specialize (Hb v); lia).
      destruct (IH (upd a v i)) as (m & Hm & Hubm & _); [apply valid_upd; [exact Ha|apply Hb]|].
      eapply Qcle_trans; [|apply (Hub i m Hi Hm)]. apply Hubm; [exact Hb|].
      intros w Hw. unfold upd. destruct (Nat.eqb w v) eqn:E; [apply Nat.eqb_eq in E; subst; reflexivity|].
      apply Hab. intros [Hv|Hr]; [subst; rewrite Nat.eqb_refl in E; discriminate|contradiction].
    + apply in_seq in Hj. destruct (IH (upd a v j)) as (m & Hm & _ & b & Hb & Hab & Hgb); [apply valid_upd; [exact Ha|lia]|].
      unfold F in HFj. rewrite Hm in HFj. assert (EmM : m = M) by congruence. exists b. split; [exact Hb|]. split; [|rewrite <- EmM; exact Hgb].
      intros w Hw. rewrite Hab by (intros Hr; apply Hw; right; exact Hr).
      apply upd_other. intros E. apply Hw. left. symmetry. exact E.
Qed.

Lemma dwf_lift f : dwf card f -> dwf card (lift_factor f).
Proof. intros (H1 & H2 & H3 & H4). repeat split; try assumption. unfold twf, lift_factor. cbn. rewrite map_length. exact H4. Qed.
Lemma deval_lift f a : dwf card f -> valid card a -> deval None (lift_factor f) a = Some (deval 0%Qc f a).
Proof.
  intros (H1 & H2 & H3 & H4) Ha. unfold deval, lift_factor. cbn [dvars dvals].
  apply (tget_map_poly 0%Qc None Some); [exact H4|]. rewrite H3, H2. apply in_range_map. intros v _. apply Ha.
Qed.

Theorem maximize_any_sign (f : dfactor Qc) X h :
  dwf card f -> maximize Qcm_csr (lift_factor f) X = Ok h ->
  dwf card h /\ dvars h = vminus (dvars f) X /\
  forall a, valid card a ->
    exists M, deval None h a = Some M /\
      (forall b, valid card b -> agree_outside (vinter (dvars f) X) a b -> (deval 0%Qc f b <= M)%Qc) /\
      exists b, valid card b /\ agree_outside (vinter (dvars f) X) a b /\ deval 0%Qc f b = M.
Proof.
  intros Hf H. pose proof (dwf_lift f Hf) as Hl.
  rewrite (maximize_is_marginalize Qcm_csr card (lift_factor f) X Hl) in H.
  destruct (marginalize_pointwise Qcm_csr card (lift_factor f) X h Hl H) as (Hh & Hv & Hev).
  split; [exact Hh|]. split; [exact Hv|]. intros a Ha.
  destruct (omax_sum_over (deval 0%Qc f)) with (xs := vinter (dvars f) X) (a := a) as (M & HS & Hub & Hatt); [|exact Ha|].
  { intros x y Hxy. unfold deval. f_equal. apply map_ext. intros v. apply Hxy. }
  exists M. split; [|split; [exact Hub|exact Hatt]].
  change (deval zero h a = Some M). rewrite (Hev a Ha). cbn [dvars lift_factor] in *. rewrite <- HS.
  apply (sum_over_ext_valid Qcm_csr card); [exact Ha|]. intros b Hb. apply deval_lift; assumption.
Qed.
End MaxAny.
