(* normalize: the flat total of the table is the sum over all assignments *)
From Coq Require Import List Arith Lia PeanoNat Bool ZArith QArith Qcanon.
From PV Require Import Base.Semiring Base.Ravel Base.FinSum Base.RefFactor C04.Tensor C04.TensorFacts C04.Model C04.Spec
  C04.ProofsProd C04.ProofsMarg.
Import ListNotations.
Local Close Scope Qc_scope.
Local Close Scope Q_scope.
Local Open Scope nat_scope.

Lemma nth_firstn_lt {A} (d : A) P : forall (l : list A) m, m < P -> nth m (firstn P l) d = nth m l d.
Proof.
  induction P as [|P IH]; intros l m H; [lia|]. destruct l as [|x l]; [destruct m; reflexivity|].
  destruct m as [|m]; [reflexivity|]. cbn [firstn nth]. apply IH. lia.
Qed.
Lemma nth_skipn_add {A} (d : A) k : forall (l : list A) m, nth m (skipn k l) d = nth (k + m) l d.
Proof.
  induction k as [|k IH]; intros l m; [reflexivity|]. destruct l as [|x l]; [destruct m; reflexivity|].
  cbn [skipn plus nth]. apply IH.
Qed.

Lemma skipn_skipn' {A} x : forall y (l : list A), skipn x (skipn y l) = skipn (y + x) l.
Proof.
  intros y. induction y as [|y IH]; intros l; [reflexivity|]. destruct l as [|a l]; [destruct x; reflexivity|].
  cbn [skipn plus]. apply IH.
Qed.

Section Total.
Variable R : csr.
Variable card : var -> nat.
Hypothesis all_ok : forall x : R, ok x.

Lemma sum_list_app' (l1 l2 : list R) : sum_list (l1 ++ l2) = add (sum_list l1) (sum_list l2).
Proof. apply sum_list_app. apply Forall_forall. intros x _. apply all_ok. Qed.

Lemma sum_list_chunks P : forall c (data : list R), length data = c * P ->
  sum_list data = sum_list (map (fun i => sum_list (firstn P (skipn (i * P) data))) (seq 0 c)).
Proof.
  induction c as [|c IH]; intros data Hl.
  - destruct data; [reflexivity|discriminate].
  - rewrite <- (firstn_skipn P data) at 1. rewrite sum_list_app'.
    rewrite (IH (skipn P data)) by (rewrite skipn_length; lia).
    cbn [seq map]. rewrite <- seq_shift, map_map. cbn [Nat.mul skipn].
    match goal with |- _ = sum_list (?x :: ?l) => change (sum_list (x :: l)) with (add x (sum_list l)) end.
    f_equal. apply sum_list_ext. intros i _. f_equal. f_equal. rewrite skipn_skipn'. reflexivity.
Qed.

Lemma sum_over_ext_reach vs : forall (g h : asg -> R) a,
  (forall b, (forall w, In w vs -> b w < card w) -> (forall w, ~ In w vs -> b w = a w) -> g b = h b) ->
  sum_over vs (map card vs) g a = sum_over vs (map card vs) h a.
Proof.
  induction vs as [|v r IH]; intros g h a H.
  - apply H; [intros w []|reflexivity].
  - cbn [map sum_over]. apply sum_list_ext. intros i Hi. apply in_seq in Hi. apply IH.
    intros b Hb1 Hb2. apply H.
    + intros w [Hw|Hw]; [subst w|apply Hb1; exact Hw].
      destruct (in_dec Nat.eq_dec v r) as [Hin|Hn]; [apply Hb1; exact Hin|].
      rewrite (Hb2 v Hn). rewrite upd_same. lia.
    + intros w Hw. rewrite Hb2 by (intros Hin; apply Hw; right; exact Hin).
      apply upd_other. intros E. apply Hw. left. symmetry. exact E.
Qed.

Theorem total_sum_over vs : forall (data : list R) a, NoDup vs -> length data = prod (map card vs) ->
  sum_list data = sum_over vs (map card vs) (fun b => nth (ravel (map card vs) (map b vs)) data zero) a.
Proof.
  induction vs as [|v r IH]; intros data a Hn Hl.
  - cbn in *. destruct data as [|x [|y l]]; try discriminate. cbn. apply add_0_r. apply all_ok.
  - inversion Hn as [|? ? Hv Hn']; subst. cbn [map sum_over]. set (P := prod (map card r)).
    cbn [map] in Hl. rewrite prod_cons in Hl. fold P in Hl.
    rewrite (sum_list_chunks P (card v) data Hl). apply sum_list_ext. intros i Hi. apply in_seq in Hi.
    set (chunk := firstn P (skipn (i * P) data)).
    assert (Hlc : length chunk = P).
    { unfold chunk. rewrite firstn_length, skipn_length, Hl.
      assert (i * P + P <= card v * P) by (replace (i * P + P) with ((i + 1) * P) by lia; apply Nat.mul_le_mono_r; lia). lia. }
    rewrite (IH chunk (upd a v i) Hn' Hlc). apply sum_over_ext_reach. intros b Hb1 Hb2.
    cbn [map ravel]. fold P. rewrite (Hb2 v Hv), upd_same.
    assert (Hlt : ravel (map card r) (map b r) < P) by (apply ravel_lt; apply in_range_map; exact Hb1).
    unfold chunk. rewrite nth_firstn_lt by exact Hlt. rewrite nth_skipn_add. reflexivity.
Qed.
End Total.

(* ---- normalize over Qc -------------------------------------------------------------------------- *)
Lemma tget_map_poly {A B} (dA : A) (dB : B) (F : A -> B) (t : tensor A) idx : twf t -> in_range (tshape t) idx ->
  tget dB {| tshape := tshape t; tdata := map F (tdata t) |} idx = F (tget dA t idx).
Proof.
  intros Hw Hr. unfold tget, t_get. cbn [tshape tdata]. pose proof (ravel_lt _ _ Hr) as Hlt.
  rewrite (nth_indep _ dB (F dA)) by (rewrite map_length, Hw; exact Hlt). apply map_nth.
Qed.

Section Normalize.
Variable card : var -> nat.

(* the textbook normalising constant: the sum over every assignment of the factor's variables *)
Definition total_of (f : dfactor Qc) (a0 : asg) : Qc :=
  sum_over (R := Qc_sum_csr) (dvars f) (map card (dvars f)) (deval 0%Qc f) a0.

Theorem normalize_pointwise (dx : xq) (f : dfactor Qc) a0 :
  dwf card f ->
  dwf card (normalize f) /\ dvars (normalize f) = dvars f /\ dstates (normalize f) = dstates f /\
  forall a, valid card a -> deval dx (normalize f) a = qdiv_ieee (deval 0%Qc f a) (total_of f a0).
Proof.
  intros (Hn & Hc & Hs & Hw). split.
  { split; [exact Hn|]. split; [exact Hc|]. split; [exact Hs|]. unfold twf, normalize. cbn. rewrite map_length. exact Hw. }
  split; [reflexivity|]. split; [reflexivity|].
  assert (Ht : t_total Qc_sum_csr (dvals f) = total_of f a0).
  { unfold t_total, total_of.
    etransitivity; [exact (total_sum_over Qc_sum_csr card (fun _ => I) (dvars f) (tdata (dvals f)) a0 Hn
                             (eq_trans Hw (f_equal prod (eq_trans Hs Hc))))|].
    apply sum_over_ext_fun. intros b. unfold Spec.deval, tget, t_get. rewrite Hs, Hc. reflexivity. }
  intros a Ha. unfold deval at 1, normalize. cbn [dvars dvals].
  rewrite (tget_map_poly 0%Qc dx) by (try exact Hw; rewrite Hs, Hc; apply in_range_map; intros v _; apply Ha).
  rewrite Ht. reflexivity.
Qed.

Corollary normalize_pointwise_nonzero (dx : xq) (f : dfactor Qc) a0 a :
  dwf card f -> total_of f a0 <> 0%Qc -> valid card a ->
  deval dx (normalize f) a = XFin (deval 0%Qc f a / total_of f a0)%Qc.
Proof.
  intros Hf Hnz Ha. destruct (normalize_pointwise dx f a0 Hf) as (_ & _ & _ & H). rewrite H by exact Ha.
  unfold qdiv_ieee. destruct (Qc_eq_dec (total_of f a0) 0%Qc); [contradiction|reflexivity].
Qed.
End Normalize.
