(* the swapaxes alignment loop of sum / divide / == : afterwards the operand's axes are the target's, and the
   value at every (named) index is unchanged *)
From Coq Require Import List Arith Lia PeanoNat Bool ZArith.
From PV Require Import Base.Semiring Base.Ravel Base.FinSum Base.RefFactor C04.Tensor C04.TensorFacts C04.Model C04.Spec C04.ProofsProd C04.ProofsMarg C04.ProofsReduce.
Import ListNotations.

Lemma swapf_lt n i j k : i < n -> j < n -> k < n -> swapf i j k < n.
Proof. intros. unfold swapf. destruct (Nat.eqb k i); [assumption|]. destruct (Nat.eqb k j); assumption. Qed.
Lemma swapf_invol i j k : swapf i j (swapf i j k) = k.
Proof.
  unfold swapf. destruct (Nat.eqb k i) eqn:E1.
  - apply Nat.eqb_eq in E1. subst. destruct (Nat.eqb j i) eqn:E2; [apply Nat.eqb_eq in E2; auto|]. rewrite Nat.eqb_refl. reflexivity.
  - destruct (Nat.eqb k j) eqn:E2.
    + apply Nat.eqb_eq in E2. subst. rewrite Nat.eqb_refl. reflexivity.
    + rewrite E1, E2. reflexivity.
Qed.

Section Swapl.
Context {A : Type} (d : A).
Lemma swapl_length i j (l : list A) : length (swapl d i j l) = length l.
Proof. unfold swapl. rewrite map_length, seq_length. reflexivity. Qed.
Lemma nth_swapl i j (l : list A) k : k < length l -> nth k (swapl d i j l) d = nth (swapf i j k) l d.
Proof.
  intros H. unfold swapl.
  rewrite (nth_indep _ d (nth (swapf i j 0) l d)) by (rewrite map_length, seq_length; exact H).
  rewrite (map_nth (fun k0 => nth (swapf i j k0) l d)). rewrite seq_nth by exact H. reflexivity.
Qed.
Lemma swapl_invol i j (l : list A) : i < length l -> j < length l -> swapl d i j (swapl d i j l) = l.
Proof.
  intros Hi Hj. apply nth_ext with (d := d) (d' := d); [rewrite !swapl_length; reflexivity|].
  intros k Hk. rewrite !swapl_length in Hk. rewrite nth_swapl by (rewrite swapl_length; exact Hk).
  rewrite nth_swapl by (apply swapf_lt; assumption). rewrite swapf_invol. reflexivity.
Qed.
Lemma In_swapl i j (l : list A) x : i < length l -> j < length l -> (In x (swapl d i j l) <-> In x l).
Proof.
  intros Hi Hj. split; intros H.
  - unfold swapl in H. apply in_map_iff in H. destruct H as [k [<- Hk]]. apply in_seq in Hk.
    apply nth_In. apply swapf_lt; lia.
  - destruct (In_nth l x d H) as [k [Hk <-]].
    rewrite <- (swapf_invol i j k). rewrite <- nth_swapl by (apply swapf_lt; assumption).
    apply nth_In. rewrite swapl_length. apply swapf_lt; assumption.
Qed.
End Swapl.

Lemma swapl_map {A B} (dA : A) (dB : B) (f : A -> B) i j (l : list A) : i < length l -> j < length l ->
  swapl dB i j (map f l) = map f (swapl dA i j l).
Proof.
  intros Hi Hj. unfold swapl. rewrite map_length, map_map. apply map_ext_in. intros k Hk. apply in_seq in Hk.
  assert (Hs : swapf i j k < length l) by (apply swapf_lt; lia).
  rewrite (nth_indep _ dB (f dA)) by (rewrite map_length; exact Hs). apply map_nth.
Qed.

Lemma in_range_swapl sh idx i j : in_range sh idx -> i < length sh -> j < length sh ->
  in_range (swapl 0 i j sh) (swapl 0 i j idx).
Proof.
  intros H Hi Hj. pose proof (in_range_length _ _ H) as Hl. unfold swapl. rewrite Hl.
  assert (E : forall l : list nat, map (fun k => nth (swapf i j k) l 0) (seq 0 (length sh)) =
              gather 0 (map (swapf i j) (seq 0 (length sh))) l) by (intros l; unfold gather; rewrite map_map; reflexivity).
  rewrite !E. apply in_range_gather; [exact H|]. intros p Hp. apply in_map_iff in Hp. destruct Hp as [k [<- Hk]].
  apply in_seq in Hk. apply swapf_lt; lia.
Qed.

Section Align.
Context {B : Type} (db : B).
Variable c1 : var -> nat.

(* loop invariant after the first k axes *)
Definition ainv (target vars1 : list var) (vals1 : tensor B) (k : nat) (st : list var * tensor B) : Prop :=
  (forall v, In v (fst st) <-> In v target) /\ length (fst st) = length target /\
  tshape (snd st) = map c1 (fst st) /\
  (forall j, j < k -> nth j (fst st) 0 = nth j target 0) /\
  forall a : asg, (forall v, In v target -> a v < c1 v) ->
    tget db (snd st) (map a (fst st)) = tget db vals1 (map a vars1).

Lemma align_step_inv (target vars1 : list var) vals1 k st : NoDup target -> k < length target ->
  ainv target vars1 vals1 k st -> ainv target vars1 vals1 (S k) (align_step db target st k).
Proof.
  intros Hn Hk (Hmem & Hlen & Hsh & Hpre & Hev). destruct st as [vs t]. cbn [fst snd] in *.
  unfold ainv, align_step. cbn [fst snd]. unfold var in *.
  set (tk := nth k target 0). set (e := posn tk vs).
  assert (Htk : In tk vs) by (apply Hmem; apply nth_In; exact Hk).
  destruct (posn_nth vs tk Htk) as [He1 He2]. fold e in He1, He2.
  assert (Hk' : k < length vs) by lia.
  assert (Hmem' : forall v, In v (swapl 0 k e vs) <-> In v target).
  { intros v. rewrite (In_swapl 0 k e vs v Hk' He2). apply Hmem. }
  split; [exact Hmem'|]. split; [etransitivity; [apply swapl_length|exact Hlen]|]. split.
  { unfold t_swapaxes. cbn [tshape tbuild]. rewrite Hsh. apply (swapl_map 0 0 c1 k e vs Hk' He2). }
  split.
  { intros j Hj. rewrite nth_swapl by lia. unfold swapf. destruct (Nat.eqb j k) eqn:E1.
    - apply Nat.eqb_eq in E1. subst j. exact He1.
    - destruct (Nat.eqb j e) eqn:E2.
      + apply Nat.eqb_eq in E2. apply Nat.eqb_neq in E1. exfalso.
        assert (Hjk : j < k) by lia. pose proof (Hpre j Hjk) as Hp.
        apply E1. apply (proj1 (NoDup_nth target 0) Hn); [lia|exact Hk|].
        rewrite <- Hp. rewrite E2. exact He1.
      + apply Hpre. apply Nat.eqb_neq in E1. lia. }
  intros a Ha.
  assert (Hir : in_range (tshape t) (map a vs)).
  { rewrite Hsh. apply in_range_map. intros v Hv. apply Ha. apply Hmem. exact Hv. }
  etransitivity; [apply (f_equal (tget db (t_swapaxes db k e t))); symmetry; exact (swapl_map 0 0 a k e vs Hk' He2)|].
  rewrite tget_swapaxes.
  - etransitivity; [apply (f_equal (tget db t)); apply swapl_invol; rewrite map_length; assumption|]. apply Hev. exact Ha.
  - apply in_range_swapl; [exact Hir|rewrite Hsh, map_length; exact Hk'|rewrite Hsh, map_length; exact He2].
Qed.

Theorem align_loop_spec (target vars1 : list var) (vals1 : tensor B) :
  NoDup target -> (forall v, In v vars1 <-> In v target) -> length vars1 = length target ->
  tshape vals1 = map c1 vars1 ->
  let r := align_loop db target (length target) vars1 vals1 in
  fst r = target /\ tshape (snd r) = map c1 target /\
  forall a : asg, (forall v, In v target -> a v < c1 v) ->
    tget db (snd r) (map a target) = tget db vals1 (map a vars1).
Proof.
  intros Hn Hmem Hlen Hsh.
  assert (Hinv : forall k, k <= length target ->
            ainv target vars1 vals1 k (fold_left (align_step db target) (seq 0 k) (vars1, vals1))).
  { induction k as [|k IH]; intros Hk.
    - cbn [seq fold_left]. split; [exact Hmem|]. split; [exact Hlen|]. split; [exact Hsh|]. split; [intros j Hj; lia|].
      intros a _. reflexivity.
    - rewrite seq_S, fold_left_app. cbn [fold_left plus]. apply align_step_inv; [exact Hn|lia|apply IH; lia]. }
  specialize (Hinv (length target) (le_n _)). unfold align_loop. cbv zeta.
  destruct Hinv as (H1 & H2 & H3 & H4 & H5).
  assert (Heq : fst (fold_left (align_step db target) (seq 0 (length target)) (vars1, vals1)) = target).
  { apply nth_ext with (d := 0) (d' := 0); [exact H2|]. intros j Hj. apply H4. lia. }
  split; [exact Heq|]. rewrite Heq in H3, H5. split; [exact H3|exact H5].
Qed.
End Align.
