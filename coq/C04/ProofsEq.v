(* == : partial result for operands that need no re-alignment (same variable order, same state lists) *)
From Coq Require Import List Arith Lia PeanoNat Bool ZArith QArith Qcanon.
From PV Require Import Base.Semiring Base.Ravel Base.FinSum Base.RefFactor C04.Tensor C04.TensorFacts C04.Model C04.Spec C04.ProofsProd.
Import ListNotations.
Local Close Scope Qc_scope.
Local Close Scope Q_scope.
Local Open Scope nat_scope.

Lemma list_eqb_refl {X} (e : X -> X -> bool) (l : list X) : (forall x, e x x = true) -> list_eqb e l l = true.
Proof. intros H. induction l as [|x l IH]; [reflexivity|]. simpl. rewrite H, IH. reflexivity. Qed.
Lemma memz_In x l : In x l -> memz x l = true.
Proof. intros H. unfold memz, mem_of. apply existsb_exists. exists x. split; [exact H|apply Z.eqb_refl]. Qed.
Lemma subsetz_refl l : subsetz l l = true.
Proof. unfold subsetz. apply forallb_forall. intros x Hx. apply memz_In. exact Hx. Qed.
Lemma subsetv_refl l : subsetv l l = true.
Proof. unfold subsetv. apply forallb_forall. intros x Hx. apply memv_In. exact Hx. Qed.

(* the flat comparison of two tables of the same shape is the comparison at every index *)
Lemma forallb_combine_tget (P : Qc -> Qc -> bool) sh (d1 d2 : list Qc) :
  length d1 = prod sh -> length d2 = prod sh ->
  (forallb (fun ab => P (fst ab) (snd ab)) (combine d1 d2) = true <->
   forall idx, in_range sh idx -> P (t_get Qc 0%Qc sh d1 idx) (t_get Qc 0%Qc sh d2 idx) = true).
Proof.
  intros H1 H2. rewrite forallb_forall. split.
  - intros H idx Hr. pose proof (ravel_lt _ _ Hr) as Hlt. unfold t_get.
    specialize (H (nth (ravel sh idx) d1 0%Qc, nth (ravel sh idx) d2 0%Qc)). cbn [fst snd] in H. apply H.
    rewrite <- combine_nth by congruence. apply nth_In. rewrite combine_length, H1, H2. lia.
  - intros H [x y] Hin. cbn [fst snd].
    destruct (In_nth _ _ (0%Qc, 0%Qc) Hin) as [n [Hn Hnth]]. rewrite combine_length, H1, H2, Nat.min_id in Hn.
    rewrite combine_nth in Hnth by congruence. inversion Hnth; subst.
    specialize (H (unravel sh n) (unravel_in_range sh n Hn)). unfold t_get in H. rewrite ravel_unravel in H by exact Hn. exact H.
Qed.

Section Eq.
Variable card : var -> nat.

Lemma eq_state_loop_id (self : dfactor Qc) ostates : forall vars axis vals,
  (forall v, In v vars -> exists l, dlookup v (dstates self) = Some l /\ dlookup v ostates = Some l) ->
  eq_state_loop self ostates vars axis vals = Ok (Some vals).
Proof.
  induction vars as [|v r IH]; intros axis vals H; [reflexivity|]. cbn [eq_state_loop].
  destruct (H v (or_introl eq_refl)) as [l [H1 H2]]. rewrite H1, H2.
  rewrite subsetz_refl. cbn [andb negb]. rewrite (list_eqb_refl Z.eqb l Z.eqb_refl).
  apply IH. intros w Hw. apply H. right. exact Hw.
Qed.

(* PARTIAL: same variable order and same state lists (no axis / state re-alignment needed).  Then == is true
   exactly when every entry of [other] is within atol + rtol*|self entry| of the entry of [self].
   Missing for the full C04_eq_iff: the alignment loop with the cardinality swaps (C04_align_loop gives the value
   part) and the per-axis state re-ordering by integer-list indexing (t_take). *)
Theorem eq_iff_aligned (atol rtol : Qc) (self other : dfactor Qc) :
  dwf card self -> dwf card other -> dvars self = dvars other ->
  (forall v, In v (dvars self) -> exists l, dlookup v (dstates self) = Some l /\ dlookup v (dstates other) = Some l) ->
  (factor_eqb atol rtol self other = Ok true <->
   forall idx, in_range (dcard self) idx ->
     closeb atol rtol (tget 0%Qc (dvals other) idx) (tget 0%Qc (dvals self) idx) = true).
Proof.
  intros (Hn & Hc & Hs & Hw) (Hn' & Hc' & Hs' & Hw') Hv Hst. unfold factor_eqb.
  rewrite <- Hv. rewrite subsetv_refl. cbn [andb negb]. rewrite (list_eqb_refl Nat.eqb (dvars self) Nat.eqb_refl).
  rewrite (eq_state_loop_id self (dstates other) (dvars self) 0 (dvals other) Hst). cbn [bind].
  assert (Hsh : tshape (dvals other) = tshape (dvals self)) by (rewrite Hs, Hs', Hc, Hc', Hv; reflexivity).
  rewrite Hsh. rewrite (list_eqb_refl Nat.eqb _ Nat.eqb_refl). cbn [negb].
  assert (Hcc : dcard self = dcard other) by (rewrite Hc, Hc', Hv; reflexivity).
  rewrite <- Hcc. rewrite (list_eqb_refl Nat.eqb _ Nat.eqb_refl).
  pose proof (forallb_combine_tget (closeb atol rtol) (dcard self) (tdata (dvals other)) (tdata (dvals self))) as Hcore.
  unfold twf in Hw, Hw'. rewrite Hs in Hw. rewrite Hsh, Hs in Hw'. specialize (Hcore Hw' Hw).
  unfold tget. rewrite Hsh, Hs.
  destruct (forallb (fun ab => closeb atol rtol (fst ab) (snd ab)) (combine (tdata (dvals other)) (tdata (dvals self)))) eqn:E; cbn [negb].
  - split; [intros _; apply Hcore; reflexivity|reflexivity].
  - split; [discriminate|]. intros H. apply Hcore in H. discriminate.
Qed.
End Eq.

Lemma closeb_spec (atol rtol a b : Qc) :
  closeb atol rtol a b = true <-> (Qcabs (a - b) <= atol + rtol * Qcabs b)%Qc.
Proof.
  unfold closeb, Qcleb. destruct (Qclt_le_dec (atol + rtol * Qcabs b)%Qc (Qcabs (a - b)%Qc)) as [H|H].
  - split; [discriminate|]. intros H2. exfalso. exact (Qclt_not_le _ _ H H2).
  - split; [intros _; exact H|reflexivity].
Qed.
