(* store model of copy(): mutations of the copy never reach the original *)
From Coq Require Import List Arith Lia PeanoNat Bool ZArith.
From PV Require Import Base.Semiring Base.Ravel Base.FinSum Base.RefFactor C04.Tensor C04.Model.
Import ListNotations.

Lemma nth_error_set_nth_other {A} (l : list A) : forall k j x, k <> j -> nth_error (set_nth j x l) k = nth_error l k.
Proof.
  induction l as [|y l IH]; intros k j x H; [destruct j; reflexivity|].
  destruct j, k; simpl; try reflexivity; try lia. apply IH. lia.
Qed.

(* the factor object at lf is complete and everything it reaches lives in the store *)
Definition store_ok (s : store) (lf : nat) : Prop :=
  exists lv lc lx ld v c x dd,
    sread s lf = Some (OFactor lv lc lx ld) /\ sread s lv = Some (OVars v) /\ sread s lc = Some (OCard c) /\
    sread s lx = Some (OVals x) /\ sread s ld = Some (ODict dd) /\ forall p, In p dd -> snd p < length s.

Lemma sread_lt (s : store) l o : sread s l = Some o -> l < length s.
Proof. unfold sread. intros H. apply nth_error_Some. congruence. Qed.

(* ---- FactorSet.product out of place: all member factors are copied ---------------------------- *)
Lemma observe_prefix (s st : store) lf : store_ok s lf ->
  (forall k, k < length s -> nth_error st k = nth_error s k) -> observe st lf = observe s lf.
Proof.
  intros (lv & lc & lx & ld & v & c & x & dd & Hf & Hv & Hc & Hx & Hd & Hdd) Hlow.
  unfold observe, sread.
  rewrite (Hlow lf) by (apply (sread_lt s lf _ Hf)). fold (sread s lf). rewrite Hf.
  rewrite (Hlow lv) by (apply (sread_lt s lv _ Hv)). rewrite (Hlow lc) by (apply (sread_lt s lc _ Hc)).
  rewrite (Hlow lx) by (apply (sread_lt s lx _ Hx)). rewrite (Hlow ld) by (apply (sread_lt s ld _ Hd)).
  fold (sread s lv) (sread s lc) (sread s lx) (sread s ld). rewrite Hv, Hc, Hx, Hd.
  f_equal. f_equal. apply map_ext_in. intros p Hp. f_equal. apply Hlow. apply Hdd. exact Hp.
Qed.

(* the first n cells are those of s, and every factor object beyond them only points beyond them *)
Definition jinv (s : store) (st : store) : Prop :=
  (forall k, k < length s -> nth_error st k = nth_error s k) /\ length s <= length st /\
  forall l lv lc lx ld, length s <= l -> nth_error st l = Some (OFactor lv lc lx ld) ->
    length s <= lv /\ length s <= lc /\ length s <= lx /\ length s <= ld.

Lemma copy_states_ext : forall dd (s0 : store) s' dd', copy_states s0 dd = (s', dd') ->
  exists news, s' = s0 ++ news /\ forall o, In o news -> exists x, o = OStates x.
Proof.
  induction dd as [|[v l] r IH]; intros s0 s' dd' H; cbn [copy_states] in H.
  - inversion H; subst. exists []. split; [rewrite app_nil_r; reflexivity|intros o []].
  - unfold alloc in H.
    set (o := match sread s0 l with Some (OStates x) => OStates x | _ => OStates [] end) in *.
    destruct (copy_states (s0 ++ [o]) r) as [s2 r'] eqn:E. inversion H; subst s' dd'.
    destruct (IH _ _ _ E) as (news & Hs & Hn). exists (o :: news). split.
    + rewrite Hs, <- app_assoc. reflexivity.
    + intros o' [<-|Ho']; [|apply Hn; exact Ho']. unfold o. destruct (sread s0 l) as [[| | | |x|]|]; eexists; reflexivity.
Qed.

Lemma jinv_copy s s0 lf s1 lf' : jinv s s0 -> store_copy s0 lf = Some (s1, lf') -> jinv s s1 /\ length s <= lf'.
Proof.
  intros (H1 & H2 & H3) H. unfold store_copy in H.
  destruct (sread s0 lf) as [[| | | | |lv lc lx ld]|]; try discriminate.
  destruct (sread s0 lv) as [[v| | | | |]|]; try discriminate.
  destruct (sread s0 lc) as [[|c| | | |]|]; try discriminate.
  destruct (sread s0 lx) as [[| |x| | |]|]; try discriminate.
  destruct (sread s0 ld) as [[| | |dd| |]|]; try discriminate.
  destruct (copy_states s0 dd) as [sa dd'] eqn:Ec.
  destruct (copy_states_ext dd s0 sa dd' Ec) as (news & Hsa & Hnews).
  unfold alloc in H. cbn in H. inversion H; subst s1 lf'; clear H.
  repeat rewrite <- app_assoc. cbn [app]. repeat rewrite app_length. cbn [length].
  set (m := length sa) in *.
  assert (Hm : length s0 <= m) by (unfold m; rewrite Hsa, app_length; lia).
  split; [|lia].
  split; [|split].
  - intros k Hk. rewrite nth_error_app1 by lia. rewrite Hsa. rewrite nth_error_app1 by lia. apply H1. exact Hk.
  - rewrite app_length. cbn [length]. lia.
  - intros l a b c0 d0 Hl Hn. destruct (Nat.lt_ge_cases l m) as [Hlt|Hge].
    + rewrite nth_error_app1 in Hn by exact Hlt. rewrite Hsa in Hn.
      destruct (Nat.lt_ge_cases l (length s0)) as [Hlt0|Hge0].
      * rewrite nth_error_app1 in Hn by exact Hlt0. apply (H3 l a b c0 d0 Hl Hn).
      * rewrite nth_error_app2 in Hn by exact Hge0. apply nth_error_In in Hn. destruct (Hnews _ Hn) as [x0 Hx0]. discriminate.
    + rewrite nth_error_app2 in Hn by exact Hge. fold m in Hn.
      destruct (l - m) as [|[|[|[|[|k]]]]] eqn:E; cbn in Hn; try discriminate.
      * inversion Hn; subst. lia.
      * destruct k; discriminate.
Qed.

Lemma jinv_copy_all s : forall lfs s0 s' new, jinv s s0 -> store_copy_all s0 lfs = Some (s', new) ->
  jinv s s' /\ forall l, In l new -> length s <= l.
Proof.
  induction lfs as [|lf r IH]; intros s0 s' new J H; cbn [store_copy_all] in H.
  - inversion H; subst. split; [exact J|intros l []].
  - destruct (store_copy s0 lf) as [[s1 lf']|] eqn:E; [|discriminate].
    destruct (store_copy_all s1 r) as [[s2 ls]|] eqn:E2; [|discriminate]. inversion H; subst.
    destruct (jinv_copy s s0 lf s1 lf' J E) as [J1 Hl]. destruct (IH s1 s' ls J1 E2) as [J2 Hn].
    split; [exact J2|]. intros l [<-|Hin]; [exact Hl|apply Hn; exact Hin].
Qed.

Lemma length_set_nth {A} (l : list A) : forall k x, length (set_nth k x l) = length l.
Proof. induction l as [|y l IH]; intros k x; [destruct k; reflexivity|]. destruct k; simpl; [reflexivity|]. rewrite IH. reflexivity. Qed.
Lemma nth_error_set_nth_same {A} (l : list A) : forall k x, k < length l -> nth_error (set_nth k x l) k = Some x.
Proof. induction l as [|y l IH]; intros k x H; [simpl in H; lia|]. destruct k; simpl; [reflexivity|]. apply IH. simpl in H. lia. Qed.

Lemma jinv_mutate s st l m : jinv s st -> length s <= l -> jinv s (store_mutate st l m).
Proof.
  intros (H1 & H2 & H3) Hl. unfold store_mutate, sread.
  destruct (nth_error st l) as [[| | | | |lv lc lx ld]|] eqn:E; try (split; [exact H1|split; [exact H2|exact H3]]).
  destruct (H3 l lv lc lx ld Hl E) as (Hv & Hc & Hx & Hd).
  assert (G : forall f o, length s <= f -> (forall a b c d, o <> OFactor a b c d) -> jinv s (swrite st f o)).
  { intros f o Hf Ho. unfold swrite. split; [|split].
    - intros k Hk. rewrite nth_error_set_nth_other by lia. apply H1. exact Hk.
    - rewrite length_set_nth. exact H2.
    - intros l0 a b c d Hl0 Hn. destruct (Nat.eq_dec l0 f) as [->|Hne].
      + destruct (Nat.lt_ge_cases f (length st)) as [Hlt|Hge].
        * rewrite nth_error_set_nth_same in Hn by exact Hlt. inversion Hn. exfalso. apply (Ho a b c d). assumption.
        * exfalso. assert (Hnone : nth_error (set_nth f o st) f = None) by (apply nth_error_None; rewrite length_set_nth; exact Hge). congruence.
      + rewrite nth_error_set_nth_other in Hn by exact Hne. apply (H3 l0 a b c d Hl0 Hn). }
  destruct m; apply G; try assumption; intros; discriminate.
Qed.

(* after an out-of-place FactorSet product (or FactorSet.copy / the constructor), no sequence of mutations of the
   result's member factors changes the observable content of any member factor of the operands *)
Theorem factorset_product_pure (s : store) (a b : list nat) s' new (ms : list (nat * mutation)) :
  (forall lf, In lf (a ++ b) -> store_ok s lf) ->
  factorset_product_store s a b = Some (s', new) ->
  (forall p, In p ms -> In (fst p) new) ->
  forall lf, In lf (a ++ b) ->
    observe (fold_left (fun st p => store_mutate st (fst p) (snd p)) ms s') lf = observe s lf.
Proof.
  intros Hok H Hms lf Hlf. unfold factorset_product_store in H.
  assert (J0 : jinv s s) by (split; [reflexivity|split; [lia|intros l lv lc lx ld Hl Hn; exfalso; assert (Hnone : nth_error s l = None) by (apply nth_error_None; exact Hl); congruence]]).
  destruct (jinv_copy_all s (a ++ b) s s' new J0 H) as [J Hnew].
  assert (Jf : forall st, jinv s st -> jinv s (fold_left (fun st p => store_mutate st (fst p) (snd p)) ms st)).
  { clear - Hms Hnew. induction ms as [|p ms IH]; intros st Jst; [exact Jst|]. cbn [fold_left]. apply IH.
    - intros q Hq. apply Hms. right. exact Hq.
    - apply jinv_mutate; [exact Jst|]. apply Hnew. apply Hms. left. reflexivity. }
  apply observe_prefix; [apply Hok; exact Hlf|]. apply (Jf s' J).
Qed.

(* copy() of a single factor: a special case *)
Theorem copy_pure (s : store) (lf : nat) s' lf' (ms : list mutation) :
  store_ok s lf -> store_copy s lf = Some (s', lf') ->
  observe (fold_left (fun st m => store_mutate st lf' m) ms s') lf = observe s lf.
Proof.
  intros Hok H.
  assert (J0 : jinv s s) by (split; [reflexivity|split; [lia|intros l lv lc lx ld Hl Hn; exfalso; assert (Hnone : nth_error s l = None) by (apply nth_error_None; exact Hl); congruence]]).
  destruct (jinv_copy s s lf s' lf' J0 H) as [J Hl].
  assert (Jf : forall st, jinv s st -> jinv s (fold_left (fun st m => store_mutate st lf' m) ms st)).
  { clear - Hl. induction ms as [|m ms IH]; intros st Jst; [exact Jst|]. cbn [fold_left]. apply IH. apply jinv_mutate; assumption. }
  apply observe_prefix; [exact Hok|]. apply (Jf s' J).
Qed.
