(* store model of copy(): mutations of the copy never reach the original *)
From Coq Require Import List Arith Lia PeanoNat Bool ZArith.
From PV Require Import Base.Semiring Base.Ravel Base.FinSum Base.RefFactor C04.Tensor C04.Model.
Import ListNotations.

Lemma nth_error_set_nth_other {A} (l : list A) : forall k j x, k <> j -> nth_error (set_nth j x l) k = nth_error l k.
Proof.
  induction l as [|y l IH]; intros k j x H; [destruct j; reflexivity|].
  destruct j, k; simpl; try reflexivity; try lia. apply IH. lia.
Qed.

(* the factor object at lf is complete and everything it reaches lives in the store *)
Definition store_ok (s : store) (lf : nat) : Prop :=
  exists lv lc lx ld v c x dd,
    sread s lf = Some (OFactor lv lc lx ld) /\ sread s lv = Some (OVars v) /\ sread s lc = Some (OCard c) /\
    sread s lx = Some (OVals x) /\ sread s ld = Some (ODict dd) /\ forall p, In p dd -> snd p < length s.

Lemma sread_lt (s : store) l o : sread s l = Some o -> l < length s.
Proof. unfold sread. intros H. apply nth_error_Some. congruence. Qed.

Theorem copy_pure (s : store) (lf : nat) s' lf' (ms : list mutation) :
  store_ok s lf -> store_copy s lf = Some (s', lf') ->
  observe (fold_left (fun st m => store_mutate st lf' m) ms s') lf = observe s lf.
Proof.
  intros (lv & lc & lx & ld & v & c & x & dd & Hf & Hv & Hc & Hx & Hd & Hdd) H.
  unfold store_copy in H. rewrite Hf, Hv, Hc, Hx, Hd in H. unfold alloc in H. cbn in H.
  inversion H; subst s' lf'; clear H.
  set (n := length s).
  repeat rewrite <- app_assoc. cbn [app]. repeat rewrite app_length. cbn [length]. fold n.
  replace (n + 1 + 1 + 1) with (n + 3) by lia. replace (n + 1 + 1) with (n + 2) by lia.
  set (s0 := s ++ [OVars v; OCard c; OVals x; ODict dd; OFactor n (n + 1) (n + 2) (n + 3)]).
  replace (n + 1 + 1 + 1 + 1) with (n + 4) by lia.
  (* invariant of the mutation sequence *)
  assert (Inv : forall st, (forall k, k < n -> nth_error st k = nth_error s k) ->
                 nth_error st (n + 4) = Some (OFactor n (n + 1) (n + 2) (n + 3)) ->
                 observe (fold_left (fun st m => store_mutate st (n + 4) m) ms st) lf = observe s lf).
  { induction ms as [|m ms IH]; intros st Hlow Hobj.
    - cbn [fold_left]. unfold observe, sread.
      rewrite (Hlow lf) by (apply (sread_lt s lf _ Hf)). fold (sread s lf). rewrite Hf.
      rewrite (Hlow lv) by (apply (sread_lt s lv _ Hv)). rewrite (Hlow lc) by (apply (sread_lt s lc _ Hc)).
      rewrite (Hlow lx) by (apply (sread_lt s lx _ Hx)). rewrite (Hlow ld) by (apply (sread_lt s ld _ Hd)).
      fold (sread s lv) (sread s lc) (sread s lx) (sread s ld). rewrite Hv, Hc, Hx, Hd.
      f_equal. f_equal. apply map_ext_in. intros p Hp. f_equal. apply Hlow. apply Hdd. exact Hp.
    - cbn [fold_left]. apply IH.
      + intros k Hk. unfold store_mutate, sread. rewrite Hobj.
        destruct m; unfold swrite; rewrite nth_error_set_nth_other by lia; apply Hlow; exact Hk.
      + unfold store_mutate, sread. rewrite Hobj.
        destruct m; unfold swrite; rewrite nth_error_set_nth_other by lia; exact Hobj. }
  apply Inv.
  - intros k Hk. unfold s0. apply nth_error_app1. exact Hk.
  - unfold s0. rewrite nth_error_app2 by lia. replace (n + 4 - length s) with 4 by (unfold n; lia). reflexivity.
Qed.
