(* product, marginalize, maximize: pointwise meaning and refinement of the reference algebra *)
From Coq Require Import List Arith Lia PeanoNat Bool ZArith.
From PV Require Import Base.Semiring Base.Ravel Base.FinSum Base.RefFactor C04.Tensor C04.TensorFacts C04.Model C04.Spec.
Import ListNotations.

Lemma nodupb_NoDup l : nodupb l = true -> NoDup l.
Proof.
  induction l as [|x l IH]; intros H; [constructor|]. simpl in H. apply andb_true_iff in H. destruct H as [H1 H2].
  constructor; [apply memv_false; apply negb_true_iff; exact H1|apply IH; exact H2].
Qed.
Lemma subsetv_In a b : subsetv a b = true -> forall x, In x a -> In x b.
Proof. unfold subsetv. rewrite forallb_forall. intros H x Hx. apply memv_In. apply H. exact Hx. Qed.

Lemma is_order_of_spec o s : is_order_of o s = true ->
  NoDup o /\ (forall x, In x o -> In x s) /\ (forall x, In x s -> In x o).
Proof.
  unfold is_order_of. intros H. apply andb_true_iff in H. destruct H as [H H3].
  apply andb_true_iff in H. destruct H as [H1 H2].
  split; [apply nodupb_NoDup; exact H1|]. split; apply subsetv_In; assumption.
Qed.

Section Prod.
Variable R : csr.
Variable card : var -> nat.
Notation fac := (dfactor R).
Notation deval := (@deval R zero).
Notation dwf := (@dwf R card).

Lemma card_of_wf (f : fac) v : dwf f -> In v (dvars f) -> card_of f v = card v.
Proof.
  intros (Hn & Hc & _) Hv. unfold card_of. rewrite Hc.
  destruct (posn_nth (dvars f) v Hv) as [H1 H2].
  rewrite (nth_indep _ 0 (card 0)) by (rewrite map_length; exact H2).
  rewrite map_nth. f_equal. exact H1.
Qed.

Lemma deval_feval (f : fac) a : dwf f -> feval R card (to_ref f) a = deval f a.
Proof.
  intros (Hn & Hc & Hs & Hw). unfold feval, deval, Spec.deval, tget, fcard, to_ref. simpl. rewrite Hs, Hc. reflexivity.
Qed.
Lemma wf_to_ref (f : fac) : dwf f -> wf R card (to_ref f).
Proof.
  intros (Hn & Hc & Hs & Hw). split; [exact Hn|]. unfold to_ref, fcard. simpl. unfold twf in Hw. rewrite Hw, Hs, Hc. reflexivity.
Qed.

(* size of the label of variable v in the product's einsum *)
Lemma ldim_in_pos order vs v :
  (forall w, In w vs -> In w order) -> In v order ->
  ldim_in (posn v order) (map (fun w => posn w order) vs) (map card vs) =
  if memv v vs then Some (card v) else None.
Proof.
  intros Hs Hv. induction vs as [|w vs IH]; [reflexivity|]. cbn [map ldim_in].
  assert (Hw : In w order) by (apply Hs; left; reflexivity).
  destruct (Nat.eqb (posn w order) (posn v order)) eqn:E.
  - apply Nat.eqb_eq in E.
    assert (w = v).
    { destruct (posn_nth order w Hw) as [H1 _]. destruct (posn_nth order v Hv) as [H2 _]. rewrite E in H1. congruence. }
    subst. unfold memv. simpl. rewrite Nat.eqb_refl. reflexivity.
  - rewrite IH by (intros x Hx; apply Hs; right; exact Hx).
    unfold memv. cbn [existsb]. destruct (Nat.eqb v w) eqn:E2; [|reflexivity].
    apply Nat.eqb_eq in E2. subst. rewrite Nat.eqb_refl in E. discriminate.
Qed.

Lemma ldim_product (f g : fac) order v :
  dwf f -> dwf g -> (forall w, In w (dvars f ++ dvars g) -> In w order) -> In v order ->
  In v (dvars f ++ dvars g) ->
  ldim R [(dvals f, map (fun w => posn w order) (dvars f)); (dvals g, map (fun w => posn w order) (dvars g))]
       (posn v order) = card v.
Proof.
  intros (Hnf & Hcf & Hsf & _) (Hng & Hcg & Hsg & _) Hs Hv Hin. cbn [ldim fst snd].
  rewrite Hsf, Hcf, Hsg, Hcg.
  rewrite !ldim_in_pos by (try exact Hv; intros w Hw; apply Hs; apply in_or_app; auto).
  destruct (memv v (dvars f)) eqn:E1; [reflexivity|].
  destruct (memv v (dvars g)) eqn:E2; [reflexivity|].
  apply memv_false in E1, E2. apply in_app_or in Hin. tauto.
Qed.

Theorem product_pointwise (f g : fac) order h :
  dwf f -> dwf g -> product R f g order = Ok h ->
  dwf h /\ dvars h = order /\ (forall v, In v order <-> In v (dvars f) \/ In v (dvars g)) /\
  dstates h = dupdate (dstates f) (dstates g) /\
  forall a, valid card a -> deval h a = mul (deval f a) (deval g a).
Proof.
  intros Hf Hg H. unfold product in H.
  destruct (is_order_of order (dvars f ++ dvars g)) eqn:Eo; [|discriminate]. cbn [negb] in H.
  match type of H with (if negb ?c then _ else _) = _ => destruct c eqn:Ee; [|discriminate] end. cbn [negb] in H.
  inversion H; subst h; clear H. cbn [dvars dcard dstates dvals].
  apply is_order_of_spec in Eo. destruct Eo as (Hn & Ho1 & Ho2).
  set (pos := fun w => posn w order) in *.
  set (ops := [(dvals f, map pos (dvars f)); (dvals g, map pos (dvars g))]) in *.
  set (n := length order).
  assert (Hld : forall k, k < n -> ldim R ops k = card (nth k order 0)).
  { intros k Hk. rewrite <- (posn_of_nth order k Hn Hk) at 1.
    assert (Hin : In (nth k order 0) order) by (apply nth_In; exact Hk).
    apply ldim_product; auto. }
  assert (Hshape : map (ldim R ops) (seq 0 n) = map card order).
  { rewrite <- (map_nth_seq card order 0). apply map_ext_in. intros k Hk. apply in_seq in Hk. apply Hld. lia. }
  split.
  { split; [exact Hn|]. split.
    - apply map_ext_in. intros v Hv. destruct (memv v (dvars g)) eqn:E.
      + apply card_of_wf; [exact Hg|apply memv_In; exact E].
      + apply card_of_wf; [exact Hf|]. apply memv_false in E. apply Ho1 in Hv. apply in_app_or in Hv. tauto.
    - split; [|apply twf_tbuild]. unfold t_einsum. cbn [tshape tbuild]. rewrite Hshape.
      symmetry. apply map_ext_in. intros v Hv. destruct (memv v (dvars g)) eqn:E.
      + apply card_of_wf; [exact Hg|apply memv_In; exact E].
      + apply card_of_wf; [exact Hf|]. apply memv_false in E. apply Ho1 in Hv. apply in_app_or in Hv. tauto. }
  split; [reflexivity|]. split.
  { intros v. split; intros Hv; [apply Ho1 in Hv; apply in_app_or in Hv; exact Hv|apply Ho2; apply in_or_app; exact Hv]. }
  split; [reflexivity|].
  intros a Ha. unfold Spec.deval. cbn [dvars dvals].
  set (b := fun k => a (nth k order 0)).
  rewrite <- (map_nth_seq a order 0). fold n. change (map (fun k => a (nth k order 0)) (seq 0 n)) with (map b (seq 0 n)).
  assert (Hpos : forall vs, (forall w, In w vs -> In w order) -> map b (map pos vs) = map a vs).
  { intros vs Hvs. rewrite map_map. apply map_ext_in. intros w Hw. unfold b, pos.
    destruct (posn_nth order w (Hvs w Hw)) as [H1 _]. f_equal. exact H1. }
  rewrite tget_einsum_nosum.
  - unfold ein_term, ops. cbn [map fst snd]. unfold prod_list. cbn [fold_right].
    rewrite !Hpos by (intros w Hw; apply Ho2; apply in_or_app; auto). rewrite mul_1_r. reflexivity.
  - apply seq_NoDup.
  - intros k Hk. apply in_seq in Hk. rewrite Hld by lia. unfold b. apply Ha.
  - intros x Hx. unfold all_labels, ops in Hx. cbn [map snd concat] in Hx. rewrite app_nil_r in Hx.
    apply in_seq. split; [lia|]. cbn [plus].
    apply in_app_or in Hx. destruct Hx as [Hx|Hx]; apply in_map_iff in Hx; destruct Hx as [w [<- Hw]];
      unfold pos; apply posn_nth; apply Ho2; apply in_or_app; auto.
Qed.

(* the literal product refines the reference product *)
Corollary product_refines (f g : fac) order h a :
  dwf f -> dwf g -> product R f g order = Ok h -> valid card a ->
  feval R card (to_ref h) a = feval R card (fprod R card (to_ref f) (to_ref g)) a.
Proof.
  intros Hf Hg H Ha. destruct (product_pointwise f g order h Hf Hg H) as (Hh & _ & _ & _ & Hev).
  rewrite deval_feval by exact Hh. rewrite Hev by exact Ha.
  rewrite feval_fprod by (try apply wf_to_ref; assumption).
  rewrite !deval_feval by assumption. reflexivity.
Qed.
End Prod.
