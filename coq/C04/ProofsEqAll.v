(* == : the modelled DiscreteFactor.__eq__ is true IFF the two factors denote the same function on named
   assignments up to the tolerance predicate, for every axis order and every state order *)
From Coq Require Import List Arith Lia PeanoNat Bool ZArith QArith Qcanon.
From PV Require Import Base.Semiring Base.Ravel Base.FinSum Base.RefFactor C04.Tensor C04.TensorFacts C04.Model C04.Spec
  C04.ProofsProd C04.ProofsMarg C04.ProofsReduce C04.ProofsAlign C04.ProofsDivSum C04.ProofsEq.
Import ListNotations.
Local Close Scope Qc_scope.
Local Close Scope Q_scope.
Local Open Scope nat_scope.

(* ---------------------------------------------------------------- small facts *)
Lemma list_eqb_true {X} (e : X -> X -> bool) (He : forall x y, e x y = true -> x = y) :
  forall l l', list_eqb e l l' = true -> l = l'.
Proof.
  induction l as [|x l IH]; intros [|y l'] H; simpl in H; try discriminate; [reflexivity|].
  apply andb_true_iff in H. destruct H as [H1 H2]. f_equal; [apply He; exact H1|apply IH; exact H2].
Qed.
Lemma in_range_map_inv (c a : nat -> nat) vs : in_range (map c vs) (map a vs) -> forall v, In v vs -> a v < c v.
Proof.
  induction vs as [|w r IH]; intros H v Hv; [destruct Hv|]. cbn [map] in H. inversion H; subst.
  destruct Hv as [<-|Hv]; [assumption|apply IH; assumption].
Qed.
Lemma memz_true_In x l : memz x l = true <-> In x l.
Proof.
  unfold memz, mem_of. rewrite existsb_exists. split.
  - intros [y [Hy E]]. apply Z.eqb_eq in E. subst. exact Hy.
  - intros H. exists x. split; [exact H|apply Z.eqb_refl].
Qed.
Lemma subsetz_incl a b : subsetz a b = true <-> (forall x, In x a -> In x b).
Proof.
  unfold subsetz. rewrite forallb_forall. split; intros H x Hx; [apply memz_true_In|apply memz_true_In]; apply H; exact Hx.
Qed.
Lemma posz_lt x l : In x l -> posz x l < length l.
Proof.
  unfold posz. induction l as [|y l IH]; intros H; [destruct H|]. simpl. destruct (Z.eqb y x) eqn:E; [lia|].
  destruct H as [H|H]; [subst; rewrite Z.eqb_refl in E; discriminate|]. specialize (IH H). lia.
Qed.
Lemma nth_posz x l : In x l -> nth (posz x l) l 0%Z = x.
Proof.
  unfold posz. induction l as [|y l IH]; intros H; [destruct H|]. simpl. destruct (Z.eqb y x) eqn:E.
  - apply Z.eqb_eq in E. exact E.
  - destruct H as [H|H]; [subst; rewrite Z.eqb_refl in E; discriminate|]. apply IH. exact H.
Qed.
Lemma posz_nth l : forall i, NoDup l -> i < length l -> posz (nth i l 0%Z) l = i.
Proof.
  unfold posz. induction l as [|y l IH]; intros i Hn Hi; [simpl in Hi; lia|]. inversion Hn as [|? ? Hy Hn']; subst.
  destruct i as [|i]; simpl; [rewrite Z.eqb_refl; reflexivity|].
  destruct (Z.eqb y (nth i l 0%Z)) eqn:E.
  - apply Z.eqb_eq in E. exfalso. apply Hy. rewrite E. apply nth_In. simpl in Hi. lia.
  - f_equal. apply IH; [exact Hn'|simpl in Hi; lia].
Qed.
Lemma set_nth_same {A} (d : A) : forall (l : list A) k, k < length l -> set_nth k (nth k l d) l = l.
Proof.
  induction l as [|y l IH]; intros k H; [simpl in H; lia|]. destruct k; simpl; [reflexivity|]. f_equal. apply IH. simpl in H. lia.
Qed.
Lemma posn_app_mid (pre : list var) v r : ~ In v pre -> posn v (pre ++ v :: r) = length pre.
Proof.
  unfold posn. induction pre as [|y pre IH]; intros H; simpl.
  - rewrite Nat.eqb_refl. reflexivity.
  - destruct (Nat.eqb y v) eqn:E; [apply Nat.eqb_eq in E; exfalso; apply H; left; exact E|].
    f_equal. apply IH. intros Hi. apply H. right. exact Hi.
Qed.

Section EqAll.
Variable card : var -> nat.

(* ---------------------------------------------------------------- the alignment loop with cardinalities *)
Definition tinv (T vars1 : list var) (vals1 : tensor Qc) (k : nat) (st3 : list var * list nat * tensor Qc) : Prop :=
  ainv 0%Qc card T vars1 vals1 k (fst (fst st3), snd st3) /\ snd (fst st3) = map card (fst (fst st3)) /\ twf (snd st3).

Lemma eq_align_step_inv (T vars1 : list var) vals1 k st3 : NoDup T -> k < length T ->
  tinv T vars1 vals1 k st3 -> tinv T vars1 vals1 (S k) (eq_align_step T st3 k).
Proof.
  intros Hn Hk (Ha & Hc & Hw). destruct st3 as [[vs cs] t]. cbn [fst snd] in *.
  pose proof (align_step_inv 0%Qc card T vars1 vals1 k (vs, t) Hn Hk Ha) as Ha'.
  destruct Ha as (Hmem & Hlen & _).  cbn [fst snd] in *.
  assert (Htk : In (nth k T 0) vs) by (apply Hmem; apply nth_In; exact Hk).
  destruct (posn_nth vs (nth k T 0) Htk) as [_ He2].
  assert (Hk' : k < length vs) by lia.
  unfold eq_align_step, tinv. cbn [fst snd]. unfold align_step in Ha'. cbn [fst snd] in Ha'.
  split; [exact Ha'|]. split; [|apply twf_tbuild].
  rewrite Hc. apply (swapl_map 0 0 card k _ vs Hk' He2).
Qed.

Lemma eq_align_spec (T vars1 : list var) (vals1 : tensor Qc) :
  NoDup T -> (forall v, In v vars1 <-> In v T) -> length vars1 = length T ->
  tshape vals1 = map card vars1 -> twf vals1 ->
  let r := fold_left (eq_align_step T) (seq 0 (length T)) (vars1, map card vars1, vals1) in
  fst (fst r) = T /\ snd (fst r) = map card T /\ tshape (snd r) = map card T /\ twf (snd r) /\
  forall a : asg, (forall v, In v T -> a v < card v) -> tget 0%Qc (snd r) (map a T) = tget 0%Qc vals1 (map a vars1).
Proof.
  intros Hn Hmem Hlen Hsh Hw.
  assert (Hinv : forall k, k <= length T ->
            tinv T vars1 vals1 k (fold_left (eq_align_step T) (seq 0 k) (vars1, map card vars1, vals1))).
  { induction k as [|k IH]; intros Hk.
    - cbn [seq fold_left]. split; [|split; [reflexivity|exact Hw]]. cbn [fst snd].
      split; [exact Hmem|]. split; [exact Hlen|]. split; [exact Hsh|]. split; [intros j Hj; lia|]. intros a _. reflexivity.
    - rewrite seq_S, fold_left_app. cbn [fold_left plus]. apply eq_align_step_inv; [exact Hn|lia|apply IH; lia]. }
  specialize (Hinv (length T) (le_n _)). cbv zeta.
  destruct (fold_left (eq_align_step T) (seq 0 (length T)) (vars1, map card vars1, vals1)) as [[vs cs] t].
  destruct Hinv as ((H1 & H2 & H3 & H4 & H5) & Hc & Hwt). cbn [fst snd] in *.
  assert (Heq : vs = T).
  { apply nth_ext with (d := 0) (d' := 0); [exact H2|]. intros j Hj. apply H4. lia. }
  subst vs. repeat split; try assumption.
Qed.

(* ---------------------------------------------------------------- the operands *)
Variables self other : dfactor Qc.
Variable sts sto : var -> list name.      (* the state lists of self / of other *)
Hypothesis Hself : dwf card self.
Hypothesis Hother : dwf card other.
Notation T := (dvars self).
Hypothesis Hsts : forall v, In v T -> dlookup v (dstates self) = Some (sts v) /\ NoDup (sts v) /\ length (sts v) = card v.
Hypothesis Hsto : forall v, In v T -> dlookup v (dstates other) = Some (sto v) /\ NoDup (sto v) /\ length (sto v) = card v.

(* state index of other's table that carries the NAME which self gives to its state index i of variable v *)
Definition sigma (v : var) (i : nat) : nat := posz (nth i (sts v) 0%Z) (sto v).
Definition seteq (v : var) : bool := subsetz (sts v) (sto v) && subsetz (sto v) (sts v).
(* re-index the variables in [done] *)
Definition mix (done : list var) (a : asg) : asg := fun v => if memv v done then sigma v (a v) else a v.
Definition bounded (a : asg) : Prop := forall v, In v T -> a v < card v.

Lemma sigma_lt v i : In v T -> seteq v = true -> i < card v -> sigma v i < card v.
Proof.
  intros Hv Hs Hi. destruct (Hsts v Hv) as (_ & _ & L1). destruct (Hsto v Hv) as (_ & _ & L2).
  unfold sigma. rewrite <- L2. apply posz_lt. unfold seteq in Hs. apply andb_true_iff in Hs. destruct Hs as [S1 _].
  apply (proj1 (subsetz_incl _ _) S1). apply nth_In. lia.
Qed.
Lemma mix_bounded done a : (forall v, In v done -> In v T /\ seteq v = true) -> bounded a -> bounded (mix done a).
Proof.
  intros Hd Ha v Hv. unfold mix. destruct (memv v done) eqn:E; [|apply Ha; exact Hv].
  apply memv_In in E. apply sigma_lt; [exact Hv|apply Hd; exact E|apply Ha; exact Hv].
Qed.

(* state re-alignment loop *)
Lemma eq_state_loop_spec (G : asg -> Qc) : forall vars pre vals,
  T = pre ++ vars -> (forall v, In v pre -> seteq v = true) ->
  tshape vals = map card T -> twf vals ->
  (forall a, bounded a -> tget 0%Qc vals (map a T) = G (mix pre a)) ->
  (forall a b, (forall v, In v T -> a v = b v) -> G a = G b) ->
  (forallb seteq vars = false -> eq_state_loop self (dstates other) vars (length pre) vals = Ok None) /\
  (forallb seteq vars = true -> exists vals',
      eq_state_loop self (dstates other) vars (length pre) vals = Ok (Some vals') /\
      tshape vals' = map card T /\ twf vals' /\ forall a, bounded a -> tget 0%Qc vals' (map a T) = G (mix T a)).
Proof.
  destruct Hself as (HnT & HcT & _).
  induction vars as [|v r IH]; intros pre vals HT Hpre Hsh Hw Hev HG.
  - rewrite app_nil_r in HT. split; [discriminate|]. intros _. exists vals. cbn [eq_state_loop].
    split; [reflexivity|]. split; [exact Hsh|]. split; [exact Hw|]. intros a Ha. rewrite Hev by exact Ha.
    apply HG. intros w _. unfold mix. rewrite <- HT. reflexivity.
  - assert (HvT : In v T) by (rewrite HT; apply in_or_app; right; left; reflexivity).
    destruct (Hsts v HvT) as (L1 & N1 & E1). destruct (Hsto v HvT) as (L2 & N2 & E2).
    assert (Hvpre : ~ In v pre).
    { intros Hi. rewrite HT in HnT. apply NoDup_remove_2 in HnT. apply HnT. apply in_or_app. left. exact Hi. }
    assert (Hax : posn v T = length pre) by (rewrite HT; apply posn_app_mid; exact Hvpre).
    cbn [eq_state_loop forallb]. rewrite L1, L2. fold (seteq v).
    destruct (seteq v) eqn:Es; cbn [negb andb].
    2:{ split; [reflexivity|discriminate]. }
    assert (HT' : T = (pre ++ [v]) ++ r) by (rewrite <- app_assoc; exact HT).
    assert (Hpre' : forall w, In w (pre ++ [v]) -> seteq w = true).
    { intros w Hw'. apply in_app_or in Hw'. destruct Hw' as [Hw'|[<-|[]]]; [apply Hpre; exact Hw'|exact Es]. }
    assert (Hlen' : length (pre ++ [v]) = S (length pre)) by (rewrite app_length; simpl; lia).
    (* the value at a, with v re-indexed, is the value of [vals] at the assignment a' *)
    assert (Hmix : forall a w, In w T ->
               mix (pre ++ [v]) a w = mix pre (fun u => if Nat.eqb v u then sigma v (a v) else a u) w).
    { intros a w Hw'. unfold mix, memv. rewrite existsb_app. cbn [existsb]. rewrite orb_false_r.
      destruct (Nat.eqb w v) eqn:E.
      - apply Nat.eqb_eq in E. subst w. assert (Em : existsb (Nat.eqb v) pre = false) by (apply memv_false; exact Hvpre).
        rewrite orb_true_r. unfold var in *. rewrite Em. rewrite Nat.eqb_refl. reflexivity.
      - rewrite orb_false_r. assert (E' : Nat.eqb v w = false) by (rewrite Nat.eqb_sym; exact E). rewrite E'. reflexivity. }
    destruct (list_eqb Z.eqb (sts v) (sto v)) eqn:El.
    + (* identical lists: nothing to do, sigma v is the identity *)
      apply (list_eqb_true Z.eqb (fun x y H => proj1 (Z.eqb_eq x y) H)) in El.
      rewrite <- Hlen'. apply (IH (pre ++ [v]) vals HT' Hpre' Hsh Hw); [|exact HG].
      intros a Ha. rewrite Hev by exact Ha. apply HG. intros w Hw'. rewrite (Hmix a w Hw').
      unfold mix. assert (Hid : sigma v (a v) = a v).
      { unfold sigma. rewrite <- El. apply posz_nth; [exact N1|]. change (a v < length (sts v)). rewrite E1. apply Ha. exact HvT. }
      rewrite Hid. destruct (memv w pre); destruct (Nat.eqb v w) eqn:E; try reflexivity;
        apply Nat.eqb_eq in E; subst; reflexivity.
    + (* integer-list indexing on this axis *)
      set (ref := map (fun s => posz s (sto v)) (sts v)).
      set (vals1 := t_take 0%Qc (length pre) ref vals).
      assert (Href : length ref = card v) by (unfold ref; rewrite map_length; exact E1).
      assert (Hlt : length pre < length (map card T)).
      { rewrite map_length, HT, app_length. simpl. lia. }
      assert (Hnthc : nth (length pre) (map card T) 0 = card v).
      { rewrite nth_map0 by (rewrite map_length in Hlt; exact Hlt). f_equal. rewrite <- Hax. apply posn_nth. exact HvT. }
      assert (Hsh1 : tshape vals1 = map card T).
      { unfold vals1, t_take. cbn [tshape tbuild]. rewrite Hsh, Href, <- Hnthc. apply set_nth_same. exact Hlt. }
      rewrite <- Hlen'. apply (IH (pre ++ [v]) vals1 HT' Hpre' Hsh1 (twf_tbuild _ _)); [|exact HG].
      intros a Ha. unfold vals1. rewrite tget_take.
      2:{ rewrite Hsh, Href, <- Hnthc, set_nth_same by exact Hlt. apply in_range_map. exact Ha. }
      assert (Hn1 : nth (length pre) (map a T) 0 = a v).
      { rewrite nth_map0 by (rewrite map_length in Hlt; exact Hlt). f_equal. rewrite <- Hax. apply posn_nth. exact HvT. }
      rewrite Hn1.
      assert (Hn2 : nth (a v) ref 0 = sigma v (a v)).
      { unfold ref, sigma. rewrite (nth_indep _ 0 (posz 0%Z (sto v))) by (rewrite map_length; change (a v < length (sts v)); rewrite E1; apply Ha; exact HvT).
        apply (map_nth (fun s => posz s (sto v))). }
      rewrite Hn2. rewrite <- Hax.
      rewrite (set_nth_posn_map T a v (sigma v (a v)) HnT HvT).
      rewrite Hev.
      * apply HG. intros w Hw'. symmetry. apply (Hmix a w Hw').
      * intros w Hw'. destruct (Nat.eqb v w) eqn:E; [|apply Ha; exact Hw'].
        apply Nat.eqb_eq in E. subst w. apply sigma_lt; [exact HvT|exact Es|apply Ha; exact HvT].
Qed.

(* ---------------------------------------------------------------- the theorem, at state indices *)
Theorem factor_eqb_iff_idx (atol rtol : Qc) :
  factor_eqb atol rtol self other = Ok true <->
  ((forall v, In v T <-> In v (dvars other)) /\ (forall v, In v T -> seteq v = true) /\
   forall a, bounded a -> closeb atol rtol (deval 0%Qc other (mix T a)) (deval 0%Qc self a) = true).
Proof.
  pose proof Hself as (HnT & HcT & HsT & HwT). pose proof Hother as (HnO & HcO & HsO & HwO).
  unfold factor_eqb.
  destruct (subsetv T (dvars other) && subsetv (dvars other) T) eqn:Esub; cbn [negb].
  2:{ split; [discriminate|]. intros (Hv & _). exfalso.
      assert (E : subsetv T (dvars other) && subsetv (dvars other) T = true).
      { apply andb_true_iff. split; unfold subsetv; apply forallb_forall; intros x Hx; apply memv_In; apply Hv; exact Hx. }
      congruence. }
  apply andb_true_iff in Esub. destruct Esub as [S1 S2].
  assert (Hv : forall v, In v T <-> In v (dvars other)).
  { intros v. split; [apply (subsetv_In _ _ S1)|apply (subsetv_In _ _ S2)]. }
  assert (Hlen : length (dvars other) = length T).
  { apply NoDup_same_length; [exact HnO|exact HnT|]. intros v. symmetry. apply Hv. }
  (* the aligned operand *)
  assert (Hal : exists pv pc pt,
     (if list_eqb Nat.eqb T (dvars other) then (dvars other, dcard other, dvals other)
      else fold_left (eq_align_step T) (seq 0 (trank (dvals self))) (dvars other, dcard other, dvals other)) = (pv, pc, pt) /\
     pc = map card T /\ tshape pt = map card T /\ twf pt /\
     forall a, bounded a -> tget 0%Qc pt (map a T) = deval 0%Qc other a).
  { destruct (list_eqb Nat.eqb T (dvars other)) eqn:El.
    - apply (list_eqb_true Nat.eqb (fun x y H => proj1 (Nat.eqb_eq x y) H)) in El.
      exists (dvars other), (dcard other), (dvals other). split; [reflexivity|].
      rewrite HcO, HsO, HcO, <- El. repeat split; try exact HwO. intros a _. unfold deval. rewrite <- El. reflexivity.
    - assert (Hr : trank (dvals self) = length T) by (unfold trank; rewrite HsT, HcT, map_length; reflexivity).
      rewrite Hr, HcO.
      pose proof (eq_align_spec T (dvars other) (dvals other) HnT (fun v => iff_sym (Hv v)) Hlen (eq_trans HsO HcO) HwO) as Sp.
      cbv zeta in Sp.
      destruct (fold_left (eq_align_step T) (seq 0 (length T)) (dvars other, map card (dvars other), dvals other)) as [[pv pc] pt].
      cbn [fst snd] in Sp. destruct Sp as (_ & P2 & P3 & P4 & P5).
      exists pv, pc, pt. repeat split; try assumption. }
  destruct Hal as (pv & pc & pt & Eal & Hpc & Hpsh & Hpw & Hpev). rewrite Eal.
  (* the state loop *)
  assert (HG : forall a b, (forall v, In v T -> a v = b v) -> deval 0%Qc other a = deval 0%Qc other b).
  { intros a b Hab. unfold deval. f_equal. apply map_ext_in. intros v Hv'. apply Hab. apply Hv. exact Hv'. }
  destruct (eq_state_loop_spec (deval 0%Qc other) T [] pt eq_refl (fun v H => match H with end) Hpsh Hpw) as [Lf Lt].
  { intros a Ha. rewrite Hpev by exact Ha. apply HG. intros v _. reflexivity. }
  { exact HG. }
  cbn [length] in Lf, Lt.
  destruct (forallb seteq T) eqn:Eall.
  2:{ rewrite (Lf eq_refl). cbn [bind]. split; [discriminate|]. intros (_ & Hs & _). exfalso.
      assert (forallb seteq T = true) by (apply forallb_forall; exact Hs). congruence. }
  destruct (Lt eq_refl) as (pt' & El & Hsh' & Hw' & Hev'). rewrite El. cbn [bind].
  assert (Hall : forall v, In v T -> seteq v = true) by (apply forallb_forall; exact Eall).
  rewrite Hsh', HsT, HcT. rewrite (list_eqb_refl Nat.eqb (map card T) Nat.eqb_refl). cbn [negb].
  rewrite Hpc, <- HcT. rewrite (list_eqb_refl Nat.eqb (dcard self) Nat.eqb_refl).
  pose proof (forallb_combine_tget (closeb atol rtol) (map card T) (tdata pt') (tdata (dvals self))) as Hcore.
  unfold twf in Hw', HwT. rewrite Hsh' in Hw'. rewrite HsT, HcT in HwT. specialize (Hcore Hw' HwT).
  destruct (forallb (fun ab => closeb atol rtol (fst ab) (snd ab)) (combine (tdata pt') (tdata (dvals self)))) eqn:E; cbn [negb].
  - split; [|reflexivity]. intros _. split; [exact Hv|]. split; [exact Hall|].
    intros a Ha. rewrite <- (Hev' a Ha).
    assert (Hr : in_range (map card T) (map a T)) by (apply in_range_map; exact Ha).
    pose proof (proj1 Hcore eq_refl (map a T) Hr) as Hc'. unfold deval, tget. rewrite Hsh', HsT, HcT. exact Hc'.
  - split; [discriminate|]. intros (_ & _ & Hp). exfalso.
    assert (Hft : false = true); [|discriminate].
    apply Hcore. intros idx Hr.
    set (a := asg_of T idx).
    assert (Hidx : map a T = idx) by (apply map_asg_of; [exact HnT|rewrite (in_range_length _ _ Hr), map_length; reflexivity]).
    assert (Ha : bounded a).
    { rewrite <- Hidx in Hr. exact (in_range_map_inv card a T Hr). }
    specialize (Hp a Ha). rewrite <- (Hev' a Ha) in Hp. unfold deval, tget in Hp. rewrite Hsh', HsT, HcT, Hidx in Hp. exact Hp.
Qed.
End EqAll.
