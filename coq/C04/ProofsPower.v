(* products count multiplicity: a factor listed n+1 times contributes its value to the power n+1 *)
From Coq Require Import List Arith Lia PeanoNat Bool ZArith.
From PV Require Import Base.Semiring Base.Ravel Base.FinSum Base.RefFactor C04.Tensor C04.TensorFacts C04.Model C04.Spec
  C04.ProofsProd C04.ProofsMarg C04.ProofsAlg.
Import ListNotations.

Section Power.
Variable R : csr.
Variable card : var -> nat.

Lemma Forall_repeat {A} (P : A -> Prop) x n : P x -> Forall P (repeat x n).
Proof. intros H. induction n; simpl; constructor; assumption. Qed.

Lemma map_repeat' {A B} (g : A -> B) x n : map g (repeat x n) = repeat (g x) n.
Proof. induction n; simpl; [reflexivity|f_equal; assumption]. Qed.

Theorem factor_product_power (f : dfactor R) n os h a :
  dwf card f -> fp_go R f (repeat f n) os = Ok h -> valid card a ->
  deval zero h a = prod_list (repeat (deval zero f a) (S n)).
Proof.
  intros Hf H Ha.
  destruct (fp_go_pointwise R card (repeat f n) f os h Hf (Forall_repeat _ f n Hf) H) as [_ Hev].
  rewrite (Hev a Ha). rewrite map_repeat'. reflexivity.
Qed.

(* a list with value-equal (same-meaning) members: each member counts *)
Theorem factor_product_counts_equal_members (f f' g : dfactor R) o1 o2 h a :
  dwf card f -> dwf card f' -> dwf card g -> same_meaning R card f f' ->
  fp_go R f [g; f'] [o1; o2] = Ok h -> valid card a ->
  deval zero h a = mul (mul (deval zero f a) (deval zero g a)) (deval zero f a).
Proof.
  intros Hf Hf' Hg [_ He] H Ha.
  destruct (fp_go_pointwise R card [g; f'] f [o1; o2] h Hf (Forall_cons _ Hg (Forall_cons _ Hf' (Forall_nil _))) H) as [_ Hev].
  rewrite (Hev a Ha). cbn [map]. unfold prod_list. cbn [fold_right]. rewrite mul_1_r. rewrite <- (He a Ha).
  apply mul_assoc.
Qed.
End Power.
