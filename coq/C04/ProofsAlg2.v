(* axis-order irrelevance for sum / divide / marginalize / maximize / reduce, sum-out order, scalar operands *)
From Coq Require Import List Arith Lia PeanoNat Bool ZArith QArith Qcanon Permutation.
From PV Require Import Base.Semiring Base.Ravel Base.FinSum Base.RefFactor C04.Tensor C04.TensorFacts C04.Model C04.Spec
  C04.ProofsProd C04.ProofsMarg C04.ProofsAlg C04.ProofsReduce C04.ProofsAlign C04.ProofsDivSum.
Import ListNotations.
Local Close Scope Qc_scope.
Local Close Scope Q_scope.
Local Open Scope nat_scope.

Lemma vinter_vminus_disj (l X Y : list var) : (forall v, In v X -> ~ In v Y) -> vinter (vminus l X) Y = vinter l Y.
Proof.
  intros Hd. unfold vinter, vminus. induction l as [|v l IH]; [reflexivity|]. cbn [filter].
  destruct (memv v X) eqn:EX; cbn [negb filter].
  - destruct (memv v Y) eqn:EY; [|exact IH]. exfalso. apply memv_In in EX, EY. exact (Hd v EX EY).
  - destruct (memv v Y); [f_equal|]; exact IH.
Qed.

Section Alg2.
Variable R : csr.
Variable card : var -> nat.
Notation fac := (dfactor R).
Notation deval := (@deval R zero).
Notation dwf := (@dwf R card).
Notation same_meaning := (same_meaning R card).

(* sums over a permuted list of distinct variables *)
Lemma sum_over_perm (l l' : list var) (g : asg -> R) : Permutation l l' -> ext g ->
  forall a, sum_over l (map card l) g a = sum_over l' (map card l') g a.
Proof.
  intros P Hg. induction P as [|x l l' P IH|x y l|l l' l'' P1 IH1 P2 IH2]; intros a.
  - reflexivity.
  - cbn [map sum_over]. apply sum_list_ext. intros i _. apply IH.
  - cbn [map]. destruct (Nat.eq_dec x y) as [->|Hxy]; [reflexivity|].
    refine (sum_over_swap1 R [x] [card x] y (card y) (sum_over l (map card l) g) a _ _).
    + apply sum_over_is_ext. exact Hg.
    + intros [H|[]]. congruence.
  - rewrite IH1. apply IH2.
Qed.

Lemma deval_ext (f : fac) : ext (deval f).
Proof. intros a b Hab. unfold Spec.deval. f_equal. apply map_ext. exact Hab. Qed.

Theorem marginalize_axis_order_irrelevant (f f' : fac) X h h' :
  dwf f -> dwf f' -> same_meaning f f' ->
  marginalize R f X = Ok h -> marginalize R f' X = Ok h' -> same_meaning h h'.
Proof.
  intros Hf Hf' [Hv He] H H'.
  destruct (marginalize_pointwise R card f X h Hf H) as (_ & E & Hev).
  destruct (marginalize_pointwise R card f' X h' Hf' H') as (_ & E' & Hev').
  split.
  - intros v. rewrite E, E'. rewrite !In_vminus. rewrite Hv. reflexivity.
  - intros a Ha. rewrite Hev, Hev' by exact Ha.
    assert (P : Permutation (vinter (dvars f) X) (vinter (dvars f') X)).
    { apply NoDup_Permutation; [apply NoDup_filter; apply Hf|apply NoDup_filter; apply Hf'|].
      intros v. apply vinter_perm_In. exact Hv. }
    rewrite (sum_over_perm _ _ (deval f) P (deval_ext f)).
    apply sum_over_ext_valid; [exact Ha|exact He].
Qed.

Theorem maximize_axis_order_irrelevant (f f' : fac) X h h' :
  dwf f -> dwf f' -> same_meaning f f' ->
  maximize R f X = Ok h -> maximize R f' X = Ok h' -> same_meaning h h'.
Proof.
  intros Hf Hf' S H H'. rewrite (maximize_is_marginalize R card f X Hf) in H.
  rewrite (maximize_is_marginalize R card f' X Hf') in H'.
  exact (marginalize_axis_order_irrelevant f f' X h h' Hf Hf' S H H').
Qed.

Theorem sum_axis_order_irrelevant (f g f' g' : fac) e1 e2 e1' e2' h h' :
  dwf f -> dwf g -> dwf f' -> dwf g' -> same_meaning f f' -> same_meaning g g' ->
  sum R f g e1 e2 = Ok h -> sum R f' g' e1' e2' = Ok h' -> same_meaning h h'.
Proof.
  intros Hf Hg Hf' Hg' [Hv1 He1] [Hv2 He2] H H'.
  destruct (sum_pointwise card R f g e1 e2 h Hf Hg H) as (_ & _ & Hs & _ & Hev).
  destruct (sum_pointwise card R f' g' e1' e2' h' Hf' Hg' H') as (_ & _ & Hs' & _ & Hev').
  split.
  - intros v. rewrite Hs, Hs', Hv1, Hv2. reflexivity.
  - intros a Ha. rewrite Hev, Hev', He1, He2 by exact Ha. reflexivity.
Qed.

(* reduce: same meaning and the same name->number maps *)
Theorem reduce_axis_order_irrelevant (f f' : fac) ev h h' :
  dwf f -> dwf f' -> same_meaning f f' ->
  (forall v nm, name_to_no f v nm = name_to_no f' v nm) ->
  reduce zero f ev = Ok h -> reduce zero f' ev = Ok h' -> same_meaning h h'.
Proof.
  intros Hf Hf' [Hv He] Hnm H H'.
  destruct (reduce_pointwise zero card f ev h Hf H) as (_ & E & _ & Hidx & Hev).
  destruct (reduce_pointwise zero card f' ev h' Hf' H') as (_ & E' & _ & _ & Hev').
  assert (Hrn : reduce_numbers f ev = reduce_numbers f' ev).
  { unfold reduce_numbers. f_equal.
    assert (Ht : forall l : list (var * name),
      traverse_res (fun p : var * name => match name_to_no f (fst p) (snd p) with Some i => Ok (fst p, Z.of_nat i) | None => Err ErrKey end) l =
      traverse_res (fun p : var * name => match name_to_no f' (fst p) (snd p) with Some i => Ok (fst p, Z.of_nat i) | None => Err ErrKey end) l).
    { induction l as [|p l IH]; [reflexivity|]. cbn [traverse_res]. rewrite Hnm, IH. reflexivity. }
    rewrite Ht. reflexivity. }
  split.
  - intros v. rewrite E, E'. rewrite !In_vminus. rewrite Hv. reflexivity.
  - intros a Ha. rewrite Hev, Hev' by exact Ha.
    assert (Hra : forall v, red_asg card f ev a v = red_asg card f' ev a v).
    { intros v. unfold red_asg, red_idx. rewrite Hrn. reflexivity. }
    rewrite (deval_ext f' _ _ (fun v => eq_sym (Hra v))). apply He.
    intros v. unfold red_asg. destruct (red_idx card f ev v) as [i|] eqn:Ei; [|apply Ha].
    unfold red_idx in Ei. destruct (ev_last v (reduce_numbers f ev)); [|discriminate]. apply (py_index_lt _ _ _ Ei).
Qed.

(* summing out X then Y equals summing out Y then X (disjoint X, Y), on the literal model *)
Theorem sum_out_order_irrelevant (f : fac) X Y h1 h2 k1 k2 :
  dwf f -> (forall v, In v X -> ~ In v Y) ->
  marginalize R f X = Ok h1 -> marginalize R h1 Y = Ok h2 ->
  marginalize R f Y = Ok k1 -> marginalize R k1 X = Ok k2 -> same_meaning h2 k2.
Proof.
  intros Hf Hd H1 H2 K1 K2.
  destruct (marginalize_pointwise R card f X h1 Hf H1) as (Hh1 & E1 & Ev1).
  destruct (marginalize_pointwise R card h1 Y h2 Hh1 H2) as (_ & E2 & Ev2).
  destruct (marginalize_pointwise R card f Y k1 Hf K1) as (Hk1 & F1 & Fv1).
  destruct (marginalize_pointwise R card k1 X k2 Hk1 K2) as (_ & F2 & Fv2).
  assert (Hys : vinter (dvars h1) Y = vinter (dvars f) Y) by (rewrite E1; apply vinter_vminus_disj; exact Hd).
  assert (Hxs : vinter (dvars k1) X = vinter (dvars f) X).
  { rewrite F1. apply vinter_vminus_disj. intros v Hv Hv2. exact (Hd v Hv2 Hv). }
  split.
  - intros v. rewrite E2, F2, E1, F1. rewrite !In_vminus. tauto.
  - intros a Ha. rewrite Ev2, Fv2 by exact Ha. rewrite Hys, Hxs.
    rewrite (sum_over_ext_valid R card (vinter (dvars f) Y) (deval h1) _ a Ha Ev1).
    rewrite (sum_over_ext_valid R card (vinter (dvars f) X) (deval k1) _ a Ha Fv1).
    apply sum_over_swap.
    + apply deval_ext.
    + intros v Hv Hv2. apply filter_In in Hv, Hv2. destruct Hv as [_ Hv], Hv2 as [_ Hv2].
      apply memv_In in Hv, Hv2. exact (Hd v Hv2 Hv).
    + symmetry. apply map_length.
Qed.

(* scalar operands: phi * c and phi + c *)
Lemma tget_tmap (F : R -> R) (t : tensor R) idx : twf t -> in_range (tshape t) idx ->
  tget zero (t_map F t) idx = F (tget zero t idx).
Proof.
  intros Hw Hr. unfold tget, t_map, t_get. cbn [tshape tdata]. pose proof (ravel_lt _ _ Hr) as Hlt.
  rewrite (nth_indep _ zero (F zero)) by (rewrite map_length, Hw; exact Hlt). apply map_nth.
Qed.
Theorem product_scalar_pointwise (f : fac) c a : dwf f -> valid card a ->
  deval (product_scalar R f c) a = mul (deval f a) c.
Proof.
  intros (Hn & Hc & Hs & Hw) Ha. unfold Spec.deval, product_scalar. cbn [dvars dvals].
  apply (tget_tmap (fun x => mul x c)); [exact Hw|]. rewrite Hs, Hc. apply in_range_map. intros v _. apply Ha.
Qed.
Theorem sum_scalar_pointwise (f : fac) c a : dwf f -> valid card a ->
  deval (sum_scalar R f c) a = add (deval f a) c.
Proof.
  intros (Hn & Hc & Hs & Hw) Ha. unfold Spec.deval, sum_scalar. cbn [dvars dvals].
  apply (tget_tmap (fun x => add x c)); [exact Hw|]. rewrite Hs, Hc. apply in_range_map. intros v _. apply Ha.
Qed.
End Alg2.

(* divide: axis-order irrelevance *)
Theorem divide_axis_order_irrelevant (card : var -> nat) (dx : xq) (f g f' g' : dfactor Qc) e e' h h' :
  dwf card f -> dwf card g -> dwf card f' -> dwf card g' ->
  same_meaning Qc_sum_csr card f f' -> same_meaning Qc_sum_csr card g g' ->
  divide f g e = Ok h -> divide f' g' e' = Ok h' ->
  (forall v, In v (dvars h) <-> In v (dvars h')) /\ forall a, valid card a -> deval dx h a = deval dx h' a.
Proof.
  intros Hf Hg Hf' Hg' [Hv1 He1] [Hv2 He2] H H'.
  destruct (divide_pointwise card dx f g e h Hf Hg H) as (_ & E & _ & _ & Hev).
  destruct (divide_pointwise card dx f' g' e' h' Hf' Hg' H') as (_ & E' & _ & _ & Hev').
  split; [intros v; rewrite E, E'; apply Hv1|].
  intros a Ha. rewrite Hev, Hev' by exact Ha. f_equal; [apply (He1 a Ha)|apply (He2 a Ha)].
Qed.
