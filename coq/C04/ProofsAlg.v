(* corollaries: axis-order irrelevance, algebraic laws up to evaluation, named-assignment form *)
From Coq Require Import List Arith Lia PeanoNat Bool ZArith.
From PV Require Import Base.Semiring Base.Ravel Base.FinSum Base.RefFactor C04.Tensor C04.TensorFacts C04.Model C04.Spec C04.ProofsProd C04.ProofsMarg.
Import ListNotations.

Section Alg.
Variable R : csr.
Variable card : var -> nat.
Notation fac := (dfactor R).
Notation deval := (@deval R zero).
Notation dwf := (@dwf R card).

(* two factors with the same meaning: same variable SET and the same value at every valid assignment
   (e.g. the same factor with its variables listed in another order and the table transposed) *)
Definition same_meaning (f f' : fac) : Prop :=
  (forall v, In v (dvars f) <-> In v (dvars f')) /\ forall a, valid card a -> deval f a = deval f' a.

Lemma sum_over_ext_valid vs : forall (g h : asg -> R) a, valid card a ->
  (forall b, valid card b -> g b = h b) ->
  sum_over vs (map card vs) g a = sum_over vs (map card vs) h a.
Proof.
  induction vs as [|v vs IH]; intros g h a Ha H; [apply H; exact Ha|]. cbn [map sum_over].
  apply sum_list_ext. intros i Hi. apply in_seq in Hi. apply IH; [|exact H].
  apply valid_upd; [exact Ha|lia].
Qed.

Theorem product_axis_order_irrelevant (f g f' g' : fac) o o' h h' :
  dwf f -> dwf g -> dwf f' -> dwf g' -> same_meaning f f' -> same_meaning g g' ->
  product R f g o = Ok h -> product R f' g' o' = Ok h' -> same_meaning h h'.
Proof.
  intros Hf Hg Hf' Hg' [Hv1 He1] [Hv2 He2] H H'.
  destruct (product_pointwise R card f g o h Hf Hg H) as (_ & _ & Hs & _ & Hev).
  destruct (product_pointwise R card f' g' o' h' Hf' Hg' H') as (_ & _ & Hs' & _ & Hev').
  split.
  - intros v. destruct (product_pointwise R card f g o h Hf Hg H) as (_ & E & _).
    destruct (product_pointwise R card f' g' o' h' Hf' Hg' H') as (_ & E' & _).
    rewrite E, E', Hs, Hs', Hv1, Hv2. reflexivity.
  - intros a Ha. rewrite Hev, Hev', He1, He2 by exact Ha. reflexivity.
Qed.

Lemma vinter_perm_In (l l' X : list var) v : (forall w, In w l <-> In w l') -> In v (vinter l X) <-> In v (vinter l' X).
Proof. intros H. unfold vinter. rewrite !filter_In, H. reflexivity. Qed.

(* product is commutative and associative up to evaluation, whatever the set orders *)
Theorem product_comm_eval (f g : fac) o o' h h' a :
  dwf f -> dwf g -> product R f g o = Ok h -> product R g f o' = Ok h' -> valid card a -> deval h a = deval h' a.
Proof.
  intros Hf Hg H H' Ha.
  destruct (product_pointwise R card f g o h Hf Hg H) as (_ & _ & _ & _ & Hev).
  destruct (product_pointwise R card g f o' h' Hg Hf H') as (_ & _ & _ & _ & Hev').
  rewrite Hev, Hev' by exact Ha. apply mul_comm.
Qed.
Theorem product_assoc_eval (f g k : fac) o1 o2 o3 o4 fg fg_k gk f_gk a :
  dwf f -> dwf g -> dwf k ->
  product R f g o1 = Ok fg -> product R fg k o2 = Ok fg_k ->
  product R g k o3 = Ok gk -> product R f gk o4 = Ok f_gk -> valid card a -> deval fg_k a = deval f_gk a.
Proof.
  intros Hf Hg Hk H1 H2 H3 H4 Ha.
  destruct (product_pointwise R card f g o1 fg Hf Hg H1) as (Hfg & _ & _ & _ & E1).
  destruct (product_pointwise R card fg k o2 fg_k Hfg Hk H2) as (_ & _ & _ & _ & E2).
  destruct (product_pointwise R card g k o3 gk Hg Hk H3) as (Hgk & _ & _ & _ & E3).
  destruct (product_pointwise R card f gk o4 f_gk Hf Hgk H4) as (_ & _ & _ & _ & E4).
  rewrite E2, E1, E4, E3 by exact Ha. symmetry. apply mul_assoc.
Qed.

(* n-ary fold of factors/base.py: value = product of the operand values *)
Theorem fp_go_pointwise (r : list fac) : forall (acc : fac) os h, dwf acc -> Forall dwf r ->
  fp_go R acc r os = Ok h ->
  dwf h /\ forall a, valid card a -> deval h a = mul (deval acc a) (prod_list (map (fun g => deval g a) r)).
Proof.
  induction r as [|g r IH]; intros acc os h Hacc Hr H.
  - simpl in H. inversion H; subst. split; [exact Hacc|]. intros a _. simpl. symmetry. apply mul_1_r.
  - inversion Hr as [|? ? Hg Hr']; subst. destruct os as [|o os]; [discriminate|]. cbn [fp_go] in H.
    destruct (product R acc g o) as [acc'|e] eqn:E; [|discriminate]. cbn [bind] in H.
    destruct (product_pointwise R card acc g o acc' Hacc Hg E) as (Hacc' & _ & _ & _ & Hev).
    destruct (IH acc' os h Hacc' Hr' H) as [Hh Hev2]. split; [exact Hh|].
    intros a Ha. rewrite Hev2, Hev by exact Ha. cbn [map]. unfold prod_list. cbn [fold_right]. symmetry. apply mul_assoc.
Qed.
End Alg.
