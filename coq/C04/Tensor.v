(* numpy/torch primitives used by DiscreteFactor, each DEFINED BY ITS DOCUMENTED MEANING through
   [t_build] (Base/Ravel.v) and characterised by a [tget] lemma.  A tensor is a shape and a flat
   row-major (C order) data list.  pgmpy's own choice of axes / index lists on top of these
   primitives lives in Model.v. *)
From Coq Require Import List Arith Lia PeanoNat Bool.
From PV Require Import Base.Semiring Base.Ravel Base.FinSum Base.RefFactor.
Import ListNotations.

(* ---------------------------------------------------------------- list helpers *)
Section Pos.
Context {A : Type} (eqb : A -> A -> bool).
(* l.index(x); = length l when absent (callers test membership first, as Python raises) *)
Fixpoint index_of (x : A) (l : list A) : nat :=
  match l with [] => 0 | y :: r => if eqb y x then 0 else S (index_of x r) end.
Definition mem_of (x : A) (l : list A) : bool := existsb (fun y => eqb y x) l.
End Pos.

Definition posn := index_of Nat.eqb.

Fixpoint set_nth {A} (k : nat) (x : A) (l : list A) : list A :=
  match l, k with
  | [], _ => []
  | _ :: r, 0 => x :: r
  | y :: r, S k' => y :: set_nth k' x r
  end.

Fixpoint map2 {A B C} (f : A -> B -> C) (l1 : list A) (l2 : list B) : list C :=
  match l1, l2 with a :: r1, b :: r2 => f a b :: map2 f r1 r2 | _, _ => [] end.

(* the transposition (i j) on positions, and on lists *)
Definition swapf (i j k : nat) : nat := if Nat.eqb k i then j else if Nat.eqb k j then i else k.
Definition swapl {A} (d : A) (i j : nat) (l : list A) : list A :=
  map (fun k => nth (swapf i j k) l d) (seq 0 (length l)).

(* gather: the list [l[p] for p in ps] *)
Definition gather {A} (d : A) (ps : list nat) (l : list A) : list A := map (fun p => nth p l d) ps.

(* integer-or-slice(None) indexing: [fill sl idx'] is the full index addressed by the reduced index idx' *)
Fixpoint fill (sl : list (option nat)) (idx : list nat) : list nat :=
  match sl with
  | [] => []
  | Some s :: sl' => s :: fill sl' idx
  | None :: sl' => match idx with i :: idx' => i :: fill sl' idx' | [] => 0 :: fill sl' [] end
  end.
Fixpoint kept_dims (sl : list (option nat)) (sh : list nat) : list nat :=
  match sl, sh with
  | Some _ :: sl', _ :: sh' => kept_dims sl' sh'
  | None :: sl', d :: sh' => d :: kept_dims sl' sh'
  | _, _ => []
  end.
Fixpoint slice_okb (sl : list (option nat)) (sh : list nat) : bool :=
  match sl, sh with
  | [], [] => true
  | Some s :: sl', d :: sh' => (s <? d) && slice_okb sl' sh'
  | None :: sl', _ :: sh' => slice_okb sl' sh'
  | _, _ => false
  end.

(* broadcasting of two equal-rank shapes *)
Definition bdim (d1 d2 : nat) : nat := if Nat.eqb d1 1 then d2 else d1.
Definition bcompatb (d1 d2 : nat) : bool := Nat.eqb d1 d2 || Nat.eqb d1 1 || Nat.eqb d2 1.
Definition clip (sh idx : list nat) : list nat := map2 (fun d i => if Nat.eqb d 1 then 0 else i) sh idx.
Fixpoint shapes_compatb (s1 s2 : list nat) : bool :=
  match s1, s2 with
  | [], [] => true
  | a :: r1, b :: r2 => bcompatb a b && shapes_compatb r1 r2
  | _, _ => false
  end.

(* ---------------------------------------------------------------- tensors over any element type *)
Section Poly.
Context {A : Type} (d : A).

Record tensor := { tshape : list nat; tdata : list A }.
Definition tget (t : tensor) (idx : list nat) : A := t_get A d (tshape t) (tdata t) idx.
Definition tbuild (sh : list nat) (f : list nat -> A) : tensor := {| tshape := sh; tdata := t_build A sh f |}.
Definition twf (t : tensor) : Prop := length (tdata t) = prod (tshape t).
Definition trank (t : tensor) : nat := length (tshape t).

(* np.array(flat).reshape(shape): same data *)
Definition t_reshape (sh : list nat) (t : tensor) : tensor := {| tshape := sh; tdata := tdata t |}.
(* a[..., None, None]: k new axes of size 1 at the end (a reshape) *)
Definition t_expand (k : nat) (t : tensor) : tensor := t_reshape (tshape t ++ repeat 1 k) t.
(* a.swapaxes(i, j) *)
Definition t_swapaxes (i j : nat) (t : tensor) : tensor :=
  tbuild (swapl 0 i j (tshape t)) (fun idx => tget t (swapl 0 i j idx)).
(* np.transpose(a, axes): result axis k is source axis axes[k] *)
Definition t_transpose (axes : list nat) (t : tensor) : tensor :=
  tbuild (gather 0 axes (tshape t))
         (fun idx => tget t (map (fun j => nth (posn j axes) idx 0) (seq 0 (trank t)))).
(* a[sl] with an integer on some axes and slice(None) on the others *)
Definition t_slice (sl : list (option nat)) (t : tensor) : tensor :=
  tbuild (kept_dims sl (tshape t)) (fun idx => tget t (fill sl idx)).
(* a[:, ..., ref, ..., :] : an integer list on one axis (np.take(a, ref, axis)) *)
Definition t_take (ax : nat) (ref : list nat) (t : tensor) : tensor :=
  tbuild (set_nth ax (length ref) (tshape t))
         (fun idx => tget t (set_nth ax (nth (nth ax idx 0) ref 0) idx)).
(* elementwise map *)
Definition t_map (f : A -> A) (t : tensor) : tensor := {| tshape := tshape t; tdata := map f (tdata t) |}.
End Poly.

Arguments tensor A : clear implicits.

(* broadcasting elementwise binary operation  a (op) b  for equal-rank operands *)
Definition t_bop {A B C} (da : A) (db : B) (op : A -> B -> C) (t1 : tensor A) (t2 : tensor B) : tensor C :=
  tbuild (map2 bdim (tshape t1) (tshape t2))
         (fun idx => op (tget da t1 (clip (tshape t1) idx)) (tget db t2 (clip (tshape t2) idx))).

(* ---------------------------------------------------------------- csr-valued: einsum, reductions *)
Section Csr.
Variable R : csr.
Notation tens := (tensor R).

Definition operand := (tens * list nat)%type.

Fixpoint ldim_in (lab : nat) (l sh : list nat) : option nat :=
  match l, sh with
  | x :: l', dd :: sh' => if Nat.eqb x lab then Some dd else ldim_in lab l' sh'
  | _, _ => None
  end.
(* size of a label = size of the first operand axis carrying it *)
Fixpoint ldim (ops : list operand) (lab : nat) : nat :=
  match ops with
  | [] => 1
  | o :: r => match ldim_in lab (snd o) (tshape (fst o)) with Some dd => dd | None => ldim r lab end
  end.
Definition all_labels (ops : list operand) : list nat := concat (map snd ops).
Definition summed_labels (ops : list operand) (out : list nat) : list nat :=
  nodup Nat.eq_dec (filter (fun x => negb (memv x out)) (all_labels ops)).
Definition ein_term (ops : list operand) (a : asg) : R :=
  prod_list (map (fun o : operand => tget zero (fst o) (map a (snd o))) ops).

(* einsum(op1, labels1, op2, labels2, ..., out):
   out[idx] = SUM over the labels not in out of PROD_k op_k[labels_k]   (numpy "sublist" format) *)
Definition t_einsum (ops : list operand) (out : list nat) : tens :=
  let s := summed_labels ops out in
  tbuild (map (ldim ops) out)
         (fun idx => sum_over s (map (ldim ops) s) (ein_term ops) (asg_of out idx)).

(* numpy rejects operands whose label list does not match the rank, labels used with two different
   sizes, output labels that occur in no operand or twice *)
Fixpoint dims_okb (ops : list operand) (l sh : list nat) : bool :=
  match l, sh with
  | [], [] => true
  | x :: l', dd :: sh' => Nat.eqb (ldim ops x) dd && dims_okb ops l' sh'
  | _, _ => false
  end.
Fixpoint nodupb (l : list nat) : bool :=
  match l with [] => true | x :: r => negb (memv x r) && nodupb r end.
Definition einsum_okb (ops : list operand) (out : list nat) : bool :=
  forallb (fun o : operand => dims_okb ops (snd o) (tshape (fst o))) ops
  && forallb (fun x => memv x (all_labels ops)) out && nodupb out.

(* np.sum / np.max (the csr's addition) over the given axes: out[kept idx] = SUM over the removed axes,
   i.e. einsum(a, range(n), kept) for that addition *)
Definition t_reduce_axes (axes : list nat) (t : tens) : tens :=
  let n := trank t in
  t_einsum [(t, seq 0 n)] (filter (fun k => negb (memv k axes)) (seq 0 n)).

(* a.sum() *)
Definition t_total (t : tens) : R := sum_list (tdata t).
End Csr.
