(* __hash__ versus __eq__ *)
From Coq Require Import List Arith Lia PeanoNat Bool ZArith QArith Qcanon.
From PV Require Import Base.Semiring Base.Ravel Base.FinSum Base.RefFactor C04.Tensor C04.TensorFacts C04.Model C04.Spec
  C04.ProofsProd C04.ProofsEqAll.
Import ListNotations.
Local Close Scope Qc_scope.
Local Close Scope Q_scope.
Local Open Scope nat_scope.

(* PARTIAL: factors that list their variables in the SAME order, agree at every state index (exact equality) and have
   the same state-name dict keys have the same hash key - whatever the hashes of the variable names are.
   Missing for the full statement (axis-permuted equal factors): canonicity of the sort of the variable hashes and the
   hash-driven alignment loop (a Z-keyed copy of C04_align_loop).  It CANNOT be extended to factors equal up to state
   order: see hash_eq_inconsistent below. *)
Theorem hash_respects_eq_same_axes (card : var -> nat) (hv : var -> Z) (f g : dfactor Qc) :
  dwf card f -> dwf card g -> dvars f = dvars g -> dkeys (dstates f) = dkeys (dstates g) ->
  (forall a, (forall v, In v (dvars f) -> a v < card v) -> deval 0%Qc f a = deval 0%Qc g a) ->
  hash_key hv f = hash_key hv g.
Proof.
  intros (Hn & Hc & Hs & Hw) (Hn' & Hc' & Hs' & Hw') Hv Hk He.
  assert (Hcard : dcard f = dcard g) by (rewrite Hc, Hc', Hv; reflexivity).
  assert (Hvals : dvals f = dvals g).
  { apply (tensor_ext 0%Qc); [exact Hw|exact Hw'|rewrite Hs, Hs'; exact Hcard|].
    intros idx Hr. rewrite Hs, Hc in Hr.
    set (a := asg_of (dvars f) idx).
    assert (Hidx : map a (dvars f) = idx) by (apply map_asg_of; [exact Hn|rewrite (in_range_length _ _ Hr), map_length; reflexivity]).
    assert (Ha : forall v, In v (dvars f) -> a v < card v).
    { rewrite <- Hidx in Hr. exact (in_range_map_inv card a (dvars f) Hr). }
    specialize (He a Ha). unfold deval in He. rewrite <- Hv, Hidx in He. exact He. }
  unfold hash_key. rewrite Hv, Hcard, Hvals, Hk. reflexivity.
Qed.

(* REFUTED for state permutations: two factors that the modelled == declares equal (even with zero tolerance) - the same
   function on named assignments, states listed in another order - have different hash keys (the table bytes differ).
   pgmpy behaves the same: DiscreteFactor(['A'],[2],[1,2],{'A':['x','y']}) == DiscreteFactor(['A'],[2],[2,1],{'A':['y','x']})
   is True while their hashes differ. *)
Theorem hash_eq_inconsistent :
  exists (f g : dfactor Qc) (hv : var -> Z),
    factor_eqb 0%Qc 0%Qc f g = Ok true /\ hash_key hv f <> hash_key hv g.
Proof.
  exists {| dvars := [0]; dcard := [2]; dstates := [(0, [10%Z; 20%Z])]; dvals := {| tshape := [2]; tdata := [1%Qc; (1 + 1)%Qc] |} |},
         {| dvars := [0]; dcard := [2]; dstates := [(0, [20%Z; 10%Z])]; dvals := {| tshape := [2]; tdata := [(1 + 1)%Qc; 1%Qc] |} |},
         (fun _ => 7%Z).
  split; [vm_compute; reflexivity|]. vm_compute. intros H. inversion H.
Qed.
