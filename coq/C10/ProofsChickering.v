(* C10 proofs, part 9: Chickering's transformation theorem (Chickering 1995, "A transformation
   characterization of equivalent Bayesian network structures"), for graphs of any size:
   two DAGs with the same skeleton and the same v-structures are connected by a sequence of covered-arc
   reversals, every intermediate graph being a DAG of the same class; hence BDeu, BIC and AIC give them the
   same score(model), as formal sums, for every data set.

   A DAG is an edge list with a rank function that increases along every edge (equivalent to the path-based
   acyclicity of Base/Graph.v for well-formed graphs: [acyclic_ranked] / [ranked_acyclic] below). *)
From Coq Require Import List Bool Arith Lia Relations Permutation.
From PV Require Import Base.Formal C10.Model C10.Spec C10.Counts C10.Closed C10.Cache C10.ParentOrder
  C10.Equiv C10.Chain.
Import ListNotations.

(* ---------------------------------------------------------------- notions (edge lists over nat) *)
Definition adjP (g : list (nat * nat)) (u v : nat) : Prop := In (u, v) g \/ In (v, u) g.
(* v-structure a -> c <- b with a, b distinct and non-adjacent *)
Definition vsP (g : list (nat * nat)) (a b c : nat) : Prop :=
  In (a, c) g /\ In (b, c) g /\ a <> b /\ ~ adjP g a b.
Definition meq (g h : list (nat * nat)) : Prop :=
  (forall u v, adjP g u v <-> adjP h u v) /\ (forall a b c, vsP g a b c <-> vsP h a b c).
Definition ranked (ord : nat -> nat) (g : list (nat * nat)) : Prop := forall u v, In (u, v) g -> ord u < ord v.
Definition is_dag (g : list (nat * nat)) : Prop := exists ord, ranked ord g.
(* no repeated arc, endpoints among 0..n-1 *)
Definition simple (n : nat) (g : list (nat * nat)) : Prop :=
  NoDup g /\ forall u v, In (u, v) g -> u < n /\ v < n.
Definition same_edges (g h : list (nat * nat)) : Prop := forall e, In e g <-> In e h.

Lemma meq_refl : forall g, meq g g.
Proof. intros g; split; intros; reflexivity. Qed.
Lemma meq_sym : forall g h, meq g h -> meq h g.
Proof. intros g h [H1 H2]; split; intros; symmetry; auto. Qed.
Lemma meq_trans : forall g h k, meq g h -> meq h k -> meq g k.
Proof.
  intros g h k [H1 H2] [H3 H4]; split; intros.
  - rewrite H1. apply H3.
  - rewrite H2. apply H4.
Qed.

Lemma has_edge_In : forall g u v, has_edge g u v = true <-> In (u, v) g.
Proof.
  intros. unfold has_edge. rewrite existsb_exists. split.
  - intros [e [H1 H2]]. apply edge_eqb_iff in H2. subst. assumption.
  - intros H. exists (u, v). split; [assumption | apply edge_eqb_iff; reflexivity].
Qed.
Lemma edge_dec : forall (g : list (nat * nat)) u v, In (u, v) g \/ ~ In (u, v) g.
Proof.
  intros. destruct (has_edge g u v) eqn:E.
  - left. apply has_edge_In. assumption.
  - right. intros H. apply has_edge_In in H. congruence.
Qed.
Lemma adjP_dec : forall g u v, adjP g u v \/ ~ adjP g u v.
Proof.
  intros. unfold adjP. destruct (edge_dec g u v); [tauto|]. destruct (edge_dec g v u); tauto.
Qed.

(* ---------------------------------------------------------------- minimum / maximum over a list *)
Lemma exists_min : forall A (f : A -> nat) (l : list A), l <> [] ->
  exists a, In a l /\ forall b, In b l -> f a <= f b.
Proof.
  induction l as [|a l IH]; intros H; [congruence|]. destruct l as [|a' l].
  - exists a. split; [left; reflexivity|]. intros b [<-|[]]. lia.
  - destruct IH as [m [Hm1 Hm2]]; [discriminate|].
    destruct (le_lt_dec (f a) (f m)).
    + exists a. split; [left; reflexivity|]. intros b [<-|Hb]; [lia|]. specialize (Hm2 b Hb). lia.
    + exists m. split; [right; assumption|]. intros b [<-|Hb]; [lia|]. apply Hm2; assumption.
Qed.
Lemma exists_max : forall A (f : A -> nat) (l : list A), l <> [] ->
  exists a, In a l /\ forall b, In b l -> f b <= f a.
Proof.
  induction l as [|a l IH]; intros H; [congruence|]. destruct l as [|a' l].
  - exists a. split; [left; reflexivity|]. intros b [<-|[]]. lia.
  - destruct IH as [m [Hm1 Hm2]]; [discriminate|].
    destruct (le_lt_dec (f m) (f a)).
    + exists a. split; [left; reflexivity|]. intros b [<-|Hb]; [lia|]. specialize (Hm2 b Hb). lia.
    + exists m. split; [right; assumption|]. intros b [<-|Hb]; [lia|]. apply Hm2; assumption.
Qed.

(* ---------------------------------------------------------------- Find-Edge *)
(* the arcs of g that are reversed in h *)
Definition diff (g h : list (nat * nat)) : list (nat * nat) :=
  filter (fun e => has_edge h (snd e) (fst e)) g.
Lemma in_diff : forall g h u v, In (u, v) (diff g h) <-> In (u, v) g /\ In (v, u) h.
Proof. intros. unfold diff. rewrite filter_In. simpl. rewrite has_edge_In. reflexivity. Qed.

(* X -> Y covered in g, Prop form: Pa(Y) = Pa(X) + {X} *)
Definition coveredP (g : list (nat * nat)) (x y : nat) : Prop :=
  (forall z, In (z, x) g -> In (z, y) g) /\ (forall w, In (w, y) g -> w <> x -> In (w, x) g).

(* Chickering's Find-Edge: y = a head of a differing arc that is minimal in a topological order of g,
   x = a maximal differing parent of y; the arc x -> y is covered in g *)
Lemma find_edge : forall og oh g h, ranked og g -> ranked oh h -> meq g h -> diff g h <> [] ->
  exists x y, In (x, y) g /\ In (y, x) h /\ coveredP g x y.
Proof.
  intros og oh g h Rg Rh [Hsk Hvs] Hne.
  destruct (exists_min _ (fun e => og (snd e)) (diff g h) Hne) as [[x0 y] [Hin0 Hmin]].
  set (Dy := filter (fun e => Nat.eqb (snd e) y) (diff g h)).
  assert (HneY : Dy <> []).
  { intros E. assert (Hi : In (x0, y) Dy) by (apply filter_In; split; [assumption | simpl; apply Nat.eqb_refl]).
    rewrite E in Hi. destruct Hi. }
  destruct (exists_max _ (fun e => og (fst e)) Dy HneY) as [[x y'] [Hin1 Hmax]].
  apply filter_In in Hin1. destruct Hin1 as [Hin1 Ey]. simpl in Ey. apply Nat.eqb_eq in Ey. subst y'.
  apply in_diff in Hin1. destruct Hin1 as [Hxy Hyx].
  assert (Min : forall a b, In (a, b) g -> In (b, a) h -> og y <= og b).
  { intros a b H1 H2. apply (Hmin (a, b)). apply in_diff. split; assumption. }
  assert (Max : forall a, In (a, y) g -> In (y, a) h -> og a <= og x).
  { intros a H1 H2. apply (Hmax (a, y)). apply filter_In. split; [apply in_diff; split; assumption | simpl; apply Nat.eqb_refl]. }
  (* an arc of g whose head comes before y in the order has the same direction in h *)
  assert (F1 : forall a b, In (a, b) g -> og b < og y -> In (a, b) h).
  { intros a b H1 H2. assert (Ha : adjP h a b) by (apply Hsk; left; assumption).
    destruct Ha as [Ha|Ha]; [assumption|]. specialize (Min a b H1 Ha). lia. }
  pose proof (Rg x y Hxy) as Oxy. pose proof (Rh y x Hyx) as Oyx.
  exists x, y. split; [assumption|]. split; [assumption|]. split.
  - (* every parent of x is a parent of y *)
    intros z Hzx. pose proof (Rg z x Hzx) as Ozx.
    assert (Hzxh : In (z, x) h) by (apply F1; [assumption | lia]).
    destruct (adjP_dec g z y) as [[Hzy|Hyz]|Hn].
    + assumption.
    + pose proof (Rg y z Hyz). lia.
    + exfalso. assert (Hv : vsP h z y x).
      { split; [assumption|]. split; [assumption|]. split; [intros ->; lia|]. intros Ha. apply Hn. apply Hsk. assumption. }
      apply Hvs in Hv. destruct Hv as [_ [Hyxg _]]. pose proof (Rg y x Hyxg). lia.
  - (* every other parent of y is a parent of x *)
    intros w Hwy Hwx. pose proof (Rg w y Hwy) as Owy.
    destruct (adjP_dec g w x) as [[Hwxg|Hxw]|Hn].
    + assumption.
    + exfalso. pose proof (Rg x w Hxw) as Oxw.
      assert (Hxwh : In (x, w) h) by (apply F1; [assumption | lia]).
      assert (Ha : adjP h w y) by (apply Hsk; left; assumption).
      destruct Ha as [Ha|Ha].
      * pose proof (Rh x w Hxwh). pose proof (Rh w y Ha). lia.
      * specialize (Max w Hwy Ha). lia.
    + exfalso. assert (Hv : vsP g w x y).
      { split; [assumption|]. split; [assumption|]. split; assumption. }
      apply Hvs in Hv. destruct Hv as [_ [Hxyh _]]. pose proof (Rh x y Hxyh). lia.
Qed.

(* ---------------------------------------------------------------- one reversal *)
Lemma in_reverse : forall g x y u v, In (x, y) g ->
  (In (u, v) (reverse_edge g (x, y)) <-> (u, v) = (y, x) \/ (In (u, v) g /\ (u, v) <> (x, y))).
Proof.
  intros g x y u v Hxy. unfold reverse_edge. rewrite in_map_iff. simpl. split.
  - intros [e [He Hin]]. destruct (edge_eqb (x, y) e) eqn:E.
    + left. symmetry. assumption.
    + right. subst e. split; [assumption|]. intros E'. rewrite E' in E.
      rewrite (proj2 (edge_eqb_iff (x, y) (x, y)) eq_refl) in E. discriminate.
  - intros [E|[Hin Hne]].
    + exists (x, y). split; [|assumption]. rewrite (proj2 (edge_eqb_iff (x, y) (x, y)) eq_refl). symmetry. assumption.
    + exists (u, v). split; [|assumption]. destruct (edge_eqb (x, y) (u, v)) eqn:E; [|reflexivity].
      apply edge_eqb_iff in E. congruence.
Qed.

Section Step.
  Variables (g : list (nat * nat)) (x y : nat) (og : nat -> nat).
  Hypothesis Rg : ranked og g.
  Hypothesis Hxy : In (x, y) g.
  Hypothesis Hcov : coveredP g x y.
  Let g' := reverse_edge g (x, y).

  Lemma xy_neq : x <> y.
  Proof. intros E. pose proof (Rg x y Hxy). subst. lia. Qed.

  Lemma step_adj : forall u v, adjP g' u v <-> adjP g u v.
  Proof.
    intros u v. unfold adjP, g'. rewrite !(in_reverse g x y _ _ Hxy). split.
    - intros [[E|[H _]]|[E|[H _]]]; try tauto; inversion E; subst; tauto.
    - intros [H|H].
      + destruct (Nat.eq_dec u x) as [->|Nu]; [destruct (Nat.eq_dec v y) as [->|Nv]|].
        * right. left. reflexivity.
        * left. right. split; [assumption | congruence].
        * left. right. split; [assumption | congruence].
      + destruct (Nat.eq_dec v x) as [->|Nv]; [destruct (Nat.eq_dec u y) as [->|Nu]|].
        * left. left. reflexivity.
        * right. right. split; [assumption | congruence].
        * right. right. split; [assumption | congruence].
  Qed.

  Lemma step_ranked : ranked (fun v => if Nat.eqb v y then 2 * og x + 1 else 2 * og v + 2) g'.
  Proof.
    intros u v H. apply (in_reverse g x y u v Hxy) in H. pose proof xy_neq as N. pose proof (Rg x y Hxy) as Oxy.
    destruct H as [E|[H Hne]].
    - inversion E; subst. rewrite Nat.eqb_refl. destruct (Nat.eqb_spec x y); [congruence | lia].
    - pose proof (Rg u v H) as Ouv.
      destruct (Nat.eqb_spec u y) as [->|Nu]; destruct (Nat.eqb_spec v y) as [->|Nv]; try lia.
      assert (Hux : u <> x) by (intros ->; apply Hne; reflexivity).
      pose proof (Rg u x (proj2 Hcov u H Hux)). lia.
  Qed.

  Lemma step_vs : forall a b c, vsP g' a b c <-> vsP g a b c.
  Proof.
    intros a b c. unfold vsP. rewrite step_adj. unfold g'. rewrite !(in_reverse g x y _ _ Hxy).
    destruct Hcov as [Ca Cb]. pose proof xy_neq as N. split.
    - intros [[E|[H1 _]] [[E'|[H2 _]] [Hab Hn]]].
      + inversion E; inversion E'; subst. congruence.
      + inversion E; subst. exfalso. apply Hn. right. apply Ca. assumption.
      + inversion E'; subst. exfalso. apply Hn. left. apply Ca. assumption.
      + tauto.
    - intros [H1 [H2 [Hab Hn]]]. repeat split; auto.
      + right. split; [assumption|]. intros E. inversion E; subst. apply Hn. right. apply Cb; [assumption | congruence].
      + right. split; [assumption|]. intros E. inversion E; subst. apply Hn. left. apply Cb; [assumption | congruence].
  Qed.

  Lemma step_meq : meq g g'.
  Proof. split; intros; [rewrite step_adj | rewrite step_vs]; reflexivity. Qed.

  Lemma step_covered : covered g (x, y) = true.
  Proof.
    destruct Hcov as [Ca Cb]. unfold covered, same_set, parents_of. cbn [fst snd]. apply andb_true_iff. split; apply forallb_forall.
    - intros w Hw. apply in_preds in Hw. apply existsb_exists. exists w. split; [|apply Nat.eqb_refl].
      destruct (Nat.eq_dec w x) as [->|Nw]; [left; reflexivity|]. right. apply in_preds. apply Cb; assumption.
    - intros w [E|Hw]; apply existsb_exists; exists w; (split; [|apply Nat.eqb_refl]); apply in_preds.
      + subst w. assumption.
      + apply Ca. apply in_preds. assumption.
  Qed.

  Lemma step_simple : forall n, simple n g -> simple n g'.
  Proof.
    intros n [Hnd Hr]. pose proof xy_neq as N. split.
    - unfold g', reverse_edge. clear Hr.
      assert (Hno : ~ In (y, x) g) by (intros H; pose proof (Rg y x H); pose proof (Rg x y Hxy); lia).
      revert Hnd Hno. generalize g as l. induction l as [|e l IH]; intros Hnd Hno; simpl; [constructor|].
      inversion Hnd as [|? ? Hni Hnd']; subst. constructor.
      + intros Hin. apply in_map_iff in Hin. destruct Hin as [e2 [E2 Hin2]].
        destruct (edge_eqb (x, y) e) eqn:E1; destruct (edge_eqb (x, y) e2) eqn:E3;
          try apply edge_eqb_iff in E1; try apply edge_eqb_iff in E3; simpl in *; subst.
        * apply Hni. assumption.
        * apply Hno. right. assumption.
        * apply Hno. left. reflexivity.
        * apply Hni. assumption.
      + apply IH; [assumption|]. intros H. apply Hno. right. assumption.
    - intros u v H. apply (in_reverse g x y u v Hxy) in H. destruct H as [E|[H _]].
      + inversion E; subst. destruct (Hr x y Hxy). split; assumption.
      + apply Hr. assumption.
  Qed.
End Step.

(* the number of differing arcs drops *)
Lemma filter_map_lt : forall A (p : A -> bool) (f : A -> A) l,
  (forall e, In e l -> p (f e) = true -> p e = true) ->
  (exists e, In e l /\ p e = true /\ p (f e) = false) ->
  length (filter p (map f l)) < length (filter p l).
Proof.
  intros A p f l. induction l as [|a l IH]; intros H1 [e [He [H2 H3]]]; [destruct He|].
  assert (Hle : forall l', (forall e, In e l' -> p (f e) = true -> p e = true) ->
                 length (filter p (map f l')) <= length (filter p l')).
  { clear. induction l' as [|a l IH]; intros H; simpl; [lia|].
    assert (IH' := IH (fun e He => H e (or_intror He))).
    destruct (p (f a)) eqn:E.
    - rewrite (H a (or_introl eq_refl) E). simpl. lia.
    - destruct (p a); simpl; lia. }
  simpl. destruct He as [<-|He].
  - rewrite H2, H3. simpl. specialize (Hle l (fun e He => H1 e (or_intror He))). lia.
  - assert (IH' := IH (fun e He => H1 e (or_intror He)) (ex_intro _ e (conj He (conj H2 H3)))).
    destruct (p (f a)) eqn:E.
    + rewrite (H1 a (or_introl eq_refl) E). simpl. lia.
    + destruct (p a); simpl; lia.
Qed.

Lemma step_diff : forall g h x y oh, ranked oh h -> In (x, y) g -> In (y, x) h ->
  length (diff (reverse_edge g (x, y)) h) < length (diff g h).
Proof.
  intros g h x y oh Rh Hxy Hyx. unfold diff, reverse_edge. apply filter_map_lt.
  - intros e _ H. destruct (edge_eqb (x, y) e) eqn:E; [|assumption].
    apply edge_eqb_iff in E. subst e. simpl in *. apply has_edge_In. assumption.
  - exists (x, y). split; [assumption|]. split.
    + simpl. apply has_edge_In. assumption.
    + rewrite (proj2 (edge_eqb_iff (x, y) (x, y)) eq_refl). simpl.
      destruct (has_edge h x y) eqn:E; [|reflexivity]. apply has_edge_In in E.
      pose proof (Rh x y E). pose proof (Rh y x Hyx). lia.
Qed.

(* no differing arc: the same arcs *)
Lemma diff_nil_same : forall g h oh, ranked oh h -> meq g h -> diff g h = [] -> same_edges g h.
Proof.
  intros g h oh Rh [Hsk _] Hd.
  assert (F : forall u v, In (u, v) g -> In (u, v) h).
  { intros u v H. assert (Ha : adjP h u v) by (apply Hsk; left; assumption). destruct Ha as [Ha|Ha]; [assumption|].
    assert (Hin : In (u, v) (diff g h)) by (apply in_diff; split; assumption). rewrite Hd in Hin. destruct Hin. }
  intros [u v]. split; [apply F|]. intros H.
  assert (Ha : adjP g u v) by (apply Hsk; left; assumption). destruct Ha as [Ha|Ha]; [assumption|].
  pose proof (Rh v u (F v u Ha)). pose proof (Rh u v H). lia.
Qed.

(* ---------------------------------------------------------------- the transformation theorem *)
(* one covered-arc reversal between simple DAGs of the same class *)
Definition good_step (n : nat) (g g' : list (nat * nat)) : Prop :=
  simple n g /\ is_dag g /\ crev_step g g' /\ simple n g' /\ is_dag g' /\ meq g g'.

Theorem chickering : forall n g h, simple n g -> is_dag g -> is_dag h -> meq g h ->
  exists g', clos_refl_trans _ (good_step n) g g' /\ simple n g' /\ is_dag g' /\ same_edges g' h.
Proof.
  intros n g h Hs Hdg [oh Rh] Hm.
  remember (length (diff g h)) as k eqn:Ek. revert g Hs Hdg Hm Ek.
  induction k as [k IH] using lt_wf_ind. intros g Hs [og Rg] Hm Ek.
  destruct (diff g h) as [|e0 D] eqn:Ed.
  - exists g. split; [apply rt_refl|]. split; [assumption|]. split; [exists og; assumption|].
    eapply diff_nil_same; eassumption.
  - destruct (find_edge og oh g h Rg Rh Hm) as [x [y [Hxy [Hyx Hcov]]]]; [rewrite Ed; discriminate|].
    set (g1 := reverse_edge g (x, y)).
    assert (R1 : is_dag g1) by (eexists; apply (step_ranked g x y og Rg Hxy Hcov)).
    assert (S1 : simple n g1) by (apply (step_simple g x y og Rg Hxy); assumption).
    assert (M1 : meq g g1) by (apply (step_meq g x y og Rg Hxy Hcov)).
    assert (L1 : length (diff g1 h) < k).
    { subst k. rewrite <- Ed. apply (step_diff g h x y oh Rh Hxy Hyx). }
    destruct (IH (length (diff g1 h)) L1 g1 S1 R1 (meq_trans _ _ _ (meq_sym _ _ M1) Hm) eq_refl)
      as [g' [Hreach [Hs' [Hd' He']]]].
    exists g'. split; [|tauto].
    eapply rt_trans; [|exact Hreach]. apply rt_step.
    split; [assumption|]. split; [exists og; assumption|]. split.
    + exists (x, y). split; [assumption|]. split; [apply (step_covered g x y Hxy Hcov) | reflexivity].
    + tauto.
Qed.

(* ---------------------------------------------------------------- score equivalence for every size *)
Lemma NoDup_nodupb : forall l, NoDup l -> nodupb l = true.
Proof.
  induction 1 as [|a l Hni Hnd IH]; simpl; [reflexivity|]. rewrite IH, andb_true_r.
  destruct (memb a l) eqn:E; [|reflexivity]. apply memb_In in E. contradiction.
Qed.
Lemma NoDup_preds : forall g v, NoDup g -> NoDup (preds g v).
Proof.
  induction g as [|e g IH]; intros v Hnd; [constructor|]. inversion Hnd as [|? ? Hni Hnd']; subst.
  rewrite preds_cons. destruct (Nat.eqb_spec (snd e) v) as [E|E]; [|apply IH; assumption].
  constructor; [|apply IH; assumption]. intros Hin. apply in_preds in Hin. apply Hni.
  destruct e as [a b]. simpl in *. subst. assumption.
Qed.
Lemma okb_of_simple : forall n g, simple n g -> is_dag g -> okb n g = true.
Proof.
  intros n g [Hnd Hr] [og Rg]. unfold okb. apply andb_true_iff. split; apply forallb_forall.
  - intros [u v] He. simpl. destruct (Hr u v He) as [Hu Hv]. pose proof (Rg u v He) as O.
    repeat (apply andb_true_iff; split).
    + apply Nat.ltb_lt; assumption.
    + apply Nat.ltb_lt; assumption.
    + apply negb_true_iff. apply Nat.eqb_neq. intros E; subst; lia.
    + apply negb_true_iff. destruct (memb u (preds g u)) eqn:E; [|reflexivity].
      apply memb_In in E. apply in_preds in E. pose proof (Rg u u E). lia.
  - intros v _. apply NoDup_nodupb. apply NoDup_preds. assumption.
Qed.

Lemma good_reach_ok : forall n g g', clos_refl_trans _ (good_step n) g g' -> reach_ok n g g'.
Proof.
  intros n g g' H. induction H as [g g' [Hs [Hd [Hc _]]]| |g1 g2 g3 _ IH1 _ IH2].
  - apply rt_step. split; [apply okb_of_simple; assumption | assumption].
  - apply rt_refl.
  - eapply rt_trans; eassumption.
Qed.

(* score(model) depends on the set of arcs only *)
Lemma total_same_edges : forall cards d sc n g h, wf_data cards d -> (n <= length cards)%nat ->
  simple n g -> simple n h -> same_edges g h ->
  norm (total_score cards d sc (seq 0 n) g) = norm (total_score cards d sc (seq 0 n) h).
Proof.
  intros cards d sc n g h Hd Hn [Ng Rg] [Nh Rh] He.
  assert (Hl : length g = length h).
  { apply Permutation_length. apply NoDup_Permutation; assumption. }
  rewrite !score_decomposable_norm, Hl. apply norm_eq_iff. intros a. rewrite !coeff_app. f_equal.
  rewrite !coeff_sumof. apply qsum_ext. intros v Hv. apply in_seq in Hv.
  assert (P : Permutation (preds g v) (preds h v)).
  { apply NoDup_Permutation; try (apply NoDup_preds; assumption). intros u. rewrite !in_preds. apply He. }
  assert (W : wf_vars cards (v :: preds g v)).
  { intros u [<-|Hu]; [lia|]. apply in_preds in Hu. destruct (Rg u v Hu). lia. }
  pose proof (parent_order cards d sc v (preds g v) (preds h v) P Hd W) as E.
  rewrite norm_eq_iff in E. apply E.
Qed.

Theorem score_equivalence : forall cards d sc n g h, equiv_score sc -> wf_data cards d -> (n <= length cards)%nat ->
  simple n g -> simple n h -> is_dag g -> is_dag h -> meq g h ->
  norm (total_score cards d sc (seq 0 n) g) = norm (total_score cards d sc (seq 0 n) h).
Proof.
  intros cards d sc n g h Hs Hd Hn Sg Sh Dg Dh Hm.
  destruct (chickering n g h Sg Dg Dh Hm) as [g' [Hreach [Sg' [_ He]]]].
  rewrite (reach_total cards d sc n g g' Hs Hd Hn (good_reach_ok n g g' Hreach)).
  apply total_same_edges; assumption.
Qed.

(* the boolean test of the finite-domain theorems implies the Prop notion, for graphs on nodes 0..n-1 *)
Lemma bools_eqb_eq : forall a b, bools_eqb a b = true -> a = b.
Proof.
  induction a as [|x a IH]; destruct b as [|y b]; simpl; intros H; try discriminate; auto.
  apply andb_true_iff in H. destruct H as [H1 H2]. apply eqb_prop in H1. apply IH in H2. congruence.
Qed.
Lemma app_inv_len : forall A (a a' b b' : list A), length a = length a' -> a ++ b = a' ++ b' -> a = a' /\ b = b'.
Proof.
  induction a as [|x a IH]; destruct a' as [|y a']; simpl; intros b b' Hl H; try discriminate; auto.
  inversion H; subst. destruct (IH a' b b') as [-> ->]; auto.
Qed.
Lemma flat_map_inv : forall A B (f f' : A -> list B) l, (forall x, length (f x) = length (f' x)) ->
  flat_map f l = flat_map f' l -> forall x, In x l -> f x = f' x.
Proof.
  induction l as [|a l IH]; intros Hl H x Hx; [destruct Hx|]. simpl in H.
  apply app_inv_len in H; [|apply Hl]. destruct H as [H1 H2]. destruct Hx as [<-|Hx]; auto.
Qed.
Lemma flat_map_len_ext : forall A B (f f' : A -> list B) l, (forall x, length (f x) = length (f' x)) ->
  length (flat_map f l) = length (flat_map f' l).
Proof. induction l; intros H; simpl; [reflexivity | rewrite !app_length, H, IHl; auto]. Qed.
Lemma adj_adjP : forall g u v, adj g u v = true <-> adjP g u v.
Proof. intros. unfold adj, adjP. rewrite orb_true_iff, !has_edge_In. reflexivity. Qed.
Lemma vstruct_vsP : forall g a c b, vstruct g a c b = true <-> vsP g a b c.
Proof.
  intros. unfold vstruct, vsP. rewrite !andb_true_iff, !negb_true_iff, !has_edge_In, Nat.eqb_neq.
  split.
  - intros [[[H1 H2] H3] H4]. repeat split; auto. intros Ha. apply adj_adjP in Ha. congruence.
  - intros [H1 [H2 [H3 H4]]]. repeat split; auto. destruct (adj g a b) eqn:E; [|reflexivity].
    apply adj_adjP in E. contradiction.
Qed.

(* the boolean test (tables over nodes 0..n-1) of the finite-domain theorems implies the Prop notion *)
Lemma mequiv_meq : forall n g h, simple n g -> simple n h -> mequiv n g h = true -> meq g h.
Proof.
  intros n g h [_ Rg] [_ Rh] H. unfold mequiv in H. apply bools_eqb_eq in H. unfold msig in H. cbv zeta in H.
  apply app_inv_len in H.
  2:{ apply flat_map_len_ext. intros; rewrite !map_length; reflexivity. }
  destruct H as [H1 H2].
  assert (A : forall u v, u < n -> v < n -> adj g u v = adj h u v).
  { intros u v Hu Hv.
    pose proof (flat_map_inv _ _ _ _ (seq 0 n) (fun x => eq_trans (map_length _ _) (eq_sym (map_length _ _))) H1 u) as E.
    specialize (E ltac:(apply in_seq; lia)). simpl in E.
    rewrite map_ext_in_iff in E. apply E. apply in_seq. lia. }
  assert (V : forall a c b, a < n -> c < n -> b < n -> vstruct g a c b = vstruct h a c b).
  { intros a c b Ha Hc Hb.
    assert (L : forall x, length (flat_map (fun c0 => map (fun b0 => vstruct g x c0 b0) (seq 0 n)) (seq 0 n))
                     = length (flat_map (fun c0 => map (fun b0 => vstruct h x c0 b0) (seq 0 n)) (seq 0 n))).
    { intros x. apply flat_map_len_ext. intros; rewrite !map_length; reflexivity. }
    pose proof (flat_map_inv _ _ _ _ (seq 0 n) L H2 a ltac:(apply in_seq; lia)) as E. simpl in E.
    pose proof (flat_map_inv _ _ _ _ (seq 0 n) (fun x => eq_trans (map_length _ _) (eq_sym (map_length _ _))) E c
                  ltac:(apply in_seq; lia)) as E'. simpl in E'.
    rewrite map_ext_in_iff in E'. apply E'. apply in_seq. lia. }
  assert (AP : forall u v, adjP g u v <-> adjP h u v).
  { intros u v. split; intros Hq.
    - assert (u < n /\ v < n) as [Hu Hv] by (destruct Hq as [Hq|Hq]; destruct (Rg _ _ Hq); split; assumption).
      apply adj_adjP. rewrite <- A by assumption. apply adj_adjP. assumption.
    - assert (u < n /\ v < n) as [Hu Hv] by (destruct Hq as [Hq|Hq]; destruct (Rh _ _ Hq); split; assumption).
      apply adj_adjP. rewrite A by assumption. apply adj_adjP. assumption. }
  split; [exact AP|]. intros a b c. split; intros Hq.
  - assert (a < n /\ b < n /\ c < n) as [Ha [Hb Hc]].
    { destruct Hq as [Q1 [Q2 _]]. destruct (Rg _ _ Q1). destruct (Rg _ _ Q2). auto. }
    apply vstruct_vsP. rewrite <- V by assumption. apply vstruct_vsP. assumption.
  - assert (a < n /\ b < n /\ c < n) as [Ha [Hb Hc]].
    { destruct Hq as [Q1 [Q2 _]]. destruct (Rh _ _ Q1). destruct (Rh _ _ Q2). auto. }
    apply vstruct_vsP. rewrite V by assumption. apply vstruct_vsP. assumption.
Qed.
