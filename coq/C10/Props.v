(* C10 property theorems.  Statements only, each closed by [exact] of a lemma proved in
   Base/Formal.v, C10/Closed.v, C10/Cache.v, C10/Invar.v, C10/Equiv.v, with Print Assumptions underneath.

   Reading guide.  [local_score cards d sc x ps] is the model of <Score>(data).local_score(x, ps) as coded
   (Model.v); the *_spec are the published closed forms over ALL parent configurations and ALL declared
   states (Spec.v).  Scores are formal sums over uninterpreted lgamma/log atoms; [norm s = norm t] means the
   two sums have identical coefficients on every atom, hence ([C10_formal_sound]) equal values under every
   interpretation of lgamma and log, in particular the real ones.  No size bound on data, cardinalities or
   number of parents unless the theorem name says so.

   Score equivalence: C10_chickering (Chickering's transformation theorem, any number of nodes) and
   C10_score_equivalence (BDeu/BIC/AIC equal on Markov-equivalent DAGs of any size) are proved by induction on
   the number of differing arcs; C10_equiv_by_covered_reversals_upto4 and C10_score_equivalent_upto4 are the
   earlier finite-domain versions (vm_compute over all DAGs on <= 4 nodes), kept as an independent check. *)
From Coq Require Import List ZArith QArith Qcanon Bool Arith Lia Permutation Relations.
From PV Require Import Base.Formal C10.Model C10.Spec C10.Counts C10.Closed C10.Cache C10.Invar C10.Equiv
  C10.Reversal C10.ParentOrder C10.Chain C10.ProofsChickering C10.ProofsChickeringGraph.
Import ListNotations.
Local Open Scope Qc_scope.

(* equal normal forms denote equal numbers under EVERY interpretation of lgamma and log *)
Theorem C10_formal_sound : forall s t, norm s = norm t ->
  forall interp : kind -> Qc -> Qc, denote interp s = denote interp t.
Proof. exact formal_sound. Qed.
Print Assumptions C10_formal_sound.

(* ... and the variant that drops the atom lgamma(1) is sound under the named fact lgamma(1) = 0 *)
Theorem C10_formal_sound_lg1 : forall s t, norm_lg1 s = norm_lg1 t ->
  forall interp : kind -> Qc -> Qc, lg_facts interp -> denote interp s = denote interp t.
Proof. exact formal_sound_lg1. Qed.
Print Assumptions C10_formal_sound_lg1.

(* K2 (after fix 74ee6ee): the coded sum plus  shape[1] * (r - shape[0]) * lgamma(1)  is the closed form,
   atom for atom: the dropped-column adjustments are exactly the terms of the unobserved configurations *)
Theorem C10_k2_closed_form_exact : forall cards d x ps, wf_data cards d -> wf_vars cards (x :: ps) ->
  norm (local_score cards d K2 x ps
        ++ fatom (n_cols d ps * (Qn (card cards x) - n_rows cards d x ps)) LG 1)
  = norm (k2_spec cards d x ps).
Proof. exact k2_closed_form_exact. Qed.
Print Assumptions C10_k2_closed_form_exact.

(* hence K2 equals its closed form modulo lgamma(1) = 0 (see C10_formal_sound_lg1), for every data set *)
Theorem C10_k2_closed_form : forall cards d x ps, wf_data cards d -> wf_vars cards (x :: ps) ->
  norm_lg1 (local_score cards d K2 x ps) = norm_lg1 (k2_spec cards d x ps).
Proof. exact k2_closed_form. Qed.
Print Assumptions C10_k2_closed_form.

(* BDeu (after fix 371c84a): the coded sum equals the closed form over all parent configurations and all
   declared states, for every data set - no side condition *)
Theorem C10_bdeu_closed_form : forall cards d ess x ps, wf_data cards d -> wf_vars cards (x :: ps) ->
  norm (local_score cards d (BDeu ess) x ps) = norm (bdeu_spec cards d ess x ps).
Proof. exact bdeu_closed_form. Qed.
Print Assumptions C10_bdeu_closed_form.
(* the input that refuted this statement before the fix (declared state 1 of the child never occurs, one parent) *)
Example C10_bdeu_old_witness :
  wf_data [2; 1]%nat [[0; 0]]%nat /\ wf_vars [2; 1]%nat [0; 1]%nat
  /\ norm (local_score [2; 1]%nat [[0; 0]]%nat (BDeu 1) 0%nat [1%nat])
     = norm (bdeu_spec [2; 1]%nat [[0; 0]]%nat 1 0%nat [1%nat]).
Proof.
  split; [apply valid_data_wf; reflexivity|]. split; [apply valid_vars_wf; reflexivity|]. exact bdeu_old_witness.
Qed.

Theorem C10_bic_closed_form : forall cards d x ps, wf_data cards d -> wf_vars cards (x :: ps) ->
  norm (local_score cards d BIC x ps) = norm (bic_spec cards d x ps).
Proof. exact bic_closed_form. Qed.
Print Assumptions C10_bic_closed_form.

Theorem C10_aic_closed_form : forall cards d x ps, wf_data cards d -> wf_vars cards (x :: ps) ->
  norm (local_score cards d AIC x ps) = norm (aic_spec cards d x ps).
Proof. exact aic_closed_form. Qed.
Print Assumptions C10_aic_closed_form.

(* BDs as coded (after fix 371c84a): a BDeu-shaped sum over all configurations with alpha = ess/q~ but
   beta = ess/(q r) (Scutari: ess/(q~ r)), minus (q - q~) lgamma(ess/q~) *)
Theorem C10_bds_coded_form : forall cards d ess x ps, wf_data cards d -> wf_vars cards (x :: ps) ->
  norm (local_score cards d (BDs ess) x ps
        ++ fatom (Qn (qtot cards ps) - n_cols d ps) LG (ess / n_cols d ps))
  = norm (cellsum d (all_cfgs cards ps) (all_states cards x) (Nj cards d x ps)
            (bd_H (ess / n_cols d ps)) (bd_h (ess / (Qn (qtot cards ps) * Qn (card cards x)))) x ps).
Proof. exact bds_coded_form. Qed.
Print Assumptions C10_bds_coded_form.

(* BDs against Scutari 2016 is REFUTED when a parent configuration never occurs (finding
   bds-unobserved-configs): cards [1;3], rows [0;0],[0;1], x = 0, ps = [1], ess = 1: published 0, coded
   contains 2 lgamma(4/3) *)
Theorem C10_bds_closed_form_refuted :
  exists cards d x ps ess, wf_data cards d /\ wf_vars cards (x :: ps) /\
    norm (local_score cards d (BDs ess) x ps) <> norm (bds_spec cards d ess x ps).
Proof. exact bds_unobserved_configs_refuted. Qed.
Print Assumptions C10_bds_closed_form_refuted.

(* score(model) = sum of the local scores + structure prior, under every interpretation *)
Theorem C10_decomposable : forall cards d sc nodes edges (interp : kind -> Qc -> Qc),
  denote interp (total_score cards d sc nodes edges)
  = qsum nodes (fun v => denote interp (local_score cards d sc v (preds edges v)))
    + denote interp (structure_prior sc (length nodes) (length edges)).
Proof. exact score_decomposable. Qed.
Print Assumptions C10_decomposable.

(* ScoreCache: any call sequence returns the uncached local scores; every cached entry is a point of the
   graph of the scoring function and the cache never exceeds max_size (>= 1; LRUCache raises for 0) *)
Theorem C10_cache_transparent : forall cards d sc maxs calls, (1 <= maxs)%nat ->
  map fst (fst (cached_scores cards d sc maxs calls))
  = map (fun k : key => local_score cards d sc (fst k) (snd k)) calls
  /\ (forall k v, In (k, v) (snd (cached_scores cards d sc maxs calls)) ->
        v = local_score cards d sc (fst k) (snd k))
  /\ (length (snd (cached_scores cards d sc maxs calls)) <= maxs)%nat.
Proof. exact cache_transparent. Qed.
Print Assumptions C10_cache_transparent.

(* ScoreCache(score).score(model), called after ANY sequence of cached local_score calls, is exactly
   score.score(model): the sum of the local scores plus the structure prior of the wrapped score (after fix
   c25bc1d the cache delegates the prior), for all five scores; the cache stays within the function's graph and
   max_size *)
Theorem C10_cache_transparent_total : forall cards d sc maxs calls nodes edges, (1 <= maxs)%nat ->
  let c := snd (cached_scores cards d sc maxs calls) in
  fst (cached_total_score cards d sc maxs c nodes edges) = total_score cards d sc nodes edges
  /\ (forall k v, In (k, v) (snd (cached_total_score cards d sc maxs c nodes edges)) ->
        v = local_score cards d sc (fst k) (snd k))
  /\ (length (snd (cached_total_score cards d sc maxs c nodes edges)) <= maxs)%nat.
Proof. exact cache_transparent_total. Qed.
Print Assumptions C10_cache_transparent_total.

(* every local score (K2, BDeu, BDs, BIC, AIC) is invariant under permutation of the rows *)
Theorem C10_row_perm : forall cards d d' sc x ps, Permutation d d' ->
  wf_data cards d -> wf_vars cards (x :: ps) ->
  norm (local_score cards d sc x ps) = norm (local_score cards d' sc x ps).
Proof. intros cards d d' sc x ps HP. exact (row_perm cards d d' HP sc x ps). Qed.
Print Assumptions C10_row_perm.

(* every local score (K2, BDeu, BDs, BIC, AIC) is invariant under permuting the parent list *)
Theorem C10_parent_order : forall cards d sc x ps ps', Permutation ps ps' ->
  wf_data cards d -> wf_vars cards (x :: ps) ->
  norm (local_score cards d sc x ps) = norm (local_score cards d sc x ps').
Proof. exact parent_order. Qed.
Print Assumptions C10_parent_order.

(* score equivalence, the analytic half: reversing a covered arc X -> Y leaves the sum of the two affected
   local scores unchanged, for every data set, as formal sums, for BDeu, BIC and AIC ([equiv_score]), with
   the parent lists in any order: Pa(Y) ~ X :: Pa(X) before, Pa'(Y) ~ Pa(X) and Pa'(X) ~ Y :: Pa(X) after *)
Theorem C10_covered_reversal : forall cards d sc x y Px Py Px' Py', equiv_score sc -> wf_data cards d ->
  wf_vars cards (x :: y :: Px) ->
  Permutation Py (x :: Px) -> Permutation Py' Px -> Permutation Px' (y :: Px) ->
  norm (local_score cards d sc x Px ++ local_score cards d sc y Py)
  = norm (local_score cards d sc x Px' ++ local_score cards d sc y Py').
Proof. exact covered_reversal_gen. Qed.
Print Assumptions C10_covered_reversal.
Example C10_equiv_score_members : equiv_score (BDeu 1) /\ equiv_score BIC /\ equiv_score AIC /\ ~ equiv_score K2.
Proof. simpl. tauto. Qed.

(* ... and therefore the score of the whole family list (all other families are untouched) *)
Theorem C10_covered_reversal_total : forall cards d sc x y P pre mid post,
  norm (local_score cards d sc x P ++ local_score cards d sc y (x :: P))
  = norm (local_score cards d sc y P ++ local_score cards d sc x (y :: P)) ->
  norm (family_score cards d sc (pre ++ (x, P) :: mid ++ (y, x :: P) :: post))
  = norm (family_score cards d sc (pre ++ (x, y :: P) :: mid ++ (y, P) :: post)).
Proof. exact family_reversal. Qed.
Print Assumptions C10_covered_reversal_total.

(* finite domain, n <= 4 (vm_compute over all 543 + 25 + 3 + 1 + 1 DAGs): Markov-equivalent DAGs (same
   skeleton, same v-structures) are connected by covered-arc reversals *)
Theorem C10_equiv_by_covered_reversals_upto4 : forall n g h, (n <= 4)%nat ->
  In g (all_dags n) -> In h (all_dags n) -> mequiv n g h = true ->
  clos_refl_trans _ crev_step g h.
Proof. exact equiv_by_covered_reversals_upto4. Qed.
Print Assumptions C10_equiv_by_covered_reversals_upto4.

(* score(model) of a graph given by an edge list is unchanged by one covered-arc reversal (any number of nodes;
   [crev_step_ok n g h]: g passes the structural check okb and h is g with one covered arc reversed) *)
Theorem C10_covered_reversal_score : forall cards d sc n g h, equiv_score sc -> wf_data cards d ->
  (n <= length cards)%nat -> crev_step_ok n g h ->
  norm (total_score cards d sc (seq 0 n) g) = norm (total_score cards d sc (seq 0 n) h).
Proof. exact step_total. Qed.
Print Assumptions C10_covered_reversal_score.

(* finite domain, n <= 4: Markov-equivalent DAGs have identical BDeu / BIC / AIC score(model), as formal sums,
   for every data set on at least n columns *)
Theorem C10_score_equivalent_upto4 : forall cards d sc n g h, (n <= 4)%nat ->
  In g (all_dags n) -> In h (all_dags n) -> mequiv n g h = true ->
  equiv_score sc -> wf_data cards d -> (n <= length cards)%nat ->
  norm (total_score cards d sc (seq 0 n) g) = norm (total_score cards d sc (seq 0 n) h).
Proof. exact score_equivalent_upto4. Qed.
Print Assumptions C10_score_equivalent_upto4.

Local Close Scope Qc_scope.
Local Close Scope Q_scope.
Local Open Scope nat_scope.
(* ---------------------------------------------------------------- Chickering's transformation theorem, all sizes.
   Graphs are arc lists; [simple n g]: no repeated arc, endpoints among 0..n-1; [is_dag g]: some rank function
   increases along every arc; [meq g h]: same skeleton and same v-structures (Verma & Pearl);
   [good_step n g g']: g' is g with one covered arc reversed, both simple DAGs of the same class. *)
Theorem C10_chickering : forall n g h, simple n g -> is_dag g -> is_dag h -> meq g h ->
  exists g', clos_refl_trans _ (good_step n) g g' /\ simple n g' /\ is_dag g' /\ same_edges g' h.
Proof. exact chickering. Qed.
Print Assumptions C10_chickering.
Example C10_chickering_nonvacuous :
  simple 4 [(0, 1); (1, 2); (3, 2)] /\ is_dag [(0, 1); (1, 2); (3, 2)] /\ is_dag [(1, 0); (1, 2); (3, 2)]
  /\ meq [(0, 1); (1, 2); (3, 2)] [(1, 0); (1, 2); (3, 2)].
Proof.
  assert (S1 : simple 4 [(0, 1); (1, 2); (3, 2)]).
  { split; [repeat constructor; simpl; intuition congruence|]. intros u v H. simpl in H.
    repeat (destruct H as [H|H]; [inversion H; subst; split; lia|]). destruct H. }
  assert (S2 : simple 4 [(1, 0); (1, 2); (3, 2)]).
  { split; [repeat constructor; simpl; intuition congruence|]. intros u v H. simpl in H.
    repeat (destruct H as [H|H]; [inversion H; subst; split; lia|]). destruct H. }
  split; [exact S1|]. split; [|split].
  - exists (fun v => match v with 0 => 0 | 1 => 1 | 3 => 0 | _ => 2 end). intros u v H. simpl in H.
    repeat (destruct H as [H|H]; [inversion H; subst; simpl; lia|]). destruct H.
  - exists (fun v => match v with 0 => 1 | 1 => 0 | 3 => 0 | _ => 2 end). intros u v H. simpl in H.
    repeat (destruct H as [H|H]; [inversion H; subst; simpl; lia|]). destruct H.
  - apply (mequiv_meq 4); [exact S1 | exact S2 | vm_compute; reflexivity].
Qed.

(* the key step (Chickering's Find-Edge): while some arc of g is reversed in h, there is one that is covered in g *)
Theorem C10_find_covered_edge : forall og oh g h, ranked og g -> ranked oh h -> meq g h -> diff g h <> [] ->
  exists x y, In (x, y) g /\ In (y, x) h /\ coveredP g x y.
Proof. exact find_edge. Qed.
Print Assumptions C10_find_covered_edge.

(* BDeu, BIC and AIC assign identical score(model), as formal sums, to Markov-equivalent DAGs of ANY size, for
   every data set on at least n columns *)
Theorem C10_score_equivalence : forall cards d sc n g h, equiv_score sc -> wf_data cards d ->
  (n <= length cards)%nat -> simple n g -> simple n h -> is_dag g -> is_dag h -> meq g h ->
  norm (total_score cards d sc (seq 0 n) g) = norm (total_score cards d sc (seq 0 n) h).
Proof. exact score_equivalence. Qed.
Print Assumptions C10_score_equivalence.

(* the same two theorems with the framework's standard notions: path-based acyclicity (Base/Graph.v) and the
   Markov equivalence of C18/Spec.v, which C18_iequiv_iff proves to be what DAG.is_iequivalent decides;
   [graph_ok n gr]: distinct nodes among 0..n-1, arcs between nodes, no repeated arc *)
Theorem C10_chickering_graph : forall n gr hr, graph_ok n gr -> G.acyclic gr -> G.wf_graph hr -> G.acyclic hr ->
  S18.markov_equivalent gr hr ->
  exists g', clos_refl_trans _ (good_step n) (G.edges gr) g' /\ simple n g' /\ is_dag g'
             /\ same_edges g' (G.edges hr).
Proof. exact chickering_graph. Qed.
Print Assumptions C10_chickering_graph.

Theorem C10_score_equivalence_graph : forall cards d sc n gr hr, equiv_score sc -> wf_data cards d ->
  (n <= length cards)%nat -> graph_ok n gr -> graph_ok n hr -> G.acyclic gr -> G.acyclic hr ->
  S18.markov_equivalent gr hr ->
  norm (total_score cards d sc (seq 0 n) (G.edges gr)) = norm (total_score cards d sc (seq 0 n) (G.edges hr)).
Proof. exact score_equivalence_graph. Qed.
Print Assumptions C10_score_equivalence_graph.

(* the notions agree: a rank function exists exactly for the acyclic graphs; the boolean equivalence test used by
   the finite-domain theorems implies [meq] *)
Theorem C10_dag_iff_acyclic : forall gr, G.wf_graph gr -> (is_dag (G.edges gr) <-> G.acyclic gr).
Proof. intros gr Hw. split; [apply ranked_acyclic | apply acyclic_ranked; assumption]. Qed.
Print Assumptions C10_dag_iff_acyclic.
Theorem C10_mequiv_meq : forall n g h, simple n g -> simple n h -> mequiv n g h = true -> meq g h.
Proof. exact mequiv_meq. Qed.
Print Assumptions C10_mequiv_meq.
