(* C10 entry points for the extracted driver: sx -> sx *)
From Coq Require Import List Bool Arith ZArith QArith Qcanon.
From PV Require Import Base.Sx Base.Formal C10.Model C10.Spec.
Import ListNotations.

Definition of_fsum (s : list (Qc * atom)) : sx :=
  of_list (fun t : Qc * atom => SL [of_Qc (fst t); of_nat (kcode (fst (snd t))); of_Qc (snd (snd t))]) (norm s).

Definition dec_data (sc sr : sx) : option (list nat * list (list nat)) :=
  match sx_list sx_nat sc, sx_list (sx_list sx_nat) sr with
  | Some c, Some r => Some (c, r)
  | _, _ => None
  end.

(* [cards rows x ps ess] -> [[k2 bdeu bds bic aic] as coded ; [k2 bdeu bds bic aic] closed forms];
   error 1 = malformed data / unknown column *)
Definition run_c10_local (s : sx) : sx :=
  match s with
  | SL [sc; sr; sx_; sp; se] =>
      match dec_data sc sr, sx_nat sx_, sx_list sx_nat sp, sx_Qc se with
      | Some (cards, d), Some x, Some ps, Some ess =>
          if valid_data cards d && valid_vars cards (x :: ps) then
            let scs := [K2; BDeu ess; BDs ess; BIC; AIC] in
            sx_ok (SL [ of_list (fun sc => of_fsum (local_score cards d sc x ps)) scs;
                        of_list (fun sc => of_fsum (local_spec cards d sc x ps)) scs ])
          else sx_err 1
      | _, _, _, _ => bad_request
      end
  | _ => bad_request
  end.

Definition subsetb (a b : list nat) : bool := forallb (fun x => existsb (Nat.eqb x) b) a.

(* [cards rows nodes edges ess] -> [same_node_set ; [k2 bdeu bds bic aic] of score(model) as coded];
   same_node_set = set(nodes) == set(columns) (structure_score raises ValueError otherwise);
   error 1 = malformed data / node that is not a column *)
Definition run_c10_total (s : sx) : sx :=
  match s with
  | SL [sc; sr; sn; sed; se] =>
      match dec_data sc sr, sx_list sx_nat sn, sx_list (sx_pair sx_nat sx_nat) sed, sx_Qc se with
      | Some (cards, d), Some nodes, Some edges, Some ess =>
          if negb (valid_data cards d && valid_vars cards nodes
                   && valid_vars cards (map fst edges) && valid_vars cards (map snd edges)) then sx_err 1
          else
            let scs := [K2; BDeu ess; BDs ess; BIC; AIC] in
            sx_ok (SL [ of_bool (subsetb nodes (seq 0 (length cards)) && subsetb (seq 0 (length cards)) nodes);
                        of_list (fun sc => of_fsum (total_score cards d sc nodes edges)) scs ])
      | _, _, _, _ => bad_request
      end
  | _ => bad_request
  end.

Definition of_key (k : key) : sx := SL [of_nat (fst k); of_list of_nat (snd k)].
Definition score_of_code (c : nat) (ess : Qc) : score :=
  match c with
  | O => K2 | S O => BDeu ess | S (S O) => BDs ess | S (S (S O)) => BIC | _ => AIC
  end.

(* [cards rows scorecode ess maxsize [[var [parents]] ...]] -> [[value hit] ...] , final keys oldest first;
   error 3 = max_size 0 (LRUCache raises) *)
Definition run_c10_cache (s : sx) : sx :=
  match s with
  | SL [sc; sr; scode; se; sm; sk] =>
      match dec_data sc sr, sx_nat scode, sx_Qc se, sx_nat sm,
            sx_list (sx_pair sx_nat (sx_list sx_nat)) sk with
      | Some (cards, d), Some code, Some ess, Some maxs, Some calls =>
          if negb (valid_data cards d && forallb (fun k : key => valid_vars cards (fst k :: snd k)) calls)
          then sx_err 1
          else if Nat.eqb maxs O then sx_err 3
          else
            let (outs, c) := cached_scores cards d (score_of_code code ess) maxs calls in
            sx_ok (SL [ of_list (fun o : list (Qc * atom) * bool => SL [of_fsum (fst o); of_bool (snd o)]) outs;
                        of_list (fun e : key * list (Qc * atom) => of_key (fst e)) c ])
      | _, _, _, _, _ => bad_request
      end
  | _ => bad_request
  end.

(* [scorecode op] -> structure_prior_ratio *)
Definition run_c10_ratio (s : sx) : sx :=
  match s with
  | SL [scode; sop] =>
      match sx_nat scode, sx_nat sop with
      | Some code, Some op => sx_ok (of_fsum (structure_prior_ratio (score_of_code code 1%Qc) op))
      | _, _ => bad_request
      end
  | _ => bad_request
  end.
