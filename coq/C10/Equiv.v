(* C10 proofs, part 4 (finite domain): on at most 4 nodes, any two Markov-equivalent DAGs are connected
   by a sequence of covered-arc reversals.  The general statement is Chickering's theorem (1995) and is
   NOT proved here. *)
From Coq Require Import List Bool Arith Lia Relations.
From PV Require Import C10.Model C10.Spec.
Import ListNotations.

(* every digraph with at most one arc per unordered pair i<j, arcs listed in pair order *)
Definition all_pairs (n : nat) : list (nat * nat) :=
  flat_map (fun i => map (fun j => (i, j)) (seq (S i) (n - S i))) (seq 0 n).
Fixpoint orientations (ps : list (nat * nat)) : list (list (nat * nat)) :=
  match ps with
  | [] => [[]]
  | (i, j) :: r => let rest := orientations r in rest ++ map (cons (i, j)) rest ++ map (cons (j, i)) rest
  end.
Fixpoint reachb (g : list (nat * nat)) (ns : list nat) (fuel : nat) (u v : nat) : bool :=
  match fuel with
  | O => false
  | S f => has_edge g u v || existsb (fun w => has_edge g u w && reachb g ns f w v) ns
  end.
Definition acyclic (n : nat) (g : list (nat * nat)) : bool :=
  forallb (fun u => negb (reachb g (seq 0 n) n u u)) (seq 0 n).
Definition all_dags (n : nat) : list (list (nat * nat)) := filter (acyclic n) (orientations (all_pairs n)).

Fixpoint graph_eqb (g h : list (nat * nat)) : bool :=
  match g, h with
  | [], [] => true
  | e :: g', f :: h' => edge_eqb e f && graph_eqb g' h'
  | _, _ => false
  end.
Definition gmem (g : list (nat * nat)) (l : list (list (nat * nat))) : bool := existsb (graph_eqb g) l.
Fixpoint add_new (new acc : list (list (nat * nat))) : list (list (nat * nat)) :=
  match new with
  | [] => acc
  | g :: r => if gmem g acc then add_new r acc else add_new r (acc ++ [g])
  end.
(* structural sanity of a graph on nodes 0..n-1, as a boolean: endpoints in range, no self loop, no node among
   its own parents, no repeated parent *)
Definition memb (x : nat) (l : list nat) : bool := existsb (Nat.eqb x) l.
Fixpoint nodupb (l : list nat) : bool :=
  match l with [] => true | x :: r => negb (memb x r) && nodupb r end.
Definition okb (n : nat) (g : list (nat * nat)) : bool :=
  forallb (fun e => (fst e <? n) && (snd e <? n) && negb (fst e =? snd e)
                    && negb (memb (fst e) (preds g (fst e)))) g
  && forallb (fun v => nodupb (preds g v)) (seq 0 n).
(* a covered-arc reversal applied to a structurally sane graph *)
Definition crev_step_ok (n : nat) (g h : list (nat * nat)) : Prop := okb n g = true /\ crev_step g h.

Definition expand (n : nat) (l : list (list (nat * nat))) : list (list (nat * nat)) :=
  add_new (flat_map (fun g => if okb n g then map (reverse_edge g) (filter (covered g) g) else []) l) l.
Fixpoint closure (n k : nat) (l : list (list (nat * nat))) : list (list (nat * nat)) :=
  match k with O => l | S k' => closure n k' (expand n l) end.

Definition check_list (n : nat) (ds : list (list (nat * nat))) : bool :=
  let sg := map (fun g => (g, msig n g)) ds in
  forallb (fun gs : list (nat * nat) * list bool =>
             let cl := closure n (length (all_pairs n)) [fst gs] in
             forallb (fun ht : list (nat * nat) * list bool =>
                        if bools_eqb (snd gs) (snd ht) then gmem (fst ht) cl else true) sg) sg.
Definition check_upto (n : nat) : bool := let ds := all_dags n in check_list n ds.

Definition reach_cr := clos_refl_trans _ crev_step.
Definition reach_ok (n : nat) := clos_refl_trans _ (crev_step_ok n).
Lemma reach_ok_cr : forall n g h, reach_ok n g h -> reach_cr g h.
Proof.
  intros n g h H. induction H as [g h [_ H]| |g1 g2 g3 _ IH1 _ IH2]; [apply rt_step; assumption | apply rt_refl | eapply rt_trans; eassumption].
Qed.

Lemma edge_eqb_eq : forall a b, edge_eqb a b = true -> a = b.
Proof.
  intros [a1 a2] [b1 b2] H. unfold edge_eqb in H. simpl in H. apply andb_true_iff in H.
  destruct H as [H1 H2]. apply Nat.eqb_eq in H1, H2. congruence.
Qed.
Lemma graph_eqb_eq : forall g h, graph_eqb g h = true -> g = h.
Proof.
  induction g as [|e g IH]; destruct h as [|f h]; simpl; intros H; try discriminate; auto.
  apply andb_true_iff in H. destruct H as [H1 H2]. apply edge_eqb_eq in H1. apply IH in H2. congruence.
Qed.
Lemma gmem_In : forall g l, gmem g l = true -> In g l.
Proof.
  intros g l H. unfold gmem in H. apply existsb_exists in H. destruct H as [h [H1 H2]].
  apply graph_eqb_eq in H2. subst. assumption.
Qed.
Lemma add_new_In : forall new acc g, In g (add_new new acc) -> In g new \/ In g acc.
Proof.
  induction new as [|h new IH]; simpl; intros acc g H; [right; assumption|].
  destruct (gmem h acc).
  - apply IH in H. destruct H; [left; right; assumption | right; assumption].
  - apply IH in H. destruct H as [H|H]; [left; right; assumption|].
    apply in_app_or in H. destruct H as [H|[H|[]]]; [right; assumption | left; left; assumption].
Qed.
Lemma expand_sound : forall n g0 l, (forall g, In g l -> reach_ok n g0 g) ->
  forall g, In g (expand n l) -> reach_ok n g0 g.
Proof.
  intros n g0 l Hl g H. unfold expand in H. apply add_new_In in H. destruct H as [H|H]; [|apply Hl; assumption].
  apply in_flat_map in H. destruct H as [g1 [H1 H2]]. destruct (okb n g1) eqn:Eok; [|destruct H2].
  apply in_map_iff in H2. destruct H2 as [e [<- He]].
  apply filter_In in He. destruct He as [He1 He2].
  eapply rt_trans; [apply Hl; eassumption|]. apply rt_step. split; [assumption|]. exists e. auto.
Qed.
Lemma closure_sound : forall n g0 k l, (forall g, In g l -> reach_ok n g0 g) ->
  forall g, In g (closure n k l) -> reach_ok n g0 g.
Proof.
  induction k as [|k IH]; simpl; intros l Hl g H; [apply Hl; assumption|].
  eapply IH; [|eassumption]. apply expand_sound; assumption.
Qed.

Lemma check_upto_sound : forall n, check_upto n = true ->
  forall g h, In g (all_dags n) -> In h (all_dags n) -> mequiv n g h = true -> reach_ok n g h.
Proof.
  intros n Hc g h Hg Hh Hm. unfold check_upto, check_list in Hc. cbv zeta in Hc. rewrite forallb_forall in Hc.
  specialize (Hc (g, msig n g)). cbv zeta in Hc. rewrite forallb_forall in Hc.
  assert (Hc' := Hc (in_map (fun g => (g, msig n g)) _ g Hg) (h, msig n h) (in_map (fun g => (g, msig n g)) _ h Hh)).
  clear Hc. rename Hc' into Hc. simpl fst in Hc. simpl snd in Hc. unfold mequiv in Hm. rewrite Hm in Hc.
  apply gmem_In in Hc. eapply closure_sound; [|eassumption].
  intros g1 [<-|[]]. apply rt_refl.
Qed.

Lemma check_0 : check_upto 0 = true. Proof. vm_compute. reflexivity. Qed.
Lemma check_1 : check_upto 1 = true. Proof. vm_compute. reflexivity. Qed.
Lemma check_2 : check_upto 2 = true. Proof. vm_compute. reflexivity. Qed.
Lemma check_3 : check_upto 3 = true. Proof. vm_compute. reflexivity. Qed.
Lemma check_4 : check_upto 4 = true. Proof. vm_compute. reflexivity. Qed.

Theorem equiv_by_covered_reversals_ok_upto4 : forall n g h, (n <= 4)%nat ->
  In g (all_dags n) -> In h (all_dags n) -> mequiv n g h = true -> reach_ok n g h.
Proof.
  intros n g h Hn. apply check_upto_sound.
  destruct n as [|[|[|[|[|n]]]]]; [apply check_0 | apply check_1 | apply check_2 | apply check_3 | apply check_4 | lia].
Qed.
Theorem equiv_by_covered_reversals_upto4 : forall n g h, (n <= 4)%nat ->
  In g (all_dags n) -> In h (all_dags n) -> mequiv n g h = true -> reach_cr g h.
Proof. intros n g h Hn Hg Hh Hm. eapply reach_ok_cr. apply equiv_by_covered_reversals_ok_upto4; eassumption. Qed.

(* non-vacuity: 543 DAGs on 4 nodes; two distinct Markov-equivalent ones *)
Example all_dags_4_count : length (all_dags 4) = 543. Proof. vm_compute. reflexivity. Qed.
Example equiv_pair_4 :
  In [(0, 1); (1, 2); (3, 2)] (all_dags 4) /\ In [(1, 0); (1, 2); (3, 2)] (all_dags 4)
  /\ mequiv 4 [(0, 1); (1, 2); (3, 2)] [(1, 0); (1, 2); (3, 2)] = true
  /\ mequiv 4 [(0, 1); (1, 2); (3, 2)] [(0, 1); (2, 1); (3, 2)] = false.
Proof.
  split; [|split; [|split]]; try (vm_compute; reflexivity).
  - apply gmem_In. vm_compute. reflexivity.
  - apply gmem_In. vm_compute. reflexivity.
Qed.
