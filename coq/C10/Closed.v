From Coq Require Import List ZArith QArith Qcanon Bool Arith Lia Permutation.
(* C10 proofs, part 2: the coded scores equal the published closed forms (Spec.v), up to explicitly
   stated deficit terms; refutations for BDeu with unobserved declared child states and for BDs. *)
From PV Require Import Base.Formal C10.Model C10.Spec C10.Counts.
Import ListNotations.
Local Open Scope Qc_scope.

Lemma coeff_sumof2 : forall A B a (C : list A) (S : list B) F,
  coeff a (fsumof C (fun j => fsumof S (fun k => F j k))) = qsum C (fun j => qsum S (fun k => coeff a (F j k))).
Proof. intros. rewrite coeff_sumof. apply qsum_ext. intros j _. apply coeff_sumof. Qed.
Lemma qsum_H : forall A a (C : list A) X B,
  qsum C (fun j => coeff a (X ++ fneg (B j))) = Qn (length C) * coeff a X - qsum C (fun j => coeff a (B j)).
Proof.
  intros. rewrite (qsum_ext _ C _ (fun j => coeff a X + - coeff a (B j))).
  - rewrite qsum_plus, qsum_const, qsum_opp. ring.
  - intros j _. rewrite coeff_app, coeff_neg. reflexivity.
Qed.

Lemma coeff_fatom_scale : forall a c k z, coeff a (fatom c k z) = c * coeff a (fatom 1 k z).
Proof. intros. simpl. destruct (atom_eq_dec a (k, z)); ring. Qed.

Section S.
  Variable cards : list nat.
  Variable d : list (list nat).
  Lemma k2_gen_form : forall a x ps C S, good_C cards d x ps C -> good_S cards d x ps S ->
    coeff a (k2_gen cards d C S x ps) + Qn (length C) * (Qn (card cards x) - Qn (length S)) * coeff a (fatom 1 LG 1)
    = coeff a (k2_spec cards d x ps).
  Proof.
    intros a x ps C S HC HS. unfold k2_spec.
    rewrite (split_cellsum cards d a x ps C S _ _ (coeff a (fatom 1 LG 1)) HC HS).
    2:{ intros nj. unfold k2_h. rewrite Qn_0. replace (0 + 1) with 1 by ring. reflexivity. }
    rewrite coeff_cellsum. unfold k2_H at 1. rewrite qsum_H.
    unfold k2_H, k2_h. rewrite Qn_0. replace (0 + Qn (card cards x)) with (Qn (card cards x)) by ring.
    rewrite coeff_app, coeff_neg, length_all_cfgs.
    cbv beta zeta delta [k2_gen]. rewrite !coeff_app, !coeff_neg, !coeff_app, coeff_sumof2, coeff_sumof.
    rewrite (coeff_fatom_scale a (_ * _)), (coeff_fatom_scale a (_ - _)), (coeff_fatom_scale a (Qn _)).
    ring.
  Qed.

  Lemma qsum_h2 : forall a (C : list (list nat)) (S : list nat) (Y : list nat -> nat -> list (Qc * atom)) X,
    qsum C (fun j => qsum S (fun k => coeff a (Y j k ++ fneg X)))
    = qsum C (fun j => qsum S (fun k => coeff a (Y j k))) - Qn (length C) * Qn (length S) * coeff a X.
  Proof.
    intros. rewrite (qsum_ext _ C _ (fun j => qsum S (fun k => coeff a (Y j k)) + - (Qn (length S) * coeff a X))).
    - rewrite qsum_plus, qsum_opp, qsum_const. ring.
    - intros j _. rewrite (qsum_ext _ S _ (fun k => coeff a (Y j k) + - coeff a X)).
      + rewrite qsum_plus, qsum_opp, qsum_const. ring.
      + intros k _. rewrite coeff_app, coeff_neg. reflexivity.
  Qed.

  Lemma bd_gen_form : forall a alpha beta lead x ps C S, good_C cards d x ps C -> good_S cards d x ps S ->
    coeff a (bd_gen cards d alpha beta lead C S x ps)
    + (Qn (qtot cards ps) - lead) * coeff a (fatom 1 LG alpha)
    = coeff a (cellsum d (all_cfgs cards ps) (all_states cards x) (Nj cards d x ps) (bd_H alpha) (bd_h beta) x ps).
  Proof.
    intros a alpha beta lead x ps C S HC HS.
    rewrite (split_cellsum cards d a x ps C S _ _ 0 HC HS).
    2:{ intros nj. unfold bd_h. rewrite Qn_0. replace (0 + beta) with beta by ring.
        rewrite coeff_app, coeff_neg. ring. }
    rewrite coeff_cellsum. unfold bd_H at 1. rewrite qsum_H.
    unfold bd_h at 1. rewrite qsum_h2.
    unfold bd_H. rewrite Qn_0. replace (0 + alpha) with alpha by ring.
    rewrite coeff_app, coeff_neg.
    cbv beta zeta delta [bd_gen]. rewrite !coeff_app, !coeff_neg, !coeff_app, coeff_sumof2, coeff_sumof.
    rewrite (coeff_fatom_scale a (_ * _ - _ * _)), (coeff_fatom_scale a (Qn _ - Qn _)), (coeff_fatom_scale a lead),
            (coeff_fatom_scale a (Qn _ * Qn _)).
    ring.
  Qed.

  Lemma ll_gen_form : forall a x ps C S, good_C cards d x ps C -> good_S cards d x ps S ->
    coeff a (ll_gen d C S x ps) = coeff a (ll_spec cards d x ps).
  Proof.
    intros a x ps C S HC HS. unfold ll_spec.
    rewrite (split_cellsum cards d a x ps C S _ _ 0 HC HS).
    2:{ intros nj. reflexivity. }
    rewrite coeff_cellsum. simpl (coeff a []). rewrite qsum_zero.
    unfold ll_gen. rewrite coeff_sumof2.
    rewrite (qsum_ext _ C _ (fun j => qsum S (fun k => coeff a (ll_h (colsum d S x ps j) (N d x ps j k))))).
    - ring.
    - intros j _. apply qsum_ext. intros k Hk.
      assert (Hle : (N d x ps j k <= colsum d S x ps j)%nat).
      { unfold colsum. apply (nsum_ge _ S (N d x ps j) k Hk). }
      unfold ll_h. destruct (N d x ps j k) as [|n] eqn:En.
      + rewrite (Nat.ltb_irrefl 0). rewrite coeff_app, coeff_neg.
        destruct (0 <? colsum d S x ps j)%nat; simpl (coeff a []).
        * rewrite coeff_fatom_scale, Qn_0. ring.
        * ring.
      + assert (Hp : (0 <? colsum d S x ps j)%nat = true) by (apply Nat.ltb_lt; lia).
        rewrite Hp. reflexivity.
  Qed.

  Lemma bic_gen_form : forall a x ps C S, good_C cards d x ps C -> good_S cards d x ps S ->
    coeff a (bic_gen cards d C S x ps) = coeff a (bic_spec cards d x ps).
  Proof.
    intros a x ps C S HC HS. unfold bic_gen, bic_spec, nparams.
    rewrite !coeff_app, !coeff_neg, (ll_gen_form a x ps C S HC HS), length_all_cfgs.
    rewrite (coeff_fatom_scale a (_ * _ * _)), (coeff_fatom_scale a (_ * (_ * _))). ring.
  Qed.
  Lemma aic_gen_form : forall a x ps C S, good_C cards d x ps C -> good_S cards d x ps S ->
    coeff a (aic_gen cards d C S x ps) = coeff a (aic_spec cards d x ps).
  Proof.
    intros a x ps C S HC HS. unfold aic_gen, aic_spec, nparams.
    rewrite !coeff_app, !coeff_neg, (ll_gen_form a x ps C S HC HS), length_all_cfgs. reflexivity.
  Qed.

  (* ------------------------------------------------------------ the scores as coded *)
  Local Notation card := (card cards).
  Definition n_cols (ps : list nat) : Qc := Qn (length (cfgs_coded d ps)).          (* counts.shape[1] *)
  Definition n_rows (x : nat) (ps : list nat) : Qc := Qn (length (states_coded cards d x ps)). (* counts.shape[0] *)

  Lemma wf_vars_cons : forall x ps, wf_vars cards (x :: ps) -> (x < length cards)%nat /\ wf_vars cards ps.
  Proof. intros x ps H. split; [apply H; left; reflexivity | intros v Hv; apply H; right; assumption]. Qed.

  Lemma length_states_coded : forall x ps, wf_data cards d -> (x < length cards)%nat ->
    ps = [] \/ all_states_observed cards d x -> length (states_coded cards d x ps) = card x.
  Proof.
    intros x ps Hd Hx Hobs. destruct ps as [|p ps]; [simpl; apply seq_length|].
    destruct Hobs as [Hobs|Hobs]; [discriminate|].
    destruct (good_S_coded cards d x (p :: ps) Hd Hx) as [S1 [S2 _]].
    rewrite <- (seq_length (card x) 0). apply Permutation_length. apply NoDup_Permutation; auto using seq_NoDup.
    intros k; split; intros Hk; [apply S2; assumption|].
    apply in_seq in Hk. destruct (Hobs k) as [r [Hr E]]; [lia|].
    unfold states_coded. apply in_obs_states. exists r; auto.
  Qed.

  Theorem k2_closed_form_exact : forall x ps, wf_data cards d -> wf_vars cards (x :: ps) ->
    norm (local_score cards d K2 x ps ++ fatom (n_cols ps * (Qn (card x) - n_rows x ps)) LG 1)
    = norm (k2_spec cards d x ps).
  Proof.
    intros x ps Hd Hv. apply wf_vars_cons in Hv. destruct Hv as [Hx Hp]. apply norm_eq_iff. intros a.
    rewrite coeff_app, coeff_fatom_scale. unfold local_score, local_gen.
    apply k2_gen_form; [apply good_C_coded | apply good_S_coded]; assumption.
  Qed.
  Theorem k2_closed_form : forall x ps, wf_data cards d -> wf_vars cards (x :: ps) ->
    norm_lg1 (local_score cards d K2 x ps) = norm_lg1 (k2_spec cards d x ps).
  Proof.
    intros x ps Hd Hv. apply norm_lg1_eq_iff. intros a Ha.
    pose proof (k2_closed_form_exact x ps Hd Hv) as H. rewrite norm_eq_iff in H. specialize (H a).
    rewrite coeff_app, coeff_fatom in H. fold lg1 in H. destruct (atom_eq_dec a lg1); [contradiction|].
    rewrite <- H. ring.
  Qed.

  (* BDeu (after fix 371c84a): the closed form over all configurations and all declared states, no side condition *)
  Theorem bdeu_closed_form : forall ess x ps, wf_data cards d -> wf_vars cards (x :: ps) ->
    norm (local_score cards d (BDeu ess) x ps) = norm (bdeu_spec cards d ess x ps).
  Proof.
    intros ess x ps Hd Hv. apply wf_vars_cons in Hv. destruct Hv as [Hx Hp]. apply norm_eq_iff. intros a.
    unfold local_score, local_gen, bdeu_gen, bdeu_spec.
    cbv zeta. rewrite length_all_cfgs.
    rewrite <- (bd_gen_form a _ _ (Qn (qtot cards ps)) x ps _ _ (good_C_coded cards d x ps Hd Hp)
                  (good_S_coded cards d x ps Hd Hx)).
    ring.
  Qed.

  (* BDs as coded: a BDeu-shaped sum with alpha = ess/q~ but beta = ess/(q r), minus (q - q~) lnG(alpha) *)
  Theorem bds_coded_form : forall ess x ps, wf_data cards d -> wf_vars cards (x :: ps) ->
    norm (local_score cards d (BDs ess) x ps
          ++ fatom (Qn (qtot cards ps) - n_cols ps) LG (ess / n_cols ps))
    = norm (cellsum d (all_cfgs cards ps) (all_states cards x) (Nj cards d x ps)
              (bd_H (ess / n_cols ps)) (bd_h (ess / (Qn (qtot cards ps) * Qn (card x)))) x ps).
  Proof.
    intros ess x ps Hd Hv. apply wf_vars_cons in Hv. destruct Hv as [Hx Hp]. apply norm_eq_iff. intros a.
    rewrite !coeff_app, (coeff_fatom_scale a (_ - _)).
    unfold local_score, local_gen, bds_gen. cbv zeta.
    rewrite <- (bd_gen_form a _ _ (n_cols ps) x ps _ _ (good_C_coded cards d x ps Hd Hp)
                  (good_S_coded cards d x ps Hd Hx)).
    unfold n_cols. ring.
  Qed.

  Theorem bic_closed_form : forall x ps, wf_data cards d -> wf_vars cards (x :: ps) ->
    norm (local_score cards d BIC x ps) = norm (bic_spec cards d x ps).
  Proof.
    intros x ps Hd Hv. apply wf_vars_cons in Hv. destruct Hv as [Hx Hp]. apply norm_eq_iff. intros a.
    apply bic_gen_form; [apply good_C_coded | apply good_S_coded]; assumption.
  Qed.
  Theorem aic_closed_form : forall x ps, wf_data cards d -> wf_vars cards (x :: ps) ->
    norm (local_score cards d AIC x ps) = norm (aic_spec cards d x ps).
  Proof.
    intros x ps Hd Hv. apply wf_vars_cons in Hv. destruct Hv as [Hx Hp]. apply norm_eq_iff. intros a.
    apply aic_gen_form; [apply good_C_coded | apply good_S_coded]; assumption.
  Qed.
End S.

(* ---------------------------------------------------------------- refutations by witness *)
Definition wf_datab (cards : list nat) (d : list (list nat)) : bool := valid_data cards d.
Lemma valid_data_wf : forall cards d, valid_data cards d = true -> wf_data cards d.
Proof.
  intros cards d H r Hr. unfold valid_data in H. rewrite forallb_forall in H. specialize (H r Hr).
  unfold valid_row in H. apply andb_true_iff in H. destruct H as [H1 H2]. apply Nat.eqb_eq in H1.
  split; [assumption|]. intros v Hv. rewrite forallb_forall in H2.
  specialize (H2 v). apply Nat.ltb_lt. apply H2. apply in_seq. lia.
Qed.
Lemma valid_vars_wf : forall cards vs, valid_vars cards vs = true -> wf_vars cards vs.
Proof.
  intros cards vs H v Hv. unfold valid_vars in H. rewrite forallb_forall in H. apply Nat.ltb_lt. apply H; assumption.
Qed.

(* the witness that refuted the BDeu closed form before fix 371c84a (binary-declared variable of which only
   state 0 occurs, one single-state parent) now satisfies it *)
Example bdeu_old_witness :
  norm (local_score [2; 1]%nat [[0; 0]]%nat (BDeu 1) 0%nat [1%nat])
  = norm (bdeu_spec [2; 1]%nat [[0; 0]]%nat 1 0%nat [1%nat]).
Proof. apply bdeu_closed_form; [apply valid_data_wf; reflexivity | apply valid_vars_wf; reflexivity]. Qed.

(* BDs against Scutari's definition: a one-state variable with a three-state parent of which two
   states occur; the published score is empty (0), the coded one contains 2 lnG(4/3) *)
Theorem bds_unobserved_configs_refuted :
  exists cards d x ps ess, wf_data cards d /\ wf_vars cards (x :: ps) /\
    norm (local_score cards d (BDs ess) x ps) <> norm (bds_spec cards d ess x ps).
Proof.
  exists [1; 3]%nat, [[0; 0]; [0; 1]]%nat, 0%nat, [1%nat], 1.
  split; [apply valid_data_wf; reflexivity|]. split; [apply valid_vars_wf; reflexivity|].
  intros H. rewrite norm_eq_iff in H. specialize (H (LG, Q2Qc (4 # 3))).
  apply (f_equal (fun q => Qnum (this q))) in H. vm_compute in H. discriminate.
Qed.
