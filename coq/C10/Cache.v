(* C10 proofs, part 3: the LRU cache is transparent; score() decomposes. *)
From Coq Require Import List ZArith QArith Qcanon Bool Arith Lia Permutation.
From PV Require Import Base.Formal C10.Model C10.Spec C10.Counts.
Import ListNotations.

Section LRUProofs.
  Variables K V : Type.
  Variable keqb : K -> K -> bool.
  Variable f : K -> V.
  Hypothesis keqb_sound : forall a b, keqb a b = true -> a = b.

  Definition cache_ok (maxs : nat) (c : list (K * V)) : Prop :=
    (forall k v, In (k, v) c -> v = f k) /\ (length c <= maxs)%nat.

  Lemma lookup_sound : forall k c v, lookup K V keqb k c = Some v -> In (k, v) c.
  Proof.
    induction c as [|[k' v'] c IH]; simpl; intros v H; [discriminate|].
    destruct (keqb k k') eqn:E.
    - apply keqb_sound in E. inversion H; subst. left; reflexivity.
    - right. apply IH; assumption.
  Qed.
  Lemma remove_incl : forall k c e, In e (remove K V keqb k c) -> In e c.
  Proof.
    induction c as [|[k' v'] c IH]; simpl; intros e H; [contradiction|].
    destruct (keqb k k'); [right; assumption|]. destruct H as [H|H]; [left; assumption | right; apply IH; assumption].
  Qed.
  Lemma remove_length : forall k c v, lookup K V keqb k c = Some v ->
    (length (remove K V keqb k c) + 1 = length c)%nat.
  Proof.
    induction c as [|[k' v'] c IH]; simpl; intros v H; [discriminate|].
    destruct (keqb k k'); [lia|]. simpl. rewrite (IH v H). reflexivity.
  Qed.
  Lemma tl_incl : forall (c : list (K * V)) e, In e (tl c) -> In e c.
  Proof. destruct c; simpl; auto. Qed.

  Lemma lru_call_ok : forall maxs c k, (1 <= maxs)%nat -> cache_ok maxs c ->
    let '(v, _, c') := lru_call K V keqb f maxs c k in v = f k /\ cache_ok maxs c'.
  Proof.
    intros maxs c k Hm [H1 H2]. unfold lru_call. destruct (lookup K V keqb k c) as [v|] eqn:E.
    - pose proof (lookup_sound k c v E) as Hin. split; [apply H1; assumption|]. split.
      + intros k0 v0 Hi. apply in_app_or in Hi. destruct Hi as [Hi|[Hi|[]]].
        * apply H1. eapply remove_incl; eauto.
        * inversion Hi; subst. apply H1; assumption.
      + rewrite app_length. simpl. rewrite (remove_length k c v E). assumption.
    - split; [reflexivity|]. split.
      + intros k0 v0 Hi. apply in_app_or in Hi. destruct Hi as [Hi|[Hi|[]]].
        * apply H1. destruct (maxs <=? length c)%nat; [apply tl_incl|]; assumption.
        * inversion Hi; subst. reflexivity.
      + rewrite app_length. simpl. destruct (maxs <=? length c)%nat eqn:E2.
        * apply Nat.leb_le in E2. destruct c; simpl in *; lia.
        * apply Nat.leb_gt in E2. lia.
  Qed.

  Theorem lru_transparent : forall maxs calls c, (1 <= maxs)%nat -> cache_ok maxs c ->
    map fst (fst (lru_run K V keqb f maxs c calls)) = map f calls
    /\ cache_ok maxs (snd (lru_run K V keqb f maxs c calls)).
  Proof.
    intros maxs calls. induction calls as [|k calls IH]; intros c Hm Hc; simpl.
    - split; [reflexivity | assumption].
    - pose proof (lru_call_ok maxs c k Hm Hc) as H.
      destruct (lru_call K V keqb f maxs c k) as [[v h] c1]. destruct H as [Hv Hc1].
      specialize (IH c1 Hm Hc1). destruct (lru_run K V keqb f maxs c1 calls) as [vs c2]. simpl in *.
      destruct IH as [IH1 IH2]. split; [rewrite Hv, IH1; reflexivity | assumption].
  Qed.
End LRUProofs.

Lemma key_eqb_sound : forall a b, key_eqb a b = true -> a = b.
Proof.
  intros [x p] [y q] H. unfold key_eqb in H. simpl in H. apply andb_true_iff in H. destruct H as [H1 H2].
  apply Nat.eqb_eq in H1. apply cfg_eqb_eq in H2. congruence.
Qed.

(* every call sequence through ScoreCache returns exactly the uncached local scores *)
Theorem cache_transparent : forall cards d sc maxs calls, (1 <= maxs)%nat ->
  map fst (fst (cached_scores cards d sc maxs calls)) = map (fun k => local_score cards d sc (fst k) (snd k)) calls
  /\ (forall k v, In (k, v) (snd (cached_scores cards d sc maxs calls)) -> v = local_score cards d sc (fst k) (snd k))
  /\ (length (snd (cached_scores cards d sc maxs calls)) <= maxs)%nat.
Proof.
  intros cards d sc maxs calls Hm. unfold cached_scores.
  destruct (lru_transparent key (list (Qc * atom)) key_eqb
              (fun k => local_score cards d sc (fst k) (snd k)) key_eqb_sound maxs calls [] Hm) as [H1 [H2 H3]].
  - split; [intros k v []| simpl; lia].
  - auto.
Qed.

(* ScoreCache.score(model), called after ANY sequence of cached local_score calls, is exactly score(model) of
   the wrapped score (local scores and structure prior), and leaves a valid cache *)
Lemma fold_left_app_map : forall A (F : A -> list (Qc * atom)) l acc,
  fold_left (fun acc v => acc ++ F v) l acc = fold_left (fun acc s => acc ++ s) (map F l) acc.
Proof. induction l as [|a l IH]; intros acc; simpl; [reflexivity | apply IH]. Qed.
Theorem cache_transparent_total : forall cards d sc maxs calls nodes edges, (1 <= maxs)%nat ->
  let c := snd (cached_scores cards d sc maxs calls) in
  fst (cached_total_score cards d sc maxs c nodes edges) = total_score cards d sc nodes edges
  /\ (forall k v, In (k, v) (snd (cached_total_score cards d sc maxs c nodes edges)) ->
        v = local_score cards d sc (fst k) (snd k))
  /\ (length (snd (cached_total_score cards d sc maxs c nodes edges)) <= maxs)%nat.
Proof.
  intros cards d sc maxs calls nodes edges Hm c.
  destruct (cache_transparent cards d sc maxs calls Hm) as [_ [C1 C2]]. fold c in C1, C2.
  unfold cached_total_score.
  destruct (lru_transparent key (list (Qc * atom)) key_eqb
              (fun k => local_score cards d sc (fst k) (snd k)) key_eqb_sound maxs
              (map (fun v => (v, preds edges v)) nodes) c Hm (conj C1 C2)) as [H1 [H2 H3]].
  destruct (lru_run key (list (Qc * atom)) key_eqb (fun k => local_score cards d sc (fst k) (snd k)) maxs c
              (map (fun v => (v, preds edges v)) nodes)) as [outs c'].
  simpl in *. split; [|split; assumption].
  unfold total_score. f_equal.
  rewrite (fold_left_app_map _ (@fst (list (Qc * atom)) bool)), H1, map_map.
  rewrite (fold_left_app_map _ (fun v => local_score cards d sc v (preds edges v))). reflexivity.
Qed.

(* score(model) = sum of the local scores + structure prior, under every interpretation *)
Lemma fold_left_app_acc : forall (F : nat -> list (Qc * atom)) nodes acc,
  fold_left (fun acc v => acc ++ F v) nodes acc = acc ++ fsumof nodes F.
Proof.
  induction nodes as [|v nodes IH]; intros acc; simpl; [rewrite app_nil_r; reflexivity|].
  rewrite IH, app_assoc. reflexivity.
Qed.
Theorem score_decomposable : forall cards d sc nodes edges interp,
  denote interp (total_score cards d sc nodes edges)
  = (qsum nodes (fun v => denote interp (local_score cards d sc v (preds edges v)))
     + denote interp (structure_prior sc (length nodes) (length edges)))%Qc.
Proof.
  intros. unfold total_score. rewrite fold_left_app_acc. simpl.
  rewrite denote_app, denote_sumof. reflexivity.
Qed.
Theorem score_decomposable_norm : forall cards d sc nodes edges,
  norm (total_score cards d sc nodes edges)
  = norm (fsumof nodes (fun v => local_score cards d sc v (preds edges v))
          ++ structure_prior sc (length nodes) (length edges)).
Proof. intros. unfold total_score. rewrite fold_left_app_acc. reflexivity. Qed.
