(* C10 proofs, part 5: invariance of every local score under row permutation. *)
From Coq Require Import List ZArith QArith Qcanon Bool Arith Lia Permutation.
From PV Require Import Base.Formal C10.Model C10.Spec C10.Counts C10.Closed.
Import ListNotations.
Local Open Scope Qc_scope.

Lemma norm_cancel : forall s s' e e' t t', e = e' -> t = t' ->
  norm (s ++ e) = norm t -> norm (s' ++ e') = norm t' -> norm s = norm s'.
Proof.
  intros s s' e e' t t' <- <- H1 H2. rewrite norm_eq_iff in *. intros a.
  specialize (H1 a). specialize (H2 a). rewrite coeff_app in H1, H2.
  apply (f_equal (fun z => z - coeff a e)) in H1. apply (f_equal (fun z => z - coeff a e)) in H2.
  ring_simplify in H1. ring_simplify in H2. congruence.
Qed.

Section RowPerm.
  Variable cards : list nat.
  Variables d d' : list (list nat).
  Hypothesis HP : Permutation d d'.

  Lemma N_perm : forall x ps j k, N d x ps j k = N d' x ps j k.
  Proof. intros. unfold N. apply count_perm. exact HP. Qed.
  Lemma Nj_perm : forall x ps j, Nj cards d x ps j = Nj cards d' x ps j.
  Proof. intros. unfold Nj. apply nsum_ext. intros k _. apply N_perm. Qed.
  Lemma cellsum_perm : forall L S Hf hf x ps,
    cellsum d L S (Nj cards d x ps) Hf hf x ps = cellsum d' L S (Nj cards d' x ps) Hf hf x ps.
  Proof.
    intros. unfold cellsum, fsumof. apply flat_map_ext. intros j. rewrite Nj_perm. f_equal.
    apply flat_map_ext. intros k. rewrite N_perm. reflexivity.
  Qed.
  Lemma wf_perm : wf_data cards d -> wf_data cards d'.
  Proof. intros H r Hr. apply H. eapply Permutation_in; [apply Permutation_sym; exact HP | exact Hr]. Qed.
  Lemma cfgs_coded_len : forall ps, length (cfgs_coded d ps) = length (cfgs_coded d' ps).
  Proof.
    intros [|p ps]; [reflexivity|]. unfold cfgs_coded. apply Permutation_length.
    apply NoDup_Permutation; try apply NoDup_nodup. intros j. rewrite !in_obs_cfgs.
    split; intros [r [H1 H2]]; exists r; split; auto.
    - eapply Permutation_in; [exact HP | exact H1].
    - eapply Permutation_in; [apply Permutation_sym; exact HP | exact H1].
  Qed.
  Lemma states_coded_len : forall x ps, length (states_coded cards d x ps) = length (states_coded cards d' x ps).
  Proof.
    intros x [|p ps]; [reflexivity|]. unfold states_coded. apply Permutation_length.
    apply NoDup_Permutation; try apply NoDup_nodup. intros j. rewrite !in_obs_states.
    split; intros [r [H1 H2]]; exists r; split; auto.
    - eapply Permutation_in; [exact HP | exact H1].
    - eapply Permutation_in; [apply Permutation_sym; exact HP | exact H1].
  Qed.

  Theorem row_perm : forall sc x ps, wf_data cards d -> wf_vars cards (x :: ps) ->
    norm (local_score cards d sc x ps) = norm (local_score cards d' sc x ps).
  Proof.
    intros sc x ps Hd Hv. pose proof (wf_perm Hd) as Hd'.
    assert (Ec : n_cols d ps = n_cols d' ps) by (unfold n_cols; rewrite cfgs_coded_len; reflexivity).
    assert (Er : n_rows cards d x ps = n_rows cards d' x ps) by (unfold n_rows; rewrite states_coded_len; reflexivity).
    destruct sc as [|ess|ess| |].
    - eapply norm_cancel; [| |apply (k2_closed_form_exact cards d x ps Hd Hv)|apply (k2_closed_form_exact cards d' x ps Hd' Hv)].
      + rewrite Ec, Er. reflexivity.
      + unfold k2_spec. apply cellsum_perm.
    - rewrite (bdeu_closed_form cards d ess x ps Hd Hv), (bdeu_closed_form cards d' ess x ps Hd' Hv).
      unfold bdeu_spec. cbv zeta. rewrite cellsum_perm. reflexivity.
    - eapply norm_cancel; [| |apply (bds_coded_form cards d ess x ps Hd Hv)|apply (bds_coded_form cards d' ess x ps Hd' Hv)].
      + rewrite Ec. reflexivity.
      + rewrite Ec. apply cellsum_perm.
    - rewrite (bic_closed_form cards d x ps Hd Hv), (bic_closed_form cards d' x ps Hd' Hv).
      unfold bic_spec, ll_spec. rewrite cellsum_perm, (Permutation_length HP). reflexivity.
    - rewrite (aic_closed_form cards d x ps Hd Hv), (aic_closed_form cards d' x ps Hd' Hv).
      unfold aic_spec, ll_spec. rewrite cellsum_perm. reflexivity.
  Qed.
End RowPerm.
