(* C10 proofs, part 6: reversing a covered arc preserves BDeu (spec level + coded level). *)
From Coq Require Import List ZArith QArith Qcanon Bool Arith Lia Permutation.
From PV Require Import Base.Formal C10.Model C10.Spec C10.Counts C10.Closed.
Import ListNotations.
Local Open Scope Qc_scope.

Lemma nsum_plus : forall A (l : list A) g h, nsum l (fun x => (g x + h x)%nat) = (nsum l g + nsum l h)%nat.
Proof. induction l; intros; simpl; [reflexivity | rewrite IHl; lia]. Qed.
Lemma nsum_ind0 : forall c s g, (g < s)%nat ->
  nsum (seq s c) (fun v => if (g =? v)%nat then 1%nat else 0%nat) = 0%nat.
Proof.
  intros. apply nsum_zero. intros v Hv. apply in_seq in Hv.
  destruct (g =? v)%nat eqn:E; [apply Nat.eqb_eq in E; lia | reflexivity].
Qed.
Lemma nsum_ind : forall c s g, (s <= g < s + c)%nat ->
  nsum (seq s c) (fun v => if (g =? v)%nat then 1%nat else 0%nat) = 1%nat.
Proof.
  induction c as [|c IH]; intros s g H; [lia|]. simpl.
  destruct (g =? s)%nat eqn:E.
  - apply Nat.eqb_eq in E. subst. rewrite nsum_ind0 by lia. reflexivity.
  - apply Nat.eqb_neq in E. rewrite IH by lia. reflexivity.
Qed.

(* summing the counts over all states of column y gives the count without y *)
Lemma marginal : forall (d : list (list nat)) (p : list nat -> bool) y c,
  (forall r, In r d -> (getv r y < c)%nat) ->
  nsum (seq 0 c) (fun k => length (filter (fun r => p r && (getv r y =? k)%nat) d)) = length (filter p d).
Proof.
  induction d as [|r d IH]; intros p y c H; simpl.
  - apply nsum_zero. reflexivity.
  - rewrite (nsum_ext _ _ _ (fun k => ((if (getv r y =? k)%nat then (if p r then 1 else 0) else 0)
                                        + length (filter (fun r0 => p r0 && (getv r0 y =? k)%nat) d))%nat)).
    + rewrite nsum_plus, IH by (intros; apply H; right; assumption).
      assert (Hr := H r (or_introl eq_refl)).
      destruct (p r); simpl.
      * rewrite nsum_ind by lia. reflexivity.
      * rewrite nsum_zero; [reflexivity|]. intros k _. destruct (getv r y =? k)%nat; reflexivity.
    + intros k _. destruct (p r); destruct (getv r y =? k)%nat; simpl; reflexivity.
Qed.

Section Rev.
  Variable cards : list nat.
  Variable d : list (list nat).
  Hypothesis Hd : wf_data cards d.
  Local Notation card := (card cards).
  Local Notation U := (all_cfgs cards).

  Lemma getv_lt : forall y r, (y < length cards)%nat -> In r d -> (getv r y < card y)%nat.
  Proof. intros y r Hy Hr. destruct (Hd r Hr) as [_ H]. apply H; assumption. Qed.

  Lemma N_swap : forall x y P v j k, N d y (x :: P) (v :: j) k = N d x (y :: P) (k :: j) v.
  Proof.
    intros. unfold N, count. f_equal. apply filter_ext. intros r. simpl.
    destruct (getv r x =? v)%nat, (cfg_eqb (proj P r) j), (getv r y =? k)%nat; reflexivity.
  Qed.
  Lemma Nj_cons : forall x y P v j, (y < length cards)%nat -> Nj cards d y (x :: P) (v :: j) = N d x P j v.
  Proof.
    intros x y P v j Hy. unfold Nj, all_states, N, count.
    rewrite (marginal d (fun r => cfg_eqb (proj (x :: P) r) (v :: j)) y (card y)) by (intros; apply getv_lt; assumption).
    f_equal. apply filter_ext. intros r. simpl. apply andb_comm.
  Qed.
  Definition cnt (P : list nat) (j : list nat) : nat := length (filter (fun r => cfg_eqb (proj P r) j) d).
  Lemma Nj_total : forall x P j, (x < length cards)%nat -> Nj cards d x P j = cnt P j.
  Proof.
    intros x P j Hx. unfold Nj, all_states, N, count, cnt.
    apply (marginal d (fun r => cfg_eqb (proj P r) j) x (card x)). intros; apply getv_lt; assumption.
  Qed.
  Lemma qsum_all_cons : forall x P g,
    qsum (U (x :: P)) g = qsum (seq 0 (card x)) (fun v => qsum (U P) (fun j => g (v :: j))).
  Proof.
    intros. simpl. rewrite qsum_flat_map. apply qsum_ext. intros v _. rewrite qsum_map. reflexivity.
  Qed.
  Lemma len_all_cons : forall x P, Qn (length (U (x :: P))) = Qn (card x) * Qn (length (U P)).
  Proof. intros. rewrite !length_all_cfgs. unfold qtot. simpl. rewrite Qn_mul. reflexivity. Qed.

  (* the symmetric form of  BDeu(x | P) + BDeu(y | x, P) *)
  Definition bdeu_sym (a : atom) (ess : Qc) (x y : nat) (P : list nat) : Qc :=
    qsum (U P) (fun j => coeff a (bd_H (ess / Qn (length (U P))) (cnt P j)))
    + qsum (seq 0 (card x)) (fun v => qsum (U P) (fun j => qsum (seq 0 (card y)) (fun k =>
        coeff a (bd_h (ess / (Qn (length (U P)) * Qn (card x) * Qn (card y))) 0%nat (N d y (x :: P) (v :: j) k))))).

  Lemma bdeu_pair : forall a ess x y P, (x < length cards)%nat -> (y < length cards)%nat ->
    coeff a (bdeu_spec cards d ess x P) + coeff a (bdeu_spec cards d ess y (x :: P)) = bdeu_sym a ess x y P.
  Proof.
    intros a ess x y P Hx Hy. unfold bdeu_spec. cbv zeta. rewrite !coeff_cellsum.
    rewrite !qsum_all_cons, len_all_cons. unfold all_states.
    (* first-level terms of y|x,P cancel the second-level terms of x|P *)
    rewrite (qsum_ext _ (seq 0 (card x)) (fun v => qsum (U P) (fun j =>
               coeff a (bd_H (ess / (Qn (card x) * Qn (length (U P)))) (Nj cards d y (x :: P) (v :: j)))))
             (fun v => qsum (U P) (fun j => - coeff a (bd_h (ess / (Qn (length (U P)) * Qn (card x))) 0%nat (N d x P j v))))).
    2:{ intros v _. apply qsum_ext. intros j _. rewrite Nj_cons by assumption.
        replace (Qn (card x) * Qn (length (U P))) with (Qn (length (U P)) * Qn (card x)) by ring.
        unfold bd_H, bd_h. rewrite !coeff_app, !coeff_neg. ring. }
    rewrite (qsum_swap _ _ (seq 0 (card x)) (U P)).
    rewrite (qsum_ext _ (U P) (fun j => coeff a (bd_H (ess / Qn (length (U P))) (Nj cards d x P j)))
              (fun j => coeff a (bd_H (ess / Qn (length (U P))) (cnt P j))))
      by (intros j _; rewrite Nj_total by assumption; reflexivity).
    unfold bdeu_sym.
    replace (Qn (card x) * Qn (length (U P)) * Qn (card y)) with (Qn (length (U P)) * Qn (card x) * Qn (card y)) by ring.
    match goal with |- ?A + ?B + (?C + ?D) = ?A + ?E => assert (HBC : B + C = 0); [|assert (HDE : D = E)] end.
    - rewrite <- qsum_plus. rewrite (qsum_ext _ _ _ (fun _ => 0)); [apply qsum_zero|].
      intros j _. rewrite <- qsum_plus. rewrite (qsum_ext _ _ _ (fun _ => 0)); [apply qsum_zero|].
      intros v _. unfold bd_h. ring.
    - apply qsum_ext. intros v _. apply qsum_ext. intros j _. apply qsum_ext. intros k _. reflexivity.
    - match goal with |- ?A + ?B + (?C + ?D) = _ => replace (A + B + (C + D)) with (A + (B + C) + D) by ring end.
      rewrite HBC, HDE. ring.
  Qed.

  Lemma bdeu_sym_comm : forall a ess x y P, bdeu_sym a ess x y P = bdeu_sym a ess y x P.
  Proof.
    intros. unfold bdeu_sym. f_equal.
    replace (Qn (length (U P)) * Qn (card y) * Qn (card x)) with (Qn (length (U P)) * Qn (card x) * Qn (card y)) by ring.
    set (g := ess / (Qn (length (U P)) * Qn (card x) * Qn (card y))).
    symmetry.
    etransitivity; [apply qsum_ext; intros k _; apply qsum_swap|].
    rewrite qsum_swap. apply qsum_ext. intros v _. rewrite qsum_swap.
    apply qsum_ext. intros j _. apply qsum_ext. intros k _. rewrite N_swap. reflexivity.
  Qed.

  Theorem bdeu_covered_reversal_spec : forall ess x y P, (x < length cards)%nat -> (y < length cards)%nat ->
    norm (bdeu_spec cards d ess x P ++ bdeu_spec cards d ess y (x :: P))
    = norm (bdeu_spec cards d ess y P ++ bdeu_spec cards d ess x (y :: P)).
  Proof.
    intros ess x y P Hx Hy. apply norm_eq_iff. intros a. rewrite !coeff_app.
    rewrite (bdeu_pair a ess x y P Hx Hy), (bdeu_pair a ess y x P Hy Hx). apply bdeu_sym_comm.
  Qed.

  Theorem bdeu_covered_reversal : forall ess x y P, wf_vars cards (x :: y :: P) ->
    norm (local_score cards d (BDeu ess) x P ++ local_score cards d (BDeu ess) y (x :: P))
    = norm (local_score cards d (BDeu ess) y P ++ local_score cards d (BDeu ess) x (y :: P)).
  Proof.
    intros ess x y P Hv.
    assert (Hx : (x < length cards)%nat) by (apply Hv; left; reflexivity).
    assert (Hy : (y < length cards)%nat) by (apply Hv; right; left; reflexivity).
    assert (HP : wf_vars cards P) by (intros v Hin; apply Hv; right; right; assumption).
    assert (V1 : wf_vars cards (x :: P)) by (intros v [<-|Hin]; auto).
    assert (V2 : wf_vars cards (y :: x :: P)) by (intros v [<-|[<-|Hin]]; auto).
    assert (V3 : wf_vars cards (y :: P)) by (intros v [<-|Hin]; auto).
    pose proof (bdeu_closed_form cards d ess x P Hd V1) as E1.
    pose proof (bdeu_closed_form cards d ess y (x :: P) Hd V2) as E2.
    pose proof (bdeu_closed_form cards d ess y P Hd V3) as E3.
    pose proof (bdeu_closed_form cards d ess x (y :: P) Hd Hv) as E4.
    pose proof (bdeu_covered_reversal_spec ess x y P Hx Hy) as E.
    rewrite norm_eq_iff in *. intros a. specialize (E a). rewrite !coeff_app in *.
    rewrite (E1 a), (E2 a), (E3 a), (E4 a). exact E.
  Qed.

  (* ------------------------------------------------------------ log-likelihood part, BIC, AIC *)
  Lemma ll_h_coeff : forall a nj n,
    coeff a (ll_h nj n) = Qn n * coeff a (fatom 1 LN (Qn n)) - Qn n * coeff a (fatom 1 LN (Qn nj)).
  Proof.
    intros a nj n. unfold ll_h. destruct n as [|n].
    - rewrite (Nat.ltb_irrefl 0), Qn_0. simpl (coeff a []). ring.
    - replace (0 <? S n)%nat with true by (symmetry; apply Nat.ltb_lt; lia).
      rewrite coeff_app, coeff_neg, !(coeff_fatom_scale a (Qn (S n))). ring.
  Qed.

  Lemma qsum_Nj_total : forall x P j, (x < length cards)%nat ->
    qsum (seq 0 (card x)) (fun v => Qn (N d x P j v)) = Qn (cnt P j).
  Proof. intros x P j Hx. rewrite <- Qn_nsum. f_equal. exact (Nj_total x P j Hx). Qed.
  Lemma qsum_Nj_cons : forall x y P v j, (y < length cards)%nat ->
    qsum (seq 0 (card y)) (fun k => Qn (N d y (x :: P) (v :: j) k)) = Qn (N d x P j v).
  Proof. intros x y P v j Hy. rewrite <- Qn_nsum. f_equal. exact (Nj_cons x y P v j Hy). Qed.

  Definition ll_sym (a : atom) (x y : nat) (P : list nat) : Qc :=
    - qsum (U P) (fun j => Qn (cnt P j) * coeff a (fatom 1 LN (Qn (cnt P j))))
    + qsum (seq 0 (card x)) (fun v => qsum (U P) (fun j => qsum (seq 0 (card y)) (fun k =>
        Qn (N d y (x :: P) (v :: j) k) * coeff a (fatom 1 LN (Qn (N d y (x :: P) (v :: j) k)))))).

  Lemma ll_pair : forall a x y P, (x < length cards)%nat -> (y < length cards)%nat ->
    coeff a (ll_spec cards d x P) + coeff a (ll_spec cards d y (x :: P)) = ll_sym a x y P.
  Proof.
    intros a x y P Hx Hy. unfold ll_spec. rewrite !coeff_cellsum. simpl (coeff a []). rewrite !qsum_zero.
    rewrite qsum_all_cons. unfold all_states.
    (* x | P *)
    rewrite (qsum_ext _ (U P) (fun j => qsum (seq 0 (card x)) (fun k => coeff a (ll_h (Nj cards d x P j) (N d x P j k))))
              (fun j => qsum (seq 0 (card x)) (fun v => Qn (N d x P j v) * coeff a (fatom 1 LN (Qn (N d x P j v))))
                        - Qn (cnt P j) * coeff a (fatom 1 LN (Qn (cnt P j))))).
    2:{ intros j _. rewrite (Nj_total x P j Hx).
        rewrite (qsum_ext _ _ _ (fun v => Qn (N d x P j v) * coeff a (fatom 1 LN (Qn (N d x P j v)))
                                         + - (coeff a (fatom 1 LN (Qn (cnt P j))) * Qn (N d x P j v))))
          by (intros v _; rewrite ll_h_coeff; ring).
        rewrite qsum_plus, qsum_opp, qsum_scale, (qsum_Nj_total x P j Hx). ring. }
    (* y | x, P *)
    rewrite (qsum_ext _ (seq 0 (card x)) (fun v => qsum (U P) (fun j => qsum (seq 0 (card y)) (fun k =>
                coeff a (ll_h (Nj cards d y (x :: P) (v :: j)) (N d y (x :: P) (v :: j) k)))))
              (fun v => qsum (U P) (fun j => qsum (seq 0 (card y)) (fun k =>
                  Qn (N d y (x :: P) (v :: j) k) * coeff a (fatom 1 LN (Qn (N d y (x :: P) (v :: j) k))))
                  - Qn (N d x P j v) * coeff a (fatom 1 LN (Qn (N d x P j v)))))).
    2:{ intros v _. apply qsum_ext. intros j _.
        rewrite (qsum_ext _ _ _ (fun k => Qn (N d y (x :: P) (v :: j) k) * coeff a (fatom 1 LN (Qn (N d y (x :: P) (v :: j) k)))
                   + - (coeff a (fatom 1 LN (Qn (Nj cards d y (x :: P) (v :: j)))) * Qn (N d y (x :: P) (v :: j) k))))
          by (intros k _; rewrite ll_h_coeff; ring).
        rewrite qsum_plus, qsum_opp, qsum_scale, (qsum_Nj_cons x y P v j Hy), (Nj_cons x y P v j Hy). ring. }
    unfold ll_sym.
    rewrite (qsum_ext _ (U P) _ (fun j => qsum (seq 0 (card x)) (fun v => Qn (N d x P j v) * coeff a (fatom 1 LN (Qn (N d x P j v))))
                                   + - (Qn (cnt P j) * coeff a (fatom 1 LN (Qn (cnt P j)))))) by (intros; ring).
    rewrite qsum_plus, qsum_opp.
    rewrite (qsum_ext _ (seq 0 (card x)) _ (fun v => qsum (U P) (fun j => qsum (seq 0 (card y)) (fun k =>
                  Qn (N d y (x :: P) (v :: j) k) * coeff a (fatom 1 LN (Qn (N d y (x :: P) (v :: j) k)))))
                + - qsum (U P) (fun j => Qn (N d x P j v) * coeff a (fatom 1 LN (Qn (N d x P j v)))))).
    2:{ intros v _. rewrite <- qsum_opp, <- qsum_plus. apply qsum_ext. intros j _. ring. }
    rewrite qsum_plus, qsum_opp. rewrite (qsum_swap _ _ (U P) (seq 0 (card x))). ring.
  Qed.

  Lemma ll_sym_comm : forall a x y P, ll_sym a x y P = ll_sym a y x P.
  Proof.
    intros. unfold ll_sym. f_equal. symmetry.
    etransitivity; [apply qsum_ext; intros k _; apply qsum_swap|].
    rewrite qsum_swap. apply qsum_ext. intros v _. rewrite qsum_swap.
    apply qsum_ext. intros j _. apply qsum_ext. intros k _. rewrite N_swap. reflexivity.
  Qed.

  Theorem bic_covered_reversal : forall x y P, wf_vars cards (x :: y :: P) ->
    norm (local_score cards d BIC x P ++ local_score cards d BIC y (x :: P))
    = norm (local_score cards d BIC y P ++ local_score cards d BIC x (y :: P)).
  Proof.
    intros x y P Hv.
    assert (Hx : (x < length cards)%nat) by (apply Hv; left; reflexivity).
    assert (Hy : (y < length cards)%nat) by (apply Hv; right; left; reflexivity).
    assert (HP : wf_vars cards P) by (intros v Hin; apply Hv; right; right; assumption).
    assert (V1 : wf_vars cards (x :: P)) by (intros v [<-|Hin]; auto).
    assert (V2 : wf_vars cards (y :: x :: P)) by (intros v [<-|[<-|Hin]]; auto).
    assert (V3 : wf_vars cards (y :: P)) by (intros v [<-|Hin]; auto).
    pose proof (bic_closed_form cards d x P Hd V1) as E1.
    pose proof (bic_closed_form cards d y (x :: P) Hd V2) as E2.
    pose proof (bic_closed_form cards d y P Hd V3) as E3.
    pose proof (bic_closed_form cards d x (y :: P) Hd Hv) as E4.
    rewrite norm_eq_iff in *. intros a. rewrite !coeff_app. rewrite (E1 a), (E2 a), (E3 a), (E4 a).
    unfold bic_spec, nparams. rewrite !coeff_app, !coeff_neg, !len_all_cons.
    pose proof (ll_pair a x y P Hx Hy) as L1. pose proof (ll_pair a y x P Hy Hx) as L2.
    rewrite (ll_sym_comm a y x P) in L2.
    rewrite !(coeff_fatom_scale a (_ * _)).
    match goal with |- ?A + - ?p1 + (?B + - ?p2) = ?C + - ?p3 + (?D + - ?p4) =>
      replace (A + - p1 + (B + - p2)) with ((A + B) - (p1 + p2)) by ring;
      replace (C + - p3 + (D + - p4)) with ((C + D) - (p3 + p4)) by ring end.
    rewrite L1, L2. ring.
  Qed.

  Theorem aic_covered_reversal : forall x y P, wf_vars cards (x :: y :: P) ->
    norm (local_score cards d AIC x P ++ local_score cards d AIC y (x :: P))
    = norm (local_score cards d AIC y P ++ local_score cards d AIC x (y :: P)).
  Proof.
    intros x y P Hv.
    assert (Hx : (x < length cards)%nat) by (apply Hv; left; reflexivity).
    assert (Hy : (y < length cards)%nat) by (apply Hv; right; left; reflexivity).
    assert (HP : wf_vars cards P) by (intros v Hin; apply Hv; right; right; assumption).
    assert (V1 : wf_vars cards (x :: P)) by (intros v [<-|Hin]; auto).
    assert (V2 : wf_vars cards (y :: x :: P)) by (intros v [<-|[<-|Hin]]; auto).
    assert (V3 : wf_vars cards (y :: P)) by (intros v [<-|Hin]; auto).
    pose proof (aic_closed_form cards d x P Hd V1) as E1.
    pose proof (aic_closed_form cards d y (x :: P) Hd V2) as E2.
    pose proof (aic_closed_form cards d y P Hd V3) as E3.
    pose proof (aic_closed_form cards d x (y :: P) Hd Hv) as E4.
    rewrite norm_eq_iff in *. intros a. rewrite !coeff_app. rewrite (E1 a), (E2 a), (E3 a), (E4 a).
    unfold aic_spec, nparams, fconst. rewrite !coeff_app, !coeff_neg, !len_all_cons.
    pose proof (ll_pair a x y P Hx Hy) as L1. pose proof (ll_pair a y x P Hy Hx) as L2.
    rewrite (ll_sym_comm a y x P) in L2.
    change (coeff a [(?c, (ONE, 0))]) with (coeff a (fatom c ONE 0)).
    rewrite !(coeff_fatom_scale a (_ * _)).
    match goal with |- ?A + - ?p1 + (?B + - ?p2) = ?C + - ?p3 + (?D + - ?p4) =>
      replace (A + - p1 + (B + - p2)) with ((A + B) - (p1 + p2)) by ring;
      replace (C + - p3 + (D + - p4)) with ((C + D) - (p3 + p4)) by ring end.
    rewrite L1, L2. ring.
  Qed.
End Rev.

(* lifting to the score of a whole family list: only the two families of the reversed arc change *)
Lemma family_reversal : forall cards d sc x y P pre mid post,
  norm (local_score cards d sc x P ++ local_score cards d sc y (x :: P))
  = norm (local_score cards d sc y P ++ local_score cards d sc x (y :: P)) ->
  norm (family_score cards d sc (pre ++ (x, P) :: mid ++ (y, x :: P) :: post))
  = norm (family_score cards d sc (pre ++ (x, y :: P) :: mid ++ (y, P) :: post)).
Proof.
  intros cards d sc x y P pre mid post H. rewrite norm_eq_iff in *. intros a. specialize (H a).
  rewrite !coeff_app in H. unfold family_score. rewrite !coeff_sumof, !qsum_app. simpl qsum.
  rewrite !qsum_app. simpl qsum. simpl fst. simpl snd.
  match goal with |- ?p + (?c1 + (?m + (?c2 + ?q))) = ?p + (?c3 + (?m + (?c4 + ?q))) =>
    replace (p + (c1 + (m + (c2 + q)))) with (p + m + q + (c1 + c2)) by ring;
    replace (p + (c3 + (m + (c4 + q)))) with (p + m + q + (c4 + c3)) by ring end.
  rewrite H. reflexivity.
Qed.
