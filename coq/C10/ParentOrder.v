(* C10 proofs, part 7: every local score is invariant under permuting the parent list.  The counts for the
   parent list (p :: ps) at configuration (v :: j) are the counts for ps at j on the rows selected by p = v;
   a sum over all configurations is therefore an iterated sum over selections, which commute. *)
From Coq Require Import List ZArith QArith Qcanon Bool Arith Lia Permutation.
From PV Require Import Base.Formal C10.Model C10.Spec C10.Counts C10.Closed.
Import ListNotations.
Local Open Scope Qc_scope.

Lemma filter_filter : forall A (f g : A -> bool) l, filter f (filter g l) = filter (fun a => g a && f a) l.
Proof.
  induction l as [|a l IH]; simpl; [reflexivity|]. destruct (g a); simpl; [destruct (f a)|]; rewrite IH; reflexivity.
Qed.
Lemma nsum_map : forall A B (f : A -> B) l g, nsum (map f l) g = nsum l (fun a => g (f a)).
Proof. induction l; intros; simpl; [reflexivity | rewrite IHl; reflexivity]. Qed.

Lemma nodup_len_kernel : forall A B (dec : forall a b : B, {a = b} + {a <> b}) (f g : A -> B) l,
  (forall a b, In a l -> In b l -> (f a = f b <-> g a = g b)) ->
  length (nodup dec (map f l)) = length (nodup dec (map g l)).
Proof.
  induction l as [|a l IH]; intros H; simpl; [reflexivity|].
  assert (IH' : length (nodup dec (map f l)) = length (nodup dec (map g l))).
  { apply IH. intros; apply H; right; assumption. }
  destruct (in_dec dec (f a) (map f l)) as [i1|n1]; destruct (in_dec dec (g a) (map g l)) as [i2|n2]; simpl; auto.
  - exfalso. apply n2. apply in_map_iff in i1. destruct i1 as [b [E Hb]]. apply in_map_iff. exists b. split; [|assumption].
    apply (H b a); [right; assumption | left; reflexivity | assumption].
  - exfalso. apply n1. apply in_map_iff in i2. destruct i2 as [b [E Hb]]. apply in_map_iff. exists b. split; [|assumption].
    apply (H b a); [right; assumption | left; reflexivity | assumption].
Qed.

Definition sel (p v : nat) (d : list (list nat)) : list (list nat) := filter (fun r => (getv r p =? v)%nat) d.
Lemma sel_comm : forall p v q w d, sel p v (sel q w d) = sel q w (sel p v d).
Proof. intros. unfold sel. rewrite !filter_filter. apply filter_ext. intros r. apply andb_comm. Qed.
Lemma count_cons : forall d x p ps v j k, count d x (p :: ps) (v :: j) k = count (sel p v d) x ps j k.
Proof.
  intros. unfold count, sel. rewrite filter_filter. f_equal. apply filter_ext. intros r. simpl.
  rewrite andb_assoc. reflexivity.
Qed.

Section PO.
  Variable cards : list nat.
  Variable x : nat.
  Variable G : list nat -> Qc.

  Definition vec (d : list (list nat)) (ps : list nat) (j : list nat) : list nat :=
    map (fun k => count d x ps j k) (seq 0 (card cards x)).
  Definition T (d : list (list nat)) (ps : list nat) : Qc := qsum (all_cfgs cards ps) (fun j => G (vec d ps j)).

  Lemma T_cons : forall d p ps, T d (p :: ps) = qsum (seq 0 (card cards p)) (fun v => T (sel p v d) ps).
  Proof.
    intros. unfold T. simpl. rewrite qsum_flat_map. apply qsum_ext. intros v _. rewrite qsum_map.
    apply qsum_ext. intros j _. f_equal. unfold vec. apply map_ext. intros k. apply count_cons.
  Qed.
  Lemma T_perm : forall ps ps', Permutation ps ps' -> forall d, T d ps = T d ps'.
  Proof.
    induction 1; intros d.
    - reflexivity.
    - rewrite !T_cons. apply qsum_ext. intros v _. apply IHPermutation.
    - rewrite !T_cons.
      rewrite (qsum_ext _ _ (fun v => T (sel y v d) (x0 :: l)) (fun v => qsum (seq 0 (card cards x0)) (fun w => T (sel x0 w (sel y v d)) l)))
        by (intros; apply T_cons).
      rewrite (qsum_ext _ _ (fun v => T (sel x0 v d) (y :: l)) (fun v => qsum (seq 0 (card cards y)) (fun w => T (sel y w (sel x0 v d)) l)))
        by (intros; apply T_cons).
      rewrite qsum_swap. apply qsum_ext. intros w _. apply qsum_ext. intros v _. rewrite sel_comm. reflexivity.
    - rewrite IHPermutation1. apply IHPermutation2.
  Qed.
End PO.

Section PO2.
  Variable cards : list nat.
  Variable d : list (list nat).

  Definition lsum (v : list nat) : nat := nsum v (fun n => n).
  Definition Gcell (a : atom) (Hf : nat -> list (Qc * atom)) (hf : nat -> nat -> list (Qc * atom)) (v : list nat) : Qc :=
    coeff a (Hf (lsum v)) + qsum v (fun n => coeff a (hf (lsum v) n)).

  Lemma cellsum_T : forall a Hf hf x ps,
    coeff a (cellsum d (all_cfgs cards ps) (all_states cards x) (Nj cards d x ps) Hf hf x ps)
    = T cards x (Gcell a Hf hf) d ps.
  Proof.
    intros. rewrite coeff_cellsum, <- qsum_plus. unfold T. apply qsum_ext. intros j _.
    unfold Gcell, vec, lsum. rewrite nsum_map, qsum_map. reflexivity.
  Qed.
  Lemma cellsum_parent_perm : forall a Hf hf x ps ps', Permutation ps ps' ->
    coeff a (cellsum d (all_cfgs cards ps) (all_states cards x) (Nj cards d x ps) Hf hf x ps)
    = coeff a (cellsum d (all_cfgs cards ps') (all_states cards x) (Nj cards d x ps') Hf hf x ps').
  Proof. intros. rewrite !cellsum_T. apply T_perm. assumption. Qed.

  Lemma qtot_perm : forall ps ps', Permutation ps ps' -> qtot cards ps = qtot cards ps'.
  Proof.
    unfold qtot. induction 1; simpl; auto; try congruence. ring.
  Qed.
  Lemma proj_kernel : forall ps r1 r2, proj ps r1 = proj ps r2 <-> (forall p, In p ps -> getv r1 p = getv r2 p).
  Proof. intros. unfold proj. apply map_ext_in_iff. Qed.
  Lemma n_cols_perm : forall ps ps', Permutation ps ps' -> n_cols d ps = n_cols d ps'.
  Proof.
    intros ps ps' HP. unfold n_cols. f_equal. destruct ps as [|p ps].
    - apply Permutation_nil in HP. subst. reflexivity.
    - destruct ps' as [|p' ps']; [apply Permutation_sym, Permutation_nil in HP; discriminate|].
      unfold cfgs_coded, obs_cfgs. apply nodup_len_kernel. intros r1 r2 _ _. rewrite !proj_kernel.
      split; intros H q Hq; apply H; [apply (Permutation_in q (Permutation_sym HP) Hq) | apply (Permutation_in q HP Hq)].
  Qed.
  Lemma n_rows_perm : forall x ps ps', Permutation ps ps' -> n_rows cards d x ps = n_rows cards d x ps'.
  Proof.
    intros x ps ps' HP. unfold n_rows. destruct ps as [|p ps].
    - apply Permutation_nil in HP. subst. reflexivity.
    - destruct ps' as [|p' ps']; [apply Permutation_sym, Permutation_nil in HP; discriminate | reflexivity].
  Qed.

  Lemma norm_cancel2 : forall s s' e t t', norm t = norm t' ->
    norm (s ++ e) = norm t -> norm (s' ++ e) = norm t' -> norm s = norm s'.
  Proof.
    intros s s' e t t' Ht H1 H2. rewrite norm_eq_iff in *. intros a.
    specialize (H1 a). specialize (H2 a). specialize (Ht a). rewrite coeff_app in H1, H2.
    apply (f_equal (fun z => z - coeff a e)) in H1. apply (f_equal (fun z => z - coeff a e)) in H2.
    ring_simplify in H1. ring_simplify in H2. congruence.
  Qed.

  Theorem parent_order : forall sc x ps ps', Permutation ps ps' -> wf_data cards d -> wf_vars cards (x :: ps) ->
    norm (local_score cards d sc x ps) = norm (local_score cards d sc x ps').
  Proof.
    intros sc x ps ps' HP Hd Hv.
    assert (Hv' : wf_vars cards (x :: ps')).
    { intros v [<-|Hin]; [apply Hv; left; reflexivity | apply Hv; right; apply (Permutation_in v (Permutation_sym HP) Hin)]. }
    pose proof (n_cols_perm ps ps' HP) as Ec. pose proof (n_rows_perm x ps ps' HP) as Er.
    pose proof (qtot_perm ps ps' HP) as Eq.
    destruct sc as [|ess|ess| |].
    - pose proof (k2_closed_form_exact cards d x ps Hd Hv) as H1.
      pose proof (k2_closed_form_exact cards d x ps' Hd Hv') as H2. rewrite <- Ec, <- Er in H2.
      eapply norm_cancel2; [|exact H1|exact H2].
      apply norm_eq_iff. intros a. unfold k2_spec. apply cellsum_parent_perm. assumption.
    - rewrite (bdeu_closed_form cards d ess x ps Hd Hv), (bdeu_closed_form cards d ess x ps' Hd Hv').
      apply norm_eq_iff. intros a. unfold bdeu_spec. cbv zeta. rewrite !length_all_cfgs, <- Eq.
      apply cellsum_parent_perm. assumption.
    - pose proof (bds_coded_form cards d ess x ps Hd Hv) as H1.
      pose proof (bds_coded_form cards d ess x ps' Hd Hv') as H2. rewrite <- Ec, <- Eq in H2.
      eapply norm_cancel2; [|exact H1|exact H2].
      apply norm_eq_iff. intros a. apply cellsum_parent_perm. assumption.
    - rewrite (bic_closed_form cards d x ps Hd Hv), (bic_closed_form cards d x ps' Hd Hv').
      apply norm_eq_iff. intros a. unfold bic_spec, nparams, ll_spec. rewrite !coeff_app, !length_all_cfgs, <- Eq.
      f_equal. apply cellsum_parent_perm. assumption.
    - rewrite (aic_closed_form cards d x ps Hd Hv), (aic_closed_form cards d x ps' Hd Hv').
      apply norm_eq_iff. intros a. unfold aic_spec, nparams, ll_spec. rewrite !coeff_app, !length_all_cfgs, <- Eq.
      f_equal. apply cellsum_parent_perm. assumption.
  Qed.
End PO2.
