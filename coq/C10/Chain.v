(* C10 proofs, part 8: covered-arc reversal for arbitrary parent-list orders, its effect on score(model) for a
   graph given by an edge list, and the chain
     Markov-equivalent DAGs on <= 4 nodes  =>  connected by covered reversals  =>  equal BDeu/BIC/AIC score. *)
From Coq Require Import List ZArith QArith Qcanon Bool Arith Lia Permutation Relations.
From PV Require Import Base.Formal C10.Model C10.Spec C10.Counts C10.Closed C10.Cache C10.Reversal
  C10.ParentOrder C10.Equiv.
Import ListNotations.
Local Open Scope Qc_scope.

Definition equiv_score (sc : score) : Prop :=
  match sc with BDeu _ => True | BIC => True | AIC => True | _ => False end.

Lemma pair_reversal : forall cards d sc, equiv_score sc -> wf_data cards d ->
  forall x y P, wf_vars cards (x :: y :: P) ->
  norm (local_score cards d sc x P ++ local_score cards d sc y (x :: P))
  = norm (local_score cards d sc y P ++ local_score cards d sc x (y :: P)).
Proof.
  intros cards d sc Hs Hd x y P Hv. destruct sc as [|ess|ess| |]; simpl in Hs; try contradiction.
  - apply bdeu_covered_reversal; assumption.
  - apply bic_covered_reversal; assumption.
  - apply aic_covered_reversal; assumption.
Qed.

(* X -> Y covered, parent lists in any order: Pa(Y) ~ X :: Pa(X); after the reversal Pa'(Y) ~ Pa(X), Pa'(X) ~ Y :: Pa(X) *)
Theorem covered_reversal_gen : forall cards d sc x y Px Py Px' Py', equiv_score sc -> wf_data cards d ->
  wf_vars cards (x :: y :: Px) ->
  Permutation Py (x :: Px) -> Permutation Py' Px -> Permutation Px' (y :: Px) ->
  norm (local_score cards d sc x Px ++ local_score cards d sc y Py)
  = norm (local_score cards d sc x Px' ++ local_score cards d sc y Py').
Proof.
  intros cards d sc x y Px Py Px' Py' Hs Hd Hv H1 H2 H3.
  assert (Hx : (x < length cards)%nat) by (apply Hv; left; reflexivity).
  assert (Hy : (y < length cards)%nat) by (apply Hv; right; left; reflexivity).
  assert (HP : wf_vars cards Px) by (intros v Hin; apply Hv; right; right; assumption).
  assert (V1 : wf_vars cards (y :: Py)).
  { intros v [<-|Hin]; [assumption|]. apply (Permutation_in v H1) in Hin. destruct Hin as [<-|Hin]; auto. }
  assert (V2 : wf_vars cards (y :: Py')).
  { intros v [<-|Hin]; [assumption|]. apply (Permutation_in v H2) in Hin. auto. }
  assert (V3 : wf_vars cards (x :: Px')).
  { intros v [<-|Hin]; [assumption|]. apply (Permutation_in v H3) in Hin. destruct Hin as [<-|Hin]; auto. }
  pose proof (parent_order cards d sc y Py (x :: Px) H1 Hd V1) as E1.
  pose proof (parent_order cards d sc y Py' Px H2 Hd V2) as E2.
  pose proof (parent_order cards d sc x Px' (y :: Px) H3 Hd V3) as E3.
  pose proof (pair_reversal cards d sc Hs Hd x y Px Hv) as R.
  rewrite norm_eq_iff in *. intros a. specialize (R a). rewrite !coeff_app in *.
  rewrite (E1 a), (E2 a), (E3 a), R. ring.
Qed.

(* ---------------------------------------------------------------- graphs as edge lists *)
Lemma edge_eqb_iff : forall a b, edge_eqb a b = true <-> a = b.
Proof.
  intros a b. split; [apply edge_eqb_eq|]. intros <-. unfold edge_eqb. rewrite !Nat.eqb_refl. reflexivity.
Qed.
Lemma rev_id : forall g e, ~ In e g -> reverse_edge g e = g.
Proof.
  induction g as [|e' g IH]; intros e H; simpl; [reflexivity|].
  destruct (edge_eqb e e') eqn:E.
  - apply edge_eqb_iff in E. subst. exfalso. apply H. left; reflexivity.
  - f_equal. apply IH. intros Hin. apply H. right; assumption.
Qed.
Lemma in_preds : forall g u v, In u (preds g v) <-> In (u, v) g.
Proof.
  intros. unfold preds. rewrite in_map_iff. split.
  - intros [[a b] [E H]]. apply filter_In in H. destruct H as [H1 H2]. simpl in *. apply Nat.eqb_eq in H2. subst. assumption.
  - intros H. exists (u, v). split; [reflexivity|]. apply filter_In. split; [assumption | simpl; apply Nat.eqb_refl].
Qed.
Lemma preds_cons : forall e g v, preds (e :: g) v = if (snd e =? v)%nat then fst e :: preds g v else preds g v.
Proof. intros. unfold preds. simpl. destruct (snd e =? v)%nat; reflexivity. Qed.

Section RevPreds.
  Variables x y : nat.
  Hypothesis Hxy : x <> y.

  Lemma preds_rev_other : forall g v, v <> x -> v <> y -> preds (reverse_edge g (x, y)) v = preds g v.
  Proof.
    induction g as [|e g IH]; intros v Hvx Hvy; [reflexivity|].
    change (reverse_edge (e :: g) (x, y)) with ((if edge_eqb (x, y) e then (snd (x, y), fst (x, y)) else e) :: reverse_edge g (x, y)).
    rewrite !preds_cons, (IH v Hvx Hvy). destruct (edge_eqb (x, y) e) eqn:E; [|reflexivity].
    apply edge_eqb_iff in E. subst e. simpl.
    destruct (Nat.eqb_spec x v); [congruence|]. destruct (Nat.eqb_spec y v); [congruence | reflexivity].
  Qed.
  Lemma preds_rev_y : forall g, NoDup (preds g y) -> In (x, y) g ->
    Permutation (preds g y) (x :: preds (reverse_edge g (x, y)) y).
  Proof.
    induction g as [|e g IH]; intros Hnd Hin; [destruct Hin|].
    change (reverse_edge (e :: g) (x, y)) with ((if edge_eqb (x, y) e then (snd (x, y), fst (x, y)) else e) :: reverse_edge g (x, y)).
    rewrite preds_cons in Hnd. rewrite !preds_cons.
    destruct (edge_eqb (x, y) e) eqn:E.
    - apply edge_eqb_iff in E. subst e. simpl in *. rewrite Nat.eqb_refl in *.
      destruct (Nat.eqb_spec x y); [congruence|].
      inversion Hnd as [|? ? Hni Hnd']; subst. rewrite rev_id; [reflexivity|].
      intros Hin'. apply Hni. apply in_preds. assumption.
    - assert (Hin' : In (x, y) g).
      { destruct Hin as [->|Hin]; [|assumption]. rewrite (proj2 (edge_eqb_iff (x, y) (x, y)) eq_refl) in E. discriminate. }
      destruct (snd e =? y)%nat.
      + inversion Hnd as [|? ? Hni Hnd']; subst. eapply perm_trans; [apply perm_skip, (IH Hnd' Hin')|]. apply perm_swap.
      + apply IH; assumption.
  Qed.
  Lemma preds_rev_x : forall g, NoDup (preds g y) -> In (x, y) g ->
    Permutation (preds (reverse_edge g (x, y)) x) (y :: preds g x).
  Proof.
    induction g as [|e g IH]; intros Hnd Hin; [destruct Hin|].
    change (reverse_edge (e :: g) (x, y)) with ((if edge_eqb (x, y) e then (snd (x, y), fst (x, y)) else e) :: reverse_edge g (x, y)).
    rewrite preds_cons in Hnd. rewrite !preds_cons.
    destruct (edge_eqb (x, y) e) eqn:E.
    - apply edge_eqb_iff in E. subst e. simpl in *. rewrite Nat.eqb_refl in *.
      destruct (Nat.eqb_spec y x); [congruence|].
      inversion Hnd as [|? ? Hni Hnd']; subst. rewrite rev_id; [reflexivity|].
      intros Hin'. apply Hni. apply in_preds. assumption.
    - assert (Hin' : In (x, y) g).
      { destruct Hin as [->|Hin]; [|assumption]. rewrite (proj2 (edge_eqb_iff (x, y) (x, y)) eq_refl) in E. discriminate. }
      assert (Hnd' : NoDup (preds g y)).
      { destruct (snd e =? y)%nat; [inversion Hnd; assumption | assumption]. }
      destruct (snd e =? x)%nat.
      + eapply perm_trans; [apply perm_skip, (IH Hnd' Hin')|]. apply perm_swap.
      + apply IH; assumption.
  Qed.
End RevPreds.

(* reflection of the boolean sanity check *)
Lemma memb_In : forall x l, memb x l = true <-> In x l.
Proof.
  intros. unfold memb. rewrite existsb_exists. split.
  - intros [z [H1 H2]]. apply Nat.eqb_eq in H2. subst. assumption.
  - intros H. exists x. split; [assumption | apply Nat.eqb_refl].
Qed.
Lemma nodupb_NoDup : forall l, nodupb l = true -> NoDup l.
Proof.
  induction l as [|a l IH]; simpl; intros H; [constructor|]. apply andb_true_iff in H. destruct H as [H1 H2].
  constructor; [|apply IH; assumption]. intros Hin. apply memb_In in Hin. rewrite Hin in H1. discriminate.
Qed.
Lemma okb_edge : forall n g e, okb n g = true -> In e g ->
  (fst e < n)%nat /\ (snd e < n)%nat /\ fst e <> snd e /\ ~ In (fst e) (preds g (fst e)).
Proof.
  intros n g e H Hin. unfold okb in H. apply andb_true_iff in H. destruct H as [H _].
  rewrite forallb_forall in H. specialize (H e Hin).
  repeat (apply andb_true_iff in H; destruct H as [H ?]).
  repeat split.
  - apply Nat.ltb_lt; assumption.
  - apply Nat.ltb_lt; assumption.
  - apply negb_true_iff in H1. apply Nat.eqb_neq in H1. assumption.
  - intros Hi. apply memb_In in Hi. rewrite Hi in H0. discriminate.
Qed.
Lemma okb_nodup : forall n g v, okb n g = true -> (v < n)%nat -> NoDup (preds g v).
Proof.
  intros n g v H Hv. unfold okb in H. apply andb_true_iff in H. destruct H as [_ H].
  rewrite forallb_forall in H. apply nodupb_NoDup. apply H. apply in_seq. lia.
Qed.
Lemma same_set_perm : forall a b, same_set a b = true -> NoDup a -> NoDup b -> Permutation a b.
Proof.
  intros a b H Ha Hb. unfold same_set in H. apply andb_true_iff in H. destruct H as [H1 H2].
  rewrite forallb_forall in H1, H2. apply NoDup_Permutation; auto. intros z. split; intros Hz.
  - specialize (H1 z Hz). apply existsb_exists in H1. destruct H1 as [w [Hw E]]. apply Nat.eqb_eq in E. subst. assumption.
  - specialize (H2 z Hz). apply existsb_exists in H2. destruct H2 as [w [Hw E]]. apply Nat.eqb_eq in E. subst. assumption.
Qed.

Lemma qsum_two_diff : forall (l : list nat) (f f' : nat -> Qc) x y, NoDup l -> In x l -> In y l -> x <> y ->
  (forall v, In v l -> v <> x -> v <> y -> f v = f' v) -> f x + f y = f' x + f' y -> qsum l f = qsum l f'.
Proof.
  intros l f f' x y Hnd Hx Hy Hxy Hext Hsum.
  destruct (in_split x l Hx) as [l1 [l2 ->]].
  assert (P1 : Permutation (l1 ++ x :: l2) (x :: l1 ++ l2)) by (apply Permutation_sym, Permutation_middle).
  assert (Hy' : In y (l1 ++ l2)).
  { apply (Permutation_in y P1) in Hy. destruct Hy as [E|Hy]; [congruence | assumption]. }
  destruct (in_split y (l1 ++ l2) Hy') as [m1 [m2 Em]].
  assert (P2 : Permutation (l1 ++ x :: l2) (x :: y :: m1 ++ m2)).
  { eapply perm_trans; [exact P1|]. apply perm_skip. rewrite Em. apply Permutation_sym, Permutation_middle. }
  pose proof (Permutation_NoDup P2 Hnd) as Hnd2.
  rewrite (qsum_perm _ _ _ f P2), (qsum_perm _ _ _ f' P2). simpl.
  rewrite (qsum_ext _ (m1 ++ m2) f f').
  - rewrite !Qcplus_assoc, Hsum. reflexivity.
  - intros v Hv. inversion Hnd2 as [|? ? N1 Hnd3]; subst. inversion Hnd3 as [|? ? N2 _]; subst.
    apply Hext.
    + apply (Permutation_in v (Permutation_sym P2)). right; right; assumption.
    + intros ->. apply N1. right; assumption.
    + intros ->. apply N2. assumption.
Qed.

(* one covered-arc reversal in a sane graph leaves score(model) unchanged *)
Lemma step_total : forall cards d sc n g h, equiv_score sc -> wf_data cards d -> (n <= length cards)%nat ->
  crev_step_ok n g h ->
  norm (total_score cards d sc (seq 0 n) g) = norm (total_score cards d sc (seq 0 n) h).
Proof.
  intros cards d sc n g h Hs Hd Hn [Hok [[x y] [Hin [Hcov ->]]]].
  destruct (okb_edge n g (x, y) Hok Hin) as [Hx [Hy [Hxy Hself]]]. simpl in Hx, Hy, Hxy, Hself.
  pose proof (okb_nodup n g x Hok Hx) as Nx. pose proof (okb_nodup n g y Hok Hy) as Ny.
  assert (Pcov : Permutation (preds g y) (x :: preds g x)).
  { apply same_set_perm; [exact Hcov | assumption | constructor; assumption]. }
  pose proof (preds_rev_y x y Hxy g Ny Hin) as Py.
  pose proof (preds_rev_x x y Hxy g Ny Hin) as Px.
  assert (Py' : Permutation (preds (reverse_edge g (x, y)) y) (preds g x)).
  { apply (Permutation_cons_inv (a := x)). eapply perm_trans; [apply Permutation_sym; exact Py | exact Pcov]. }
  assert (Hv : wf_vars cards (x :: y :: preds g x)).
  { intros v [<-|[<-|Hv]]; try lia. apply in_preds in Hv. destruct (okb_edge n g (v, x) Hok Hv) as [H1 _]. simpl in H1. lia. }
  rewrite !score_decomposable_norm. unfold reverse_edge at 2. rewrite map_length.
  apply norm_eq_iff. intros a. rewrite !coeff_app. f_equal. rewrite !coeff_sumof.
  apply (qsum_two_diff (seq 0 n) _ _ x y).
  - apply seq_NoDup.
  - apply in_seq. lia.
  - apply in_seq. lia.
  - assumption.
  - intros v _ Hvx Hvy. rewrite (preds_rev_other x y g v Hvx Hvy). reflexivity.
  - pose proof (covered_reversal_gen cards d sc x y (preds g x) (preds g y)
                  (preds (reverse_edge g (x, y)) x) (preds (reverse_edge g (x, y)) y) Hs Hd Hv Pcov Py' Px) as E.
    rewrite norm_eq_iff in E. specialize (E a). rewrite !coeff_app in E. exact E.
Qed.

Lemma reach_total : forall cards d sc n g h, equiv_score sc -> wf_data cards d -> (n <= length cards)%nat ->
  reach_ok n g h ->
  norm (total_score cards d sc (seq 0 n) g) = norm (total_score cards d sc (seq 0 n) h).
Proof.
  intros cards d sc n g h Hs Hd Hn H. induction H as [g h H| |g1 g2 g3 _ IH1 _ IH2].
  - apply step_total; assumption.
  - reflexivity.
  - rewrite IH1. exact IH2.
Qed.

Theorem score_equivalent_upto4 : forall cards d sc n g h, (n <= 4)%nat ->
  In g (all_dags n) -> In h (all_dags n) -> mequiv n g h = true ->
  equiv_score sc -> wf_data cards d -> (n <= length cards)%nat ->
  norm (total_score cards d sc (seq 0 n) g) = norm (total_score cards d sc (seq 0 n) h).
Proof.
  intros cards d sc n g h Hn Hg Hh Hm Hs Hd Hl. apply reach_total; auto.
  apply equiv_by_covered_reversals_ok_upto4; assumption.
Qed.
