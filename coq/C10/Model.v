(* C10 model: pgmpy/estimators/StructureScore.py (K2, BDeu, BDs, BIC, AIC local scores, score(),
   structure priors), pgmpy/estimators/base.py state_counts(reindex=False), pgmpy/estimators/
   ScoreCache.py (LRU cache), as coded (after fixes 74ee6ee for K2 and 371c84a for BDeu/BDs).  Executable definitions only.
   A data frame is a list of rows of state indices, column i has [nth i cards] declared states.
   Scores are formal sums (Base/Formal.v): lgamma and log stay uninterpreted. *)
From Coq Require Import List ZArith QArith Qcanon Bool Arith Lia.
From PV Require Import Base.Formal.
Import ListNotations.
Local Open Scope Qc_scope.

Definition getv (r : list nat) (v : nat) : nat := nth v r 0%nat.
Definition proj (ps : list nat) (r : list nat) : list nat := map (getv r) ps.
Fixpoint cfg_eqb (a b : list nat) : bool :=
  match a, b with
  | [], [] => true
  | x :: a', y :: b' => Nat.eqb x y && cfg_eqb a' b'
  | _, _ => false
  end.
Definition cfg_dec : forall a b : list nat, {a = b} + {a <> b} := list_eq_dec Nat.eq_dec.

Fixpoint nsum {A} (l : list A) (g : A -> nat) : nat :=
  match l with [] => 0%nat | x :: r => (g x + nsum r g)%nat end.

(* number of rows with parent configuration j (columns ps) and state k in column x *)
Definition count (d : list (list nat)) (x : nat) (ps : list nat) (j : list nat) (k : nat) : nat :=
  length (filter (fun r => cfg_eqb (proj ps r) j && Nat.eqb (getv r x) k) d).

Section Scores.
  Variable cards : list nat.
  Variable d : list (list nat).

  Definition card (v : nat) : nat := nth v cards 0%nat.
  (* np.prod([len(state_names[p]) for p in parents]) *)
  Definition qtot (ps : list nat) : nat := fold_right Nat.mul 1%nat (map card ps).

  (* groupby([variable] + parents).size().unstack(parents): the columns are the parent
     configurations that occur, the rows are the states of the variable that occur;
     without parents: value_counts().reindex(state_names[variable]) - every declared state, one column *)
  Definition obs_cfgs (ps : list nat) : list (list nat) := nodup cfg_dec (map (proj ps) d).
  Definition obs_states (x : nat) : list nat := nodup Nat.eq_dec (map (fun r => getv r x) d).
  Definition cfgs_coded (ps : list nat) : list (list nat) :=
    match ps with [] => [[]] | _ => obs_cfgs ps end.
  Definition states_coded (x : nat) (ps : list nat) : list nat :=
    match ps with [] => seq 0 (card x) | _ => obs_states x end.

  Definition N (x : nat) (ps : list nat) (j : list nat) (k : nat) : nat := count d x ps j k.
  (* np.sum(counts, axis=0): column sums over the rows that are present *)
  Definition colsum (S : list nat) (x : nat) (ps : list nat) (j : list nat) : nat := nsum S (N x ps j).

  (* The score formulas, parametrised by the column list C and the row list S of the count matrix *)
  Definition k2_gen (C : list (list nat)) (S : list nat) (x : nat) (ps : list nat) : list (Qc * atom) :=
    let r := Qn (card x) in
    let q := Qn (qtot ps) in
    let qo := Qn (length C) in
    (* np.sum(log_gamma_counts) + gamma_counts_adj *)
    (fsumof C (fun j => fsumof S (fun k => fatom 1 LG (Qn (N x ps j k) + 1)))
       ++ fatom ((q - qo) * r) LG 1)
    (* - (np.sum(log_gamma_conds) + gamma_conds_adj) *)
    ++ fneg (fsumof C (fun j => fatom 1 LG (Qn (colsum S x ps j) + r)) ++ fatom (q - qo) LG r)
    (* + num_parents_states * lgamma(var_cardinality) *)
    ++ fatom q LG r.

  Definition bd_gen (alpha beta lead : Qc) (C : list (list nat)) (S : list nat) (x : nat) (ps : list nat)
    : list (Qc * atom) :=
    let r := Qn (card x) in
    let q := Qn (qtot ps) in
    let qo := Qn (length C) in
    (* np.sum(log_gamma_counts) + gamma_counts_adj,  gamma_counts_adj = (counts_size - counts.size) * gammaln(beta)
       (after fix 371c84a: also covers the dropped rows of unobserved states of the variable) *)
    (fsumof C (fun j => fsumof S (fun k => fatom 1 LG (Qn (N x ps j k) + beta)))
       ++ fatom (q * r - qo * Qn (length S)) LG beta)
    ++ fneg (fsumof C (fun j => fatom 1 LG (Qn (colsum S x ps j) + alpha)) ++ fatom (q - qo) LG alpha)
    ++ fatom lead LG alpha
    ++ fneg (fatom (q * r) LG beta).

  (* alpha = ess / num_parents_states ; beta = ess / counts_size ; + num_parents_states * lgamma(alpha) *)
  Definition bdeu_gen (ess : Qc) C S x ps :=
    let r := Qn (card x) in let q := Qn (qtot ps) in
    bd_gen (ess / q) (ess / (q * r)) q C S x ps.
  (* alpha = ess / state_counts.shape[1] ; beta = ess / counts_size ; + shape[1] * lgamma(alpha) *)
  Definition bds_gen (ess : Qc) C S x ps :=
    let r := Qn (card x) in let q := Qn (qtot ps) in let qo := Qn (length C) in
    bd_gen (ess / qo) (ess / (q * r)) qo C S x ps.

  (* log-likelihood part of BIC/AIC: (log(counts) - log(colsum)) * counts, logs taken where > 0 *)
  Definition ll_gen (C : list (list nat)) (S : list nat) (x : nat) (ps : list nat) : list (Qc * atom) :=
    fsumof C (fun j =>
      let nj := colsum S x ps j in
      fsumof S (fun k =>
        let n := N x ps j k in
        (if (0 <? n)%nat then fatom (Qn n) LN (Qn n) else [])
        ++ fneg (if (0 <? nj)%nat then fatom (Qn n) LN (Qn nj) else []))).
  Definition bic_gen C S x ps :=
    let r := Qn (card x) in let q := Qn (qtot ps) in
    ll_gen C S x ps ++ fneg (fatom (Q2Qc (1 # 2) * q * (r - 1)) LN (Qn (length d))).
  Definition aic_gen C S x ps :=
    let r := Qn (card x) in let q := Qn (qtot ps) in
    ll_gen C S x ps ++ fneg (fconst (q * (r - 1))).

  Inductive score := K2 | BDeu (ess : Qc) | BDs (ess : Qc) | BIC | AIC.

  Definition local_gen (sc : score) C S x ps :=
    match sc with
    | K2 => k2_gen C S x ps
    | BDeu ess => bdeu_gen ess C S x ps
    | BDs ess => bds_gen ess C S x ps
    | BIC => bic_gen C S x ps
    | AIC => aic_gen C S x ps
    end.

  (* <Score>(data).local_score(x, ps) *)
  Definition local_score (sc : score) (x : nat) (ps : list nat) : list (Qc * atom) :=
    local_gen sc (cfgs_coded ps) (states_coded x ps) x ps.

  (* structure_prior(model): 0 except BDs: -(nedges + nnodes*(nnodes-1)/2) * log 2 *)
  Definition structure_prior (sc : score) (nnodes nedges : nat) : list (Qc * atom) :=
    match sc with
    | BDs _ => fneg (fatom (Qn nedges + Qn nnodes * (Qn nnodes - 1) / Q2Qc 2) LN (Q2Qc 2))
    | _ => []
    end.
  (* structure_prior_ratio(operation): op 0 = "+", 1 = "-", anything else = flip *)
  Definition structure_prior_ratio (sc : score) (op : nat) : list (Qc * atom) :=
    match sc, op with
    | BDs _, O => fneg (fatom 1 LN (Q2Qc 2))
    | BDs _, S O => fatom 1 LN (Q2Qc 2)
    | _, _ => []
    end.

  (* model.predecessors(v) in edge insertion order *)
  Definition preds (edges : list (nat * nat)) (v : nat) : list nat :=
    map fst (filter (fun e => Nat.eqb (snd e) v) edges).

  (* StructureScore.score(model): score = 0; for node: score += local_score(node, preds); += prior *)
  Definition total_score (sc : score) (nodes : list nat) (edges : list (nat * nat)) : list (Qc * atom) :=
    fold_left (fun acc v => acc ++ local_score sc v (preds edges v)) nodes []
    ++ structure_prior sc (length nodes) (length edges).

  (* score over an explicit family list (node, parent list) *)
  Definition family_score (sc : score) (fams : list (nat * list nat)) : list (Qc * atom) :=
    fsumof fams (fun f => local_score sc (fst f) (snd f)).

  Definition valid_row (r : list nat) : bool :=
    Nat.eqb (length r) (length cards) && forallb (fun v => (getv r v <? card v)%nat) (seq 0 (length cards)).
  Definition valid_data : bool := forallb valid_row d.
  Definition valid_vars (vs : list nat) : bool := forallb (fun v => (v <? length cards)%nat) vs.
End Scores.

(* ---------------------------------------------------------------- ScoreCache / LRUCache *)
Section LRU.
  Variables K V : Type.
  Variable keqb : K -> K -> bool.
  Variable f : K -> V.

  (* the linked list from head (oldest) to tail (newest) together with the dict *)
  Fixpoint lookup (k : K) (c : list (K * V)) : option V :=
    match c with
    | [] => None
    | (k', v) :: r => if keqb k k' then Some v else lookup k r
    end.
  Fixpoint remove (k : K) (c : list (K * V)) : list (K * V) :=
    match c with
    | [] => []
    | (k', v) :: r => if keqb k k' then r else (k', v) :: remove k r
    end.
  (* LRUCache.__call__ ; result: (value, was it a hit, new cache) *)
  Definition lru_call (maxs : nat) (c : list (K * V)) (k : K) : V * bool * list (K * V) :=
    match lookup k c with
    | Some v => (v, true, remove k c ++ [(k, v)])
    | None =>
        let v := f k in
        let c' := if (maxs <=? length c)%nat then tl c else c in
        (v, false, c' ++ [(k, v)])
    end.
  Fixpoint lru_run (maxs : nat) (c : list (K * V)) (ks : list K) : list (V * bool) * list (K * V) :=
    match ks with
    | [] => ([], c)
    | k :: r =>
        let '(v, h, c1) := lru_call maxs c k in
        let (vs, c2) := lru_run maxs c1 r in
        ((v, h) :: vs, c2)
    end.
End LRU.

Definition key : Type := (nat * list nat)%type.
Definition key_eqb (a b : key) : bool := Nat.eqb (fst a) (fst b) && cfg_eqb (snd a) (snd b).

(* ScoreCache(base, data, max_size).local_score over a sequence of calls *)
Definition cached_scores (cards : list nat) (d : list (list nat)) (sc : score) (maxs : nat)
  (calls : list key) : list (list (Qc * atom) * bool) * list (key * list (Qc * atom)) :=
  lru_run key (list (Qc * atom)) key_eqb (fun k => local_score cards d sc (fst k) (snd k)) maxs [] calls.

(* ScoreCache(base, data, max_size).score(model) on a cache in state c: StructureScore.score with the cached
   local_score, plus the structure prior of the wrapped score (after fix c25bc1d) *)
Definition cached_total_score (cards : list nat) (d : list (list nat)) (sc : score) (maxs : nat)
  (c : list (key * list (Qc * atom))) (nodes : list nat) (edges : list (nat * nat))
  : list (Qc * atom) * list (key * list (Qc * atom)) :=
  let (outs, c') := lru_run key (list (Qc * atom)) key_eqb (fun k => local_score cards d sc (fst k) (snd k)) maxs c
                      (map (fun v => (v, preds edges v)) nodes) in
  (fold_left (fun acc o => acc ++ fst o) outs [] ++ structure_prior sc (length nodes) (length edges), c').
