(* C10 specification: the published closed forms of the local scores, over ALL q parent
   configurations (the full cartesian product of the declared parent states) and ALL r declared
   states of the variable, evaluated on the data's counts N_jk.

   K2   (Cooper & Herskovits 1992; Koller & Friedman 18.3.4, all Dirichlet hyperparameters 1):
          sum_j [ lnG(r) - lnG(N_j + r) + sum_k lnG(N_jk + 1) ]
   BDeu (Heckerman et al. 1995; K&F p.806):  a = ess/q, b = ess/(q r)
          sum_j [ lnG(a) - lnG(N_j + a) + sum_k ( lnG(N_jk + b) - lnG(b) ) ]
   BDs  (Scutari 2016, "An Empirical-Bayes Score for Discrete Bayesian Networks", eq. for BDs):
          q~ = number of parent configurations with N_j > 0, a~ = ess/q~, b~ = ess/(r q~)
          sum_{j : N_j > 0} [ lnG(a~) - lnG(N_j + a~) + sum_k ( lnG(N_jk + b~) - lnG(b~) ) ]
   BIC  (K&F p.802):   sum_j sum_{k : N_jk>0} N_jk ( ln N_jk - ln N_j )  -  (ln n)/2 * q (r-1)
   AIC               :   sum_j sum_{k : N_jk>0} N_jk ( ln N_jk - ln N_j )  -  q (r-1)
   with N_j = sum_k N_jk, n = number of rows. *)
From Coq Require Import List ZArith QArith Qcanon Bool Arith Lia.
From PV Require Import Base.Formal C10.Model.
Import ListNotations.
Local Open Scope Qc_scope.

Section Spec.
  Variable cards : list nat.
  Variable d : list (list nat).
  Local Notation card := (card cards).
  Local Notation N := (N d).

  (* every parent configuration: the cartesian product of the declared state ranges *)
  Fixpoint all_cfgs (ps : list nat) : list (list nat) :=
    match ps with
    | [] => [[]]
    | p :: r => flat_map (fun v => map (cons v) (all_cfgs r)) (seq 0 (card p))
    end.
  Definition all_states (x : nat) : list nat := seq 0 (card x).
  Definition Nj (x : nat) (ps : list nat) (j : list nat) : nat := nsum (all_states x) (N x ps j).

  (* sum over a list L of parent configurations of  Hf(N_j) + sum_{k in S} hf(N_j, N_jk) *)
  Definition cellsum (L : list (list nat)) (S : list nat) (cs : list nat -> nat)
    (Hf : nat -> list (Qc * atom)) (hf : nat -> nat -> list (Qc * atom)) (x : nat) (ps : list nat)
    : list (Qc * atom) :=
    fsumof L (fun j => let c := cs j in Hf c ++ fsumof S (fun k => hf c (N x ps j k))).

  (* lnG(r) - lnG(N_j + r)  ;  lnG(N_jk + 1) *)
  Definition k2_H (r : Qc) (nj : nat) := fatom 1 LG r ++ fneg (fatom 1 LG (Qn nj + r)).
  Definition k2_h (nj n : nat) := fatom 1 LG (Qn n + 1).
  Definition k2_spec (x : nat) (ps : list nat) : list (Qc * atom) :=
    cellsum (all_cfgs ps) (all_states x) (Nj x ps) (k2_H (Qn (card x))) k2_h x ps.

  (* lnG(a) - lnG(N_j + a)  ;  lnG(N_jk + b) - lnG(b) *)
  Definition bd_H (alpha : Qc) (nj : nat) := fatom 1 LG alpha ++ fneg (fatom 1 LG (Qn nj + alpha)).
  Definition bd_h (beta : Qc) (nj n : nat) := fatom 1 LG (Qn n + beta) ++ fneg (fatom 1 LG beta).
  Definition bdeu_spec (ess : Qc) (x : nat) (ps : list nat) : list (Qc * atom) :=
    let r := Qn (card x) in
    let q := Qn (length (all_cfgs ps)) in
    cellsum (all_cfgs ps) (all_states x) (Nj x ps) (bd_H (ess / q)) (bd_h (ess / (q * r))) x ps.

  (* Scutari 2016: only the configurations that occur; q~ = how many occur *)
  Definition seen_cfgs (x : nat) (ps : list nat) : list (list nat) :=
    filter (fun j => (0 <? Nj x ps j)%nat) (all_cfgs ps).
  Definition bds_spec (ess : Qc) (x : nat) (ps : list nat) : list (Qc * atom) :=
    let r := Qn (card x) in
    let qt := Qn (length (seen_cfgs x ps)) in
    cellsum (seen_cfgs x ps) (all_states x) (Nj x ps) (bd_H (ess / qt)) (bd_h (ess / (qt * r))) x ps.

  (* N_jk (ln N_jk - ln N_j) where N_jk > 0 *)
  Definition ll_h (nj n : nat) : list (Qc * atom) :=
    if (0 <? n)%nat then fatom (Qn n) LN (Qn n) ++ fneg (fatom (Qn n) LN (Qn nj)) else [].
  Definition ll_spec (x : nat) (ps : list nat) : list (Qc * atom) :=
    cellsum (all_cfgs ps) (all_states x) (Nj x ps) (fun _ => []) ll_h x ps.
  (* number of free parameters q (r - 1) *)
  Definition nparams (x : nat) (ps : list nat) : Qc := Qn (length (all_cfgs ps)) * (Qn (card x) - 1).
  Definition bic_spec (x : nat) (ps : list nat) : list (Qc * atom) :=
    ll_spec x ps ++ fneg (fatom (Q2Qc (1 # 2) * nparams x ps) LN (Qn (length d))).
  Definition aic_spec (x : nat) (ps : list nat) : list (Qc * atom) :=
    ll_spec x ps ++ fneg (fconst (nparams x ps)).

  Definition local_spec (sc : score) (x : nat) (ps : list nat) : list (Qc * atom) :=
    match sc with
    | K2 => k2_spec x ps
    | BDeu ess => bdeu_spec ess x ps
    | BDs ess => bds_spec ess x ps
    | BIC => bic_spec x ps
    | AIC => aic_spec x ps
    end.

  (* well-formed inputs: every row has one in-range state per column *)
  Definition wf_data : Prop :=
    forall r, In r d -> length r = length cards /\ forall v, (v < length cards)%nat -> (getv r v < card v)%nat.
  Definition wf_vars (vs : list nat) : Prop := forall v, In v vs -> (v < length cards)%nat.
  (* every declared state of x occurs in the data *)
  Definition all_states_observed (x : nat) : Prop :=
    forall k, (k < card x)%nat -> exists r, In r d /\ getv r x = k.
End Spec.

(* ---------------------------------------------------------------- DAGs on nodes 0..n-1, Markov equivalence,
   covered arcs (for the finite-domain connectivity theorem) *)
Definition edge_eqb (a b : nat * nat) : bool := Nat.eqb (fst a) (fst b) && Nat.eqb (snd a) (snd b).
Definition has_edge (g : list (nat * nat)) (u v : nat) : bool := existsb (edge_eqb (u, v)) g.
Definition adj (g : list (nat * nat)) (u v : nat) : bool := has_edge g u v || has_edge g v u.
Definition parents_of (g : list (nat * nat)) (v : nat) : list nat := preds g v.
Definition same_set (a b : list nat) : bool :=
  forallb (fun x => existsb (Nat.eqb x) b) a && forallb (fun x => existsb (Nat.eqb x) a) b.
(* X -> Y is covered: Pa(Y) = Pa(X) + {X} *)
Definition covered (g : list (nat * nat)) (e : nat * nat) : bool :=
  same_set (parents_of g (snd e)) (fst e :: parents_of g (fst e)).
Definition reverse_edge (g : list (nat * nat)) (e : nat * nat) : list (nat * nat) :=
  map (fun e' => if edge_eqb e e' then (snd e, fst e) else e') g.
(* one covered-arc reversal *)
Definition crev_step (g h : list (nat * nat)) : Prop :=
  exists e, In e g /\ covered g e = true /\ h = reverse_edge g e.

(* Markov equivalence (Verma & Pearl): same skeleton and same v-structures *)
Definition vstruct (g : list (nat * nat)) (a c b : nat) : bool :=
  has_edge g a c && has_edge g b c && negb (adj g a b) && negb (Nat.eqb a b).
(* the table of adjacencies followed by the table of v-structures, over nodes 0..n-1 *)
Definition msig (n : nat) (g : list (nat * nat)) : list bool :=
  let ns := seq 0 n in
  flat_map (fun u => map (fun v => adj g u v) ns) ns
  ++ flat_map (fun a => flat_map (fun c => map (fun b => vstruct g a c b) ns) ns) ns.
Fixpoint bools_eqb (a b : list bool) : bool :=
  match a, b with
  | [], [] => true
  | x :: a', y :: b' => Bool.eqb x y && bools_eqb a' b'
  | _, _ => false
  end.
Definition mequiv (n : nat) (g h : list (nat * nat)) : bool := bools_eqb (msig n g) (msig n h).
