(* C10 proofs, part 10: the transformation theorem and score equivalence restated with the framework's
   standard notions: path-based acyclicity of Base/Graph.v and the Verma-Pearl Markov equivalence of
   C18/Spec.v (which C18_iequiv_iff proves to be what DAG.is_iequivalent decides). *)
From Coq Require Import List Bool Arith Lia Relations Permutation.
From PV Require Base.Graph C18.Spec.
From PV Require Import Base.Formal C10.Model C10.Spec C10.Equiv C10.Chain C10.ProofsChickering.
Import ListNotations.

Module G := PV.Base.Graph.
Module S18 := PV.C18.Spec.

(* a rank function increasing along the arcs excludes directed cycles ... *)
Lemma ranked_dpath : forall (gr : G.digraph) ord, ranked ord (G.edges gr) ->
  forall u v, G.dpath gr u v -> ord u <= ord v.
Proof.
  intros gr ord R u v H. induction H as [u|u v w _ IH He]; [lia|]. specialize (R v w He). lia.
Qed.
Lemma ranked_acyclic : forall gr, is_dag (G.edges gr) -> G.acyclic gr.
Proof.
  intros gr [ord R] u v He Hp. pose proof (ranked_dpath gr ord R v u Hp). specialize (R u v He). lia.
Qed.

(* ... and an acyclic well-formed graph has one: the number of ancestors *)
Lemma NoDup_strict_incl_length : forall (l l' : list nat) a,
  NoDup l -> incl l l' -> In a l' -> ~ In a l -> length l < length l'.
Proof.
  intros l l' a Hnd Hi Ha Hn.
  assert (H : length (a :: l) <= length l').
  { apply NoDup_incl_length; [constructor; assumption|]. intros z [<-|Hz]; auto. }
  simpl in H. lia.
Qed.
Lemma acyclic_ranked : forall gr, G.wf_graph gr -> G.acyclic gr -> is_dag (G.edges gr).
Proof.
  intros gr Hw Ha.
  exists (fun v => length (nodup Nat.eq_dec (G.anc_of gr [v]))).
  intros u v He.
  apply (NoDup_strict_incl_length _ _ v).
  - apply NoDup_nodup.
  - intros z Hz. apply nodup_In in Hz. apply nodup_In.
    apply (G.anc_of_spec gr [u] z Hw) in Hz. destruct Hz as [s [[<-|[]] Hp]].
    apply (G.anc_of_spec gr [v] z Hw). exists v. split; [left; reflexivity|].
    eapply G.dpath_step; eassumption.
  - apply nodup_In. apply (G.anc_of_spec gr [v] v Hw). exists v. split; [left; reflexivity | apply G.dpath_refl].
  - intros Hz. apply nodup_In in Hz. apply (G.anc_of_spec gr [u] v Hw) in Hz. destruct Hz as [s [[<-|[]] Hp]].
    exact (Ha u v He Hp).
Qed.

Lemma markov_equivalent_meq : forall gr hr, S18.markov_equivalent gr hr <-> meq (G.edges gr) (G.edges hr).
Proof. intros. reflexivity. Qed.

(* a digraph as networkx stores it: distinct nodes among 0..n-1, arcs between nodes, no repeated arc *)
Definition graph_ok (n : nat) (gr : G.digraph) : Prop :=
  G.wf_graph gr /\ (forall v, In v (G.nodes gr) -> v < n) /\ NoDup (G.edges gr).
Lemma graph_ok_simple : forall n gr, graph_ok n gr -> simple n (G.edges gr).
Proof.
  intros n gr [[_ Hw] [Hn Hd]]. split; [assumption|]. intros u v He. destruct (Hw u v He). split; apply Hn; assumption.
Qed.

(* Chickering's theorem: Markov-equivalent DAGs are connected by covered-arc reversals through DAGs of the
   same class, ending in a graph with exactly the arcs of the second one *)
Theorem chickering_graph : forall n gr hr, graph_ok n gr -> G.acyclic gr -> G.wf_graph hr -> G.acyclic hr ->
  S18.markov_equivalent gr hr ->
  exists g', clos_refl_trans _ (good_step n) (G.edges gr) g' /\ simple n g' /\ is_dag g'
             /\ same_edges g' (G.edges hr).
Proof.
  intros n gr hr Hg Ag Wh Ah Hm. apply chickering.
  - apply graph_ok_simple; assumption.
  - apply acyclic_ranked; [apply Hg | assumption].
  - apply acyclic_ranked; assumption.
  - apply markov_equivalent_meq; assumption.
Qed.

Theorem score_equivalence_graph : forall cards d sc n gr hr, equiv_score sc -> Spec.wf_data cards d ->
  n <= length cards -> graph_ok n gr -> graph_ok n hr -> G.acyclic gr -> G.acyclic hr ->
  S18.markov_equivalent gr hr ->
  norm (total_score cards d sc (seq 0 n) (G.edges gr)) = norm (total_score cards d sc (seq 0 n) (G.edges hr)).
Proof.
  intros cards d sc n gr hr Hs Hd Hn Hg Hh Ag Ah Hm. apply score_equivalence; auto.
  - apply graph_ok_simple; assumption.
  - apply graph_ok_simple; assumption.
  - apply acyclic_ranked; [apply Hg | assumption].
  - apply acyclic_ranked; [apply Hh | assumption].
Qed.
