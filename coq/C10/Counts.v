(* C10 proofs, part 1: facts about counts, configurations and the generic "split" of a sum over all
   cells into the observed cells plus constant contributions of the unobserved ones. *)
From Coq Require Import List ZArith QArith Qcanon Bool Arith Lia Permutation.
From PV Require Import Base.Formal C10.Model C10.Spec.
Import ListNotations.
Local Open Scope Qc_scope.

Lemma cfg_eqb_eq : forall a b, cfg_eqb a b = true <-> a = b.
Proof.
  induction a as [|x a IH]; destruct b as [|y b]; simpl; split; intros H; try discriminate; auto.
  - apply andb_true_iff in H. destruct H as [H1 H2]. apply Nat.eqb_eq in H1. apply IH in H2. congruence.
  - inversion H; subst. rewrite Nat.eqb_refl. simpl. apply IH. reflexivity.
Qed.
Lemma cfg_eqb_refl : forall a, cfg_eqb a a = true.
Proof. intros; apply cfg_eqb_eq; reflexivity. Qed.

Lemma NoDup_app_intro : forall A (l1 l2 : list A),
  NoDup l1 -> NoDup l2 -> (forall x, In x l1 -> In x l2 -> False) -> NoDup (l1 ++ l2).
Proof.
  induction l1 as [|a l1 IH]; simpl; intros l2 H1 H2 H; [assumption|].
  inversion H1; subst. constructor.
  - intros Hin. apply in_app_or in Hin. destruct Hin as [Hin|Hin]; [contradiction|].
    apply (H a); [left; reflexivity | assumption].
  - apply IH; auto. intros x Hx1 Hx2. apply (H x); [right; assumption | assumption].
Qed.

Lemma filter_length_0 : forall A (p : A -> bool) l, (forall x, In x l -> p x = false) -> length (filter p l) = 0%nat.
Proof.
  induction l; simpl; intros H; [reflexivity|]. rewrite (H a) by (left; reflexivity).
  apply IHl. intros; apply H; right; assumption.
Qed.

Lemma count_unobserved_cfg : forall d x ps j k,
  (forall r, In r d -> proj ps r <> j) -> count d x ps j k = 0%nat.
Proof.
  intros. unfold count. apply filter_length_0. intros r Hr.
  apply andb_false_iff. left. destruct (cfg_eqb (proj ps r) j) eqn:E; [|reflexivity].
  apply cfg_eqb_eq in E. exfalso. eapply H; eauto.
Qed.
Lemma count_unobserved_state : forall d x ps j k,
  (forall r, In r d -> getv r x <> k) -> count d x ps j k = 0%nat.
Proof.
  intros. unfold count. apply filter_length_0. intros r Hr.
  apply andb_false_iff. right. apply Nat.eqb_neq. apply H; assumption.
Qed.
Lemma count_perm : forall d d' x ps j k, Permutation d d' -> count d x ps j k = count d' x ps j k.
Proof.
  intros. unfold count. apply Permutation_length.
  induction H; simpl; auto.
  - destruct (cfg_eqb (proj ps x0) j && (getv x0 x =? k)%nat); auto.
  - destruct (cfg_eqb (proj ps x0) j && (getv x0 x =? k)%nat);
    destruct (cfg_eqb (proj ps y) j && (getv y x =? k)%nat); auto. apply perm_swap.
  - eapply perm_trans; eauto.
Qed.

(* nat sums *)
Lemma Qn_nsum : forall A (l : list A) g, Qn (nsum l g) = qsum l (fun x => Qn (g x)).
Proof. induction l; intros; simpl; [apply Qn_0 | rewrite Qn_add, IHl; reflexivity]. Qed.
Lemma nsum_ext : forall A (l : list A) g h, (forall x, In x l -> g x = h x) -> nsum l g = nsum l h.
Proof.
  induction l; intros g h H; simpl; [reflexivity|]. rewrite (H a) by (left; reflexivity).
  f_equal. apply IHl. intros; apply H; right; assumption.
Qed.
Lemma nsum_ge : forall A (l : list A) g x, In x l -> (g x <= nsum l g)%nat.
Proof.
  induction l; simpl; intros g x H; [contradiction|]. destruct H as [->|H]; [lia|].
  specialize (IHl g x H). lia.
Qed.
Lemma nsum_zero : forall A (l : list A) g, (forall x, In x l -> g x = 0%nat) -> nsum l g = 0%nat.
Proof.
  induction l; simpl; intros g H; [reflexivity|]. rewrite (H a) by (left; reflexivity).
  apply IHl. intros; apply H; right; assumption.
Qed.
Lemma nsum_sub : forall (U O : list nat) g,
  NoDup U -> NoDup O -> incl O U -> (forall u, In u U -> ~ In u O -> g u = 0%nat) -> nsum U g = nsum O g.
Proof.
  intros U O g HU HO Hi Hz. apply Qn_inj. rewrite !Qn_nsum.
  rewrite (qsum_split_const nat U O (fun x => Qn (g x)) 0 HU HO Hi).
  - ring.
  - intros u H1 H2. rewrite (Hz u H1 H2). apply Qn_0.
  - exact Nat.eq_dec.
Qed.

Section Cfgs.
  Variable cards : list nat.
  Variable d : list (list nat).
  Local Notation card := (card cards).
  Local Notation all_cfgs := (all_cfgs cards).
  Local Notation N := (N d).

  Lemma in_all_cfgs : forall ps j,
    In j (all_cfgs ps) <-> Forall2 (fun v p => (v < card p)%nat) j ps.
  Proof.
    induction ps as [|p ps IH]; intros j; simpl.
    - split; intros H.
      + destruct H as [<-|[]]. constructor.
      + inversion H; subst. left; reflexivity.
    - rewrite in_flat_map. split.
      + intros [v [Hv Hj]]. apply in_seq in Hv. apply in_map_iff in Hj. destruct Hj as [j' [<- Hj']].
        constructor; [lia | apply IH; assumption].
      + intros H. inversion H as [|v p' j' ps' Hv Hj']; subst. exists v. split.
        * apply in_seq. lia.
        * apply in_map_iff. exists j'. split; [reflexivity | apply IH; assumption].
  Qed.

  Lemma NoDup_all_cfgs : forall ps, NoDup (all_cfgs ps).
  Proof.
    induction ps as [|p ps IH]; simpl.
    - constructor; [intros [] | constructor].
    - generalize (seq_NoDup (card p) 0). generalize (seq 0 (card p)) as vs.
      induction vs as [|v vs IHv]; simpl; intros Hnd; [constructor|].
      inversion Hnd as [|v0 vs0 Hnotin Hnd']; subst. apply NoDup_app_intro.
      + apply FinFun.Injective_map_NoDup; auto. intros a b E. congruence.
      + apply IHv; assumption.
      + intros j Hj1 Hj2. apply in_map_iff in Hj1. destruct Hj1 as [j1 [<- _]].
        apply in_flat_map in Hj2. destruct Hj2 as [v' [Hv' Hj2]]. apply in_map_iff in Hj2.
        destruct Hj2 as [j2 [E _]]. inversion E; subst. contradiction.
  Qed.

  Lemma length_all_cfgs : forall ps, length (all_cfgs ps) = qtot cards ps.
  Proof.
    induction ps as [|p ps IH]; simpl; [reflexivity|]. unfold qtot in *. simpl. rewrite <- IH.
    fold (Model.card cards p).
    assert (G : forall vs, length (flat_map (fun v => map (cons v) (all_cfgs ps)) vs)
                = (length vs * length (all_cfgs ps))%nat).
    { induction vs; simpl; [reflexivity|]. rewrite app_length, map_length, IHvs. reflexivity. }
    rewrite G, seq_length. reflexivity.
  Qed.

  Lemma proj_in_all_cfgs : forall ps r,
    wf_data cards d -> wf_vars cards ps -> In r d -> In (proj ps r) (all_cfgs ps).
  Proof.
    intros ps r Hd Hp Hr. apply in_all_cfgs. destruct (Hd r Hr) as [_ Hv].
    induction ps as [|p ps IH]; simpl; constructor.
    - apply Hv. apply Hp. left; reflexivity.
    - apply IH. intros v Hv'. apply Hp. right; assumption.
  Qed.

  Lemma in_obs_cfgs : forall ps j, In j (obs_cfgs d ps) <-> exists r, In r d /\ proj ps r = j.
  Proof.
    intros. unfold obs_cfgs. rewrite nodup_In, in_map_iff. split; intros [r [H1 H2]]; exists r; auto.
  Qed.
  Lemma in_obs_states : forall x k, In k (obs_states d x) <-> exists r, In r d /\ getv r x = k.
  Proof.
    intros. unfold obs_states. rewrite nodup_In, in_map_iff. split; intros [r [H1 H2]]; exists r; auto.
  Qed.

  (* the two facts that make a column list C / a row list S of the count matrix adequate *)
  Definition good_C (x : nat) (ps : list nat) (C : list (list nat)) : Prop :=
    NoDup C /\ incl C (all_cfgs ps) /\ forall j, ~ In j C -> forall k, N x ps j k = 0%nat.
  Definition good_S (x : nat) (ps : list nat) (S : list nat) : Prop :=
    NoDup S /\ incl S (all_states cards x) /\ forall k, ~ In k S -> forall j, N x ps j k = 0%nat.

  Lemma good_C_coded : forall x ps, wf_data cards d -> wf_vars cards ps -> good_C x ps (cfgs_coded d ps).
  Proof.
    intros x ps Hd Hp. destruct ps as [|p ps].
    - simpl. split; [constructor; [intros []|constructor]|]. split.
      + intros j Hj. exact Hj.
      + intros j Hj k. unfold Model.N. apply count_unobserved_cfg. intros r _ E. apply Hj. left. exact E.
    - unfold cfgs_coded. split; [apply NoDup_nodup|]. split.
      + intros j Hj. apply in_obs_cfgs in Hj. destruct Hj as [r [Hr <-]]. apply proj_in_all_cfgs; auto.
      + intros j Hj k. unfold Model.N. apply count_unobserved_cfg. intros r Hr E. apply Hj.
        apply in_obs_cfgs. exists r; auto.
  Qed.
  Lemma good_S_coded : forall x ps, wf_data cards d -> (x < length cards)%nat ->
    good_S x ps (states_coded cards d x ps).
  Proof.
    intros x ps Hd Hx. destruct ps as [|p ps].
    - simpl. split; [apply seq_NoDup|]. split; [intros k Hk; exact Hk|].
      intros k Hk j. unfold Model.N. apply count_unobserved_state. intros r Hr E. apply Hk.
      apply in_seq. destruct (Hd r Hr) as [_ Hv]. specialize (Hv x Hx). lia.
    - unfold states_coded. split; [apply NoDup_nodup|]. split.
      + intros k Hk. apply in_obs_states in Hk. destruct Hk as [r [Hr <-]]. unfold all_states.
        apply in_seq. destruct (Hd r Hr) as [_ Hv]. specialize (Hv x Hx). lia.
      + intros k Hk j. unfold Model.N. apply count_unobserved_state. intros r Hr E. apply Hk.
        apply in_obs_states. exists r; auto.
  Qed.

  Lemma colsum_Nj : forall x ps S j, good_S x ps S -> colsum d S x ps j = Nj cards d x ps j.
  Proof.
    intros x ps S j [H1 [H2 H3]]. unfold colsum, Nj. symmetry.
    apply nsum_sub; [apply seq_NoDup | assumption | assumption | intros k _ Hk; apply H3; assumption].
  Qed.
  Lemma Nj_unobserved : forall x ps C j, good_C x ps C -> ~ In j C -> Nj cards d x ps j = 0%nat.
  Proof.
    intros x ps C j [_ [_ H]] Hj. unfold Nj. apply nsum_zero. intros k _. apply H; assumption.
  Qed.

  (* ------------------------------------------------------------ the split of a cell sum *)
  Lemma coeff_cellsum : forall a L S cs Hf hf x ps,
    coeff a (cellsum d L S cs Hf hf x ps)
    = qsum L (fun j => coeff a (Hf (cs j))) + qsum L (fun j => qsum S (fun k => coeff a (hf (cs j) (N x ps j k)))).
  Proof.
    intros. unfold cellsum. rewrite coeff_sumof, <- qsum_plus. apply qsum_ext. intros j _.
    rewrite coeff_app, coeff_sumof. reflexivity.
  Qed.

  Lemma split_cellsum : forall a x ps C S Hf hf h0,
    good_C x ps C -> good_S x ps S -> (forall nj, coeff a (hf nj 0%nat) = h0) ->
    coeff a (cellsum d (all_cfgs ps) (all_states cards x) (Nj cards d x ps) Hf hf x ps)
    = coeff a (cellsum d C S (colsum d S x ps) Hf hf x ps)
      + Qn (length C) * (Qn (card x) - Qn (length S)) * h0
      + (Qn (length (all_cfgs ps)) - Qn (length C)) * (coeff a (Hf 0%nat) + Qn (card x) * h0).
  Proof.
    intros a x ps C S Hf hf h0 HC HS Hh.
    assert (HC' := HC). assert (HS' := HS).
    destruct HC as [C1 [C2 C3]]. destruct HS as [S1 [S2 S3]].
    rewrite !coeff_cellsum, <- !qsum_plus.
    (* inner split for every j *)
    assert (Inner : forall j, qsum (all_states cards x) (fun k => coeff a (hf (Nj cards d x ps j) (N x ps j k)))
        = qsum S (fun k => coeff a (hf (Nj cards d x ps j) (N x ps j k))) + (Qn (card x) - Qn (length S)) * h0).
    { intros j. rewrite (qsum_split_const nat (all_states cards x) S _ h0); auto.
      - unfold all_states. rewrite seq_length. reflexivity.
      - apply seq_NoDup.
      - intros k _ Hk. rewrite (S3 k Hk j). apply Hh.
      - exact Nat.eq_dec. }
    rewrite (qsum_split_const _ (all_cfgs ps) C _ (coeff a (Hf 0%nat) + Qn (card x) * h0)
               (NoDup_all_cfgs ps) C1 C2).
    - rewrite (qsum_ext _ C _ (fun j => coeff a (Hf (colsum d S x ps j))
             + qsum S (fun k => coeff a (hf (colsum d S x ps j) (N x ps j k)))
             + (Qn (card x) - Qn (length S)) * h0)).
      + rewrite qsum_plus, qsum_const. ring.
      + intros j _. rewrite Inner, (colsum_Nj x ps S j HS'). ring.
    - intros j _ Hj. rewrite (Nj_unobserved x ps C j HC' Hj). f_equal.
      rewrite (qsum_ext _ _ _ (fun _ => h0)).
      + rewrite qsum_const. unfold all_states. rewrite seq_length. reflexivity.
      + intros k _. rewrite (C3 j Hj k). apply Hh.
    - exact cfg_dec.
  Qed.
End Cfgs.
