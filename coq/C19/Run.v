(* C19 entry points for the extracted driver: sx -> sx *)
From Coq Require Import List Bool Arith ZArith QArith Qcanon.
From PV Require Import Base.Sx C19.Terms C19.Model.
Import ListNotations.
Local Open Scope nat_scope.

Definition sx_opt {A} (d : sx -> option A) (s : sx) : option (option A) :=
  match s with
  | SL [] => Some None
  | SL [x] => match d x with Some v => Some (Some v) | None => None end
  | _ => None
  end.

Definition dec_lname (n : nat) : option lname :=
  match n with
  | 0 => Some LPearson | 1 => Some LLogLik | 2 => Some LFreemanTukey
  | 3 => Some LModLogLik | 4 => Some LNeyman | 5 => Some LCressieRead
  | 6 => Some LFreemanTuckeyDoc | _ => None
  end.
(* lambda_ argument: () = None ; (0 nameidx) ; (1 (num den)) *)
Definition dec_larg (s : sx) : option larg :=
  match s with
  | SL [] => Some LNone
  | SL [SZ 0%Z; n] => match sx_nat n with
                      | Some k => match dec_lname k with Some l => Some (LName l) | None => None end
                      | None => None end
  | SL [SZ 1%Z; q] => match sx_Qc q with Some v => Some (LNum v) | None => None end
  | _ => None
  end.
Definition dec_wrapper (w : nat) (a : larg) : option wrapper :=
  match w with
  | 0 => Some W_chi_square | 1 => Some W_g_sq | 2 => Some W_log_likelihood
  | 3 => Some W_modified_log_likelihood | 4 => Some W_power_divergence_default
  | 5 => Some (W_power_divergence a) | _ => None
  end.

Definition of_cell (c : cell) : sx := SL [of_Qc (fst c); of_Qc (snd c)].
Definition of_pterm_kind (p : pterm) : sx :=
  match p with POne => SZ 0%Z | PSF _ _ => SZ 1%Z | P1mCDF _ _ => SZ 2%Z end.

(* a row is valid when it has a value for every column and categorical values are declared categories *)
Definition valid_row (kinds : list (option nat)) (r : row) : bool :=
  (length r =? length kinds) &&
  forallb (fun p : nat * option nat => match snd p with Some k => fst p <? k | None => true end)
          (combine r kinds).

(* [wrapper larg kinds rows X Y Z] -> [lambda cells dof pkind]; model error codes 1..4 (Model.v) *)
Definition run_c19_pd (s : sx) : sx :=
  match s with
  | SL [sw; sa; sk; sr; sX; sY; sZ] =>
      match sx_nat sw, dec_larg sa, sx_list (sx_opt sx_nat) sk, sx_list (sx_list sx_nat) sr,
            sx_nat sX, sx_nat sY, sx_list sx_nat sZ with
      | Some w, Some a, Some kinds, Some rows, Some X, Some Y, Some Z =>
          match dec_wrapper w a with
          | None => bad_request
          | Some wr =>
              if forallb (valid_row kinds) rows && (X <? length kinds) && (Y <? length kinds)
                 && forallb (fun z => z <? length kinds) Z
              then match run_wrapper wr kinds rows X Y Z with
                   | CIerr c => sx_err (Z.of_nat c)
                   | CIok st dof p =>
                       sx_ok (SL [of_Qc (s_lam st); of_list of_cell (s_cells st); of_nat dof;
                                  of_pterm_kind p])
                   end
              else bad_request
          end
      | _, _, _, _, _, _, _ => bad_request
      end
  | _ => bad_request
  end.

(* [p alpha] with p = () for NaN or ((num den)) -> verdict *)
Definition run_c19_verdict (s : sx) : sx :=
  match s with
  | SL [sp; sa] =>
      match sx_opt sx_Qc sp, sx_Qc sa with
      | Some p, Some a => sx_ok (of_bool (verdict p a))
      | _, _ => bad_request
      end
  | _ => bad_request
  end.

(* [zempty Zrows x y] -> [resid_x resid_y [sxy sxx syy] corr n]; error 7 = the solver's output fails
   the normal equations (never observed), 8 = ragged input *)
Definition run_c19_pearson (s : sx) : sx :=
  match s with
  | SL [sz; sZr; sx_; sy] =>
      match sx_bool sz, sx_list (sx_list sx_Qc) sZr, sx_list sx_Qc sx_, sx_list sx_Qc sy with
      | Some zempty, Some Zr, Some x, Some y =>
          let k := match Zr with r :: _ => length r | [] => 0 end in
          if negb ((length x =? length y) && (length Zr =? length x)
                   && forallb (fun r : vec => length r =? k) Zr)
          then sx_err 8
          else
            let m := S k in
            let A := design Zr in
            let bx := lstsq m A x in
            let by_ := lstsq m A y in
            if zempty || (normal_eqb m A x bx && normal_eqb m A y by_) then
              let rx := if zempty then x else resid A x bx in
              let ry := if zempty then y else resid A y by_ in
              let '(sxy, sxx, syy) := pearson_sums rx ry in
              sx_ok (SL [of_list of_Qc rx; of_list of_Qc ry;
                         SL [of_Qc sxy; of_Qc sxx; of_Qc syy];
                         of_option (fun p : Z * Qc => SL [SZ (fst p); of_Qc (snd p)])
                                   (pearsonr_model zempty Zr x y bx by_);
                         of_nat (length x)])
            else sx_err 7
      | _, _, _, _ => bad_request
      end
  | _ => bad_request
  end.
