(* C19 model: pgmpy/estimators/CITests.py as coded (after the fix: commits 772ab0d: pearsonr regresses
   on [1 Z]; 2462e22: pooled dof 0 gives p-value 1; 50eed3a: the documented name 'freeman-tuckey' is accepted).  Executable definitions only, no proofs.

   Data frame = list of rows; a row = list of state indices (one per column); a column is either an
   integer column (kind None: its levels are the values observed) or a pandas Categorical
   (kind Some k: k declared categories 0..k-1, possibly unobserved).

   power_divergence(X, Y, Z, data, lambda_):
     Z = []   stats.chi2_contingency(data.groupby([X, Y], observed=False).size().unstack(Y, fill_value=0))
              -> rows = levels of X, columns = levels of Y, where a Categorical contributes ALL
              declared categories and an integer column its observed values
     Z != []  for every OBSERVED configuration of Z (groupby(Z, observed=True)): np.unique of X and of Y
              inside the stratum, bincount table, skip rule (a zero row or column margin),
              chi += c; dof += d;  p = 1 - chi2.cdf(chi, dof) if dof > 0 else 1.0   (fix 2462e22)
   scipy.stats.chi2_contingency (correction=True is the default and pgmpy never passes it):
     expected = outer(row sums, column sums)/n; ValueError when an expected count is 0;
     dof = (R-1)(C-1); dof = 0 -> (0.0, 1.0); dof = 1 -> Yates-adjusted observed counts;
     statistic = power_divergence(observed, expected, lambda_) = Σ PHI(lambda, o, e). *)
From Coq Require Import List Bool Arith ZArith QArith Qcanon.
From PV Require Import C19.Terms.
Import ListNotations.
Local Open Scope nat_scope.

Definition row := list nat.
Definition getc (r : row) (c : nat) : nat := nth c r 0.
Definition proj (cols : list nat) (r : row) : list nat := map (getc r) cols.
Definition key_eq_dec : forall a b : list nat, {a = b} + {a <> b} := list_eq_dec Nat.eq_dec.
Definition keyeqb (a b : list nat) : bool := if key_eq_dec a b then true else false.
Definition memn (x : nat) (l : list nat) : bool := existsb (Nat.eqb x) l.

Definition levels (kind : option nat) (vals : list nat) : list nat :=
  match kind with Some k => seq 0 k | None => nodup Nat.eq_dec vals end.

(* number of rows with X = i and Y = j *)
Definition cnt (rows : list row) (X Y i j : nat) : nat :=
  length (filter (fun r => Nat.eqb (getc r X) i && Nat.eqb (getc r Y) j) rows).

Definition qn (n : nat) : Qc := Q2Qc (inject_Z (Z.of_nat n)).
Definition qhalf : Qc := Q2Qc (1 # 2).

(* ---------------------------------------------------------------- scipy.stats.chi2_contingency *)
Definition rowsum (f : nat -> nat -> nat) (ly : list nat) (i : nat) : nat := list_sum (map (f i) ly).
Definition colsum (f : nat -> nat -> nat) (lx : list nat) (j : nat) : nat :=
  list_sum (map (fun i => f i j) lx).
Definition total (f : nat -> nat -> nat) (lx ly : list nat) : nat := list_sum (map (rowsum f ly) lx).
Definition expected (r c n : nat) : Qc := (qn (r * c) / qn n)%Qc.

(* observed + sign(expected - observed) * min(0.5, |expected - observed|) *)
Definition yates (o e : Qc) : Qc :=
  let d := (e - o)%Qc in
  (o + (if qc_leb (- qhalf) d && qc_leb d qhalf then d
        else if qc_leb 0 d then qhalf else - qhalf))%Qc.

Definition grid {A} (f : nat -> nat -> A) (lx ly : list nat) : list A :=
  flat_map (fun i => map (f i) ly) lx.

Definition is_zero (q : Qc) : bool := if Qc_eq_dec q 0%Qc then true else false.

(* error codes: 1 = "expected frequencies has a zero element" (ValueError), 2 = "No data" (ValueError),
   3 = empty frame (not modelled), 4 = X or Y in Z (ValueError) *)
Inductive cc_result := CCerr (code : nat) | CCok (cells : list cell) (dof : nat).

Definition cc_dof (lx ly : list nat) : nat := (length lx - 1) * (length ly - 1).

Definition cc_cell (f : nat -> nat -> nat) (lx ly : list nat) (corr : bool) (i j : nat) : cell :=
  let e := expected (rowsum f ly i) (colsum f lx j) (total f lx ly) in
  let o := qn (f i j) in
  ((if corr then yates o e else o), e).

Definition chi2_contingency (f : nat -> nat -> nat) (lx ly : list nat) : cc_result :=
  if (length lx * length ly =? 0) then CCerr 2
  else if (total f lx ly =? 0) then CCerr 3
  else if existsb (fun c : cell => is_zero (snd c)) (grid (cc_cell f lx ly false) lx ly) then CCerr 1
  else
    let dof := cc_dof lx ly in
    if dof =? 0 then CCok [] 0
    else CCok (grid (cc_cell f lx ly (dof =? 1)) lx ly) dof.

(* ---------------------------------------------------------------- power_divergence *)
Inductive ci_result := CIerr (code : nat) | CIok (s : stat) (dof : nat) (p : pterm).

Definition colvals (rows : list row) (c : nat) : list nat := map (fun r => getc r c) rows.

Definition ci_uncond (lam : Qc) (kinds : list (option nat)) (rows : list row) (X Y : nat) : ci_result :=
  let lx := levels (nth X kinds None) (colvals rows X) in
  let ly := levels (nth Y kinds None) (colvals rows Y) in
  match chi2_contingency (cnt rows X Y) lx ly with
  | CCerr c => CIerr c
  | CCok cells dof =>
      let s := mk_stat lam cells in
      CIok s dof (if dof =? 0 then POne else PSF s dof)
  end.

(* data.groupby(Z, observed=True): one group per observed key *)
Definition strata (Z : list nat) (rows : list row) : list (list row) :=
  map (fun k => filter (fun r => keyeqb (proj Z r) k) rows)
      (nodup key_eq_dec (map (proj Z) rows)).

Definition skip_rule (f : nat -> nat -> nat) (ux uy : list nat) : bool :=
  existsb (fun j => colsum f ux j =? 0) uy || existsb (fun i => rowsum f uy i =? 0) ux.

(* one iteration of the loop body; acc = (chi as formal sum, dof) or an escaped exception *)
Definition stratum_step (X Y : nat) (acc : cc_result) (df : list row) : cc_result :=
  match acc with
  | CCerr c => CCerr c
  | CCok cells dof =>
      let ux := nodup Nat.eq_dec (colvals df X) in
      let uy := nodup Nat.eq_dec (colvals df Y) in
      let f := cnt df X Y in
      if skip_rule f ux uy then CCok cells dof
      else match chi2_contingency f ux uy with
           | CCerr c => CCerr c
           | CCok c d => CCok (cells ++ c) (dof + d)
           end
  end.

Definition ci_cond (lam : Qc) (rows : list row) (X Y : nat) (Z : list nat) : ci_result :=
  match fold_left (stratum_step X Y) (strata Z rows) (CCok [] 0) with
  | CCerr c => CIerr c
  | CCok cells dof =>
      let s := mk_stat lam cells in CIok s dof (if dof =? 0 then POne else P1mCDF s dof)
  end.

Definition power_divergence (lam : Qc) (kinds : list (option nat)) (rows : list row)
           (X Y : nat) (Z : list nat) : ci_result :=
  if memn X Z || memn Y Z then CIerr 4
  else match rows with
       | [] => CIerr 3
       | _ => match Z with
              | [] => ci_uncond lam kinds rows X Y
              | _ => ci_cond lam rows X Y Z
              end
       end.

(* ---------------------------------------------------------------- lambda_ and the named wrappers *)
(* scipy.stats._stats_py._power_div_lambda_names, plus the spelling 'freeman-tuckey' of pgmpy's
   docstring, which power_divergence rewrites to scipy's 'freeman-tukey' *)
Inductive lname := LPearson | LLogLik | LFreemanTukey | LModLogLik | LNeyman | LCressieRead
                 | LFreemanTuckeyDoc.
Definition lambda_of_name (n : lname) : Qc :=
  match n with
  | LPearson => 1%Qc
  | LLogLik => 0%Qc
  | LFreemanTukey => Q2Qc (-1 # 2)
  | LModLogLik => Q2Qc (-1 # 1)
  | LNeyman => Q2Qc (-2 # 1)
  | LCressieRead => Q2Qc (2 # 3)
  | LFreemanTuckeyDoc => Q2Qc (-1 # 2)
  end.
(* the lambda_ argument: None (scipy: Pearson), a name, or a number *)
Inductive larg := LNone | LName (n : lname) | LNum (q : Qc).
Definition resolve_lambda (a : larg) : Qc :=
  match a with LNone => 1%Qc | LName n => lambda_of_name n | LNum q => q end.

(* the callables of CITests.py that end in power_divergence, with the lambda_ each one passes *)
Inductive wrapper := W_chi_square | W_g_sq | W_log_likelihood | W_modified_log_likelihood
                   | W_power_divergence_default | W_power_divergence (a : larg).
Definition wrapper_larg (w : wrapper) : larg :=
  match w with
  | W_chi_square => LName LPearson
  | W_g_sq => LName LLogLik
  | W_log_likelihood => LName LLogLik
  | W_modified_log_likelihood => LName LModLogLik
  | W_power_divergence_default => LName LCressieRead
  | W_power_divergence a => a
  end.
Definition run_wrapper (w : wrapper) kinds rows X Y Z : ci_result :=
  power_divergence (resolve_lambda (wrapper_larg w)) kinds rows X Y Z.

(* boolean=True:  p_value >= significance_level ; a NaN p-value (None) compares False *)
Definition verdict (p : option Qc) (alpha : Qc) : bool :=
  match p with Some v => qc_leb alpha v | None => false end.

(* ================================================================ pearsonr *)
Definition vec := list Qc.
Definition zeros (m : nat) : vec := repeat 0%Qc m.
Definition vadd (u v : vec) : vec := map (fun p => (fst p + snd p)%Qc) (combine u v).
Definition vsub (u v : vec) : vec := map (fun p => (fst p - snd p)%Qc) (combine u v).
Definition vscale (c : Qc) (u : vec) : vec := map (Qcmult c) u.
Definition vsum (u : vec) : Qc := fold_right Qcplus 0%Qc u.
Definition dot (u v : vec) : Qc := vsum (map (fun p => (fst p * snd p)%Qc) (combine u v)).
Definition mulv (A : list vec) (b : vec) : vec := map (fun r => dot r b) A.
(* A^T r as the r-weighted sum of the rows of A *)
Fixpoint tmulv (m : nat) (A : list vec) (r : vec) : vec :=
  match A, r with
  | a :: A', x :: r' => vadd (vscale x a) (tmulv m A' r')
  | _, _ => zeros m
  end.

(* Z_mat = np.column_stack((np.ones(n), data[Z].values)) *)
Definition design (Zr : list vec) : list vec := map (fun z => 1%Qc :: z) Zr.
(* residual = v - Z_mat.dot(coef) *)
Definition resid (A : list vec) (y b : vec) : vec := vsub y (mulv A b).
(* coef = lstsq(Z_mat, v)[0]: characterised by the normal equations  A^T (v - A coef) = 0 *)
Definition normal_eq (m : nat) (A : list vec) (y b : vec) : Prop := tmulv m A (resid A y b) = zeros m.
Definition vec_eqb (u v : vec) : bool := if list_eq_dec Qc_eq_dec u v then true else false.
Definition normal_eqb (m : nat) (A : list vec) (y b : vec) : bool := vec_eqb (tmulv m A (resid A y b)) (zeros m).

(* scipy.stats.pearsonr: xm = x - mean(x); r = xm.ym / sqrt(xm.xm * ym.ym) *)
Definition mean (u : vec) : Qc := (vsum u / qn (length u))%Qc.
Definition center (u : vec) : vec := map (fun x => (x - mean u)%Qc) u.
Definition pearson_sums (u v : vec) : Qc * Qc * Qc :=
  let um := center u in let vm := center v in (dot um vm, dot um um, dot vm vm).
Definition qsign (q : Qc) : Z := if is_zero q then 0%Z else if qc_leb 0%Qc q then 1%Z else (-1)%Z.
(* the correlation as a formal term  sign * SQRT(r2),  r2 = Sxy^2/(Sxx Syy) in Q; None = undefined (a
   constant input; scipy returns nan) *)
Definition corr_nf (u v : vec) : option (Z * Qc) :=
  match pearson_sums u v with
  | (sxy, sxx, syy) =>
      if is_zero (sxx * syy) then None else Some (qsign sxy, (sxy * sxy / (sxx * syy))%Qc)
  end.

(* pearsonr(X, Y, Z): [coefx], [coefy] are the lstsq solutions (any solutions of the normal equations) *)
Definition pearsonr_model (zempty : bool) (Zr : list vec) (x y coefx coefy : vec) : option (Z * Qc) :=
  if zempty then corr_nf x y
  else corr_nf (resid (design Zr) x coefx) (resid (design Zr) y coefy).

(* ---------------------------------------------------------------- an executable least-squares solver:
   Gauss-Jordan elimination on the augmented normal matrix [A^T A | A^T y]; free variables are 0.
   Its output is CHECKED against the normal equations at run time (normal_eqb) - the theorems only
   use the normal equations, never this code. *)
Definition col (A : list vec) (j : nat) : vec := map (fun r => nth j r 0%Qc) A.
Definition normal_aug (m : nat) (A : list vec) (y : vec) : list vec :=
  map (fun j => map (fun k => dot (col A j) (col A k)) (seq 0 m) ++ [dot (col A j) y]) (seq 0 m).

Fixpoint find_pivot (c : nat) (rest : list vec) : option (vec * list vec) :=
  match rest with
  | [] => None
  | r :: t => if is_zero (nth c r 0%Qc)
              then match find_pivot c t with Some (p, o) => Some (p, r :: o) | None => None end
              else Some (r, t)
  end.

Fixpoint gauss_jordan (fuel c : nat) (used : list (nat * vec)) (rest : list vec) : list (nat * vec) :=
  match fuel with
  | O => used
  | S f =>
      match find_pivot c rest with
      | None => gauss_jordan f (S c) used rest
      | Some (p, others) =>
          let pn := vscale (/ nth c p 0%Qc)%Qc p in
          let elim := fun r : vec => vsub r (vscale (nth c r 0%Qc) pn) in
          gauss_jordan f (S c) ((c, pn) :: map (fun cr => (fst cr, elim (snd cr))) used) (map elim others)
      end
  end.

Definition lstsq (m : nat) (A : list vec) (y : vec) : vec :=
  let used := gauss_jordan m 0 [] (normal_aug m A y) in
  map (fun c => match find (fun cr => Nat.eqb (fst cr) c) used with
                | Some (_, r) => nth m r 0%Qc
                | None => 0%Qc
                end) (seq 0 m).
