(* C19 formal terms.
   The power-divergence statistic is NOT computed in floating point by the model.  It is the
   formal sum   Σ PHI(λ, o, e)   over the cells of the analysed contingency tables, where PHI is
   an UNINTERPRETED atom with rational arguments (o = observed count, possibly Yates-adjusted,
   e = expected count r_i c_j / n).  A formal sum is a finite multiset of atoms; its normal form
   is the sorted list of (o, e) pairs (λ is common to all atoms of one statistic).  Theorems are
   equalities of normal forms, hence hold for every interpretation of PHI into a commutative
   monoid.  The p-value is an atom over (statistic, dof). *)
From Coq Require Import List Bool Arith ZArith QArith Qcanon Permutation Lia Lqa.
Import ListNotations.

(* ------------------------------------------------------------------ generic insertion sort *)
Section Sort.
  Variable A : Type.
  Variable leb : A -> A -> bool.

  Fixpoint insert (x : A) (l : list A) : list A :=
    match l with
    | [] => [x]
    | h :: t => if leb x h then x :: h :: t else h :: insert x t
    end.
  Fixpoint isort (l : list A) : list A :=
    match l with [] => [] | x :: t => insert x (isort t) end.

  Hypothesis leb_total : forall a b, leb a b = true \/ leb b a = true.
  Hypothesis leb_antisym : forall a b, leb a b = true -> leb b a = true -> a = b.
  Hypothesis leb_trans : forall a b c, leb a b = true -> leb b c = true -> leb a c = true.

  Lemma insert_comm : forall x y l, insert x (insert y l) = insert y (insert x l).
  Proof.
    intros x y l. induction l as [|h t IH]; cbn [insert].
    - destruct (leb x y) eqn:Exy, (leb y x) eqn:Eyx; try reflexivity.
      + rewrite (leb_antisym _ _ Exy Eyx). reflexivity.
      + destruct (leb_total x y); congruence.
    - destruct (leb y h) eqn:Eyh, (leb x h) eqn:Exh; cbn [insert];
        rewrite ?Eyh, ?Exh.
      + destruct (leb x y) eqn:Exy, (leb y x) eqn:Eyx; try reflexivity.
        * rewrite (leb_antisym _ _ Exy Eyx). reflexivity.
        * destruct (leb_total x y); congruence.
      + destruct (leb x y) eqn:Exy.
        * rewrite (leb_trans _ _ _ Exy Eyh) in Exh. discriminate.
        * reflexivity.
      + destruct (leb y x) eqn:Eyx.
        * rewrite (leb_trans _ _ _ Eyx Exh) in Eyh. discriminate.
        * reflexivity.
      + rewrite IH. reflexivity.
  Qed.

  Lemma isort_perm_eq : forall l l', Permutation l l' -> isort l = isort l'.
  Proof.
    induction 1; cbn [isort].
    - reflexivity.
    - now rewrite IHPermutation.
    - apply insert_comm.
    - congruence.
  Qed.

  Lemma insert_perm : forall x l, Permutation (x :: l) (insert x l).
  Proof.
    intros x l. induction l as [|h t IH]; cbn [insert]; [reflexivity|].
    destruct (leb x h); [reflexivity|].
    rewrite perm_swap. now apply perm_skip.
  Qed.
  Lemma isort_perm : forall l, Permutation l (isort l).
  Proof.
    induction l as [|x t IH]; cbn [isort]; [constructor|].
    rewrite <- insert_perm. now apply perm_skip.
  Qed.
  Lemma isort_eq_perm : forall l l', isort l = isort l' -> Permutation l l'.
  Proof.
    intros l l' H. rewrite (isort_perm l), H. symmetry. apply isort_perm.
  Qed.
End Sort.
Arguments insert {A}. Arguments isort {A}.

(* ------------------------------------------------------------------ the order on cells *)
Definition qc_leb (a b : Qc) : bool := Qle_bool (this a) (this b).

Lemma qc_leb_le : forall a b, qc_leb a b = true <-> (a <= b)%Qc.
Proof. intros. unfold qc_leb, Qcle. apply Qle_bool_iff. Qed.
Lemma qc_leb_total : forall a b, qc_leb a b = true \/ qc_leb b a = true.
Proof.
  intros. rewrite !qc_leb_le. destruct (Qclt_le_dec a b) as [H|H]; [left|right]; auto.
  now apply Qclt_le_weak.
Qed.
Lemma qc_leb_antisym : forall a b, qc_leb a b = true -> qc_leb b a = true -> a = b.
Proof. intros a b. rewrite !qc_leb_le. apply Qcle_antisym. Qed.
Lemma qc_leb_trans : forall a b c, qc_leb a b = true -> qc_leb b c = true -> qc_leb a c = true.
Proof. intros a b c. rewrite !qc_leb_le. apply Qcle_trans. Qed.
Lemma qc_leb_refl : forall a, qc_leb a a = true.
Proof. intros. rewrite qc_leb_le. apply Qcle_refl. Qed.

Definition cell : Type := (Qc * Qc)%type.     (* (o, e) *)
(* lexicographic: strictly smaller first component, or equal-or-incomparable first and <= second *)
Definition cell_leb (a b : cell) : bool :=
  if negb (qc_leb (fst b) (fst a)) then true
  else if negb (qc_leb (fst a) (fst b)) then false
  else qc_leb (snd a) (snd b).

Lemma cell_leb_total : forall a b, cell_leb a b = true \/ cell_leb b a = true.
Proof.
  intros [a1 a2] [b1 b2]. unfold cell_leb; cbn [fst snd].
  destruct (qc_leb b1 a1) eqn:E1, (qc_leb a1 b1) eqn:E2; cbn [negb]; auto.
  all: try apply qc_leb_total.
  all: destruct (qc_leb_total a1 b1); congruence.
Qed.
Lemma cell_leb_antisym : forall a b, cell_leb a b = true -> cell_leb b a = true -> a = b.
Proof.
  intros [a1 a2] [b1 b2]. unfold cell_leb; cbn [fst snd].
  destruct (qc_leb b1 a1) eqn:E1, (qc_leb a1 b1) eqn:E2; cbn [negb]; intros H1 H2; try discriminate.
  - f_equal; now apply qc_leb_antisym.
  - destruct (qc_leb_total a1 b1); congruence.
Qed.
Lemma qc_leb_true_Q : forall a b, qc_leb a b = true -> (this a <= this b)%Q.
Proof. intros a b H. now apply Qle_bool_iff. Qed.
Lemma qc_leb_false_Q : forall a b, qc_leb a b = false -> (this b < this a)%Q.
Proof.
  intros a b H. apply Qnot_le_lt. intro H'. apply Qle_bool_iff in H'.
  unfold qc_leb in H. congruence.
Qed.
Lemma cell_leb_trans : forall a b c, cell_leb a b = true -> cell_leb b c = true -> cell_leb a c = true.
Proof.
  intros [a1 a2] [b1 b2] [c1 c2]. unfold cell_leb; cbn [fst snd].
  destruct (qc_leb b1 a1) eqn:Eba, (qc_leb a1 b1) eqn:Eab; cbn [negb]; intros H1; try discriminate;
  destruct (qc_leb c1 b1) eqn:Ecb, (qc_leb b1 c1) eqn:Ebc; cbn [negb]; intros H2; try discriminate;
  destruct (qc_leb c1 a1) eqn:Eca, (qc_leb a1 c1) eqn:Eac; cbn [negb]; try reflexivity;
  try (eapply qc_leb_trans; eassumption);
  exfalso;
  repeat match goal with
         | H : qc_leb _ _ = true |- _ => apply qc_leb_true_Q in H
         | H : qc_leb _ _ = false |- _ => apply qc_leb_false_Q in H
         end; lra.
Qed.

(* normal form of a formal sum of PHI atoms *)
Definition nf (l : list cell) : list cell := isort cell_leb l.

Lemma nf_perm_eq : forall l l', Permutation l l' -> nf l = nf l'.
Proof. apply isort_perm_eq; [apply cell_leb_total|apply cell_leb_antisym|apply cell_leb_trans]. Qed.
Lemma nf_perm : forall l, Permutation l (nf l).
Proof. apply isort_perm. Qed.
Lemma nf_eq_perm : forall l l', nf l = nf l' -> Permutation l l'.
Proof. apply isort_eq_perm. Qed.
Lemma nf_idem : forall l, nf (nf l) = nf l.
Proof. intros. apply nf_perm_eq. symmetry. apply nf_perm. Qed.

(* ------------------------------------------------------------------ statistic and p-value terms *)
(* statistic:  Σ_{(o,e) ∈ cells} PHI(lam, o, e)   with [cells] in normal form *)
Record stat := { s_lam : Qc; s_cells : list cell }.
Definition mk_stat (lam : Qc) (cells : list cell) : stat := {| s_lam := lam; s_cells := nf cells |}.

(* p-value terms, as the code produces them:
   POne            the literal 1.0: scipy's chi2_contingency for dof = 0 (unconditional branch), pgmpy's
                   own `else 1.0` for a pooled dof of 0 (conditional branch)
   PSF s d         scipy.stats.chi2.sf(s, d)          (unconditional branch, via scipy power_divergence)
   P1mCDF s d      1 - scipy.stats.chi2.cdf(s, d)     (conditional branch, pooled dof > 0)      *)
Inductive pterm := POne | PSF (s : stat) (dof : nat) | P1mCDF (s : stat) (dof : nat).

(* ------------------------------------------------------------------ interpretations *)
Section Interp.
  Variable V : Type.
  Variable vadd : V -> V -> V.
  Variable vzero : V.
  Hypothesis vadd_comm : forall a b, vadd a b = vadd b a.
  Hypothesis vadd_assoc : forall a b c, vadd a (vadd b c) = vadd (vadd a b) c.
  Hypothesis vadd_0_l : forall a, vadd vzero a = a.
  Variable phi : Qc -> Qc -> Qc -> V.       (* interpretation of PHI(lam, o, e) *)

  Definition eval_cells (lam : Qc) (l : list cell) : V :=
    fold_right (fun c acc => vadd (phi lam (fst c) (snd c)) acc) vzero l.
  Definition eval_stat (s : stat) : V := eval_cells (s_lam s) (s_cells s).

  Lemma eval_cells_perm : forall lam l l', Permutation l l' -> eval_cells lam l = eval_cells lam l'.
  Proof.
    intros lam. unfold eval_cells. induction 1; cbn [fold_right].
    - reflexivity.
    - now f_equal.
    - rewrite !vadd_assoc. f_equal. apply vadd_comm.
    - congruence.
  Qed.
  Lemma eval_mk_stat : forall lam l, eval_stat (mk_stat lam l) = eval_cells lam l.
  Proof. intros. unfold eval_stat, mk_stat; cbn. symmetry. apply eval_cells_perm, nf_perm. Qed.
  Lemma eval_cells_app : forall lam a b,
    eval_cells lam (a ++ b) = vadd (eval_cells lam a) (eval_cells lam b).
  Proof.
    intros lam a b. unfold eval_cells. induction a as [|x a IH]; cbn [app fold_right].
    - now rewrite vadd_0_l.
    - rewrite IH. apply vadd_assoc.
  Qed.

  (* the single algebraic fact about scipy's formula used for "zero on independent tables" *)
  Definition phi_zero : Prop := forall lam e, phi lam e e = vzero.

  Lemma eval_cells_zero : phi_zero -> forall lam l,
    Forall (fun c : cell => fst c = snd c) l -> eval_cells lam l = vzero.
  Proof.
    intros Hz lam l H. unfold eval_cells. induction H as [|c l Hc _ IH]; cbn [fold_right]; [reflexivity|].
    rewrite IH, Hc, Hz. apply vadd_0_l.
  Qed.
End Interp.

(* ------------------------------------------------------------------ a proved instance: Pearson (lambda = 1) *)
(* scipy: terms = (f_obs - f_exp)**2 / f_exp *)
Definition phi_pearson (lam o e : Qc) : Qc := ((o - e) * (o - e) / e)%Qc.
Lemma phi_pearson_zero : phi_zero Qc 0%Qc phi_pearson.
Proof. intros lam e. unfold phi_pearson. unfold Qcdiv. ring. Qed.
Definition eval_pearson (s : stat) : Qc := eval_stat Qc Qcplus 0%Qc phi_pearson s.
