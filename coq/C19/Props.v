(* C19 property theorems.  Only statements; each is closed by a lemma of Proofs.v / ProofsLin.v,
   with Print Assumptions underneath.

   Reading guide.  [run_wrapper w kinds rows X Y Z] is the model of CITests.<w>(X, Y, Z, data, boolean=False):
   CIerr code (a ValueError) or CIok s dof p where s is the statistic as a NORMALISED formal sum of
   PHI(lambda, o, e) atoms (Terms.v), dof the degrees of freedom and p the p-value term.  Equality of two
   results is therefore equality of the statistic under EVERY interpretation of PHI (eval_cells_perm), of the
   dof, and of the p-value term. *)
From Coq Require Import List Bool Arith ZArith QArith Qcanon Permutation.
From PV Require Import C19.Terms C19.Model C19.Proofs C19.ProofsLin.
Import ListNotations.
Local Open Scope nat_scope.

(* each wrapper passes the documented lambda_ (docstring table of power_divergence; scipy's name table) *)
Theorem C19_wrapper_lambdas :
  resolve_lambda (wrapper_larg W_chi_square) = 1%Qc /\
  resolve_lambda (wrapper_larg W_g_sq) = 0%Qc /\
  resolve_lambda (wrapper_larg W_log_likelihood) = 0%Qc /\
  resolve_lambda (wrapper_larg W_modified_log_likelihood) = Q2Qc (-1 # 1) /\
  resolve_lambda (wrapper_larg W_power_divergence_default) = Q2Qc (2 # 3) /\
  resolve_lambda (wrapper_larg (W_power_divergence LNone)) = 1%Qc /\
  resolve_lambda (wrapper_larg (W_power_divergence (LName LFreemanTukey))) = Q2Qc (-1 # 2) /\
  resolve_lambda (wrapper_larg (W_power_divergence (LName LNeyman))) = Q2Qc (-2 # 1) /\
  (forall q, resolve_lambda (wrapper_larg (W_power_divergence (LNum q))) = q).
Proof. repeat split. Qed.
Print Assumptions C19_wrapper_lambdas.

(* swapping X and Y: same statistic (multiset of (o, e) cells), dof, p-value term, or the same error *)
Theorem C19_symmetric_xy : forall w kinds rows X Y Z,
  run_wrapper w kinds rows Y X Z = run_wrapper w kinds rows X Y Z.
Proof. intros. apply symmetric_xy. Qed.
Print Assumptions C19_symmetric_xy.

(* any reordering of the rows: equal results, or both calls raise *)
Theorem C19_row_perm : forall w kinds rows rows' X Y Z, Permutation rows rows' ->
  ci_equiv (run_wrapper w kinds rows X Y Z) (run_wrapper w kinds rows' X Y Z).
Proof. intros. now apply row_perm. Qed.
Print Assumptions C19_row_perm.

(* any reordering of the conditioning variables *)
Theorem C19_z_order : forall w kinds rows X Y Z Z', Permutation Z Z' ->
  run_wrapper w kinds rows X Y Z = run_wrapper w kinds rows X Y Z'.
Proof. intros. now apply z_order. Qed.
Print Assumptions C19_z_order.

(* exactly independent data (observed = expected in the unconditional table, resp. in every stratum):
   every atom of the statistic is PHI(lambda, e, e); hence, for EVERY interpretation of PHI into a
   monoid with PHI(lambda, e, e) = 0 (phi_zero - a fact about scipy's formula, assumed here and
   proved for the Pearson instance below), the statistic evaluates to 0; and the p-value is the chi2 term of
   that statistic: the literal 1 when dof = 0, else chi2.sf(stat, dof) without Z, 1 - chi2.cdf(stat, dof)
   with Z (both are 1 at stat = 0: a fact about the chi2 distribution, evaluated in the correspondence run). *)
Theorem C19_zero_on_independent :
  forall (V : Type) (vadd : V -> V -> V) (vzero : V) (phi : Qc -> Qc -> Qc -> V),
  (forall a, vadd vzero a = a) -> phi_zero V vzero phi ->
  forall w kinds rows X Y Z s dof p,
  run_wrapper w kinds rows X Y Z = CIok s dof p -> indep_data kinds rows X Y Z ->
  Forall (fun c : cell => fst c = snd c) (s_cells s) /\
  eval_stat V vadd vzero phi s = vzero /\
  p = (if dof =? 0 then POne else match Z with [] => PSF s dof | _ => P1mCDF s dof end).
Proof.
  intros V vadd vzero phi H0 Hz w kinds rows X Y Z s dof p H Hi.
  pose proof (indep_cells _ _ _ _ _ _ _ _ _ H Hi) as F. split; [exact F|]. split.
  - unfold eval_stat. now apply eval_cells_zero.
  - eapply pterm_shape. exact H.
Qed.
Print Assumptions C19_zero_on_independent.

(* the Pearson chi-square instance (lambda_ = 1): PHI(o, e) = (o - e)^2 / e over Q, phi_zero PROVED *)
Theorem C19_zero_on_independent_pearson : forall w kinds rows X Y Z s dof p,
  run_wrapper w kinds rows X Y Z = CIok s dof p -> indep_data kinds rows X Y Z ->
  eval_pearson s = 0%Qc.
Proof.
  intros w kinds rows X Y Z s dof p H Hi. unfold eval_pearson, eval_stat.
  apply eval_cells_zero; [intros; ring|apply phi_pearson_zero|].
  exact (indep_cells _ _ _ _ _ _ _ _ _ H Hi).
Qed.
Print Assumptions C19_zero_on_independent_pearson.

(* pooled dof 0 (e.g. one X level per stratum; exactly independent data): the p-value is the constant 1 in
   both branches (after fix 2462e22; before it the conditional branch returned 1 - chi2.cdf(0, df=0) = NaN) *)
Theorem C19_pvalue_one_dof0 : forall w kinds rows X Y Z s p,
  run_wrapper w kinds rows X Y Z = CIok s 0 p -> p = POne /\ s_cells s = [].
Proof.
  intros w kinds rows X Y Z s p H. split.
  - now rewrite (pterm_shape _ _ _ _ _ _ _ _ _ H).
  - eapply dof0_no_cells. exact H.
Qed.
Print Assumptions C19_pvalue_one_dof0.
(* non-vacuity: such data exists *)
Theorem C19_pvalue_one_dof0_example :
  indep_data [None; None; None] ex_degenerate 0 1 [2] /\
  run_wrapper W_chi_square [None; None; None] ex_degenerate 0 1 [2] = CIok (mk_stat 1%Qc []) 0 POne.
Proof. exact degenerate_pvalue_term. Qed.
Print Assumptions C19_pvalue_one_dof0_example.

(* degrees of freedom: (R-1)(C-1) of the cross table without Z; with Z the sum over the non-skipped strata
   of (r_s - 1)(c_s - 1), r_s / c_s = number of X / Y levels observed in the stratum *)
Theorem C19_dof : forall w kinds rows X Y Z s dof p,
  run_wrapper w kinds rows X Y Z = CIok s dof p ->
  dof = match Z with
        | [] => (length (levels (nth X kinds None) (colvals rows X)) - 1) *
                (length (levels (nth Y kinds None) (colvals rows Y)) - 1)
        | _ => list_sum (map (stratum_dof X Y) (filter (not_skipped X Y) (strata Z rows)))
        end.
Proof. intros. eapply dof_all. eassumption. Qed.
Print Assumptions C19_dof.

(* the skip rule ("a zero row or column margin") can never fire: the stratum table is built from the
   levels observed in the stratum, so every stratum is analysed *)
Theorem C19_skip_rule_dead : forall X Y Z rows,
  (forall df, skip_rule (cnt df X Y) (ux_of X df) (ux_of Y df) = false) /\
  filter (not_skipped X Y) (strata Z rows) = strata Z rows.
Proof. intros. split; [intros; apply skip_rule_dead|apply filter_not_skipped]. Qed.
Print Assumptions C19_skip_rule_dead.

(* boolean=True: the verdict is exactly  p_value >= significance_level  (False for a NaN p-value) *)
Theorem C19_verdict : forall p alpha,
  verdict p alpha = true <-> exists v, p = Some v /\ (alpha <= v)%Qc.
Proof. exact verdict_spec. Qed.
Print Assumptions C19_verdict.

(* pearsonr with Z: the Pearson correlation term of the least-squares residuals on [1 Z], and the result
   does not depend on WHICH solution of the normal equations lstsq returns (rank-deficient Z included) *)
Theorem C19_pearson_residuals : forall k Zr x y bx by_,
  pearsonr_model false Zr x y bx by_ = corr_nf (resid (design Zr) x bx) (resid (design Zr) y by_) /\
  (forall bx' by', lstsq_ok k Zr x y bx by_ -> lstsq_ok k Zr x y bx' by' ->
     pearsonr_model false Zr x y bx' by' = pearsonr_model false Zr x y bx by_) /\
  pearsonr_model true Zr x y bx by_ = corr_nf x y.
Proof.
  intros. split; [reflexivity|]. split; [|reflexivity].
  intros. eapply pearsonr_solver_independent; eassumption.
Qed.
Print Assumptions C19_pearson_residuals.

(* invariance under  v -> a_v * v + c_v  for EVERY variable: a_X, a_Y > 0, and every Z column j by
   a_j <> 0 (any invertible column scaling) and any shift c_j; for Z empty or not; for ANY solutions of the
   normal equations before and after (so also for numpy's minimum-norm solution on rank-deficient Z).
   The column space of [1 Z] is invariant, hence the residuals of X and Y are only rescaled by a_X, a_Y. *)
Theorem C19_pearson_shift_scale_invariant :
  forall zempty k Zr x y bx by_ ax cx ay cy az cz bx' by',
  (0 < ax)%Qc -> (0 < ay)%Qc -> length az = k -> length cz = k -> Forall (fun a => a <> 0%Qc) az ->
  lstsq_ok k Zr x y bx by_ ->
  lstsq_ok k (affineZ az cz Zr) (affine ax cx x) (affine ay cy y) bx' by' ->
  pearsonr_model zempty (affineZ az cz Zr) (affine ax cx x) (affine ay cy y) bx' by' =
  pearsonr_model zempty Zr x y bx by_.
Proof. exact pearsonr_affine_invariant_full. Qed.
Print Assumptions C19_pearson_shift_scale_invariant.

(* the residuals themselves: an affine reparametrisation of the Z columns does not change them *)
Theorem C19_pearson_residuals_z_affine : forall k Zr az cz y b b',
  zwf k Zr -> length az = k -> length cz = k -> Forall (fun a => a <> 0%Qc) az ->
  length y = length Zr -> length b = S k -> length b' = S k ->
  normal_eq (S k) (design Zr) y b ->
  normal_eq (S k) (design (affineZ az cz Zr)) y b' ->
  resid (design (affineZ az cz Zr)) y b' = resid (design Zr) y b.
Proof. exact resid_affine_z. Qed.
Print Assumptions C19_pearson_residuals_z_affine.

(* a NUMERIC lambda_ is passed through unchanged - in particular 0 (0, 0.0, -0.0 are the rational 0) is the
   G-test, not the Cressie-Read default: same result as g_sq on every input *)
Theorem C19_numeric_lambda_passthrough :
  (forall q, resolve_lambda (wrapper_larg (W_power_divergence (LNum q))) = q) /\
  (forall kinds rows X Y Z,
     run_wrapper (W_power_divergence (LNum 0%Qc)) kinds rows X Y Z = run_wrapper W_g_sq kinds rows X Y Z) /\
  (forall kinds rows X Y Z,
     run_wrapper (W_power_divergence (LNum 1%Qc)) kinds rows X Y Z = run_wrapper W_chi_square kinds rows X Y Z) /\
  resolve_lambda (wrapper_larg (W_power_divergence (LNum 0%Qc))) <> resolve_lambda (wrapper_larg W_power_divergence_default).
Proof. repeat split; discriminate. Qed.
Print Assumptions C19_numeric_lambda_passthrough.
