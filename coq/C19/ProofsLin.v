(* C19 proofs, pearsonr part: exact linear algebra over Qc.
   lstsq is characterised by the normal equations  A^T (y - A b) = 0 ; everything below holds for
   ANY b satisfying them (minimum-norm solution of numpy, Gauss-Jordan solution of the model, ...). *)
From Coq Require Import List Bool Arith ZArith QArith Qcanon Lia Lqa.
From PV Require Import C19.Terms C19.Model.
Import ListNotations.
Local Open Scope nat_scope.

(* ------------------------------------------------------------------ Qc facts *)
Lemma Qc_sq_nonneg : forall a : Qc, (0 <= a * a)%Qc.
Proof. intros a. unfold Qcle, Qcmult, Q2Qc; cbn [this]. rewrite !Qred_correct. generalize (this a). intros q. nra. Qed.
Lemma Qc_sum_nonneg_zero : forall a s : Qc, (0 <= a)%Qc -> (0 <= s)%Qc -> (a + s = 0)%Qc -> a = 0%Qc /\ s = 0%Qc.
Proof.
  intros a s Ha Hs H.
  assert (a <= 0)%Qc. { rewrite <- H. rewrite <- (Qcplus_0_r a) at 1. apply Qcplus_le_compat; [apply Qcle_refl|assumption]. }
  assert (a = 0%Qc) by (apply Qcle_antisym; assumption). subst a. split; [reflexivity|]. now rewrite Qcplus_0_l in H.
Qed.
Lemma qn_succ : forall n, qn (S n) = (qn n + 1)%Qc.
Proof.
  intros n. unfold qn. rewrite Nat2Z.inj_succ. unfold Z.succ. unfold Qcplus. apply Q2Qc_eq_iff.
  cbn [this Q2Qc]. rewrite !Qred_correct. rewrite inject_Z_plus. reflexivity.
Qed.
Lemma qn_pos : forall n, (0 < qn (S n))%Qc.
Proof.
  intros n. unfold qn, Qclt, Q2Qc; cbn [this]. rewrite !Qred_correct. unfold Qlt, inject_Z; cbn. lia.
Qed.
Lemma qn_S_neq0 : forall n, qn (S n) <> 0%Qc.
Proof. intros n H. pose proof (qn_pos n) as P. rewrite H in P. now apply Qclt_not_eq in P. Qed.

(* ------------------------------------------------------------------ vectors *)
Lemma dot_cons : forall a u b v, dot (a :: u) (b :: v) = (a * b + dot u v)%Qc.
Proof. reflexivity. Qed.
Lemma dot_nil_l : forall v, dot [] v = 0%Qc.
Proof. reflexivity. Qed.
Lemma dot_nil_r : forall u, dot u [] = 0%Qc.
Proof. intros [|a u]; reflexivity. Qed.
Lemma length_vadd : forall u v, length (vadd u v) = Nat.min (length u) (length v).
Proof. intros. unfold vadd. now rewrite map_length, combine_length. Qed.
Lemma length_vsub : forall u v, length (vsub u v) = Nat.min (length u) (length v).
Proof. intros. unfold vsub. now rewrite map_length, combine_length. Qed.
Lemma length_vscale : forall c u, length (vscale c u) = length u.
Proof. intros. unfold vscale. apply map_length. Qed.
Lemma length_zeros : forall m, length (zeros m) = m.
Proof. intros. apply repeat_length. Qed.
Lemma length_mulv : forall A b, length (mulv A b) = length A.
Proof. intros. unfold mulv. apply map_length. Qed.

Lemma dot_zeros_l : forall m d, dot (zeros m) d = 0%Qc.
Proof.
  induction m as [|m IH]; intros d; [reflexivity|]. destruct d as [|x d]; [reflexivity|].
  cbn [zeros repeat]. rewrite dot_cons. fold (zeros m). rewrite IH. ring.
Qed.
Lemma dot_vadd_l : forall u v d, length u = length v -> dot (vadd u v) d = (dot u d + dot v d)%Qc.
Proof.
  induction u as [|a u IH]; intros [|b v] d H; try discriminate.
  - cbn. ring.
  - destruct d as [|x d]; [now rewrite !dot_nil_r; ring|].
    change (vadd (a :: u) (b :: v)) with ((a + b)%Qc :: vadd u v).
    rewrite !dot_cons, IH by (cbn in H; lia). ring.
Qed.
Lemma dot_vscale_l : forall c u d, dot (vscale c u) d = (c * dot u d)%Qc.
Proof.
  induction u as [|a u IH]; intros d; [cbn; ring|].
  destruct d as [|x d]; [rewrite !dot_nil_r; ring|].
  change (vscale c (a :: u)) with ((c * a)%Qc :: vscale c u). rewrite !dot_cons, IH. ring.
Qed.
Lemma dot_vscale_r : forall c u d, dot u (vscale c d) = (c * dot u d)%Qc.
Proof.
  induction u as [|a u IH]; intros d; [cbn; ring|].
  destruct d as [|x d]; [cbn [vscale map]; rewrite !dot_nil_r; ring|].
  change (vscale c (x :: d)) with ((c * x)%Qc :: vscale c d). rewrite !dot_cons, IH. ring.
Qed.
Lemma dot_vsub_r : forall a u v, length u = length v -> dot a (vsub u v) = (dot a u - dot a v)%Qc.
Proof.
  induction a as [|x a IH]; intros u v H; [cbn; ring|].
  destruct u as [|p u], v as [|q v]; try discriminate; [cbn [vsub combine map]; rewrite !dot_nil_r; ring|].
  change (vsub (p :: u) (q :: v)) with ((p - q)%Qc :: vsub u v).
  rewrite !dot_cons, IH by (cbn in H; lia). ring.
Qed.
Lemma dot_sq_zero : forall v, dot v v = 0%Qc -> Forall (fun x => x = 0%Qc) v.
Proof.
  assert (Hnn : forall v, (0 <= dot v v)%Qc).
  { induction v as [|a v IH]; [apply Qcle_refl|]. rewrite dot_cons.
    rewrite <- (Qcplus_0_r 0). apply Qcplus_le_compat; [apply Qc_sq_nonneg|exact IH]. }
  induction v as [|a v IH]; intros H; [constructor|].
  rewrite dot_cons in H. apply Qc_sum_nonneg_zero in H; [|apply Qc_sq_nonneg|apply Hnn].
  destruct H as [Ha Hv]. constructor; [|now apply IH].
  apply Qcmult_integral in Ha. tauto.
Qed.
Lemma vsub_zero_eq : forall u v, length u = length v -> Forall (fun x => x = 0%Qc) (vsub u v) -> u = v.
Proof.
  induction u as [|a u IH]; intros [|b v] H F; try discriminate; [reflexivity|].
  change (vsub (a :: u) (b :: v)) with ((a - b)%Qc :: vsub u v) in F. inversion F; subst.
  f_equal; [|apply IH; [cbn in H; lia|assumption]].
  match goal with E : (a - b)%Qc = 0%Qc |- _ => rename E into E0 end.
  transitivity ((a - b) + b)%Qc; [ring|]. rewrite E0. ring.
Qed.
Lemma vsub_vsub : forall y p q, length y = length p -> length y = length q ->
  vsub (vsub y p) (vsub y q) = vsub q p.
Proof.
  induction y as [|a y IH]; intros [|b p] [|c q] H1 H2; try discriminate; [reflexivity|].
  change (vsub (vsub (a :: y) (b :: p)) (vsub (a :: y) (c :: q)))
    with (((a - b) - (a - c))%Qc :: vsub (vsub y p) (vsub y q)).
  change (vsub (c :: q) (b :: p)) with ((c - b)%Qc :: vsub q p).
  rewrite IH by (cbn in *; lia). f_equal. ring.
Qed.
Lemma mulv_vsub : forall A u v, length u = length v -> mulv A (vsub u v) = vsub (mulv A u) (mulv A v).
Proof.
  intros A u v H. induction A as [|a A IH]; [reflexivity|].
  cbn [mulv map]. fold (mulv A (vsub u v)) (mulv A u) (mulv A v).
  change (vsub (dot a u :: mulv A u) (dot a v :: mulv A v)) with ((dot a u - dot a v)%Qc :: vsub (mulv A u) (mulv A v)).
  now rewrite IH, dot_vsub_r.
Qed.

(* ------------------------------------------------------------------ A^T and orthogonality *)
Definition wf (m : nat) (A : list vec) : Prop := forall a, In a A -> length a = m.
Lemma length_tmulv : forall m A r, wf m A -> length (tmulv m A r) = m.
Proof.
  intros m A. induction A as [|a A IH]; intros r H; [apply length_zeros|].
  destruct r as [|x r]; [apply length_zeros|]. cbn [tmulv].
  rewrite length_vadd, length_vscale, IH by (intros b Hb; apply H; now right).
  rewrite (H a) by now left. apply Nat.min_id.
Qed.
Lemma adjoint : forall m A d r, wf m A -> dot (mulv A d) r = dot (tmulv m A r) d.
Proof.
  intros m A d. induction A as [|a A IH]; intros r H.
  - cbn [mulv map tmulv]. now rewrite dot_nil_l, dot_zeros_l.
  - destruct r as [|x r]; [cbn [tmulv]; now rewrite dot_nil_r, dot_zeros_l|].
    cbn [mulv map tmulv]. fold (mulv A d). rewrite dot_cons.
    rewrite dot_vadd_l, dot_vscale_l, IH.
    + ring.
    + intros b Hb; apply H; now right.
    + rewrite length_vscale, length_tmulv by (intros b Hb; apply H; now right). apply H; now left.
Qed.
(* r is orthogonal to the column space of A *)
Definition orth (A : list vec) (r : vec) : Prop := forall d, dot (mulv A d) r = 0%Qc.
Lemma zeros_Forall : forall m v, length v = m -> Forall (fun x => x = 0%Qc) v -> v = zeros m.
Proof.
  induction m as [|m IH]; intros [|a v] H F; try discriminate; [reflexivity|].
  inversion F; subst. cbn [zeros repeat]. f_equal. apply IH; [cbn in H; lia|assumption].
Qed.
Lemma normal_eq_orth : forall m A y b, wf m A -> (normal_eq m A y b <-> orth A (resid A y b)).
Proof.
  intros m A y b H. unfold normal_eq, orth. split.
  - intros E d. rewrite (adjoint m) by assumption. rewrite E. apply dot_zeros_l.
  - intros O. apply zeros_Forall; [now apply length_tmulv|]. apply dot_sq_zero.
    rewrite <- (adjoint m) by assumption. apply O.
Qed.
Lemma normal_eqb_spec : forall m A y b, normal_eqb m A y b = true <-> normal_eq m A y b.
Proof. intros. unfold normal_eqb, normal_eq, vec_eqb. destruct (list_eq_dec _ _ _); split; congruence. Qed.

(* ------------------------------------------------------------------ uniqueness of the projection residual *)
Lemma resid_unique_gen : forall A A' y b b' b1 (g : vec -> vec),
  length y = length A -> length A' = length A -> length b1 = length b ->
  mulv A' b' = mulv A b1 ->
  (forall d, mulv A d = mulv A' (g d)) ->
  orth A (resid A y b) -> orth A' (resid A' y b') -> resid A' y b' = resid A y b.
Proof.
  intros A A' y b b' b1 g Hy HA Hb Hp Hg O O'. unfold resid in *. rewrite Hp in *.
  assert (L1 : length (vsub y (mulv A b1)) = length (vsub y (mulv A b))).
  { now rewrite !length_vsub, !length_mulv. }
  apply vsub_zero_eq; [exact L1|]. apply dot_sq_zero.
  rewrite vsub_vsub at 1 by (now rewrite length_mulv).
  rewrite <- mulv_vsub by (now symmetry).
  rewrite dot_vsub_r by exact L1.
  rewrite (Hg (vsub b b1)) at 1. rewrite O', O. ring.
Qed.
Lemma resid_unique : forall m A y b b', wf m A -> length y = length A -> length b' = length b ->
  normal_eq m A y b -> normal_eq m A y b' -> resid A y b' = resid A y b.
Proof.
  intros m A y b b' H Hy Hb N N'. apply (resid_unique_gen A A y b b' b' (fun d => d)); auto.
  - now apply (normal_eq_orth m).
  - now apply (normal_eq_orth m).
Qed.

(* ------------------------------------------------------------------ the design matrix [1 Z] *)
Definition zwf (k : nat) (Zr : list vec) : Prop := forall z, In z Zr -> length z = k.
Lemma wf_design : forall k Zr, zwf k Zr -> wf (S k) (design Zr).
Proof.
  intros k Zr H a Ha. unfold design in Ha. apply in_map_iff in Ha. destruct Ha as [z [<- Hz]].
  cbn. f_equal. now apply H.
Qed.
Lemma length_design : forall Zr, length (design Zr) = length Zr.
Proof. intros. unfold design. apply map_length. Qed.
Lemma mulv_design : forall Zr b0 b, mulv (design Zr) (b0 :: b) = map (fun z => (b0 + dot z b)%Qc) Zr.
Proof.
  intros. unfold mulv, design. rewrite map_map. apply map_ext. intros z. rewrite dot_cons. ring.
Qed.
Lemma mulv_nil : forall A, mulv A [] = map (fun _ => 0%Qc) A.
Proof. intros. unfold mulv. apply map_ext. intros. apply dot_nil_r. Qed.

Definition affine (a c : Qc) (u : vec) : vec := map (fun v => (a * v + c)%Qc) u.

(* residual of a*y + c on [1 Z] = a * residual of y *)
Lemma vsub_affine : forall a c b0 b y Zr,
  vsub (affine a c y) (map (fun z => ((a * b0 + c) + dot z (vscale a b))%Qc) Zr) =
  vscale a (vsub y (map (fun z => (b0 + dot z b)%Qc) Zr)).
Proof.
  intros a c b0 b. induction y as [|v y IH]; intros [|z Zr]; try reflexivity.
  cbn [affine map]. fold (affine a c y).
  change (vsub ((a * v + c)%Qc :: affine a c y)
            (((a * b0 + c) + dot z (vscale a b))%Qc :: map (fun z => ((a * b0 + c) + dot z (vscale a b))%Qc) Zr))
    with (((a * v + c) - ((a * b0 + c) + dot z (vscale a b)))%Qc ::
          vsub (affine a c y) (map (fun z => ((a * b0 + c) + dot z (vscale a b))%Qc) Zr)).
  rewrite IH.
  change (vsub (v :: y) ((b0 + dot z b)%Qc :: map (fun z => (b0 + dot z b)%Qc) Zr))
    with ((v - (b0 + dot z b))%Qc :: vsub y (map (fun z => (b0 + dot z b)%Qc) Zr)).
  cbn [vscale map]. f_equal. rewrite dot_vscale_r. ring.
Qed.
Lemma orth_vscale : forall A a r, orth A r -> orth A (vscale a r).
Proof. intros A a r O d. rewrite dot_vscale_r, O. ring. Qed.

Lemma resid_affine_y : forall k Zr y a c b b',
  zwf k Zr -> length y = length Zr -> length b = S k -> length b' = S k ->
  normal_eq (S k) (design Zr) y b ->
  normal_eq (S k) (design Zr) (affine a c y) b' ->
  resid (design Zr) (affine a c y) b' = vscale a (resid (design Zr) y b).
Proof.
  intros k Zr y a c b b' Hz Hy Hb Hb' N N'.
  destruct b as [|b0 b]; [discriminate|].
  set (b2 := ((a * b0 + c)%Qc :: vscale a b)).
  assert (E : resid (design Zr) (affine a c y) b2 = vscale a (resid (design Zr) y (b0 :: b))).
  { unfold resid, b2. rewrite !mulv_design. apply vsub_affine. }
  rewrite <- E. apply (resid_unique (S k)).
  - now apply wf_design.
  - unfold affine. now rewrite map_length, length_design.
  - unfold b2. cbn. rewrite length_vscale. cbn in Hb. lia.
  - apply (normal_eq_orth (S k)); [now apply wf_design|]. rewrite E. apply orth_vscale.
    apply (normal_eq_orth (S k)); [now apply wf_design|assumption].
  - assumption.
Qed.

(* shifting the columns of Z by constants cz leaves the residual unchanged *)
Definition shiftZ (cz : vec) (Zr : list vec) : list vec := map (fun z => vadd z cz) Zr.
Lemma resid_shift_z : forall k Zr cz y b b',
  zwf k Zr -> length cz = k -> length y = length Zr -> length b = S k -> length b' = S k ->
  normal_eq (S k) (design Zr) y b ->
  normal_eq (S k) (design (shiftZ cz Zr)) y b' ->
  resid (design (shiftZ cz Zr)) y b' = resid (design Zr) y b.
Proof.
  intros k Zr cz y b b' Hz Hc Hy Hb Hb' N N'.
  assert (Hz' : zwf k (shiftZ cz Zr)).
  { intros z Hin. unfold shiftZ in Hin. apply in_map_iff in Hin. destruct Hin as [z0 [<- Hz0]].
    rewrite length_vadd, (Hz z0 Hz0), Hc. apply Nat.min_id. }
  assert (Hrow : forall d0 dr, mulv (design (shiftZ cz Zr)) (d0 :: dr) =
                               mulv (design Zr) ((d0 + dot cz dr)%Qc :: dr)).
  { intros d0 dr. rewrite !mulv_design. unfold shiftZ. rewrite map_map.
    apply map_ext_in. intros z Hin. rewrite dot_vadd_l by (rewrite (Hz z Hin); now symmetry). ring. }
  destruct b' as [|b0' br']; [discriminate|].
  apply (resid_unique_gen (design Zr) (design (shiftZ cz Zr)) y b (b0' :: br')
           ((b0' + dot cz br')%Qc :: br')
           (fun d => match d with [] => [] | d0 :: dr => (d0 - dot cz dr)%Qc :: dr end)).
  - now rewrite length_design.
  - rewrite !length_design. unfold shiftZ. apply map_length.
  - cbn in *. lia.
  - apply Hrow.
  - intros [|d0 dr].
    + rewrite !mulv_nil. unfold design, shiftZ. now rewrite !map_map.
    + rewrite Hrow. f_equal. f_equal. ring.
  - apply (normal_eq_orth (S k)); [now apply wf_design|assumption].
  - apply (normal_eq_orth (S k)); [now apply wf_design|assumption].
Qed.

(* ------------------------------------------------------------------ the correlation term *)
Lemma vsum_cons : forall x u, vsum (x :: u) = (x + vsum u)%Qc.
Proof. reflexivity. Qed.
Lemma vsum_vscale : forall a u, vsum (vscale a u) = (a * vsum u)%Qc.
Proof.
  intros a u. induction u as [|x u IH]; [unfold vscale, vsum; cbn [map fold_right]; ring|].
  change (vscale a (x :: u)) with ((a * x)%Qc :: vscale a u). rewrite !vsum_cons, IH. ring.
Qed.
Lemma vsum_affine : forall a c u, vsum (affine a c u) = (a * vsum u + c * qn (length u))%Qc.
Proof.
  intros a c u. induction u as [|x u IH].
  - unfold affine, vsum; cbn [map fold_right length]. change (qn 0) with 0%Qc. ring.
  - change (affine a c (x :: u)) with ((a * x + c)%Qc :: affine a c u). cbn [length].
    rewrite !vsum_cons, IH, qn_succ. ring.
Qed.
Lemma mean_affine : forall a c u, u <> [] -> mean (affine a c u) = (a * mean u + c)%Qc.
Proof.
  intros a c u H. unfold mean. rewrite vsum_affine. unfold affine. rewrite map_length.
  destruct u as [|x u]; [congruence|]. cbn [length]. field. apply qn_S_neq0.
Qed.
Lemma center_affine : forall a c u, center (affine a c u) = vscale a (center u).
Proof.
  intros a c u. destruct u as [|x0 u0] eqn:E; [reflexivity|]. rewrite <- E.
  unfold center. rewrite mean_affine by (rewrite E; discriminate).
  unfold affine, vscale. rewrite !map_map. apply map_ext. intros v. ring.
Qed.
Lemma vscale_as_affine : forall a u, vscale a u = affine a 0 u.
Proof. intros. unfold vscale, affine. apply map_ext. intros. ring. Qed.

Lemma is_zero_true : forall q, is_zero q = true <-> q = 0%Qc.
Proof. intros. unfold is_zero. destruct (Qc_eq_dec q 0); split; congruence. Qed.
Lemma qsign_pos_mult : forall c q, (0 < c)%Qc -> qsign (c * q) = qsign q.
Proof.
  intros c q Hc. unfold qsign.
  assert (Hne : c <> 0%Qc) by (intros E; rewrite E in Hc; now apply Qclt_not_eq in Hc).
  destruct (is_zero q) eqn:Z.
  - apply is_zero_true in Z. subst. replace (c * 0)%Qc with 0%Qc by ring. reflexivity.
  - assert (is_zero (c * q) = false) as ->.
    { apply not_true_is_false. intros T. apply is_zero_true in T.
      apply Qcmult_integral in T. destruct T as [T|T]; [contradiction|].
      apply is_zero_true in T. congruence. }
    destruct (qc_leb 0 q) eqn:L.
    + assert (qc_leb 0 (c * q) = true) as ->; [|reflexivity].
      apply qc_leb_le. apply qc_leb_le in L. replace 0%Qc with (c * 0)%Qc by ring.
      rewrite !(Qcmult_comm c). apply Qcmult_le_compat_r; [assumption|now apply Qclt_le_weak].
    + assert (qc_leb 0 (c * q) = false) as ->; [|reflexivity].
      apply not_true_is_false. intros T. apply qc_leb_le in T.
      assert (0 <= q)%Qc as Q; [|apply qc_leb_le in Q; congruence].
      apply (Qcmult_lt_0_le_reg_r _ _ c Hc). replace (0 * c)%Qc with 0%Qc by ring.
      now rewrite Qcmult_comm.
Qed.

Lemma corr_nf_affine : forall a ca b cb u v, (0 < a)%Qc -> (0 < b)%Qc ->
  corr_nf (affine a ca u) (affine b cb v) = corr_nf u v.
Proof.
  intros a ca b cb u v Ha Hb. unfold corr_nf, pearson_sums. rewrite !center_affine.
  rewrite !dot_vscale_l, !dot_vscale_r.
  set (sxy := dot (center u) (center v)). set (sxx := dot (center u) (center u)).
  set (syy := dot (center v) (center v)).
  assert (Hna : a <> 0%Qc) by (intros E; rewrite E in Ha; now apply Qclt_not_eq in Ha).
  assert (Hnb : b <> 0%Qc) by (intros E; rewrite E in Hb; now apply Qclt_not_eq in Hb).
  assert (Hz : is_zero (a * (a * sxx) * (b * (b * syy))) = is_zero (sxx * syy)).
  { apply eq_true_iff_eq. rewrite !is_zero_true. split; intros H.
    - replace (a * (a * sxx) * (b * (b * syy)))%Qc with ((a * a * b * b) * (sxx * syy))%Qc in H by ring.
      apply Qcmult_integral in H. destruct H as [H|H]; [|assumption]. exfalso.
      repeat (apply Qcmult_integral in H; destruct H as [H|H]; try contradiction).
    - replace (a * (a * sxx) * (b * (b * syy)))%Qc with ((a * a * b * b) * (sxx * syy))%Qc by ring.
      rewrite H. ring. }
  rewrite Hz. destruct (is_zero (sxx * syy)) eqn:Z; [reflexivity|].
  assert (Hnz : (sxx * syy)%Qc <> 0%Qc) by (intros E; apply is_zero_true in E; congruence).
  f_equal. f_equal.
  - replace (a * (b * sxy))%Qc with ((a * b) * sxy)%Qc by ring. apply qsign_pos_mult.
    replace 0%Qc with (0 * b)%Qc by ring. now apply Qcmult_lt_compat_r.
  - field. repeat split; try assumption.
    + intros E. apply Hnz. rewrite E. ring.
    + intros E. apply Hnz. rewrite E. ring.
Qed.
Lemma corr_nf_vscale : forall a b u v, (0 < a)%Qc -> (0 < b)%Qc ->
  corr_nf (vscale a u) (vscale b v) = corr_nf u v.
Proof. intros. rewrite !vscale_as_affine. now apply corr_nf_affine. Qed.

(* ------------------------------------------------------------------ pearsonr *)
(* all hypotheses about one call: shapes and the two lstsq results *)
Record lstsq_ok (k : nat) (Zr : list vec) (x y bx by_ : vec) : Prop := {
  ok_z : zwf k Zr; ok_x : length x = length Zr; ok_y : length y = length Zr;
  ok_bx : length bx = S k; ok_by : length by_ = S k;
  ok_nx : normal_eq (S k) (design Zr) x bx; ok_ny : normal_eq (S k) (design Zr) y by_ }.

Lemma pearsonr_solver_independent : forall k Zr x y bx by_ bx' by',
  lstsq_ok k Zr x y bx by_ -> lstsq_ok k Zr x y bx' by' ->
  pearsonr_model false Zr x y bx' by' = pearsonr_model false Zr x y bx by_.
Proof.
  intros k Zr x y bx by_ bx' by' [Hz Hx Hy Hbx Hby Nx Ny] [_ _ _ Hbx' Hby' Nx' Ny'].
  unfold pearsonr_model.
  rewrite (resid_unique (S k) (design Zr) x bx bx'), (resid_unique (S k) (design Zr) y by_ by');
    try reflexivity; try assumption; try (now apply wf_design); try (now rewrite length_design); congruence.
Qed.

Lemma pearsonr_affine_invariant : forall zempty k Zr x y bx by_ ax cx ay cy cz bx' by',
  (0 < ax)%Qc -> (0 < ay)%Qc -> length cz = k ->
  lstsq_ok k Zr x y bx by_ ->
  lstsq_ok k (shiftZ cz Zr) (affine ax cx x) (affine ay cy y) bx' by' ->
  pearsonr_model zempty (shiftZ cz Zr) (affine ax cx x) (affine ay cy y) bx' by' =
  pearsonr_model zempty Zr x y bx by_.
Proof.
  intros zempty k Zr x y bx by_ ax cx ay cy cz bx' by' Hax Hay Hcz
         [Hz Hx Hy Hbx Hby Nx Ny] [Hz' Hx' Hy' Hbx' Hby' Nx' Ny'].
  unfold pearsonr_model. destruct zempty; [now apply corr_nf_affine|].
  (* solutions for the affine data on the unshifted design exist: the transformed coefficients *)
  destruct bx as [|bx0 bxr]; [discriminate|]. destruct by_ as [|by0 byr]; [discriminate|].
  set (bx2 := ((ax * bx0 + cx)%Qc :: vscale ax bxr)). set (by2 := ((ay * by0 + cy)%Qc :: vscale ay byr)).
  assert (Ex : resid (design Zr) (affine ax cx x) bx2 = vscale ax (resid (design Zr) x (bx0 :: bxr))).
  { unfold resid, bx2. rewrite !mulv_design. apply vsub_affine. }
  assert (Ey : resid (design Zr) (affine ay cy y) by2 = vscale ay (resid (design Zr) y (by0 :: byr))).
  { unfold resid, by2. rewrite !mulv_design. apply vsub_affine. }
  assert (Nx2 : normal_eq (S k) (design Zr) (affine ax cx x) bx2).
  { apply (normal_eq_orth (S k)); [now apply wf_design|]. rewrite Ex. apply orth_vscale.
    apply (normal_eq_orth (S k)); [now apply wf_design|assumption]. }
  assert (Ny2 : normal_eq (S k) (design Zr) (affine ay cy y) by2).
  { apply (normal_eq_orth (S k)); [now apply wf_design|]. rewrite Ey. apply orth_vscale.
    apply (normal_eq_orth (S k)); [now apply wf_design|assumption]. }
  assert (Lx : length (affine ax cx x) = length Zr) by (unfold affine; now rewrite map_length).
  assert (Ly : length (affine ay cy y) = length Zr) by (unfold affine; now rewrite map_length).
  assert (Lbx2 : length bx2 = S k) by (unfold bx2; cbn; rewrite length_vscale; cbn in Hbx; lia).
  assert (Lby2 : length by2 = S k) by (unfold by2; cbn; rewrite length_vscale; cbn in Hby; lia).
  rewrite (resid_shift_z k Zr cz (affine ax cx x) bx2 bx'), (resid_shift_z k Zr cz (affine ay cy y) by2 by');
    try assumption.
  rewrite Ex, Ey. now apply corr_nf_vscale.
Qed.

(* ------------------------------------------------------------------ non-vacuity: a concrete call meeting lstsq_ok *)
Definition exZ : list vec := [[0%Qc]; [1%Qc]; [Q2Qc 2]; [Q2Qc 3]].
Definition exx : vec := [1%Qc; Q2Qc 3; Q2Qc 2; Q2Qc 5].
Definition exy : vec := [Q2Qc 2; 0%Qc; 1%Qc; Q2Qc 4].
Example lstsq_ok_example :
  lstsq_ok 1 exZ exx exy (lstsq 2 (design exZ) exx) (lstsq 2 (design exZ) exy).
Proof.
  constructor; try reflexivity.
  - intros z Hz. cbn in Hz. repeat (destruct Hz as [<-|Hz]; [reflexivity|]). destruct Hz.
  - apply normal_eqb_spec. vm_compute. reflexivity.
  - apply normal_eqb_spec. vm_compute. reflexivity.
Qed.

(* ------------------------------------------------------------------ affine reparametrisation of the Z columns:
   column j of Z becomes  az_j * z_j + cz_j  with az_j <> 0  (Z·D + 1·c^T, D = diag(az) invertible) *)
Definition vmul (u v : vec) : vec := map (fun p => (fst p * snd p)%Qc) (combine u v).
Definition vdiv (u v : vec) : vec := map (fun p => (fst p / snd p)%Qc) (combine u v).
Definition affineZ (az cz : vec) (Zr : list vec) : list vec := map (fun z => vadd (vmul z az) cz) Zr.

Lemma length_vmul : forall u v, length (vmul u v) = Nat.min (length u) (length v).
Proof. intros. unfold vmul. now rewrite map_length, combine_length. Qed.
Lemma dot_vmul : forall z a d, dot (vmul z a) d = dot z (vmul a d).
Proof.
  induction z as [|x z IH]; intros a d; [reflexivity|].
  destruct a as [|p a]; [reflexivity|]. destruct d as [|q d].
  - change (vmul (p :: a) []) with (@nil Qc). now rewrite !dot_nil_r.
  - change (vmul (x :: z) (p :: a)) with ((x * p)%Qc :: vmul z a).
    change (vmul (p :: a) (q :: d)) with ((p * q)%Qc :: vmul a d).
    rewrite !dot_cons, IH. ring.
Qed.
Lemma dot_vmul_vdiv : forall z a d, length z = length a -> Forall (fun x => x <> 0%Qc) a ->
  dot z (vmul a (vdiv d a)) = dot z d.
Proof.
  induction z as [|x z IH]; intros [|p a] d H F; try discriminate; [reflexivity|].
  destruct d as [|q d]; [reflexivity|]. inversion F; subst.
  change (vmul (p :: a) (vdiv (q :: d) (p :: a))) with ((p * (q / p))%Qc :: vmul a (vdiv d a)).
  rewrite !dot_cons, IH by (cbn in H; try lia; assumption). field. assumption.
Qed.

Lemma resid_affine_z : forall k Zr az cz y b b',
  zwf k Zr -> length az = k -> length cz = k -> Forall (fun x => x <> 0%Qc) az ->
  length y = length Zr -> length b = S k -> length b' = S k ->
  normal_eq (S k) (design Zr) y b ->
  normal_eq (S k) (design (affineZ az cz Zr)) y b' ->
  resid (design (affineZ az cz Zr)) y b' = resid (design Zr) y b.
Proof.
  intros k Zr az cz y b b' Hz Ha Hc Hnz Hy Hb Hb' N N'.
  assert (Hz' : zwf k (affineZ az cz Zr)).
  { intros z Hin. unfold affineZ in Hin. apply in_map_iff in Hin. destruct Hin as [z0 [<- Hz0]].
    rewrite length_vadd, length_vmul, (Hz z0 Hz0), Ha, Hc. now rewrite !Nat.min_id. }
  assert (Hrow : forall d0 dr, mulv (design (affineZ az cz Zr)) (d0 :: dr) =
                               mulv (design Zr) ((d0 + dot cz dr)%Qc :: vmul az dr)).
  { intros d0 dr. rewrite !mulv_design. unfold affineZ. rewrite map_map.
    apply map_ext_in. intros z Hin.
    rewrite dot_vadd_l by (rewrite length_vmul, (Hz z Hin), Ha, Hc; apply Nat.min_id).
    rewrite dot_vmul. ring. }
  destruct b' as [|b0' br']; [discriminate|].
  apply (resid_unique_gen (design Zr) (design (affineZ az cz Zr)) y b (b0' :: br')
           ((b0' + dot cz br')%Qc :: vmul az br')
           (fun d => match d with
                     | [] => []
                     | d0 :: dr => (d0 - dot cz (vdiv dr az))%Qc :: vdiv dr az
                     end)).
  - now rewrite length_design.
  - rewrite !length_design. unfold affineZ. apply map_length.
  - cbn [length]. rewrite length_vmul, Ha, Hb. cbn in Hb'. f_equal. lia.
  - apply Hrow.
  - intros [|d0 dr].
    + rewrite !mulv_nil. unfold design, affineZ. now rewrite !map_map.
    + rewrite Hrow, !mulv_design. apply map_ext_in. intros z Hin.
      rewrite dot_vmul_vdiv by (try assumption; rewrite (Hz z Hin); now symmetry). ring.
  - apply (normal_eq_orth (S k)); [now apply wf_design|assumption].
  - apply (normal_eq_orth (S k)); [now apply wf_design|assumption].
Qed.

(* the full invariance: every variable v (X, Y, each Z column) replaced by a_v * v + c_v,
   a_X, a_Y > 0 and a_Zj <> 0 *)
Lemma pearsonr_affine_invariant_full : forall zempty k Zr x y bx by_ ax cx ay cy az cz bx' by',
  (0 < ax)%Qc -> (0 < ay)%Qc -> length az = k -> length cz = k -> Forall (fun a => a <> 0%Qc) az ->
  lstsq_ok k Zr x y bx by_ ->
  lstsq_ok k (affineZ az cz Zr) (affine ax cx x) (affine ay cy y) bx' by' ->
  pearsonr_model zempty (affineZ az cz Zr) (affine ax cx x) (affine ay cy y) bx' by' =
  pearsonr_model zempty Zr x y bx by_.
Proof.
  intros zempty k Zr x y bx by_ ax cx ay cy az cz bx' by' Hax Hay Haz Hcz Hnz
         [Hz Hx Hy Hbx Hby Nx Ny] [Hz' Hx' Hy' Hbx' Hby' Nx' Ny'].
  unfold pearsonr_model. destruct zempty; [now apply corr_nf_affine|].
  destruct bx as [|bx0 bxr]; [discriminate|]. destruct by_ as [|by0 byr]; [discriminate|].
  set (bx2 := ((ax * bx0 + cx)%Qc :: vscale ax bxr)). set (by2 := ((ay * by0 + cy)%Qc :: vscale ay byr)).
  assert (Ex : resid (design Zr) (affine ax cx x) bx2 = vscale ax (resid (design Zr) x (bx0 :: bxr))).
  { unfold resid, bx2. rewrite !mulv_design. apply vsub_affine. }
  assert (Ey : resid (design Zr) (affine ay cy y) by2 = vscale ay (resid (design Zr) y (by0 :: byr))).
  { unfold resid, by2. rewrite !mulv_design. apply vsub_affine. }
  assert (Nx2 : normal_eq (S k) (design Zr) (affine ax cx x) bx2).
  { apply (normal_eq_orth (S k)); [now apply wf_design|]. rewrite Ex. apply orth_vscale.
    apply (normal_eq_orth (S k)); [now apply wf_design|assumption]. }
  assert (Ny2 : normal_eq (S k) (design Zr) (affine ay cy y) by2).
  { apply (normal_eq_orth (S k)); [now apply wf_design|]. rewrite Ey. apply orth_vscale.
    apply (normal_eq_orth (S k)); [now apply wf_design|assumption]. }
  assert (Lx : length (affine ax cx x) = length Zr) by (unfold affine; now rewrite map_length).
  assert (Ly : length (affine ay cy y) = length Zr) by (unfold affine; now rewrite map_length).
  assert (Lbx2 : length bx2 = S k) by (unfold bx2; cbn; rewrite length_vscale; cbn in Hbx; lia).
  assert (Lby2 : length by2 = S k) by (unfold by2; cbn; rewrite length_vscale; cbn in Hby; lia).
  rewrite (resid_affine_z k Zr az cz (affine ax cx x) bx2 bx'), (resid_affine_z k Zr az cz (affine ay cy y) by2 by');
    try assumption.
  rewrite Ex, Ey. now apply corr_nf_vscale.
Qed.

(* non-vacuity for the transformed call: Z -> -2 Z + 3, X -> 2 X + 1, Y -> Y/2 - 4 *)
Example lstsq_ok_affine_example :
  let Zr' := affineZ [Q2Qc (-2 # 1)] [Q2Qc 3] exZ in
  let x' := affine (Q2Qc 2) 1%Qc exx in let y' := affine (Q2Qc (1 # 2)) (Q2Qc (-4 # 1)) exy in
  lstsq_ok 1 Zr' x' y' (lstsq 2 (design Zr') x') (lstsq 2 (design Zr') y').
Proof.
  cbv zeta. constructor; try reflexivity.
  - intros z Hz. vm_compute in Hz. repeat (destruct Hz as [<-|Hz]; [reflexivity|]). destruct Hz.
  - apply normal_eqb_spec. vm_compute. reflexivity.
  - apply normal_eqb_spec. vm_compute. reflexivity.
Qed.
