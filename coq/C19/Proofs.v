(* C19 proofs, discrete part: the power-divergence family. *)
From Coq Require Import List Bool Arith ZArith QArith Qcanon Permutation Lia.
From PV Require Import C19.Terms C19.Model.
Import ListNotations.
Local Open Scope nat_scope.

(* ------------------------------------------------------------------ list facts *)
Lemma list_sum_perm : forall l l', Permutation l l' -> list_sum l = list_sum l'.
Proof. induction 1; simpl; lia. Qed.
Lemma list_sum_map_add : forall {A} (g h : A -> nat) l,
  list_sum (map (fun x => g x + h x) l) = list_sum (map g l) + list_sum (map h l).
Proof. intros A g h l. induction l as [|x l IH]; simpl; lia. Qed.
Lemma list_sum_map_zero : forall {A} (l : list A), list_sum (map (fun _ => 0) l) = 0.
Proof. intros A l. induction l; simpl; lia. Qed.
Lemma list_sum_in_le : forall x l, In x l -> x <= list_sum l.
Proof. intros x l. induction l as [|y l IH]; simpl; [tauto|]. intros [->|H]; [lia|]. apply IH in H. lia. Qed.
Lemma sum_swap : forall (f : nat -> nat -> nat) lx ly,
  list_sum (map (fun i => list_sum (map (f i) ly)) lx) =
  list_sum (map (fun j => list_sum (map (fun i => f i j) lx)) ly).
Proof.
  intros f lx ly. induction lx as [|x lx IH]; simpl.
  - now rewrite list_sum_map_zero.
  - rewrite IH. now rewrite <- list_sum_map_add.
Qed.
Lemma existsb_perm : forall {A} (p : A -> bool) l l', Permutation l l' -> existsb p l = existsb p l'.
Proof.
  intros A p. induction 1; cbn [existsb]; try congruence.
  destruct (p x), (p y); reflexivity.
Qed.
Lemma existsb_ext' : forall {A} (p q : A -> bool) l, (forall x, p x = q x) -> existsb p l = existsb q l.
Proof. intros A p q l H. induction l as [|x l IH]; cbn [existsb]; [reflexivity|]. now rewrite H, IH. Qed.
Lemma filter_perm : forall {A} (p : A -> bool) l l', Permutation l l' -> Permutation (filter p l) (filter p l').
Proof.
  intros A p. induction 1; cbn [filter].
  - constructor.
  - destruct (p x); [now constructor|assumption].
  - destruct (p x), (p y); try apply Permutation_refl. apply perm_swap.
  - eapply perm_trans; eassumption.
Qed.
Lemma nodup_perm : forall {A} (dec : forall a b : A, {a = b} + {a <> b}) l l',
  Permutation l l' -> Permutation (nodup dec l) (nodup dec l').
Proof.
  intros A dec l l' H. apply NoDup_Permutation; try apply NoDup_nodup.
  intros x. rewrite !nodup_In. split; apply Permutation_in; [assumption|now symmetry].
Qed.

(* ------------------------------------------------------------------ grids *)
Lemma grid_cons : forall {A} (f : nat -> nat -> A) x lx ly, grid f (x :: lx) ly = map (f x) ly ++ grid f lx ly.
Proof. reflexivity. Qed.
Lemma flat_map_pointwise_perm : forall {A B} (g h : A -> list B) l,
  (forall x, Permutation (g x) (h x)) -> Permutation (flat_map g l) (flat_map h l).
Proof.
  intros A B g h l H. induction l as [|x l IH]; cbn [flat_map]; [constructor|].
  now apply Permutation_app.
Qed.
Lemma grid_perm : forall {A} (f : nat -> nat -> A) lx lx' ly ly',
  Permutation lx lx' -> Permutation ly ly' -> Permutation (grid f lx ly) (grid f lx' ly').
Proof.
  intros A f lx lx' ly ly' Hx Hy. unfold grid.
  eapply perm_trans; [apply Permutation_flat_map; eassumption|].
  apply flat_map_pointwise_perm. intros i. now apply Permutation_map.
Qed.
Lemma grid_ext : forall {A} (f g : nat -> nat -> A) lx ly,
  (forall i j, f i j = g i j) -> grid f lx ly = grid g lx ly.
Proof.
  intros A f g lx ly H. unfold grid. induction lx as [|x lx IH]; cbn [flat_map]; [reflexivity|].
  rewrite IH. f_equal. apply map_ext. intros; apply H.
Qed.
Lemma flat_map_cons_perm : forall {A B} (h : A -> B) (g : A -> list B) l,
  Permutation (flat_map (fun j => h j :: g j) l) (map h l ++ flat_map g l).
Proof.
  intros A B h g l. induction l as [|y l IH]; cbn [flat_map map app]; [constructor|].
  apply perm_skip. eapply perm_trans; [apply Permutation_app_head, IH|].
  rewrite !app_assoc. apply Permutation_app_tail, Permutation_app_comm.
Qed.
Lemma grid_transpose : forall {A} (f : nat -> nat -> A) lx ly,
  Permutation (grid f lx ly) (grid (fun j i => f i j) ly lx).
Proof.
  intros A f lx ly. induction lx as [|x lx IH].
  - unfold grid. cbn [flat_map map]. induction ly; cbn [flat_map map app]; [constructor|assumption].
  - rewrite grid_cons. unfold grid at 2. cbn [map].
    eapply perm_trans; [|symmetry; apply flat_map_cons_perm].
    apply Permutation_app_head. exact IH.
Qed.
Lemma Forall_grid : forall {A} (P : A -> Prop) (f : nat -> nat -> A) lx ly,
  (forall i j, In i lx -> In j ly -> P (f i j)) -> Forall P (grid f lx ly).
Proof.
  intros A P f lx ly H. unfold grid. apply Forall_forall. intros c Hc.
  apply in_flat_map in Hc. destruct Hc as [i [Hi Hc]]. apply in_map_iff in Hc.
  destruct Hc as [j [<- Hj]]. now apply H.
Qed.

(* ------------------------------------------------------------------ margins under transposition / permutation / ext *)
Definition flip (f : nat -> nat -> nat) : nat -> nat -> nat := fun j i => f i j.

Lemma total_flip : forall f lx ly, total (flip f) ly lx = total f lx ly.
Proof. intros. unfold total, rowsum, flip. symmetry. apply sum_swap. Qed.
Lemma rowsum_flip : forall f lx j, rowsum (flip f) lx j = colsum f lx j.
Proof. reflexivity. Qed.
Lemma colsum_flip : forall f ly i, colsum (flip f) ly i = rowsum f ly i.
Proof. reflexivity. Qed.
Lemma expected_comm : forall r c n, expected r c n = expected c r n.
Proof. intros. unfold expected. now rewrite Nat.mul_comm. Qed.
Lemma cc_cell_flip : forall f lx ly corr i j, cc_cell (flip f) ly lx corr j i = cc_cell f lx ly corr i j.
Proof.
  intros. unfold cc_cell. rewrite total_flip, rowsum_flip, colsum_flip.
  rewrite (expected_comm (colsum f lx j)). reflexivity.
Qed.

Lemma rowsum_perm : forall f ly ly' i, Permutation ly ly' -> rowsum f ly i = rowsum f ly' i.
Proof. intros. unfold rowsum. now apply list_sum_perm, Permutation_map. Qed.
Lemma colsum_perm : forall f lx lx' j, Permutation lx lx' -> colsum f lx j = colsum f lx' j.
Proof. intros. unfold colsum. now apply list_sum_perm, Permutation_map. Qed.
Lemma total_perm : forall f lx lx' ly ly', Permutation lx lx' -> Permutation ly ly' ->
  total f lx ly = total f lx' ly'.
Proof.
  intros f lx lx' ly ly' Hx Hy. unfold total.
  rewrite (list_sum_perm _ _ (Permutation_map (rowsum f ly) Hx)).
  f_equal. apply map_ext. intros i. now apply rowsum_perm.
Qed.
Lemma rowsum_ext : forall f g ly i, (forall i j, f i j = g i j) -> rowsum f ly i = rowsum g ly i.
Proof. intros. unfold rowsum. f_equal. apply map_ext. auto. Qed.
Lemma colsum_ext : forall f g lx j, (forall i j, f i j = g i j) -> colsum f lx j = colsum g lx j.
Proof. intros. unfold colsum. f_equal. apply map_ext. auto. Qed.
Lemma total_ext : forall f g lx ly, (forall i j, f i j = g i j) -> total f lx ly = total g lx ly.
Proof. intros. unfold total. f_equal. apply map_ext. intros. now apply rowsum_ext. Qed.
Lemma cc_cell_ext : forall f g lx ly corr i j, (forall i j, f i j = g i j) ->
  cc_cell f lx ly corr i j = cc_cell g lx ly corr i j.
Proof.
  intros f g lx ly corr i j H. unfold cc_cell.
  now rewrite (rowsum_ext f g), (colsum_ext f g), (total_ext f g), H by assumption.
Qed.
Lemma cc_cell_perm : forall f lx lx' ly ly' corr i j, Permutation lx lx' -> Permutation ly ly' ->
  cc_cell f lx ly corr i j = cc_cell f lx' ly' corr i j.
Proof.
  intros f lx lx' ly ly' corr i j Hx Hy. unfold cc_cell.
  now rewrite (rowsum_perm f ly ly'), (colsum_perm f lx lx'), (total_perm f lx lx' ly ly') by assumption.
Qed.

(* ------------------------------------------------------------------ equivalence of chi2_contingency results *)
(* same formal sum (cells up to order) and same dof; an error matches any error *)
Definition cc_equiv (a b : cc_result) : Prop :=
  match a, b with
  | CCok c d, CCok c' d' => Permutation c c' /\ d = d'
  | CCerr _, CCerr _ => True
  | _, _ => False
  end.
(* ... with the same error code *)
Definition cc_equiv_strict (a b : cc_result) : Prop :=
  match a, b with
  | CCok c d, CCok c' d' => Permutation c c' /\ d = d'
  | CCerr e, CCerr e' => e = e'
  | _, _ => False
  end.
Lemma cc_strict_weak : forall a b, cc_equiv_strict a b -> cc_equiv a b.
Proof. intros [e|c d] [e'|c' d']; cbn; tauto. Qed.
Lemma cc_equiv_refl : forall a, cc_equiv a a.
Proof. intros [e|c d]; cbn; auto. Qed.
Lemma cc_equiv_sym : forall a b, cc_equiv a b -> cc_equiv b a.
Proof. intros [e|c d] [e'|c' d']; cbn; try tauto. intros [H ->]. split; [now symmetry|reflexivity]. Qed.
Lemma cc_equiv_trans : forall a b c, cc_equiv a b -> cc_equiv b c -> cc_equiv a c.
Proof.
  intros [e|c d] [e'|c' d'] [e''|c'' d'']; cbn; try tauto.
  intros [H1 ->] [H2 ->]. split; [eapply perm_trans; eassumption|reflexivity].
Qed.

(* generic statement: tables related by a cell-preserving rearrangement give equivalent results *)
Lemma chi2_rearranged : forall f lx ly g lx' ly',
  length lx * length ly = length lx' * length ly' ->
  total f lx ly = total g lx' ly' ->
  cc_dof lx ly = cc_dof lx' ly' ->
  (forall corr, Permutation (grid (cc_cell f lx ly corr) lx ly) (grid (cc_cell g lx' ly' corr) lx' ly')) ->
  cc_equiv_strict (chi2_contingency f lx ly) (chi2_contingency g lx' ly').
Proof.
  intros f lx ly g lx' ly' Hlen Htot Hdof Hcells. unfold chi2_contingency.
  rewrite Hlen, Htot, Hdof, (existsb_perm _ _ _ (Hcells false)).
  destruct (length lx' * length ly' =? 0); [reflexivity|].
  destruct (total g lx' ly' =? 0); [reflexivity|].
  destruct (existsb _ _); [reflexivity|].
  destruct (cc_dof lx' ly' =? 0); cbn; [split; [constructor|reflexivity]|].
  split; [apply Hcells|reflexivity].
Qed.

Lemma chi2_flip : forall f lx ly,
  cc_equiv_strict (chi2_contingency (flip f) ly lx) (chi2_contingency f lx ly).
Proof.
  intros f lx ly. apply chi2_rearranged.
  - apply Nat.mul_comm.
  - apply total_flip.
  - unfold cc_dof. apply Nat.mul_comm.
  - intros corr. symmetry. eapply perm_trans; [apply grid_transpose|].
    erewrite grid_ext; [apply Permutation_refl|]. intros j i. cbn beta. symmetry. apply cc_cell_flip.
Qed.

Lemma chi2_perm_ext : forall f g lx lx' ly ly',
  Permutation lx lx' -> Permutation ly ly' -> (forall i j, f i j = g i j) ->
  cc_equiv_strict (chi2_contingency f lx ly) (chi2_contingency g lx' ly').
Proof.
  intros f g lx lx' ly ly' Hx Hy Hfg. apply chi2_rearranged.
  - now rewrite (Permutation_length Hx), (Permutation_length Hy).
  - rewrite (total_ext f g) by assumption. now apply total_perm.
  - unfold cc_dof. now rewrite (Permutation_length Hx), (Permutation_length Hy).
  - intros corr. eapply perm_trans; [apply grid_perm; eassumption|].
    erewrite grid_ext; [apply Permutation_refl|]. intros i j.
    rewrite (cc_cell_ext f g) by assumption. now apply cc_cell_perm.
Qed.

(* ------------------------------------------------------------------ counts *)
Lemma cnt_swap : forall rows X Y i j, cnt rows Y X j i = cnt rows X Y i j.
Proof. intros. unfold cnt. f_equal. apply filter_ext. intros r. apply andb_comm. Qed.
Lemma cnt_perm : forall rows rows' X Y i j, Permutation rows rows' -> cnt rows X Y i j = cnt rows' X Y i j.
Proof. intros. unfold cnt. now apply Permutation_length, filter_perm. Qed.
Lemma colvals_perm : forall rows rows' c, Permutation rows rows' -> Permutation (colvals rows c) (colvals rows' c).
Proof. intros. unfold colvals. now apply Permutation_map. Qed.
Lemma levels_perm : forall k v v', Permutation v v' -> Permutation (levels k v) (levels k v').
Proof. intros [k|] v v' H; cbn [levels]; [apply Permutation_refl|now apply nodup_perm]. Qed.

(* ------------------------------------------------------------------ results of the whole test *)
Definition ci_of_cc (lam : Qc) (uncond : bool) (r : cc_result) : ci_result :=
  match r with
  | CCerr c => CIerr c
  | CCok cells dof =>
      let s := mk_stat lam cells in
      CIok s dof (if dof =? 0 then POne else if uncond then PSF s dof else P1mCDF s dof)
  end.
Lemma ci_of_cc_strict : forall lam u a b, cc_equiv_strict a b -> ci_of_cc lam u a = ci_of_cc lam u b.
Proof.
  intros lam u [e|c d] [e'|c' d']; cbn; try tauto; [congruence|].
  intros [H ->]. unfold mk_stat. now rewrite (nf_perm_eq _ _ H).
Qed.
(* equal results, or both raise *)
Definition ci_equiv (a b : ci_result) : Prop :=
  match a, b with
  | CIok _ _ _, CIok _ _ _ => a = b
  | CIerr _, CIerr _ => True
  | _, _ => False
  end.
Lemma ci_of_cc_weak : forall lam u a b, cc_equiv a b -> ci_equiv (ci_of_cc lam u a) (ci_of_cc lam u b).
Proof.
  intros lam u [e|c d] [e'|c' d']; cbn; try tauto.
  intros [H ->]. unfold mk_stat. now rewrite (nf_perm_eq _ _ H).
Qed.

Lemma ci_uncond_alt : forall lam kinds rows X Y,
  ci_uncond lam kinds rows X Y =
  ci_of_cc lam true (chi2_contingency (cnt rows X Y) (levels (nth X kinds None) (colvals rows X))
                                      (levels (nth Y kinds None) (colvals rows Y))).
Proof. intros. unfold ci_uncond. destruct (chi2_contingency _ _ _); reflexivity. Qed.

(* ------------------------------------------------------------------ the conditional loop as a sum *)
Definition cc_add (a r : cc_result) : cc_result :=
  match a, r with
  | CCerr e, _ => CCerr e
  | CCok _ _, CCerr e => CCerr e
  | CCok c d, CCok c' d' => CCok (c ++ c') (d + d')
  end.
Definition ux_of (X : nat) (df : list row) := nodup Nat.eq_dec (colvals df X).
(* contribution of one stratum *)
Definition stratum_res (X Y : nat) (df : list row) : cc_result :=
  if skip_rule (cnt df X Y) (ux_of X df) (ux_of Y df) then CCok [] 0
  else chi2_contingency (cnt df X Y) (ux_of X df) (ux_of Y df).
Fixpoint cc_sum (l : list cc_result) : cc_result :=
  match l with [] => CCok [] 0 | r :: t => cc_add r (cc_sum t) end.

Lemma stratum_step_add : forall X Y acc df, stratum_step X Y acc df = cc_add acc (stratum_res X Y df).
Proof.
  intros X Y [e|c d] df; cbn [stratum_step cc_add]; [reflexivity|].
  unfold stratum_res, ux_of. destruct (skip_rule _ _ _).
  - cbn. now rewrite app_nil_r, Nat.add_0_r.
  - destruct (chi2_contingency _ _ _); reflexivity.
Qed.
Lemma cc_add_assoc : forall a b c, cc_add (cc_add a b) c = cc_add a (cc_add b c).
Proof.
  intros [e|c d] [e'|c' d'] [e''|c'' d'']; cbn; try reflexivity.
  now rewrite app_assoc, Nat.add_assoc.
Qed.
Lemma cc_add_nil_r : forall a, cc_add a (CCok [] 0) = a.
Proof. intros [e|c d]; cbn; [reflexivity|]. now rewrite app_nil_r, Nat.add_0_r. Qed.
Lemma fold_steps : forall X Y dfs acc,
  fold_left (stratum_step X Y) dfs acc = cc_add acc (cc_sum (map (stratum_res X Y) dfs)).
Proof.
  intros X Y dfs. induction dfs as [|df dfs IH]; intros acc; cbn [fold_left map cc_sum].
  - now rewrite cc_add_nil_r.
  - now rewrite IH, stratum_step_add, cc_add_assoc.
Qed.
Lemma ci_cond_alt : forall lam rows X Y Z,
  ci_cond lam rows X Y Z = ci_of_cc lam false (cc_sum (map (stratum_res X Y) (strata Z rows))).
Proof.
  intros. unfold ci_cond. rewrite fold_steps.
  destruct (cc_sum _) as [e|c d]; cbn; reflexivity.
Qed.

Lemma cc_add_equiv : forall a a' b b', cc_equiv a a' -> cc_equiv b b' -> cc_equiv (cc_add a b) (cc_add a' b').
Proof.
  intros [e|c d] [e'|c' d'] [f|k m] [f'|k' m']; cbn; try tauto.
  intros [H1 ->] [H2 ->]. split; [now apply Permutation_app|reflexivity].
Qed.
Lemma cc_add_comm12 : forall a b s, cc_equiv (cc_add a (cc_add b s)) (cc_add b (cc_add a s)).
Proof.
  intros [e|c d] [e'|c' d'] [e''|c'' d'']; cbn; auto.
  split; [|lia]. rewrite !app_assoc. apply Permutation_app_tail, Permutation_app_comm.
Qed.
Lemma cc_sum_perm : forall l l', Permutation l l' -> cc_equiv (cc_sum l) (cc_sum l').
Proof.
  induction 1; cbn [cc_sum].
  - apply cc_equiv_refl.
  - apply cc_add_equiv; [apply cc_equiv_refl|assumption].
  - apply cc_add_comm12.
  - eapply cc_equiv_trans; eassumption.
Qed.
Lemma cc_sum_pointwise : forall {A} (h h' : A -> cc_result) l,
  (forall k, In k l -> cc_equiv (h k) (h' k)) -> cc_equiv (cc_sum (map h l)) (cc_sum (map h' l)).
Proof.
  intros A h h' l H. induction l as [|k l IH]; cbn [map cc_sum]; [apply cc_equiv_refl|].
  apply cc_add_equiv; [apply H; now left|apply IH; intros; apply H; now right].
Qed.
Lemma cc_sum_pointwise_eq : forall {A} (h h' : A -> cc_result) l,
  (forall k, cc_equiv_strict (h k) (h' k)) -> cc_equiv_strict (cc_sum (map h l)) (cc_sum (map h' l)).
Proof.
  intros A h h' l H. induction l as [|k l IH]; cbn [map cc_sum]; [cbn; split; [constructor|reflexivity]|].
  specialize (H k). destruct (h k) as [e|c d], (h' k) as [e'|c' d']; cbn in H |- *; try tauto.
  destruct (cc_sum (map h l)) as [f|k1 m1], (cc_sum (map h' l)) as [f'|k2 m2]; cbn in IH |- *; try tauto.
  destruct H as [H ->], IH as [IH ->]. split; [now apply Permutation_app|reflexivity].
Qed.

(* ------------------------------------------------------------------ symmetry in X and Y *)
Lemma stratum_res_swap : forall X Y df, cc_equiv_strict (stratum_res Y X df) (stratum_res X Y df).
Proof.
  intros X Y df. unfold stratum_res.
  assert (Hs : skip_rule (cnt df Y X) (ux_of Y df) (ux_of X df) = skip_rule (cnt df X Y) (ux_of X df) (ux_of Y df)).
  { unfold skip_rule. rewrite orb_comm. f_equal; apply existsb_ext'; intros k; f_equal.
    - unfold rowsum, colsum. f_equal. apply map_ext. intros. apply cnt_swap.
    - unfold rowsum, colsum. f_equal. apply map_ext. intros. apply cnt_swap. }
  rewrite Hs; clear Hs. destruct (skip_rule _ _ _); [cbn; split; [constructor|reflexivity]|].
  pose proof (chi2_flip (cnt df X Y) (ux_of X df) (ux_of Y df)) as H.
  pose proof (chi2_perm_ext (cnt df Y X) (flip (cnt df X Y)) (ux_of Y df) (ux_of Y df) (ux_of X df) (ux_of X df)
                (Permutation_refl _) (Permutation_refl _)) as H2.
  specialize (H2 (fun i j => cnt_swap df X Y j i)).
  destruct (chi2_contingency (cnt df Y X) _ _) as [e|c d],
           (chi2_contingency (flip (cnt df X Y)) _ _) as [e'|c' d'],
           (chi2_contingency (cnt df X Y) _ _) as [e''|c'' d'']; cbn in *; try tauto; try congruence.
  destruct H as [H ->], H2 as [H2 ->]. split; [eapply perm_trans; eassumption|reflexivity].
Qed.

Lemma symmetric_xy : forall lam kinds rows X Y Z,
  power_divergence lam kinds rows Y X Z = power_divergence lam kinds rows X Y Z.
Proof.
  intros. unfold power_divergence. rewrite (orb_comm (memn Y Z)).
  destruct (memn X Z || memn Y Z); [reflexivity|].
  destruct rows as [|r0 rows]; [reflexivity|]. destruct Z as [|z Z].
  - rewrite !ci_uncond_alt. apply ci_of_cc_strict.
    set (rs := r0 :: rows).
    pose proof (chi2_flip (cnt rs X Y) (levels (nth X kinds None) (colvals rs X)) (levels (nth Y kinds None) (colvals rs Y))) as H.
    pose proof (chi2_perm_ext (cnt rs Y X) (flip (cnt rs X Y)) _ _ _ _
                  (Permutation_refl (levels (nth Y kinds None) (colvals rs Y)))
                  (Permutation_refl (levels (nth X kinds None) (colvals rs X)))
                  (fun i j => cnt_swap rs X Y j i)) as H2.
    destruct (chi2_contingency (cnt rs Y X) _ _) as [e|c d],
             (chi2_contingency (flip (cnt rs X Y)) _ _) as [e'|c' d'],
             (chi2_contingency (cnt rs X Y) _ _) as [e''|c'' d'']; cbn in *; try tauto; try congruence.
    destruct H as [H ->], H2 as [H2 ->]. split; [eapply perm_trans; eassumption|reflexivity].
  - rewrite !ci_cond_alt. apply ci_of_cc_strict. apply cc_sum_pointwise_eq. intros df. apply stratum_res_swap.
Qed.

(* ------------------------------------------------------------------ row order *)
Lemma stratum_res_perm : forall X Y df df', Permutation df df' -> cc_equiv (stratum_res X Y df) (stratum_res X Y df').
Proof.
  intros X Y df df' H. unfold stratum_res.
  assert (Hx : Permutation (ux_of X df) (ux_of X df')) by (apply nodup_perm, colvals_perm, H).
  assert (Hy : Permutation (ux_of Y df) (ux_of Y df')) by (apply nodup_perm, colvals_perm, H).
  assert (Hf : forall i j, cnt df X Y i j = cnt df' X Y i j) by (intros; now apply cnt_perm).
  assert (Hs : skip_rule (cnt df X Y) (ux_of X df) (ux_of Y df) = skip_rule (cnt df' X Y) (ux_of X df') (ux_of Y df')).
  { unfold skip_rule. f_equal.
    - rewrite (existsb_perm _ _ _ Hy). apply existsb_ext'. intros j.
      now rewrite (colsum_perm _ _ _ j Hx), (colsum_ext _ _ _ j Hf).
    - rewrite (existsb_perm _ _ _ Hx). apply existsb_ext'. intros i.
      now rewrite (rowsum_perm _ _ _ i Hy), (rowsum_ext _ _ _ i Hf). }
  rewrite Hs; clear Hs. destruct (skip_rule _ _ _); [apply cc_equiv_refl|].
  apply cc_strict_weak. now apply chi2_perm_ext.
Qed.

Lemma row_perm : forall lam kinds rows rows' X Y Z, Permutation rows rows' ->
  ci_equiv (power_divergence lam kinds rows X Y Z) (power_divergence lam kinds rows' X Y Z).
Proof.
  intros lam kinds rows rows' X Y Z H. unfold power_divergence.
  destruct (memn X Z || memn Y Z); [exact I|].
  destruct rows as [|r0 rows].
  { apply Permutation_nil in H. subst. exact I. }
  destruct rows' as [|r0' rows'].
  { symmetry in H. apply Permutation_nil in H. discriminate. }
  destruct Z as [|z Z].
  - rewrite !ci_uncond_alt. apply ci_of_cc_weak, cc_strict_weak. apply chi2_perm_ext.
    + apply levels_perm, colvals_perm, H.
    + apply levels_perm, colvals_perm, H.
    + intros. now apply cnt_perm.
  - rewrite !ci_cond_alt. apply ci_of_cc_weak. unfold strata.
    set (ZZ := z :: Z). rewrite !map_map.
    eapply cc_equiv_trans.
    + apply cc_sum_perm. apply Permutation_map. apply nodup_perm. apply Permutation_map. exact H.
    + apply cc_sum_pointwise. intros k _. apply stratum_res_perm. apply filter_perm. exact H.
Qed.

(* ------------------------------------------------------------------ order of the conditioning variables *)
Definition same (Z : list nat) (r s : row) : bool := keyeqb (proj Z s) (proj Z r).
Fixpoint reps (eqv : row -> row -> bool) (rows : list row) : list row :=
  match rows with
  | [] => []
  | r :: t => if existsb (eqv r) t then reps eqv t else r :: reps eqv t
  end.
Lemma keyeqb_true : forall a b, keyeqb a b = true <-> a = b.
Proof. intros. unfold keyeqb. destruct (key_eq_dec a b); split; congruence. Qed.
Lemma nodup_keys_reps : forall Z rows,
  nodup key_eq_dec (map (proj Z) rows) = map (proj Z) (reps (same Z) rows).
Proof.
  intros Z rows. induction rows as [|r t IH]; cbn [map nodup reps]; [reflexivity|].
  destruct (in_dec key_eq_dec (proj Z r) (map (proj Z) t)) as [Hin|Hin];
  destruct (existsb (same Z r) t) eqn:E.
  - exact IH.
  - exfalso. apply in_map_iff in Hin. destruct Hin as [s [Hs Hin]].
    assert (existsb (same Z r) t = true) as E'; [|congruence].
    apply existsb_exists. exists s. split; [assumption|]. unfold same. now apply keyeqb_true.
  - exfalso. apply Hin. apply existsb_exists in E. destruct E as [s [Hin' Hs]].
    unfold same in Hs. apply keyeqb_true in Hs. apply in_map_iff. exists s. now split.
  - cbn [map]. now rewrite IH.
Qed.
Lemma strata_reps : forall Z rows,
  strata Z rows = map (fun r => filter (fun s => same Z r s) rows) (reps (same Z) rows).
Proof. intros. unfold strata. rewrite nodup_keys_reps, map_map. reflexivity. Qed.
Lemma reps_ext : forall e e' rows, (forall r s, e r s = e' r s) -> reps e rows = reps e' rows.
Proof.
  intros e e' rows H. induction rows as [|r t IH]; cbn [reps]; [reflexivity|].
  rewrite (existsb_ext' (e r) (e' r)) by (intros; apply H). now rewrite IH.
Qed.
Lemma same_perm : forall Z Z' r s, Permutation Z Z' -> same Z r s = same Z' r s.
Proof.
  intros Z Z' r s H. unfold same. apply eq_true_iff_eq. rewrite !keyeqb_true. unfold proj.
  rewrite !map_ext_in_iff. split; intros H1 c Hc; apply H1; eapply Permutation_in; try eassumption.
  now symmetry.
Qed.
Lemma strata_perm : forall Z Z' rows, Permutation Z Z' -> strata Z rows = strata Z' rows.
Proof.
  intros Z Z' rows H. rewrite !strata_reps.
  rewrite (reps_ext (same Z) (same Z')) by (intros; now apply same_perm).
  apply map_ext. intros r. apply filter_ext. intros s. now apply same_perm.
Qed.
Lemma z_order : forall lam kinds rows X Y Z Z', Permutation Z Z' ->
  power_divergence lam kinds rows X Y Z = power_divergence lam kinds rows X Y Z'.
Proof.
  intros lam kinds rows X Y Z Z' H. unfold power_divergence.
  unfold memn. rewrite (existsb_perm _ _ _ H), (existsb_perm (Nat.eqb Y) _ _ H).
  destruct (_ || _); [reflexivity|]. destruct rows as [|r0 rows]; [reflexivity|].
  destruct Z as [|z Z]; destruct Z' as [|z' Z'].
  - reflexivity.
  - apply Permutation_nil in H. discriminate.
  - symmetry in H. apply Permutation_nil in H. discriminate.
  - unfold ci_cond. now rewrite (strata_perm _ _ _ H).
Qed.

(* ------------------------------------------------------------------ degrees of freedom *)
Lemma chi2_dof : forall f lx ly c d, chi2_contingency f lx ly = CCok c d -> d = cc_dof lx ly.
Proof.
  intros f lx ly c d. unfold chi2_contingency.
  destruct (_ =? 0); [discriminate|]. destruct (_ =? 0); [discriminate|]. destruct (existsb _ _); [discriminate|].
  destruct (cc_dof lx ly =? 0) eqn:E; intros H; inversion H; subst; [|reflexivity].
  now apply Nat.eqb_eq in E.
Qed.
Definition not_skipped (X Y : nat) (df : list row) : bool :=
  negb (skip_rule (cnt df X Y) (ux_of X df) (ux_of Y df)).
Definition stratum_dof (X Y : nat) (df : list row) : nat := cc_dof (ux_of X df) (ux_of Y df).
Lemma cc_sum_dof : forall X Y dfs c d, cc_sum (map (stratum_res X Y) dfs) = CCok c d ->
  d = list_sum (map (stratum_dof X Y) (filter (not_skipped X Y) dfs)).
Proof.
  intros X Y dfs. induction dfs as [|df dfs IH]; intros c d; cbn [map cc_sum filter].
  - intros H; inversion H; reflexivity.
  - destruct (stratum_res X Y df) as [e|c1 d1] eqn:E1; cbn [cc_add]; [discriminate|].
    destruct (cc_sum _) as [e|c2 d2]; [discriminate|]. intros H; inversion H; subst.
    specialize (IH _ _ eq_refl). unfold stratum_res in E1. unfold not_skipped at 1.
    destruct (skip_rule _ _ _); cbn [negb].
    + inversion E1; subst. reflexivity.
    + simpl. apply chi2_dof in E1. unfold stratum_dof at 1. lia.
Qed.
Lemma dof_cond : forall lam rows X Y Z s dof p, ci_cond lam rows X Y Z = CIok s dof p ->
  dof = list_sum (map (stratum_dof X Y) (filter (not_skipped X Y) (strata Z rows))).
Proof.
  intros lam rows X Y Z s dof p. rewrite ci_cond_alt.
  destruct (cc_sum _) as [e|c d] eqn:E; cbn; [discriminate|]. intros H; inversion H; subst.
  eapply cc_sum_dof; eassumption.
Qed.
Lemma dof_uncond : forall lam kinds rows X Y s dof p, ci_uncond lam kinds rows X Y = CIok s dof p ->
  dof = (length (levels (nth X kinds None) (colvals rows X)) - 1) * (length (levels (nth Y kinds None) (colvals rows Y)) - 1).
Proof.
  intros lam kinds rows X Y s dof p. rewrite ci_uncond_alt.
  destruct (chi2_contingency _ _ _) as [e|c d] eqn:E; cbn; [discriminate|]. intros H; inversion H; subst.
  now apply chi2_dof in E.
Qed.

(* ------------------------------------------------------------------ the skip rule never fires *)
Lemma cnt_pos : forall df X Y r, In r df -> 1 <= cnt df X Y (getc r X) (getc r Y).
Proof.
  intros df X Y r H. unfold cnt.
  assert (In r (filter (fun r0 => (getc r0 X =? getc r X) && (getc r0 Y =? getc r Y)) df)) as Hin.
  { apply filter_In. split; [assumption|]. now rewrite !Nat.eqb_refl. }
  destruct (filter _ df); [destruct Hin|cbn; lia].
Qed.
Lemma skip_rule_dead : forall X Y df, skip_rule (cnt df X Y) (ux_of X df) (ux_of Y df) = false.
Proof.
  intros X Y df. unfold skip_rule. apply orb_false_iff. split.
  - apply not_true_is_false. intros H. apply existsb_exists in H. destruct H as [j [Hj H]].
    apply Nat.eqb_eq in H. unfold ux_of in Hj. apply nodup_In in Hj. unfold colvals in Hj.
    apply in_map_iff in Hj. destruct Hj as [r [<- Hr]].
    pose proof (cnt_pos df X Y r Hr) as Hp.
    assert (In (getc r X) (ux_of X df)) as Hx by (apply nodup_In, in_map_iff; exists r; now split).
    assert (cnt df X Y (getc r X) (getc r Y) <= colsum (cnt df X Y) (ux_of X df) (getc r Y)).
    { unfold colsum. apply list_sum_in_le. apply in_map_iff. exists (getc r X). now split. }
    lia.
  - apply not_true_is_false. intros H. apply existsb_exists in H. destruct H as [i [Hi H]].
    apply Nat.eqb_eq in H. unfold ux_of in Hi. apply nodup_In in Hi. unfold colvals in Hi.
    apply in_map_iff in Hi. destruct Hi as [r [<- Hr]].
    pose proof (cnt_pos df X Y r Hr) as Hp.
    assert (In (getc r Y) (ux_of Y df)) as Hy by (apply nodup_In, in_map_iff; exists r; now split).
    assert (cnt df X Y (getc r X) (getc r Y) <= rowsum (cnt df X Y) (ux_of Y df) (getc r X)).
    { unfold rowsum. apply list_sum_in_le. apply in_map_iff. exists (getc r Y). now split. }
    lia.
Qed.
Lemma filter_not_skipped : forall X Y dfs, filter (not_skipped X Y) dfs = dfs.
Proof.
  intros X Y dfs. induction dfs as [|df dfs IH]; cbn [filter]; [reflexivity|].
  unfold not_skipped at 1. rewrite skip_rule_dead. cbn [negb]. now rewrite IH.
Qed.

(* ------------------------------------------------------------------ zero on independent tables *)
Definition indep_table (f : nat -> nat -> nat) (lx ly : list nat) : Prop :=
  forall i j, In i lx -> In j ly ->
    qn (f i j) = expected (rowsum f ly i) (colsum f lx j) (total f lx ly).
Definition balanced (c : cell) : Prop := fst c = snd c.

Lemma yates_fix : forall e, yates e e = e.
Proof.
  intros e. unfold yates. replace (e - e)%Qc with 0%Qc by ring.
  change (qc_leb (- qhalf) 0 && qc_leb 0 qhalf) with true. cbn [andb]. ring.
Qed.
Lemma chi2_indep : forall f lx ly c d, chi2_contingency f lx ly = CCok c d ->
  indep_table f lx ly -> Forall balanced c.
Proof.
  intros f lx ly c d. unfold chi2_contingency.
  destruct (_ =? 0); [discriminate|]. destruct (_ =? 0); [discriminate|]. destruct (existsb _ _); [discriminate|].
  destruct (cc_dof lx ly =? 0); intros H Hi; inversion H; subst; [constructor|].
  apply Forall_grid. intros i j Hx Hy. unfold balanced, cc_cell. cbn [fst snd].
  rewrite (Hi i j Hx Hy). destruct (cc_dof lx ly =? 1); [apply yates_fix|reflexivity].
Qed.
Definition indep_stratum (X Y : nat) (df : list row) : Prop :=
  indep_table (cnt df X Y) (ux_of X df) (ux_of Y df).
Lemma cc_sum_indep : forall X Y dfs c d, cc_sum (map (stratum_res X Y) dfs) = CCok c d ->
  (forall df, In df dfs -> indep_stratum X Y df) -> Forall balanced c.
Proof.
  intros X Y dfs. induction dfs as [|df dfs IH]; intros c d; cbn [map cc_sum].
  - intros H _; inversion H; constructor.
  - destruct (stratum_res X Y df) as [e|c1 d1] eqn:E1; cbn [cc_add]; [discriminate|].
    destruct (cc_sum _) as [e|c2 d2]; [discriminate|]. intros H Hall; inversion H; subst.
    apply Forall_app. split.
    + unfold stratum_res in E1. destruct (skip_rule _ _ _).
      * inversion E1; constructor.
      * eapply chi2_indep; [eassumption|]. apply Hall. now left.
    + eapply IH; [reflexivity|]. intros; apply Hall. now right.
Qed.
(* exactly independent data: the unconditional table, resp. every stratum's table, equals its expectation *)
Definition indep_data (kinds : list (option nat)) (rows : list row) (X Y : nat) (Z : list nat) : Prop :=
  match Z with
  | [] => indep_table (cnt rows X Y) (levels (nth X kinds None) (colvals rows X))
                      (levels (nth Y kinds None) (colvals rows Y))
  | _ => forall df, In df (strata Z rows) -> indep_stratum X Y df
  end.
Lemma indep_cells : forall lam kinds rows X Y Z s dof p,
  power_divergence lam kinds rows X Y Z = CIok s dof p ->
  indep_data kinds rows X Y Z -> Forall balanced (s_cells s).
Proof.
  intros lam kinds rows X Y Z s dof p. unfold power_divergence.
  destruct (_ || _); [discriminate|]. destruct rows as [|r0 rows]; [discriminate|].
  destruct Z as [|z Z]; cbn [indep_data].
  - rewrite ci_uncond_alt. destruct (chi2_contingency _ _ _) as [e|c d] eqn:E; cbn; [discriminate|].
    intros H Hi; inversion H; subst. cbn [s_cells mk_stat].
    eapply Permutation_Forall; [apply nf_perm|]. eapply chi2_indep; eassumption.
  - rewrite ci_cond_alt. destruct (cc_sum _) as [e|c d] eqn:E; cbn; [discriminate|].
    intros H Hi; inversion H; subst. cbn [s_cells mk_stat].
    eapply Permutation_Forall; [apply nf_perm|]. eapply cc_sum_indep; eassumption.
Qed.

(* ------------------------------------------------------------------ verdict *)
Lemma verdict_spec : forall p alpha,
  verdict p alpha = true <-> exists v, p = Some v /\ (alpha <= v)%Qc.
Proof.
  intros [v|] alpha; cbn [verdict].
  - rewrite qc_leb_le. split; [intros H; exists v; now split|intros [v' [E H]]; now inversion E].
  - split; [discriminate|intros [v [E _]]; discriminate].
Qed.

(* ------------------------------------------------------------------ shape of the p-value term *)
Lemma pterm_shape : forall lam kinds rows X Y Z s dof p,
  power_divergence lam kinds rows X Y Z = CIok s dof p ->
  p = if dof =? 0 then POne else match Z with [] => PSF s dof | _ => P1mCDF s dof end.
Proof.
  intros lam kinds rows X Y Z s dof p. unfold power_divergence.
  destruct (_ || _); [discriminate|]. destruct rows as [|r0 rows]; [discriminate|].
  destruct Z as [|z Z].
  - rewrite ci_uncond_alt. destruct (chi2_contingency _ _ _) as [e|c d]; cbn; [discriminate|].
    intros H; inversion H; subst. reflexivity.
  - rewrite ci_cond_alt. destruct (cc_sum _) as [e|c d]; cbn; [discriminate|].
    intros H; inversion H; subst. reflexivity.
Qed.
Lemma dof_all : forall lam kinds rows X Y Z s dof p,
  power_divergence lam kinds rows X Y Z = CIok s dof p ->
  dof = match Z with
        | [] => (length (levels (nth X kinds None) (colvals rows X)) - 1) *
                (length (levels (nth Y kinds None) (colvals rows Y)) - 1)
        | _ => list_sum (map (stratum_dof X Y) (filter (not_skipped X Y) (strata Z rows)))
        end.
Proof.
  intros lam kinds rows X Y Z s dof p. unfold power_divergence.
  destruct (_ || _); [discriminate|]. destruct rows as [|r0 rows]; [discriminate|].
  destruct Z as [|z Z]; [apply dof_uncond|apply dof_cond].
Qed.

(* ------------------------------------------------------------------ non-vacuity *)
(* 2x2 product table, unconditional and stratified: observed = expected in every cell *)
Definition ex_rows : list row := [[0;0;0]; [0;1;0]; [1;0;0]; [1;1;0]; [0;0;1]; [0;1;1]; [1;0;1]; [1;1;1]].
Example indep_example_cond : indep_data [None; None; None] ex_rows 0 1 [2] /\
  exists s, power_divergence 1%Qc [None; None; None] ex_rows 0 1 [2] = CIok s 2 (P1mCDF s 2).
Proof.
  split.
  - cbn [indep_data]. intros df Hdf. vm_compute in Hdf.
    destruct Hdf as [<-|[<-|[]]]; intros i j Hi Hj; vm_compute in Hi, Hj;
      destruct Hi as [<-|[<-|[]]]; destruct Hj as [<-|[<-|[]]]; apply Qc_is_canon; reflexivity.
  - eexists. vm_compute. reflexivity.
Qed.
Example indep_example_uncond : indep_data [None; None; None] ex_rows 0 1 [] /\
  exists s, power_divergence 1%Qc [None; None; None] ex_rows 0 1 [] = CIok s 1 (PSF s 1).
Proof.
  split.
  - cbn [indep_data]. intros i j Hi Hj; vm_compute in Hi, Hj;
      destruct Hi as [<-|[<-|[]]]; destruct Hj as [<-|[<-|[]]]; apply Qc_is_canon; reflexivity.
  - eexists. vm_compute. reflexivity.
Qed.
(* every stratum has a single X level: exactly independent, dof 0, p-value term = the constant 1 *)
Definition ex_degenerate : list row := [[0;0;0]; [0;1;0]; [1;0;1]; [1;1;1]].
Lemma degenerate_pvalue_term :
  indep_data [None; None; None] ex_degenerate 0 1 [2] /\
  power_divergence 1%Qc [None; None; None] ex_degenerate 0 1 [2] = CIok (mk_stat 1%Qc []) 0 POne.
Proof.
  split.
  - cbn [indep_data]. intros df Hdf. vm_compute in Hdf.
    destruct Hdf as [<-|[<-|[]]]; intros i j Hi Hj; vm_compute in Hi, Hj;
      destruct Hi as [<-|[]]; destruct Hj as [<-|[<-|[]]]; apply Qc_is_canon; reflexivity.
  - vm_compute. reflexivity.
Qed.

(* ------------------------------------------------------------------ dof 0: the formal sum is empty *)
Lemma chi2_dof0 : forall f lx ly c, chi2_contingency f lx ly = CCok c 0 -> c = [].
Proof.
  intros f lx ly c. unfold chi2_contingency.
  destruct (_ =? 0); [discriminate|]. destruct (_ =? 0); [discriminate|]. destruct (existsb _ _); [discriminate|].
  destruct (cc_dof lx ly =? 0) eqn:E; intros H; inversion H; subst; [reflexivity|].
  match goal with H0 : cc_dof lx ly = 0 |- _ => rewrite H0 in E; discriminate end.
Qed.
Lemma cc_sum_dof0 : forall X Y dfs c, cc_sum (map (stratum_res X Y) dfs) = CCok c 0 -> c = [].
Proof.
  intros X Y dfs. induction dfs as [|df dfs IH]; intros c; cbn [map cc_sum].
  - intros H; inversion H; reflexivity.
  - destruct (stratum_res X Y df) as [e|c1 d1] eqn:E1; cbn [cc_add]; [discriminate|].
    destruct (cc_sum _) as [e|c2 d2]; [discriminate|]. intros H; inversion H; subst.
    assert (d1 = 0) by lia. assert (d2 = 0) by lia. subst.
    rewrite (IH c2 eq_refl), app_nil_r. unfold stratum_res in E1. destruct (skip_rule _ _ _).
    + now inversion E1.
    + eapply chi2_dof0; eassumption.
Qed.
Lemma dof0_no_cells : forall lam kinds rows X Y Z s p,
  power_divergence lam kinds rows X Y Z = CIok s 0 p -> s_cells s = [].
Proof.
  intros lam kinds rows X Y Z s p. unfold power_divergence.
  destruct (_ || _); [discriminate|]. destruct rows as [|r0 rows]; [discriminate|].
  destruct Z as [|z Z].
  - rewrite ci_uncond_alt. destruct (chi2_contingency _ _ _) as [e|c d] eqn:E; cbn; [discriminate|].
    intros H; inversion H; subst. apply chi2_dof0 in E. subst. reflexivity.
  - rewrite ci_cond_alt. destruct (cc_sum _) as [e|c d] eqn:E; cbn; [discriminate|].
    intros H; inversion H; subst. apply cc_sum_dof0 in E. subst. reflexivity.
Qed.
