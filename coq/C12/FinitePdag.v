(* C12: CPDAG exactness and DAG membership for all DAGs on <= 4 labelled nodes, by vm_compute *)
From Coq Require Import List Bool Arith PeanoNat Lia.
From PV Require Import Base.Reach Base.Graph C08.Model C12.Model C12.Spec C12.FiniteDefs.
Import ListNotations.

Definition chk_pdag (n : nat) : bool :=
  forallb (fun g =>
    let c := cpdag_arcs g in
    forallb (fun o : list node * list node =>
      forallb (fun vr =>
        match pc_pdag vr (dsep_oracle g) n (fst o) (snd o) with
        | None => false
        | Some A => arcs_eqb A c && acyclicb (dpart (fst o) A)
        end) variants) (orders n)) (all_dags n).

(* PDAG.to_dag on the CPDAG of the class, for every node order of the PDAG object.  (The PDAG object built from
   an arc set A under node order pord is (arc_nodes pord A, canon_arcs pord A), which depends on A only as a set.) *)
Definition chk_dag (n : nat) : bool :=
  forallb (fun g =>
    let c := cpdag_arcs g in
    forallb (fun pord => dag_memberb g (to_dag true (arc_nodes pord c) (canon_arcs pord c))) (perms (seq 0 n)))
    (all_dags n).

Lemma chk_pdag_upto3 : forallb chk_pdag [0; 1; 2; 3] = true.
Proof. vm_compute. reflexivity. Qed.
Lemma chk_pdag_4 : chk_pdag 4 = true.
Proof. vm_compute. reflexivity. Qed.

Lemma chk_dag_upto4 : forallb chk_dag [0; 1; 2; 3; 4] = true.
Proof. vm_compute. reflexivity. Qed.
