(* C12, unbounded: exactness of the skeleton phase of PC (build_skeleton, variants orig/stable/parallel) with the
   d-separation oracle of an arbitrary ground-truth DAG, for every node order, every set order and every
   max_cond_vars >= the maximum in-degree of the truth.
     (a) an edge of the truth is never removed;
     (b) every non-adjacent pair is removed before the level loop exits;
     (c) every stored separating set d-separates its pair.
   d-separation is C08's model of is_dconnected, proved equal to the path definition there. *)
From Coq Require Import List Bool Arith PeanoNat Lia.
From PV Require Import Base.Reach Base.Graph C08.Model C08.Spec C08.ProofsTrail C08.ProofsMisc C08.ProofsMinsep
  C12.Model C12.Spec C12.ToDag C12.VPhase.
Import ListNotations.

(* ------------------------------------------------------------------ the undirected working graph *)
Lemma ueqb_true u v a b : ueqb (u, v) (a, b) = true <-> (u = a /\ v = b) \/ (u = b /\ v = a).
Proof.
  unfold ueqb, edge_eqb. simpl. rewrite orb_true_iff, !andb_true_iff, !Nat.eqb_eq. tauto.
Qed.
Lemma ueqb_swap u v k : ueqb (v, u) k = ueqb (u, v) k.
Proof.
  destruct k as [a b]. apply eq_true_iff_eq. rewrite !ueqb_true. tauto.
Qed.
Lemma uadj_In E u v : uadj E u v = true <-> In (u, v) E \/ In (v, u) E.
Proof.
  unfold uadj. rewrite existsb_exists. split.
  - intros [[a b] [Hin Hq]]. apply ueqb_true in Hq. destruct Hq as [[-> ->]|[-> ->]]; tauto.
  - intros [H|H]; [exists (u, v)|exists (v, u)]; (split; [exact H|]); apply ueqb_true; tauto.
Qed.
Lemma uadj_sym E u v : uadj E u v = uadj E v u.
Proof. apply eq_true_iff_eq. rewrite !uadj_In. tauto. Qed.
Lemma In_uremove E a b x y : In (x, y) (uremove E a b) <-> In (x, y) E /\ ~ ((a = x /\ b = y) \/ (a = y /\ b = x)).
Proof.
  unfold uremove. rewrite filter_In, negb_true_iff. rewrite <- ueqb_true.
  destruct (ueqb (a, b) (x, y)); split; intros [H1 H2]; split; auto; try discriminate. exfalso. apply H2. reflexivity.
Qed.
Lemma uadj_uremove E a b u v :
  uadj (uremove E a b) u v = true <-> uadj E u v = true /\ ~ ((a = u /\ b = v) \/ (a = v /\ b = u)).
Proof. rewrite !uadj_In, !In_uremove. tauto. Qed.
Lemma In_nbrs vars E u z : In z (nbrs vars E u) <-> In z vars /\ uadj E u z = true.
Proof. unfold nbrs. apply filter_In. Qed.

Lemma In_setord sord cs z : In z (setord sord cs) <-> In z cs.
Proof.
  unfold setord. rewrite in_app_iff, !filter_In, memn_In, negb_true_iff, memn_false, dedup_In.
  split; [tauto|]. intros H. destruct (memn z sord) eqn:E; [apply memn_In in E|apply memn_false in E]; tauto.
Qed.

(* ------------------------------------------------------------------ combinations *)
Lemma combs_incl : forall l k c, In c (combs l k) -> incl c l.
Proof.
  induction l as [|x r IH]; intros k c H; destruct k as [|k]; simpl in H.
  - destruct H as [<-|[]]. intros z [].
  - destruct H.
  - destruct H as [<-|[]]. intros z [].
  - apply in_app_or in H. destruct H as [H|H].
    + apply in_map_iff in H. destruct H as [c' [<- Hc]]. intros z [->|Hz]; [left; reflexivity|].
      right. exact (IH _ _ Hc z Hz).
    + intros z Hz. right. exact (IH _ _ H z Hz).
Qed.

Lemma combs_zero l : combs l 0 = [[]].
Proof. destruct l; reflexivity. Qed.

(* every duplicate-free subset of l of size k occurs (as a set) among combinations(l, k) *)
Lemma combs_complete : forall l P, NoDup P -> incl P l ->
  exists c, In c (combs l (length P)) /\ (forall z, In z c <-> In z P).
Proof.
  induction l as [|a l IH]; intros P Hnd Hi.
  - destruct P as [|p P]; [|destruct (Hi p (or_introl eq_refl))].
    exists []. simpl. split; [left; reflexivity|tauto].
  - destruct (in_dec Nat.eq_dec a P) as [Ha|Ha].
    + set (P' := remove1 a P).
      assert (Hnd' : NoDup P') by (apply NoDup_filter; exact Hnd).
      assert (Hi' : incl P' l).
      { intros z Hz. apply C08.ProofsMinsep.In_remove1 in Hz. destruct Hz as [Hz Hne].
        destruct (Hi z Hz) as [->|H]; [congruence|exact H]. }
      assert (Hlen : length P = S (length P')).
      { clear -Hnd Ha. induction P as [|p P IHP]; [destruct Ha|].
        inversion Hnd as [|? ? Hp Hnd']; subst. unfold P'. simpl.
        destruct (Nat.eqb p a) eqn:E; simpl.
        - apply Nat.eqb_eq in E. subst p. f_equal.
          assert (G : forall Q, ~ In a Q -> remove1 a Q = Q).
          { induction Q as [|q Q IHQ]; intros Hq; [reflexivity|]. unfold remove1 in *. simpl.
            destruct (Nat.eqb q a) eqn:E2; simpl.
            - apply Nat.eqb_eq in E2. subst. exfalso. apply Hq. left. reflexivity.
            - f_equal. apply IHQ. intros H. apply Hq. right. exact H. }
          rewrite (G P Hp). reflexivity.
        - apply Nat.eqb_neq in E. destruct Ha as [Ha|Ha]; [congruence|].
          f_equal. apply (IHP Hnd' Ha). }
      destruct (IH P' Hnd' Hi') as [c [Hc Hs]].
      exists (a :: c). rewrite Hlen. split.
      * simpl. apply in_or_app. left. apply in_map. exact Hc.
      * intros z. simpl. rewrite Hs. unfold P'. rewrite C08.ProofsMinsep.In_remove1.
        destruct (Nat.eq_dec z a) as [->|Hne]; [tauto|]. split; [intros [H|H]; [congruence|tauto]|tauto].
    + assert (Hi' : incl P l).
      { intros z Hz. destruct (Hi z Hz) as [->|H]; [contradiction|exact H]. }
      destruct (IH P Hnd Hi') as [c [Hc Hs]]. exists c. split; [|exact Hs].
      destruct (length P) as [|k] eqn:El.
      * rewrite combs_zero in *. exact Hc.
      * simpl. apply in_or_app. right. exact Hc.
Qed.

Lemma find_exists {A} (f : A -> bool) (l : list A) x : In x l -> f x = true -> exists y, find f l = Some y.
Proof.
  induction l as [|a l IH]; intros Hin Hf; [destruct Hin|]. simpl.
  destruct (f a) eqn:E; [eexists; reflexivity|]. destruct Hin as [->|Hin]; [congruence|]. exact (IH Hin Hf).
Qed.

(* ------------------------------------------------------------------ d-separation facts *)
Section Truth.
Variable g : digraph.
Hypothesis Hw : wf_graph g.
Hypothesis Ha : acyclic g.

(* (a) adjacent nodes are d-connected given every set that contains neither *)
Lemma adjacent_never_separated u v cs :
  adjacent g u v -> In u (nodes g) -> ~ In u cs -> ~ In v cs -> dsep_oracle g u v cs = false.
Proof.
  intros Hadj Hu Hucs Hvcs. unfold dsep_oracle. apply negb_false_iff.
  apply (is_dconnected_iff g u v cs Hw Ha Hu Hucs). split; [exact Hvcs|].
  exists [u; v]. simpl. unfold adj. unfold adjacent in Hadj. tauto.
Qed.

Lemma dpath_antisym u v : u <> v -> dpath g u v -> ~ dpath g v u.
Proof.
  intros Hne Huv Hvu. inversion Huv as [|? w ? Huw Hwv]; subst; [congruence|].
  apply (Ha w v Hwv). eapply dpath_trans; eassumption.
Qed.

Lemma adjacent_nodes u v : adjacent g u v -> In u (nodes g) /\ In v (nodes g) /\ u <> v.
Proof.
  intros [H|H]; destruct (proj2 Hw _ _ H) as [H1 H2]; (split; [|split]); auto; intros ->;
    exact (acyclic_no_self g _ Ha H).
Qed.

(* the parents of the node that is not an ancestor of the other one separate a non-adjacent pair *)
Lemma parents_separate_pair u v y x cs :
  In u (nodes g) -> In v (nodes g) -> u <> v -> ~ adjacent g u v ->
  ((y = u /\ x = v) \/ (y = v /\ x = u)) -> ~ dpath g y x ->
  (forall z, In z cs <-> In z (parents g y)) ->
  dsep_oracle g u v cs = true.
Proof.
  intros Hu Hv Hne Hnadj Hyx Hnp Hcs.
  assert (Hy : In y (nodes g)) by (destruct Hyx as [[-> _]|[-> _]]; assumption).
  assert (Hx : In x (nodes g)) by (destruct Hyx as [[_ ->]|[_ ->]]; assumption).
  assert (Hxy : x <> y) by (destruct Hyx as [[-> ->]|[-> ->]]; congruence).
  assert (Hnxy : ~ In (x, y) (edges g) /\ ~ In (y, x) (edges g)).
  { unfold adjacent in Hnadj. destruct Hyx as [[-> ->]|[-> ->]]; tauto. }
  assert (Hycs : ~ In y cs).
  { intros H. apply Hcs, In_parents in H. exact (acyclic_no_self g _ Ha H). }
  assert (Hxcs : ~ In x cs).
  { intros H. apply Hcs, In_parents in H. tauto. }
  assert (Hd : is_dconnected g y x cs = false).
  { apply (parents_separate g x y cs Hw Ha Hy); try tauto.
    - intros p Hp. apply Hcs, In_parents. exact Hp.
    - intros z Hz Hp. apply Hcs, In_parents in Hz. exact (Ha z y Hz Hp). }
  unfold dsep_oracle. apply negb_true_iff.
  destruct Hyx as [[-> ->]|[-> ->]]; [exact Hd|].
  rewrite (is_dconnected_sym g u v cs Hw Ha Hu Hv Hxcs Hycs). exact Hd.
Qed.

Lemma dsep_oracle_sym u v cs : In u (nodes g) -> In v (nodes g) -> ~ In u cs -> ~ In v cs ->
  dsep_oracle g u v cs = dsep_oracle g v u cs.
Proof.
  intros Hu Hv H1 H2. unfold dsep_oracle. f_equal. apply is_dconnected_sym; assumption.
Qed.

End Truth.

(* ------------------------------------------------------------------ the separating-set dictionary *)
Definition haskey (m : sepmap) (x y : node) : bool := existsb (fun p => ueqb (x, y) (fst p)) m.

Lemma lookup_haskey m x y : lookup m x y <> None <-> haskey m x y = true.
Proof.
  unfold lookup, haskey. induction m as [|p m IH]; simpl.
  - split; [congruence|discriminate].
  - destruct (ueqb (x, y) (fst p)); simpl; [split; [reflexivity|discriminate]|exact IH].
Qed.
Lemma haskey_swap m x y : haskey m y x = haskey m x y.
Proof.
  unfold haskey. induction m as [|p m IH]; simpl; [reflexivity|]. rewrite IH, ueqb_swap. reflexivity.
Qed.
Lemma haskey_sep_set_keep m u v cs x y : haskey m x y = true -> haskey (sep_set m u v cs) x y = true.
Proof.
  unfold sep_set, haskey. intros H. destruct (existsb (fun p => ueqb (u, v) (fst p)) m).
  - apply existsb_exists in H. destruct H as [p [Hp Hq]]. apply existsb_exists.
    exists (if ueqb (u, v) (fst p) then (fst p, cs) else p). split.
    + apply in_map_iff. exists p. split; [reflexivity|exact Hp].
    + destruct (ueqb (u, v) (fst p)); exact Hq.
  - rewrite existsb_app, H. reflexivity.
Qed.
Lemma haskey_sep_set_same m u v cs : haskey (sep_set m u v cs) u v = true.
Proof.
  destruct (haskey m u v) eqn:E.
  - apply haskey_sep_set_keep. exact E.
  - unfold sep_set. unfold haskey in E. rewrite E. unfold haskey. rewrite existsb_app. simpl.
    assert (Hq : ueqb (u, v) (u, v) = true) by (apply ueqb_true; tauto). rewrite Hq, orb_true_r. reflexivity.
Qed.
Lemma sep_set_In m u v cs k cs' :
  In (k, cs') (sep_set m u v cs) -> In (k, cs') m \/ (cs' = cs /\ ueqb (u, v) k = true).
Proof.
  unfold sep_set. destruct (existsb (fun p => ueqb (u, v) (fst p)) m).
  - intros H. apply in_map_iff in H. destruct H as [p [He Hp]].
    destruct (ueqb (u, v) (fst p)) eqn:E.
    + inversion He; subst. right. split; [reflexivity|exact E].
    + subst p. left. exact Hp.
  - intros H. apply in_app_or in H. destruct H as [H|[H|[]]]; [left; exact H|].
    inversion H; subst. right. split; [reflexivity|]. apply ueqb_true. tauto.
Qed.

(* ------------------------------------------------------------------ one level of the search *)
Section Level.
Variable g : digraph.
Hypothesis Hw : wf_graph g.
Hypothesis Ha : acyclic g.
Variable vars sord : list node.
Hypothesis Hnd : NoDup vars.
Hypothesis Hvars : forall v, In v vars <-> In v (nodes g).

Definition indeg (y : node) : nat := length (dedup (parents g y)).
(* y may serve as the owner of the separating set of the pair {y, x}: x is not a descendant of y *)
Definition owner (u v y x : node) : Prop := ((y = u /\ x = v) \/ (y = v /\ x = u)) /\ ~ dpath g y x.

Definition sub (E : list arc) : Prop := forall x y, In (x, y) E -> In (x, y) (pairs vars).
Definition sound (E : list arc) : Prop := forall u v, adjacent g u v -> uadj E u v = true.
Definition seps_ok (sp : sepmap) : Prop := forall a b cs, In ((a, b), cs) sp ->
  In a vars /\ In b vars /\ ~ In a cs /\ ~ In b cs /\ dsep_oracle g a b cs = true /\ dsep_oracle g b a cs = true.
Definition seps_tot (E : list arc) (sp : sepmap) : Prop :=
  forall u v, In u vars -> In v vars -> u <> v -> uadj E u v = false -> haskey sp u v = true.

Lemma sub_facts E x y : sub E -> In (x, y) E -> In x vars /\ In y vars /\ x <> y.
Proof.
  intros Hs H. apply Hs in H. destruct (pairs_In _ _ _ H) as [H1 H2]. split; [exact H1|]. split; [exact H2|].
  exact (pairs_neq _ _ _ Hnd H).
Qed.
Lemma uadj_facts E x y : sub E -> uadj E x y = true -> In x vars /\ In y vars /\ x <> y.
Proof.
  intros Hs H. apply uadj_In in H. destruct H as [H|H]; apply (sub_facts E _ _ Hs) in H; intuition.
Qed.

(* neighbour function used by a variant: contains the true parents, stays inside vars, no self loop *)
Definition good_nbf (nbf : list arc -> node -> list node) : Prop :=
  forall Ec, sub Ec -> sound Ec -> forall y,
    (forall p, In (p, y) (edges g) -> In p (nbf Ec y)) /\ (forall z, In z (nbf Ec y) -> In z vars /\ z <> y).

Lemma good_nbf_live : good_nbf (fun Ec => nbrs vars Ec).
Proof.
  intros Ec Hs Hso y. split.
  - intros p Hp. apply In_nbrs. split.
    + apply Hvars. exact (proj1 (proj2 Hw _ _ Hp)).
    + apply Hso. right. exact Hp.
  - intros z Hz. apply In_nbrs in Hz. destruct Hz as [Hz Hu].
    split; [exact Hz|]. destruct (uadj_facts Ec y z Hs Hu) as [_ [_ H]]. congruence.
Qed.
Lemma good_nbf_fixed E0 : sub E0 -> sound E0 -> good_nbf (fun _ => nbrs vars E0).
Proof. intros Hs Hso Ec _ _ y. exact (good_nbf_live E0 Hs Hso y). Qed.

Variable lim : nat.
Definition lstep (nbf : list arc -> node -> list node) (st : list arc * sepmap) (e : arc) : list arc * sepmap :=
  let (Ec, sp) := st in
  let (u, v) := e in
  match find_sep (dsep_oracle g) sord lim (nbf Ec) u v with
  | Some cs => (uremove Ec u v, sep_set sp u v cs)
  | None => st
  end.

(* invariant of the pass over graph.edges(); [done] = the edges already visited *)
Record J (E0 : list arc) (done : list arc) (st : list arc * sepmap) : Prop := {
  j_incl : forall e, In e (fst st) -> In e E0;
  j_sub : sub (fst st);
  j_sound : sound (fst st);
  j_seps : seps_ok (snd st);
  j_tot : seps_tot (fst st) (snd st);
  j_done : forall u v, In (u, v) done -> ~ adjacent g u v ->
             forall y x, owner u v y x -> indeg y = lim -> uadj (fst st) u v = false
}.

Lemma cs_members nbf Ec u v cs : sub Ec -> sound Ec -> good_nbf nbf ->
  In cs (combs (setord sord (remove1 v (nbf Ec u))) lim ++ combs (setord sord (remove1 u (nbf Ec v))) lim) ->
  ~ In u cs /\ ~ In v cs.
Proof.
  intros Hs Hso Hg H. apply in_app_or in H. destruct H as [H|H]; apply combs_incl in H.
  - split; intros Hc; apply H, In_setord, C08.ProofsMinsep.In_remove1 in Hc; destruct Hc as [Hc Hne].
    + destruct (proj2 (Hg Ec Hs Hso u) _ Hc). congruence.
    + congruence.
  - split; intros Hc; apply H, In_setord, C08.ProofsMinsep.In_remove1 in Hc; destruct Hc as [Hc Hne].
    + congruence.
    + destruct (proj2 (Hg Ec Hs Hso v) _ Hc). congruence.
Qed.

(* a non-adjacent pair whose owner has exactly lim parents is separated by some candidate of this level *)
Lemma candidate_exists nbf Ec u v y x : sub Ec -> sound Ec -> good_nbf nbf ->
  In u vars -> In v vars -> u <> v -> ~ adjacent g u v -> owner u v y x -> indeg y = lim ->
  exists cs, find_sep (dsep_oracle g) sord lim (nbf Ec) u v = Some cs.
Proof.
  intros Hs Hso Hg Hu Hv Hne Hnadj [Hyx Hnp] Hk.
  set (P := dedup (parents g y)).
  assert (HPi : incl P (setord sord (remove1 x (nbf Ec y)))).
  { intros z Hz. apply In_setord, C08.ProofsMinsep.In_remove1. unfold P in Hz. apply dedup_In, In_parents in Hz.
    split; [apply (proj1 (Hg Ec Hs Hso y)); exact Hz|].
    intros ->. apply Hnadj. unfold adjacent. destruct Hyx as [[-> ->]|[-> ->]]; tauto. }
  destruct (combs_complete _ P (dedup_NoDup _) HPi) as [c [Hc Hset]].
  fold (indeg y) in Hc. unfold P in Hc. fold (indeg y) in Hc. rewrite Hk in Hc.
  assert (Hsep : dsep_oracle g u v c = true).
  { apply (parents_separate_pair g Hw Ha u v y x c); try assumption; try (apply Hvars; assumption).
    intros z. rewrite Hset. unfold P. apply dedup_In. }
  unfold find_sep. apply (find_exists _ _ c); [|exact Hsep].
  apply in_or_app. destruct Hyx as [[-> ->]|[-> ->]]; [left|right]; exact Hc.
Qed.

Lemma lstep_J nbf E0 done Ec sp u v : good_nbf nbf -> In (u, v) (pairs vars) ->
  J E0 done (Ec, sp) -> J E0 (done ++ [(u, v)]) (lstep nbf (Ec, sp) (u, v)).
Proof.
  intros Hg Huv [Hi Hs Hso Hsp Ht Hd]. simpl in *.
  destruct (pairs_In _ _ _ Huv) as [Hu Hv]. pose proof (pairs_neq _ _ _ Hnd Huv) as Hne.
  destruct (find_sep (dsep_oracle g) sord lim (nbf Ec) u v) as [cs|] eqn:Ef.
  - (* removal *)
    unfold find_sep in Ef. apply find_some in Ef. destruct Ef as [Hin Hq].
    destruct (cs_members nbf Ec u v cs Hs Hso Hg Hin) as [Hucs Hvcs].
    assert (Hnadj : ~ adjacent g u v).
    { intros Hadj. rewrite (adjacent_never_separated g Hw Ha u v cs Hadj) in Hq; try assumption; [discriminate|].
      apply Hvars. exact Hu. }
    constructor; simpl.
    + intros e He. apply Hi. unfold uremove in He. apply filter_In in He. tauto.
    + intros a b Hab. apply In_uremove in Hab. apply Hs. tauto.
    + intros a b Hadj. apply uadj_uremove. split; [apply Hso; exact Hadj|].
      intros [[-> ->]|[-> ->]]; apply Hnadj; [exact Hadj|]. unfold adjacent in *. tauto.
    + intros a b cs' Hin'. apply sep_set_In in Hin'. destruct Hin' as [Hin'|[-> Hk]]; [exact (Hsp _ _ _ Hin')|].
      assert (Hsym : dsep_oracle g v u cs = true).
      { rewrite <- (dsep_oracle_sym g Hw Ha u v cs); try assumption; apply Hvars; assumption. }
      apply ueqb_true in Hk. destruct Hk as [[<- <-]|[<- <-]]; tauto.
    + intros a b Ha' Hb' Hab Hun.
      destruct (uadj Ec a b) eqn:Eab.
      * assert (Hm : (u = a /\ v = b) \/ (u = b /\ v = a)).
        { destruct (ueqb (u, v) (a, b)) eqn:Em; [apply ueqb_true in Em; exact Em|]. exfalso.
          assert (X : uadj (uremove Ec u v) a b = true).
          { apply uadj_uremove. split; [exact Eab|]. intros Hc. apply ueqb_true in Hc. congruence. }
          congruence. }
        destruct Hm as [[<- <-]|[<- <-]]; [apply haskey_sep_set_same|].
        rewrite haskey_swap. apply haskey_sep_set_same.
      * apply haskey_sep_set_keep. apply Ht; assumption.
    + intros a b Hab Hna y x Ho Hk. destruct (uadj (uremove Ec u v) a b) eqn:Er; [|reflexivity].
      apply uadj_uremove in Er. destruct Er as [Er Hnm].
      apply in_app_or in Hab. destruct Hab as [Hab|[Hab|[]]].
      * rewrite (Hd a b Hab Hna y x Ho Hk) in Er. discriminate.
      * inversion Hab; subst. tauto.
  - (* no candidate separates: the state is unchanged *)
    constructor; simpl; try assumption.
    intros a b Hab Hna y x Ho Hk. apply in_app_or in Hab. destruct Hab as [Hab|[Hab|[]]].
    + exact (Hd a b Hab Hna y x Ho Hk).
    + inversion Hab; subst a b.
      destruct (candidate_exists nbf Ec u v y x Hs Hso Hg Hu Hv Hne Hna Ho Hk) as [cs Hc]. congruence.
Qed.

Lemma fold_J nbf E0 : good_nbf nbf -> forall l done st,
  (forall e, In e l -> In e (pairs vars)) ->
  J E0 done st -> J E0 (done ++ l) (fold_left (lstep nbf) l st).
Proof.
  intros Hg. induction l as [|[u v] l IH]; intros done st Hl HJ.
  - rewrite app_nil_r. exact HJ.
  - simpl. replace (done ++ (u, v) :: l) with ((done ++ [(u, v)]) ++ l) by (rewrite <- app_assoc; reflexivity).
    apply IH; [intros e He; apply Hl; right; exact He|].
    destruct st as [Ec sp]. apply lstep_J; [exact Hg|apply Hl; left; reflexivity|exact HJ].
Qed.

End Level.

(* ------------------------------------------------------------------ the level loop *)
Lemma fold_left_map_gen {A B C} (f : A -> C -> A) (h : B -> C) (l : list B) : forall a,
  fold_left f (map h l) a = fold_left (fun a x => f a (h x)) l a.
Proof. induction l as [|x l IH]; intros a; simpl; [reflexivity|apply IH]. Qed.
Lemma fold_left_pointwise {A B} (f f' : A -> B -> A) (l : list B) : (forall a x, f a x = f' a x) ->
  forall a, fold_left f l a = fold_left f' l a.
Proof. intros H. induction l as [|x l IH]; intros a; simpl; [reflexivity|]. rewrite H. apply IH. Qed.
Lemma filter_length_le' {A} (f : A -> bool) (l : list A) : length (filter f l) <= length l.
Proof. induction l as [|x l IH]; simpl; [lia|]. destruct (f x); simpl; lia. Qed.

(* the parallel variant computes what the stable variant computes (all tests on the graph as it was at the start of
   the level, removals applied in edge order) *)
Lemma level_pass_parallel_stable indep vars sord lim E sp :
  level_pass Parallel indep vars sord lim E sp = level_pass Stable indep vars sord lim E sp.
Proof.
  unfold level_pass. rewrite fold_left_map_gen. apply fold_left_pointwise. intros [Ec sp0] [u v]. reflexivity.
Qed.
Lemma sk_loop_parallel_stable indep maxc vars sord : forall fuel lim E sp,
  sk_loop fuel Parallel indep maxc vars sord lim E sp = sk_loop fuel Stable indep maxc vars sord lim E sp.
Proof.
  induction fuel as [|f IH]; intros lim E sp; [reflexivity|]. cbn [sk_loop].
  rewrite level_pass_parallel_stable.
  destruct (forallb _ vars); [reflexivity|].
  destruct (level_pass Stable indep vars sord lim E sp) as [E' sp']. destruct (Nat.leb maxc lim); [reflexivity|apply IH].
Qed.
Lemma pc_pdag_parallel_stable indep maxc vars sord :
  pc_pdag Parallel indep maxc vars sord = pc_pdag Stable indep maxc vars sord.
Proof. unfold pc_pdag, build_skeleton. rewrite sk_loop_parallel_stable. reflexivity. Qed.

Section Loop.
Variable g : digraph.
Hypothesis Hw : wf_graph g.
Hypothesis Ha : acyclic g.
Variable vars sord : list node.
Hypothesis Hnd : NoDup vars.
Hypothesis Hvars : forall v, In v vars <-> In v (nodes g).
Variable vr : variant.
Variable maxc : nat.
(* the bound the level loop needs: max_cond_vars is at least the maximum in-degree of the truth *)
Hypothesis Hmax : forall y, In y (nodes g) -> indeg g y <= maxc.

Record Inv (lim : nat) (E : list arc) (sp : sepmap) : Prop := {
  i_sub : sub vars E;
  i_sound : sound g E;
  i_seps : seps_ok g vars sp;
  i_tot : seps_tot vars E sp;
  i_prog : forall u v, In (u, v) E -> ~ adjacent g u v -> forall y x, owner g u v y x -> lim <= indeg g y
}.

Lemma level_pass_fold lim E sp : sub vars E -> sound g E ->
  exists nbf, good_nbf g vars nbf /\
    level_pass vr (dsep_oracle g) vars sord lim E sp = fold_left (lstep g sord lim nbf) E (E, sp).
Proof.
  intros Hs Hso. destruct vr.
  - exists (fun Ec => nbrs vars Ec). split; [apply good_nbf_live; assumption|reflexivity].
  - exists (fun _ => nbrs vars E). split; [apply good_nbf_fixed; assumption|reflexivity].
  - exists (fun _ => nbrs vars E). split; [apply good_nbf_fixed; assumption|].
    unfold level_pass. rewrite fold_left_map_gen. apply fold_left_pointwise.
    intros [Ec sp0] [u v]. reflexivity.
Qed.

Lemma level_inv lim E sp : Inv lim E sp ->
  Inv (S lim) (fst (level_pass vr (dsep_oracle g) vars sord lim E sp))
              (snd (level_pass vr (dsep_oracle g) vars sord lim E sp)).
Proof.
  intros [Hs Hso Hsp Ht Hp].
  destruct (level_pass_fold lim E sp Hs Hso) as [nbf [Hg ->]].
  assert (HJ0 : J g vars lim E [] (E, sp)).
  { constructor; simpl; auto. intros u v []. }
  assert (HE : forall e, In e E -> In e (pairs vars)) by (intros [a b] He; exact (Hs a b He)).
  pose proof (fold_J g Hw Ha vars sord Hnd Hvars lim nbf E Hg E [] (E, sp) HE HJ0) as HJ.
  simpl in HJ. destruct HJ as [Hi' Hs' Hso' Hsp' Ht' Hd'].
  constructor; try assumption.
  intros u v Huv Hna y x Ho.
  pose proof (Hp u v (Hi' _ Huv) Hna y x Ho) as Hle.
  destruct (Nat.eq_dec (indeg g y) lim) as [He|Hne]; [|lia].
  exfalso. pose proof (Hd' u v (Hi' _ Huv) Hna y x Ho He) as Hf.
  assert (Ht2 : uadj (fst (fold_left (lstep g sord lim nbf) E (E, sp))) u v = true) by (apply uadj_In; left; exact Huv).
  congruence.
Qed.

Lemma owner_exists u v : u <> v -> exists y x, owner g u v y x.
Proof.
  intros Hne. destruct (has_path g u v) eqn:E.
  - apply (has_path_spec g u v Hw) in E. exists v, u. split; [tauto|]. apply dpath_antisym; assumption.
  - exists u, v. split; [tauto|]. intros Hp. apply (has_path_spec g u v Hw) in Hp. congruence.
Qed.

Lemma adjacent_dec u v : {adjacent g u v} + {~ adjacent g u v}.
Proof.
  assert (D : forall a b : node * node, {a = b} + {a <> b}) by (decide equality; apply Nat.eq_dec).
  unfold adjacent. destruct (in_dec D (u, v) (edges g)); [left; tauto|].
  destruct (in_dec D (v, u) (edges g)); [left; tauto|right; tauto].
Qed.

Lemma final_ok E sp : sub vars E -> sound g E -> seps_ok g vars sp -> seps_tot vars E sp ->
  (forall u v, In (u, v) E -> adjacent g u v) -> skeleton_ok g vars E sp.
Proof.
  intros Hs Hso Hsp Ht Hall.
  assert (Hadj : forall u v, uadj E u v = true <-> adjacent g u v).
  { intros u v. split; [|apply Hso]. intros H. apply uadj_In in H. destruct H as [H|H]; apply Hall in H; [exact H|].
    unfold adjacent in *. tauto. }
  constructor.
  - exact Hvars.
  - exact Hadj.
  - intros x y cs H. unfold lookup in H.
    destruct (find (fun p => ueqb (x, y) (fst p)) sp) as [[[a b] cs']|] eqn:Ef; [|discriminate].
    inversion H; subst cs'. apply find_some in Ef. destruct Ef as [Hin Hq]. simpl in Hq.
    destruct (Hsp a b cs Hin) as [_ [_ [H1 [H2 [H3 H4]]]]].
    apply ueqb_true in Hq. destruct Hq as [[-> ->]|[-> ->]]; tauto.
  - intros x y Hx Hy Hne Hna. apply lookup_haskey. apply Ht; try assumption.
    destruct (uadj E x y) eqn:Eu; [|reflexivity]. apply Hadj in Eu. contradiction.
Qed.

Lemma exit_by_degree lim E sp : Inv lim E sp ->
  forallb (fun v => Nat.ltb (length (nbrs vars E v)) lim) vars = true -> skeleton_ok g vars E sp.
Proof.
  intros [Hs Hso Hsp Ht Hp] Hex. apply final_ok; try assumption.
  intros u v Huv. destruct (adjacent_dec u v) as [Hadj|Hna]; [exact Hadj|exfalso].
  destruct (sub_facts vars Hnd E u v Hs Huv) as [Hu [Hv Hne]].
  destruct (owner_exists u v Hne) as [y [x Ho]].
  pose proof (Hp u v Huv Hna y x Ho) as Hle.
  destruct Ho as [Hyx Hnp].
  assert (Hy : In y vars) by (destruct Hyx as [[-> _]|[-> _]]; assumption).
  assert (Hx : In x vars) by (destruct Hyx as [[_ ->]|[_ ->]]; assumption).
  assert (Huxy : uadj E y x = true).
  { apply uadj_In. destruct Hyx as [[-> ->]|[-> ->]]; tauto. }
  rewrite forallb_forall in Hex. specialize (Hex y Hy). apply Nat.ltb_lt in Hex.
  assert (Hlen : S (indeg g y) <= length (nbrs vars E y)).
  { change (S (indeg g y)) with (length (x :: dedup (parents g y))).
    apply NoDup_incl_length.
    - constructor; [|apply dedup_NoDup]. intros Hin. apply dedup_In, In_parents in Hin.
      apply Hna. unfold adjacent. destruct Hyx as [[-> ->]|[-> ->]]; tauto.
    - intros z [<-|Hz]; apply In_nbrs.
      + split; assumption.
      + apply dedup_In, In_parents in Hz. split.
        * apply Hvars. exact (proj1 (proj2 Hw _ _ Hz)).
        * apply Hso. right. exact Hz. }
  lia.
Qed.

Lemma exit_by_maxc lim E sp : Inv (S lim) E sp -> maxc <= lim -> skeleton_ok g vars E sp.
Proof.
  intros [Hs Hso Hsp Ht Hp] Hm. apply final_ok; try assumption.
  intros u v Huv. destruct (adjacent_dec u v) as [Hadj|Hna]; [exact Hadj|exfalso].
  destruct (sub_facts vars Hnd E u v Hs Huv) as [Hu [Hv Hne]].
  destruct (owner_exists u v Hne) as [y [x Ho]].
  pose proof (Hp u v Huv Hna y x Ho) as Hle.
  assert (Hy : In y (nodes g)).
  { destruct Ho as [[[-> _]|[-> _]] _]; apply Hvars; assumption. }
  pose proof (Hmax y Hy). lia.
Qed.

Lemma sk_loop_ok : forall f lim E sp, length vars + 1 <= f + lim -> Inv lim E sp ->
  exists E' sp', sk_loop (S f) vr (dsep_oracle g) maxc vars sord lim E sp = Some (E', sp') /\
                 skeleton_ok g vars E' sp'.
Proof.
  induction f as [|f IH]; intros lim E sp Hf HI; cbn [sk_loop].
  - assert (Hex : forallb (fun v => Nat.ltb (length (nbrs vars E v)) lim) vars = true).
    { apply forallb_forall. intros v _. apply Nat.ltb_lt.
      pose proof (filter_length_le' (fun z => uadj E v z) vars). unfold nbrs. lia. }
    rewrite Hex. exists E, sp. split; [reflexivity|]. exact (exit_by_degree lim E sp HI Hex).
  - destruct (forallb (fun v => Nat.ltb (length (nbrs vars E v)) lim) vars) eqn:Hex.
    + exists E, sp. split; [reflexivity|]. exact (exit_by_degree lim E sp HI Hex).
    + pose proof (level_inv lim E sp HI) as HI'.
      destruct (level_pass vr (dsep_oracle g) vars sord lim E sp) as [E' sp'] eqn:El. simpl in HI'.
      destruct (Nat.leb maxc lim) eqn:Em.
      * apply Nat.leb_le in Em. exists E', sp'. split; [reflexivity|]. exact (exit_by_maxc lim E' sp' HI' Em).
      * apply IH; [lia|exact HI'].
Qed.

Lemma inv_init : Inv 0 (pairs vars) [].
Proof.
  constructor.
  - intros x y H. exact H.
  - intros u v Hadj. destruct (adjacent_nodes g Hw Ha u v Hadj) as [Hu [Hv Hne]].
    apply uadj_In. apply pairs_complete; try assumption; apply Hvars; assumption.
  - intros a b cs [].
  - intros u v Hu Hv Hne Hun. exfalso.
    assert (uadj (pairs vars) u v = true) by (apply uadj_In; apply pairs_complete; assumption). congruence.
  - intros. lia.
Qed.

Theorem skeleton_exact_all :
  exists E seps, build_skeleton vr (dsep_oracle g) maxc vars sord = Some (E, seps) /\ skeleton_ok g vars E seps.
Proof. unfold build_skeleton. apply sk_loop_ok; [lia|exact inv_init]. Qed.

End Loop.

(* ------------------------------------------------------------------ readable forms *)
Definition degree (g : digraph) (y : node) : nat := length (filter (fun u => adjb g y u) (nodes g)).

Lemma indeg_le_degree g y : wf_graph g -> indeg g y <= degree g y.
Proof.
  intros Hw. unfold indeg, degree. apply NoDup_incl_length; [apply dedup_NoDup|].
  intros p Hp. apply dedup_In, In_parents in Hp. apply filter_In. split.
  - exact (proj1 (proj2 Hw _ _ Hp)).
  - unfold adjb. apply has_edge_In in Hp. rewrite Hp. apply orb_true_r.
Qed.

(* (a) + (b) + (c) in one statement; the separation in (c) is also given in the path definition of C08.Spec *)
Theorem skeleton_exact : forall g vars sord vr maxc,
  wf_graph g -> acyclic g -> NoDup vars -> (forall v, In v vars <-> In v (nodes g)) ->
  (forall y, In y (nodes g) -> indeg g y <= maxc) ->
  exists E seps,
    build_skeleton vr (dsep_oracle g) maxc vars sord = Some (E, seps) /\
    skeleton_ok g vars E seps /\
    (forall u v, uadj E u v = true <-> adjacent g u v) /\
    (forall u v cs, In u vars -> lookup seps u v = Some cs ->
       ~ adjacent g u v /\ ~ In u cs /\ ~ In v cs /\ dsep_oracle g u v cs = true /\ ~ dconnected g cs u v) /\
    (forall u v, In u vars -> In v vars -> u <> v -> ~ adjacent g u v -> lookup seps u v <> None).
Proof.
  intros g vars sord vr maxc Hw Ha Hnd Hvars Hmax.
  destruct (skeleton_exact_all g Hw Ha vars sord Hnd Hvars vr maxc Hmax) as [E [seps [Hb Hok]]].
  exists E, seps. split; [exact Hb|]. split; [exact Hok|].
  destruct Hok as [_ Hadj Hss Hst]. split; [exact Hadj|]. split; [|exact Hst].
  intros u v cs Huv Hl. destruct (Hss u v cs Hl) as [H1 [H2 H3]].
  assert (Hna : ~ adjacent g u v).
  { intros Hc. destruct (adjacent_nodes g Hw Ha u v Hc) as [Hu _].
    rewrite (adjacent_never_separated g Hw Ha u v cs Hc Hu H1 H2) in H3. discriminate. }
  repeat split; try assumption.
  assert (Hu : In u (nodes g)) by (apply Hvars; exact Huv).
  intros Hd. unfold dsep_oracle in H3. apply negb_true_iff in H3.
  assert (is_dconnected g u v cs = true) by (apply (is_dconnected_iff g u v cs Hw Ha Hu H1); tauto). congruence.
Qed.

Corollary skeleton_exact_maxdegree : forall g vars sord vr maxc,
  wf_graph g -> acyclic g -> NoDup vars -> (forall v, In v vars <-> In v (nodes g)) ->
  (forall y, In y (nodes g) -> degree g y <= maxc) ->
  exists E seps,
    build_skeleton vr (dsep_oracle g) maxc vars sord = Some (E, seps) /\ skeleton_ok g vars E seps.
Proof.
  intros g vars sord vr maxc Hw Ha Hnd Hvars Hmax.
  apply skeleton_exact_all; try assumption.
  intros y Hy. pose proof (indeg_le_degree g y Hw). specialize (Hmax y Hy). lia.
Qed.

(* composition with the v-structure phase: for every DAG, with the separating sets the skeleton phase actually
   stores, phase 1 of skeleton_to_pdag orients exactly the truth's unshielded colliders *)
Corollary skeleton_then_vphase : forall g vars sord vr maxc,
  wf_graph g -> acyclic g -> NoDup vars -> (forall v, In v vars <-> In v (nodes g)) ->
  (forall y, In y (nodes g) -> indeg g y <= maxc) ->
  exists E seps,
    build_skeleton vr (dsep_oracle g) maxc vars sord = Some (E, seps) /\
    forall A, vphase vars E seps (to_directed E) = Some A ->
      forall z x, In (z, x) A <-> In (z, x) (to_directed E) /\ ~ exists y, ucollider g x z y.
Proof.
  intros g vars sord vr maxc Hw Ha Hnd Hvars Hmax.
  destruct (skeleton_exact_all g Hw Ha vars sord Hnd Hvars vr maxc Hmax) as [E [seps [Hb Hok]]].
  exists E, seps. split; [exact Hb|]. intros A HA. exact (vstructure_phase_sound g vars E seps A Hw Ha Hok HA).
Qed.

(* non-vacuity: the hypotheses are met by the collider 0 -> 2 <- 1 with max_cond_vars = 2 *)
Example skeleton_exact_nonvacuous :
  let g := {| nodes := [0; 1; 2]; edges := [(0, 2); (1, 2)] |} in
  wf_graph g /\ acyclic g /\ NoDup [0; 1; 2] /\ (forall y, In y (nodes g) -> indeg g y <= 2) /\
  build_skeleton Orig (dsep_oracle g) 2 [0; 1; 2] [0; 1; 2] = Some ([(0, 2); (1, 2)], [((0, 1), [])]).
Proof.
  cbv zeta. destruct vstructure_phase_nonvacuous as [Hw [Ha _]].
  split; [exact Hw|]. split; [exact Ha|]. split; [exact (proj1 Hw)|]. split; [|vm_compute; reflexivity].
  intros y Hy. simpl in Hy. destruct Hy as [<-|[<-|[<-|[]]]]; vm_compute; lia.
Qed.
