(* C12 property theorems.  Only statements, each closed by [exact] of a lemma proved in Finite.v / ToDag.v,
   with Print Assumptions underneath.

   Model:  C12/Model.v (PC.build_skeleton orig/stable/parallel, PC.skeleton_to_pdag, PDAG.to_dag,
           independence_match over get_independencies) with the ground truth's d-separation oracle
           [dsep_oracle g] = C08's model of DAG.is_dconnected (proved equal to the path definition in C08).
   Spec:   C12/Spec.v (Markov equivalence class by enumeration, CPDAG, consistent extension).

   NOT PROVED (full-strength statement, kept visible):
     forall g vr maxc vars sord, wf_graph g -> acyclic g -> NoDup vars -> (forall v, In v vars <-> In v (nodes g)) ->
       (forall y, In y (nodes g) -> indeg g y <= maxc) ->
       cpdag_exactb g vars (pc_pdag vr (dsep_oracle g) maxc vars sord) = true
     (It was false before fix ad4d524: C12_rule4_witness_6.)
   What is proved of it for all n: the skeleton phase (C12_skeleton_exact), the v-structure phase
   (C12_vstructure_phase_sound, C12_skeleton_then_vstructures) and the SOUNDNESS half of the propagation rules
   (C12_pdag_sound_partial: the PDAG contains the CPDAG; whatever it directs is compelled and directed as in every
   member).  MISSING: completeness of the three propagation rules (Meek 1995: when no rule applies every remaining
   undirected edge is reversible, i.e. In (u,v) A -> exists a member with u -> v).  That half is covered by the
   finite-domain theorems (<= 4 labelled nodes, the listed orders), by 5 nodes exhaustively and by random 6-8 node
   truths against the enumerated CPDAG in the correspondence run.  PDAG.to_dag is proved correct and complete for
   every extendable graph, and the DAG return type is reduced to PDAG exactness (C12_dag_member_if_cpdag_exact). *)
From Coq Require Import List Bool Arith.
From PV Require Import Base.Reach Base.Graph C08.Model C08.Spec C12.Model C12.Spec C12.FiniteDefs C12.Finite C12.ToDag C12.VPhase C12.Skeleton C12.DorTarsi C12.SpecBridge C12.Member C12.ModelFix C12.Refuted6 C12.Orient C12.Session C12.ProofsMeek C12.ProofsMeekModel.
Import ListNotations.

(* [U] skeleton phase, every DAG, every variant (orig / stable / parallel), every node order [vars] (a duplicate-free
   listing of the nodes), every set order [sord] (any list), every max_cond_vars >= the maximum IN-degree of the
   truth (the bound the level loop needs: the separating set found is the parent set of the end point that is not
   an ancestor of the other; max degree is a sufficient bound, C12_skeleton_exact_maxdegree):
   the level loop terminates within its fuel, and
     (a)+(b) the remaining adjacency is exactly the truth's skeleton (no true edge removed, every non-adjacent pair
             removed before the loop exits),
     (c)     every stored separating set belongs to a non-adjacent pair, contains neither end point and d-separates
             them (C08's oracle, and the path definition of C08.Spec), and every non-adjacent pair has one. *)
Theorem C12_skeleton_exact : forall g vars sord vr maxc,
  wf_graph g -> acyclic g -> NoDup vars -> (forall v, In v vars <-> In v (nodes g)) ->
  (forall y, In y (nodes g) -> indeg g y <= maxc) ->
  exists E seps,
    build_skeleton vr (dsep_oracle g) maxc vars sord = Some (E, seps) /\
    skeleton_ok g vars E seps /\
    (forall u v, uadj E u v = true <-> adjacent g u v) /\
    (forall u v cs, In u vars -> lookup seps u v = Some cs ->
       ~ adjacent g u v /\ ~ In u cs /\ ~ In v cs /\ dsep_oracle g u v cs = true /\ ~ dconnected g cs u v) /\
    (forall u v, In u vars -> In v vars -> u <> v -> ~ adjacent g u v -> lookup seps u v <> None).
Proof. exact skeleton_exact. Qed.
Print Assumptions C12_skeleton_exact.

Theorem C12_skeleton_exact_maxdegree : forall g vars sord vr maxc,
  wf_graph g -> acyclic g -> NoDup vars -> (forall v, In v vars <-> In v (nodes g)) ->
  (forall y, In y (nodes g) -> degree g y <= maxc) ->
  exists E seps,
    build_skeleton vr (dsep_oracle g) maxc vars sord = Some (E, seps) /\ skeleton_ok g vars E seps.
Proof. exact skeleton_exact_maxdegree. Qed.
Print Assumptions C12_skeleton_exact_maxdegree.

(* [U] skeleton phase + phase 1 of skeleton_to_pdag: for every DAG the oriented colliders are exactly the truth's
   unshielded colliders (with the separating sets the skeleton phase actually stores) *)
Theorem C12_skeleton_then_vstructures : forall g vars sord vr maxc,
  wf_graph g -> acyclic g -> NoDup vars -> (forall v, In v vars <-> In v (nodes g)) ->
  (forall y, In y (nodes g) -> indeg g y <= maxc) ->
  exists E seps,
    build_skeleton vr (dsep_oracle g) maxc vars sord = Some (E, seps) /\
    forall A, vphase vars E seps (to_directed E) = Some A ->
      forall z x, In (z, x) A <-> In (z, x) (to_directed E) /\ ~ exists y, ucollider g x z y.
Proof. exact skeleton_then_vphase. Qed.
Print Assumptions C12_skeleton_then_vstructures.

(* not vacuous *)
Theorem C12_skeleton_exact_nonvacuous :
  let g := {| nodes := [0; 1; 2]; edges := [(0, 2); (1, 2)] |} in
  wf_graph g /\ acyclic g /\ NoDup [0; 1; 2] /\ (forall y, In y (nodes g) -> indeg g y <= 2) /\
  build_skeleton Orig (dsep_oracle g) 2 [0; 1; 2] [0; 1; 2] = Some ([(0, 2); (1, 2)], [((0, 1), [])]).
Proof. exact skeleton_exact_nonvacuous. Qed.
Print Assumptions C12_skeleton_exact_nonvacuous.

(* [U] _partial (soundness half of PDAG exactness), every DAG, variant, order, max_cond_vars >= max in-degree: the
   PDAG returned by PC keeps every arc of every member of the truth's Markov equivalence class, lives on the truth's
   skeleton, and every edge it directs is directed that way in EVERY member (so: no spurious v-structure, no
   reversible edge directed, nothing directed against the truth, no directed cycle).
   Missing for exactness: every compelled edge does get directed (completeness of the rules). *)
Theorem C12_pdag_sound_partial : forall g vars sord vr maxc A,
  wf_graph g -> acyclic g -> NoDup vars -> (forall v, In v vars <-> In v (nodes g)) ->
  (forall y, In y (nodes g) -> indeg g y <= maxc) ->
  pc_pdag vr (dsep_oracle g) maxc vars sord = Some A ->
  (forall h, markov_equiv g h -> forall u v, In (u, v) (edges h) -> In (u, v) A) /\
  (forall u v, (In (u, v) A \/ In (v, u) A) <-> adjacent g u v) /\
  (forall u v, In (u, v) A -> ~ In (v, u) A -> forall h, markov_equiv g h -> In (u, v) (edges h)).
Proof. exact pc_pdag_sound. Qed.
Print Assumptions C12_pdag_sound_partial.

(* (The former finite-domain theorem C12_skeleton_exact_upto4 is superseded by the unbounded C12_skeleton_exact.) *)

(* [F 4] (orders: node order ascending/descending x set order ascending/descending/rotated by 1/by 2; variants orig and
   stable computed, parallel proved equal to stable) the PDAG returned for return_type pdag/cpdag is the CPDAG of the truth's Markov equivalence class
   (arc u->v present iff some member has it: hence v-structures exact, every compelled edge oriented, no
   reversible edge oriented) and its directed part has no cycle *)
Theorem C12_cpdag_exact_upto4 : forall n g vr vars sord,
  n <= 4 -> In g (all_dags n) -> In (vars, sord) (orders n) ->
  cpdag_exactb g vars (pc_pdag vr (dsep_oracle g) n vars sord) = true.
Proof. exact cpdag_exact_upto4. Qed.
Print Assumptions C12_cpdag_exact_upto4.

(* regression witness of the repaired defect ad4d524 (6 nodes; beyond the bound of the finite-domain theorems):
   with rule 4 as it was (no "X, Y non-adjacent" test) the exact skeleton is turned into a PDAG in which the compelled
   true edge 1 -> 2 comes out as 2 -> 1; as coded now the result is the CPDAG for the three variants.
   Truth: 0->1, 0->2, 0->3, 1->2, 3->1, 4->3, 5->0, 5->1, 5->2, 5->3, identity orders. *)
Theorem C12_rule4_witness_6 : rule4_witness_check = true.
Proof. exact rule4_witness_6. Qed.
Print Assumptions C12_rule4_witness_6.

(* [F 4] return_type dag: the sink-removal loop needs no fallback and returns an acyclic member of the class,
   for every node order of the PDAG object *)
Theorem C12_dag_member_upto4 : forall n g vr vars sord pord,
  n <= 4 -> In g (all_dags n) -> In (vars, sord) (orders n) -> In pord (perms (seq 0 n)) ->
  dag_memberb g (pc_dag vr (dsep_oracle g) n vars sord pord) = true.
Proof. exact dag_member_upto4. Qed.
Print Assumptions C12_dag_member_upto4.

(* regression witness of the repaired defect 6ec15dd (5 nodes): exact CPDAG, but with the sink test as it was
   before the fix (sym = false) to_dag takes the fallback and leaves the class; as coded now it does not *)
Theorem C12_to_dag_one_way_test_witness_5 :
  exists g vars sord pord A D,
    length (nodes g) = 5 /\ acyclicb g = true /\
    pc_pdag Stable (dsep_oracle g) 5 vars sord = Some A /\
    cpdag_exactb g vars (Some A) = true /\
    to_dag false (arc_nodes pord A) (canon_arcs pord A) = Some (D, true) /\
    mequivb g {| nodes := nodes g; edges := D |} = false /\
    dag_memberb g (pc_dag Stable (dsep_oracle g) 5 vars sord pord) = true.
Proof. exact to_dag_one_way_test_witness_5. Qed.
Print Assumptions C12_to_dag_one_way_test_witness_5.

(* [U] PDAG.to_dag: for EVERY partially directed graph (arcs over ns, no self loop), every node order and arc
   order, whenever the sink-removal loop finishes without the fallback the result is a consistent extension:
   acyclic, same skeleton, every directed edge kept, no new v-structure.  (sym = true is the code; PDAG.to_dag = to_dag true.)
   Completeness is C12_to_dag_complete below. *)
Theorem C12_to_dag_invariants : forall sym ns A D,
  arcs_in ns A -> irrefl A ->
  to_dag sym ns A = Some (D, false) ->
  consistent_extension ns A D.
Proof. exact to_dag_invariants. Qed.
Print Assumptions C12_to_dag_invariants.

(* [U] Dor & Tarsi completeness of PDAG.to_dag as coded now (both-ways clique test, fix 6ec15dd): for EVERY
   extendable partially directed graph (some consistent extension exists), every node order and arc order, the
   sink-removal loop never takes the arbitrary-orientation fallback, and its result is a consistent extension. *)
Theorem C12_to_dag_complete : forall ns A,
  NoDup ns -> arcs_in ns A -> irrefl A ->
  (exists D, consistent_extension ns A D) ->
  exists D', to_dag true ns A = Some (D', false) /\ consistent_extension ns A D'.
Proof. exact to_dag_complete. Qed.
Print Assumptions C12_to_dag_complete.

(* not vacuous; the same PDAG makes the test as it was before 6ec15dd fall back *)
Theorem C12_to_dag_complete_nonvacuous :
  let ns := [0; 1; 2] in
  let A := [(0, 1); (0, 2); (1, 2); (2, 1)] in
  NoDup ns /\ arcs_in ns A /\ irrefl A /\ consistent_extension ns A [(0, 1); (0, 2); (1, 2)] /\
  to_dag false ns A = Some ([(0, 1); (0, 2); (1, 2)], true) /\
  to_dag true ns A = Some ([(0, 1); (0, 2); (2, 1)], false).
Proof. exact to_dag_complete_nonvacuous. Qed.
Print Assumptions C12_to_dag_complete_nonvacuous.

(* [U] the DAG return type, every DAG g: if the PDAG handed to to_dag is the CPDAG of g's class (Spec.is_cpdag_of: arc
   present iff some member of the class has it), then for every node order and arc order PDAG.to_dag takes no
   fallback and returns an acyclic member of the class (a consistent extension of the CPDAG). *)
Theorem C12_dag_member_of_cpdag : forall g A ns,
  wf_graph g -> acyclic g -> is_cpdag_of g A ->
  NoDup ns -> arcs_in ns A ->
  exists D, to_dag true ns A = Some (D, false) /\ consistent_extension ns A D /\
            markov_equiv g {| nodes := nodes g; edges := D |}.
Proof. intros g A ns Hw Ha HA. exact (dag_member_of_cpdag g Hw Ha A HA ns). Qed.
Print Assumptions C12_dag_member_of_cpdag.

(* [U] the two forms of the specification agree: the executable CPDAG (enumeration of the orientations of the
   skeleton; used by the finite-domain theorems and by the harness) is the CPDAG in the Prop sense, where the class
   ranges over ALL Markov-equivalent digraphs on the same nodes *)
Theorem C12_cpdag_enumeration_is_cpdag : forall g, wf_graph g -> acyclic g -> is_cpdag_of g (cpdag_arcs g).
Proof. exact cpdag_arcs_spec. Qed.
Print Assumptions C12_cpdag_enumeration_is_cpdag.

(* [U] return_type="dag" for every number of nodes, reduced to the PDAG phase: whenever PC's PDAG equals the CPDAG
   of the truth's class, the DAG returned is a member of the class, without fallback, for every node order of the
   PDAG object.  (With C12_cpdag_exact_upto4 this re-derives C12_dag_member_upto4; for n > 4 the premise is what the
   propagation rules still owe.) *)
Theorem C12_dag_member_if_cpdag_exact : forall g vr indep maxc vars sord pord,
  wf_graph g -> acyclic g -> NoDup pord -> (forall v, In v (nodes g) -> In v pord) ->
  cpdag_exactb g vars (pc_pdag vr indep maxc vars sord) = true ->
  exists D, pc_dag vr indep maxc vars sord pord = Some (D, false) /\
            markov_equiv g {| nodes := nodes g; edges := D |}.
Proof. exact dag_member_if_cpdag_exact. Qed.
Print Assumptions C12_dag_member_if_cpdag_exact.

(* [U] v-structure phase of skeleton_to_pdag: given the truth's skeleton and correct separating sets (what the
   skeleton phase delivers with an exact oracle), for EVERY DAG and node order the arcs removed by phase 1 are
   exactly z -> x for the truth's unshielded colliders x -> z <- y: no spurious and no missing v-structure.
   (d-separation in [skeleton_ok] is C08's oracle, proved equal to the path definition.) *)
Theorem C12_vstructure_phase_sound : forall g vars E seps A,
  wf_graph g -> acyclic g -> skeleton_ok g vars E seps ->
  vphase vars E seps (to_directed E) = Some A ->
  forall z x, In (z, x) A <-> In (z, x) (to_directed E) /\ ~ exists y, ucollider g x z y.
Proof. exact vstructure_phase_sound. Qed.
Print Assumptions C12_vstructure_phase_sound.

(* not vacuous: a PDAG with undirected edges and a v-structure on which the loop succeeds *)
Theorem C12_to_dag_invariants_nonvacuous :
  let ns := [0; 1; 2; 3] in
  let A := [(0, 1); (1, 0); (1, 2); (2, 1); (0, 3); (2, 3)] in
  arcs_in ns A /\ irrefl A /\ exists D, to_dag true ns A = Some (D, false).
Proof. exact to_dag_invariants_nonvacuous. Qed.
Print Assumptions C12_to_dag_invariants_nonvacuous.

(* the modelled estimate() keeps no state on the PC object: in a session of several calls (different oracles,
   variants, max_cond_vars, orders) every answer is that of the call made alone; checked on pgmpy by the harness's
   session stream *)
Theorem C12_estimate_no_cross_call_state : forall before c after d,
  nth (length before) (session (before ++ c :: after)) d = run_call c.
Proof. exact session_no_cross_call_state. Qed.
Print Assumptions C12_estimate_no_cross_call_state.

(* ---------------------------------------------------------------- towards completeness of the propagation rules *)
(* [U] _partial: the coded fix-point loop stops only in a state CLOSED under the three rules (no instance of rule 2 /
   Meek R1, rule 3 / R2 with directed paths of any length, rule 4 / R3 is left), and in that state MEEK'S LEMMA 1 holds:
   a -> b directed and b - c undirected imply a -> c directed.  For every skeleton and separating sets that are the
   truth's (skeleton_ok), every DAG, node order and set order.  The proof is the induction over the order in which
   edges were oriented (ProofsMeek.Hist: the loop is shown to extend a history of justified orientations). *)
Theorem C12_rules_closed_and_meek_lemma1_partial : forall g vars sord E seps A,
  wf_graph g -> acyclic g -> NoDup vars -> (forall v, In v vars <-> In v (nodes g)) ->
  skeleton_ok g vars E seps -> skeleton_to_pdag vars sord E seps = Some A ->
  closed g vars A /\ (forall a b c, Dir A a b -> Und A b c -> Dir A a c).
Proof. exact skeleton_to_pdag_closed_lemma1. Qed.
Print Assumptions C12_rules_closed_and_meek_lemma1_partial.

(* [U] _partial, end to end for PC with an exact oracle, and the chain-component form: a directed parent of one node
   of an undirected component is a directed parent of every node of the component (so no directed edge joins two
   nodes of one component).
   MISSING for C12_cpdag_exact for all n: (1) the undirected components are chordal (a chordless undirected cycle
   would contain a sink of the truth, i.e. an unshielded collider, which phase 1 directs); (2) the re-orientation
   lemma: an undirected graph with an acyclic collider-free orientation (the truth's) has, for each edge, such an
   orientation directing it the other way (perfect elimination orders / two simplicial vertices); (3) glueing: the
   directed part plus acyclic collider-free orientations of the components is a member of the class (acyclic and
   no new unshielded collider by the statement below).  (1)-(3) give: every undirected edge of the result is
   reversible, i.e. with C12_pdag_sound_partial the result is the CPDAG. *)
Theorem C12_meek_component_parents_partial : forall g vars sord vr maxc A,
  wf_graph g -> acyclic g -> NoDup vars -> (forall v, In v vars <-> In v (nodes g)) ->
  (forall y, In y (nodes g) -> indeg g y <= maxc) ->
  pc_pdag vr (dsep_oracle g) maxc vars sord = Some A ->
  forall a b c, Dir A a b -> upath A b c -> Dir A a c /\ a <> c.
Proof. exact pc_pdag_component_parents. Qed.
Print Assumptions C12_meek_component_parents_partial.
