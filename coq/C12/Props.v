(* C12 property theorems.  Only statements, each closed by [exact] of a lemma proved in Finite.v / ToDag.v,
   with Print Assumptions underneath.

   Model:  C12/Model.v (PC.build_skeleton orig/stable/parallel, PC.skeleton_to_pdag, PDAG.to_dag,
           independence_match over get_independencies) with the ground truth's d-separation oracle
           [dsep_oracle g] = C08's model of DAG.is_dconnected (proved equal to the path definition in C08).
   Spec:   C12/Spec.v (Markov equivalence class by enumeration, CPDAG, consistent extension).

   NOT PROVED (full-strength statements, kept visible):
     forall g vr maxc vars sord, wf_graph g -> acyclic g -> Permutation vars (nodes g) ->
       Permutation sord (nodes g) -> max_degree g <= maxc ->
       skeleton_exactb g (build_skeleton vr (dsep_oracle g) maxc vars sord) = true
       /\ cpdag_exactb g vars (pc_pdag vr (dsep_oracle g) maxc vars sord) = true
     (exactness of the level-wise skeleton search, and soundness + completeness of the three
     propagation rules, for every number of nodes and every order).  Only the finite-domain versions
     below (<= 4 labelled nodes, the listed orders) are machine-checked; 5 nodes and random 6-8 node
     truths are covered by the correspondence run, not by a theorem.
     *)
From Coq Require Import List Bool Arith.
From PV Require Import Base.Reach Base.Graph C08.Model C12.Model C12.Spec C12.FiniteDefs C12.Finite C12.ToDag C12.VPhase.
Import ListNotations.

(* [F 4] every DAG on <= 4 labelled nodes, every variant, every node order, set order ascending/descending,
   every max_cond_vars from the maximum degree up: the skeleton is the truth's, every stored separating set
   belongs to a non-adjacent pair and d-separates it, every non-adjacent pair has one *)
Theorem C12_skeleton_exact_upto4 : forall n g vr maxc vars sord,
  n <= 4 -> In g (all_dags n) -> In (vars, sord) (orders n) -> In maxc (maxcs g) ->
  skeleton_exactb g (build_skeleton vr (dsep_oracle g) maxc vars sord) = true.
Proof. exact skeleton_exact_upto4. Qed.
Print Assumptions C12_skeleton_exact_upto4.

(* [F 4] the PDAG returned for return_type pdag/cpdag is the CPDAG of the truth's Markov equivalence class
   (arc u->v present iff some member has it: hence v-structures exact, every compelled edge oriented, no
   reversible edge oriented) and its directed part has no cycle *)
Theorem C12_cpdag_exact_upto4 : forall n g vr vars sord,
  n <= 4 -> In g (all_dags n) -> In (vars, sord) (orders n) ->
  cpdag_exactb g vars (pc_pdag vr (dsep_oracle g) n vars sord) = true.
Proof. exact cpdag_exact_upto4. Qed.
Print Assumptions C12_cpdag_exact_upto4.

(* [F 4] return_type dag: the sink-removal loop needs no fallback and returns an acyclic member of the class,
   for every node order of the PDAG object *)
Theorem C12_dag_member_upto4 : forall n g vr vars sord pord,
  n <= 4 -> In g (all_dags n) -> In (vars, sord) (orders n) -> In pord (perms (seq 0 n)) ->
  dag_memberb g (pc_dag vr (dsep_oracle g) n vars sord pord) = true.
Proof. exact dag_member_upto4. Qed.
Print Assumptions C12_dag_member_upto4.

(* regression witness of the repaired defect 6ec15dd (5 nodes): exact CPDAG, but with the sink test as it was
   before the fix (sym = false) to_dag takes the fallback and leaves the class; as coded now it does not *)
Theorem C12_to_dag_one_way_test_witness_5 :
  exists g vars sord pord A D,
    length (nodes g) = 5 /\ acyclicb g = true /\
    pc_pdag Stable (dsep_oracle g) 5 vars sord = Some A /\
    cpdag_exactb g vars (Some A) = true /\
    to_dag false (arc_nodes pord A) (canon_arcs pord A) = Some (D, true) /\
    mequivb g {| nodes := nodes g; edges := D |} = false /\
    dag_memberb g (pc_dag Stable (dsep_oracle g) 5 vars sord pord) = true.
Proof. exact to_dag_one_way_test_witness_5. Qed.
Print Assumptions C12_to_dag_one_way_test_witness_5.

(* [U] PDAG.to_dag: for EVERY partially directed graph (arcs over ns, no self loop), every node order and arc
   order, whenever the sink-removal loop finishes without the fallback the result is a consistent extension:
   acyclic, same skeleton, every directed edge kept, no new v-structure.  (sym = true is the code; PDAG.to_dag = to_dag true.)
   NOT PROVED: completeness (Dor & Tarsi: on every extendable PDAG the loop with the both-ways test never needs
   the fallback); it is computed for the CPDAGs of all DAGs on <= 4 nodes (C12_dag_member_upto4 includes
   "no fallback") and checked against brute-force extendability in the correspondence run. *)
Theorem C12_to_dag_invariants : forall sym ns A D,
  arcs_in ns A -> irrefl A ->
  to_dag sym ns A = Some (D, false) ->
  consistent_extension ns A D.
Proof. exact to_dag_invariants. Qed.
Print Assumptions C12_to_dag_invariants.

(* [U] v-structure phase of skeleton_to_pdag: given the truth's skeleton and correct separating sets (what the
   skeleton phase delivers with an exact oracle), for EVERY DAG and node order the arcs removed by phase 1 are
   exactly z -> x for the truth's unshielded colliders x -> z <- y: no spurious and no missing v-structure.
   (d-separation in [skeleton_ok] is C08's oracle, proved equal to the path definition.) *)
Theorem C12_vstructure_phase_sound : forall g vars E seps A,
  wf_graph g -> acyclic g -> skeleton_ok g vars E seps ->
  vphase vars E seps (to_directed E) = Some A ->
  forall z x, In (z, x) A <-> In (z, x) (to_directed E) /\ ~ exists y, ucollider g x z y.
Proof. exact vstructure_phase_sound. Qed.
Print Assumptions C12_vstructure_phase_sound.

(* not vacuous: a PDAG with undirected edges and a v-structure on which the loop succeeds *)
Theorem C12_to_dag_invariants_nonvacuous :
  let ns := [0; 1; 2; 3] in
  let A := [(0, 1); (1, 0); (1, 2); (2, 1); (0, 3); (2, 3)] in
  arcs_in ns A /\ irrefl A /\ exists D, to_dag true ns A = Some (D, false).
Proof. exact to_dag_invariants_nonvacuous. Qed.
Print Assumptions C12_to_dag_invariants_nonvacuous.
