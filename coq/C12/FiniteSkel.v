(* C12: skeleton exactness for all DAGs on <= 4 labelled nodes, by vm_compute *)
From Coq Require Import List Bool Arith PeanoNat Lia.
From PV Require Import Base.Reach Base.Graph C08.Model C12.Model C12.Spec C12.FiniteDefs.
Import ListNotations.

Definition chk_skel (n : nat) : bool :=
  forallb (fun g =>
    forallb (fun o : list node * list node =>
      forallb (fun maxc =>
        forallb (fun vr => skeleton_exactb g (build_skeleton vr (dsep_oracle g) maxc (fst o) (snd o))) variants)
        (maxcs g)) (orders n)) (all_dags n).


Lemma chk_skel_upto3 : forallb chk_skel [0; 1; 2; 3] = true.
Proof. vm_compute. reflexivity. Qed.
Lemma chk_skel_4 : chk_skel 4 = true.
Proof. vm_compute. reflexivity. Qed.
