(* C12 finite-domain checks: definitions (the computation is in FinitePdag.v).
   The bound (<= 4 labelled nodes) and the iteration orders exercised appear in every statement. *)
From Coq Require Import List Bool Arith PeanoNat Lia.
From PV Require Import Base.Reach Base.Graph C08.Model C12.Model C12.Spec.
Import ListNotations.

(* variants computed; Parallel is PROVED equal to Stable (Skeleton.pc_pdag_parallel_stable) *)
Definition variants : list variant := [Orig; Stable].
Definition rotl (k : nat) (l : list node) : list node := skipn k l ++ firstn k l.
(* iteration orders exercised: node order ascending / descending, Python-set order ascending / descending /
   rotated by one / by two.  (The finite-domain check is sized so that the independent checker coqchk, which does
   not use the VM, re-verifies it within the thorough tier; every 4-node truth is run under 8 hash seeds with random
   column and set orders, and 5-node truths exhaustively, by the correspondence part.) *)
Definition orders (n : nat) : list (list node * list node) :=
  list_prod [seq 0 n; rev (seq 0 n)] [seq 0 n; rev (seq 0 n); rotl 1 (seq 0 n); rotl 2 (seq 0 n)].

Definition arcs_eqb (A B : list arc) : bool :=
  forallb (fun e => harc B (fst e) (snd e)) A && forallb (fun e => harc A (fst e) (snd e)) B.

(* skeleton = the truth's; every stored set belongs to a non-adjacent pair and d-separates it (C08's oracle,
   proved equal to the path definition); every non-adjacent pair has a stored set *)
Definition skeleton_exactb (g : digraph) (r : option (list arc * sepmap)) : bool :=
  match r with
  | None => false
  | Some (E, seps) =>
      forallb (fun u => forallb (fun v => Bool.eqb (uadj E u v) (adjb g u v)) (nodes g)) (nodes g)
      && forallb (fun p : arc * list node =>
                    negb (adjb g (fst (fst p)) (snd (fst p))) && dsep_oracle g (fst (fst p)) (snd (fst p)) (snd p)) seps
      && forallb (fun p : arc =>
                    adjb g (fst p) (snd p) || match lookup seps (fst p) (snd p) with Some _ => true | None => false end)
                 (upairs (nodes g))
  end.

(* result = CPDAG of the class (as arc sets) and its strictly directed part is acyclic *)
Definition cpdag_exactb (g : digraph) (vars : list node) (r : option (list arc)) : bool :=
  match r with
  | None => false
  | Some A => arcs_eqb A (cpdag_arcs g) && acyclicb (dpart vars A)
  end.

(* the sink-removal loop finished without the arbitrary-orientation fallback and the result is an acyclic
   member of the truth's class *)
Definition dag_memberb (g : digraph) (r : option (list arc * bool)) : bool :=
  match r with
  | Some (D, fb) => negb fb && mequivb g {| nodes := nodes g; edges := D |}
  | None => false
  end.

