(* C12 model: pgmpy/estimators/PC.py (build_skeleton for orig/stable/parallel, skeleton_to_pdag),
   pgmpy/base/DAG.py PDAG.to_dag, CITests.independence_match over DAG.get_independencies — as
   coded in /repo now (after fix d85fe02: rule 2 tests non-adjacency both ways; after fix 6ec15dd: to_dag's
   sink test counts a directed parent of an undirected neighbour as adjacent; after fix ad4d524: rule 4 requires
   X, Y non-adjacent).
   Executable definitions only; no proofs here.

   Order parameters (Python set / dict / frozenset iteration, PYTHONHASHSEED):
     vars : node order of the networkx graph (= self.variables order).  It fixes graph.edges(),
            graph.neighbors(u) (adjacency insertion order of complete_graph) and
            permutations(pdag.nodes(), 2).
     sord : iteration order of Python sets of nodes (a list of all nodes; a set iterates as the
            sub-list of sord of its members).
     for to_dag: the node order and the arc order of the PDAG copy made inside to_dag. *)
From Coq Require Import List Bool Arith PeanoNat.
From PV Require Import Base.Reach Base.Graph C08.Model.
Import ListNotations.

Definition arc : Type := (node * node)%type.

(* ------------------------------------------------------------------ oracles *)
(* exact d-separation oracle of a ground-truth DAG (C08's verified model of is_dconnected) *)
Definition dsep_oracle (g : digraph) (x y : node) (Z : list node) : bool :=
  negb (is_dconnected g x y Z).

Definition subsetb (a b : list node) : bool := forallb (fun x => memn x b) a.
Definition seteqb (a b : list node) : bool := subsetb a b && subsetb b a.

(* DAG.get_independencies(): for each start and each observed subset Z of the others (|Z| < |rest|)
   one assertion (start _|_ D | Z) with D = rest - Z - active_trail_nodes(start, Z), when D <> {} *)
Definition dsep_set (g : digraph) (s : node) (Z : list node) : list node :=
  let act := active_trail_nodes g s Z in
  filter (fun v => negb (Nat.eqb v s) && negb (memn v Z) && negb (memn v act)) (nodes g).

(* independence_match(X, Y, Z, independencies = g.get_independencies()):
   IndependenceAssertion(X,Y,Z) in list  <=>  some listed assertion has event3 = Z and
   (event1,event2) = ({X},{Y}) or ({Y},{X}) — a syntactic test, no decomposition *)
Definition im_oracle (g : digraph) (x y : node) (Z : list node) : bool :=
  seteqb (dsep_set g x Z) [y] || seteqb (dsep_set g y Z) [x].

Fixpoint sublists (l : list node) : list (list node) :=
  match l with [] => [[]] | x :: r => sublists r ++ map (cons x) (sublists r) end.

(* Independencies.get_all_variables(): every node occurring in some listed assertion *)
Definition im_vars (g : digraph) : list node :=
  filter (fun v =>
    existsb (fun s =>
      existsb (fun Z =>
        let D := dsep_set g s Z in
        negb (memn s Z) && match D with [] => false | _ => Nat.eqb v s || memn v Z || memn v D end)
        (sublists (nodes g))) (nodes g)) (nodes g).

(* ------------------------------------------------------------------ undirected working graph *)
Definition ueqb (a b : arc) : bool := edge_eqb a b || edge_eqb a (snd b, fst b).
Definition uadj (E : list arc) (u v : node) : bool := existsb (ueqb (u, v)) E.
Definition uremove (E : list arc) (u v : node) : list arc := filter (fun e => negb (ueqb (u, v) e)) E.
(* graph.neighbors(u): adjacency dict order = node order (complete_graph inserts combinations(nodes,2)) *)
Definition nbrs (vars : list node) (E : list arc) (u : node) : list node := filter (fun v => uadj E u v) vars.

(* iteration order of a Python set holding the members of S *)
Definition setord (sord cs : list node) : list node :=
  filter (fun x => memn x cs) sord ++ filter (fun x => negb (memn x sord)) (dedup cs).

(* itertools.combinations(l, k) *)
Fixpoint combs (l : list node) (k : nat) {struct l} : list (list node) :=
  match k with
  | 0 => [[]]
  | S k' => match l with
            | [] => []
            | x :: r => map (cons x) (combs r k') ++ combs r (S k')
            end
  end.

Definition sepmap : Type := list (arc * list node).
Definition lookup (m : sepmap) (x y : node) : option (list node) :=
  match find (fun p => ueqb (x, y) (fst p)) m with Some p => Some (snd p) | None => None end.
(* dict assignment separating_sets[frozenset((u,v))] = S *)
Definition sep_set (m : sepmap) (u v : node) (cs : list node) : sepmap :=
  if existsb (fun p => ueqb (u, v) (fst p)) m
  then map (fun p => if ueqb (u, v) (fst p) then (fst p, cs) else p) m
  else m ++ [((u, v), cs)].

(* chain(combinations(set(N(u)) - {v}, lim), combinations(set(N(v)) - {u}, lim)): first set passing ci_test *)
Definition find_sep (indep : node -> node -> list node -> bool) (sord : list node) (lim : nat)
    (nbf : node -> list node) (u v : node) : option (list node) :=
  find (fun cs => indep u v cs)
    (combs (setord sord (remove1 v (nbf u))) lim ++ combs (setord sord (remove1 u (nbf v))) lim).

Inductive variant := Orig | Stable | Parallel.

(* one pass "for u, v in graph.edges()" at conditioning size lim *)
Definition level_pass (vr : variant) (indep : node -> node -> list node -> bool)
    (vars sord : list node) (lim : nat) (E : list arc) (seps : sepmap) : list arc * sepmap :=
  match vr with
  | Orig =>   (* neighbours read from the live graph; graph.edges() is traversed while edges are removed *)
      fold_left (fun (st : list arc * sepmap) (e : arc) =>
                   let (Ec, sp) := st in
                   let (u, v) := e in
                   match find_sep indep sord lim (nbrs vars Ec) u v with
                   | Some cs => (uremove Ec u v, sep_set sp u v cs)
                   | None => st
                   end) E (E, seps)
  | Stable => (* neighbours precomputed at the start of the level *)
      fold_left (fun (st : list arc * sepmap) (e : arc) =>
                   let (Ec, sp) := st in
                   let (u, v) := e in
                   match find_sep indep sord lim (nbrs vars E) u v with
                   | Some cs => (uremove Ec u v, sep_set sp u v cs)
                   | None => st
                   end) E (E, seps)
  | Parallel => (* all edges tested on the unchanged graph, removals applied afterwards *)
      let results := map (fun e : arc => (e, find_sep indep sord lim (nbrs vars E) (fst e) (snd e))) E in
      fold_left (fun (st : list arc * sepmap) (r : arc * option (list node)) =>
                   let (Ec, sp) := st in
                   match snd r with
                   | Some cs => (uremove Ec (fst (fst r)) (snd (fst r)), sep_set sp (fst (fst r)) (snd (fst r)) cs)
                   | None => st
                   end) results (E, seps)
  end.

(* while not all(len(neighbors(var)) < lim for var in variables): pass; if lim >= max_cond_vars: break; lim += 1 *)
Fixpoint sk_loop (fuel : nat) (vr : variant) (indep : node -> node -> list node -> bool)
    (maxc : nat) (vars sord : list node) (lim : nat) (E : list arc) (seps : sepmap)
    : option (list arc * sepmap) :=
  match fuel with
  | 0 => None
  | S f =>
      if forallb (fun v => Nat.ltb (length (nbrs vars E v)) lim) vars then Some (E, seps)
      else
        let (E', seps') := level_pass vr indep vars sord lim E seps in
        if Nat.leb maxc lim then Some (E', seps')
        else sk_loop f vr indep maxc vars sord (S lim) E' seps'
  end.

(* build_skeleton: complete graph on vars (edges in graph.edges() order), lim_neighbors = 0 *)
Definition build_skeleton (vr : variant) (indep : node -> node -> list node -> bool) (maxc : nat)
    (vars sord : list node) : option (list arc * sepmap) :=
  sk_loop (S (S (length vars))) vr indep maxc vars sord 0 (pairs vars) [].

(* ------------------------------------------------------------------ skeleton_to_pdag *)
Definition harc (A : list arc) (u v : node) : bool := existsb (edge_eqb (u, v)) A.
Definition rarc (A : list arc) (u v : node) : list arc := filter (fun e => negb (edge_eqb (u, v) e)) A.
Definition dchild (A : list arc) (x y : node) : bool := harc A x y && negb (harc A y x).   (* y in succ(x) - pred(x) *)
Definition unbr (A : list arc) (x y : node) : bool := harc A x y && harc A y x.            (* y in succ(x) & pred(x) *)
(* permutations(nodes, 2) *)
Definition npairs (vars : list node) : list arc := flat_map (fun x => map (pair x) (remove1 x vars)) vars.
(* skeleton.to_directed() *)
Definition to_directed (E : list arc) : list arc := flat_map (fun e => [e; (snd e, fst e)]) E.

(* 1) unshielded triples X - Z - Y with Z not in sepset(X,Y): remove Z->X, Z->Y.  None = KeyError *)
Definition vphase (vars : list node) (E : list arc) (seps : sepmap) (A0 : list arc) : option (list arc) :=
  fold_left (fun (oA : option (list arc)) (p : arc) =>
               match oA with
               | None => None
               | Some A =>
                   let (x, y) := p in
                   if uadj E x y then Some A
                   else match filter (fun z => uadj E x z && uadj E y z) vars with
                        | [] => Some A
                        | common =>
                            match lookup seps x y with
                            | None => None
                            | Some cs => Some (fold_left (fun A z => if memn z cs then A else rarc (rarc A z x) z y) common A)
                            end
                        end
               end) (npairs vars) (Some A0).

(* 2) X -> Z - Y with X, Y non-adjacent (both arcs absent): Z -> Y *)
Definition rule2_pass (vars : list node) (A : list arc) : list arc :=
  fold_left (fun A (p : arc) =>
               let (x, y) := p in
               if negb (harc A x y) && negb (harc A y x)
               then fold_left (fun A z => rarc A y z) (filter (fun z => dchild A x z && unbr A y z) vars) A
               else A) (npairs vars) A.

(* strictly directed part, for "some simple path X..Y all of whose arcs have no reverse arc" *)
Definition dpart (vars : list node) (A : list arc) : digraph :=
  {| nodes := vars; edges := filter (fun e => negb (harc A (snd e) (fst e))) A |}.
(* 3) X - Y with a directed path X ~> Y: X -> Y *)
Definition rule3_pass (vars : list node) (A : list arc) : list arc :=
  fold_left (fun A (p : arc) =>
               let (x, y) := p in
               if harc A y x && harc A x y && has_path (dpart vars A) x y then rarc A y x else A)
            (npairs vars) A.

(* 4) X - Z - Y with X, Y non-adjacent, X -> W <- Y, Z - W: Z -> W   (Meek's rule 3; the non-adjacency test is
   fix ad4d524) *)
Definition rule4_pass (vars sord : list node) (A : list arc) : list arc :=
  fold_left (fun A (p : arc) =>
               let (x, y) := p in
               if harc A x y || harc A y x then A
               else
               fold_left (fun A z =>
                            fold_left (fun A w => rarc A w z)
                                      (filter (fun w => dchild A x w && dchild A y w && unbr A z w) vars) A)
                         (setord sord (filter (fun z => unbr A x z && unbr A y z) vars)) A)
            (npairs vars) A.

Fixpoint orient_loop (fuel : nat) (vars sord : list node) (A : list arc) : list arc :=
  match fuel with
  | 0 => A
  | S f =>
      let A' := rule4_pass vars sord (rule3_pass vars (rule2_pass vars A)) in
      if Nat.ltb (length A') (length A) then orient_loop f vars sord A' else A'
  end.

(* skeleton_to_pdag(skeleton, separating_sets): arc set of the returned PDAG (X - Y as both arcs) *)
Definition skeleton_to_pdag (vars sord : list node) (E : list arc) (seps : sepmap) : option (list arc) :=
  match vphase vars E seps (to_directed E) with
  | None => None
  | Some A => Some (orient_loop (S (length A)) vars sord A)
  end.

(* nodes of the PDAG object: only nodes carrying an edge (estimate() adds the remaining data
   columns when data is given; with independencies only, isolated nodes are absent) *)
Definition arc_nodes (vars : list node) (A : list arc) : list node :=
  filter (fun v => existsb (fun e => Nat.eqb (fst e) v || Nat.eqb (snd e) v) A) vars.

(* ------------------------------------------------------------------ PDAG.to_dag *)
Definition preds (ns : list node) (A : list arc) (x : node) : list node := filter (fun y => harc A y x) ns.
Definition del_node (x : node) (A : list arc) : list arc :=
  filter (fun e => negb (Nat.eqb (fst e) x) && negb (Nat.eqb (snd e) x)) A.
Definition add_arc (d : list arc) (e : arc) : list arc := if harc d (fst e) (snd e) then d else d ++ [e].

(* the test of the sink-removal loop.  sym = true is the code now (fix 6ec15dd: every undirected neighbour Y
   of X must be adjacent, in either direction, to every other predecessor Z of X); sym = false is the test
   before that fix (has_edge(Y, Z) only), kept for the regression witness in Finite.v *)
Definition sinkok (sym : bool) (ns : list node) (A : list arc) (x : node) : bool :=
  forallb (fun y => negb (dchild A x y)) ns
  && (forallb (fun y => negb (unbr A x y)) ns
      || forallb (fun z => forallb (fun y => negb (unbr A x y) || Nat.eqb y z || harc A y z || (sym && harc A z y)) ns)
                 (preds ns A x)).

(* result: None = out of fuel (never with fuel = S (length ns)); Some (dag arcs, fallback taken) *)
Fixpoint to_dag_loop (fuel : nat) (sym : bool) (ns : list node) (A dag : list arc) : option (list arc * bool) :=
  match ns with
  | [] => Some (dag, false)
  | _ =>
      match fuel with
      | 0 => None
      | S f =>
          match find (sinkok sym ns A) ns with
          | Some x => to_dag_loop f sym (remove1 x ns) (del_node x A)
                                  (fold_left add_arc (map (fun y => (y, x)) (preds ns A x)) dag)
          | None =>   (* remaining PDAG edges oriented arbitrarily: first direction met in pdag.edges() *)
              Some (fold_left (fun d (e : arc) => if harc d (snd e) (fst e) then d else add_arc d e) A dag, true)
          end
      end
  end.

Definition directed_arcs (A : list arc) : list arc := filter (fun e => negb (harc A (snd e) (fst e))) A.

(* ns: pdag.copy().nodes() order; A: pdag.copy().edges() order (X - Y present as both arcs).
   PDAG.to_dag() is [to_dag true]. *)
Definition to_dag (sym : bool) (ns : list node) (A : list arc) : option (list arc * bool) :=
  to_dag_loop (S (length ns)) sym ns A (fold_left add_arc (directed_arcs A) []).

(* ------------------------------------------------------------------ PC.estimate *)
(* None = the level loop ran out of fuel (never) or KeyError in the v-structure phase *)
Definition pc_pdag (vr : variant) (indep : node -> node -> list node -> bool) (maxc : nat)
    (vars sord : list node) : option (list arc) :=
  match build_skeleton vr indep maxc vars sord with
  | None => None
  | Some (E, seps) => skeleton_to_pdag vars sord E seps
  end.

(* canonical orders of the PDAG object for the in-model composition: nodes in vars order, arcs sorted
   by (position of tail, position of head) *)
Definition canon_arcs (vars : list node) (A : list arc) : list arc :=
  flat_map (fun x => map (pair x) (filter (fun y => harc A x y) vars)) vars.

Definition pc_dag (vr : variant) (indep : node -> node -> list node -> bool) (maxc : nat)
    (vars sord pord : list node) : option (list arc * bool) :=
  match pc_pdag vr indep maxc vars sord with
  | None => None
  | Some A => to_dag true (arc_nodes pord A) (canon_arcs pord A)
  end.
