(* C12: PC.skeleton_to_pdag with rule 4 as it was BEFORE fix ad4d524 (no "X and Y non-adjacent" test).  Not the
   code in /repo: used only by the regression example Refuted6.v (the former 6-node witness). *)
From Coq Require Import List Bool Arith PeanoNat.
From PV Require Import Base.Reach Base.Graph C08.Model C12.Model.
Import ListNotations.

Definition rule4_pass_prefix (vars sord : list node) (A : list arc) : list arc :=
  fold_left (fun A (p : arc) =>
               let (x, y) := p in
               fold_left (fun A z =>
                            fold_left (fun A w => rarc A w z)
                                      (filter (fun w => dchild A x w && dchild A y w && unbr A z w) vars) A)
                         (setord sord (filter (fun z => unbr A x z && unbr A y z) vars)) A)
            (npairs vars) A.

Fixpoint orient_loop_prefix (fuel : nat) (vars sord : list node) (A : list arc) : list arc :=
  match fuel with
  | 0 => A
  | S f =>
      let A' := rule4_pass_prefix vars sord (rule3_pass vars (rule2_pass vars A)) in
      if Nat.ltb (length A') (length A) then orient_loop_prefix f vars sord A' else A'
  end.

Definition skeleton_to_pdag_prefix (vars sord : list node) (E : list arc) (seps : sepmap) : option (list arc) :=
  match vphase vars E seps (to_directed E) with
  | None => None
  | Some A => Some (orient_loop_prefix (S (length A)) vars sord A)
  end.

Definition pc_pdag_prefix (vr : variant) (indep : node -> node -> list node -> bool) (maxc : nat)
    (vars sord : list node) : option (list arc) :=
  match build_skeleton vr indep maxc vars sord with
  | None => None
  | Some (E, seps) => skeleton_to_pdag_prefix vars sord E seps
  end.
