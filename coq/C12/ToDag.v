(* C12, unbounded: whenever PDAG.to_dag's sink-removal loop terminates WITHOUT the arbitrary-orientation
   fallback, its output is a consistent extension of the input PDAG (acyclic, same skeleton, every directed
   edge kept, no new v-structure) — for every partially directed graph, every node/arc order, and for the
   clique test as coded now (sym = true) as well as the one before fix 6ec15dd (sym = false). *)
From Coq Require Import List Bool Arith PeanoNat Lia.
From PV Require Import Base.Reach Base.Graph C08.Model C12.Model C12.Spec.
Import ListNotations.

Definition arcs_in (ns : list node) (A : list arc) : Prop := forall u v, In (u, v) A -> In u ns /\ In v ns.
Definition irrefl (A : list arc) : Prop := forall u, ~ In (u, u) A.

Lemma harc_In A u v : harc A u v = true <-> In (u, v) A.
Proof.
  unfold harc. rewrite existsb_exists. split.
  - intros [e [He Hq]]. apply edge_eqb_eq in Hq. subst. exact He.
  - intros H. exists (u, v). split; [exact H|apply edge_eqb_eq; reflexivity].
Qed.
Lemma harc_false A u v : harc A u v = false <-> ~ In (u, v) A.
Proof.
  split; intros H.
  - intros Hi. apply harc_In in Hi. congruence.
  - destruct (harc A u v) eqn:E; [|reflexivity]. apply harc_In in E. contradiction.
Qed.

Lemma In_del_node x A u v : In (u, v) (del_node x A) <-> In (u, v) A /\ u <> x /\ v <> x.
Proof.
  unfold del_node. rewrite filter_In. simpl. rewrite andb_true_iff, !negb_true_iff, !Nat.eqb_neq. tauto.
Qed.
Lemma In_remove1 x l y : In y (remove1 x l) <-> In y l /\ y <> x.
Proof. unfold remove1. rewrite filter_In, negb_true_iff, Nat.eqb_neq. tauto. Qed.
Lemma In_preds ns A x y : In y (preds ns A x) <-> In y ns /\ In (y, x) A.
Proof. unfold preds. rewrite filter_In, harc_In. tauto. Qed.

Lemma add_arc_In d e e' : In e' (add_arc d e) <-> In e' d \/ e' = e.
Proof.
  unfold add_arc. destruct (harc d (fst e) (snd e)) eqn:E.
  - apply harc_In in E. rewrite <- surjective_pairing in E. split; [tauto|]. intros [H|H]; [exact H|subst; exact E].
  - rewrite in_app_iff. simpl. split; [intros [H|[H|[]]]; auto|intros [H|H]; auto].
Qed.
Lemma fold_add_In l : forall d e, In e (fold_left add_arc l d) <-> In e d \/ In e l.
Proof.
  induction l as [|a l IH]; intros d e; simpl.
  - tauto.
  - rewrite IH, add_arc_In. split; [intros [[H|H]|H]; auto|intros [H|[H|H]]; auto].
Qed.

(* what the sink test gives *)
Lemma sinkok_facts sym ns A x :
  sinkok sym ns A x = true ->
  (forall y, In y ns -> In (x, y) A -> In (y, x) A) /\
  ((forall y, In y ns -> ~ (In (x, y) A /\ In (y, x) A)) \/
   (forall z y, In z ns -> In (z, x) A -> In y ns -> In (x, y) A -> In (y, x) A -> y <> z ->
                In (y, z) A \/ In (z, y) A)).
Proof.
  unfold sinkok. rewrite andb_true_iff, orb_true_iff. intros [H1 H2]. split.
  - intros y Hy Hxy. rewrite forallb_forall in H1. specialize (H1 y Hy).
    unfold dchild in H1. apply negb_true_iff in H1. apply andb_false_iff in H1.
    destruct H1 as [H1|H1].
    + apply harc_false in H1. contradiction.
    + apply negb_false_iff in H1. apply harc_In in H1. exact H1.
  - destruct H2 as [H2|H2]; [left|right].
    + intros y Hy [Ha Hb]. rewrite forallb_forall in H2. specialize (H2 y Hy).
      unfold unbr in H2. apply negb_true_iff, andb_false_iff in H2.
      destruct H2 as [H2|H2]; apply harc_false in H2; contradiction.
    + intros z y Hz Hzx Hy Hxy Hyx Hne. rewrite forallb_forall in H2.
      assert (Hp : In z (preds ns A x)) by (apply In_preds; split; assumption).
      specialize (H2 z Hp). rewrite forallb_forall in H2. specialize (H2 y Hy).
      rewrite !orb_true_iff in H2. destruct H2 as [[[H2|H2]|H2]|H2].
      * unfold unbr in H2. apply negb_true_iff, andb_false_iff in H2.
        destruct H2 as [H2|H2]; apply harc_false in H2; contradiction.
      * apply Nat.eqb_eq in H2. contradiction.
      * left. apply harc_In. exact H2.
      * apply andb_true_iff in H2. right. apply harc_In. exact (proj2 H2).
Qed.

Definition gr (R : list arc) : digraph := {| nodes := []; edges := R |}.

Lemma dpath_edges_incl g h u v :
  (forall e, In e (edges g) -> In e (edges h)) -> dpath g u v -> dpath h u v.
Proof.
  intros Hi H. induction H as [u|u v w _ IH He].
  - apply dpath_refl.
  - eapply dpath_step; [exact IH|]. apply Hi. exact He.
Qed.

(* the arcs added by a successful run of the loop *)
Record good (A R : list arc) : Prop := {
  g_sub : forall u v, In (u, v) R -> In (u, v) A;
  g_cover : forall u v, In (u, v) A -> In (u, v) R \/ In (v, u) R;
  g_acyclic : forall u v, In (u, v) R -> ~ dpath (gr R) v u;
  g_vs : forall a b c, In (a, c) R -> In (b, c) R -> a <> b -> ~ (In (a, b) A \/ In (b, a) A) ->
                       (In (a, c) A /\ ~ In (c, a) A) /\ (In (b, c) A /\ ~ In (c, b) A)
}.

Lemma sink_stays (R : list arc) x a b :
  (forall w, ~ In (x, w) R) -> dpath (gr R) a b -> a = x -> b = x.
Proof.
  intros Hs H. induction H as [u|u v w _ IH He]; intros Hu.
  - exact Hu.
  - specialize (IH Hu). subst v. simpl in He. exfalso. exact (Hs w He).
Qed.

Lemma good_step sym ns A x R' :
  arcs_in ns A -> irrefl A -> In x ns -> sinkok sym ns A x = true ->
  good (del_node x A) R' ->
  good A (map (fun y => (y, x)) (preds ns A x) ++ R').
Proof.
  intros Hin Hirr Hx Hs [Hsub Hcov Hacy Hvs].
  destruct (sinkok_facts sym ns A x Hs) as [S1 S2].
  set (Rx := map (fun y => (y, x)) (preds ns A x)).
  assert (HRx : forall u v, In (u, v) Rx <-> v = x /\ In u ns /\ In (u, x) A).
  { intros u v. unfold Rx. rewrite in_map_iff. split.
    - intros [y [Hy Hp]]. inversion Hy; subst. apply In_preds in Hp. tauto.
    - intros [-> [Hu Hux]]. exists u. split; [reflexivity|]. apply In_preds. tauto. }
  assert (HR'x : forall u v, In (u, v) R' -> In (u, v) A /\ u <> x /\ v <> x).
  { intros u v H. apply Hsub in H. apply In_del_node in H. exact H. }
  assert (Hsink : forall w, ~ In (x, w) (Rx ++ R')).
  { intros w H. apply in_app_or in H. destruct H as [H|H].
    - apply HRx in H. destruct H as [-> [_ H]]. exact (Hirr x H).
    - apply HR'x in H. tauto. }
  constructor.
  - (* sub *)
    intros u v H. apply in_app_or in H. destruct H as [H|H].
    + apply HRx in H. destruct H as [-> [_ H]]. exact H.
    + apply HR'x in H. tauto.
  - (* cover *)
    intros u v H. destruct (Hin u v H) as [Hu Hv].
    destruct (Nat.eq_dec v x) as [->|Hvx].
    + left. apply in_or_app. left. apply HRx. tauto.
    + destruct (Nat.eq_dec u x) as [->|Hux].
      * right. apply in_or_app. left. apply HRx. split; [reflexivity|]. split; [exact Hv|]. apply S1; assumption.
      * assert (Hd : In (u, v) (del_node x A)) by (apply In_del_node; tauto).
        destruct (Hcov u v Hd) as [Hc|Hc]; [left|right]; apply in_or_app; right; exact Hc.
  - (* acyclic *)
    intros u v H Hp. apply in_app_or in H. destruct H as [H|H].
    + apply HRx in H. destruct H as [-> [_ H]].
      assert (u = x) by (eapply sink_stays; [exact Hsink|exact Hp|reflexivity]).
      subst u. exact (Hirr x H).
    + pose proof (HR'x u v H) as [_ [Hux Hvx]].
      (* the path v ~> u avoids x, hence lives in R' *)
      assert (Hav : forall a b, dpath (gr (Rx ++ R')) a b -> b <> x -> dpath (gr R') a b).
      { intros a b Hab. induction Hab as [a|a b c Hab IH He]; intros Hb.
        - apply dpath_refl.
        - simpl in He. apply in_app_or in He. destruct He as [He|He].
          + apply HRx in He. tauto.
          + pose proof (HR'x b c He) as [_ [Hbx _]].
            eapply dpath_step; [apply IH; exact Hbx|exact He]. }
      exact (Hacy u v H (Hav v u Hp Hux)).
  - (* no new v-structure *)
    intros a b c Ha Hb Hab Hnadj.
    apply in_app_or in Ha. apply in_app_or in Hb.
    destruct (Nat.eq_dec c x) as [->|Hcx].
    + assert (Hax : In a ns /\ In (a, x) A).
      { destruct Ha as [Ha|Ha]; [apply HRx in Ha; tauto|apply HR'x in Ha; tauto]. }
      assert (Hbx : In b ns /\ In (b, x) A).
      { destruct Hb as [Hb|Hb]; [apply HRx in Hb; tauto|apply HR'x in Hb; tauto]. }
      destruct Hax as [Han Hax]. destruct Hbx as [Hbn Hbx].
      split; (split; [assumption|]); intros Hrev.
      * destruct S2 as [S2|S2].
        -- exact (S2 a Han (conj Hrev Hax)).
        -- destruct (S2 b a Hbn Hbx Han Hrev Hax Hab) as [H|H]; apply Hnadj; tauto.
      * destruct S2 as [S2|S2].
        -- exact (S2 b Hbn (conj Hrev Hbx)).
        -- assert (Hba : b <> a) by congruence.
           destruct (S2 a b Han Hax Hbn Hrev Hbx Hba) as [H|H]; apply Hnadj; tauto.
    + assert (Ha' : In (a, c) R') by (destruct Ha as [Ha|Ha]; [apply HRx in Ha; tauto|exact Ha]).
      assert (Hb' : In (b, c) R') by (destruct Hb as [Hb|Hb]; [apply HRx in Hb; tauto|exact Hb]).
      pose proof (HR'x a c Ha') as [_ [Hax _]]. pose proof (HR'x b c Hb') as [_ [Hbx _]].
      assert (Hn' : ~ (In (a, b) (del_node x A) \/ In (b, a) (del_node x A))).
      { intros [H|H]; apply In_del_node in H; apply Hnadj; tauto. }
      destruct (Hvs a b c Ha' Hb' Hab Hn') as [[H1 H2] [H3 H4]].
      apply In_del_node in H1. apply In_del_node in H3.
      split; split; try tauto.
      * intros H. apply H2. apply In_del_node. tauto.
      * intros H. apply H4. apply In_del_node. tauto.
Qed.

Lemma arcs_in_del ns A x : arcs_in ns A -> arcs_in (remove1 x ns) (del_node x A).
Proof.
  intros H u v Huv. apply In_del_node in Huv. destruct Huv as [Huv [Hu Hv]].
  destruct (H u v Huv). split; apply In_remove1; tauto.
Qed.
Lemma irrefl_del A x : irrefl A -> irrefl (del_node x A).
Proof. intros H u Hu. apply In_del_node in Hu. exact (H u (proj1 Hu)). Qed.

(* invariant of the sink-removal loop *)
Lemma loop_good : forall fuel sym ns A dag out,
  arcs_in ns A -> irrefl A ->
  to_dag_loop fuel sym ns A dag = Some (out, false) ->
  exists R, (forall e, In e out <-> In e dag \/ In e R) /\ good A R.
Proof.
  induction fuel as [|f IH]; intros sym ns A dag out Hin Hirr H.
  - destruct ns as [|n0 ns]; simpl in H; [|discriminate].
    inversion H; subst. exists []. split; [intros e; simpl; tauto|].
    constructor; simpl; try tauto.
    intros u v Huv. destruct (Hin u v Huv) as [[] _].
  - destruct ns as [|n0 ns].
    + simpl in H. inversion H; subst. exists []. split; [intros e; simpl; tauto|].
      constructor; simpl; try tauto.
      intros u v Huv. destruct (Hin u v Huv) as [[] _].
    + remember (n0 :: ns) as ns0 eqn:Ens. simpl in H. rewrite Ens in H at 1.
      destruct (find (sinkok sym ns0 A) ns0) as [x|] eqn:Ef.
      * apply find_some in Ef. destruct Ef as [Hx Hs].
        apply IH in H; [|apply arcs_in_del; exact Hin|apply irrefl_del; exact Hirr].
        destruct H as [R' [Hout Hg]].
        exists (map (fun y => (y, x)) (preds ns0 A x) ++ R'). split.
        -- intros e. rewrite Hout, fold_add_In, in_app_iff. tauto.
        -- eapply good_step; eassumption.
      * inversion H.
Qed.

Lemma directed_arcs_In A u v : In (u, v) (directed_arcs A) <-> In (u, v) A /\ ~ In (v, u) A.
Proof. unfold directed_arcs. rewrite filter_In. simpl. rewrite negb_true_iff, harc_false. tauto. Qed.

Theorem to_dag_invariants : forall sym ns A D,
  arcs_in ns A -> irrefl A ->
  to_dag sym ns A = Some (D, false) ->
  consistent_extension ns A D.
Proof.
  intros sym ns A D Hin Hirr H. unfold to_dag in H.
  apply loop_good in H; [|exact Hin|exact Hirr].
  destruct H as [R [Hout [Hsub Hcov Hacy Hvs]]].
  assert (HD : forall u v, In (u, v) D <-> In (u, v) R).
  { intros u v. rewrite Hout, fold_add_In. simpl. split.
    - intros [[[]|H]|H]; [|exact H]. apply directed_arcs_In in H. destruct H as [H1 H2].
      destruct (Hcov u v H1) as [Hc|Hc]; [exact Hc|]. apply Hsub in Hc. contradiction.
    - tauto. }
  constructor.
  - intros u v He Hp. simpl in He. apply HD in He.
    apply (Hacy u v He). eapply dpath_edges_incl; [|exact Hp].
    simpl. intros [a b] Hab. apply HD. exact Hab.
  - intros u v. unfold pd_adjacent. rewrite !HD. split.
    + intros [H|H]; apply Hsub in H; tauto.
    + intros [H|H]; apply Hcov in H; tauto.
  - intros u v [H1 H2]. unfold pd_directed. rewrite !HD.
    destruct (Hcov u v H1) as [Hc|Hc].
    + split; [exact Hc|]. intros Hr. apply Hsub in Hr. contradiction.
    + apply Hsub in Hc. contradiction.
  - intros a b c Ha Hb Hab Hn. apply HD in Ha. apply HD in Hb.
    unfold pd_adjacent in Hn. destruct (Hvs a b c Ha Hb Hab Hn) as [[H1 H2] [H3 H4]].
    unfold pd_directed. tauto.
Qed.

(* non-vacuity: a PDAG with undirected edges on which the loop succeeds without the fallback *)
Example to_dag_invariants_nonvacuous :
  let ns := [0; 1; 2; 3] in
  let A := [(0, 1); (1, 0); (1, 2); (2, 1); (0, 3); (2, 3)] in
  arcs_in ns A /\ irrefl A /\ exists D, to_dag true ns A = Some (D, false).
Proof.
  cbv zeta. split; [|split].
  - intros u v H. simpl in H.
    repeat (destruct H as [H|H]; [inversion H; subst; simpl; tauto|]). destruct H.
  - intros u H. simpl in H. repeat (destruct H as [H|H]; [inversion H; lia|]). destruct H.
  - eexists. vm_compute. reflexivity.
Qed.
