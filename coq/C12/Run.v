(* C12 entry points for the extracted driver: sx -> sx *)
From Coq Require Import List Bool Arith ZArith.
From PV Require Import Base.Sx Base.Graph C08.Model C12.Model C12.Spec.
Import ListNotations.

Definition dec_graph (sn se : sx) : option digraph :=
  match sx_list sx_nat sn, sx_list (sx_pair sx_nat sx_nat) se with
  | Some ns, Some es => Some {| nodes := ns; edges := es |}
  | _, _ => None
  end.
Definition dec_arcs (s : sx) : option (list arc) := sx_list (sx_pair sx_nat sx_nat) s.
Definition dec_variant (s : sx) : option variant :=
  match sx_nat s with
  | Some 0 => Some Orig | Some 1 => Some Stable | Some 2 => Some Parallel | _ => None
  end.
Definition of_arcs (A : list arc) : sx := of_list (of_pair of_nat of_nat) A.
Definition of_seps (m : sepmap) : sx :=
  of_list (fun p : arc * list node => SL [of_nat (fst (fst p)); of_nat (snd (fst p)); of_list of_nat (snd p)]) m.
Definition dec_seps (s : sx) : option sepmap :=
  sx_list (fun t => match sx_triple sx_nat sx_nat (sx_list sx_nat) t with
                    | Some (u, v, cs) => Some ((u, v), cs) | None => None end) s.

(* [nodes edges oracle variant maxc vars sord] -> [skeleton edges; separating sets; [pdag arcs] | []]
   oracle: 0 = d-separation of the DAG, 1 = independence_match over get_independencies().
   error 1 = level loop out of fuel (never) *)
Definition run_c12_pc (s : sx) : sx :=
  match s with
  | SL [sn; se; so; sv; sm; svars; ssord] =>
      match dec_graph sn se, sx_nat so, dec_variant sv, sx_nat sm, sx_list sx_nat svars, sx_list sx_nat ssord with
      | Some g, Some o, Some vr, Some maxc, Some vars, Some sord =>
          let indep := match o with 0 => dsep_oracle g | _ => im_oracle g end in
          match build_skeleton vr indep maxc vars sord with
          | None => sx_err 1
          | Some (E, seps) =>
              sx_ok (SL [of_arcs E; of_seps seps; of_option of_arcs (skeleton_to_pdag vars sord E seps)])
          end
      | _, _, _, _, _, _ => bad_request
      end
  | _ => bad_request
  end.

(* exactness class of the independence_match oracle: variables complete and im = d-separation on
   every query (x, y, Z) with Z a subset of the other nodes *)
Definition im_exact (g : digraph) : bool :=
  seteqb (im_vars g) (nodes g)
  && forallb (fun x => forallb (fun y =>
        Nat.eqb x y || forallb (fun Z => memn x Z || memn y Z || Bool.eqb (im_oracle g x y Z) (dsep_oracle g x y Z))
                               (sublists (nodes g))) (nodes g)) (nodes g).

(* [nodes edges] -> [CPDAG arcs of the class (spec, by enumeration); im_vars; im_exact] *)
Definition run_c12_spec (s : sx) : sx :=
  match s with
  | SL [sn; se] =>
      match dec_graph sn se with
      | Some g => sx_ok (SL [of_arcs (cpdag_arcs g); of_list of_nat (im_vars g); of_bool (im_exact g)])
      | None => bad_request
      end
  | _ => bad_request
  end.

(* [nodes edges] -> [im_vars; im_exact]  (cheap part of the above, for larger graphs) *)
Definition run_c12_imclass (s : sx) : sx :=
  match s with
  | SL [sn; se] =>
      match dec_graph sn se with
      | Some g => sx_ok (SL [of_list of_nat (im_vars g); of_bool (im_exact g)])
      | None => bad_request
      end
  | _ => bad_request
  end.

(* [vars sord skeleton-edges seps] -> [[arcs]] | [] (KeyError) : the static method skeleton_to_pdag *)
Definition run_c12_s2p (s : sx) : sx :=
  match s with
  | SL [svars; ssord; se; ss] =>
      match sx_list sx_nat svars, sx_list sx_nat ssord, dec_arcs se, dec_seps ss with
      | Some vars, Some sord, Some E, Some seps => sx_ok (of_option of_arcs (skeleton_to_pdag vars sord E seps))
      | _, _, _, _ => bad_request
      end
  | _ => bad_request
  end.

(* [sym ns arcs] -> [dag arcs; fallback taken] ; error 1 = out of fuel (never) *)
Definition run_c12_todag (s : sx) : sx :=
  match s with
  | SL [ssym; sn; sa] =>
      match sx_bool ssym, sx_list sx_nat sn, dec_arcs sa with
      | Some sym, Some ns, Some A =>
          match to_dag sym ns A with
          | Some (d, fb) => sx_ok (SL [of_arcs d; of_bool fb])
          | None => sx_err 1
          end
      | _, _, _ => bad_request
      end
  | _ => bad_request
  end.

(* [ns pdag-arcs dag-arcs] -> consistent-extension check (spec) *)
Definition run_c12_cext (s : sx) : sx :=
  match s with
  | SL [sn; sa; sd] =>
      match sx_list sx_nat sn, dec_arcs sa, dec_arcs sd with
      | Some ns, Some A, Some D => sx_ok (of_bool (consistent_extb ns A D))
      | _, _, _ => bad_request
      end
  | _ => bad_request
  end.

(* [nodes edges-g edges-h] -> h is an acyclic member of g's Markov equivalence class (spec) *)
Definition run_c12_member (s : sx) : sx :=
  match s with
  | SL [sn; se; sh] =>
      match dec_graph sn se, dec_arcs sh with
      | Some g, Some eh => sx_ok (of_bool (mequivb g {| nodes := nodes g; edges := eh |}))
      | _, _ => bad_request
      end
  | _ => bad_request
  end.

(* [nodes edges x y Z] -> d-separated (the oracle the harness hands to pgmpy as a callable) *)
Definition run_c12_dsep (s : sx) : sx :=
  match s with
  | SL [sn; se; sx_; sy; sz] =>
      match dec_graph sn se, sx_nat sx_, sx_nat sy, sx_list sx_nat sz with
      | Some g, Some x, Some y, Some Z => sx_ok (of_bool (dsep_oracle g x y Z))
      | _, _, _, _ => bad_request
      end
  | _ => bad_request
  end.

(* [nodes edges] -> CPDAG arcs of the class (spec, by enumeration) only; for truths beyond 5 nodes *)
Definition run_c12_cpdag (s : sx) : sx :=
  match s with
  | SL [sn; se] =>
      match dec_graph sn se with
      | Some g => sx_ok (of_arcs (cpdag_arcs g))
      | None => bad_request
      end
  | _ => bad_request
  end.
