(* C12: regression witness of the repaired defect ad4d524 (6 nodes).  Rule 4 of PC.skeleton_to_pdag used to fire on
   X - Z - Y, X -> W <- Y, Z - W also when X and Y are adjacent (Meek's rule 3 requires them non-adjacent) and then
   oriented against the truth; the bound of the finite-domain theorems (4 in Coq, 5 exhaustively in the run) could not
   see it.  As coded now the former witness is exact. *)
From Coq Require Import List Bool Arith PeanoNat.
From PV Require Import Base.Reach Base.Graph C08.Model C12.Model C12.ModelFix C12.Spec C12.FiniteDefs.
Import ListNotations.

Definition g_r6 : digraph :=
  {| nodes := [0; 1; 2; 3; 4; 5];
     edges := [(0, 1); (0, 2); (0, 3); (1, 2); (3, 1); (4, 3); (5, 0); (5, 1); (5, 2); (5, 3)] |}.

Example rule4_witness_6 :
  exists g vars sord A,
    length (nodes g) = 6 /\ acyclicb g = true /\ In (1, 2) (edges g) /\
    skeleton_exactb g (build_skeleton Stable (dsep_oracle g) 6 vars sord) = true /\
    (* before ad4d524: not the CPDAG, the compelled true edge 1 -> 2 came out as 2 -> 1 *)
    pc_pdag_prefix Stable (dsep_oracle g) 6 vars sord = Some A /\
    cpdag_exactb g vars (Some A) = false /\
    harc A 2 1 = true /\ harc A 1 2 = false /\
    harc (cpdag_arcs g) 1 2 = true /\ harc (cpdag_arcs g) 2 1 = false /\
    (* as coded now: exact, for the three variants *)
    cpdag_exactb g vars (pc_pdag Orig (dsep_oracle g) 6 vars sord) = true /\
    cpdag_exactb g vars (pc_pdag Stable (dsep_oracle g) 6 vars sord) = true /\
    cpdag_exactb g vars (pc_pdag Parallel (dsep_oracle g) 6 vars sord) = true.
Proof.
  exists g_r6, [0; 1; 2; 3; 4; 5], [0; 1; 2; 3; 4; 5]. eexists.
  split; [reflexivity|]. split; [vm_compute; reflexivity|]. split; [simpl; tauto|].
  split; [vm_compute; reflexivity|]. split; [vm_compute; reflexivity|].
  repeat split; vm_compute; reflexivity.
Qed.
