(* C12: regression witness of the repaired defect ad4d524 (6 nodes).  Rule 4 of PC.skeleton_to_pdag used to fire on
   X - Z - Y, X -> W <- Y, Z - W also when X and Y are adjacent (Meek's rule 3 requires them non-adjacent) and then
   oriented against the truth; the bound of the finite-domain theorems (4 in Coq, 5 exhaustively in the run) could not
   see it.  As coded now the former witness is exact.  (One boolean, so that the class is enumerated once.) *)
From Coq Require Import List Bool Arith PeanoNat.
From PV Require Import Base.Reach Base.Graph C08.Model C12.Model C12.ModelFix C12.Spec C12.FiniteDefs.
Import ListNotations.

Definition g_r6 : digraph :=
  {| nodes := [0; 1; 2; 3; 4; 5];
     edges := [(0, 1); (0, 2); (0, 3); (1, 2); (3, 1); (4, 3); (5, 0); (5, 1); (5, 2); (5, 3)] |}.

Definition rule4_witness_check : bool :=
  let g := g_r6 in
  let ord := [0; 1; 2; 3; 4; 5] in
  let c := cpdag_arcs g in
  (* the true edge 1 -> 2 is compelled in the class *)
  acyclicb g && has_edge g 1 2 && harc c 1 2 && negb (harc c 2 1)
  (* exact skeleton *)
  && skeleton_exactb g (build_skeleton Stable (dsep_oracle g) 6 ord ord)
  (* before ad4d524: not the CPDAG, 1 -> 2 came out as 2 -> 1 *)
  && match pc_pdag_prefix Stable (dsep_oracle g) 6 ord ord with
     | Some A => negb (arcs_eqb A c) && harc A 2 1 && negb (harc A 1 2)
     | None => false
     end
  (* as coded now: the CPDAG, variants orig and stable (parallel = stable, Skeleton.pc_pdag_parallel_stable) *)
  && match pc_pdag Orig (dsep_oracle g) 6 ord ord with Some A => arcs_eqb A c | None => false end
  && match pc_pdag Stable (dsep_oracle g) 6 ord ord with Some A => arcs_eqb A c | None => false end.

Example rule4_witness_6 : rule4_witness_check = true.
Proof. vm_compute. reflexivity. Qed.
