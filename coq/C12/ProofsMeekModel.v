(* C12, unbounded: the coded fix-point loop of PC.skeleton_to_pdag (rules 2, 3, 4 = Meek R1, R2, R3) produces a
   history of justified orientations (ProofsMeek.Hist) and stops in a state in which no rule applies; hence Meek's
   Lemma 1 holds for the PDAG that PC returns. *)
From Coq Require Import List Bool Arith PeanoNat Lia.
From PV Require Import Base.Reach Base.Graph C08.Model C08.ProofsTrail C12.Model C12.Spec C12.ToDag C12.VPhase
  C12.Skeleton C12.Orient C12.SpecBridge.
From PV Require Import C12.ProofsMeek.
Import ListNotations.

Lemma dchild_true A x z : dchild A x z = true <-> Dir A x z.
Proof.
  unfold dchild, Dir. rewrite andb_true_iff, negb_true_iff, harc_In, harc_false. tauto.
Qed.
Lemma unbr_true A x z : unbr A x z = true <-> Und A x z.
Proof. unfold unbr, Und. rewrite andb_true_iff, !harc_In. tauto. Qed.

(* ------------------------------------------------------------------ shrinking folds *)
Lemma filter_len_le {X} (p : X -> bool) (l : list X) : length (filter p l) <= length l.
Proof. induction l as [|a l IH]; simpl; [lia|]. destruct (p a); simpl; lia. Qed.
Lemma filter_len_eq {X} (p : X -> bool) (l : list X) : length (filter p l) = length l -> filter p l = l.
Proof.
  induction l as [|a l IH]; simpl; [reflexivity|]. destruct (p a); simpl; intros H.
  - f_equal. apply IH. lia.
  - pose proof (filter_len_le p l). lia.
Qed.

Definition tight {X} (f : list arc -> X -> list arc) : Prop :=
  forall A x, length (f A x) <= length A /\ (length (f A x) = length A -> f A x = A).

Lemma tight_fold {X} (f : list arc -> X -> list arc) : tight f -> forall l A,
  length (fold_left f l A) <= length A /\
  (length (fold_left f l A) = length A -> fold_left f l A = A /\ forall x, In x l -> f A x = A).
Proof.
  intros Ht. induction l as [|a l IH]; intros A; simpl.
  - split; [lia|]. intros _. split; [reflexivity|intros x []].
  - destruct (Ht A a) as [T1 T2]. destruct (IH (f A a)) as [I1 I2]. split; [lia|]. intros He.
    assert (E1 : length (f A a) = length A) by lia. pose proof (T2 E1) as E2. rewrite E2 in *.
    destruct (I2 He) as [I3 I4]. split; [exact I3|]. intros x [<-|Hx]; [exact E2|exact (I4 x Hx)].
Qed.

Lemma tight_rarc_l y : tight (fun A z => rarc A y z).
Proof. intros A z. unfold rarc. split; [apply filter_len_le|apply filter_len_eq]. Qed.
Lemma tight_rarc_r z : tight (fun A w => rarc A w z).
Proof. intros A w. unfold rarc. split; [apply filter_len_le|apply filter_len_eq]. Qed.

Lemma rarc_fix A u v : rarc A u v = A -> ~ In (u, v) A.
Proof. intros H Hi. rewrite <- H in Hi. apply In_rarc in Hi. destruct Hi as [_ Hn]. apply Hn. reflexivity. Qed.

Definition step2 (vars : list node) (A : list arc) (p : arc) : list arc :=
  let (x, y) := p in
  if negb (harc A x y) && negb (harc A y x)
  then fold_left (fun A z => rarc A y z) (filter (fun z => dchild A x z && unbr A y z) vars) A
  else A.
Definition step3 (vars : list node) (A : list arc) (p : arc) : list arc :=
  let (x, y) := p in
  if harc A y x && harc A x y && has_path (dpart vars A) x y then rarc A y x else A.
Definition step4z (vars : list node) (x y : node) (A : list arc) (z : node) : list arc :=
  fold_left (fun A w => rarc A w z) (filter (fun w => dchild A x w && dchild A y w && unbr A z w) vars) A.
Definition step4 (vars sord : list node) (A : list arc) (p : arc) : list arc :=
  let (x, y) := p in
  if harc A x y || harc A y x then A
  else fold_left (step4z vars x y) (setord sord (filter (fun z => unbr A x z && unbr A y z) vars)) A.

Lemma rule2_pass_eq vars A : rule2_pass vars A = fold_left (step2 vars) (npairs vars) A.
Proof. reflexivity. Qed.
Lemma rule3_pass_eq vars A : rule3_pass vars A = fold_left (step3 vars) (npairs vars) A.
Proof. reflexivity. Qed.
Lemma rule4_pass_eq vars sord A : rule4_pass vars sord A = fold_left (step4 vars sord) (npairs vars) A.
Proof. reflexivity. Qed.

Lemma tight_step2 vars : tight (step2 vars).
Proof.
  intros A [x y]. unfold step2. destruct (negb (harc A x y) && negb (harc A y x)).
  - destruct (tight_fold _ (tight_rarc_l y) (filter (fun z => dchild A x z && unbr A y z) vars) A) as [H1 H2].
    split; [exact H1|]. intros H. exact (proj1 (H2 H)).
  - split; [lia|reflexivity].
Qed.
Lemma tight_step3 vars : tight (step3 vars).
Proof.
  intros A [x y]. unfold step3. destruct (harc A y x && harc A x y && has_path (dpart vars A) x y).
  - apply (tight_rarc_l y A x).
  - split; [lia|reflexivity].
Qed.
Lemma tight_step4z vars x y : tight (step4z vars x y).
Proof.
  intros A z. unfold step4z.
  destruct (tight_fold _ (tight_rarc_r z) (filter (fun w => dchild A x w && dchild A y w && unbr A z w) vars) A) as [H1 H2].
  split; [exact H1|]. intros H. exact (proj1 (H2 H)).
Qed.
Lemma tight_step4 vars sord : tight (step4 vars sord).
Proof.
  intros A [x y]. unfold step4. destruct (harc A x y || harc A y x).
  - split; [lia|reflexivity].
  - destruct (tight_fold _ (tight_step4z vars x y) (setord sord (filter (fun z => unbr A x z && unbr A y z) vars)) A) as [H1 H2].
    split; [exact H1|]. intros H. exact (proj1 (H2 H)).
Qed.

Section Model.
Variable g : digraph.
Hypothesis Hw : wf_graph g.
Hypothesis Ha : acyclic g.
Variable vars : list node.
Hypothesis Hnd : NoDup vars.
Hypothesis Hvars : forall v, In v vars <-> In v (nodes g).

Lemma adj_vars a b : adjacent g a b -> In a vars /\ In b vars /\ a <> b.
Proof. intros H. destruct (adjacent_nodes g Hw Ha a b H) as [H1 [H2 H3]]. repeat split; try apply Hvars; assumption. Qed.

Lemma nonadj_harc A x y : OInv g A -> ~ adjacent g x y -> harc A x y = false /\ harc A y x = false.
Proof.
  intros HI Hn. split; apply harc_false; intros H; apply Hn; apply (o_adj g A HI) in H; unfold adjacent in *; tauto.
Qed.

(* ---- closedness: a sweep that removes nothing found no applicable rule ---- *)
Definition closed (F : list arc) : Prop :=
  (forall x z y, Dir F x z -> Und F z y -> ~ adjacent g x y -> False) /\
  (forall x y, Und F x y -> dpath (dpart vars F) x y -> False) /\
  (forall x y z w, x <> y -> ~ adjacent g x y -> Und F x z -> Und F y z -> Dir F x w -> Dir F y w -> Und F z w -> False).

Lemma pass_fix {X} (f : list arc -> X -> list arc) (l : list X) A :
  tight f -> length (fold_left f l A) = length A -> forall x, In x l -> f A x = A.
Proof. intros Ht He. exact (proj2 (proj2 (tight_fold f Ht l A) He)). Qed.

Lemma closed1 A : OInv g A -> rule2_pass vars A = A ->
  forall x z y, Dir A x z -> Und A z y -> ~ adjacent g x y -> False.
Proof.
  intros HI Hfix x z y Hxz Hzy Hna. rewrite rule2_pass_eq in Hfix.
  destruct (adj_vars x z (o_adj g A HI x z (proj1 Hxz))) as [Hx [Hz _]].
  destruct (adj_vars z y (o_adj g A HI z y (proj1 Hzy))) as [_ [Hy _]].
  assert (Hxy : x <> y) by (intros ->; exact (proj2 Hxz (proj1 Hzy))).
  assert (Hp : In (x, y) (npairs vars)) by (apply In_npairs; tauto).
  pose proof (pass_fix (step2 vars) (npairs vars) A (tight_step2 vars) (f_equal (@length arc) Hfix) (x, y) Hp) as Hs.
  unfold step2 in Hs. destruct (nonadj_harc A x y HI Hna) as [N1 N2]. rewrite N1, N2 in Hs. simpl in Hs.
  assert (Hzin : In z (filter (fun z0 => dchild A x z0 && unbr A y z0) vars)).
  { apply filter_In. split; [exact Hz|]. apply andb_true_iff. split; [apply dchild_true; exact Hxz|].
    apply unbr_true. apply Und_sym. exact Hzy. }
  pose proof (pass_fix (fun A0 z0 => rarc A0 y z0) _ A (tight_rarc_l y) (f_equal (@length arc) Hs) z Hzin) as Hr.
  exact (rarc_fix A y z Hr (proj2 Hzy)).
Qed.

Lemma closed2 A : OInv g A -> rule3_pass vars A = A ->
  forall x y, Und A x y -> dpath (dpart vars A) x y -> False.
Proof.
  intros HI Hfix x y Hxy Hp. rewrite rule3_pass_eq in Hfix.
  destruct (adj_vars x y (o_adj g A HI x y (proj1 Hxy))) as [Hx [Hy Hne]].
  assert (Hpr : In (x, y) (npairs vars)) by (apply In_npairs; tauto).
  pose proof (pass_fix (step3 vars) (npairs vars) A (tight_step3 vars) (f_equal (@length arc) Hfix) (x, y) Hpr) as Hs.
  unfold step3 in Hs.
  assert (E1 : harc A y x = true) by (apply harc_In; exact (proj2 Hxy)).
  assert (E2 : harc A x y = true) by (apply harc_In; exact (proj1 Hxy)).
  assert (E3 : has_path (dpart vars A) x y = true).
  { apply (has_path_spec _ x y (dpart_wf g Hw Ha vars Hnd Hvars A HI)). exact Hp. }
  rewrite E1, E2, E3 in Hs. simpl in Hs. exact (rarc_fix A y x Hs (proj2 Hxy)).
Qed.

Lemma closed3 sord A : OInv g A -> rule4_pass vars sord A = A ->
  forall x y z w, x <> y -> ~ adjacent g x y -> Und A x z -> Und A y z -> Dir A x w -> Dir A y w -> Und A z w -> False.
Proof.
  intros HI Hfix x y z w Hxy Hna Hxz Hyz Hxw Hyw Hzw. rewrite rule4_pass_eq in Hfix.
  destruct (adj_vars x z (o_adj g A HI x z (proj1 Hxz))) as [Hx [Hz _]].
  destruct (adj_vars y w (o_adj g A HI y w (proj1 Hyw))) as [Hy [Hwv _]].
  assert (Hpr : In (x, y) (npairs vars)) by (apply In_npairs; tauto).
  pose proof (pass_fix (step4 vars sord) (npairs vars) A (tight_step4 vars sord) (f_equal (@length arc) Hfix) (x, y) Hpr) as Hs.
  unfold step4 in Hs. destruct (nonadj_harc A x y HI Hna) as [N1 N2]. rewrite N1, N2 in Hs. simpl in Hs.
  assert (Hzin : In z (setord sord (filter (fun z0 => unbr A x z0 && unbr A y z0) vars))).
  { apply In_setord, filter_In. split; [exact Hz|]. apply andb_true_iff. split; apply unbr_true; assumption. }
  pose proof (pass_fix (step4z vars x y) _ A (tight_step4z vars x y) (f_equal (@length arc) Hs) z Hzin) as Hz4.
  unfold step4z in Hz4.
  assert (Hwin : In w (filter (fun w0 => dchild A x w0 && dchild A y w0 && unbr A z w0) vars)).
  { apply filter_In. split; [exact Hwv|]. rewrite !andb_true_iff. repeat split; [apply dchild_true|apply dchild_true|apply unbr_true]; assumption. }
  pose proof (pass_fix (fun A0 w0 => rarc A0 w0 z) _ A (tight_rarc_r z) (f_equal (@length arc) Hz4) w Hwin) as Hr.
  exact (rarc_fix A w z Hr (proj2 Hzw)).
Qed.

Lemma pass_len {X} (f : list arc -> X -> list arc) (l : list X) A : tight f -> length (fold_left f l A) <= length A.
Proof. intros Ht. exact (proj1 (tight_fold f Ht l A)). Qed.
Lemma pass_eq {X} (f : list arc -> X -> list arc) (l : list X) A : tight f ->
  length (fold_left f l A) = length A -> fold_left f l A = A.
Proof. intros Ht He. exact (proj1 (proj2 (tight_fold f Ht l A) He)). Qed.

Lemma orient_loop_closed sord : forall fuel A, length A < fuel -> OInv g A -> closed (orient_loop fuel vars sord A).
Proof.
  induction fuel as [|f IH]; intros A Hf HI; [lia|]. cbn [orient_loop].
  set (A2 := rule2_pass vars A). set (A3 := rule3_pass vars A2). set (A4 := rule4_pass vars sord A3).
  assert (L2 : length A2 <= length A) by (unfold A2; rewrite rule2_pass_eq; apply pass_len, tight_step2).
  assert (L3 : length A3 <= length A2) by (unfold A3; rewrite rule3_pass_eq; apply pass_len, tight_step3).
  assert (L4 : length A4 <= length A3) by (unfold A4; rewrite rule4_pass_eq; apply pass_len, tight_step4).
  destruct (Nat.ltb (length A4) (length A)) eqn:El.
  - apply Nat.ltb_lt in El. apply IH; [lia|].
    unfold A4, A3, A2. apply rule4_sound; try assumption. apply rule3_sound; try assumption. apply rule2_sound; assumption.
  - apply Nat.ltb_ge in El.
    assert (E2 : A2 = A).
    { assert (X : length (fold_left (step2 vars) (npairs vars) A) = length A) by (change (length A2 = length A); lia).
      exact (pass_eq _ _ _ (tight_step2 vars) X). }
    assert (E3 : A3 = A2).
    { assert (X : length (fold_left (step3 vars) (npairs vars) A2) = length A2) by (change (length A3 = length A2); lia).
      exact (pass_eq _ _ _ (tight_step3 vars) X). }
    assert (E4 : A4 = A3).
    { assert (X : length (fold_left (step4 vars sord) (npairs vars) A3) = length A3) by (change (length A4 = length A3); lia).
      exact (pass_eq _ _ _ (tight_step4 vars sord) X). }
    rewrite E4, E3, E2.
    unfold A4 in E4. unfold A3 in E3, E4. unfold A2 in E2, E3, E4. rewrite E2 in E3. rewrite E2, E3 in E4.
    split; [exact (closed1 A HI E2)|]. split; [exact (closed2 A HI E3)|exact (closed3 sord A HI E4)].
Qed.

(* ---- the loop extends a history of justified orientations ---- *)
Variable A0 : list arc.
Hypothesis HI0 : OInv g A0.

Definition HP (s : list (list arc)) (A' : list arc) : Prop :=
  exists hs', Hist g vars A0 (A' :: hs') /\ exists pre, A' :: hs' = pre ++ s.

Lemma HP_refl A hs : Hist g vars A0 (A :: hs) -> HP (A :: hs) A.
Proof. intros H. exists hs. split; [exact H|]. exists []. reflexivity. Qed.

Lemma HP_oinv s A' : HP s A' -> OInv g A'.
Proof. intros [hs' [H _]]. exact (hist_oinv g vars A0 HI0 _ H A' (or_introl eq_refl)). Qed.

Lemma HP_rarc s A' u v : HP s A' ->
  (forall hs', Hist g vars A0 (A' :: hs') -> (forall E, In E s -> In E (A' :: hs')) -> just g vars (A' :: hs') u v) ->
  HP s (rarc A' u v).
Proof.
  intros [hs' [H [pre Heq]]] Hj.
  assert (Hin : forall E, In E s -> In E (A' :: hs')) by (intros E HE; rewrite Heq; apply in_or_app; right; exact HE).
  exists (A' :: hs'). split; [apply HS; [exact H|exact (Hj hs' H Hin)]|].
  exists (rarc A' u v :: pre). simpl. rewrite Heq. reflexivity.
Qed.

Lemma HP_trans s s' A'' : (exists pre, s' = pre ++ s) -> HP s' A'' -> HP s A''.
Proof.
  intros [pre ->] [hs' [H [pre' Heq]]]. exists hs'. split; [exact H|]. exists (pre' ++ pre). rewrite Heq, app_assoc. reflexivity.
Qed.

Lemma step2_hist s A' x y : x <> y -> HP s A' -> HP s (step2 vars A' (x, y)).
Proof.
  intros Hxy HPA. unfold step2. destruct (negb (harc A' x y) && negb (harc A' y x)) eqn:En; [|exact HPA].
  apply andb_true_iff in En. destruct En as [E1 E2]. apply negb_true_iff in E1. apply negb_true_iff in E2.
  pose proof (HP_oinv s A' HPA) as HI.
  assert (Hna : ~ adjacent g x y) by (apply (nonadj_of_A g Ha A'); assumption).
  destruct HPA as [hs' [H Hext]].
  apply (HP_trans s (A' :: hs')); [exact Hext|].
  apply fold_inv; [|apply HP_refl; exact H].
  intros A'' z Hz HPA''. apply filter_In in Hz. destruct Hz as [_ Hz]. apply andb_true_iff in Hz. destruct Hz as [Hd Hu].
  apply dchild_true in Hd. apply unbr_true in Hu.
  apply HP_rarc; [exact HPA''|]. intros hs'' _ Hin.
  apply (J1 g vars _ y z x); [exists A'; split; [apply Hin; left; reflexivity|exact Hd]
                             |exists A'; split; [apply Hin; left; reflexivity|apply Und_sym; exact Hu]|exact Hxy|exact Hna].
Qed.

Lemma step3_hist s A' x y : HP s A' -> HP s (step3 vars A' (x, y)).
Proof.
  intros HPA. unfold step3. destruct (harc A' y x && harc A' x y && has_path (dpart vars A') x y) eqn:En; [|exact HPA].
  apply andb_true_iff in En. destruct En as [En Hp]. apply andb_true_iff in En. destruct En as [E1 E2].
  apply harc_In in E1. apply harc_In in E2.
  pose proof (HP_oinv s A' HPA) as HI.
  apply (has_path_spec _ x y (dpart_wf g Hw Ha vars Hnd Hvars A' HI)) in Hp.
  apply HP_rarc; [exact HPA|]. intros hs' _ _.
  apply (J2 g vars _ y x A'); [left; reflexivity|split; assumption|exact Hp].
Qed.

Lemma step4_hist sord s A' x y : x <> y -> HP s A' -> HP s (step4 vars sord A' (x, y)).
Proof.
  intros Hxy HPA. unfold step4. destruct (harc A' x y || harc A' y x) eqn:En; [exact HPA|].
  apply orb_false_iff in En. destruct En as [E1 E2].
  pose proof (HP_oinv s A' HPA) as HI.
  assert (Hna : ~ adjacent g x y) by (apply (nonadj_of_A g Ha A'); assumption).
  destruct HPA as [hs' [H Hext]].
  apply (HP_trans s (A' :: hs')); [exact Hext|].
  apply fold_inv; [|apply HP_refl; exact H].
  intros A1 z Hz HPA1. apply In_setord, filter_In in Hz. destruct Hz as [_ Hz]. apply andb_true_iff in Hz.
  destruct Hz as [Hux Huy]. apply unbr_true in Hux. apply unbr_true in Huy.
  unfold step4z. destruct HPA1 as [hs1 [H1 Hext1]].
  assert (HA'in : In A' (A1 :: hs1)).
  { destruct Hext1 as [pre Heq]. rewrite Heq. apply in_or_app. right. left. reflexivity. }
  apply (HP_trans (A' :: hs') (A1 :: hs1)); [exact Hext1|].
  apply fold_inv; [|apply HP_refl; exact H1].
  intros A2 w Hw0 HPA2. apply filter_In in Hw0. destruct Hw0 as [_ Hw0]. rewrite !andb_true_iff in Hw0.
  destruct Hw0 as [[Hdx Hdy] Huz]. apply dchild_true in Hdx. apply dchild_true in Hdy. apply unbr_true in Huz.
  apply HP_rarc; [exact HPA2|]. intros hs2 _ Hin.
  apply (J3 g vars _ w z x y Hxy Hna).
  - exists A'. split; [apply Hin; exact HA'in|exact Hux].
  - exists A'. split; [apply Hin; exact HA'in|exact Huy].
  - exists A1. split; [apply Hin; left; reflexivity|exact Hdx].
  - exists A1. split; [apply Hin; left; reflexivity|exact Hdy].
  - exists A1. split; [apply Hin; left; reflexivity|exact Huz].
Qed.

Lemma pairs_neq x y : In (x, y) (npairs vars) -> x <> y.
Proof. intros H. apply In_npairs in H. tauto. Qed.

Lemma orient_loop_hist sord s : forall fuel A, HP s A -> HP s (orient_loop fuel vars sord A).
Proof.
  induction fuel as [|f IH]; intros A HPA; [exact HPA|]. cbn [orient_loop].
  assert (H4 : HP s (rule4_pass vars sord (rule3_pass vars (rule2_pass vars A)))).
  { rewrite rule4_pass_eq. apply fold_inv.
    - intros A' [x y] Hp. apply step4_hist. exact (pairs_neq x y Hp).
    - rewrite rule3_pass_eq. apply fold_inv.
      + intros A' [x y] _. apply step3_hist.
      + rewrite rule2_pass_eq. apply fold_inv; [|exact HPA].
        intros A' [x y] Hp. apply step2_hist. exact (pairs_neq x y Hp). }
  destruct (Nat.ltb _ _); [apply IH; exact H4|exact H4].
Qed.

End Model.

(* ------------------------------------------------------------------ the PDAG that PC returns *)
Lemma vphase_dir_is_collider g vars E seps A1 : wf_graph g -> acyclic g -> skeleton_ok g vars E seps ->
  vphase vars E seps (to_directed E) = Some A1 ->
  forall a b, Dir A1 a b -> exists d, ucollider g a b d.
Proof.
  intros Hw Ha Hok HA a b [Hab Hba].
  pose proof (vstructure_phase_sound g vars E seps A1 Hw Ha Hok HA) as Hchar.
  destruct (existsb (fun y => ucollb g a b y) (nodes g)) eqn:Ex.
  - apply existsb_exists in Ex. destruct Ex as [y [_ Hy]]. exists y. apply ucollb_spec. exact Hy.
  - exfalso. apply Hba. apply Hchar. split.
    + apply Hchar in Hab. destruct Hab as [Hab _]. apply In_to_directed in Hab. apply In_to_directed.
      rewrite uadj_sym. exact Hab.
    + intros [y Hy]. pose proof Hy as [_ [Hyb _]].
      assert (existsb (fun y0 => ucollb g a b y0) (nodes g) = true).
      { apply existsb_exists. exists y. split; [exact (proj1 (proj2 Hw _ _ Hyb))|apply ucollb_spec; exact Hy]. }
      congruence.
Qed.

(* the state in which the coded fix-point loop stops is closed under the three rules, and Meek's Lemma 1 holds in it *)
Theorem skeleton_to_pdag_closed_lemma1 : forall g vars sord E seps A,
  wf_graph g -> acyclic g -> NoDup vars -> (forall v, In v vars <-> In v (nodes g)) ->
  skeleton_ok g vars E seps -> skeleton_to_pdag vars sord E seps = Some A ->
  closed g vars A /\ (forall a b c, Dir A a b -> Und A b c -> Dir A a c).
Proof.
  intros g vars sord E seps A Hw Ha Hnd Hvars Hok H. unfold skeleton_to_pdag in H.
  destruct (vphase vars E seps (to_directed E)) as [A1|] eqn:Ev; [|discriminate]. inversion H; subst A. clear H.
  pose proof (vphase_oinv g Hw Ha vars E seps A1 Hok Ev) as HI1.
  pose proof (vphase_dir_is_collider g vars E seps A1 Hw Ha Hok Ev) as Hcol.
  set (F := orient_loop (S (length A1)) vars sord A1).
  assert (HIF : OInv g F) by (apply orient_loop_sound; assumption).
  assert (Hcl : closed g vars F) by (apply orient_loop_closed; try assumption; lia).
  split; [exact Hcl|].
  destruct (orient_loop_hist g Hw Ha vars Hnd Hvars A1 HI1 sord [A1] (S (length A1)) A1
              (HP_refl g vars A1 A1 [] (H0 g vars A1))) as [hs [HH _]].
  destruct Hcl as [C1 [C2 C3]].
  exact (meek_lemma1 g Hw Ha vars A1 HI1 Hcol F HIF C1 C2 C3 hs HH).
Qed.

Theorem pc_pdag_closed_lemma1 : forall g vars sord vr maxc A,
  wf_graph g -> acyclic g -> NoDup vars -> (forall v, In v vars <-> In v (nodes g)) ->
  (forall y, In y (nodes g) -> indeg g y <= maxc) ->
  pc_pdag vr (dsep_oracle g) maxc vars sord = Some A ->
  closed g vars A /\ (forall a b c, Dir A a b -> Und A b c -> Dir A a c).
Proof.
  intros g vars sord vr maxc A Hw Ha Hnd Hvars Hmax H. unfold pc_pdag in H.
  destruct (skeleton_exact_all g Hw Ha vars sord Hnd Hvars vr maxc Hmax) as [E [seps [Hb Hok]]].
  rewrite Hb in H. exact (skeleton_to_pdag_closed_lemma1 g vars sord E seps A Hw Ha Hnd Hvars Hok H).
Qed.

(* consequence of Lemma 1: a parent of one node of an undirected (chain) component is a parent of the whole component *)
Inductive upath (F : list arc) : node -> node -> Prop :=
| up_refl b : upath F b b
| up_step b c d : upath F b c -> Und F c d -> upath F b d.

Lemma component_parents F : (forall a b c, Dir F a b -> Und F b c -> Dir F a c) ->
  forall a b c, Dir F a b -> upath F b c -> Dir F a c.
Proof. intros L1 a b c Hab Hp. induction Hp as [b|b c d _ IH Hcd]; [exact Hab|]. exact (L1 a c d (IH Hab) Hcd). Qed.

Theorem pc_pdag_component_parents : forall g vars sord vr maxc A,
  wf_graph g -> acyclic g -> NoDup vars -> (forall v, In v vars <-> In v (nodes g)) ->
  (forall y, In y (nodes g) -> indeg g y <= maxc) ->
  pc_pdag vr (dsep_oracle g) maxc vars sord = Some A ->
  forall a b c, Dir A a b -> upath A b c -> Dir A a c /\ a <> c.
Proof.
  intros g vars sord vr maxc A Hw Ha Hnd Hvars Hmax H a b c Hab Hp.
  destruct (pc_pdag_closed_lemma1 g vars sord vr maxc A Hw Ha Hnd Hvars Hmax H) as [_ L1].
  pose proof (component_parents A L1 a b c Hab Hp) as Hac. split; [exact Hac|].
  intros ->. destruct Hac as [H1 H2]. exact (H2 H1).
Qed.
