(* C12, unbounded: soundness and completeness of the v-structure phase of PC.skeleton_to_pdag.
   Given the truth's skeleton and correct separating sets, the arcs removed by phase 1 are exactly
   z -> x for the truth's unshielded colliders x -> z <- y: every oriented collider is a true one and
   every true one is oriented — for every DAG, every node order. *)
From Coq Require Import List Bool Arith PeanoNat Lia.
From PV Require Import Base.Reach Base.Graph C08.Model C08.Spec C08.ProofsMisc C12.Model C12.Spec C12.ToDag.
Import ListNotations.

(* ---- d-separation facts on an unshielded triple (path definition of C08.Spec) ---- *)
Lemma triple_connected g (Z : list node) x z y :
  (In (x, z) (edges g) \/ In (z, x) (edges g)) -> (In (z, y) (edges g) \/ In (y, z) (edges g)) ->
  ok_mid g Z x z y -> dconnected g Z x y.
Proof.
  intros H1 H2 Hm. exists [x; z; y]. simpl. unfold adj.
  split; [tauto|]. split; [reflexivity|]. split; [reflexivity|]. split; [exact Hm|exact I].
Qed.

Lemma sep_excludes_collider g (Z : list node) x z y :
  wf_graph g -> acyclic g -> In x (nodes g) -> ~ In x Z -> ~ In y Z ->
  In (x, z) (edges g) -> In (y, z) (edges g) ->
  dsep_oracle g x y Z = true -> ~ In z Z.
Proof.
  intros Hw Ha Hx Hxz Hyz E1 E2 Hs Hz. unfold dsep_oracle in Hs. apply negb_true_iff in Hs.
  assert (Hc : is_dconnected g x y Z = true).
  { apply (is_dconnected_iff g x y Z Hw Ha Hx Hxz). split; [exact Hyz|].
    apply (triple_connected g Z x z y); [left; exact E1|right; exact E2|].
    split.
    - intros _. exists z. split; [exact Hz|apply dpath_refl].
    - intros Hn. exfalso. apply Hn. split; assumption. }
  congruence.
Qed.

Lemma sep_without_mid_is_collider g (Z : list node) x z y :
  wf_graph g -> acyclic g -> In x (nodes g) -> ~ In x Z -> ~ In y Z ->
  (In (x, z) (edges g) \/ In (z, x) (edges g)) -> (In (z, y) (edges g) \/ In (y, z) (edges g)) ->
  dsep_oracle g x y Z = true -> ~ In z Z -> In (x, z) (edges g) /\ In (y, z) (edges g).
Proof.
  intros Hw Ha Hx Hxz Hyz A1 A2 Hs Hz. unfold dsep_oracle in Hs. apply negb_true_iff in Hs.
  destruct (has_edge g x z) eqn:E1; destruct (has_edge g y z) eqn:E2.
  - apply has_edge_In in E1. apply has_edge_In in E2. tauto.
  - exfalso. assert (Hc : is_dconnected g x y Z = true).
    { apply (is_dconnected_iff g x y Z Hw Ha Hx Hxz). split; [exact Hyz|].
      apply (triple_connected g Z x z y A1 A2). split.
      - intros [_ Hc]. apply has_edge_In in Hc. congruence.
      - intros _. exact Hz. }
    congruence.
  - exfalso. assert (Hc : is_dconnected g x y Z = true).
    { apply (is_dconnected_iff g x y Z Hw Ha Hx Hxz). split; [exact Hyz|].
      apply (triple_connected g Z x z y A1 A2). split.
      - intros [Hc _]. apply has_edge_In in Hc. congruence.
      - intros _. exact Hz. }
    congruence.
  - exfalso. assert (Hc : is_dconnected g x y Z = true).
    { apply (is_dconnected_iff g x y Z Hw Ha Hx Hxz). split; [exact Hyz|].
      apply (triple_connected g Z x z y A1 A2). split.
      - intros [Hc _]. apply has_edge_In in Hc. congruence.
      - intros _. exact Hz. }
    congruence.
Qed.

(* ---- the fold of phase 1 ---- *)
Lemma In_rarc A u v a b : In (a, b) (rarc A u v) <-> In (a, b) A /\ (a, b) <> (u, v).
Proof.
  unfold rarc. rewrite filter_In, negb_true_iff. split.
  - intros [H1 H2]. split; [exact H1|]. intros He. rewrite He in H2.
    assert (edge_eqb (u, v) (u, v) = true) by (apply edge_eqb_eq; reflexivity). congruence.
  - intros [H1 H2]. split; [exact H1|]. destruct (edge_eqb (u, v) (a, b)) eqn:E; [|reflexivity].
    apply edge_eqb_eq in E. congruence.
Qed.

(* arcs removed while treating the pair (x,y) with separating set cs over the common neighbours l *)
Lemma inner_fold cs x y : forall (l : list node) (A : list arc) a b,
  In (a, b) (fold_left (fun A z => if memn z cs then A else rarc (rarc A z x) z y) l A) <->
  In (a, b) A /\ ~ (In a l /\ ~ In a cs /\ (b = x \/ b = y)).
Proof.
  induction l as [|z l IH]; intros A a b; simpl.
  - tauto.
  - rewrite IH. destruct (memn z cs) eqn:Ez.
    + apply memn_In in Ez. split.
      * intros [H1 H2]. split; [exact H1|]. intros [[Hz|Hl] [Hc Hb]]; [subst; contradiction|]. apply H2. tauto.
      * intros [H1 H2]. split; [exact H1|]. intros [Hl Hr]. apply H2. tauto.
    + apply memn_false in Ez. rewrite !In_rarc. split.
      * intros [[[H1 H3] H4] H2]. split; [exact H1|]. intros [[Hz|Hl] [Hc Hb]].
        -- subst a. destruct Hb as [->| ->]; [apply H3|apply H4]; reflexivity.
        -- apply H2. tauto.
      * intros [H1 H2]. split; [split; [split; [exact H1|]|]|].
        -- intros He. inversion He; subst. apply H2. tauto.
        -- intros He. inversion He; subst. apply H2. tauto.
        -- intros [Hl Hr]. apply H2. tauto.
Qed.

Definition removed_by (vars : list node) (E : list arc) (seps : sepmap) (ps : list arc) (a b : node) : Prop :=
  exists x y cs, In (x, y) ps /\ uadj E x y = false /\ uadj E x a = true /\ uadj E y a = true /\ In a vars /\
                 lookup seps x y = Some cs /\ ~ In a cs /\ (b = x \/ b = y).

Definition vstep (vars : list node) (E : list arc) (seps : sepmap) (oA : option (list arc)) (p : arc)
  : option (list arc) :=
  match oA with
  | None => None
  | Some A =>
      let (x, y) := p in
      if uadj E x y then Some A
      else match filter (fun z => uadj E x z && uadj E y z) vars with
           | [] => Some A
           | common =>
               match lookup seps x y with
               | None => None
               | Some cs => Some (fold_left (fun A z => if memn z cs then A else rarc (rarc A z x) z y) common A)
               end
           end
  end.
Lemma vphase_eq vars E seps A0 : vphase vars E seps A0 = fold_left (vstep vars E seps) (npairs vars) (Some A0).
Proof. reflexivity. Qed.
Lemma vstep_none vars E seps : forall l, fold_left (vstep vars E seps) l None = None.
Proof. induction l as [|q l IH]; [reflexivity|exact IH]. Qed.
Lemma vstep_some vars E seps A x y :
  vstep vars E seps (Some A) (x, y) =
  if uadj E x y then Some A
  else match filter (fun z => uadj E x z && uadj E y z) vars with
       | [] => Some A
       | c0 :: cl =>
           match lookup seps x y with
           | None => None
           | Some cs => Some (fold_left (fun A z => if memn z cs then A else rarc (rarc A z x) z y) (c0 :: cl) A)
           end
       end.
Proof. reflexivity. Qed.
Arguments vstep : simpl never.

Lemma vphase_fold vars E seps : forall (ps : list arc) (A0 A : list arc),
  fold_left (vstep vars E seps) ps (Some A0) = Some A ->
  forall a b, In (a, b) A <-> In (a, b) A0 /\ ~ removed_by vars E seps ps a b.
Proof.
  induction ps as [|[x y] ps IH]; intros A0 A H a b.
  - simpl in H. inversion H; subst. unfold removed_by. split; [intros Hi; split; [exact Hi|]|tauto].
    intros [x [y [cs [[] _]]]].
  - cbn [fold_left] in H. rewrite vstep_some in H. unfold removed_by in *.
    destruct (uadj E x y) eqn:Exy.
    + rewrite (IH _ _ H a b). split; intros [H1 H2]; (split; [exact H1|]); intros [x' [y' [cs [Hin R]]]]; apply H2.
      * destruct Hin as [Hin|Hin]; [|exists x', y', cs; split; [exact Hin|exact R]].
        inversion Hin; subst. destruct R as [R _]. congruence.
      * exists x', y', cs. split; [right; exact Hin|exact R].
    + destruct (filter (fun z => uadj E x z && uadj E y z) vars) as [|c0 cl] eqn:Ecm.
      * rewrite (IH _ _ H a b). split; intros [H1 H2]; (split; [exact H1|]); intros [x' [y' [cs [Hin R]]]]; apply H2.
        -- destruct Hin as [Hin|Hin]; [|exists x', y', cs; split; [exact Hin|exact R]].
           inversion Hin; subst. destruct R as [_ [R1 [R2 [R3 _]]]].
           assert (Hc : In a (filter (fun z => uadj E x' z && uadj E y' z) vars)).
           { apply filter_In. split; [exact R3|]. rewrite R1, R2. reflexivity. }
           rewrite Ecm in Hc. destruct Hc.
        -- exists x', y', cs. split; [right; exact Hin|exact R].
      * destruct (lookup seps x y) as [cs|] eqn:El; [|rewrite vstep_none in H; discriminate].
        rewrite (IH _ _ H a b). rewrite inner_fold. rewrite <- Ecm.
        split.
        -- intros [[H1 H3] H2]. split; [exact H1|]. intros [x' [y' [cs' [Hin R]]]].
           destruct Hin as [Hin|Hin].
           ++ inversion Hin; subst x' y'. destruct R as [_ [R1 [R2 [R3 [R4 [R5 R6]]]]]].
              rewrite El in R4. inversion R4; subst cs'. apply H3. split; [|tauto].
              apply filter_In. split; [exact R3|]. rewrite R1, R2. reflexivity.
           ++ apply H2. exists x', y', cs'. split; [exact Hin|exact R].
        -- intros [H1 H2]. split; [split; [exact H1|]|].
           ++ intros [Hc [Hn Hb]]. apply filter_In in Hc. destruct Hc as [Hv Hc]. apply andb_true_iff in Hc.
              apply H2. exists x, y, cs. split; [left; reflexivity|]. tauto.
           ++ intros [x' [y' [cs' [Hin R]]]]. apply H2. exists x', y', cs'. split; [right; exact Hin|exact R].
Qed.

Lemma In_npairs vars x y : In (x, y) (npairs vars) <-> In x vars /\ In y vars /\ x <> y.
Proof.
  unfold npairs. rewrite in_flat_map. split.
  - intros [x' [Hx H]]. apply in_map_iff in H. destruct H as [y' [He Hy]]. inversion He; subst.
    apply In_remove1 in Hy. destruct Hy as [Hy Hn]. repeat split; auto.
  - intros [Hx [Hy Hn]]. exists x. split; [exact Hx|]. apply in_map_iff. exists y. split; [reflexivity|].
    apply In_remove1. split; [exact Hy|]. congruence.
Qed.

(* hypotheses: the skeleton phase delivered the truth's skeleton and correct separating sets *)
Record skeleton_ok (g : digraph) (vars : list node) (E : list arc) (seps : sepmap) : Prop := {
  sk_vars : forall v, In v vars <-> In v (nodes g);
  sk_adj : forall u v, uadj E u v = true <-> adjacent g u v;
  sk_sep_sound : forall x y cs, lookup seps x y = Some cs ->
                   ~ In x cs /\ ~ In y cs /\ dsep_oracle g x y cs = true;
  sk_sep_total : forall x y, In x vars -> In y vars -> x <> y -> ~ adjacent g x y -> lookup seps x y <> None
}.

Theorem vstructure_phase_sound : forall g vars E seps A,
  wf_graph g -> acyclic g -> skeleton_ok g vars E seps ->
  vphase vars E seps (to_directed E) = Some A ->
  forall z x, In (z, x) A <-> In (z, x) (to_directed E) /\ ~ exists y, ucollider g x z y.
Proof.
  intros g vars E seps A Hw Ha [Hv Hadj Hss Hst] H z x.
  rewrite vphase_eq in H. rewrite (vphase_fold vars E seps _ _ _ H z x).
  split; intros [H1 H2]; (split; [exact H1|]).
  - (* a true unshielded collider x -> z <- y is oriented *)
    intros [y [Exz [Eyz [Hxy Hn]]]]. apply H2.
    destruct Hw as [Hnd Hwf]. destruct (Hwf _ _ Exz) as [Hxn Hzn]. destruct (Hwf _ _ Eyz) as [Hyn _].
    assert (Hl : lookup seps x y <> None) by (apply Hst; try apply Hv; assumption).
    destruct (lookup seps x y) as [cs|] eqn:El; [|congruence].
    destruct (Hss x y cs El) as [S1 [S2 S3]].
    exists x, y, cs. split; [apply In_npairs; split; [apply Hv; exact Hxn|split; [apply Hv; exact Hyn|exact Hxy]]|].
    split; [|split; [|split; [|split; [|split; [|split]]]]].
    + destruct (uadj E x y) eqn:Eu; [|reflexivity]. apply Hadj in Eu. contradiction.
    + apply Hadj. left. exact Exz.
    + apply Hadj. left. exact Eyz.
    + apply Hv. exact Hzn.
    + exact El.
    + apply (sep_excludes_collider g cs x z y (conj Hnd Hwf) Ha Hxn S1 S2 Exz Eyz S3).
    + left. reflexivity.
  - (* every oriented collider is a true unshielded collider *)
    intros [p [q [cs [Hin [Hpq [Hpz [Hqz [Hzv [El [Hzc Hb]]]]]]]]]]. apply H2.
    apply In_npairs in Hin. destruct Hin as [Hp [Hq Hne]].
    destruct (Hss p q cs El) as [S1 [S2 S3]].
    assert (Hna : ~ adjacent g p q) by (intros Hc; apply Hadj in Hc; congruence).
    apply Hadj in Hpz. apply Hadj in Hqz.
    assert (A2 : In (z, q) (edges g) \/ In (q, z) (edges g)) by (destruct Hqz; tauto).
    destruct (sep_without_mid_is_collider g cs p z q Hw Ha (proj1 (Hv p) Hp) S1 S2 Hpz A2 S3 Hzc) as [C1 C2].
    destruct Hb as [->| ->].
    + exists q. repeat split; assumption.
    + exists p. repeat split; try assumption; [congruence|]. intros [Hc|Hc]; apply Hna; [right|left]; exact Hc.
Qed.

(* non-vacuity: the collider 0 -> 2 <- 1 with its skeleton and the separating set {} for (0,1) meets the
   hypotheses, and phase 1 orients exactly that collider *)
Example vstructure_phase_nonvacuous :
  let g := {| nodes := [0; 1; 2]; edges := [(0, 2); (1, 2)] |} in
  let E := [(0, 2); (1, 2)] in
  let seps : sepmap := [((0, 1), [])] in
  wf_graph g /\ acyclic g /\ skeleton_ok g [0; 1; 2] E seps /\
  vphase [0; 1; 2] E seps (to_directed E) = Some [(0, 2); (1, 2)].
Proof.
  cbv zeta.
  assert (Hw : wf_graph {| nodes := [0; 1; 2]; edges := [(0, 2); (1, 2)] |}).
  { split.
    - repeat constructor; simpl; intuition lia.
    - intros u v H. simpl in H. destruct H as [H|[H|[]]]; inversion H; subst; simpl; tauto. }
  split; [exact Hw|]. split; [apply (acyclicb_spec _ Hw); vm_compute; reflexivity|].
  split; [|vm_compute; reflexivity].
  constructor.
  - intros v. simpl. tauto.
  - intros u v. unfold adjacent. simpl. unfold uadj. simpl. unfold ueqb, edge_eqb. simpl.
    rewrite !orb_true_iff, !andb_true_iff, !Nat.eqb_eq. split.
    + intros [[[H1 H2]|[H1 H2]]|[[[H1 H2]|[H1 H2]]|H]]; subst; try discriminate; tauto.
    + intros [[H|[H|[]]]|[H|[H|[]]]]; inversion H; subst; tauto.
  - intros x y cs H. unfold lookup in H. simpl in H.
    destruct (ueqb (x, y) (0, 1)) eqn:Eq; [|discriminate]. inversion H; subst cs.
    unfold ueqb, edge_eqb in Eq. simpl in Eq.
    rewrite orb_true_iff, !andb_true_iff, !Nat.eqb_eq in Eq.
    destruct Eq as [[-> ->]|[-> ->]]; (split; [intros []|split; [intros []|vm_compute; reflexivity]]).
  - intros x y Hx Hy Hne Hn. simpl in Hx, Hy. unfold adjacent in Hn. simpl in Hn.
    destruct Hx as [<-|[<-|[<-|[]]]]; destruct Hy as [<-|[<-|[<-|[]]]]; try congruence;
      try (vm_compute; discriminate); exfalso; apply Hn; tauto.
Qed.
