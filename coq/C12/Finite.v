(* C12 finite-domain results: the computed checks (FinitePdag.v) lifted to quantified
   statements; the bound (<= 4 labelled nodes) and the iteration orders exercised appear in every statement.
   Also the witnesses of the two refutations. *)
From Coq Require Import List Bool Arith PeanoNat Lia.
From PV Require Import Base.Reach Base.Graph C08.Model C12.Model C12.Spec C12.FiniteDefs C12.FinitePdag C12.ToDag C12.Skeleton.
Import ListNotations.

Lemma forallb_In {A} (f : A -> bool) (l : list A) (x : A) : forallb f l = true -> In x l -> f x = true.
Proof. intros H Hi. rewrite forallb_forall in H. exact (H x Hi). Qed.

Lemma le4_in5 n : n <= 4 -> In n [0; 1; 2; 3; 4].
Proof. intros H. do 5 (destruct n as [|n]; [simpl; tauto|]). lia. Qed.

Lemma chk_pdag_le4 n : n <= 4 -> chk_pdag n = true.
Proof.
  intros Hn. destruct (Nat.eq_dec n 4) as [->|Hne]; [exact chk_pdag_4|].
  apply (forallb_In _ _ n chk_pdag_upto3).
  do 4 (destruct n as [|n]; [simpl; tauto|]). lia.
Qed.

Lemma in_variants vr : vr <> Parallel -> In vr variants.
Proof. destruct vr; simpl; tauto. Qed.

Lemma cpdag_exact_upto4_os : forall n g vr vars sord,
  vr <> Parallel -> n <= 4 -> In g (all_dags n) -> In (vars, sord) (orders n) ->
  cpdag_exactb g vars (pc_pdag vr (dsep_oracle g) n vars sord) = true.
Proof.
  intros n g vr vars sord Hvr Hn Hg Ho.
  pose proof (chk_pdag_le4 n Hn) as H1. unfold chk_pdag in H1.
  pose proof (forallb_In _ _ _ H1 Hg) as H2. cbv beta zeta in H2.
  pose proof (forallb_In _ _ _ H2 Ho) as H3. cbv beta in H3.
  pose proof (forallb_In _ _ _ H3 (in_variants vr Hvr)) as H4. cbv beta in H4.
  unfold cpdag_exactb. exact H4.
Qed.

Lemma cpdag_exact_upto4 : forall n g vr vars sord,
  n <= 4 -> In g (all_dags n) -> In (vars, sord) (orders n) ->
  cpdag_exactb g vars (pc_pdag vr (dsep_oracle g) n vars sord) = true.
Proof.
  intros n g vr vars sord Hn Hg Ho. destruct vr.
  - apply cpdag_exact_upto4_os; [discriminate|assumption..].
  - apply cpdag_exact_upto4_os; [discriminate|assumption..].
  - rewrite pc_pdag_parallel_stable. apply cpdag_exact_upto4_os; [discriminate|assumption..].
Qed.

(* the PDAG object depends on the arc list only as a set *)
Lemma arcs_eqb_harc A B : arcs_eqb A B = true -> forall u v, harc A u v = harc B u v.
Proof.
  unfold arcs_eqb. rewrite andb_true_iff, !forallb_forall. intros [H1 H2] u v.
  destruct (harc A u v) eqn:Ea; destruct (harc B u v) eqn:Eb; try reflexivity.
  - apply C12.ToDag.harc_In in Ea. specialize (H1 (u, v) Ea). simpl in H1. congruence.
  - apply C12.ToDag.harc_In in Eb. specialize (H2 (u, v) Eb). simpl in H2. congruence.
Qed.
Lemma canon_arcs_ext p A B : (forall u v, harc A u v = harc B u v) -> canon_arcs p A = canon_arcs p B.
Proof.
  intros H. unfold canon_arcs. apply flat_map_ext. intros x. f_equal. apply filter_ext. intros y. apply H.
Qed.
Lemma arc_nodes_ext p A B : (forall u v, harc A u v = harc B u v) -> arc_nodes p A = arc_nodes p B.
Proof.
  intros H. unfold arc_nodes. apply filter_ext. intros v.
  assert (G : forall A B, (forall u w, harc A u w = harc B u w) ->
              existsb (fun e : arc => Nat.eqb (fst e) v || Nat.eqb (snd e) v) A = true ->
              existsb (fun e : arc => Nat.eqb (fst e) v || Nat.eqb (snd e) v) B = true).
  { intros A' B' H' Hx. apply existsb_exists in Hx. destruct Hx as [[a b] [Hin Hq]].
    apply existsb_exists. exists (a, b). split; [|exact Hq].
    apply C12.ToDag.harc_In. rewrite <- H'. apply C12.ToDag.harc_In. exact Hin. }
  apply Bool.eq_iff_eq_true. split; apply G; [exact H|intros u w; symmetry; apply H].
Qed.

Lemma dag_member_upto4 : forall n g vr vars sord pord,
  n <= 4 -> In g (all_dags n) -> In (vars, sord) (orders n) -> In pord (perms (seq 0 n)) ->
  dag_memberb g (pc_dag vr (dsep_oracle g) n vars sord pord) = true.
Proof.
  intros n g vr vars sord pord Hn Hg Ho Hp.
  pose proof (cpdag_exact_upto4 n g vr vars sord Hn Hg Ho) as Hc.
  unfold pc_dag. unfold cpdag_exactb in Hc.
  destruct (pc_pdag vr (dsep_oracle g) n vars sord) as [A|]; [|discriminate].
  apply andb_true_iff in Hc. destruct Hc as [Hc _].
  pose proof (arcs_eqb_harc _ _ Hc) as He.
  rewrite (arc_nodes_ext pord _ _ He), (canon_arcs_ext pord _ _ He).
  pose proof (le4_in5 n Hn) as Hn4.
  pose proof (forallb_In _ _ _ chk_dag_upto4 Hn4) as H1. unfold chk_dag in H1.
  pose proof (forallb_In _ _ _ H1 Hg) as H2. cbv beta zeta in H2.
  exact (forallb_In _ _ _ H2 Hp).
Qed.

(* ---- regression witness of the repaired defect 6ec15dd (5 nodes): the PDAG is the exact CPDAG; with the
   sink test as it was BEFORE the fix (sym = false: has_edge(Y, Z) one way) the loop finds no sink, takes the
   arbitrary-orientation fallback and creates a new v-structure (result outside the class); with the test as
   coded now (sym = true) no fallback is taken and the result is a member ---- *)
Definition g_w5 : digraph :=
  {| nodes := [0; 1; 2; 3; 4];
     edges := [(0, 2); (0, 3); (0, 4); (1, 2); (1, 3); (1, 4); (2, 3); (3, 4)] |}.

Lemma to_dag_one_way_test_witness_5 :
  exists g vars sord pord A D,
    length (nodes g) = 5 /\ acyclicb g = true /\
    pc_pdag Stable (dsep_oracle g) 5 vars sord = Some A /\
    cpdag_exactb g vars (Some A) = true /\
    to_dag false (arc_nodes pord A) (canon_arcs pord A) = Some (D, true) /\
    mequivb g {| nodes := nodes g; edges := D |} = false /\
    dag_memberb g (pc_dag Stable (dsep_oracle g) 5 vars sord pord) = true.
Proof.
  exists g_w5, [0; 1; 2; 3; 4], [0; 1; 2; 3; 4], [2; 4; 3; 0; 1].
  eexists. eexists.
  split; [reflexivity|]. split; [vm_compute; reflexivity|].
  split; [vm_compute; reflexivity|]. split; [vm_compute; reflexivity|].
  split; [vm_compute; reflexivity|]. split; vm_compute; reflexivity.
Qed.

(* ---- observation (not a defect of PC): independence_match over DAG.get_independencies() is a syntactic
   lookup in a list of maximal assertions, hence not the d-separation oracle; and PC takes its variables from
   the assertions ---- *)
Lemma im_oracle_not_dsep :
  (let g := {| nodes := [0; 1]; edges := [(0, 1)] |} in
   im_vars g = [] /\ pc_pdag Stable (im_oracle g) 2 (im_vars g) [0; 1] = Some [] /\ cpdag_arcs g = [(0, 1); (1, 0)])
  /\
  (let g := {| nodes := [0; 1; 2]; edges := [] |} in
   im_vars g = [0; 1; 2] /\ im_oracle g 0 1 [] = false /\ dsep_oracle g 0 1 [] = true /\
   exists E seps, build_skeleton Orig (im_oracle g) 3 [0; 1; 2] [0; 1; 2] = Some (E, seps) /\ E <> []).
Proof.
  split.
  - vm_compute. repeat split; reflexivity.
  - cbv zeta. repeat split; try (vm_compute; reflexivity).
    eexists. eexists. split; [vm_compute; reflexivity|discriminate].
Qed.
