(* C12 specification, internal consistency: the executable CPDAG (enumeration of the orientations of the
   skeleton, used by the finite-domain theorems and by the harness) is the CPDAG in the Prop sense (arc present
   iff SOME Markov-equivalent DAG — any digraph on the same nodes, not only the enumerated ones — has it). *)
From Coq Require Import List Bool Arith PeanoNat Lia.
From PV Require Import Base.Reach Base.Graph C08.Model C08.ProofsTrail C12.Model C12.Spec C12.ToDag.
Import ListNotations.

Lemma orients_cons e r o : In o (orients (e :: r)) <->
  exists o', In o' (orients r) /\ (o = (fst e, snd e) :: o' \/ o = (snd e, fst e) :: o').
Proof.
  simpl. rewrite in_flat_map. split.
  - intros [o' [Ho [H|[H|[]]]]]; exists o'; split; auto.
  - intros [o' [Ho [H|H]]]; exists o'; split; auto; simpl; auto.
Qed.

(* an orientation has the same skeleton *)
Lemma orients_skeleton : forall E o, In o (orients E) ->
  forall u v, (In (u, v) o \/ In (v, u) o) <-> (In (u, v) E \/ In (v, u) E).
Proof.
  induction E as [|e r IH]; intros o Ho u v.
  - simpl in Ho. destruct Ho as [<-|[]]. tauto.
  - apply orients_cons in Ho. destruct Ho as [o' [Ho' Hc]]. specialize (IH o' Ho' u v).
    destruct e as [a b]. simpl in Hc. simpl.
    destruct Hc as [->| ->]; simpl; split; intros H;
      repeat (match goal with
              | H : _ \/ _ |- _ => destruct H
              | H : (_, _) = (_, _) |- _ => inversion H; subst; clear H
              end); try tauto.
Qed.

Lemma orients_choice (f : node * node -> bool) : forall E,
  In (map (fun e => if f e then (fst e, snd e) else (snd e, fst e)) E) (orients E).
Proof.
  induction E as [|e r IH]; [left; reflexivity|].
  apply orients_cons. exists (map (fun e => if f e then (fst e, snd e) else (snd e, fst e)) r).
  split; [exact IH|]. simpl. destruct (f e); tauto.
Qed.

Lemma adjb_spec g u v : adjb g u v = true <-> adjacent g u v.
Proof. unfold adjb, adjacent. rewrite orb_true_iff, !has_edge_In. tauto. Qed.
Lemma ucollb_spec g a c b : ucollb g a c b = true <-> ucollider g a c b.
Proof.
  unfold ucollb, ucollider. rewrite !andb_true_iff, !negb_true_iff, !has_edge_In, Nat.eqb_neq.
  split.
  - intros [[[H1 H2] H3] H4]. repeat split; auto. intros Hc. apply adjb_spec in Hc. congruence.
  - intros [H1 [H2 [H3 H4]]]. repeat split; auto. destruct (adjb g a b) eqn:E; [|reflexivity].
    apply adjb_spec in E. contradiction.
Qed.

Section Bridge.
Variable g : digraph.
Hypothesis Hw : wf_graph g.
Hypothesis Ha : acyclic g.

Lemma orient_wf o : In o (orients (edges g)) -> wf_graph {| nodes := nodes g; edges := o |}.
Proof.
  intros Ho. split; [exact (proj1 Hw)|]. simpl. intros u v H.
  destruct (proj1 (orients_skeleton _ _ Ho u v) (or_introl H)) as [H'|H']; destruct (proj2 Hw _ _ H'); tauto.
Qed.

Lemma same_vsb_spec h : wf_graph h -> nodes h = nodes g ->
  (same_vsb g h = true <-> forall a c b, ucollider g a c b <-> ucollider h a c b).
Proof.
  intros Hwh Hn. unfold same_vsb. split.
  - intros H a c b.
    assert (Hin : (ucollider g a c b \/ ucollider h a c b) -> In a (nodes g) /\ In c (nodes g) /\ In b (nodes g)).
    { intros [[H1 [H2 _]]|[H1 [H2 _]]].
      - destruct (proj2 Hw _ _ H1), (proj2 Hw _ _ H2). tauto.
      - destruct (proj2 Hwh _ _ H1), (proj2 Hwh _ _ H2). rewrite Hn in *. tauto. }
    assert (Heq : In a (nodes g) -> In c (nodes g) -> In b (nodes g) -> ucollb g a c b = ucollb h a c b).
    { intros Ia Ic Ib. rewrite forallb_forall in H. specialize (H a Ia). rewrite forallb_forall in H.
      specialize (H c Ic). rewrite forallb_forall in H. specialize (H b Ib). apply eqb_prop in H. exact H. }
    split; intros Hc; destruct (Hin (ltac:(tauto))) as [Ia [Ic Ib]];
      apply ucollb_spec; [rewrite <- Heq by assumption|rewrite Heq by assumption]; apply ucollb_spec; exact Hc.
  - intros H. apply forallb_forall. intros a _. apply forallb_forall. intros c _. apply forallb_forall. intros b _.
    apply eqb_true_iff. apply eq_true_iff_eq. rewrite !ucollb_spec. apply H.
Qed.

Lemma mec_member h : In h (mec g) -> markov_equiv g h.
Proof.
  unfold mec. intros H. apply filter_In in H. destruct H as [Hin Hb]. apply andb_true_iff in Hb.
  destruct Hb as [Hac Hvs]. apply in_map_iff in Hin. destruct Hin as [o [<- Ho]].
  pose proof (orient_wf o Ho) as Hwh.
  unfold markov_equiv. split; [reflexivity|]. split; [exact Ha|].
  split; [apply (acyclicb_spec _ Hwh); exact Hac|]. split.
  - intros u v. unfold adjacent. simpl. symmetry. apply orients_skeleton. exact Ho.
  - apply (same_vsb_spec _ Hwh eq_refl). exact Hvs.
Qed.

(* every Markov-equivalent DAG has the arc set of some enumerated member *)
Lemma member_in_mec h : markov_equiv g h ->
  exists h', In h' (mec g) /\ forall a b, In (a, b) (edges h') <-> In (a, b) (edges h).
Proof.
  intros [Hn [_ [Hah [Hsk Hvs]]]].
  set (f := fun e : node * node => has_edge h (fst e) (snd e)).
  set (o := map (fun e => if f e then (fst e, snd e) else (snd e, fst e)) (edges g)).
  assert (Ho : In o (orients (edges g))) by apply orients_choice.
  assert (HC : forall a b, In (a, b) o <-> In (a, b) (edges h)).
  { intros a b. unfold o. rewrite in_map_iff. split.
    - intros [[x y] [He Hin]]. unfold f in He. simpl in He. destruct (has_edge h x y) eqn:E.
      + inversion He; subst. apply has_edge_In. exact E.
      + inversion He; subst.
        assert (Hadj : adjacent h b a) by (apply Hsk; left; exact Hin).
        destruct Hadj as [H|H]; [apply has_edge_In in H; congruence|exact H].
    - intros Hab. assert (Hadj : adjacent g a b) by (apply Hsk; left; exact Hab).
      destruct Hadj as [H|H].
      + exists (a, b). split; [|exact H]. unfold f. simpl. apply has_edge_In in Hab. rewrite Hab. reflexivity.
      + exists (b, a). split; [|exact H]. unfold f. simpl.
        destruct (has_edge h b a) eqn:E; [|reflexivity].
        apply has_edge_In in E. exfalso. exact (acyclic_no_2cycle h a b Hah Hab E). }
  exists {| nodes := nodes g; edges := o |}. split; [|exact HC].
  pose proof (orient_wf o Ho) as Hwh.
  unfold mec. apply filter_In. split; [apply in_map; exact Ho|]. apply andb_true_iff. split.
  - apply (acyclicb_spec _ Hwh). intros u v He Hp. simpl in He. apply HC in He.
    apply (Hah u v He). eapply dpath_edges_incl; [|exact Hp]. simpl. intros [a b] Hab. apply HC. exact Hab.
  - apply (same_vsb_spec _ Hwh eq_refl). intros a c b. rewrite Hvs.
    unfold ucollider, adjacent. simpl. rewrite !HC. tauto.
Qed.

Theorem cpdag_arcs_spec : is_cpdag_of g (cpdag_arcs g).
Proof.
  intros u v. unfold cpdag_arcs. rewrite in_flat_map. split.
  - intros [e [He Hin]]. apply in_app_or in Hin.
    assert (Hex : exists h, In h (mec g) /\ has_edge h u v = true).
    { destruct Hin as [Hin|Hin].
      - destruct (existsb (fun h => has_edge h (fst e) (snd e)) (mec g)) eqn:E; [|destruct Hin].
        destruct Hin as [Hq|[]]. inversion Hq; subst. apply existsb_exists in E. exact E.
      - destruct (existsb (fun h => has_edge h (snd e) (fst e)) (mec g)) eqn:E; [|destruct Hin].
        destruct Hin as [Hq|[]]. inversion Hq; subst. apply existsb_exists in E. exact E. }
    destruct Hex as [h [Hh Hq]]. exists h. split; [exact (mec_member h Hh)|apply has_edge_In; exact Hq].
  - intros [h [Heq Hin]]. destruct (member_in_mec h Heq) as [h' [Hh' HC]].
    assert (Hq : has_edge h' u v = true) by (apply has_edge_In, HC; exact Hin).
    assert (Hadj : adjacent g u v).
    { destruct Heq as [_ [_ [_ [Hsk _]]]]. apply Hsk. left. exact Hin. }
    destruct Hadj as [H|H].
    + exists (u, v). split; [exact H|]. apply in_or_app. left. simpl.
      assert (E : existsb (fun h0 => has_edge h0 u v) (mec g) = true)
        by (apply existsb_exists; exists h'; split; assumption).
      rewrite E. left. reflexivity.
    + exists (v, u). split; [exact H|]. apply in_or_app. right. simpl.
      assert (E : existsb (fun h0 => has_edge h0 u v) (mec g) = true)
        by (apply existsb_exists; exists h'; split; assumption).
      rewrite E. left. reflexivity.
Qed.

End Bridge.
