(* C12, unbounded: completeness of PDAG.to_dag's sink-removal loop as coded now (both-ways clique test, fix
   6ec15dd) — Dor & Tarsi: on EVERY extendable partially directed graph the loop never needs the arbitrary-
   orientation fallback; with ToDag.to_dag_invariants its result is then a consistent extension. *)
From Coq Require Import List Bool Arith PeanoNat Lia.
From PV Require Import Base.Reach Base.Graph C08.Model C08.ProofsMinsep C12.Model C12.Spec C12.ToDag.
Import ListNotations.

Lemma forallb_false_exists {A} (f : A -> bool) (l : list A) :
  forallb f l = false -> exists x, In x l /\ f x = false.
Proof.
  induction l as [|a l IH]; simpl; [discriminate|]. destruct (f a) eqn:E.
  - intros H. destruct (IH H) as [x [Hx Hf]]. exists x. tauto.
  - intros _. exists a. tauto.
Qed.

(* a finite acyclic digraph with at least one node has a sink *)
Lemma exists_sink G : wf_graph G -> acyclic G -> nodes G <> [] ->
  exists x, In x (nodes G) /\ forall y, ~ In (x, y) (edges G).
Proof.
  intros Hw Ha Hne.
  set (hasout := fun x => existsb (fun e : node * node => Nat.eqb (fst e) x) (edges G)).
  destruct (forallb hasout (nodes G)) eqn:E.
  - exfalso. rewrite forallb_forall in E.
    assert (Hlong : forall k u, In u (nodes G) -> exists w, dpathn G k u w).
    { induction k as [|k IH]; intros u Hu.
      - exists u. constructor.
      - specialize (E u Hu). unfold hasout in E. apply existsb_exists in E. destruct E as [[a b] [Hin Hq]].
        simpl in Hq. apply Nat.eqb_eq in Hq. subst a.
        destruct (IH b (proj2 (proj2 Hw _ _ Hin))) as [w Hp]. exists w. econstructor; eassumption. }
    assert (Hu0 : exists u0, In u0 (nodes G)).
    { destruct (nodes G) as [|u0 r]; [congruence|]. exists u0. left. reflexivity. }
    destruct Hu0 as [u0 Hu0].
    destruct (Hlong (S (length (nodes G))) u0 Hu0) as [w Hp].
    pose proof (dpathn_bound G _ u0 w Hw Ha Hp). lia.
  - apply forallb_false_exists in E. destruct E as [x [Hx Hf]]. exists x. split; [exact Hx|].
    intros y Hy. unfold hasout in Hf.
    assert (existsb (fun e : node * node => Nat.eqb (fst e) x) (edges G) = true).
    { apply existsb_exists. exists (x, y). split; [exact Hy|]. simpl. apply Nat.eqb_refl. }
    congruence.
Qed.

(* removing any node from an extendable PDAG leaves an extendable PDAG *)
Lemma restrict_extension ns A D x :
  consistent_extension ns A D -> consistent_extension (remove1 x ns) (del_node x A) (del_node x D).
Proof.
  intros [Hac Hsk Hdir Hvs]. constructor.
  - intros u v He Hp. simpl in He. apply In_del_node in He. destruct He as [He _].
    apply (Hac u v He). eapply dpath_edges_incl; [|exact Hp].
    simpl. intros [a b] Hab. apply In_del_node in Hab. tauto.
  - intros u v. unfold pd_adjacent in *. rewrite !In_del_node. specialize (Hsk u v). tauto.
  - intros u v [H1 H2]. apply In_del_node in H1. destruct H1 as [H1 [Hu Hv]].
    assert (Hd : pd_directed A u v).
    { split; [exact H1|]. intros Hc. apply H2. apply In_del_node. tauto. }
    destruct (Hdir u v Hd) as [H3 H4]. split.
    + apply In_del_node. tauto.
    + intros Hc. apply In_del_node in Hc. tauto.
  - intros a b c Hac' Hbc Hab Hn. apply In_del_node in Hac'. apply In_del_node in Hbc.
    destruct Hac' as [Hac' [Hax Hcx]]. destruct Hbc as [Hbc [Hbx _]].
    assert (Hn' : ~ pd_adjacent A a b).
    { intros [H|H]; apply Hn; [left|right]; apply In_del_node; tauto. }
    destruct (Hvs a b c Hac' Hbc Hab Hn') as [[H1 H2] [H3 H4]].
    split; split; try (apply In_del_node; tauto); intros Hc; apply In_del_node in Hc; tauto.
Qed.

(* a sink of a consistent extension passes the (both-ways) sink test of the PDAG *)
Lemma extension_sink_ok ns A D x :
  arcs_in ns A -> consistent_extension ns A D -> In x ns -> (forall y, ~ In (x, y) D) ->
  sinkok true ns A x = true.
Proof.
  intros Hin [Hac Hsk Hdir Hvs] Hx Hsink. unfold sinkok. apply andb_true_iff. split.
  - apply forallb_forall. intros y Hy. apply negb_true_iff. unfold dchild.
    destruct (harc A x y) eqn:E1; [|reflexivity]. destruct (harc A y x) eqn:E2; [reflexivity|].
    exfalso. apply harc_In in E1. apply harc_false in E2.
    destruct (Hdir x y (conj E1 E2)) as [H _]. exact (Hsink y H).
  - apply orb_true_iff. right. apply forallb_forall. intros z Hz. apply In_preds in Hz. destruct Hz as [Hzn Hzx].
    apply forallb_forall. intros y Hy.
    destruct (unbr A x y) eqn:Eu; [|reflexivity]. simpl.
    destruct (Nat.eqb y z) eqn:Eyz; [reflexivity|]. simpl.
    destruct (harc A y z) eqn:E1; [reflexivity|]. destruct (harc A z y) eqn:E2; [reflexivity|]. exfalso.
    apply Nat.eqb_neq in Eyz. apply harc_false in E1. apply harc_false in E2.
    unfold unbr in Eu. apply andb_true_iff in Eu. destruct Eu as [Exy Eyx].
    apply harc_In in Exy. apply harc_In in Eyx.
    assert (Hyd : In (y, x) D).
    { destruct (proj2 (Hsk y x) (or_introl Eyx)) as [H|H]; [exact H|]. exfalso. exact (Hsink y H). }
    assert (Hzd : In (z, x) D).
    { destruct (proj2 (Hsk z x) (or_introl Hzx)) as [H|H]; [exact H|]. exfalso. exact (Hsink z H). }
    assert (Hn : ~ pd_adjacent A y z) by (unfold pd_adjacent; tauto).
    destruct (Hvs y z x Hyd Hzd Eyz Hn) as [[_ H] _]. exact (H Exy).
Qed.

Lemma extension_arcs_in ns A D : arcs_in ns A -> consistent_extension ns A D -> arcs_in ns D.
Proof.
  intros Hin [_ Hsk _ _] u v H. destruct (proj1 (Hsk u v) (or_introl H)) as [H'|H']; apply Hin in H'; tauto.
Qed.

Lemma filter_len {A} (f : A -> bool) (l : list A) : length (filter f l) <= length l.
Proof. induction l as [|x l IH]; simpl; [lia|]. destruct (f x); simpl; lia. Qed.

Lemma remove1_length x (l : list node) : In x l -> length (remove1 x l) < length l.
Proof.
  unfold remove1. induction l as [|a l IH]; intros H; [destruct H|].
  cbn [filter length]. destruct (Nat.eqb a x) eqn:E; cbn [negb length].
  - apply Nat.lt_succ_r. apply filter_len.
  - apply Nat.eqb_neq in E. destruct H as [H|H]; [congruence|]. specialize (IH H). lia.
Qed.

Definition no_fallback (r : option (list arc * bool)) : Prop :=
  match r with Some (_, false) => True | _ => False end.

Lemma to_dag_loop_step f sym ns A dag : ns <> [] ->
  to_dag_loop (S f) sym ns A dag =
  match find (sinkok sym ns A) ns with
  | Some x => to_dag_loop f sym (remove1 x ns) (del_node x A)
                          (fold_left add_arc (map (fun y => (y, x)) (preds ns A x)) dag)
  | None => Some (fold_left (fun d (e : arc) => if harc d (snd e) (fst e) then d else add_arc d e) A dag, true)
  end.
Proof. destruct ns; [congruence|reflexivity]. Qed.

Lemma loop_complete : forall fuel ns A dag,
  length ns <= fuel -> NoDup ns -> arcs_in ns A ->
  (exists D, consistent_extension ns A D) ->
  no_fallback (to_dag_loop fuel true ns A dag).
Proof.
  induction fuel as [|f IH]; intros ns A dag Hlen Hnd Hin [D HD].
  - destruct ns as [|n0 ns]; [exact I|simpl in Hlen; lia].
  - destruct ns as [|n0 ns]; [exact I|].
    set (ns0 := n0 :: ns) in *.
    rewrite to_dag_loop_step by (unfold ns0; discriminate).
    destruct (find (sinkok true ns0 A) ns0) as [x|] eqn:Ef.
    + apply find_some in Ef. destruct Ef as [Hx _].
      apply IH.
      * pose proof (remove1_length x ns0 Hx). lia.
      * apply NoDup_filter. exact Hnd.
      * apply arcs_in_del. exact Hin.
      * exists (del_node x D). apply restrict_extension. exact HD.
    + exfalso.
      assert (HwD : wf_graph {| nodes := ns0; edges := D |}).
      { split; [exact Hnd|]. intros u v H. simpl in *. exact (extension_arcs_in ns0 A D Hin HD u v H). }
      destruct (exists_sink {| nodes := ns0; edges := D |} HwD (ce_acyclic _ _ _ HD)) as [x [Hx Hs]].
      { simpl. unfold ns0. discriminate. }
      simpl in Hx, Hs.
      pose proof (find_none _ _ Ef x Hx) as Hf.
      rewrite (extension_sink_ok ns0 A D x Hin HD Hx Hs) in Hf. discriminate.
Qed.

(* PDAG.to_dag = to_dag true: correct AND complete on every extendable partially directed graph *)
Theorem to_dag_complete : forall ns A,
  NoDup ns -> arcs_in ns A -> irrefl A ->
  (exists D, consistent_extension ns A D) ->
  exists D', to_dag true ns A = Some (D', false) /\ consistent_extension ns A D'.
Proof.
  intros ns A Hnd Hin Hirr Hex.
  pose proof (loop_complete (S (length ns)) ns A (fold_left add_arc (directed_arcs A) []) (Nat.le_succ_diag_r _) Hnd Hin Hex) as H.
  fold (to_dag true ns A) in H.
  destruct (to_dag true ns A) as [[out [|]]|] eqn:Ho; simpl in H; try contradiction.
  exists out. split; [reflexivity|]. exact (to_dag_invariants true ns A out Hin Hirr Ho).
Qed.

(* non-vacuity: an extendable PDAG with a directed parent over an undirected edge (the shape on which the test
   before fix 6ec15dd fell back) *)
Example to_dag_complete_nonvacuous :
  let ns := [0; 1; 2] in
  let A := [(0, 1); (0, 2); (1, 2); (2, 1)] in
  NoDup ns /\ arcs_in ns A /\ irrefl A /\ consistent_extension ns A [(0, 1); (0, 2); (1, 2)] /\
  to_dag false ns A = Some ([(0, 1); (0, 2); (1, 2)], true) /\
  to_dag true ns A = Some ([(0, 1); (0, 2); (2, 1)], false).
Proof.
  cbv zeta.
  assert (Hnd : NoDup [0; 1; 2]) by (repeat constructor; simpl; intuition lia).
  assert (Hin : arcs_in [0; 1; 2] [(0, 1); (0, 2); (1, 2); (2, 1)]).
  { intros u v H. simpl in H. repeat (destruct H as [H|H]; [inversion H; subst; simpl; tauto|]). destruct H. }
  split; [exact Hnd|]. split; [exact Hin|]. split.
  { intros u H. simpl in H. repeat (destruct H as [H|H]; [inversion H; lia|]). destruct H. }
  split; [|split; vm_compute; reflexivity].
  assert (Hw : wf_graph {| nodes := [0; 1; 2]; edges := [(0, 1); (0, 2); (1, 2)] |}).
  { split; [exact Hnd|]. intros u v H. simpl in H.
    repeat (destruct H as [H|H]; [inversion H; subst; simpl; tauto|]). destruct H. }
  constructor.
  - apply (acyclicb_spec _ Hw). vm_compute. reflexivity.
  - intros u v. unfold pd_adjacent. simpl. split; intros H;
      repeat (destruct H as [H|H]; try (inversion H; subst; tauto)); tauto.
  - intros u v [H1 H2]. unfold pd_directed. simpl in *.
    repeat (destruct H1 as [H1|H1]; try (inversion H1; subst; split; [tauto|]; intros Hc;
      repeat (destruct Hc as [Hc|Hc]; try discriminate; try (inversion Hc; fail)); try tauto)); try tauto.
  - intros a b c H1 H2 Hab Hn. exfalso. unfold pd_adjacent in Hn. simpl in *.
    repeat (destruct H1 as [H1|H1]; try (inversion H1; subst));
    repeat (destruct H2 as [H2|H2]; try (inversion H2; subst)); try tauto; try congruence.
Qed.
