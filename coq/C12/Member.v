(* C12, unbounded: the DAG return type.  For EVERY DAG g and every arc set A that is the CPDAG of g's Markov
   equivalence class (Spec.is_cpdag_of: arc present iff some member of the class has it), PDAG.to_dag on A — any
   node order, any arc order — takes no fallback and returns an acyclic member of the class.
   (So `return_type="dag"` is right for all n as soon as the PDAG phase is: the only part of the pipeline that is
   not proved for all n is the three propagation rules.) *)
From Coq Require Import List Bool Arith PeanoNat Lia.
From PV Require Import Base.Reach Base.Graph C08.Model C08.ProofsTrail C12.Model C12.Spec C12.ToDag C12.DorTarsi
  C12.SpecBridge C12.FiniteDefs.
Import ListNotations.

Section Member.
Variable g : digraph.
Hypothesis Hw : wf_graph g.
Hypothesis Ha : acyclic g.
Variable A : list arc.
Hypothesis HA : is_cpdag_of g A.

Lemma equiv_refl : markov_equiv g g.
Proof. unfold markov_equiv. split; [reflexivity|]. split; [exact Ha|]. split; [exact Ha|]. split; intros; tauto. Qed.

Lemma F1 u v : In (u, v) (edges g) -> In (u, v) A.
Proof. intros H. apply HA. exists g. split; [exact equiv_refl|exact H]. Qed.
Lemma F2 u v : In (u, v) A -> adjacent g u v.
Proof.
  intros H. apply HA in H. destruct H as [h [[_ [_ [_ [Hs _]]]] Hh]]. apply Hs. left. exact Hh.
Qed.
Lemma F3 a c b : ucollider g a c b -> ~ In (c, a) A.
Proof.
  intros Hc H. apply HA in H. destruct H as [h [[_ [_ [Hah [_ Hv]]]] Hh]].
  apply Hv in Hc. destruct Hc as [Hac _]. exact (acyclic_no_2cycle h a c Hah Hac Hh).
Qed.
Lemma F4 a c : pd_directed A a c -> In (a, c) (edges g).
Proof.
  intros [H1 H2]. destruct (F2 a c H1) as [H|H]; [exact H|]. exfalso. exact (H2 (F1 c a H)).
Qed.
Lemma ucollider_sym a c b : ucollider g a c b -> ucollider g b c a.
Proof. intros [H1 [H2 [H3 H4]]]. unfold ucollider, adjacent in *. repeat split; auto; tauto. Qed.

Lemma acyclic_nodes_irrelevant ns ns' (D : list arc) :
  acyclic {| nodes := ns; edges := D |} -> acyclic {| nodes := ns'; edges := D |}.
Proof.
  intros H u v He Hp. apply (H u v He). eapply dpath_edges_incl; [|exact Hp]. simpl. auto.
Qed.

(* the truth itself is a consistent extension of its CPDAG *)
Lemma truth_extends ns : consistent_extension ns A (edges g).
Proof.
  constructor.
  - apply (acyclic_nodes_irrelevant (nodes g)). destruct g. exact Ha.
  - intros u v. unfold pd_adjacent. split.
    + intros [H|H]; [left|right]; apply F1; exact H.
    + intros [H|H]; apply F2 in H; unfold adjacent in H; tauto.
  - intros u v Hd. split; [exact (F4 u v Hd)|]. intros Hc. exact (proj2 Hd (F1 v u Hc)).
  - intros a b c Hac Hbc Hab Hn.
    assert (Hcol : ucollider g a c b).
    { repeat split; try assumption. intros [H|H]; apply Hn; [left|right]; apply F1; exact H. }
    split; split; try (apply F1; assumption).
    + exact (F3 a c b Hcol).
    + exact (F3 b c a (ucollider_sym a c b Hcol)).
Qed.

(* every consistent extension of the CPDAG is a member of the class *)
Lemma extension_is_member ns D : consistent_extension ns A D ->
  markov_equiv g {| nodes := nodes g; edges := D |}.
Proof.
  intros [Hac Hsk Hdir Hvs].
  assert (Hskel : forall u v, adjacent g u v <-> adjacent {| nodes := nodes g; edges := D |} u v).
  { intros u v. unfold adjacent. simpl. change (In (u, v) D \/ In (v, u) D) with (pd_adjacent D u v).
    rewrite Hsk. unfold pd_adjacent. split.
    - intros [H|H]; [left|right]; apply F1; exact H.
    - intros [H|H]; apply F2 in H; unfold adjacent in H; tauto. }
  unfold markov_equiv. split; [reflexivity|]. split; [exact Ha|].
  split; [exact (acyclic_nodes_irrelevant ns (nodes g) D Hac)|]. split; [exact Hskel|].
  intros a c b. split.
  - intros Hc. pose proof Hc as [Hac' [Hbc [Hab Hn]]].
    assert (Hda : pd_directed A a c) by (split; [apply F1; exact Hac'|exact (F3 a c b Hc)]).
    assert (Hdb : pd_directed A b c) by (split; [apply F1; exact Hbc|exact (F3 b c a (ucollider_sym a c b Hc))]).
    unfold ucollider. simpl. split; [exact (proj1 (Hdir a c Hda))|]. split; [exact (proj1 (Hdir b c Hdb))|].
    split; [exact Hab|]. intros H. apply Hn. apply Hskel. exact H.
  - intros [Hac' [Hbc [Hab Hn]]]. simpl in Hac', Hbc.
    assert (Hna : ~ pd_adjacent A a b).
    { intros H. apply Hn. apply Hsk in H. exact H. }
    destruct (Hvs a b c Hac' Hbc Hab Hna) as [Hda Hdb].
    unfold ucollider. split; [exact (F4 a c Hda)|]. split; [exact (F4 b c Hdb)|]. split; [exact Hab|].
    intros H. apply Hn. apply Hskel. exact H.
Qed.

Lemma cpdag_arcs_in ns : (forall v, In v (nodes g) -> In v ns) -> arcs_in ns A.
Proof.
  intros Hns u v H. apply F2 in H. destruct H as [H|H]; destruct (proj2 Hw _ _ H); split; apply Hns; assumption.
Qed.

Theorem dag_member_of_cpdag : forall ns,
  NoDup ns -> arcs_in ns A ->
  exists D, to_dag true ns A = Some (D, false) /\ consistent_extension ns A D /\
            markov_equiv g {| nodes := nodes g; edges := D |}.
Proof.
  intros ns Hnd Hin.
  assert (Hirr : irrefl A).
  { intros u H. apply F2 in H. destruct H as [H|H]; exact (acyclic_no_self g u Ha H). }
  destruct (to_dag_complete ns A Hnd Hin Hirr (ex_intro _ (edges g) (truth_extends ns))) as [D [Hd Hce]].
  exists D. split; [exact Hd|]. split; [exact Hce|]. exact (extension_is_member ns D Hce).
Qed.

End Member.

(* return_type="dag" for every number of nodes, reduced to the PDAG phase: whenever PC's PDAG is the CPDAG of the
   truth's class (the executable specification), estimate(return_type="dag") takes no fallback and returns a member
   of the class — for every node order pord of the PDAG object that lists the truth's nodes without repetition *)
Theorem dag_member_if_cpdag_exact : forall g vr indep maxc vars sord pord,
  wf_graph g -> acyclic g -> NoDup pord -> (forall v, In v (nodes g) -> In v pord) ->
  cpdag_exactb g vars (pc_pdag vr indep maxc vars sord) = true ->
  exists D, pc_dag vr indep maxc vars sord pord = Some (D, false) /\
            markov_equiv g {| nodes := nodes g; edges := D |}.
Proof.
  intros g vr indep maxc vars sord pord Hw Ha Hnd Hp Hc.
  unfold pc_dag. unfold cpdag_exactb in Hc.
  destruct (pc_pdag vr indep maxc vars sord) as [A|]; [|discriminate].
  apply andb_true_iff in Hc. destruct Hc as [Hc _].
  assert (He : forall u v, In (u, v) A <-> In (u, v) (cpdag_arcs g)).
  { unfold arcs_eqb in Hc. apply andb_true_iff in Hc. destruct Hc as [H1 H2].
    rewrite forallb_forall in H1, H2. intros u v. split; intros H.
    - apply harc_In. exact (H1 (u, v) H).
    - apply harc_In. exact (H2 (u, v) H). }
  pose proof (cpdag_arcs_spec g Hw Ha) as Hspec.
  assert (Hcan : forall u v, In (u, v) (canon_arcs pord A) <-> In (u, v) (cpdag_arcs g)).
  { intros u v. unfold canon_arcs. rewrite in_flat_map. split.
    - intros [x [Hx H]]. apply in_map_iff in H. destruct H as [y [Hq Hy]]. inversion Hq; subst.
      apply filter_In in Hy. apply He, harc_In. tauto.
    - intros H. pose proof (F2 g (cpdag_arcs g) Hspec u v H) as Hadj.
      assert (Huv : In u (nodes g) /\ In v (nodes g)) by (destruct Hadj as [X|X]; destruct (proj2 Hw _ _ X); tauto).
      exists u. split; [apply Hp; tauto|]. apply in_map. apply filter_In. split; [apply Hp; tauto|].
      apply harc_In, He. exact H. }
  assert (HA' : is_cpdag_of g (canon_arcs pord A)).
  { intros u v. rewrite Hcan. apply Hspec. }
  assert (Hin : arcs_in (arc_nodes pord A) (canon_arcs pord A)).
  { intros u v H. pose proof H as H0. apply Hcan, He in H.
    pose proof (F2 g _ HA' u v H0) as Hadj.
    assert (Huv : In u (nodes g) /\ In v (nodes g)) by (destruct Hadj as [X|X]; destruct (proj2 Hw _ _ X); tauto).
    unfold arc_nodes. split; apply filter_In; (split; [apply Hp; tauto|]); apply existsb_exists; exists (u, v);
      (split; [exact H|]); simpl; rewrite Nat.eqb_refl; [reflexivity|apply orb_true_r]. }
  destruct (dag_member_of_cpdag g Hw Ha (canon_arcs pord A) HA' (arc_nodes pord A)
              (NoDup_filter _ Hnd) Hin) as [D [Hd [_ Hm]]].
  exists D. split; [exact Hd|exact Hm].
Qed.
