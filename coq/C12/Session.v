(* C12: PC.estimate as modelled has no state across calls.  In the model a call of estimate() is the pure function
   [run_call] of its own arguments (variant, oracle, max_cond_vars, orders): nothing is read from or written to the
   PC object, so in a session of several calls on one object every answer is the answer of that call made alone.
   The harness checks the same on pgmpy with a "session" stream (one PC(data) object, several ground-truth oracles
   produced by one factory, hence with the same __name__). *)
From Coq Require Import List Bool Arith.
From PV Require Import Base.Graph C08.Model C12.Model.
Import ListNotations.

Record call := { c_variant : variant; c_indep : node -> node -> list node -> bool; c_maxc : nat;
                 c_vars : list node; c_sord : list node }.
Definition run_call (c : call) : option (list arc * sepmap) * option (list arc) :=
  (build_skeleton (c_variant c) (c_indep c) (c_maxc c) (c_vars c) (c_sord c),
   pc_pdag (c_variant c) (c_indep c) (c_maxc c) (c_vars c) (c_sord c)).
(* a session on one PC object: the list of answers *)
Definition session (cs : list call) : list (option (list arc * sepmap) * option (list arc)) := map run_call cs.

Lemma session_no_cross_call_state : forall before c after d,
  nth (length before) (session (before ++ c :: after)) d = run_call c.
Proof.
  intros before c after d. unfold session. rewrite map_app. simpl.
  rewrite app_nth2; rewrite map_length; [|apply le_n]. rewrite Nat.sub_diag. reflexivity.
Qed.
