(* C12 specification: Markov equivalence (Verma & Pearl: same skeleton and same unshielded colliders),
   the CPDAG of a DAG's equivalence class, consistent extensions of a PDAG (Dor & Tarsi).
   No algorithm of pgmpy here.  The class is given both as a Prop and by executable enumeration
   (all orientations of the skeleton), so that finite-domain theorems can be computed. *)
From Coq Require Import List Bool Arith PeanoNat.
From PV Require Import Base.Reach Base.Graph.
Import ListNotations.

Definition adjb (g : digraph) (u v : node) : bool := has_edge g u v || has_edge g v u.
(* unshielded collider a -> c <- b *)
Definition ucollb (g : digraph) (a c b : node) : bool :=
  has_edge g a c && has_edge g b c && negb (Nat.eqb a b) && negb (adjb g a b).

Definition adjacent (g : digraph) (u v : node) : Prop := In (u, v) (edges g) \/ In (v, u) (edges g).
Definition ucollider (g : digraph) (a c b : node) : Prop :=
  In (a, c) (edges g) /\ In (b, c) (edges g) /\ a <> b /\ ~ adjacent g a b.

(* Markov equivalence of two DAGs on the same nodes *)
Definition markov_equiv (g h : digraph) : Prop :=
  nodes g = nodes h /\ acyclic g /\ acyclic h /\
  (forall u v, adjacent g u v <-> adjacent h u v) /\
  (forall a c b, ucollider g a c b <-> ucollider h a c b).

(* ---- executable versions over the node list of g ---- *)
Definition same_skelb (g h : digraph) : bool :=
  forallb (fun a => forallb (fun b => Bool.eqb (adjb g a b) (adjb h a b)) (nodes g)) (nodes g).
Definition same_vsb (g h : digraph) : bool :=
  forallb (fun a => forallb (fun c => forallb (fun b =>
     Bool.eqb (ucollb g a c b) (ucollb h a c b)) (nodes g)) (nodes g)) (nodes g).
Definition mequivb (g h : digraph) : bool := acyclicb h && same_skelb g h && same_vsb g h.

(* every orientation of a list of edges *)
Fixpoint orients (E : list (node * node)) : list (list (node * node)) :=
  match E with
  | [] => [[]]
  | e :: r => flat_map (fun o => [(fst e, snd e) :: o; (snd e, fst e) :: o]) (orients r)
  end.

(* the Markov equivalence class of g, by enumeration of the orientations of its skeleton *)
Definition mec (g : digraph) : list digraph :=
  filter (fun h => acyclicb h && same_vsb g h)
         (map (fun o => {| nodes := nodes g; edges := o |}) (orients (edges g))).

(* CPDAG as an arc set: arc u -> v is present iff some member of the class has u -> v.
   So u -> v is "directed" (v -> u absent) iff all members agree on it, and u - v is both arcs. *)
Definition cpdag_arcs (g : digraph) : list (node * node) :=
  let cls := mec g in
  flat_map (fun e =>
              (if existsb (fun h => has_edge h (fst e) (snd e)) cls then [(fst e, snd e)] else [])
              ++ (if existsb (fun h => has_edge h (snd e) (fst e)) cls then [(snd e, fst e)] else []))
           (edges g).

(* Prop reading of the same object *)
Definition is_cpdag_of (g : digraph) (A : list (node * node)) : Prop :=
  forall u v, In (u, v) A <-> exists h, markov_equiv g h /\ In (u, v) (edges h).

(* ---- consistent extension of a partially directed graph (arc set A; u - v = both arcs) ---- *)
Definition pd_directed (A : list (node * node)) (u v : node) : Prop := In (u, v) A /\ ~ In (v, u) A.
Definition pd_adjacent (A : list (node * node)) (u v : node) : Prop := In (u, v) A \/ In (v, u) A.

Record consistent_extension (ns : list node) (A D : list (node * node)) : Prop := {
  ce_acyclic : acyclic {| nodes := ns; edges := D |};
  ce_skeleton : forall u v, pd_adjacent D u v <-> pd_adjacent A u v;
  ce_directed : forall u v, pd_directed A u v -> pd_directed D u v;
  ce_no_new_vstructure : forall a b c, In (a, c) D -> In (b, c) D -> a <> b -> ~ pd_adjacent A a b ->
                                        pd_directed A a c /\ pd_directed A b c
}.

(* executable check of the same four conditions (for the finite-domain theorems and the harness) *)
Definition arcb (A : list (node * node)) (u v : node) : bool := existsb (edge_eqb (u, v)) A.
Definition impb (a b : bool) : bool := negb a || b.
Definition consistent_extb (ns : list node) (A D : list (node * node)) : bool :=
  acyclicb {| nodes := ns; edges := D |}
  && forallb (fun u => forallb (fun v =>
        Bool.eqb (arcb D u v || arcb D v u) (arcb A u v || arcb A v u)) ns) ns
  && forallb (fun e => impb (negb (arcb A (snd e) (fst e))) (arcb D (fst e) (snd e) && negb (arcb D (snd e) (fst e)))) A
  && forallb (fun e1 => forallb (fun e2 =>
        impb (Nat.eqb (snd e1) (snd e2) && negb (Nat.eqb (fst e1) (fst e2))
              && negb (arcb A (fst e1) (fst e2) || arcb A (fst e2) (fst e1)))
             (arcb A (fst e1) (snd e1) && negb (arcb A (snd e1) (fst e1))
              && arcb A (fst e2) (snd e2) && negb (arcb A (snd e2) (fst e2)))) D) D.

(* ---- all DAGs on the labelled nodes 0..n-1 ---- *)
Fixpoint upairs (l : list node) : list (node * node) :=
  match l with [] => [] | x :: r => map (fun y => (x, y)) r ++ upairs r end.
Fixpoint choices (P : list (node * node)) : list (list (node * node)) :=
  match P with
  | [] => [[]]
  | e :: r => flat_map (fun o => [o; (fst e, snd e) :: o; (snd e, fst e) :: o]) (choices r)
  end.
Definition all_dags (n : nat) : list digraph :=
  filter acyclicb (map (fun es => {| nodes := seq 0 n; edges := es |}) (choices (upairs (seq 0 n)))).

(* permutations of a list (order parameters of the finite-domain theorems) *)
Fixpoint insert_all (x : node) (l : list node) : list (list node) :=
  match l with
  | [] => [[x]]
  | y :: r => (x :: l) :: map (cons y) (insert_all x r)
  end.
Fixpoint perms (l : list node) : list (list node) :=
  match l with [] => [[]] | x :: r => flat_map (insert_all x) (perms r) end.
