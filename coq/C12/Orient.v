(* C12, unbounded: SOUNDNESS of the orientation phase of PC.skeleton_to_pdag (v-structures, then the three
   propagation rules as coded after fixes d85fe02 and ad4d524), for every DAG, every node order and set order:
   no arc is ever removed that some member of the truth's Markov equivalence class has.  Hence the returned PDAG
   contains the CPDAG: every edge it directs is compelled and directed as in the truth, it never contradicts a
   member, and its directed part is acyclic.  (Completeness — every compelled edge does get directed, Meek's
   theorem — is NOT proved here; it is the finite-domain part of C12.) *)
From Coq Require Import List Bool Arith PeanoNat Lia.
From PV Require Import Base.Reach Base.Graph C08.Model C08.ProofsTrail C12.Model C12.Spec C12.ToDag C12.VPhase
  C12.Skeleton.
Import ListNotations.

Lemma fold_inv {A B} (P : A -> Prop) (f : A -> B -> A) (l : list B) :
  (forall a x, In x l -> P a -> P (f a x)) -> forall a, P a -> P (fold_left f l a).
Proof.
  induction l as [|x l IH]; intros Hf a Ha; [exact Ha|]. simpl. apply IH.
  - intros a' x' Hx. apply Hf. right. exact Hx.
  - apply Hf; [left; reflexivity|exact Ha].
Qed.

Lemma In_to_directed E u v : In (u, v) (to_directed E) <-> uadj E u v = true.
Proof.
  unfold to_directed. rewrite in_flat_map, uadj_In. split.
  - intros [[a b] [He [H|[H|[]]]]]; simpl in H; inversion H; subst; tauto.
  - intros [H|H]; [exists (u, v)|exists (v, u)]; (split; [exact H|]); simpl; tauto.
Qed.

Section Orient.
Variable g : digraph.
Hypothesis Hw : wf_graph g.
Hypothesis Ha : acyclic g.
Variable vars : list node.
Hypothesis Hnd : NoDup vars.
Hypothesis Hvars : forall v, In v vars <-> In v (nodes g).

Definition member (h : digraph) : Prop := markov_equiv g h.
Definition nomember (a b : node) : Prop := forall h, member h -> ~ In (a, b) (edges h).

Lemma member_self : member g.
Proof. unfold member, markov_equiv. split; [reflexivity|]. split; [exact Ha|]. split; [exact Ha|]. split; intros; tauto. Qed.

Record OInv (A : list arc) : Prop := {
  o_members : forall h, member h -> forall u v, In (u, v) (edges h) -> In (u, v) A;
  o_adj : forall u v, In (u, v) A -> adjacent g u v;
  o_coll : forall a c b, ucollider g a c b -> ~ In (c, a) A
}.

Lemma member_adj h u v : member h -> (adjacent g u v <-> adjacent h u v).
Proof. intros [_ [_ [_ [Hs _]]]]. apply Hs. Qed.
Lemma member_acyclic h : member h -> acyclic h.
Proof. intros [_ [_ [H _]]]. exact H. Qed.
Lemma member_coll h a c b : member h -> (ucollider g a c b <-> ucollider h a c b).
Proof. intros [_ [_ [_ [_ Hv]]]]. apply Hv. Qed.

(* a strictly directed arc of A is an arc of every member *)
Lemma member_has A h a b : OInv A -> member h -> In (a, b) A -> ~ In (b, a) A -> In (a, b) (edges h).
Proof.
  intros HI Hh Hab Hba. pose proof (o_adj A HI a b Hab) as Hadj. apply (member_adj h a b Hh) in Hadj.
  destruct Hadj as [H|H]; [exact H|]. exfalso. apply Hba. exact (o_members A HI h Hh b a H).
Qed.

Lemma nonadj_of_A A x y : OInv A -> harc A x y = false -> harc A y x = false -> ~ adjacent g x y.
Proof.
  intros HI H1 H2 [H|H]; apply (o_members A HI g member_self) in H; apply harc_In in H; congruence.
Qed.

Lemma oinv_rarc A a b : OInv A -> nomember a b -> OInv (rarc A a b).
Proof.
  intros [H1 H2 H3] Hn. constructor.
  - intros h Hh u v Huv. apply In_rarc. split; [exact (H1 h Hh u v Huv)|]. intros He. inversion He; subst.
    exact (Hn h Hh Huv).
  - intros u v H. apply In_rarc in H. apply H2. tauto.
  - intros x c y Hc H. apply In_rarc in H. exact (H3 x c y Hc (proj1 H)).
Qed.

Lemma fold_rarc_l y : forall l A, OInv A -> (forall z, In z l -> nomember y z) ->
  OInv (fold_left (fun A z => rarc A y z) l A).
Proof.
  induction l as [|z l IH]; intros A HI Hl; [exact HI|]. simpl. apply IH.
  - apply oinv_rarc; [exact HI|apply Hl; left; reflexivity].
  - intros z' Hz'. apply Hl. right. exact Hz'.
Qed.
Lemma fold_rarc_r z : forall l A, OInv A -> (forall w, In w l -> nomember w z) ->
  OInv (fold_left (fun A w => rarc A w z) l A).
Proof.
  induction l as [|w l IH]; intros A HI Hl; [exact HI|]. simpl. apply IH.
  - apply oinv_rarc; [exact HI|apply Hl; left; reflexivity].
  - intros w' Hw'. apply Hl. right. exact Hw'.
Qed.

Lemma dchild_facts A x z : dchild A x z = true -> In (x, z) A /\ ~ In (z, x) A.
Proof.
  unfold dchild. rewrite andb_true_iff, negb_true_iff. intros [H1 H2].
  apply harc_In in H1. apply harc_false in H2. tauto.
Qed.
Lemma unbr_facts A x z : unbr A x z = true -> In (x, z) A /\ In (z, x) A.
Proof. unfold unbr. rewrite andb_true_iff. intros [H1 H2]. apply harc_In in H1. apply harc_In in H2. tauto. Qed.

(* ---- rule 2 (Meek R1) ---- *)
Lemma rule2_sound A : OInv A -> OInv (rule2_pass vars A).
Proof.
  unfold rule2_pass. apply fold_inv. intros A0 [x y] _ HI.
  destruct (negb (harc A0 x y) && negb (harc A0 y x)) eqn:En; [|exact HI].
  apply andb_true_iff in En. destruct En as [E1 E2]. apply negb_true_iff in E1. apply negb_true_iff in E2.
  apply fold_rarc_l; [exact HI|]. intros z Hz. apply filter_In in Hz. destruct Hz as [_ Hz].
  apply andb_true_iff in Hz. destruct Hz as [Hd Hu].
  destruct (dchild_facts _ _ _ Hd) as [Hxz Hzx]. destruct (unbr_facts _ _ _ Hu) as [Hyz Hzy].
  intros h Hh Hyzh.
  pose proof (member_has A0 h x z HI Hh Hxz Hzx) as Hxzh.
  assert (Hxy : x <> y) by (intros ->; contradiction).
  assert (Hna : ~ adjacent g x y) by (apply (nonadj_of_A A0); assumption).
  assert (Hc : ucollider h y z x).
  { repeat split; try assumption; [congruence|]. intros Hc. apply Hna. apply (member_adj h x y Hh).
    unfold adjacent in *. tauto. }
  apply (member_coll h y z x Hh) in Hc. exact (o_coll A0 HI y z x Hc Hzy).
Qed.

(* ---- rule 3 (Meek R2, with directed paths of any length) ---- *)
Lemma dpart_wf A : OInv A -> wf_graph (dpart vars A).
Proof.
  intros HI. split; [exact Hnd|]. simpl. intros u v H. apply filter_In in H. destruct H as [H _].
  destruct (adjacent_nodes g Hw Ha u v (o_adj A HI u v H)) as [Hu [Hv _]]. split; apply Hvars; assumption.
Qed.

Lemma rule3_sound A : OInv A -> OInv (rule3_pass vars A).
Proof.
  unfold rule3_pass. apply fold_inv. intros A0 [x y] _ HI.
  destruct (harc A0 y x && harc A0 x y && has_path (dpart vars A0) x y) eqn:En; [|exact HI].
  apply andb_true_iff in En. destruct En as [_ Hp].
  apply (has_path_spec _ x y (dpart_wf A0 HI)) in Hp.
  apply oinv_rarc; [exact HI|]. intros h Hh Hyx.
  apply (member_acyclic h Hh y x Hyx). eapply dpath_edges_incl; [|exact Hp].
  simpl. intros [a b] Hab. apply filter_In in Hab. destruct Hab as [Hab Hn]. simpl in Hn.
  apply negb_true_iff, harc_false in Hn. exact (member_has A0 h a b HI Hh Hab Hn).
Qed.

(* ---- rule 4 (Meek R3; X, Y non-adjacent since fix ad4d524) ---- *)
Lemma rule4_sound sord A : OInv A -> OInv (rule4_pass vars sord A).
Proof.
  unfold rule4_pass. apply fold_inv. intros A0 [x y] Hp HI.
  apply In_npairs in Hp. destruct Hp as [_ [_ Hxy]].
  destruct (harc A0 x y || harc A0 y x) eqn:En; [exact HI|].
  apply orb_false_iff in En. destruct En as [E1 E2].
  assert (Hna : ~ adjacent g x y) by (apply (nonadj_of_A A0); assumption).
  apply fold_inv; [|exact HI]. intros A1 z Hz HI1.
  apply In_setord, filter_In in Hz. destruct Hz as [_ Hz]. apply andb_true_iff in Hz. destruct Hz as [Hux Huy].
  destruct (unbr_facts _ _ _ Hux) as [Hxz Hzx]. destruct (unbr_facts _ _ _ Huy) as [Hyz Hzy].
  apply fold_rarc_r; [exact HI1|]. intros w Hw0. apply filter_In in Hw0. destruct Hw0 as [_ Hw0].
  apply andb_true_iff in Hw0. destruct Hw0 as [Hw0 _]. apply andb_true_iff in Hw0. destruct Hw0 as [Hdx Hdy].
  destruct (dchild_facts _ _ _ Hdx) as [Hxw Hwx]. destruct (dchild_facts _ _ _ Hdy) as [Hyw Hwy].
  intros h Hh Hwz.
  pose proof (member_has A1 h x w HI1 Hh Hxw Hwx) as Hxwh.
  pose proof (member_has A1 h y w HI1 Hh Hyw Hwy) as Hywh.
  assert (Hside : forall p, In (p, z) A0 -> In (p, w) (edges h) -> In (p, z) (edges h)).
  { intros p Hpz Hpw. pose proof (o_adj A0 HI p z Hpz) as Hadj. apply (member_adj h p z Hh) in Hadj.
    destruct Hadj as [H|H]; [exact H|]. exfalso.
    apply (member_acyclic h Hh p w Hpw). eapply dpath_step; [|exact H].
    eapply dpath_step; [apply dpath_refl|exact Hwz]. }
  pose proof (Hside x Hxz Hxwh) as Hxzh. pose proof (Hside y Hyz Hywh) as Hyzh.
  assert (Hc : ucollider h x z y).
  { repeat split; try assumption. intros Hc. apply Hna. apply (member_adj h x y Hh). exact Hc. }
  apply (member_coll h x z y Hh) in Hc. exact (o_coll A0 HI x z y Hc Hzx).
Qed.

Lemma orient_loop_sound sord : forall fuel A, OInv A -> OInv (orient_loop fuel vars sord A).
Proof.
  induction fuel as [|f IH]; intros A HI; [exact HI|]. cbn [orient_loop].
  assert (H' : OInv (rule4_pass vars sord (rule3_pass vars (rule2_pass vars A)))).
  { apply rule4_sound, rule3_sound, rule2_sound. exact HI. }
  destruct (Nat.ltb _ _); [apply IH; exact H'|exact H'].
Qed.

(* ---- the state after the v-structure phase ---- *)
Lemma vphase_oinv E seps A : skeleton_ok g vars E seps ->
  vphase vars E seps (to_directed E) = Some A -> OInv A.
Proof.
  intros Hok HA. pose proof (vstructure_phase_sound g vars E seps A Hw Ha Hok HA) as Hchar.
  destruct Hok as [_ Hadj _ _]. constructor.
  - intros h Hh u v Huv. apply Hchar. split.
    + apply In_to_directed, Hadj, (member_adj h u v Hh). left. exact Huv.
    + intros [y Hc]. apply (member_coll h v u y Hh) in Hc. destruct Hc as [Hvu _].
      exact (acyclic_no_2cycle h u v (member_acyclic h Hh) Huv Hvu).
  - intros u v H. apply Hchar in H. apply Hadj, In_to_directed. tauto.
  - intros a c b Hc H. apply Hchar in H. apply (proj2 H). exists b. exact Hc.
Qed.

Theorem orientation_sound : forall sord E seps A,
  skeleton_ok g vars E seps -> skeleton_to_pdag vars sord E seps = Some A ->
  (* every arc of every member of the class is still present ... *)
  (forall h, markov_equiv g h -> forall u v, In (u, v) (edges h) -> In (u, v) A) /\
  (* ... over the truth's skeleton ... *)
  (forall u v, (In (u, v) A \/ In (v, u) A) <-> adjacent g u v) /\
  (* ... so every edge the PDAG directs is directed that way in EVERY member (compelled, and as in the truth) *)
  (forall u v, In (u, v) A -> ~ In (v, u) A -> forall h, markov_equiv g h -> In (u, v) (edges h)).
Proof.
  intros sord E seps A Hok H. unfold skeleton_to_pdag in H.
  destruct (vphase vars E seps (to_directed E)) as [A1|] eqn:Ev; [|discriminate]. inversion H; subst A.
  pose proof (orient_loop_sound sord (S (length A1)) A1 (vphase_oinv E seps A1 Hok Ev)) as HI.
  split; [exact (o_members _ HI)|]. split.
  - intros u v. split.
    + intros [X|X]; apply (o_adj _ HI) in X; unfold adjacent in *; tauto.
    + intros [X|X]; [left|right]; exact (o_members _ HI g member_self _ _ X).
  - intros u v Huv Hvu h Hh. exact (member_has _ h u v HI Hh Huv Hvu).
Qed.

End Orient.

(* end to end, every DAG: skeleton phase + orientation phase *)
Theorem pc_pdag_sound : forall g vars sord vr maxc A,
  wf_graph g -> acyclic g -> NoDup vars -> (forall v, In v vars <-> In v (nodes g)) ->
  (forall y, In y (nodes g) -> indeg g y <= maxc) ->
  pc_pdag vr (dsep_oracle g) maxc vars sord = Some A ->
  (forall h, markov_equiv g h -> forall u v, In (u, v) (edges h) -> In (u, v) A) /\
  (forall u v, (In (u, v) A \/ In (v, u) A) <-> adjacent g u v) /\
  (forall u v, In (u, v) A -> ~ In (v, u) A -> forall h, markov_equiv g h -> In (u, v) (edges h)).
Proof.
  intros g vars sord vr maxc A Hw Ha Hnd Hvars Hmax H. unfold pc_pdag in H.
  destruct (skeleton_exact_all g Hw Ha vars sord Hnd Hvars vr maxc Hmax) as [E [seps [Hb Hok]]].
  rewrite Hb in H. exact (orientation_sound g Hw Ha vars Hnd Hvars sord E seps A Hok H).
Qed.
