(* C12, unbounded: towards COMPLETENESS of the propagation rules (Meek 1995).
   Part A (this file): an abstract history of justified orientations, and Meek's Lemma 1 for every closed state of
   such a history:   a -> b directed and b - c undirected   ==>   a -> c directed.
   The proof is the induction over the order in which edges were oriented; the history supplies that order.
   Part B (ProofsMeekModel.v): the coded fix-point loop produces such a history and ends in a closed state.
   NOT proved (what completeness still needs): chordality of the undirected components and the re-orientation
   lemma (every edge of a component can be directed either way by an acyclic, collider-free orientation of the
   component), plus the glueing of such orientations to the directed part (which is where Lemma 1 is used). *)
From Coq Require Import List Bool Arith PeanoNat Lia.
From PV Require Import Base.Reach Base.Graph C08.Model C08.ProofsTrail C12.Model C12.Spec C12.ToDag C12.VPhase
  C12.Skeleton C12.Orient.
Import ListNotations.

Definition Dir (A : list arc) (a b : node) : Prop := In (a, b) A /\ ~ In (b, a) A.
Definition Und (A : list arc) (a b : node) : Prop := In (a, b) A /\ In (b, a) A.

Lemma Und_sym A a b : Und A a b -> Und A b a.
Proof. unfold Und. tauto. Qed.
Lemma In_dpart vars A a b : In (a, b) (edges (dpart vars A)) <-> Dir A a b.
Proof.
  unfold dpart, Dir. simpl. rewrite filter_In. simpl. rewrite negb_true_iff, harc_false. tauto.
Qed.
Lemma arc_dec (A : list arc) a b : {In (a, b) A} + {~ In (a, b) A}.
Proof.
  destruct (harc A a b) eqn:E; [left; apply harc_In; exact E|right; apply harc_false; exact E].
Qed.

Section Meek.
Variable g : digraph.
Hypothesis Hw : wf_graph g.
Hypothesis Ha : acyclic g.
Variable vars : list node.
Hypothesis Hnd : NoDup vars.
Hypothesis Hvars : forall v, In v vars <-> In v (nodes g).
(* the state after the v-structure phase: sound, and its directed edges are exactly collider arcs *)
Variable A0 : list arc.
Hypothesis HI0 : OInv g A0.
Hypothesis Hcol0 : forall a b, Dir A0 a b -> exists d, ucollider g a b d.

Definition dirH (s : list (list arc)) (a b : node) : Prop := exists E, In E s /\ Dir E a b.
Definition undH (s : list (list arc)) (a b : node) : Prop := exists E, In E s /\ Und E a b.

(* justification for removing the arc (u, v), i.e. for orienting v -> u, from facts of states already reached *)
Inductive just (s : list (list arc)) (u v : node) : Prop :=
| J1 x : dirH s x v -> undH s v u -> x <> u -> ~ adjacent g x u -> just s u v              (* x -> v - u *)
| J2 E : In E s -> Und E v u -> dpath (dpart vars E) v u -> just s u v                     (* v - u, v ~> u *)
| J3 x y : x <> y -> ~ adjacent g x y -> undH s x v -> undH s y v -> dirH s x u -> dirH s y u ->
           undH s v u -> just s u v.                                                        (* x - v - y, x -> u <- y, v - u *)

Inductive Hist : list (list arc) -> Prop :=
| H0 : Hist [A0]
| HS A hs u v : Hist (A :: hs) -> just (A :: hs) u v -> Hist (rarc A u v :: A :: hs).

Lemma just_mono s s' u v : (forall E, In E s -> In E s') -> just s u v -> just s' u v.
Proof.
  intros Hs H. destruct H as [x H1 H2 H3 H4|E H1 H2 H3|x y H1 H2 H3 H4 H5 H6 H7].
  - apply (J1 s' u v x); auto; [destruct H1 as [E [HE HD]]|destruct H2 as [E [HE HD]]]; exists E; auto.
  - apply (J2 s' u v E); auto.
  - apply (J3 s' u v x y); auto;
      [destruct H3 as [E [HE HD]]|destruct H4 as [E [HE HD]]|destruct H5 as [E [HE HD]]|destruct H6 as [E [HE HD]]
      |destruct H7 as [E [HE HD]]]; exists E; auto.
Qed.

Lemma rarc_incl A u v : incl (rarc A u v) A.
Proof. intros [a b] H. apply In_rarc in H. tauto. Qed.

(* states shrink along a history *)
Lemma hist_chain s : Hist s -> forall A hs, s = A :: hs -> forall E, In E s -> incl A E.
Proof.
  intros H. induction H as [|A hs u v H IH Hj]; intros A' hs' Heq E HE; inversion Heq; subst.
  - destruct HE as [<-|[]]. apply incl_refl.
  - destruct HE as [<-|HE]; [apply incl_refl|].
    eapply incl_tran; [apply rarc_incl|]. exact (IH A hs eq_refl E HE).
Qed.
Lemma hist_below_A0 s : Hist s -> forall E, In E s -> incl E A0.
Proof.
  intros H. induction H as [|A hs u v H IH Hj]; intros E HE.
  - destruct HE as [<-|[]]. apply incl_refl.
  - destruct HE as [<-|HE]; [|exact (IH E HE)].
    eapply incl_tran; [apply rarc_incl|]. apply IH. left. reflexivity.
Qed.

Lemma ucollider_sym' a c b : ucollider g a c b -> ucollider g b c a.
Proof. intros [H1 [H2 [H3 H4]]]. unfold ucollider, adjacent in *. repeat split; auto; tauto. Qed.

Lemma dpath_dpart_member E h a b : OInv g E -> member g h -> dpath (dpart vars E) a b -> dpath h a b.
Proof.
  intros HI Hh Hp. eapply dpath_edges_incl; [|exact Hp].
  intros [x y] Hxy. apply In_dpart in Hxy. destruct Hxy as [H1 H2]. exact (member_has g E h x y HI Hh H1 H2).
Qed.

(* every justified removal is sound *)
Lemma just_nomember s u v : (forall E, In E s -> OInv g E) -> just s u v -> nomember g u v.
Proof.
  intros HO H h Hh Huv. destruct H as [x [E1 [HE1 [D1 D2]]] [E2 [HE2 [U1 U2]]] Hxu Hna
                                       |E HE [U1 U2] Hp
                                       |x y Hxy Hna [E1 [HE1 [X1 X2]]] [E2 [HE2 [Y1 Y2]]] [E3 [HE3 [P1 P2]]]
                                        [E4 [HE4 [Q1 Q2]]] [E5 [HE5 [W1 W2]]]].
  - pose proof (member_has g E1 h x v (HO _ HE1) Hh D1 D2) as Hxv.
    assert (Hc : ucollider h u v x).
    { repeat split; try assumption; [congruence|]. intros Hc. apply Hna. apply (member_adj g h x u Hh).
      unfold adjacent in *. tauto. }
    apply (member_coll g h u v x Hh) in Hc. exact (o_coll g E2 (HO _ HE2) u v x Hc U1).
  - apply (member_acyclic g h Hh u v Huv). exact (dpath_dpart_member E h v u (HO _ HE) Hh Hp).
  - pose proof (member_has g E3 h x u (HO _ HE3) Hh P1 P2) as Hxu.
    pose proof (member_has g E4 h y u (HO _ HE4) Hh Q1 Q2) as Hyu.
    assert (Hside : forall p, adjacent g p v -> In (p, u) (edges h) -> In (p, v) (edges h)).
    { intros p Hadj Hpu. apply (member_adj g h p v Hh) in Hadj. destruct Hadj as [H|H]; [exact H|]. exfalso.
      apply (member_acyclic g h Hh p u Hpu). eapply dpath_step; [|exact H].
      eapply dpath_step; [apply dpath_refl|exact Huv]. }
    pose proof (Hside x (o_adj g E1 (HO _ HE1) x v X1) Hxu) as Hxv.
    pose proof (Hside y (o_adj g E2 (HO _ HE2) y v Y1) Hyu) as Hyv.
    assert (Hc : ucollider h x v y).
    { repeat split; try assumption. intros Hc. apply Hna. apply (member_adj g h x y Hh). exact Hc. }
    apply (member_coll g h x v y Hh) in Hc. exact (o_coll g E1 (HO _ HE1) x v y Hc X2).
Qed.

Lemma hist_oinv s : Hist s -> forall E, In E s -> OInv g E.
Proof.
  intros H. induction H as [|A hs u v H IH Hj]; intros E HE.
  - destruct HE as [<-|[]]. exact HI0.
  - destruct HE as [<-|HE]; [|exact (IH E HE)].
    apply oinv_rarc; [apply IH; left; reflexivity|]. exact (just_nomember (A :: hs) u v IH Hj).
Qed.

(* ---- the closed final state ---- *)
Variable F : list arc.
Hypothesis HIF : OInv g F.
(* no rule applies in F *)
Hypothesis C1 : forall x z y, Dir F x z -> Und F z y -> ~ adjacent g x y -> False.
Hypothesis C2 : forall x y, Und F x y -> dpath (dpart vars F) x y -> False.
Hypothesis C3 : forall x y z w, x <> y -> ~ adjacent g x y -> Und F x z -> Und F y z -> Dir F x w -> Dir F y w ->
                                Und F z w -> False.

Lemma dir_lift E a b : OInv g E -> incl F E -> Dir E a b -> Dir F a b.
Proof.
  intros HI Hi [H1 H2]. split.
  - apply (o_members g F HIF g (member_self g Ha)). exact (member_has g E g a b HI (member_self g Ha) H1 H2).
  - intros H. apply H2. apply Hi. exact H.
Qed.

Lemma adj_arcs a b : adjacent g a b -> In (a, b) F \/ In (b, a) F.
Proof. intros [H|H]; [left|right]; exact (o_members g F HIF g (member_self g Ha) _ _ H). Qed.

(* a -> b, b - c: a and c are adjacent and the edge is not c -> a *)
Lemma K0 a b c : Dir F a b -> Und F b c -> Dir F a c \/ Und F a c.
Proof.
  intros Hab Hbc.
  assert (Hadj : adjacent g a c).
  { destruct (adjacent_dec g a c) as [H|H]; [exact H|]. exfalso. exact (C1 a b c Hab Hbc H). }
  destruct (arc_dec F a c) as [H1|H1]; destruct (arc_dec F c a) as [H2|H2].
  - right. split; assumption.
  - left. split; assumption.
  - exfalso. apply (C2 c b (Und_sym _ _ _ Hbc)).
    apply (dpath_step _ c a b); [apply (dpath_step _ c c a); [apply dpath_refl|]|]; apply In_dpart; [split; assumption|exact Hab].
  - exfalso. destruct (adj_arcs a c Hadj); contradiction.
Qed.

Lemma und_adj E a b : OInv g E -> Und E a b -> adjacent g a b.
Proof. intros HI [H _]. exact (o_adj g E HI a b H). Qed.

Lemma dpath_lift E a b : OInv g E -> incl F E -> dpath (dpart vars E) a b -> dpath (dpart vars F) a b.
Proof.
  intros HI Hi Hp. eapply dpath_edges_incl; [|exact Hp].
  intros [x y] Hxy. apply In_dpart in Hxy. apply In_dpart. exact (dir_lift E x y HI Hi Hxy).
Qed.

Lemma dpath_last G a b : dpath G a b -> a = b \/ exists m, dpath G a m /\ In (m, b) (edges G).
Proof. intros H. inversion H; subst; [left; reflexivity|right; eauto]. Qed.

(* x -> c, v - c, x adjacent to v: the edge x, v is not v -> x *)
Lemma tri x c v : Dir F x c -> Und F v c -> adjacent g x v -> Und F x v \/ Dir F x v.
Proof.
  intros Hxc Hvc Hadj.
  destruct (arc_dec F x v) as [H1|H1]; destruct (arc_dec F v x) as [H2|H2].
  - left. split; assumption.
  - right. split; assumption.
  - exfalso. apply (C2 v c Hvc).
    apply (dpath_step _ v x c); [apply (dpath_step _ v v x); [apply dpath_refl|]|]; apply In_dpart; [split; assumption|exact Hxc].
  - exfalso. destruct (adj_arcs x v Hadj); contradiction.
Qed.

(* Meek's Lemma 1, by induction over the history *)
Lemma lemma1_hist : forall s, Hist s -> (forall E, In E s -> incl F E) ->
  forall E, In E s -> forall a b, Dir E a b -> forall c, Und F b c -> Dir F a c.
Proof.
  intros s H. induction H as [|A hs u v H IH Hj]; intros HF E HE a b Hab c Hbc.
  - (* collider arcs *)
    destruct HE as [<-|[]].
    destruct (Hcol0 a b Hab) as [d Hc]. pose proof Hc as [Eab [Edb [Hne Hna]]].
    pose proof (dir_lift A0 a b HI0 (HF _ (or_introl eq_refl)) Hab) as Fab.
    assert (Fdb : Dir F d b).
    { split; [exact (o_members g F HIF g (member_self g Ha) _ _ Edb)|].
      intros Hc'. apply (o_coll g A0 HI0 d b a (ucollider_sym' a b d Hc)). apply (HF _ (or_introl eq_refl)). exact Hc'. }
    destruct (K0 a b c Fab Hbc) as [Hd|Hu]; [exact Hd|exfalso].
    destruct (K0 d b c Fdb Hbc) as [Hd|Hu'].
    + (* d -> c - a with d, a non-adjacent: rule 1 applies *)
      apply (C1 d c a Hd (Und_sym _ _ _ Hu)). intros Hc'. apply Hna. unfold adjacent in *. tauto.
    + (* a - c - d, a -> b <- d, c - b: rule 3 applies *)
      exact (C3 a d c b Hne Hna Hu Hu' Fab Fdb (Und_sym _ _ _ Hbc)).
  - assert (HF' : forall E0, In E0 (A :: hs) -> incl F E0) by (intros E0 H0'; apply HF; right; exact H0').
    assert (HOs : forall E0, In E0 (A :: hs) -> OInv g E0) by (apply hist_oinv; exact H).
    destruct HE as [<-|HE]; [|exact (IH HF' E HE a b Hab c Hbc)].
    destruct Hab as [Hab1 Hab2]. apply In_rarc in Hab1. destruct Hab1 as [Hab1 _].
    destruct (arc_dec A b a) as [Hba|Hba].
    2:{ exact (IH HF' A (or_introl eq_refl) a b (conj Hab1 Hba) c Hbc). }
    assert (Heq : (b, a) = (u, v)).
    { destruct (Nat.eq_dec b u) as [->|N1]; destruct (Nat.eq_dec a v) as [->|N2]; try reflexivity;
        exfalso; apply Hab2; apply In_rarc; split; try exact Hba; intros Hq; inversion Hq; congruence. }
    inversion Heq; subst b a. clear Heq.
    (* the newly oriented edge v -> u *)
    assert (Huv : u <> v).
    { intros ->. destruct (adjacent_nodes g Hw Ha v v (o_adj g A (HOs _ (or_introl eq_refl)) v v Hba)) as [_ [_ Hn]].
      congruence. }
    assert (OA : OInv g (rarc A u v)).
    { apply oinv_rarc; [apply HOs; left; reflexivity|]. exact (just_nomember (A :: hs) u v HOs Hj). }
    assert (Evu : Dir (rarc A u v) v u).
    { split; [|exact Hab2]. apply In_rarc. split; [exact Hab1|]. intros Hq. inversion Hq. congruence. }
    pose proof (dir_lift (rarc A u v) v u OA (HF _ (or_introl eq_refl)) Evu) as Fvu.
    destruct (K0 v u c Fvu Hbc) as [Hd|Hu]; [exact Hd|exfalso].
    destruct Hj as [x [E1 [HE1 D1]] _ Hxu Hna
                   |E HE _ Hp
                   |x y Hxy Hna [E1 [HE1 X1]] [E2 [HE2 Y1]] [E3 [HE3 P1]] [E4 [HE4 Q1]] _].
    + (* rule 1: x -> v earlier, x and u non-adjacent *)
      pose proof (IH HF' E1 HE1 x v D1 c Hu) as Fxc.
      exact (C1 x c u Fxc (Und_sym _ _ _ Hbc) Hna).
    + (* rule 2: directed path v ~> u earlier *)
      destruct (dpath_last _ v u Hp) as [Heq|[m [Hvm Hmu]]]; [congruence|].
      apply In_dpart in Hmu.
      pose proof (IH HF' E HE m u Hmu c Hbc) as Fmc.
      apply (C2 v c Hu). eapply dpath_step; [exact (dpath_lift E v m (HOs _ HE) (HF' _ HE) Hvm)|].
      apply In_dpart. exact Fmc.
    + (* rule 3: x -> u <- y earlier, x - v - y at some earlier time *)
      pose proof (IH HF' E3 HE3 x u P1 c Hbc) as Fxc.
      pose proof (IH HF' E4 HE4 y u Q1 c Hbc) as Fyc.
      pose proof (und_adj E1 x v (HOs _ HE1) X1) as Axv.
      pose proof (und_adj E2 y v (HOs _ HE2) Y1) as Ayv.
      destruct (tri x c v Fxc Hu Axv) as [Ux|Dx]; destruct (tri y c v Fyc Hu Ayv) as [Uy|Dy].
      * exact (C3 x y v c Hxy Hna Ux Uy Fxc Fyc Hu).
      * apply (C1 y v x Dy (Und_sym _ _ _ Ux)). intros Hc. apply Hna. unfold adjacent in *. tauto.
      * exact (C1 x v y Dx (Und_sym _ _ _ Uy) Hna).
      * (* x -> v <- y would be a collider of the truth, oriented before any rule *)
        assert (Hc : ucollider g x v y).
        { repeat split; try assumption.
          - exact (member_has g F g x v HIF (member_self g Ha) (proj1 Dx) (proj2 Dx)).
          - exact (member_has g F g y v HIF (member_self g Ha) (proj1 Dy) (proj2 Dy)). }
        exact (o_coll g E1 (HOs _ HE1) x v y Hc (proj2 X1)).
Qed.

(* Meek's Lemma 1 for the final state of a history *)
Theorem meek_lemma1 : forall hs, Hist (F :: hs) ->
  forall a b c, Dir F a b -> Und F b c -> Dir F a c.
Proof.
  intros hs H a b c Hab Hbc.
  apply (lemma1_hist (F :: hs) H (fun E HE => hist_chain (F :: hs) H F hs eq_refl E HE) F (or_introl eq_refl) a b Hab c Hbc).
Qed.

End Meek.
