(* C16: the normalised posterior is representation independent; the engine state machine:
   what `self.model` is bound to after any history, and why leftover "__X" leaves do not change the
   answer of a question about the original variables (they are barren: they sum out to one). *)
From Coq Require Import List Arith Lia PeanoNat Bool QArith Qcanon Permutation.
From PV Require Import Base.Semiring Base.Ravel Base.FinSum Base.RefFactor Base.VE C16.Model C16.ProofsRepr.
Import ListNotations.

Notation QR := Qc_sum_csr.

Lemma all_fok card (L : list qfactor) : Forall (fok QR card) L.
Proof. apply Forall_forall. intros f _ a _. exact I. Qed.

Lemma qnum_ext card L ev o : ext (R := QR) (qnum card L ev o).
Proof. intros a b H. unfold qnum, ve_num. apply (eval_prod_ext QR card). exact H. Qed.

(* ---- posterior: insertion order, elimination order, order of the query variables ------------- *)
Theorem qnum_order card (L L' : list qfactor) ev o o' a :
  Forall (wf QR card) L -> ev_ok card ev -> NoDup o ->
  (forall v, In v o -> occurs QR v (map (fred QR card ev) L)) -> valid card a ->
  Permutation L L' -> Permutation o o' ->
  qnum card L' ev o' a = qnum card L ev o a.
Proof.
  intros Hwf He Hnd Hocc Ha HPL HPo. unfold qnum, ve_num, ve_answer. symmetry.
  apply (ve_run_perm QR card); try assumption.
  - apply Forall_wf_fred. exact Hwf.
  - apply all_fok.
  - apply Permutation_map. exact HPL.
Qed.

Theorem qpost_order card (L L' : list qfactor) ev o o' Q Q' a :
  Forall (wf QR card) L -> ev_ok card ev -> NoDup o ->
  (forall v, In v o -> occurs QR v (map (fred QR card ev) L)) -> valid card a -> NoDup Q ->
  Permutation L L' -> Permutation o o' -> Permutation Q Q' ->
  qpost card L' ev o' Q' a = qpost card L ev o Q a.
Proof.
  intros Hwf He Hnd Hocc Ha HQ HPL HPo HPQ. unfold qpost.
  rewrite (qnum_order card L L' ev o o' a) by assumption. f_equal. unfold qden.
  rewrite <- (sum_over_perm QR card Q Q' HPQ); [|exact HQ|apply qnum_ext].
  apply (sum_over_ext_valid QR card); [exact Ha|]. intros b Hb. apply qnum_order; assumption.
Qed.

(* ---- posterior under an injective renaming of the variables ----------------------------------- *)
Theorem qpost_rename card card' rho
  (rho_inj : forall x y, rho x = rho y -> x = y) (card_rho : forall v, card' (rho v) = card v)
  (L L' : list qfactor) ev o o' Q Q' a' :
  Forall (wf QR card) L -> ev_ok card ev -> NoDup o ->
  (forall v, In v o -> occurs QR v (map (fred QR card ev) L)) -> valid card' a' -> NoDup Q ->
  Permutation (map (frename rho) L) L' -> Permutation (map rho o) o' -> Permutation (map rho Q) Q' ->
  qpost card' L' (ev_rename rho ev) o' Q' a' = qpost card L ev o Q (pull rho a').
Proof.
  intros Hwf He Hnd Hocc Ha' HQ HPL HPo HPQ.
  assert (Hnum : forall b', valid card' b' ->
            qnum card' L' (ev_rename rho ev) o' b' = qnum card L ev o (pull rho b')).
  { intros b' Hb'. unfold qnum. apply (ve_num_rename QR card card' rho rho_inj card_rho); try assumption.
    apply all_fok. }
  unfold qpost. rewrite Hnum by exact Ha'. f_equal. unfold qden.
  rewrite <- (sum_over_perm QR card' (map rho Q) Q' HPQ);
    [|apply (NoDup_map_rho rho rho_inj); exact HQ|apply qnum_ext].
  apply (sum_over_rename QR card card' rho rho_inj card_rho); [exact Ha'|apply qnum_ext|exact Hnum].
Qed.

(* ---- posterior under a permutation of the state indices of every variable --------------------- *)
Theorem qpost_perm_states card pi
  (pi_perm : forall v, Permutation (map (pi v) (seq 0 (card v))) (seq 0 (card v)))
  (L L' : list qfactor) ev' o o' Q Q' a :
  Forall (wf QR card) L -> ev_ok card ev' -> NoDup o ->
  (forall v, In v o -> occurs QR v (map (fred QR card (ev_pact pi ev')) L)) -> valid card a -> NoDup Q ->
  Permutation (map (fperm card pi) L) L' -> Permutation o o' -> Permutation Q Q' ->
  qpost card L' ev' o' Q' a = qpost card L (ev_pact pi ev') o Q (pact pi a).
Proof.
  intros Hwf He Hnd Hocc Ha HQ HPL HPo HPQ.
  assert (Hnum : forall b, valid card b ->
            qnum card L' ev' o' b = qnum card L (ev_pact pi ev') o (pact pi b)).
  { intros b Hb. unfold qnum. apply (ve_num_perm_states QR card pi pi_perm); try assumption. apply all_fok. }
  unfold qpost. rewrite Hnum by exact Ha. f_equal. unfold qden.
  rewrite <- (sum_over_perm QR card Q Q' HPQ); [|exact HQ|apply qnum_ext].
  apply (sum_over_pact QR card pi pi_perm); [exact Ha|apply qnum_ext|exact Hnum].
Qed.

(* ------------------------------------------------------------------------------------------- *)
Section Engine.
Variable nb : nat.
Variable cs : list nat.
Hypothesis cs_pos : Forall (fun c => (0 < c)%nat) cs.
Notation card := (ecard nb cs).
Local Open Scope Qc_scope.

Definition base_ok (L : list qfactor) : Prop :=
  Forall (wf QR card) L /\ forall f v, In f L -> In v (fvars f) -> (v < nb)%nat.
Definition leaf_ok (p : var * list Qc) : Prop := (fst p < nb)%nat /\ length (snd p) = card (fst p).
Definition leaves_ok (ls : list (var * list Qc)) : Prop := NoDup (map fst ls) /\ Forall leaf_ok ls.
Definition leafvars (ls : list (var * list Qc)) : list var := map (fun p => lv nb (fst p)) ls.
Definition leaf_of (p : var * list Qc) : qfactor := leaf_factor nb (fst p) (snd p).

Lemma card_lv x : card (lv nb x) = 2%nat.
Proof. unfold ecard, lv. destruct (Nat.ltb_spec (nb + x) nb); [lia|reflexivity]. Qed.
Lemma card_pos v : (0 < card v)%nat.
Proof.
  unfold ecard. destruct (v <? nb)%nat; [|lia].
  destruct (Nat.lt_ge_cases v (length cs)) as [H|H].
  - rewrite Forall_forall in cs_pos. apply cs_pos. apply nth_In. exact H.
  - rewrite nth_overflow by exact H. lia.
Qed.

Lemma wf_leaf p : leaf_ok p -> wf QR card (leaf_of p).
Proof.
  destruct p as [x e]. intros [Hx Hl]. cbn [fst snd] in *. split.
  - unfold leaf_of, leaf_factor. cbn [fvars fst snd]. constructor.
    + intros [H|[]]. unfold lv in H. lia.
    + constructor; [intros []|constructor].
  - unfold leaf_of, leaf_factor, fcard. cbn [fvars fvals fst snd map prod fold_right].
    rewrite card_lv, app_length, map_length, Hl. lia.
Qed.

Lemma feval_leaf0 x e b : length e = card x -> b (lv nb x) = 0%nat -> (b x < card x)%nat ->
  feval QR card (leaf_factor nb x e) b = nth (b x) e 0.
Proof.
  intros Hl H0 Hb. unfold feval, leaf_factor, fcard, t_get. cbn [fvars fvals map ravel prod fold_right].
  rewrite H0. replace (0 * (card x * 1) + (b x * 1 + 0))%nat with (b x) by lia.
  rewrite app_nth1 by lia. reflexivity.
Qed.
Lemma feval_leaf1 x e b : length e = card x -> b (lv nb x) = 1%nat -> (b x < card x)%nat ->
  feval QR card (leaf_factor nb x e) b = 1 - nth (b x) e 0.
Proof.
  intros Hl H1 Hb. unfold feval, leaf_factor, fcard, t_get. cbn [fvars fvals map ravel prod fold_right].
  rewrite H1. replace (1 * (card x * 1) + (b x * 1 + 0))%nat with (length e + b x)%nat by lia.
  rewrite app_nth2 by lia. replace (length e + b x - length e)%nat with (b x) by lia.
  rewrite (nth_indep (map (fun p : Qc => 1 - p) e) (@zero QR) (1 - 0)) by (rewrite map_length; lia).
  apply (map_nth (fun p : Qc => 1 - p)).
Qed.

(* a "__X" CPD sums to one over "__X" *)
Lemma leaf_sum p c : leaf_ok p -> valid card c ->
  feval QR card (leaf_of p) (upd c (lv nb (fst p)) 0) + feval QR card (leaf_of p) (upd c (lv nb (fst p)) 1) = 1.
Proof.
  destruct p as [x e]. intros [Hx Hl] Hc. cbn [fst snd] in *. unfold leaf_of. cbn [fst snd].
  assert (Hne : x <> lv nb x) by (unfold lv; lia).
  rewrite feval_leaf0; [|exact Hl|apply upd_same|rewrite upd_other by exact Hne; apply Hc].
  rewrite feval_leaf1; [|exact Hl|apply upd_same|rewrite upd_other by exact Hne; apply Hc].
  rewrite !upd_other by exact Hne. ring.
Qed.

Lemma In_leafvars v ls : In v (leafvars ls) -> (nb <= v)%nat.
Proof. unfold leafvars. intros H. apply in_map_iff in H. destruct H as [p [<- _]]. unfold lv. lia. Qed.

(* unobserved, unasked "__X" leaves sum out of the product *)
Lemma leaves_sum_out ls : forall (B : list qfactor) c, leaves_ok ls ->
  (forall f v, In f B -> In v (fvars f) -> ~ In v (leafvars ls)) -> valid card c ->
  sum_over (R := QR) (leafvars ls) (map card (leafvars ls)) (eval_prod QR card (B ++ map leaf_of ls)) c
  = eval_prod QR card B c.
Proof.
  induction ls as [|p r IH]; intros B c [Hnd Hok] HB Hc.
  - cbn. rewrite app_nil_r. reflexivity.
  - inversion Hnd as [|? ? Hp Hnd']; subst. inversion Hok as [|? ? Hlp Hok']; subst.
    cbn [leafvars map sum_over]. fold (leafvars r). rewrite card_lv. cbn [seq map sum_list fold_right].
    replace (B ++ leaf_of p :: map leaf_of r) with ((B ++ [leaf_of p]) ++ map leaf_of r)
      by (rewrite <- app_assoc; reflexivity).
    assert (HB' : forall f v, In f (B ++ [leaf_of p]) -> In v (fvars f) -> ~ In v (leafvars r)).
    { intros f v Hf Hv Hin. apply in_app_or in Hf. destruct Hf as [Hf|[<-|[]]].
      - apply (HB f v Hf Hv). right. exact Hin.
      - unfold leaf_of, leaf_factor in Hv. cbn [fvars] in Hv. destruct Hv as [<-|[<-|[]]].
        + unfold leafvars in Hin. apply in_map_iff in Hin. destruct Hin as [q [Hq Hqin]].
          unfold lv in Hq. assert (fst q = fst p) by lia. apply Hp. rewrite <- H. apply in_map. exact Hqin.
        + apply In_leafvars in Hin. destruct Hlp as [Hlt _]. lia. }
    assert (Hig : forall i, eval_prod QR card B (upd c (lv nb (fst p)) i) = eval_prod QR card B c).
    { intros i. apply (eval_prod_ignores QR card). intros f Hf Hin. apply (HB f _ Hf Hin). left. reflexivity. }
    rewrite !IH; try (split; assumption); try exact HB';
      try (apply valid_upd; [exact Hc|rewrite card_lv; lia]).
    unfold eval_prod. rewrite !map_app, !prod_list_app. cbn [map prod_list fold_right].
    fold (eval_prod QR card B (upd c (lv nb (fst p)) 0)). fold (eval_prod QR card B (upd c (lv nb (fst p)) 1)).
    fold (eval_prod QR card B c). rewrite !Hig. pose proof (leaf_sum p c Hlp Hc) as Hs.
    cbn [K add mul zero one QR Qc_sum_csr] in *.
    set (E := eval_prod QR card B c) in *.
    set (u := feval QR card (leaf_of p) (upd c (lv nb (fst p)) 0)) in *.
    set (w := feval QR card (leaf_of p) (upd c (lv nb (fst p)) 1)) in *.
    transitivity (E * (u + w)); [ring|]. rewrite Hs. ring.
Qed.

Lemma upds_upd_commute ev a v i : ~ In v (map fst ev) -> aeq (upds (upd a v i) ev) (upd (upds a ev) v i).
Proof.
  induction ev as [|[u j] r IH]; intros Hn; [apply aeq_refl|]. cbn [upds].
  assert (Hne : v <> u) by (intros E; apply Hn; left; symmetry; exact E).
  eapply aeq_trans; [apply upd_aeq; apply IH; intros Hi; apply Hn; right; exact Hi|].
  apply upd_comm. exact Hne.
Qed.
Lemma sum_over_upds_commute vs : forall ccs (g : asg -> QR) a ev, ext g ->
  (forall v, In v vs -> ~ In v (map fst ev)) ->
  sum_over vs ccs (fun b => g (upds b ev)) a = sum_over vs ccs g (upds a ev).
Proof.
  induction vs as [|v vs IH]; intros ccs g a ev Hg Hd; [reflexivity|]. destruct ccs as [|c ccs]; [reflexivity|].
  cbn [sum_over]. apply sum_list_ext. intros i _.
  rewrite IH; [|exact Hg|intros w Hw; apply Hd; right; exact Hw].
  apply sum_over_aeq; [exact Hg|]. apply upds_upd_commute. apply Hd. left. reflexivity.
Qed.

Lemma wf_m_factors m : base_ok (m_base m) -> leaves_ok (m_leaves m) -> Forall (wf QR card) (m_factors nb m).
Proof.
  intros [Hb _] [_ Hl]. unfold m_factors. apply Forall_app. split; [exact Hb|].
  apply Forall_map. eapply Forall_impl; [|exact Hl]. intros p Hp. apply (wf_leaf p Hp).
Qed.

(* THE history lemma: on a model with the same base CPDs and any well-formed set of leftover leaves,
   the numerator of a question about base variables with base evidence is the fresh one — for EVERY
   elimination order on either side *)
Theorem qnum_leaves m L ev o_f o_h a :
  m_base m = L -> leaves_ok (m_leaves m) -> base_ok L -> ev_ok card ev ->
  (forall v, In v (map fst ev) -> (v < nb)%nat) -> NoDup o_f ->
  (forall v, In v o_f -> occurs QR v (map (fred QR card ev) L)) -> valid card a ->
  Permutation (o_f ++ leafvars (m_leaves m)) o_h ->
  qnum card (m_factors nb m) ev o_h a = qnum card L ev o_f a.
Proof.
  intros HL Hls HbL He Hevb Hnd Hocc Ha HP. subst L. destruct HbL as [Hwf Hvars].
  assert (Hof : forall v, In v o_f -> (v < nb)%nat).
  { intros v Hv. destruct (Hocc v Hv) as [f [Hf Hin]]. apply in_map_iff in Hf. destruct Hf as [f0 [<- Hf0]].
    rewrite fvars_fred in Hin. apply In_vminus in Hin. apply (Hvars f0 v Hf0). apply Hin. }
  assert (Hndl : NoDup (leafvars (m_leaves m))).
  { destruct Hls as [Hk _]. unfold leafvars. clear - Hk. induction (m_leaves m) as [|p r IH]; [constructor|].
    inversion Hk; subst. cbn [map]. constructor; [|apply IH; assumption].
    intros Hi. apply in_map_iff in Hi. destruct Hi as [q [Hq Hqin]]. unfold lv in Hq.
    assert (fst q = fst p) by lia. apply H1. rewrite <- H. apply in_map. exact Hqin. }
  assert (Hnd2 : NoDup (o_f ++ leafvars (m_leaves m))).
  { apply NoDup_app_disj; [exact Hnd|exact Hndl|]. intros x Hx Hi. apply In_leafvars in Hi. specialize (Hof x Hx). lia. }
  assert (Hwfm : Forall (wf QR card) (m_factors nb m)) by (apply wf_m_factors; [split; assumption|exact Hls]).
  unfold qnum.
  rewrite (ve_num_meaning QR card (m_factors nb m)); try assumption;
    [|apply all_fok|eapply Permutation_NoDup; eassumption|].
  2:{ intros v Hv. apply (Permutation_in _ (Permutation_sym HP)) in Hv. apply in_app_or in Hv.
      destruct Hv as [Hv|Hv].
      - destruct (Hocc v Hv) as [f [Hf Hin]]. exists f. split; [|exact Hin].
        unfold m_factors. rewrite map_app. apply in_or_app. left. exact Hf.
      - unfold leafvars in Hv. apply in_map_iff in Hv. destruct Hv as [p [<- Hp]].
        exists (fred QR card ev (leaf_of p)). split.
        + unfold m_factors. rewrite map_app. apply in_or_app. right. apply in_map.
          apply (in_map leaf_of). exact Hp.
        + rewrite fvars_fred. apply In_vminus. split; [left; reflexivity|].
          intros Hi. specialize (Hevb _ Hi). unfold lv in Hevb. lia. }
  rewrite (ve_num_meaning QR card (m_base m)); try assumption; [|apply all_fok].
  rewrite <- (sum_over_perm QR card _ _ HP); [|exact Hnd2|].
  2:{ intros x y Hxy. apply (eval_prod_ext QR card). apply upds_ext. exact Hxy. }
  rewrite map_app. rewrite sum_over_app by (symmetry; apply map_length).
  apply (sum_over_ext_valid QR card); [exact Ha|]. intros b Hb.
  rewrite sum_over_upds_commute; [|apply (eval_prod_ext QR card)|].
  2:{ intros v Hv Hi. apply In_leafvars in Hv. specialize (Hevb _ Hi). lia. }
  unfold m_factors. apply leaves_sum_out; [exact Hls| |apply valid_upds; assumption].
  intros f v Hf Hv Hi. apply In_leafvars in Hi. specialize (Hvars f v Hf Hv). lia.
Qed.

Theorem qpost_leaves m L ev o_f o_h Q a :
  m_base m = L -> leaves_ok (m_leaves m) -> base_ok L -> ev_ok card ev ->
  (forall v, In v (map fst ev) -> (v < nb)%nat) -> NoDup o_f ->
  (forall v, In v o_f -> occurs QR v (map (fred QR card ev) L)) -> valid card a ->
  Permutation (o_f ++ leafvars (m_leaves m)) o_h ->
  qpost card (m_factors nb m) ev o_h Q a = qpost card L ev o_f Q a.
Proof.
  intros HL Hls HbL He Hevb Hnd Hocc Ha HP. unfold qpost.
  rewrite (qnum_leaves m L ev o_f o_h a) by assumption. f_equal. unfold qden.
  apply (sum_over_ext_valid QR card); [exact Ha|]. intros b Hb. apply (qnum_leaves m L); assumption.
Qed.

(* tables *)
Lemma asg_of_valid Q : forall idx, in_range (map card Q) idx -> valid card (asg_of Q idx).
Proof.
  induction Q as [|v Q IH]; intros idx Hr w; [cbn; apply card_pos|].
  inversion Hr as [|c ccs i is_ Hi Hr']; subst. cbn [asg_of]. unfold upd.
  destruct (Nat.eqb w v) eqn:E; [apply Nat.eqb_eq in E; subst; exact Hi|apply IH; exact Hr'].
Qed.
Lemma qpost_table_spec L ev o Q :
  qpost_table card L ev o Q = t_build Qc (map card Q) (fun idx => qpost card L ev o Q (asg_of Q idx)).
Proof. reflexivity. Qed.
Lemma qpost_table_ext L1 L2 ev1 ev2 o1 o2 Q :
  (forall a, valid card a -> qpost card L1 ev1 o1 Q a = qpost card L2 ev2 o2 Q a) ->
  qpost_table card L1 ev1 o1 Q = qpost_table card L2 ev2 o2 Q.
Proof.
  intros H. rewrite !qpost_table_spec. unfold t_build. apply map_ext_in. intros n Hn. apply in_seq in Hn.
  apply H. apply asg_of_valid. apply unravel_in_range. lia.
Qed.

(* ---- the state machine -------------------------------------------------------------------- *)
Definition virt_ok (v : list (var * list Qc)) : Prop := Forall leaf_ok v.
Definition question_ok (q : question) : Prop :=
  match q_virt q with Some v => virt_ok v | None => True end.

Lemma put_leaf_keys x e ls y : In y (map fst (put_leaf x e ls)) <-> y = x \/ In y (map fst ls).
Proof.
  induction ls as [|[z e'] r IH]; cbn [put_leaf map fst In]; [intuition|].
  destruct (Nat.eqb x z) eqn:E; cbn [map fst In].
  - apply Nat.eqb_eq in E. subst. intuition.
  - rewrite IH. intuition.
Qed.
Lemma put_leaf_ok x e ls : leaf_ok (x, e) -> leaves_ok ls -> leaves_ok (put_leaf x e ls).
Proof.
  intros Hp [Hnd Hok]. induction ls as [|[z e'] r IH]; cbn [put_leaf].
  - split; [cbn; constructor; [intros []|constructor]|constructor; [exact Hp|constructor]].
  - inversion Hnd as [|? ? Hz Hnd']; subst. inversion Hok as [|? ? Hzo Hok']; subst.
    destruct (Nat.eqb x z) eqn:E.
    + apply Nat.eqb_eq in E. subst. split; [exact Hnd|constructor; assumption].
    + destruct (IH Hnd' Hok') as [IH1 IH2]. split; [|constructor; assumption].
      cbn [map fst]. constructor; [|exact IH1]. intros Hi. apply put_leaf_keys in Hi.
      destruct Hi as [->|Hi]; [rewrite Nat.eqb_refl in E; discriminate|]. apply Hz. exact Hi.
Qed.
Lemma augment_ok m v : virt_ok v -> leaves_ok (m_leaves m) -> leaves_ok (m_leaves (augment m v)).
Proof.
  unfold augment. cbn [m_leaves]. generalize (m_leaves m). induction v as [|[x e] v IH]; intros ls Hv Hl; [exact Hl|].
  inversion Hv; subst. cbn [fold_left fst snd]. apply IH; [assumption|]. apply put_leaf_ok; assumption.
Qed.

Definition engine_inv (L : list qfactor) (m : emodel) : Prop := m_base m = L /\ leaves_ok (m_leaves m).

Lemma ask_inv L m q : question_ok q -> engine_inv L m -> engine_inv L (snd (ask_nr nb cs m q)).
Proof.
  intros Hq [Hb Hl]. unfold ask_nr, question_ok in *.
  assert (H1 : engine_inv L (match q_virt q with Some v => augment m v | None => m end)).
  { destruct (q_virt q) as [v|]; [|split; assumption]. split; [exact Hb|apply augment_ok; assumption]. }
  destruct (q_bp q); exact H1.
Qed.
(* what the engine is bound to after any history: the original CPDs plus well-formed "__X" leaves *)
Theorem history_inv L h : Forall question_ok h -> engine_inv L (run_history_nr nb cs (fresh L) h).
Proof.
  intros Hh. unfold run_history_nr.
  assert (H0 : engine_inv L (fresh L)) by (split; [reflexivity|split; constructor]).
  revert H0. generalize (fresh L). induction h as [|q h IH]; intros m Hm; [exact Hm|].
  inversion Hh; subst. cbn [fold_left]. apply IH; [assumption|]. apply ask_inv; assumption.
Qed.
(* without virtual evidence anywhere in the history the engine is bound to exactly the original model *)
Theorem history_no_virt L h : Forall (fun q => q_virt q = None) h -> run_history_nr nb cs (fresh L) h = fresh L.
Proof.
  intros Hh. unfold run_history_nr. generalize (fresh L). induction h as [|q h IH]; intros m; [reflexivity|].
  inversion Hh as [|? ? Hq Hh']; subst. cbn [fold_left]. rewrite IH by exact Hh'.
  unfold ask_nr. rewrite Hq. destruct (q_bp q); reflexivity.
Qed.

Lemma prune_base_question m Q ev :
  (forall v, In v Q -> (v < nb)%nat) -> (forall v, In v (map fst ev) -> (v < nb)%nat) ->
  m_leaves (prune nb m Q ev) = [].
Proof.
  intros HQ He. unfold prune. cbn [m_leaves]. induction (m_leaves m) as [|p r IH]; [reflexivity|]. cbn [filter].
  assert (H1 : memv (lv nb (fst p)) Q = false).
  { apply memv_false. intros Hi. specialize (HQ _ Hi). unfold lv in HQ. lia. }
  assert (H2 : memv (lv nb (fst p)) (map fst ev) = false).
  { apply memv_false. intros Hi. specialize (He _ Hi). unfold lv in He. lia. }
  match goal with |- (if ?c then _ else _) = _ => replace c with false; [exact IH|] end.
  symmetry. apply orb_false_intro; [exact H1|exact H2].
Qed.

(* A question about original variables, with ordinary evidence on original variables, asked after ANY
   history gets the answer a fresh engine gives.  o_f / o_h: the elimination orders used by the fresh
   engine and by the engine with history (any permutation of the non-query, non-evidence nodes of the
   model each one works on). *)
Theorem ask_leaves_harmless L m (bp : bool) Q ev o_f o_h :
  base_ok L -> engine_inv L m -> ev_ok card ev ->
  (forall v, In v Q -> (v < nb)%nat) -> (forall v, In v (map fst ev) -> (v < nb)%nat) ->
  NoDup o_f -> (forall v, In v o_f -> occurs QR v (map (fred QR card ev) L)) ->
  Permutation (o_f ++ (if bp then @nil var else leafvars (m_leaves m))) o_h ->
  fst (ask_nr nb cs m {| q_bp := bp; q_vars := Some Q; q_ev := ev; q_virt := None; q_order := o_h |}) =
  fst (ask_nr nb cs (fresh L) {| q_bp := bp; q_vars := Some Q; q_ev := ev; q_virt := None; q_order := o_f |}).
Proof.
  intros HbL [Hb Hl] He HQ Hevb Hnd Hocc HP.
  unfold ask_nr. cbn [q_bp q_vars q_ev q_virt q_order]. destruct bp; cbn [fst]; unfold answer_on; f_equal.
  - (* BP: both engines work on their pruned models *)
    apply qpost_table_ext. intros a Ha.
    rewrite (qpost_leaves (prune nb m Q ev) L ev o_f o_h Q a); try assumption.
    + symmetry. apply (qpost_leaves (prune nb (fresh L) Q ev) L ev o_f o_f Q a); try assumption; try reflexivity.
      * split; constructor.
      * cbn. rewrite app_nil_r. apply Permutation_refl.
    + rewrite prune_base_question by assumption. split; constructor.
    + rewrite prune_base_question by assumption. exact HP.
  - apply qpost_table_ext. intros a Ha.
    rewrite (qpost_leaves m L ev o_f o_h Q a); try assumption.
    symmetry. apply (qpost_leaves (fresh L) L ev o_f o_f Q a); try assumption; try reflexivity.
    + split; constructor.
    + cbn. rewrite app_nil_r. apply Permutation_refl.
Qed.

(* ---- the code as it is now: every question leaves the engine bound to what it was bound to ---- *)
Lemma ask_restores m q : snd (ask nb cs m q) = m.
Proof. reflexivity. Qed.
Theorem history_state m h : run_history nb cs m h = m.
Proof. unfold run_history. induction h as [|q h IH]; [reflexivity|]. cbn [fold_left]. rewrite ask_restores. exact IH. Qed.
(* FULL statement: every question (any engine, any variables incl. "all nodes", evidence, virtual
   evidence) after every history gets the fresh engine's answer *)
Theorem ask_after_history L h q :
  fst (ask nb cs (run_history nb cs (fresh L) h) q) = fst (ask nb cs (fresh L) q).
Proof. rewrite history_state. reflexivity. Qed.
(* rejected calls are no-ops on the engine: any mix of answered and rejected questions leaves it bound
   to the model it was created on, so the next answer is the fresh engine's *)
Lemma ask_e_restores m q : snd (ask_e nb cs m q) = m.
Proof. unfold ask_e. destruct (q_valid nb cs m q); reflexivity. Qed.
Theorem history_e_state m h : run_history_e nb cs m h = m.
Proof. unfold run_history_e. induction h as [|q h IH]; [reflexivity|]. cbn [fold_left]. rewrite ask_e_restores. exact IH. Qed.
Theorem ask_e_after_history L h q :
  fst (ask_e nb cs (run_history_e nb cs (fresh L) h) q) = fst (ask_e nb cs (fresh L) q).
Proof. rewrite history_e_state. reflexivity. Qed.
(* a rejected call gives no answer, an accepted one gives exactly [ask]'s *)
Lemma ask_e_answer m q :
  fst (ask_e nb cs m q) = if q_valid nb cs m q then Some (fst (ask nb cs m q)) else None.
Proof. unfold ask_e. destruct (q_valid nb cs m q); reflexivity. Qed.
(* ... and for questions about listed variables the elimination orders of the two engines are free *)
Theorem ask_after_history_any_order L h (bp : bool) Q ev o_f o_h :
  base_ok L -> ev_ok card ev ->
  (forall v, In v Q -> (v < nb)%nat) -> (forall v, In v (map fst ev) -> (v < nb)%nat) ->
  NoDup o_f -> (forall v, In v o_f -> occurs QR v (map (fred QR card ev) L)) -> Permutation o_f o_h ->
  fst (ask nb cs (run_history nb cs (fresh L) h)
         {| q_bp := bp; q_vars := Some Q; q_ev := ev; q_virt := None; q_order := o_h |}) =
  fst (ask nb cs (fresh L) {| q_bp := bp; q_vars := Some Q; q_ev := ev; q_virt := None; q_order := o_f |}).
Proof.
  intros HbL He HQ Hevb Hnd Hocc HP. rewrite history_state. unfold ask. cbn [fst].
  apply (ask_leaves_harmless L (fresh L)); try assumption.
  - split; [reflexivity|split; constructor].
  - cbn [fresh m_leaves leafvars map]. destruct bp; rewrite app_nil_r; exact HP.
Qed.
End Engine.

(* ---- ... but the engine is NOT bound to the original model any more, and a question that reads the
   node list of self.model sees it: map_query(variables=None) after one virtual-evidence question ---- *)
Local Open Scope Qc_scope.
Definition wit_L : list qfactor := [Build_factor QR [0%nat] [Q2Qc (3 # 8); Q2Qc (5 # 8)]].
Definition wit_virt : list (var * list Qc) := [(0%nat, [Q2Qc (7 # 8); Q2Qc (1 # 2)])].
Definition wit_h : list question :=
  [{| q_bp := false; q_vars := Some [0%nat]; q_ev := []; q_virt := Some wit_virt; q_order := [] |}].
Definition wit_q : question :=
  {| q_bp := false; q_vars := None; q_ev := []; q_virt := None; q_order := [] |}.

Lemma wit_fresh_answer :
  fst (ask_nr 1 [2%nat] (fresh wit_L) wit_q) = ([0%nat], [Q2Qc (3 # 8); Q2Qc (5 # 8)]).
Proof. vm_compute. repeat f_equal; apply Qc_is_canon; reflexivity. Qed.
(* after the history the scope is (A, __A) and the mode is A = 0 (21/64) whereas the fresh mode is A = 1 *)
Lemma wit_history_answer :
  fst (ask_nr 1 [2%nat] (run_history_nr 1 [2%nat] (fresh wit_L) wit_h) wit_q) =
  ([0%nat; 1%nat], [Q2Qc (21 # 64); Q2Qc (3 # 64); Q2Qc (5 # 16); Q2Qc (5 # 16)]).
Proof. vm_compute. repeat f_equal; apply Qc_is_canon; reflexivity. Qed.

Theorem engine_history_without_restore_refuted :
  exists (L : list qfactor) (h : list question) (q : question),
    Forall (question_ok 1 [2%nat]) h /\ base_ok 1 [2%nat] L /\
    fst (ask_nr 1 [2%nat] (run_history_nr 1 [2%nat] (fresh L) h) q) <> fst (ask_nr 1 [2%nat] (fresh L) q).
Proof.
  exists wit_L, wit_h, wit_q. split; [|split].
  - constructor; [|constructor]. unfold question_ok, wit_h, virt_ok. cbn. constructor; [|constructor].
    split; cbn; lia.
  - split.
    + constructor; [|constructor]. split; [constructor; [intros []|constructor]|reflexivity].
    + intros f v [<-|[]] [<-|[]]. lia.
  - rewrite wit_history_answer, wit_fresh_answer. intros H. inversion H.
Qed.
