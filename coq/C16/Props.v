(* C16 — Queries are pure, repeatable and representation-independent: the property theorems.
   Modelled: the reference factor algebra / variable elimination (coq/Base), the engine-state machine
   and the store scripts of coq/C16/Model.v.  CPython hashing, torch kernels and the process-global
   `config` object are exercised by harness/c16.py only. *)
From Coq Require Import List Arith Lia PeanoNat Bool QArith Qcanon Permutation.
From PV Require Import Base.Semiring Base.Ravel Base.FinSum Base.RefFactor Base.VE
  C16.Model C16.ProofsRepr C16.ProofsEngine C16.ProofsFrame.
Import ListNotations.
Definition qz (z : Z) : Qc := Q2Qc (inject_Z z).

(* ---------------- renaming of variables ------------------------------------------------------ *)
(* product, marginalisation (sum or max), reduction commute with every injective renaming, pointwise *)
Theorem C16_rename_ops (R : csr) (card card' : var -> nat) (rho : var -> var) :
  (forall x y, rho x = rho y -> x = y) -> (forall v, card' (rho v) = card v) ->
  forall (f g : factor R) X ev a', wf R card f -> wf R card g -> valid card' a' ->
    feval R card' (fprod R card' (frename rho f) (frename rho g)) a' = feval R card (fprod R card f g) (pull rho a')
 /\ feval R card' (fmarg R card' (map rho X) (frename rho f)) a' = feval R card (fmarg R card X f) (pull rho a')
 /\ feval R card' (fred R card' (ev_rename rho ev) (frename rho f)) a' = feval R card (fred R card ev f) (pull rho a').
Proof.
  intros Hi Hc f g X ev a' Hf Hg Ha'. split; [|split].
  - apply fprod_rename; assumption.
  - apply fmarg_rename; assumption.
  - apply fred_rename; assumption.
Qed.
Print Assumptions C16_rename_ops.

(* variable elimination (sum-product AND max-product) on the renamed network, in ANY elimination order
   and ANY insertion order of the renamed factors, equals the original at the pulled-back assignment *)
Theorem C16_rename_vars_any_csr (R : csr) (card card' : var -> nat) (rho : var -> var) :
  (forall x y, rho x = rho y -> x = y) -> (forall v, card' (rho v) = card v) ->
  forall (L L' : list (factor R)) ev o o' a',
  Forall (wf R card) L -> Forall (fok R card) L -> ev_ok card ev -> NoDup o ->
  (forall v, In v o -> occurs R v (map (fred R card ev) L)) -> valid card' a' ->
  Permutation (map (frename rho) L) L' -> Permutation (map rho o) o' ->
  ve_num card' L' (ev_rename rho ev) o' a' = ve_num card L ev o (pull rho a').
Proof. intros Hi Hc L L' ev o o' a'. apply ve_num_rename; assumption. Qed.
Print Assumptions C16_rename_vars_any_csr.

(* the normalised posterior of the renamed network at a renamed assignment = the original posterior *)
Theorem C16_rename_vars (card card' : var -> nat) (rho : var -> var) :
  (forall x y, rho x = rho y -> x = y) -> (forall v, card' (rho v) = card v) ->
  forall (L L' : list qfactor) ev o o' Q Q' a',
  Forall (wf Qc_sum_csr card) L -> ev_ok card ev -> NoDup o ->
  (forall v, In v o -> occurs Qc_sum_csr v (map (fred Qc_sum_csr card ev) L)) -> valid card' a' -> NoDup Q ->
  Permutation (map (frename rho) L) L' -> Permutation (map rho o) o' -> Permutation (map rho Q) Q' ->
  qpost card' L' (ev_rename rho ev) o' Q' a' = qpost card L ev o Q (pull rho a').
Proof. intros Hi Hc L L' ev o o' Q Q' a'. apply qpost_rename; assumption. Qed.
Print Assumptions C16_rename_vars.

(* not vacuous: a non-trivial injective renaming of a two-factor network *)
Example C16_rename_example :
  let rho := fun v => (2 * v + 5)%nat in
  (forall x y, rho x = rho y -> x = y) /\
  frename rho (Build_factor Qc_sum_csr [0%nat; 1%nat] (map qz [1; 2; 3; 4]%Z)) = Build_factor Qc_sum_csr [5%nat; 7%nat] (map qz [1; 2; 3; 4]%Z).
Proof. split; [intros x y H; lia|reflexivity]. Qed.

(* ---------------- states renamed / listed in another order ----------------------------------- *)
Theorem C16_permute_states_ops (R : csr) (card : var -> nat) (pi : var -> nat -> nat) :
  (forall v, Permutation (map (pi v) (seq 0 (card v))) (seq 0 (card v))) ->
  forall (f g : factor R) X ev a, wf R card f -> wf R card g -> valid card a -> ev_ok card ev ->
    feval R card (fprod R card (fperm card pi f) (fperm card pi g)) a = feval R card (fprod R card f g) (pact pi a)
 /\ feval R card (fmarg R card X (fperm card pi f)) a = feval R card (fmarg R card X f) (pact pi a)
 /\ feval R card (fred R card ev (fperm card pi f)) a = feval R card (fred R card (ev_pact pi ev) f) (pact pi a).
Proof.
  intros Hp f g X ev a Hf Hg Ha He. split; [|split].
  - apply fprod_perm_states; assumption.
  - apply fmarg_perm_states; assumption.
  - apply fred_perm_states; assumption.
Qed.
Print Assumptions C16_permute_states_ops.

Theorem C16_permute_states_any_csr (R : csr) (card : var -> nat) (pi : var -> nat -> nat) :
  (forall v, Permutation (map (pi v) (seq 0 (card v))) (seq 0 (card v))) ->
  forall (L L' : list (factor R)) ev' o o' a,
  Forall (wf R card) L -> Forall (fok R card) L -> ev_ok card ev' -> NoDup o ->
  (forall v, In v o -> occurs R v (map (fred R card (ev_pact pi ev')) L)) -> valid card a ->
  Permutation (map (fperm card pi) L) L' -> Permutation o o' ->
  ve_num card L' ev' o' a = ve_num card L (ev_pact pi ev') o (pact pi a).
Proof. intros Hp L L' ev' o o' a. apply ve_num_perm_states; assumption. Qed.
Print Assumptions C16_permute_states_any_csr.

Theorem C16_permute_states (card : var -> nat) (pi : var -> nat -> nat) :
  (forall v, Permutation (map (pi v) (seq 0 (card v))) (seq 0 (card v))) ->
  forall (L L' : list qfactor) ev' o o' Q Q' a,
  Forall (wf Qc_sum_csr card) L -> ev_ok card ev' -> NoDup o ->
  (forall v, In v o -> occurs Qc_sum_csr v (map (fred Qc_sum_csr card (ev_pact pi ev')) L)) ->
  valid card a -> NoDup Q ->
  Permutation (map (fperm card pi) L) L' -> Permutation o o' -> Permutation Q Q' ->
  qpost card L' ev' o' Q' a = qpost card L (ev_pact pi ev') o Q (pact pi a).
Proof. intros Hp L L' ev' o o' Q Q' a. apply qpost_perm_states; assumption. Qed.
Print Assumptions C16_permute_states.

Example C16_permute_states_example :
  let card := fun _ : var => 3%nat in
  let pi := fun (_ : var) i => match i with 0 => 2 | 1 => 0 | 2 => 1 | n => n end%nat in
  (forall v, Permutation (map (pi v) (seq 0 (card v))) (seq 0 (card v))) /\
  fvals (fperm card pi (Build_factor Qc_sum_csr [0%nat] (map qz [1; 2; 3]%Z))) = map qz [3; 1; 2]%Z.
Proof.
  split; [|reflexivity]. intros v. cbn.
  apply Permutation_trans with (l' := [0; 2; 1]%nat); [apply perm_swap|apply perm_skip; apply perm_swap].
Qed.

(* ---------------- insertion order, elimination order, hash seed ------------------------------ *)
(* the joint does not depend on the order in which CPDs were inserted ... *)
Theorem C16_insertion_order_joint (R : csr) (card : var -> nat) (L L' : list (factor R)) a :
  Permutation L L' -> eval_prod R card L a = eval_prod R card L' a.
Proof. apply eval_prod_perm. Qed.
Print Assumptions C16_insertion_order_joint.

(* ... and neither does the posterior, for all order parameters: insertion order of the factors,
   elimination order (greedy path, MinFill, set iteration under any hash seed), order of the query list *)
Theorem C16_insertion_order (card : var -> nat) (L L' : list qfactor) ev o o' Q Q' a :
  Forall (wf Qc_sum_csr card) L -> ev_ok card ev -> NoDup o ->
  (forall v, In v o -> occurs Qc_sum_csr v (map (fred Qc_sum_csr card ev) L)) -> valid card a -> NoDup Q ->
  Permutation L L' -> Permutation o o' -> Permutation Q Q' ->
  qpost card L' ev o' Q' a = qpost card L ev o Q a.
Proof. apply qpost_order. Qed.
Print Assumptions C16_insertion_order.

Theorem C16_insertion_order_any_csr (R : csr) (card : var -> nat) (L L' : list (factor R)) (o o' : list var) a :
  Forall (wf R card) L -> Forall (fok R card) L -> NoDup o -> (forall v, In v o -> occurs R v L) ->
  valid card a -> Permutation L L' -> Permutation o o' ->
  eval_prod R card (ve_run R card L o) a = eval_prod R card (ve_run R card L' o') a.
Proof. apply ve_run_perm. Qed.
Print Assumptions C16_insertion_order_any_csr.

(* ---------------- engine history ------------------------------------------------------------- *)
(* the code as it is now (commits e568f1b..): after ANY history the engine is bound to exactly the model
   it was created on (virtual evidence: try/finally restore; BP: prune/restore) *)
Theorem C16_engine_state (nb : nat) (cs : list nat) (m : emodel) (h : list question) :
  run_history nb cs m h = m.
Proof. apply history_state. Qed.
Print Assumptions C16_engine_state.

(* FULL statement: every question — VE or BP, listed variables or map_query(variables=None) ("all nodes of
   self.model"), evidence, virtual evidence — asked after every history gets the fresh engine's answer *)
Theorem C16_engine_history (nb : nat) (cs : list nat) (L : list qfactor) (h : list question) (q : question) :
  fst (ask nb cs (run_history nb cs (fresh L) h) q) = fst (ask nb cs (fresh L) q).
Proof. apply ask_after_history. Qed.
Print Assumptions C16_engine_history.

(* rejected calls (a variable both asked and observed, unknown variables, an evidence state out of range,
   virtual evidence of the wrong cardinality) give no answer and are no-ops on the engine: after ANY mix of
   answered and rejected questions the engine is bound to the model it was created on and the next
   question is answered (or rejected) exactly as by a fresh engine *)
Theorem C16_rejected_calls (nb : nat) (cs : list nat) (L : list qfactor) (h : list question) (q : question) :
  run_history_e nb cs (fresh L) h = fresh L /\
  fst (ask_e nb cs (run_history_e nb cs (fresh L) h) q) = fst (ask_e nb cs (fresh L) q) /\
  fst (ask_e nb cs (fresh L) q) =
    (if q_valid nb cs (fresh L) q then Some (fst (ask nb cs (fresh L) q)) else None).
Proof. split; [apply history_e_state|split; [apply ask_e_after_history|apply ask_e_answer]]. Qed.
Print Assumptions C16_rejected_calls.

(* ... and, for questions about listed variables with ordinary evidence, for EVERY pair of elimination
   orders used by the two engines *)
Theorem C16_engine_history_any_order (nb : nat) (cs : list nat) :
  Forall (fun c => (0 < c)%nat) cs ->
  forall L h (bp : bool) Q ev o_f o_h,
  base_ok nb cs L -> ev_ok (ecard nb cs) ev ->
  (forall v, In v Q -> (v < nb)%nat) -> (forall v, In v (map fst ev) -> (v < nb)%nat) ->
  NoDup o_f -> (forall v, In v o_f -> occurs Qc_sum_csr v (map (fred Qc_sum_csr (ecard nb cs) ev) L)) ->
  Permutation o_f o_h ->
  fst (ask nb cs (run_history nb cs (fresh L) h)
         {| q_bp := bp; q_vars := Some Q; q_ev := ev; q_virt := None; q_order := o_h |}) =
  fst (ask nb cs (fresh L) {| q_bp := bp; q_vars := Some Q; q_ev := ev; q_virt := None; q_order := o_f |}).
Proof. intros Hc L h bp Q ev o_f o_h. apply ask_after_history_any_order. exact Hc. Qed.
Print Assumptions C16_engine_history_any_order.

(* What the restore is for.  In the variant WITHOUT it (the code before e568f1b: ask_nr) the engine stays
   bound to the original CPDs plus well-formed "__X" leaves ... *)
Theorem C16_without_restore_state (nb : nat) (cs : list nat) (L : list qfactor) (h : list question) :
  Forall (question_ok nb cs) h -> engine_inv nb cs L (run_history_nr nb cs (fresh L) h).
Proof. apply history_inv. Qed.
Print Assumptions C16_without_restore_state.

(* ... such leaves are barren: any model with the original CPDs and well-formed leftover leaves answers
   every question about original variables with ordinary evidence like the fresh engine, for all
   elimination orders (the leaves sum out to one) ... *)
Theorem C16_leftover_leaves_harmless (nb : nat) (cs : list nat) :
  Forall (fun c => (0 < c)%nat) cs ->
  forall L m (bp : bool) Q ev o_f o_h,
  base_ok nb cs L -> engine_inv nb cs L m -> ev_ok (ecard nb cs) ev ->
  (forall v, In v Q -> (v < nb)%nat) -> (forall v, In v (map fst ev) -> (v < nb)%nat) ->
  NoDup o_f -> (forall v, In v o_f -> occurs Qc_sum_csr v (map (fred Qc_sum_csr (ecard nb cs) ev) L)) ->
  Permutation (o_f ++ (if bp then @nil var else leafvars nb (m_leaves m))) o_h ->
  fst (ask_nr nb cs m {| q_bp := bp; q_vars := Some Q; q_ev := ev; q_virt := None; q_order := o_h |}) =
  fst (ask_nr nb cs (fresh L) {| q_bp := bp; q_vars := Some Q; q_ev := ev; q_virt := None; q_order := o_f |}).
Proof. intros Hc L m bp Q ev o_f o_h. apply ask_leaves_harmless. exact Hc. Qed.
Print Assumptions C16_leftover_leaves_harmless.

(* ... but map_query(variables=None) reads the node list of self.model: without the restore, after one
   virtual-evidence question its answer has scope (A, __A) and mode A = 0, the fresh engine's A = 1.
   (This is the defect repaired by e568f1b; the harness replays the witness on /repo on every run.) *)
Theorem C16_without_restore_refuted :
  exists (L : list qfactor) (h : list question) (q : question),
    Forall (question_ok 1 [2%nat]) h /\ base_ok 1 [2%nat] L /\
    fst (ask_nr 1 [2%nat] (run_history_nr 1 [2%nat] (fresh L) h) q) <> fst (ask_nr 1 [2%nat] (fresh L) q).
Proof. exact engine_history_without_restore_refuted. Qed.
Print Assumptions C16_without_restore_refuted.

(* ---------------- frame (store model) --------------------------------------------------------- *)
Theorem C16_frame_exec (ps : list prim) (s : store) (l : loc) :
  (l < next s)%nat -> ~ In l (writes ps) -> sget (exec s ps) l = sget s l.
Proof. apply exec_frame. Qed.
Print Assumptions C16_frame_exec.

(* every catalogued call except the writers' constructor writes only what it owns: arguments unchanged *)
Theorem C16_frame (c : call) (s : store) (l : loc) :
  pure_call c = true -> (l < next s)%nat -> ~ In l (owned c) -> sget (exec s (script c)) l = sget s l.
Proof. apply call_frame. Qed.
Print Assumptions C16_frame.

Theorem C16_frame_engine_restored (eng : loc) (a b : obj) (s : store) :
  sget (exec s (script (CBPQuery eng a b))) eng = Some a /\
  sget (exec s (script (CQueryVirt eng b a))) eng = Some a.
Proof. split; [apply bp_restores|apply virt_restores]. Qed.
Print Assumptions C16_frame_engine_restored.

Theorem C16_frame_simulate_evidence (evd : loc) (evd' res : obj) (s : store) : (evd < next s)%nat ->
  sget (exec s (script (CSimulateVirt evd evd' res))) evd = sget s evd.
Proof. apply simulate_virt_evidence. Qed.
Print Assumptions C16_frame_simulate_evidence.

Theorem C16_frame_uai_str_idempotent (buf : loc) (t1 t2 : obj) (s : store) : (buf < next s)%nat ->
  sget (exec (exec s (script (CUAIStr buf t1))) (script (CUAIStr buf t2))) buf = sget s buf.
Proof. apply uai_str_idempotent. Qed.
Print Assumptions C16_frame_uai_str_idempotent.

(* the writers sort the list model.cpds in place: the ORDER of that list is the only location written *)
Theorem C16_frame_writer_only_cpd_order (cpdord : loc) (sorted buf : obj) (s : store) (l : loc) :
  (l < next s)%nat -> l <> cpdord -> sget (exec s (script (CWriterInit cpdord sorted buf))) l = sget s l.
Proof. apply writer_writes_only_cpd_order. Qed.
Print Assumptions C16_frame_writer_only_cpd_order.
