(* C16: frame facts in the store model: a script writes only the locations it lists. *)
From Coq Require Import List Arith Lia PeanoNat Bool.
From PV Require Import C16.Model.
Import ListNotations.

Lemma exec1_next s p : next s <= next (exec1 s p).
Proof. destruct p; cbn; lia. Qed.
Lemma exec_next ps : forall s, next s <= next (exec s ps).
Proof.
  induction ps as [|p ps IH]; intros s; [cbn; lia|]. cbn [exec fold_left].
  eapply Nat.le_trans; [apply (exec1_next s p)|apply IH].
Qed.

Lemma exec1_frame s p l : l < next s -> ~ In l (writes [p]) -> sget (exec1 s p) l = sget s l.
Proof.
  intros Hl Hw. destruct p as [o|k o]; unfold sget; cbn [exec1 salloc swrite fst cells lookup].
  - destruct (Nat.eqb (next s) l) eqn:E; [apply Nat.eqb_eq in E; lia|reflexivity].
  - destruct (Nat.eqb k l) eqn:E; [|reflexivity]. apply Nat.eqb_eq in E. subst.
    exfalso. apply Hw. cbn. left. reflexivity.
Qed.

(* every allocated location outside the script's write list keeps its content *)
Theorem exec_frame ps : forall s l, l < next s -> ~ In l (writes ps) -> sget (exec s ps) l = sget s l.
Proof.
  induction ps as [|p ps IH]; intros s l Hl Hw; [reflexivity|]. cbn [exec fold_left].
  change (fold_left exec1 ps (exec1 s p)) with (exec (exec1 s p) ps).
  rewrite IH.
  - apply exec1_frame; [exact Hl|]. intros Hi. apply Hw. unfold writes in *. cbn [flat_map] in *.
    rewrite app_nil_r in Hi. apply in_or_app. left. exact Hi.
  - pose proof (exec1_next s p). lia.
  - intros Hi. apply Hw. unfold writes in *. cbn [flat_map]. apply in_or_app. right. exact Hi.
Qed.

Lemma pure_writes_owned c : pure_call c = true -> incl (writes (script c)) (owned c).
Proof. destruct c; cbn; intros H l Hl; try discriminate; cbn in *; intuition. Qed.

(* purity: a pure call changes no allocated location it does not own (arguments' content unchanged) *)
Theorem call_frame c s l : pure_call c = true -> l < next s -> ~ In l (owned c) ->
  sget (exec s (script c)) l = sget s l.
Proof.
  intros Hp Hl Ho. apply exec_frame; [exact Hl|]. intros Hi. apply Ho. apply (pure_writes_owned c Hp). exact Hi.
Qed.

(* belief propagation rebinding self.model to the pruned model and back: the field ends with the content
   of the copy of the original *)
Theorem bp_restores eng orig pruned s : sget (exec s (script (CBPQuery eng orig pruned))) eng = Some orig.
Proof. unfold sget. cbn. rewrite Nat.eqb_refl. reflexivity. Qed.
(* hill climbing (after 9b69d06) leaves the caller's start_dag alone *)
Theorem hillclimb_start_dag sdag res s : sdag < next s ->
  sget (exec s (script (CHillClimb sdag res))) sdag = sget s sdag.
Proof. intros H. apply call_frame; [reflexivity|exact H|intros []]. Qed.

(* virtual evidence: the engine field ends with the original model again (commit e568f1b) *)
Theorem virt_restores eng aug orig s : sget (exec s (script (CQueryVirt eng aug orig))) eng = Some orig.
Proof. unfold sget. cbn. rewrite Nat.eqb_refl. reflexivity. Qed.
(* simulate(virtual_evidence=...) leaves the caller's evidence dict alone (commit d456552) *)
Theorem simulate_virt_evidence evd evd' res s : evd < next s ->
  sget (exec s (script (CSimulateVirt evd evd' res))) evd = sget s evd.
Proof. intros H. apply call_frame; [reflexivity|exact H|intros []]. Qed.
(* str(UAIWriter) twice reads the same buffer (commit 8e3b33b) *)
Theorem uai_str_idempotent buf t1 t2 s : buf < next s ->
  sget (exec (exec s (script (CUAIStr buf t1))) (script (CUAIStr buf t2))) buf = sget s buf.
Proof.
  intros H. rewrite call_frame; [|reflexivity|pose proof (exec_next (script (CUAIStr buf t1)) s); lia|intros []].
  apply call_frame; [reflexivity|exact H|intros []].
Qed.
(* the one script that writes a location it does not own: the writers sort the list model.cpds in place
   (order only) *)
Theorem writer_writes_only_cpd_order cpdord sorted buf s l : l < next s -> l <> cpdord ->
  sget (exec s (script (CWriterInit cpdord sorted buf))) l = sget s l.
Proof. intros Hl Hne. apply exec_frame; [exact Hl|]. cbn. intros [H|[]]. congruence. Qed.
