(* C16: representation independence on the reference factor algebra.
   - permutations of factor lists / elimination orders (insertion order, hash seed),
   - injective renaming of variables,
   - permutation of the state indices of every variable.
   All statements are pointwise (feval / eval_prod), for every csr (sum-product and max-product). *)
From Coq Require Import List Arith Lia PeanoNat Bool Permutation.
From PV Require Import Base.Semiring Base.Ravel Base.FinSum Base.RefFactor Base.VE C16.Model.
Import ListNotations.

Section Perm.
Variable R : csr.
Variable card : var -> nat.
Notation factor := (factor R).

Lemma sum_list_perm (l l' : list R) : Permutation l l' -> sum_list l = sum_list l'.
Proof.
  induction 1 as [|x l l' _ IH|x y l|l l' l'' _ IH1 _ IH2]; simpl.
  - reflexivity.
  - rewrite IH. reflexivity.
  - rewrite !(add_assoc R). rewrite (add_comm R y x). reflexivity.
  - congruence.
Qed.
Lemma prod_list_perm (l l' : list R) : Permutation l l' -> prod_list l = prod_list l'.
Proof.
  induction 1 as [|x l l' _ IH|x y l|l l' l'' _ IH1 _ IH2]; simpl.
  - reflexivity.
  - rewrite IH. reflexivity.
  - rewrite !(mul_assoc R). rewrite (mul_comm R y x). reflexivity.
  - congruence.
Qed.

Lemma eval_prod_perm (L L' : list factor) a : Permutation L L' -> eval_prod R card L a = eval_prod R card L' a.
Proof. intros H. unfold eval_prod. apply prod_list_perm. apply Permutation_map. exact H. Qed.

Lemma sum_over_perm (o1 o2 : list var) : Permutation o1 o2 -> forall (g : asg -> R) a, NoDup o1 -> ext g ->
  sum_over o1 (map card o1) g a = sum_over o2 (map card o2) g a.
Proof.
  induction 1 as [|x l l' HP IH|x y l|l l' l'' HP1 IH1 HP2 IH2]; intros g a Hnd Hg.
  - reflexivity.
  - cbn [map sum_over]. apply sum_list_ext. intros i _. apply IH; [inversion Hnd; assumption|exact Hg].
  - cbn [map].
    change (sum_over [y] [card y] (sum_over [x] [card x] (sum_over l (map card l) g)) a =
            sum_over [x] [card x] (sum_over [y] [card y] (sum_over l (map card l) g)) a).
    apply sum_over_swap; [apply sum_over_is_ext; exact Hg| |reflexivity].
    intros v [<-|[]] [E|[]]. inversion Hnd as [|? ? Hy _]; subst. apply Hy. left. reflexivity.
  - rewrite IH1 by assumption. apply IH2; [|exact Hg]. eapply Permutation_NoDup; eassumption.
Qed.

Lemma occurs_perm v (L L' : list factor) : Permutation L L' -> occurs R v L -> occurs R v L'.
Proof. intros HP [f [Hf Hv]]. exists f. split; [eapply Permutation_in; eassumption|exact Hv]. Qed.

(* insertion order of the factors and elimination order are both irrelevant *)
Theorem ve_run_perm (L L' : list factor) (o o' : list var) a :
  Forall (wf R card) L -> Forall (fok R card) L -> NoDup o -> (forall v, In v o -> occurs R v L) ->
  valid card a -> Permutation L L' -> Permutation o o' ->
  eval_prod R card (ve_run R card L o) a = eval_prod R card (ve_run R card L' o') a.
Proof.
  intros Hwf Hok Hnd Hocc Ha HPL HPo.
  assert (Hwf' : Forall (wf R card) L') by (eapply Permutation_Forall; eassumption).
  assert (Hok' : Forall (fok R card) L') by (eapply Permutation_Forall; eassumption).
  assert (Hnd' : NoDup o') by (eapply Permutation_NoDup; eassumption).
  rewrite !ve_run_correct; try assumption.
  - rewrite <- (sum_over_perm o o' HPo) by (try assumption; apply eval_prod_ext).
    apply sum_over_ext_valid; [exact Ha|]. intros b _. apply eval_prod_perm. exact HPL.
  - intros v Hv. apply (occurs_perm v L L' HPL). apply Hocc. eapply Permutation_in; [apply Permutation_sym|]; eassumption.
Qed.

(* evidence within range *)
Definition ev_ok (ev : list (var * nat)) : Prop := forall v i, In (v, i) ev -> i < card v.
Lemma valid_upds a ev : valid card a -> ev_ok ev -> valid card (upds a ev).
Proof.
  intros Ha. induction ev as [|[v i] ev IH]; intros He; [exact Ha|]. cbn [upds].
  apply valid_upd; [apply IH; intros w j Hw; apply He; right; exact Hw|apply He; left; reflexivity].
Qed.
Lemma fok_fred ev f : wf R card f -> fok R card f -> ev_ok ev -> fok R card (fred R card ev f).
Proof. intros Hw Hf He a Ha. rewrite feval_fred by assumption. apply Hf. apply valid_upds; assumption. Qed.
Lemma Forall_wf_fred ev L : Forall (wf R card) L -> Forall (wf R card) (map (fred R card ev) L).
Proof. intros H. apply Forall_map. eapply Forall_impl; [|exact H]. intros f. apply wf_fred. Qed.
Lemma Forall_fok_fred ev L : Forall (wf R card) L -> Forall (fok R card) L -> ev_ok ev ->
  Forall (fok R card) (map (fred R card ev) L).
Proof.
  intros Hw Hf He. apply Forall_map. rewrite Forall_forall in *. intros f Hin. apply fok_fred; auto.
Qed.
Lemma eval_prod_fred ev L a : Forall (wf R card) L -> valid card a ->
  eval_prod R card (map (fred R card ev) L) a = eval_prod R card L (upds a ev).
Proof.
  intros Hw Ha. unfold eval_prod. rewrite map_map. f_equal. apply map_ext_in. intros f Hin.
  rewrite Forall_forall in Hw. apply feval_fred; auto.
Qed.

(* the numerator of a VE answer is a sum of the product of the reduced factors: what it means *)
Theorem ve_num_meaning L ev o a :
  Forall (wf R card) L -> Forall (fok R card) L -> ev_ok ev -> NoDup o ->
  (forall v, In v o -> occurs R v (map (fred R card ev) L)) -> valid card a ->
  ve_num card L ev o a = sum_over o (map card o) (fun b => eval_prod R card L (upds b ev)) a.
Proof.
  intros Hwf Hok He Hnd Hocc Ha. unfold ve_num, ve_answer.
  rewrite ve_run_correct; try assumption; [|apply Forall_wf_fred; exact Hwf|apply Forall_fok_fred; assumption].
  apply sum_over_ext_valid; [exact Ha|]. intros b Hb. apply eval_prod_fred; assumption.
Qed.
End Perm.

(* ------------------------------------------------------------------------------------------- *)
Section Rename.
Variable R : csr.
Variable card card' : var -> nat.
Variable rho : var -> var.
Hypothesis rho_inj : forall x y, rho x = rho y -> x = y.
Hypothesis card_rho : forall v, card' (rho v) = card v.
Notation factor := (factor R).

Definition pull (a' : asg) : asg := fun v => a' (rho v).

Lemma valid_pull a' : valid card' a' -> valid card (pull a').
Proof. intros H v. unfold pull. rewrite <- card_rho. apply H. Qed.

Lemma map_card_rho l : map card' (map rho l) = map card l.
Proof. rewrite map_map. apply map_ext. exact card_rho. Qed.

Lemma feval_frename f a' : feval R card' (frename rho f) a' = feval R card f (pull a').
Proof.
  unfold feval, fcard, frename. cbn [fvars fvals]. rewrite map_card_rho, map_map. reflexivity.
Qed.

Lemma NoDup_map_rho l : NoDup l -> NoDup (map rho l).
Proof.
  induction 1 as [|x l Hx Hn IH]; simpl; constructor; [|exact IH].
  intros Hi. apply in_map_iff in Hi. destruct Hi as [y [Hy Hin]]. apply rho_inj in Hy. subst. contradiction.
Qed.
Lemma In_map_rho x l : In (rho x) (map rho l) <-> In x l.
Proof.
  split; [|apply in_map]. intros Hi. apply in_map_iff in Hi. destruct Hi as [y [Hy Hin]].
  apply rho_inj in Hy. subst. exact Hin.
Qed.

Lemma wf_frename f : wf R card f -> wf R card' (frename rho f).
Proof.
  intros [Hn Hl]. split; [apply NoDup_map_rho; exact Hn|].
  unfold fcard, frename in *. cbn [fvars fvals]. rewrite map_card_rho. exact Hl.
Qed.
Lemma fok_frename f : fok R card f -> fok R card' (frename rho f).
Proof. intros H a' Ha'. rewrite feval_frename. apply H. apply valid_pull. exact Ha'. Qed.

Lemma pull_upd a' v i : aeq (pull (upd a' (rho v) i)) (upd (pull a') v i).
Proof.
  intros w. unfold pull, upd. destruct (Nat.eqb w v) eqn:E.
  - apply Nat.eqb_eq in E. subst. rewrite Nat.eqb_refl. reflexivity.
  - destruct (Nat.eqb (rho w) (rho v)) eqn:E'; [|reflexivity].
    apply Nat.eqb_eq in E'. apply rho_inj in E'. subst. rewrite Nat.eqb_refl in E. discriminate.
Qed.
Lemma pull_upds a' ev : aeq (pull (upds a' (ev_rename rho ev))) (upds (pull a') ev).
Proof.
  induction ev as [|[v i] ev IH]; [apply aeq_refl|]. cbn [ev_rename map upds fst snd].
  eapply aeq_trans; [apply pull_upd|]. apply upd_aeq. exact IH.
Qed.

Lemma ev_ok_rename ev : ev_ok card ev -> ev_ok card' (ev_rename rho ev).
Proof.
  intros H w i Hi. unfold ev_rename in Hi. apply in_map_iff in Hi. destruct Hi as [[v j] [Hq Hin]].
  cbn in Hq. inversion Hq; subst. rewrite card_rho. apply (H v i Hin).
Qed.

(* sums over renamed variables *)
Lemma sum_over_rename xs : forall (g' g : asg -> R) a', valid card' a' -> ext g ->
  (forall b', valid card' b' -> g' b' = g (pull b')) ->
  sum_over (map rho xs) (map card' (map rho xs)) g' a' = sum_over xs (map card xs) g (pull a').
Proof.
  induction xs as [|v xs IH]; intros g' g a' Ha' Hg H; [apply H; exact Ha'|].
  cbn [map sum_over]. rewrite card_rho. apply sum_list_ext. intros i Hi. apply in_seq in Hi.
  rewrite (IH g' g); [|apply valid_upd; [exact Ha'|rewrite card_rho; lia]|exact Hg|exact H].
  apply sum_over_aeq; [exact Hg|]. apply pull_upd.
Qed.

Lemma eval_prod_frename L a' : eval_prod R card' (map (frename rho) L) a' = eval_prod R card L (pull a').
Proof. unfold eval_prod. rewrite map_map. f_equal. apply map_ext. intros f. apply feval_frename. Qed.

(* the three operations commute with renaming, pointwise *)
Theorem fprod_rename f g a' : wf R card f -> wf R card g -> valid card' a' ->
  feval R card' (fprod R card' (frename rho f) (frename rho g)) a' = feval R card (fprod R card f g) (pull a').
Proof.
  intros Hf Hg Ha'. rewrite !feval_fprod; try assumption; try (apply wf_frename; assumption); [|apply valid_pull; exact Ha'].
  rewrite !feval_frename. reflexivity.
Qed.

Lemma vinter_map_rho l X : vinter (map rho l) (map rho X) = map rho (vinter l X).
Proof.
  unfold vinter. induction l as [|x l IH]; [reflexivity|]. cbn [map filter].
  assert (E : memv (rho x) (map rho X) = memv x X).
  { destruct (memv x X) eqn:E.
    - apply memv_In. apply in_map. apply memv_In. exact E.
    - apply memv_false. intros Hi. apply (proj1 (In_map_rho _ _)) in Hi. apply (proj2 (memv_In _ _)) in Hi. congruence. }
  rewrite E. destruct (memv x X); cbn [map]; rewrite IH; reflexivity.
Qed.
Lemma vminus_map_rho l X : vminus (map rho l) (map rho X) = map rho (vminus l X).
Proof.
  unfold vminus. induction l as [|x l IH]; [reflexivity|]. cbn [map filter].
  assert (E : memv (rho x) (map rho X) = memv x X).
  { destruct (memv x X) eqn:E.
    - apply memv_In. apply in_map. apply memv_In. exact E.
    - apply memv_false. intros Hi. apply (proj1 (In_map_rho _ _)) in Hi. apply (proj2 (memv_In _ _)) in Hi. congruence. }
  rewrite E. destruct (memv x X); cbn [map negb]; rewrite IH; reflexivity.
Qed.

Theorem fmarg_rename X f a' : wf R card f -> valid card' a' ->
  feval R card' (fmarg R card' (map rho X) (frename rho f)) a' = feval R card (fmarg R card X f) (pull a').
Proof.
  intros Hf Ha'. rewrite !feval_fmarg; try assumption; [|apply valid_pull; exact Ha'|apply wf_frename; exact Hf].
  change (fvars (frename rho f)) with (map rho (fvars f)). rewrite vinter_map_rho.
  apply sum_over_rename; [exact Ha'|apply feval_ext|]. intros b' _. apply feval_frename.
Qed.

Theorem fred_rename ev f a' : wf R card f -> valid card' a' ->
  feval R card' (fred R card' (ev_rename rho ev) (frename rho f)) a' = feval R card (fred R card ev f) (pull a').
Proof.
  intros Hf Ha'. rewrite !feval_fred; try assumption; [|apply valid_pull; exact Ha'|apply wf_frename; exact Hf].
  rewrite feval_frename. apply feval_ext. apply pull_upds.
Qed.

Lemma map_fst_ev_rename ev : map fst (ev_rename rho ev) = map rho (map fst ev).
Proof. unfold ev_rename. rewrite !map_map. reflexivity. Qed.

Lemma occurs_rename v ev L : occurs R v (map (fred R card ev) L) ->
  occurs R (rho v) (map (fred R card' (ev_rename rho ev)) (map (frename rho) L)).
Proof.
  intros [f [Hf Hv]]. apply in_map_iff in Hf. destruct Hf as [f0 [<- Hin]].
  exists (fred R card' (ev_rename rho ev) (frename rho f0)). split.
  - apply in_map. apply in_map. exact Hin.
  - rewrite fvars_fred in *. change (fvars (frename rho f0)) with (map rho (fvars f0)).
    rewrite map_fst_ev_rename, vminus_map_rho. apply in_map. exact Hv.
Qed.

(* variable elimination on the renamed network, with ANY elimination order o' that is a permutation of
   the renamed order, any insertion order L' of the renamed factors: same numerator at the renamed
   assignment *)
Theorem ve_num_rename L L' ev o o' a' :
  Forall (wf R card) L -> Forall (fok R card) L -> ev_ok card ev -> NoDup o ->
  (forall v, In v o -> occurs R v (map (fred R card ev) L)) -> valid card' a' ->
  Permutation (map (frename rho) L) L' -> Permutation (map rho o) o' ->
  ve_num card' L' (ev_rename rho ev) o' a' = ve_num card L ev o (pull a').
Proof.
  intros Hwf Hok He Hnd Hocc Ha' HPL HPo.
  assert (Hwf1 : Forall (wf R card') (map (frename rho) L)).
  { apply Forall_map. eapply Forall_impl; [|exact Hwf]. intros f. apply wf_frename. }
  assert (Hok1 : Forall (fok R card') (map (frename rho) L)).
  { apply Forall_map. eapply Forall_impl; [|exact Hok]. intros f. apply fok_frename. }
  assert (Hwf' : Forall (wf R card') L') by (eapply Permutation_Forall; eassumption).
  assert (Hok' : Forall (fok R card') L') by (eapply Permutation_Forall; eassumption).
  assert (Hnd1 : NoDup (map rho o)) by (apply NoDup_map_rho; exact Hnd).
  assert (Hnd' : NoDup o') by (eapply Permutation_NoDup; eassumption).
  rewrite (ve_num_meaning R card'); try assumption; [|apply ev_ok_rename; exact He|].
  2:{ intros w Hw. apply (Permutation_in _ (Permutation_sym HPo)) in Hw.
      apply in_map_iff in Hw. destruct Hw as [v [<- Hv]].
      apply (occurs_perm R (rho v) (map (fred R card' (ev_rename rho ev)) (map (frename rho) L))).
      - apply Permutation_map. exact HPL.
      - apply occurs_rename. apply Hocc. exact Hv. }
  rewrite (ve_num_meaning R card); try assumption; [|apply valid_pull; exact Ha'].
  rewrite <- (sum_over_perm R card' (map rho o) o' HPo); [|exact Hnd1|].
  2:{ intros x y Hxy. apply eval_prod_ext. apply (fun H => H). intros w.
      clear - Hxy. induction (ev_rename rho ev) as [|[u i] r IH]; [apply Hxy|]. cbn [upds]. unfold upd.
      destruct (Nat.eqb w u); [reflexivity|exact IH]. }
  apply sum_over_rename; [exact Ha'| |].
  - intros x y Hxy. apply eval_prod_ext. intros w.
    clear - Hxy. induction ev as [|[u i] r IH]; [apply Hxy|]. cbn [upds]. unfold upd.
    destruct (Nat.eqb w u); [reflexivity|exact IH].
  - intros b' Hb'. rewrite <- (eval_prod_perm R card' _ _ _ HPL). rewrite eval_prod_frename.
    apply eval_prod_ext. apply pull_upds.
Qed.
End Rename.

(* ------------------------------------------------------------------------------------------- *)
Section PermStates.
Variable R : csr.
Variable card : var -> nat.
Variable pi : var -> nat -> nat.
(* pi v is a bijection of the state indices 0..card v - 1 *)
Hypothesis pi_perm : forall v, Permutation (map (pi v) (seq 0 (card v))) (seq 0 (card v)).
Notation factor := (factor R).

Lemma pi_lt v i : i < card v -> pi v i < card v.
Proof.
  intros Hi. assert (H : In (pi v i) (seq 0 (card v))).
  { eapply Permutation_in; [apply pi_perm|]. apply in_map. apply in_seq. lia. }
  apply in_seq in H. lia.
Qed.
Lemma valid_pact a : valid card a -> valid card (pact pi a).
Proof. intros H v. unfold pact. apply pi_lt. apply H. Qed.

Lemma pact_aeq a b : aeq a b -> aeq (pact pi a) (pact pi b).
Proof. intros H v. unfold pact. rewrite H. reflexivity. Qed.

Lemma feval_fperm f a : wf R card f -> valid card a -> feval R card (fperm card pi f) a = feval R card f (pact pi a).
Proof.
  intros [Hn _] Ha. unfold fperm.
  apply (feval_fbuild R card (fvars f) (fun b => feval R card f (pact pi b)) a); [exact Hn|exact Ha|].
  intros x y Hxy. apply feval_depends_only. intros v Hv. unfold pact. rewrite (Hxy v Hv). reflexivity.
Qed.
Lemma wf_fperm f : wf R card f -> wf R card (fperm card pi f).
Proof. intros [Hn _]. apply wf_fbuild. exact Hn. Qed.
Lemma fok_fperm f : wf R card f -> fok R card f -> fok R card (fperm card pi f).
Proof. intros Hw H a Ha. rewrite feval_fperm by assumption. apply H. apply valid_pact. exact Ha. Qed.

Lemma pact_upd a v i : aeq (pact pi (upd a v i)) (upd (pact pi a) v (pi v i)).
Proof.
  intros w. unfold pact, upd. destruct (Nat.eqb w v) eqn:E; [apply Nat.eqb_eq in E; subst|]; reflexivity.
Qed.
Lemma pact_upds a ev : aeq (pact pi (upds a ev)) (upds (pact pi a) (ev_pact pi ev)).
Proof.
  induction ev as [|[v i] ev IH]; [apply aeq_refl|]. cbn [ev_pact map upds fst snd].
  eapply aeq_trans; [apply pact_upd|]. apply upd_aeq. exact IH.
Qed.
Lemma ev_ok_pact ev : ev_ok card ev -> ev_ok card (ev_pact pi ev).
Proof.
  intros H w i Hi. unfold ev_pact in Hi. apply in_map_iff in Hi. destruct Hi as [[v j] [Hq Hin]].
  cbn in Hq. inversion Hq; subst. apply pi_lt. apply (H _ _ Hin).
Qed.
Lemma map_fst_ev_pact ev : map fst (ev_pact pi ev) = map fst ev.
Proof. unfold ev_pact. rewrite map_map. reflexivity. Qed.

Lemma sum_over_pact xs : forall (g' g : asg -> R) a, valid card a -> ext g ->
  (forall b, valid card b -> g' b = g (pact pi b)) ->
  sum_over xs (map card xs) g' a = sum_over xs (map card xs) g (pact pi a).
Proof.
  induction xs as [|v xs IH]; intros g' g a Ha Hg H; [apply H; exact Ha|].
  cbn [map sum_over].
  transitivity (sum_list (map (fun j => sum_over xs (map card xs) g (upd (pact pi a) v j))
                              (map (pi v) (seq 0 (card v))))).
  - rewrite map_map. apply sum_list_ext. intros i Hi. apply in_seq in Hi.
    rewrite (IH g' g); [|apply valid_upd; [exact Ha|lia]|exact Hg|exact H].
    apply sum_over_aeq; [exact Hg|]. apply pact_upd.
  - apply sum_list_perm. apply Permutation_map. apply pi_perm.
Qed.

Theorem fprod_perm_states f g a : wf R card f -> wf R card g -> valid card a ->
  feval R card (fprod R card (fperm card pi f) (fperm card pi g)) a = feval R card (fprod R card f g) (pact pi a).
Proof.
  intros Hf Hg Ha. rewrite !feval_fprod; try assumption; try (apply wf_fperm; assumption); [|apply valid_pact; exact Ha].
  rewrite !feval_fperm by assumption. reflexivity.
Qed.
Theorem fmarg_perm_states X f a : wf R card f -> valid card a ->
  feval R card (fmarg R card X (fperm card pi f)) a = feval R card (fmarg R card X f) (pact pi a).
Proof.
  intros Hf Ha. rewrite !feval_fmarg; try assumption; [|apply valid_pact; exact Ha|apply wf_fperm; exact Hf].
  change (fvars (fperm card pi f)) with (fvars f).
  apply sum_over_pact; [exact Ha|apply feval_ext|]. intros b Hb. apply feval_fperm; assumption.
Qed.
Theorem fred_perm_states ev f a : wf R card f -> valid card a -> ev_ok card ev ->
  feval R card (fred R card ev (fperm card pi f)) a = feval R card (fred R card (ev_pact pi ev) f) (pact pi a).
Proof.
  intros Hf Ha He. rewrite !feval_fred; try assumption; [|apply valid_pact; exact Ha|apply wf_fperm; exact Hf].
  rewrite feval_fperm; [|exact Hf|apply valid_upds; assumption]. apply feval_ext. apply pact_upds.
Qed.

Lemma upds_ext ev x y : aeq x y -> aeq (upds x ev) (upds y ev).
Proof. intros H. induction ev as [|[u i] r IH]; [exact H|]. cbn [upds]. apply upd_aeq. exact IH. Qed.

(* ev' is the evidence as written with the NEW state indices; in the old indices it is ev_pact pi ev' *)
Theorem ve_num_perm_states L L' ev' o o' a :
  Forall (wf R card) L -> Forall (fok R card) L -> ev_ok card ev' -> NoDup o ->
  (forall v, In v o -> occurs R v (map (fred R card (ev_pact pi ev')) L)) -> valid card a ->
  Permutation (map (fperm card pi) L) L' -> Permutation o o' ->
  ve_num card L' ev' o' a = ve_num card L (ev_pact pi ev') o (pact pi a).
Proof.
  intros Hwf Hok He Hnd Hocc Ha HPL HPo.
  assert (Hwf1 : Forall (wf R card) (map (fperm card pi) L)).
  { apply Forall_map. eapply Forall_impl; [|exact Hwf]. intros f. apply wf_fperm. }
  assert (Hok1 : Forall (fok R card) (map (fperm card pi) L)).
  { apply Forall_map. rewrite Forall_forall in *. intros f Hf. apply fok_fperm; auto. }
  assert (Hwf' : Forall (wf R card) L') by (eapply Permutation_Forall; eassumption).
  assert (Hok' : Forall (fok R card) L') by (eapply Permutation_Forall; eassumption).
  assert (Hnd' : NoDup o') by (eapply Permutation_NoDup; eassumption).
  rewrite (ve_num_meaning R card L'); try assumption.
  2:{ intros w Hw. apply (Permutation_in _ (Permutation_sym HPo)) in Hw.
      apply (occurs_perm R w (map (fred R card ev') (map (fperm card pi) L))); [apply Permutation_map; exact HPL|].
      destruct (Hocc w Hw) as [f [Hf Hv]]. apply in_map_iff in Hf. destruct Hf as [f0 [<- Hin]].
      exists (fred R card ev' (fperm card pi f0)). split; [apply in_map; apply in_map; exact Hin|].
      rewrite fvars_fred in *. rewrite map_fst_ev_pact in Hv. exact Hv. }
  rewrite (ve_num_meaning R card L); try assumption; [|apply ev_ok_pact; exact He|apply valid_pact; exact Ha].
  rewrite <- (sum_over_perm R card o o' HPo); [|exact Hnd|].
  2:{ intros x y Hxy. apply eval_prod_ext. apply upds_ext. exact Hxy. }
  apply sum_over_pact; [exact Ha| |].
  - intros x y Hxy. apply eval_prod_ext. apply upds_ext. exact Hxy.
  - intros b Hb. rewrite <- (eval_prod_perm R card _ _ _ HPL).
    unfold eval_prod. rewrite map_map. f_equal. apply map_ext_in. intros f Hf.
    rewrite Forall_forall in Hwf. rewrite feval_fperm; [|apply Hwf; exact Hf|apply valid_upds; assumption].
    apply feval_ext. apply pact_upds.
Qed.
End PermStates.
