(* C16 — purity, repeatability, representation independence.  Executable definitions only.

   (1) representation transports on the reference factor algebra (coq/Base/RefFactor.v):
       renaming of variables, permutation of the state indices of every variable, and the
       reference variable-elimination posterior used by the harness for the cross-seed /
       cross-backend / renaming comparisons;
   (2) a state machine for pgmpy's exact-inference engine objects: which model `self.model` is
       bound to after each kind of question, as the code is now ([ask], with the restore of commit
       e568f1b) and in the variant without the restore ([ask_nr]) (pgmpy/inference/base.py `_virtual_evidence`,
       pgmpy/inference/ExactInference.py VariableElimination.query/map_query and
       BeliefPropagation.query/map_query);
   (3) a small store model (locations -> objects) of the calls in the harness catalogue: each call is a
       script of primitive writes, as the code performs them. *)
From Coq Require Import List Arith Lia PeanoNat Bool QArith Qcanon.
From PV Require Import Base.Semiring Base.Ravel Base.FinSum Base.RefFactor Base.VE.
Import ListNotations.

(* ------------------------------------------------------------------------------------------- *)
(* (1) representation transports                                                               *)
Section Repr.
Variable R : csr.
Notation factor := (factor R).

(* variables renamed by rho; the table is untouched (axis k of the table is variable k of the scope) *)
Definition frename (rho : var -> var) (f : factor) : factor :=
  {| fvars := map rho (fvars f); fvals := fvals f |}.
Definition ev_rename (rho : var -> var) (ev : list (var * nat)) : list (var * nat) :=
  map (fun p => (rho (fst p), snd p)) ev.

(* state indices relabelled: new state i of variable v is old state (pi v i) *)
Definition pact (pi : var -> nat -> nat) (a : asg) : asg := fun v => pi v (a v).
Definition fperm (card : var -> nat) (pi : var -> nat -> nat) (f : factor) : factor :=
  fbuild R card (fvars f) (fun a => feval R card f (pact pi a)).
Definition ev_pact (pi : var -> nat -> nat) (ev : list (var * nat)) : list (var * nat) :=
  map (fun p => (fst p, pi (fst p) (snd p))) ev.

(* what variable elimination does: reduce every factor by the evidence, eliminate [order] *)
Definition ve_answer (card : var -> nat) (L : list factor) (ev : list (var * nat)) (order : list var)
  : list factor := ve_run R card (map (fred R card ev) L) order.
Definition ve_num (card : var -> nat) (L : list factor) (ev : list (var * nat)) (order : list var)
  (a : asg) : R := eval_prod R card (ve_answer card L ev order) a.
End Repr.

Arguments frename {R}. Arguments fperm {R}. Arguments ve_answer {R}. Arguments ve_num {R}.

Notation qfactor := (factor Qc_sum_csr).

(* normalised posterior over the query variables Q (pgmpy: result.normalize()) *)
Definition qnum (card : var -> nat) (L : list qfactor) (ev : list (var * nat)) (order : list var)
  (a : asg) : Qc := ve_num (R := Qc_sum_csr) card L ev order a.
Definition qden (card : var -> nat) (L : list qfactor) (ev : list (var * nat)) (order Q : list var)
  (a : asg) : Qc := sum_over (R := Qc_sum_csr) Q (map card Q) (qnum card L ev order) a.
Definition qpost (card : var -> nat) (L : list qfactor) (ev : list (var * nat)) (order Q : list var)
  (a : asg) : Qc := (qnum card L ev order a / qden card L ev order Q a)%Qc.
(* the table over Q, row-major *)
Definition qpost_table (card : var -> nat) (L : list qfactor) (ev : list (var * nat)) (order Q : list var)
  : list Qc :=
  (* the elimination is shared by all entries (so that the extracted model runs it once); each entry is
     [qpost card L ev order Q (asg_of Q idx)] by definition (see qpost_table_spec in ProofsEngine.v) *)
  let fs := ve_answer (R := Qc_sum_csr) card L ev order in
  let num := fun a => eval_prod Qc_sum_csr card fs a in
  t_build Qc (map card Q) (fun idx => (num (asg_of Q idx) / sum_over (R := Qc_sum_csr) Q (map card Q) num (asg_of Q idx))%Qc).

(* ------------------------------------------------------------------------------------------- *)
(* (2) the engine object                                                                        *)
(* Base variables are 0..nb-1 (the harness interns node names); the node "__X" that
   `_virtual_evidence` adds for a base variable X is interned as nb + X and is binary. *)
Definition lv (nb : nat) (x : var) : var := (nb + x)%nat.
Definition ecard (nb : nat) (cs : list nat) (v : var) : nat := if (v <? nb)%nat then nth v cs 1%nat else 2%nat.

(* new_cpd of `_virtual_evidence`: variable "__X", evidence [X], values vstack(e, 1 - e);
   as a factor its scope is ["__X", X] *)
Definition leaf_factor (nb : nat) (x : var) (e : list Qc) : qfactor :=
  Build_factor Qc_sum_csr [lv nb x; x] (e ++ map (fun p => (1 - p)%Qc) e).

(* the model an engine is bound to: the CPDs of the base network and, per base variable X, the CPD of
   "__X" if some earlier question added it *)
Record emodel := { m_base : list qfactor; m_leaves : list (var * list Qc) }.

(* bn.add_edge(X, "__X") ; bn.add_cpds(new_cpd): an existing CPD of the same variable is replaced in
   place (BayesianNetwork.add_cpds), otherwise appended *)
Fixpoint put_leaf (x : var) (e : list Qc) (ls : list (var * list Qc)) : list (var * list Qc) :=
  match ls with
  | [] => [(x, e)]
  | (y, e') :: r => if Nat.eqb x y then (x, e) :: r else (y, e') :: put_leaf x e r
  end.
Definition augment (m : emodel) (virt : list (var * list Qc)) : emodel :=
  {| m_base := m_base m;
     m_leaves := fold_left (fun ls p => put_leaf (fst p) (snd p) ls) virt (m_leaves m) |}.

Definition m_factors (nb : nat) (m : emodel) : list qfactor :=
  m_base m ++ map (fun p => leaf_factor nb (fst p) (snd p)) (m_leaves m).
Definition m_nodes (nb : nat) (m : emodel) : list var :=
  seq 0 nb ++ map (fun p => lv nb (fst p)) (m_leaves m).

(* a question.  q_vars = None is `map_query(variables=None)`: "all unobserved nodes of self.model".
   q_order is the elimination order actually used (an order parameter: greedy einsum path, MinFill,
   set iteration...); it must list the nodes of the queried model that are neither asked nor observed. *)
Record question := {
  q_bp : bool;                                (* BeliefPropagation (true) or VariableElimination *)
  q_vars : option (list var);
  q_ev : list (var * nat);
  q_virt : option (list (var * list Qc));
  q_order : list var }.

Definition virt_evidence (nb : nat) (virt : list (var * list Qc)) : list (var * nat) :=
  map (fun p => (lv nb (fst p), 0%nat)) virt.

(* _prune_bayesian_model restricted to what matters for engine state: "__X" leaves that are neither
   asked nor observed are dropped (barren); everything else is kept (the general pruning theorem is C01's) *)
Definition prune (nb : nat) (m : emodel) (Q : list var) (ev : list (var * nat)) : emodel :=
  {| m_base := m_base m;
     m_leaves := filter (fun p => memv (lv nb (fst p)) Q || memv (lv nb (fst p)) (map fst ev)) (m_leaves m) |}.

(* the answer of a question on the model the engine is bound to: scope and normalised table *)
Definition answer_on (nb : nat) (cs : list nat) (m : emodel) (Q : list var) (ev : list (var * nat))
  (order : list var) : list var * list Qc :=
  (Q, qpost_table (ecard nb cs) (m_factors nb m) ev order Q).

(* One question WITHOUT the restore of commit e568f1b (the code before the repair; kept as the variant
   that shows what the restore is for):
   VariableElimination.query / map_query:
       virtual evidence:  self._virtual_evidence(v)  [= self.__init__(augmented copy)], then the same
                          question with evidence + {"__X": 0}; self.model was never rebound back.
       otherwise:         works on a pruned copy; self.model untouched.
   BeliefPropagation.query / map_query:
       orig_model = self.model.copy(); (virtual evidence: as above, the recursive call's result was
       returned directly, so the inner restore re-installed the AUGMENTED model);
       self.model = pruned; ...; self.__init__(orig_model). *)
Definition ask_nr (nb : nat) (cs : list nat) (m : emodel) (q : question)
  : (list var * list Qc) * emodel :=
  let m1 := match q_virt q with Some v => augment m v | None => m end in
  let ev1 := match q_virt q with Some v => q_ev q ++ virt_evidence nb v | None => q_ev q end in
  let Q := match q_vars q with
           | Some Q => Q
           | None => filter (fun v => negb (memv v (map fst ev1))) (m_nodes nb m1)   (* all unobserved nodes *)
           end in
  if q_bp q then
    let orig := m1 in
    let pruned := prune nb m1 Q ev1 in
    let r := answer_on nb cs pruned Q ev1 (q_order q) in
    (r, orig)
  else (answer_on nb cs m1 Q ev1 (q_order q), m1).
Definition run_history_nr (nb : nat) (cs : list nat) (m : emodel) (h : list question) : emodel :=
  fold_left (fun m q => snd (ask_nr nb cs m q)) h m.

(* One question as the code is NOW: (answer, model the engine is bound to afterwards).
       orig_model = self.model
       virtual evidence:  self._virtual_evidence(v); try: return <same question, evidence + {"__X": 0}>
                          finally: self.__init__(orig_model)
       BeliefPropagation: self.model = pruned; ...; self.__init__(copy of the model it started from)
   The answer is computed exactly as before; afterwards the engine is bound to what it was bound to. *)
Definition ask (nb : nat) (cs : list nat) (m : emodel) (q : question)
  : (list var * list Qc) * emodel :=
  let orig_model := m in
  let r := fst (ask_nr nb cs m q) in
  (r, orig_model).

Definition run_history (nb : nat) (cs : list nat) (m : emodel) (h : list question) : emodel :=
  fold_left (fun m q => snd (ask nb cs m q)) h m.

(* Rejected calls.  What pgmpy checks before (or while) answering: a variable both asked and observed
   (ValueError up front), unknown variables, an evidence state out of range (KeyError from get_state_no),
   virtual evidence on an unknown variable or of the wrong cardinality (_check_virtual_evidence).  A
   rejected call returns no answer; the try/finally blocks leave the engine bound to what it was bound to. *)
Fixpoint nodupv (l : list var) : bool :=
  match l with [] => true | x :: r => negb (memv x r) && nodupv r end.
Definition q_valid (nb : nat) (cs : list nat) (m : emodel) (q : question) : bool :=
  let virt := match q_virt q with Some v => v | None => [] end in
  let m1 := augment m virt in
  let nodes := m_nodes nb m1 in
  let Q := match q_vars q with Some Q => Q | None => [] end in
  forallb (fun v => memv v nodes) Q && nodupv Q
  && forallb (fun p => (fst p <? nb)%nat && (snd p <? ecard nb cs (fst p))%nat) (q_ev q)
  && nodupv (map fst (q_ev q))
  && forallb (fun v => negb (memv v (map fst (q_ev q)))) Q
  && forallb (fun p => (fst p <? nb)%nat && Nat.eqb (length (snd p)) (ecard nb cs (fst p))) virt.
Definition ask_e (nb : nat) (cs : list nat) (m : emodel) (q : question)
  : option (list var * list Qc) * emodel :=
  if q_valid nb cs m q then (Some (fst (ask nb cs m q)), snd (ask nb cs m q)) else (None, m).
Definition run_history_e (nb : nat) (cs : list nat) (m : emodel) (h : list question) : emodel :=
  fold_left (fun m q => snd (ask_e nb cs m q)) h m.
Definition fresh (L : list qfactor) : emodel := {| m_base := L; m_leaves := [] |}.

(* ------------------------------------------------------------------------------------------- *)
(* (3) store model                                                                              *)
Definition loc := nat.
Inductive obj :=
| OTable (vals : list Qc)                (* ndarray of a CPD / factor / data frame column *)
| ONames (ns : list nat)                 (* node list, state-name list, column index, cpd order *)
| OEdges (es : list (nat * nat))
| ODict (kv : list (nat * nat))          (* evidence dict: variable -> state *)
| ORef (ls : list loc)                   (* an object holding references (model -> graph, cpds ...) *)
| OText (t : list nat).                  (* writer buffer *)
Record store := { cells : list (loc * obj); next : loc }.

Fixpoint lookup (l : loc) (cs : list (loc * obj)) : option obj :=
  match cs with [] => None | (k, o) :: r => if Nat.eqb k l then Some o else lookup l r end.
Definition sget (s : store) (l : loc) : option obj := lookup l (cells s).
Definition swrite (s : store) (l : loc) (o : obj) : store := {| cells := (l, o) :: cells s; next := next s |}.
Definition salloc (s : store) (o : obj) : store * loc :=
  ({| cells := (next s, o) :: cells s; next := S (next s) |}, next s).

(* a call = a script of primitive effects *)
Inductive prim :=
| PAlloc (o : obj)                      (* build a fresh object (a copy, a result) *)
| PWrite (l : loc) (o : obj).           (* assign into an existing object *)
Definition exec1 (s : store) (p : prim) : store :=
  match p with PAlloc o => fst (salloc s o) | PWrite l o => swrite s l o end.
Definition exec (s : store) (ps : list prim) : store := fold_left exec1 ps s.
Definition writes (ps : list prim) : list loc :=
  flat_map (fun p => match p with PWrite l _ => [l] | PAlloc _ => [] end) ps.

(* The catalogue.  Arguments are locations; [eng] is the engine's `model` field, [buf] a writer's
   buffer, [evd] the caller's evidence dict, [cpdord] the `model.cpds` list object, [sdag] the
   caller's start_dag edge set.  Each script is what /repo's code does today. *)
Inductive call :=
| CQuery (eng : loc)                                   (* VE query/map_query/max_marginal, no virtual evidence *)
| CQueryVirt (eng : loc) (aug orig : obj)              (* VE/BP with virtual evidence: self.__init__(augmented copy) ... finally self.__init__(orig) *)
| CBPQuery (eng : loc) (orig pruned : obj)             (* BP: self.model = pruned ... self.__init__(orig copy) *)
| CSample (res : obj)                                  (* forward/rejection/likelihood-weighted sampling *)
| CSimulate (evd : loc) (res : obj)                    (* simulate(evidence=...) without virtual evidence *)
| CSimulateVirt (evd : loc) (evd' : obj) (res : obj)   (* simulate(virtual_evidence=...): evidence = dict(evidence); evidence["__X"] = 0 *)
| CScore (res : obj)                                   (* K2/BDeu/BIC local_score / score *)
| CFit (cpdord : loc) (cpds' : obj)                    (* model.fit: the MODEL's cpds change by design *)
| CHillClimb (sdag : loc) (res : obj)                  (* after 9b69d06: works on start_dag.copy() *)
| CWriterInit (cpdord : loc) (sorted : obj) (buf : obj)(* BIF/XMLBIF/NET/UAI writer: model.cpds.sort() ; order only *)
| CUAIStr (buf : loc) (text : obj)                     (* UAIWriter.__str__: builds a local string from self.network *)
| CConvert (res : obj).                                (* to_markov_model/to_junction_tree/moralize/do/copy/factor ops *)

Definition script (c : call) : list prim :=
  match c with
  | CQuery _ => [PAlloc (OTable [])]
  | CQueryVirt eng aug orig => [PAlloc aug; PWrite eng aug; PAlloc (OTable []); PWrite eng orig]
  | CBPQuery eng orig pruned => [PAlloc orig; PWrite eng pruned; PAlloc (OTable []); PWrite eng orig]
  | CSample res => [PAlloc res]
  | CSimulate _ res => [PAlloc res]
  | CSimulateVirt evd evd' res => [PAlloc evd'; PAlloc res]
  | CScore res => [PAlloc res]
  | CFit cpdord cpds' => [PWrite cpdord cpds']
  | CHillClimb _ res => [PAlloc res]
  | CWriterInit cpdord sorted buf => [PWrite cpdord sorted; PAlloc buf]
  | CUAIStr buf text => [PAlloc text]
  | CConvert res => [PAlloc res]
  end.

(* locations owned by the receiver (engine field, writer buffer, the model being fitted): a call may
   write them by design; everything else the caller passed must stay as it was *)
Definition owned (c : call) : list loc :=
  match c with
  | CQuery eng | CQueryVirt eng _ _ | CBPQuery eng _ _ => [eng]
  | CFit cpdord _ => [cpdord]
  | _ => []
  end.
(* calls whose script only writes owned locations *)
Definition pure_call (c : call) : bool :=
  match c with CWriterInit _ _ _ => false | _ => true end.
