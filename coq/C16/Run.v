(* C16 entry points for the extracted driver: sx -> sx *)
From Coq Require Import List Bool Arith ZArith QArith Qcanon.
From PV Require Import Base.Sx Base.Semiring Base.Ravel Base.FinSum Base.RefFactor Base.VE C16.Model.
Import ListNotations.

Definition dec_factor (s : sx) : option qfactor :=
  match sx_pair (sx_list sx_nat) (sx_list sx_Qc) s with
  | Some (vs, vals) => Some (Build_factor Qc_sum_csr vs vals)
  | None => None
  end.
Definition dec_ev : sx -> option (list (var * nat)) := sx_list (sx_pair sx_nat sx_nat).
Definition dec_virt : sx -> option (list (var * list Qc)) := sx_list (sx_pair sx_nat (sx_list sx_Qc)).
Definition dec_opt {A} (d : sx -> option A) (s : sx) : option (option A) :=
  match s with
  | SL [] => Some None
  | SL [x] => match d x with Some v => Some (Some v) | None => None end
  | _ => None
  end.

Fixpoint nodupb (l : list nat) : bool :=
  match l with [] => true | x :: r => negb (memv x r) && nodupb r end.
Definition factor_okb (card : var -> nat) (f : qfactor) : bool :=
  nodupb (fvars f) && Nat.eqb (length (fvals f)) (prod (map card (fvars f))).
Definition ev_okb (card : var -> nat) (ev : list (var * nat)) : bool :=
  forallb (fun p => Nat.ltb (snd p) (card (fst p))) ev && nodupb (map fst ev).

(* [cards factors ev order Q] -> the normalised posterior table over Q (row-major);
   error 1 = malformed factor / evidence out of range *)
Definition run_c16_post (s : sx) : sx :=
  match s with
  | SL [scs; sfs; sev; so; sq] =>
      match sx_list sx_nat scs, sx_list dec_factor sfs, dec_ev sev, sx_list sx_nat so, sx_list sx_nat sq with
      | Some cs, Some L, Some ev, Some o, Some Q =>
          let card := fun v => nth v cs 1%nat in
          if forallb (factor_okb card) L && ev_okb card ev && nodupb o && nodupb Q
          then sx_ok (of_list of_Qc (qpost_table card L ev o Q))
          else sx_err 1
      | _, _, _, _, _ => bad_request
      end
  | _ => bad_request
  end.

(* the elimination order a question uses, when the harness does not care: the nodes of the model the
   question works on that are neither asked nor observed, in node-list order *)
Definition default_order (nb : nat) (m : emodel) (bp : bool) (vars : option (list var))
  (ev : list (var * nat)) (virt : option (list (var * list Qc))) : list var :=
  let m1 := match virt with Some v => augment m v | None => m end in
  let ev1 := match virt with Some v => ev ++ virt_evidence nb v | None => ev end in
  let Q := match vars with
           | Some Q => Q
           | None => filter (fun v => negb (memv v (map fst ev1))) (m_nodes nb m1)
           end in
  let mq := if bp then prune nb m1 Q ev1 else m1 in
  filter (fun v => negb (memv v Q) && negb (memv v (map fst ev1))) (m_nodes nb mq).

Definition dec_question (nb : nat) (m : emodel) (s : sx) : option question :=
  match s with
  | SL [sbp; sv; sev; svirt] =>
      match sx_bool sbp, dec_opt (sx_list sx_nat) sv, dec_ev sev, dec_opt dec_virt svirt with
      | Some bp, Some vars, Some ev, Some virt =>
          Some {| q_bp := bp; q_vars := vars; q_ev := ev; q_virt := virt;
                  q_order := default_order nb m bp vars ev virt |}
      | _, _, _, _ => None
      end
  | _ => None
  end.

Fixpoint play (nb : nat) (cs : list nat) (m : emodel) (h : list sx) : option emodel :=
  match h with
  | [] => Some m
  | s :: r => match dec_question nb m s with
              | Some q => play nb cs (snd (ask_e nb cs m q)) r
              | None => None
              end
  end.

(* [nb cards base history question] -> [scope; table; nodes of self.model afterwards; nodes before];
   error 3 = the final question is rejected (questions of the history may be rejected too: no-ops) *)
Definition run_c16_history (s : sx) : sx :=
  match s with
  | SL [snb; scs; sfs; SL sh; sq] =>
      match sx_nat snb, sx_list sx_nat scs, sx_list dec_factor sfs with
      | Some nb, Some cs, Some L =>
          match play nb cs (fresh L) sh with
          | Some m =>
              match dec_question nb m sq with
              | Some q =>
                  match ask_e nb cs m q with
                  | (Some r, m') =>
                      sx_ok (SL [ of_list of_nat (fst r); of_list of_Qc (snd r);
                                  of_list of_nat (m_nodes nb m'); of_list of_nat (m_nodes nb m) ])
                  | (None, _) => sx_err 3
                  end
              | None => bad_request
              end
          | None => bad_request
          end
      | _, _, _ => bad_request
      end
  | _ => bad_request
  end.
