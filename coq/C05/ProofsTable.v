(* C05 proofs, part 1: flat data <-> 2-D table, constructor, get_values, copy, normalize, cardf *)
From Coq Require Import List Arith ZArith Lia PeanoNat Bool QArith Qcanon Permutation.
From PV Require Import Base.Ravel Base.Semiring Base.FinSum Base.RefFactor Base.Graph C05.Model C05.Spec.
Import ListNotations.
Local Open Scope nat_scope.

(* ---- generic list facts ---------------------------------------------------------------- *)
Lemma nth_concat_uniform {A} (d : A) P : forall (rows : list (list A)) i j,
  Forall (fun r => length r = P) rows -> i < length rows -> j < P ->
  nth (i * P + j) (concat rows) d = nth j (nth i rows []) d.
Proof.
  induction rows as [|r rows IH]; intros i j Hf Hi Hj; [simpl in Hi; lia|].
  inversion Hf as [|? ? Hr Hf']; subst. simpl concat.
  destruct i as [|i].
  - simpl. rewrite app_nth1 by lia. reflexivity.
  - rewrite app_nth2 by lia.
    replace (S i * length r + j - length r) with (i * length r + j) by lia.
    simpl nth. apply IH; [exact Hf'|simpl in Hi; lia|exact Hj].
Qed.

Lemma skipn_app_exact {A} (l1 l2 : list A) n : skipn (length l1 + n) (l1 ++ l2) = skipn n l2.
Proof. induction l1 as [|x l1 IH]; simpl; [reflexivity|exact IH]. Qed.

Lemma firstn_app_exact {A} (l1 l2 : list A) : firstn (length l1) (l1 ++ l2) = l1.
Proof. induction l1 as [|x l1 IH]; simpl; [reflexivity|rewrite IH; reflexivity]. Qed.

Lemma reshape2_concat {A} P : forall rows : list (list A),
  Forall (fun r => length r = P) rows -> reshape2 (length rows) P (concat rows) = rows.
Proof.
  unfold reshape2. induction rows as [|r rows IH]; intros Hf; [reflexivity|].
  inversion Hf as [|? ? Hr Hf']; subst.
  cbn [length seq map concat]. rewrite <- seq_shift, map_map. f_equal.
  - simpl. apply firstn_app_exact.
  - rewrite <- (IH Hf') at 2. apply map_ext. intros i.
    replace (S i * length r) with (length r + i * length r) by lia.
    rewrite skipn_app_exact. reflexivity.
Qed.

Lemma skipn_add {A} (l : list A) : forall b a, skipn a (skipn b l) = skipn (b + a) l.
Proof.
  induction l as [|x l IH]; intros b a.
  - rewrite !skipn_nil. reflexivity.
  - destruct b as [|b]; [reflexivity|]. simpl. apply IH.
Qed.

Lemma concat_reshape2 {A} P : forall n (data : list A),
  length data = n * P -> concat (reshape2 n P data) = data.
Proof.
  unfold reshape2. induction n as [|n IH]; intros data Hl.
  - destruct data; [reflexivity|discriminate].
  - cbn [seq map concat]. rewrite <- seq_shift, map_map.
    transitivity (firstn P data ++ skipn P data); [|apply firstn_skipn]. f_equal.
    rewrite <- (IH (skipn P data)) by (rewrite skipn_length; lia).
    f_equal. apply map_ext. intros i. rewrite skipn_add.
    replace (S i * P) with (P + i * P) by lia. reflexivity.
Qed.

Lemma reshape2_length {A} n P (data : list A) : length (reshape2 n P data) = n.
Proof. unfold reshape2. rewrite map_length, seq_length. reflexivity. Qed.

Lemma reshape2_rows {A} n P (data : list A) :
  length data = n * P -> Forall (fun r => length r = P) (reshape2 n P data).
Proof.
  intros Hl. apply Forall_forall. intros r Hr. unfold reshape2 in Hr. apply in_map_iff in Hr.
  destruct Hr as [i [<- Hi]]. apply in_seq in Hi.
  rewrite firstn_length, skipn_length. nia.
Qed.

Lemma nth_map_seq {A} (f : nat -> A) n i d : i < n -> nth i (map f (seq 0 n)) d = f i.
Proof.
  intros Hi. rewrite (nth_indep _ d (f 0)) by (rewrite map_length, seq_length; exact Hi).
  rewrite (map_nth f (seq 0 n) 0 i), seq_nth by exact Hi. reflexivity.
Qed.

Lemma nth_map_default {A B} (f : A -> B) l i dA dB : i < length l -> nth i (map f l) dB = f (nth i l dA).
Proof.
  intros Hi. rewrite (nth_indep _ dB (f dA)) by (rewrite map_length; exact Hi). apply map_nth.
Qed.

Lemma nth_reshape2 {A} (d : A) n P (data : list A) i j :
  i < n -> j < P -> nth j (nth i (reshape2 n P data) []) d = nth (i * P + j) data d.
Proof.
  intros Hi Hj. unfold reshape2.
  rewrite nth_map_seq by exact Hi.
  destruct (Nat.lt_ge_cases (i * P + j) (length data)) as [Hlt|Hge].
  - rewrite <- (firstn_skipn (i * P) data) at 2.
    rewrite app_nth2 by (rewrite firstn_length; lia).
    rewrite firstn_length, Nat.min_l by lia. replace (i * P + j - i * P) with j by lia.
    rewrite <- (firstn_skipn P (skipn (i * P) data)) at 2.
    rewrite app_nth1; [reflexivity|]. rewrite firstn_length, skipn_length. lia.
  - rewrite (nth_overflow data) by exact Hge. apply nth_overflow.
    rewrite firstn_length, skipn_length. lia.
Qed.

(* ---- boolean reflections ----------------------------------------------------------------- *)
Lemma nodupb_NoDup l : nodupb l = true <-> NoDup l.
Proof.
  induction l as [|x l IH]; simpl; [split; [constructor|reflexivity]|].
  rewrite andb_true_iff, negb_true_iff, memv_false, IH. split.
  - intros [H1 H2]. constructor; assumption.
  - intros H. inversion H; auto.
Qed.

Lemma subsetb_incl a b : subsetb a b = true <-> incl a b.
Proof.
  unfold subsetb. rewrite forallb_forall. split; intros H x Hx; specialize (H x Hx); apply memv_In; exact H.
Qed.

Lemma list_eqb_nat a : forall b, list_eqb Nat.eqb a b = true <-> a = b.
Proof.
  induction a as [|x a IH]; intros [|y b]; simpl; try (split; [discriminate|discriminate]); [tauto|].
  rewrite andb_true_iff, Nat.eqb_eq, IH. split; [intros [-> ->]; reflexivity|intros H; inversion H; auto].
Qed.
Lemma list_eqb_Z a : forall b, list_eqb Z.eqb a b = true <-> a = b.
Proof.
  induction a as [|x a IH]; intros [|y b]; simpl; try (split; [discriminate|discriminate]); [tauto|].
  rewrite andb_true_iff, Z.eqb_eq, IH. split; [intros [-> ->]; reflexivity|intros H; inversion H; auto].
Qed.

(* ---- index_of ---------------------------------------------------------------------------- *)
Lemma index_of_Some x l k : index_of x l = Some k -> k < length l /\ nth k l 0 = x.
Proof.
  revert k. induction l as [|y l IH]; intros k H; [discriminate|]. simpl in H.
  destruct (Nat.eqb x y) eqn:E.
  - inversion H; subst. apply Nat.eqb_eq in E. subst. simpl. split; [lia|reflexivity].
  - destruct (index_of x l) as [k'|]; [|discriminate]. inversion H; subst.
    destruct (IH k' eq_refl) as [H1 H2]. simpl. split; [lia|exact H2].
Qed.
Lemma index_of_In x l : In x l -> exists k, index_of x l = Some k.
Proof.
  induction l as [|y l IH]; intros H; [destruct H|]. simpl.
  destruct (Nat.eqb x y) eqn:E; [eexists; reflexivity|].
  destruct H as [H|H]; [subst; rewrite Nat.eqb_refl in E; discriminate|].
  destruct (IH H) as [k Hk]. rewrite Hk. eexists; reflexivity.
Qed.
Lemma index_of_None x l : index_of x l = None -> ~ In x l.
Proof. intros H Hi. destruct (index_of_In x l Hi) as [k Hk]. congruence. Qed.
Lemma index_of_nth l : NoDup l -> forall k, k < length l -> index_of (nth k l 0) l = Some k.
Proof.
  induction 1 as [|y l Hy Hn IH]; intros k Hk; [simpl in Hk; lia|].
  destruct k as [|k]; simpl; [rewrite Nat.eqb_refl; reflexivity|].
  simpl in Hk. destruct (Nat.eqb (nth k l 0) y) eqn:E.
  - apply Nat.eqb_eq in E. exfalso. apply Hy. rewrite <- E. apply nth_In. lia.
  - rewrite IH by lia. reflexivity.
Qed.
Lemma pos_in_nth l k : NoDup l -> k < length l -> pos_in (nth k l 0) l = k.
Proof. intros Hn Hk. unfold pos_in. rewrite index_of_nth by assumption. reflexivity. Qed.
Lemma nth_pos_in x l : In x l -> nth (pos_in x l) l 0 = x /\ pos_in x l < length l.
Proof.
  intros H. unfold pos_in. destruct (index_of_In x l H) as [k Hk]. rewrite Hk.
  destruct (index_of_Some _ _ _ Hk). split; assumption.
Qed.

(* ---- cardf: the induced cardinality function ------------------------------------------------- *)
Lemma lookup_map (h : var -> nat) vs : forall v, In v vs ->
  match index_of v vs with Some k => nth k (map h vs) 0 | None => 1 end = h v.
Proof.
  intros v Hv. destruct (index_of_In v vs Hv) as [k Hk]. rewrite Hk.
  destruct (index_of_Some _ _ _ Hk) as [Hlt Hnth].
  rewrite (nth_indep _ 0 (h 0)) by (rewrite map_length; exact Hlt).
  rewrite (map_nth h vs 0 k). f_equal. exact Hnth.
Qed.

Lemma cardinality_is_map_cardf {V} (c : cpdT V) :
  NoDup (variables c) -> length (pcards c) = length (pars c) ->
  cardinality c = map (cardf c) (variables c).
Proof.
  intros Hn Hl. apply nth_ext with (d := 0) (d' := 0).
  - rewrite map_length. unfold cardinality, variables. simpl. lia.
  - intros k Hk.
    assert (Hk' : k < length (variables c)) by (unfold cardinality, variables in *; simpl in *; lia).
    rewrite nth_indep with (d' := cardf c 0) (l := map _ _) by (rewrite map_length; exact Hk').
    rewrite map_nth. unfold cardf. rewrite index_of_nth by assumption. reflexivity.
Qed.

Lemma cardf_child {V} (c : cpdT V) : cardf c (child c) = ccard c.
Proof. unfold cardf, variables. simpl. rewrite Nat.eqb_refl. reflexivity. Qed.

Lemma pcards_is_map_cardf {V} (c : cpdT V) :
  NoDup (variables c) -> length (pcards c) = length (pars c) -> pcards c = map (cardf c) (pars c).
Proof.
  intros Hn Hl. pose proof (cardinality_is_map_cardf c Hn Hl) as H.
  unfold cardinality, variables in H. simpl in H. inversion H. reflexivity.
Qed.

(* a CPD whose cardinalities are given by a function h has cardf = h on its variables *)
Lemma cardf_of_map {V} (c : cpdT V) (h : var -> nat) :
  cardinality c = map h (variables c) -> forall v, In v (variables c) -> cardf c v = h v.
Proof. intros H v Hv. unfold cardf. rewrite H. apply lookup_map. exact Hv. Qed.

(* ---- otraverse ----------------------------------------------------------------------------- *)
Lemma otraverse_Some {A B} (f : A -> option B) (g : A -> B) l :
  (forall x, In x l -> f x = Some (g x)) -> otraverse f l = Some (map g l).
Proof.
  induction l as [|x l IH]; intros H; [reflexivity|]. simpl.
  rewrite (H x (or_introl eq_refl)), IH; [reflexivity|]. intros y Hy. apply H. right. exact Hy.
Qed.
Lemma otraverse_None {A B} (f : A -> option B) l x : In x l -> f x = None -> otraverse f l = None.
Proof.
  induction l as [|y l IH]; intros Hi Hx; [destruct Hi|]. simpl. destruct Hi as [->|Hi].
  - rewrite Hx. reflexivity.
  - rewrite (IH Hi Hx). destruct (f y); reflexivity.
Qed.
Lemma otraverse_inv {A B} (f : A -> option B) l r :
  otraverse f l = Some r -> Forall2 (fun x y => f x = Some y) l r.
Proof.
  revert r. induction l as [|x l IH]; intros r H; simpl in H.
  - inversion H. constructor.
  - destruct (f x) eqn:E; [|discriminate]. destruct (otraverse f l); [|discriminate].
    inversion H; subst. constructor; [exact E|apply IH; reflexivity].
Qed.

(* ---- constructor ------------------------------------------------------------------------------ *)
Lemma df_init_inr v card ev ecard flat sn c :
  df_init v card ev ecard flat sn = inr c ->
  child c = v /\ ccard c = card /\ pars c = ev /\ pcards c = ecard /\ vals c = flat /\
  length ecard = length ev /\ length flat = prod (card :: ecard) /\ NoDup (v :: ev) /\
  (sn = [] -> snames c = default_sn (v :: ev) (card :: ecard)) /\
  (sn <> [] -> snames c = sn /\ forallb (fun kv => znodupb (snd kv)) sn = true).
Proof.
  unfold df_init. intros H.
  destruct (length (card :: ecard) =? length (v :: ev)) eqn:E1;
    destruct (length flat =? prod (card :: ecard)) eqn:E2;
    destruct (nodupb (v :: ev)) eqn:E3; cbn [negb] in H; try discriminate H.
  apply Nat.eqb_eq in E1, E2. apply nodupb_NoDup in E3. simpl in E1.
  destruct sn as [|kv sn].
  - inversion H; subst; simpl. repeat split; try reflexivity; try assumption; try lia; congruence.
  - destruct (forallb (fun kv0 => znodupb (snd kv0)) (kv :: sn)) eqn:E4; [|discriminate].
    inversion H; subst; simpl. repeat split; try reflexivity; try assumption; try lia; try discriminate; congruence.
Qed.

Lemma mk_cpd_inr v card rows ev ecard sn c :
  mk_cpd v card rows ev ecard sn = inr c ->
  length rows = card /\ Forall (fun r => length r = prod ecard) rows /\ 0 < card /\
  df_init v card ev ecard (concat rows) sn = inr c.
Proof.
  unfold mk_cpd. intros H.
  destruct (length ecard =? length ev) eqn:E1; cbn [negb] in H; [|discriminate H].
  destruct rows as [|r rows]; [discriminate|].
  destruct ((length (r :: rows) =? card) && forallb (fun r0 => length r0 =? prod ecard) (r :: rows)) eqn:E2;
    cbn [negb] in H; [|discriminate H].
  apply andb_true_iff in E2. destruct E2 as [E2 E3]. apply Nat.eqb_eq in E2.
  split; [exact E2|]. split.
  - apply Forall_forall. intros x Hx. rewrite forallb_forall in E3. apply Nat.eqb_eq. apply E3. exact Hx.
  - split; [simpl in E2; lia|exact H].
Qed.

(* C05_column_is_rowmajor_config, index level *)
Lemma ctor_column_meaning v card rows ev ecard sn c :
  mk_cpd v card rows ev ecard sn = inr c ->
  variables c = v :: ev /\ cardinality c = card :: ecard /\
  get_values c = rows /\
  forall i j, i < card -> j < prod ecard ->
    at_config (Q2Qc 0) c i (config_of_column ecard j) = entry2 (Q2Qc 0) rows i j.
Proof.
  intros H. apply mk_cpd_inr in H. destruct H as [Hl [Hf [Hpos H]]].
  apply df_init_inr in H. destruct H as [Hc [Hcc [Hp [Hpc [Hv _]]]]].
  unfold variables, cardinality. rewrite Hc, Hcc, Hp, Hpc.
  split; [reflexivity|]. split; [reflexivity|]. split.
  - unfold get_values. rewrite Hcc, Hpc, Hv, <- Hl. apply reshape2_concat. exact Hf.
  - intros i j Hi Hj. unfold at_config, config_of_column, entry2, cardinality, t_get.
    rewrite Hcc, Hpc, Hv. cbn [ravel]. rewrite ravel_unravel by exact Hj.
    apply nth_concat_uniform; [exact Hf|lia|exact Hj].
Qed.

(* ---- get_values in general ------------------------------------------------------------------- *)
Lemma get_values_entry {V} (d : V) (c : cpdT V) i j :
  i < ccard c -> j < prod (pcards c) ->
  entry2 d (get_values c) i j = at_config d c i (config_of_column (pcards c) j).
Proof.
  intros Hi Hj. unfold entry2, get_values, at_config, config_of_column, t_get, cardinality.
  rewrite nth_reshape2 by assumption. cbn [ravel]. rewrite ravel_unravel by exact Hj. reflexivity.
Qed.

(* ---- copy ------------------------------------------------------------------------------------- *)
Lemma wf_sn_nonempty (c : cpd) : wf_cpd c -> snames c <> [].
Proof.
  intros W E. destruct (wf_sn c W (child c) (or_introl eq_refl)) as [s [Hs _]].
  rewrite E in Hs. discriminate.
Qed.

Lemma df_init_ok v card ev ecard flat sn :
  length ecard = length ev -> length flat = prod (card :: ecard) -> NoDup (v :: ev) ->
  sn <> [] -> forallb (fun kv => znodupb (snd kv)) sn = true ->
  df_init v card ev ecard flat sn = inr (mkcpd v card ev ecard flat sn).
Proof.
  intros H1 H2 H3 H4 H5. unfold df_init.
  replace (length (card :: ecard) =? length (v :: ev)) with true by (symmetry; apply Nat.eqb_eq; simpl; lia).
  replace (length flat =? prod (card :: ecard)) with true by (symmetry; apply Nat.eqb_eq; exact H2).
  replace (nodupb (v :: ev)) with true by (symmetry; apply nodupb_NoDup; exact H3).
  cbn [negb]. destruct sn as [|kv sn]; [congruence|]. rewrite H5. reflexivity.
Qed.

Lemma copy_same (c : cpd) : wf_cpd c -> copy c = inr c.
Proof.
  intros W. pose proof (wf_vals c W) as Hv. unfold cardinality in Hv. rewrite prod_cons in Hv.
  assert (Hlen : length (get_values c) = ccard c) by apply reshape2_length.
  assert (Hrows : Forall (fun r => length r = prod (pcards c)) (get_values c))
    by (apply reshape2_rows; exact Hv).
  assert (Hfa : forallb (fun r0 => length r0 =? prod (pcards c)) (get_values c) = true).
  { apply forallb_forall. intros x Hx. apply Nat.eqb_eq. rewrite Forall_forall in Hrows. apply Hrows. exact Hx. }
  assert (Hcat : concat (get_values c) = vals c) by (unfold get_values; apply concat_reshape2; exact Hv).
  unfold copy, mk_cpd. rewrite (wf_len c W), Nat.eqb_refl. cbn [negb].
  destruct (get_values c) as [|r rows] eqn:Eg.
  { exfalso. simpl in Hlen. pose proof (wf_pos c W). lia. }
  rewrite Hlen, Nat.eqb_refl, Hfa, Hcat. cbn [negb andb].
  rewrite df_init_ok.
  - destruct c; reflexivity.
  - exact (wf_len c W).
  - rewrite prod_cons. exact Hv.
  - exact (wf_nodup c W).
  - exact (wf_sn_nonempty c W).
  - exact (wf_sn_all c W).
Qed.

(* ---- normalize --------------------------------------------------------------------------------- *)
Local Open Scope Qc_scope.

Lemma col_sums_length rows P : length (col_sums rows P) = P.
Proof. unfold col_sums. rewrite map_length, seq_length. reflexivity. Qed.

Lemma normalize_shape (c : cpd) :
  child (normalize c) = child c /\ ccard (normalize c) = ccard c /\ pars (normalize c) = pars c /\
  pcards (normalize c) = pcards c /\ snames (normalize c) = snames c.
Proof. repeat split; reflexivity. Qed.

Lemma nth_col_sums (c : cpd) j : (j < prod (pcards c))%nat ->
  nth j (col_sums (get_values c) (prod (pcards c))) 0 = colsum c j.
Proof.
  intros Hj. unfold col_sums.
  rewrite nth_map_seq by exact Hj. unfold colsum, get_values, reshape2.
  rewrite map_map. f_equal. apply map_ext_in. intros i Hi. apply in_seq in Hi.
  pose proof (nth_reshape2 (Q2Qc 0) (ccard c) (prod (pcards c)) (vals c) i j) as H.
  unfold reshape2 in H. rewrite nth_map_seq in H by lia. apply H; [lia|exact Hj].
Qed.

(* every entry of the normalised table, as the code computes it *)
Lemma normalize_entry (c : cpd) i j :
  length (vals c) = (ccard c * prod (pcards c))%nat -> (i < ccard c)%nat -> (j < prod (pcards c))%nat ->
  nth (i * prod (pcards c) + j) (vals (normalize c)) None =
    qdiv (nth (i * prod (pcards c) + j) (vals c) 0) (colsum c j).
Proof.
  intros Hv Hi Hj. set (P := prod (pcards c)) in *. simpl vals.
  fold P.
  assert (Hrows : Forall (fun r => length r = P) (get_values c)) by (apply reshape2_rows; exact Hv).
  assert (Hlen : length (get_values c) = ccard c) by apply reshape2_length.
  rewrite (nth_concat_uniform None P).
  - set (s := col_sums (get_values c) P).
    rewrite (nth_map_default _ _ _ []) by lia.
    assert (Hri : length (nth i (get_values c) []) = P).
    { rewrite Forall_forall in Hrows. apply Hrows. apply nth_In. lia. }
    rewrite (nth_map_default _ _ _ (Q2Qc 0, Q2Qc 0))
      by (rewrite combine_length, Hri; unfold s; rewrite col_sums_length; lia).
    rewrite combine_nth by (unfold s; rewrite col_sums_length; exact Hri).
    simpl fst. simpl snd. f_equal.
    + unfold get_values. fold P. apply nth_reshape2; assumption.
    + unfold s, P. apply nth_col_sums. exact Hj.
  - apply Forall_forall. intros r Hr. apply in_map_iff in Hr. destruct Hr as [r0 [<- Hr0]].
    rewrite map_length, combine_length, col_sums_length. rewrite Forall_forall in Hrows.
    rewrite (Hrows r0 Hr0). lia.
  - rewrite map_length. lia.
  - exact Hj.
Qed.

Lemma normalize_length (c : cpd) :
  length (vals c) = (ccard c * prod (pcards c))%nat ->
  length (vals (normalize c)) = (ccard c * prod (pcards c))%nat.
Proof.
  intros Hv. simpl vals. set (P := prod (pcards c)).
  set (s := col_sums (get_values c) P). assert (Hs : length s = P) by apply col_sums_length. clearbody s.
  assert (Hrows : Forall (fun r => length r = P) (get_values c)) by (apply reshape2_rows; exact Hv).
  assert (Hlen : length (get_values c) = ccard c) by apply reshape2_length.
  rewrite <- Hlen. clear Hlen. induction Hrows as [|r rows Hr _ IH]; [reflexivity|].
  cbn [map concat length]. rewrite app_length, IH, map_length, combine_length, Hs, Hr. lia.
Qed.

Lemma qsum_div (f : nat -> Qc) (s : Qc) l : s <> 0 -> qsum (map (fun i => f i / s) l) = qsum (map f l) / s.
Proof.
  intros Hs. induction l as [|x l IH]; simpl.
  - unfold Qcdiv. ring.
  - rewrite IH. field. exact Hs.
Qed.

(* a column with non-zero sum is divided by that sum and then sums to one; a column with zero sum
   becomes non-finite in every row (numpy: 0/0 = nan, x/0 = +-inf) *)
Lemma normalize_columns (c : cpd) j :
  length (vals c) = (ccard c * prod (pcards c))%nat -> (j < prod (pcards c))%nat ->
  (colsum c j <> 0 ->
     (forall i, (i < ccard c)%nat ->
        nth (i * prod (pcards c) + j) (vals (normalize c)) None =
          Some (nth (i * prod (pcards c) + j) (vals c) 0 / colsum c j)) /\
     qsum (map (fun i => nth (i * prod (pcards c) + j)%nat (vals c) 0 / colsum c j) (seq 0 (ccard c))) = 1) /\
  (colsum c j = 0 ->
     forall i, (i < ccard c)%nat -> nth (i * prod (pcards c) + j) (vals (normalize c)) None = None).
Proof.
  intros Hv Hj. split.
  - intros Hs. split.
    + intros i Hi. rewrite normalize_entry by assumption. unfold qdiv.
      destruct (Qc_eq_dec (colsum c j) 0); [contradiction|reflexivity].
    + rewrite (qsum_div (fun i => nth (i * prod (pcards c) + j) (vals c) 0)) by exact Hs.
      fold (colsum c j). field. exact Hs.
  - intros Hs i Hi. rewrite normalize_entry by assumption. unfold qdiv.
    destruct (Qc_eq_dec (colsum c j) 0); [reflexivity|contradiction].
Qed.
