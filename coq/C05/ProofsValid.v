(* C05 proofs, part 3: to_factor, is_valid_cpd <-> every column sum within the coded tolerance *)
From Coq Require Import List Arith ZArith Lia PeanoNat Bool QArith Qcanon Permutation.
From PV Require Import Base.Ravel Base.Semiring Base.FinSum Base.RefFactor Base.Graph
  C05.Model C05.Spec C05.ProofsTable.
Import ListNotations.
Local Open Scope nat_scope.

Lemma fcard_cfac (c : cpd) : wf_cpd c -> fcard Qc_sum_csr (cardf c) (cfac c) = cardinality c.
Proof.
  intros W. unfold fcard, cfac, to_factor. simpl. symmetry.
  apply cardinality_is_map_cardf; [exact (wf_nodup c W)|exact (wf_len c W)].
Qed.

Lemma wf_cfac (c : cpd) : wf_cpd c -> wf Qc_sum_csr (cardf c) (cfac c).
Proof.
  intros W. split; [exact (wf_nodup c W)|]. rewrite fcard_cfac by exact W. exact (wf_vals c W).
Qed.

(* to_factor: same scope, same table, same state names; evaluation = table lookup by state index *)
Lemma feval_cfac (c : cpd) (a : asg) : wf_cpd c ->
  feval Qc_sum_csr (cardf c) (cfac c) a = t_get Qc (Q2Qc 0) (cardinality c) (vals c) (map a (variables c)).
Proof. intros W. unfold feval. rewrite fcard_cfac by exact W. reflexivity. Qed.

Lemma map_upd_notin (a : asg) v i l : ~ In v l -> map (upd a v i) l = map a l.
Proof.
  intros H. apply map_ext_in. intros w Hw. apply upd_other. intros E. subst. contradiction.
Qed.

Lemma feval_cfac_upd_child (c : cpd) (a : asg) i : wf_cpd c ->
  feval Qc_sum_csr (cardf c) (cfac c) (upd a (child c) i) =
    nth (i * prod (pcards c) + ravel (pcards c) (map a (pars c))) (vals c) (Q2Qc 0).
Proof.
  intros W. rewrite feval_cfac by exact W. unfold variables, cardinality, t_get. cbn [map ravel].
  rewrite upd_same. rewrite map_upd_notin; [reflexivity|].
  pose proof (wf_nodup c W) as H. unfold variables in H. inversion H. assumption.
Qed.

Lemma vminus_child (c : cpd) : wf_cpd c -> vminus (variables c) [child c] = pars c.
Proof.
  intros W. pose proof (wf_nodup c W) as H. unfold variables in *. inversion H as [|? ? Hc _]; subst.
  unfold vminus. simpl. rewrite Nat.eqb_refl. simpl.
  clear H. induction (pars c) as [|p ps IH]; [reflexivity|]. simpl.
  destruct (Nat.eqb p (child c)) eqn:E.
  - apply Nat.eqb_eq in E. exfalso. apply Hc. left. exact E.
  - simpl. f_equal. apply IH. intros Hi. apply Hc. right. exact Hi.
Qed.
Lemma vinter_child (c : cpd) : wf_cpd c -> vinter (variables c) [child c] = [child c].
Proof.
  intros W. pose proof (wf_nodup c W) as H. unfold variables in *. inversion H as [|? ? Hc _]; subst.
  unfold vinter. simpl. rewrite Nat.eqb_refl. simpl. f_equal.
  clear H. induction (pars c) as [|p ps IH]; [reflexivity|]. simpl.
  destruct (Nat.eqb p (child c)) eqn:E.
  - apply Nat.eqb_eq in E. exfalso. apply Hc. left. exact E.
  - simpl. apply IH. intros Hi. apply Hc. right. exact Hi.
Qed.

(* the sum over the child of the CPD's factor, at the parent configuration of column j *)
Lemma child_sum_is_colsum (c : cpd) (a : asg) : wf_cpd c ->
  sum_over (R := Qc_sum_csr) [child c] [ccard c] (feval Qc_sum_csr (cardf c) (cfac c)) a =
    colsum c (ravel (pcards c) (map a (pars c))).
Proof.
  intros W. cbn [sum_over]. unfold colsum.
  change (@sum_list Qc_sum_csr) with qsum. f_equal. apply map_ext. intros i.
  apply feval_cfac_upd_child. exact W.
Qed.

Lemma forallb_map_seq {A} (p : A -> bool) (F : nat -> A) n :
  forallb p (map F (seq 0 n)) = true <-> forall j, j < n -> p (F j) = true.
Proof.
  rewrite forallb_forall. split.
  - intros H j Hj. apply H. apply in_map. apply in_seq. lia.
  - intros H x Hx. apply in_map_iff in Hx. destruct Hx as [j [<- Hj]]. apply in_seq in Hj. apply H. lia.
Qed.

Lemma Qc_leb_le a b : Qc_leb a b = true <-> (a <= b)%Qc.
Proof. unfold Qc_leb, Qcle. apply Qle_bool_iff. Qed.

Lemma close_to_one_spec s : close_to_one s = true <-> within_tol s.
Proof. unfold close_to_one, within_tol. rewrite andb_true_iff, !Qc_leb_le. reflexivity. Qed.

Lemma fvals_marg_child (c : cpd) : wf_cpd c ->
  fvals (fmarg Qc_sum_csr (cardf c) [child c] (cfac c)) =
    map (fun j => colsum c j) (seq 0 (prod (pcards c))).
Proof.
  intros W. unfold fmarg, fbuild. cbn [fvals fvars cfac to_factor fst].
  rewrite vminus_child, vinter_child by exact W. cbn [map]. rewrite cardf_child.
  rewrite <- (pcards_is_map_cardf c (wf_nodup c W) (wf_len c W)).
  unfold t_build. apply map_ext_in. intros j Hj. apply in_seq in Hj.
  rewrite child_sum_is_colsum by exact W. f_equal.
  assert (Hnd : NoDup (pars c)) by (pose proof (wf_nodup c W) as H; unfold variables in H; inversion H; assumption).
  rewrite map_asg_of; [apply ravel_unravel; lia|exact Hnd|].
  rewrite unravel_length. exact (wf_len c W).
Qed.

Theorem valid_iff (c : cpd) : wf_cpd c ->
  (is_valid_cpd c = true <-> forall j, j < prod (pcards c) -> within_tol (colsum c j)).
Proof.
  intros W. unfold is_valid_cpd. rewrite fvals_marg_child by exact W.
  rewrite forallb_map_seq. split; intros H j Hj; apply close_to_one_spec; apply H; exact Hj.
Qed.

(* both verdicts occur *)
Example valid_accepts : exists c, wf_cpd c /\ is_valid_cpd c = true.
Proof.
  exists (mkcpd 0 2 [1] [2] (map (fun n => Q2Qc (n # 4)) [1; 3; 3; 1]%Z) [(0, [0; 1]%Z); (1, [0; 1]%Z)]).
  split; [|vm_compute; reflexivity].
  constructor; simpl; try reflexivity; try lia.
  - repeat constructor; simpl; intuition discriminate.
  - intros v [<-|[<-|[]]]; eexists; (split; [reflexivity|]); (split; [reflexivity|]);
      repeat constructor; simpl; intuition discriminate.
Qed.
Example valid_rejects : exists c, wf_cpd c /\ is_valid_cpd c = false.
Proof.
  exists (mkcpd 0 2 [1] [2] (map (fun n => Q2Qc (n # 4)) [1; 3; 2; 1]%Z) [(0, [0; 1]%Z); (1, [0; 1]%Z)]).
  split; [|vm_compute; reflexivity].
  constructor; simpl; try reflexivity; try lia.
  - repeat constructor; simpl; intuition discriminate.
  - intros v [<-|[<-|[]]]; eexists; (split; [reflexivity|]); (split; [reflexivity|]);
      repeat constructor; simpl; intuition discriminate.
Qed.
