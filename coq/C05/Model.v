(* C05 model: pgmpy's TabularCPD (pgmpy/factors/discrete/CPD.py), the DiscreteFactor / StateNameMixin
   parts it relies on, and BayesianNetwork.check_model / get_state_probability
   (pgmpy/models/BayesianNetwork.py), as the code computes them.  Definitions only - no proofs.

   Conventions
   * variables and state names are interned by the harness: variables -> nat, state names -> Z
     (a Python int k >= 0 is interned as Z k, so that "fall back to the state NUMBER" paths and the
     default state names range(card) can be modelled; every other hashable gets an id >= 2^20).
   * values are exact rationals Qc.  Division is numpy's: x / 0 is non-finite (nan or +-inf), modelled
     as None.  A CPD whose entries may be non-finite is an [ocpd] (= cpdT (option Qc)).
   * self.variable / self.variable_card always coincide with variables[0] / cardinality[0] (marginalize
     and reduce refuse the child), so the record keeps the child apart from the ordered parents:
     variables = child :: pars, cardinality = ccard :: pcards.
   * a Python dict is an insertion-ordered association list with unique keys.
   * DiscreteFactor.marginalize / reduce (einsum over kept axes / basic slicing) are the reference
     factor operations fmarg / fred of Base.RefFactor (kept variables stay in their order) under the
     cardinality function induced by the CPD; their literal axis bookkeeping is C04's subject. *)
From Coq Require Import List Arith ZArith Lia PeanoNat Bool QArith Qcanon.
From PV Require Import Base.Ravel Base.Semiring Base.FinSum Base.RefFactor Base.Graph.
Import ListNotations.
Local Open Scope nat_scope.

Definition name := Z.
Definition snmap := list (var * list name).

Inductive err := ErrValue | ErrKey | ErrIndex | ErrType.

(* ---- small list utilities -------------------------------------------------------------- *)
Fixpoint index_of (x : nat) (l : list nat) : option nat :=
  match l with
  | [] => None
  | y :: r => if Nat.eqb x y then Some 0 else option_map S (index_of x r)
  end.
Fixpoint zindex_of (x : Z) (l : list Z) : option nat :=
  match l with
  | [] => None
  | y :: r => if Z.eqb x y then Some 0 else option_map S (zindex_of x r)
  end.
Fixpoint nodupb (l : list nat) : bool :=
  match l with [] => true | x :: r => negb (memv x r) && nodupb r end.
Definition zmem (x : Z) (l : list Z) : bool := existsb (Z.eqb x) l.
Fixpoint znodupb (l : list Z) : bool :=
  match l with [] => true | x :: r => negb (zmem x r) && znodupb r end.
Fixpoint list_eqb {A} (eqb : A -> A -> bool) (a b : list A) : bool :=
  match a, b with
  | [], [] => true
  | x :: a', y :: b' => eqb x y && list_eqb eqb a' b'
  | _, _ => false
  end.
Fixpoint otraverse {A B} (f : A -> option B) (l : list A) : option (list B) :=
  match l with
  | [] => Some []
  | x :: r => match f x, otraverse f r with Some y, Some ys => Some (y :: ys) | _, _ => None end
  end.
Definition subsetb (a b : list nat) : bool := forallb (fun x => memv x b) a.

(* ---- state-name dictionaries (StateNameMixin) ------------------------------------------- *)
Fixpoint sn_get (m : snmap) (v : var) : option (list name) :=
  match m with
  | [] => None
  | (k, s) :: r => if Nat.eqb k v then Some s else sn_get r v
  end.
Definition sn_has (m : snmap) (v : var) : bool := match sn_get m v with Some _ => true | None => false end.
Definition sn_del (m : snmap) (v : var) : snmap := filter (fun kv => negb (Nat.eqb (fst kv) v)) m.
Definition sn_del_all (m : snmap) (vs : list var) : snmap := fold_left sn_del vs m.
(* name_to_no[var][name] : None = KeyError *)
Definition name_no (m : snmap) (v : var) (nm : name) : option nat :=
  match sn_get m v with Some s => zindex_of nm s | None => None end.
(* store_state_names with an empty dict: {var: list(range(card))} *)
Definition default_sn (vars : list var) (cards : list nat) : snmap :=
  combine vars (map (fun c => map Z.of_nat (seq 0 c)) cards).

(* ---- the CPD record ---------------------------------------------------------------------- *)
Record cpdT (V : Type) := mkcpd {
  child : var; ccard : nat; pars : list var; pcards : list nat; vals : list V; snames : snmap }.
Arguments mkcpd {V}. Arguments child {V}. Arguments ccard {V}. Arguments pars {V}.
Arguments pcards {V}. Arguments vals {V}. Arguments snames {V}.
Definition cpd := cpdT Qc.
Definition ocpd := cpdT (option Qc).
Definition variables {V} (c : cpdT V) : list var := child c :: pars c.
Definition cardinality {V} (c : cpdT V) : list nat := ccard c :: pcards c.
Definition get_evidence {V} (c : cpdT V) : list var := rev (pars c).        (* variables[:0:-1] *)

Local Open Scope Qc_scope.
Definition qsum (l : list Qc) : Qc := fold_right Qcplus 0 l.

(* DiscreteFactor.__init__(variables, cardinality, flat values, state_names) *)
Definition df_init (v : var) (card : nat) (ev : list var) (ecard : list nat) (flat : list Qc) (sn : snmap)
  : err + cpd :=
  if negb (length (card :: ecard) =? length (v :: ev))%nat then inl ErrValue
  else if negb (length flat =? prod (card :: ecard))%nat then inl ErrValue
  else if negb (nodupb (v :: ev)) then inl ErrValue
  else match sn with
       | [] => inr (mkcpd v card ev ecard flat (default_sn (v :: ev) (card :: ecard)))
       | _ => if forallb (fun kv => znodupb (snd kv)) sn
              then inr (mkcpd v card ev ecard flat sn) else inl ErrValue
       end.

(* TabularCPD.__init__ : rows = the 2-D array, one list per child state *)
Definition mk_cpd (v : var) (card : nat) (rows : list (list Qc)) (ev : list var) (ecard : list nat)
  (sn : snmap) : err + cpd :=
  if negb (length ecard =? length ev)%nat then inl ErrValue
  else match rows with
       | [] => inl ErrType                                   (* np.array([]).ndim = 1 *)
       | _ =>
         if negb ((length rows =? card)%nat && forallb (fun r => (length r =? prod ecard)%nat) rows)
         then inl ErrValue
         else df_init v card ev ecard (concat rows) sn         (* values.flatten() *)
       end.

(* reshape of flat C-order data to (n, P) *)
Definition reshape2 {V} (n P : nat) (data : list V) : list (list V) :=
  map (fun i => firstn P (skipn (i * P) data)) (seq 0 n).
Definition get_values {V} (c : cpdT V) : list (list V) :=
  reshape2 (ccard c) (prod (pcards c)) (vals c).

(* copy(): through the constructor, with get_values() and the state-name dict *)
Definition copy (c : cpd) : err + cpd :=
  mk_cpd (child c) (ccard c) (get_values c) (pars c) (pcards c) (snames c).

(* normalize: cpd / cpd.sum(axis=0), column-wise broadcast *)
Definition qdiv (x s : Qc) : option Qc := if Qc_eq_dec s 0 then None else Some (x / s).
Definition col_sums (rows : list (list Qc)) (P : nat) : list Qc :=
  map (fun j => qsum (map (fun r => nth j r 0) rows)) (seq 0 P).
Definition normalize (c : cpd) : ocpd :=
  let rows := get_values c in
  let s := col_sums rows (prod (pcards c)) in
  mkcpd (child c) (ccard c) (pars c) (pcards c)
        (concat (map (fun r => map (fun xs => qdiv (fst xs) (snd xs)) (combine r s)) rows))
        (snames c).
Definition ocpd_finite (c : ocpd) : option cpd :=
  match otraverse (fun x => x) (vals c) with
  | Some l => Some (mkcpd (child c) (ccard c) (pars c) (pcards c) l (snames c))
  | None => None
  end.

(* ---- to_factor / induced cardinalities (variables outside the CPD count as cardinality 1) ---- *)
Definition cardf {V} (c : cpdT V) (v : var) : nat :=
  match index_of v (variables c) with Some k => nth k (cardinality c) 0%nat | None => 1%nat end.
Definition to_factor (c : cpd) : factor Qc_sum_csr * snmap :=
  (Build_factor Qc_sum_csr (variables c) (vals c), snames c).
Definition cfac (c : cpd) : factor Qc_sum_csr := fst (to_factor c).

(* ---- marginalize ----------------------------------------------------------------------- *)
(* DiscreteFactor.marginalize on a CPD object whose child is not among X *)
Definition df_marginalize (c : cpd) (X : list var) : err + cpd :=
  if negb (subsetb X (variables c)) then inl ErrValue
  else if negb (nodupb X && forallb (sn_has (snames c)) X) then inl ErrKey     (* del_state_names *)
  else
    let f := fmarg Qc_sum_csr (cardf c) X (cfac c) in
    let ps := vminus (pars c) X in
    inr (mkcpd (child c) (ccard c) ps (map (cardf c) ps) (fvals f) (sn_del_all (snames c) X)).

Definition marginalize (c : cpd) (X : list var) : err + ocpd :=
  if memv (child c) X then inl ErrValue
  else match df_marginalize c X with
       | inl e => inl e
       | inr c' => inr (normalize c')
       end.

(* ---- reduce ------------------------------------------------------------------------------ *)
Definition reduce (c : cpd) (values : list (var * name)) : err + ocpd :=
  let vs := map fst values in
  if memv (child c) vs then inl ErrValue
  else if negb (subsetb vs (variables c)) then inl ErrValue
  else
    (* name -> number for all, or (KeyError) all states taken as numbers *)
    let nos := match otraverse (fun p => name_no (snames c) (fst p) (snd p)) values with
               | Some l => l
               | None => map (fun p => Z.to_nat (snd p)) values
               end in
    if negb (nodupb vs && forallb (sn_has (snames c)) vs) then inl ErrKey        (* del_state_names *)
    else if negb (forallb (fun p => (snd p <? cardf c (fst p))%nat) (combine vs nos)) then inl ErrIndex
    else
      let f := fred Qc_sum_csr (cardf c) (combine vs nos) (cfac c) in
      let ps := vminus (pars c) vs in
      inr (normalize (mkcpd (child c) (ccard c) ps (map (cardf c) ps) (fvals f)
                            (sn_del_all (snames c) vs))).

(* ---- reorder_parents --------------------------------------------------------------------- *)
(* numpy.transpose(a, axes): result.shape[k] = a.shape[axes[k]], result[i'] = a[i] with i[axes[k]] = i'[k] *)
Definition np_transpose {V} (d0 : V) (cards : list nat) (data : list V) (axes : list nat) : list V :=
  t_build V (map (fun a => nth a cards 0%nat) axes)
    (fun idx' => t_get V d0 cards data
       (map (fun p => match index_of p axes with Some k => nth k idx' 0%nat | None => 0%nat end)
            (seq 0 (length cards)))).

Fixpoint assoc_nat (m : list (var * nat)) (v : var) : nat :=
  match m with [] => 0%nat | (k, x) :: r => if Nat.eqb k v then x else assoc_nat r v end.
Definition pos_in (v : var) (l : list var) : nat := match index_of v l with Some k => k | None => 0%nat end.

(* returns (the object afterwards, the returned 2-D array) *)
Definition reorder_parents (c : cpd) (new_order : list var) (inplace : bool)
  : err + (cpd * list (list Qc)) :=
  if (length (variables c) <=? 1)%nat || negb (subsetb new_order (variables c))
     || negb (subsetb (pars c) new_order)
  then inl ErrValue
  else if list_eqb Nat.eqb new_order (pars c) then inr (c, get_values c)
  else if memv (child c) new_order then inl ErrKey                    (* old_pos_map[child] *)
  else if negb (length new_order =? length (pars c))%nat then inl ErrValue   (* transpose: axes mismatch *)
  else
    let card_map := combine (pars c) (pcards c) in
    let trans_ord := 0%nat :: map (fun v => S (pos_in v (pars c))) new_order in
    let new_values := np_transpose 0 (cardinality c) (vals c) trans_ord in
    let new_cards := map (assoc_nat card_map) new_order in
    if inplace then
      match df_init (child c) (ccard c) new_order new_cards new_values (snames c) with
      | inl e => inl e
      | inr c' => inr (c', get_values c')
      end
    else inr (c, reshape2 (ccard c) (prod new_cards) new_values).

(* ---- get_value(kwargs): name first, fall back to the number on KeyError ---------------- *)
Definition get_value (c : cpd) (nu : var -> name) : Qc :=
  t_get Qc 0 (cardinality c) (vals c)
    (map (fun v => match name_no (snames c) v (nu v) with Some k => k | None => Z.to_nat (nu v) end)
         (variables c)).

(* ---- is_valid_cpd -------------------------------------------------------------------------- *)
(* np.allclose(colsums, ones, atol=0.01) with the default rtol=1e-5: |s - 1| <= 0.01 + 1e-5 * |1| *)
Definition tol : Qc := Q2Qc (1001 # 100000).
Definition Qc_leb (a b : Qc) : bool := Qle_bool (this a) (this b).
Definition close_to_one (s : Qc) : bool := Qc_leb (s - 1) tol && Qc_leb (1 - s) tol.
Definition is_valid_cpd (c : cpd) : bool :=
  forallb close_to_one (fvals (fmarg Qc_sum_csr (cardf c) [child c] (cfac c))).

(* ---- BayesianNetwork ------------------------------------------------------------------------ *)
Record bn := { bg : digraph; bcpds : list cpd }.
Definition get_cpd (b : bn) (v : node) : option cpd :=
  find (fun c => Nat.eqb (child c) v) (bcpds b).

(* add_cpds(cpd): scope must be nodes; replaces the CPD of the same variable in place, else appends *)
Fixpoint replace_cpd (l : list cpd) (c : cpd) : option (list cpd) :=
  match l with
  | [] => None
  | d :: r => if Nat.eqb (child d) (child c) then Some (c :: r)
              else option_map (cons d) (replace_cpd r c)
  end.
Definition add_cpd (b : bn) (c : cpd) : err + bn :=
  if negb (subsetb (variables c) (nodes (bg b))) then inl ErrValue
  else match replace_cpd (bcpds b) c with
       | Some l => inr {| bg := bg b; bcpds := l |}
       | None => inr {| bg := bg b; bcpds := bcpds b ++ [c] |}
       end.

Definition get_cardinality (b : bn) : list (var * nat) :=      (* dict, later CPDs overwrite *)
  map (fun c => (child c, ccard c)) (bcpds b).

Inductive cm_result :=
  CM_ok | CM_no_cpd | CM_parents | CM_no_state_names | CM_sum | CM_card | CM_state_names.

Fixpoint first_fail {A} (f : A -> cm_result) (l : list A) : cm_result :=
  match l with
  | [] => CM_ok
  | x :: r => match f x with CM_ok => first_fail f r | e => e end
  end.

Definition seteqb (a b : list nat) : bool := subsetb a b && subsetb b a.

Definition check_node1 (b : bn) (v : node) : cm_result :=
  match get_cpd b v with
  | None => CM_no_cpd
  | Some c =>
      if negb (seteqb (get_evidence c) (parents (bg b) v)) then CM_parents
      else if negb (forallb (sn_has (snames c)) (variables c)) then CM_no_state_names
      else if negb (is_valid_cpd c) then CM_sum
      else CM_ok
  end.

Definition olist_eqb (a b : option (list name)) : bool :=
  match a, b with Some x, Some y => list_eqb Z.eqb x y | _, _ => false end.

Definition check_parent (b : bn) (c : cpd) (pk : var * nat) : cm_result :=
  match get_cpd b (fst pk) with
  | None => CM_no_cpd                                   (* unreachable after the first loop *)
  | Some pc =>
      if negb (Nat.eqb (ccard pc) (snd pk)) then CM_card
      else if negb (olist_eqb (sn_get (snames pc) (fst pk)) (sn_get (snames c) (fst pk)))
           then CM_state_names
      else CM_ok
  end.

Definition check_node2 (b : bn) (v : node) : cm_result :=
  match get_cpd b v with
  | None => CM_no_cpd
  | Some c => first_fail (check_parent b c) (combine (pars c) (pcards c))
  end.

Definition check_model (b : bn) : cm_result :=
  match first_fail (check_node1 b) (nodes (bg b)) with
  | CM_ok => first_fail (check_node2 b) (nodes (bg b))
  | e => e
  end.

(* self.states : {node: states for d in [cpd.state_names ...] for node, states in d.items()} *)
Definition bn_states (b : bn) (v : var) : option (list name) :=
  fold_left (fun acc c => match sn_get (snames c) v with Some s => Some s | None => acc end)
            (bcpds b) None.

Definition nasg := var -> name.
Definition updn (nu : nasg) (v : var) (x : name) : nasg := fun w => if Nat.eqb w v then x else nu w.
Fixpoint nasg_of (l : list (var * name)) : nasg :=
  match l with [] => fun _ => 0%Z | (v, x) :: r => updn (nasg_of r) v x end.

(* cpd.values[tuple(cpd.name_to_no[var][state] for var in cpd.variables)] ; None = KeyError *)
Definition cpd_entry (c : cpd) (nu : nasg) : option Qc :=
  match otraverse (fun v => name_no (snames c) v (nu v)) (variables c) with
  | Some idx => Some (t_get Qc 0 (cardinality c) (vals c) idx)
  | None => None
  end.

Definition oadd (a b : option Qc) : option Qc :=
  match a, b with Some x, Some y => Some (x + y) | _, _ => None end.
Definition omul (a b : option Qc) : option Qc :=
  match a, b with Some x, Some y => Some (x * y) | _, _ => None end.

(* itertools.product over the missing variables' state lists *)
Fixpoint sum_states (ms : list (var * list name)) (f : nasg -> option Qc) (nu : nasg) : option Qc :=
  match ms with
  | [] => f nu
  | (v, sts) :: r => fold_right oadd (Some 0) (map (fun x => sum_states r f (updn nu v x)) sts)
  end.

Inductive gsp_result := GSP_ok (q : Qc) | GSP_check (e : cm_result) | GSP_err (e : err).

Definition get_state_probability (b : bn) (states : list (var * name)) : gsp_result :=
  match check_model b with
  | CM_ok =>
      if negb (forallb (fun p => memv (fst p) (nodes (bg b)) &&
                                 match bn_states b (fst p) with Some s => zmem (snd p) s | None => false end)
                       states)
      then GSP_err ErrValue
      else
        let missing := filter (fun v => negb (memv v (map fst states))) (nodes (bg b)) in
        match otraverse (fun v => option_map (pair v) (bn_states b v)) missing with
        | None => GSP_err ErrKey
        | Some ms =>
            match sum_states ms
                    (fun nu => fold_right omul (Some 1) (map (fun c => cpd_entry c nu) (bcpds b)))
                    (nasg_of states) with
            | Some q => GSP_ok q
            | None => GSP_err ErrKey
            end
        end
  | e => GSP_check e
  end.

(* ---- non-finite entries (numpy nan / +-inf, written None) -------------------------------------------
   is_valid_cpd compares the column sums with np.allclose: a nan or infinite sum is never close to 1, and a
   column sum is non-finite as soon as one of its entries is.  So a table with a non-finite entry is invalid. *)
Definition is_valid_ocpd (c : ocpd) : bool :=
  match ocpd_finite c with Some c' => is_valid_cpd c' | None => false end.

Definition odefault (x : option Qc) : Qc := match x with Some q => q | None => 0 end.

(* the constructor on a table that may hold non-finite entries (shape / scope / state-name checks as coded) *)
Definition mk_ocpd (v : var) (card : nat) (rows : list (list (option Qc))) (ev : list var) (ecard : list nat)
  (sn : snmap) : err + ocpd :=
  match mk_cpd v card (map (map odefault) rows) ev ecard sn with
  | inl e => inl e
  | inr c => inr (mkcpd (child c) (ccard c) (pars c) (pcards c) (concat rows) (snames c))
  end.
Definition zeroed (c : ocpd) : cpd :=
  mkcpd (child c) (ccard c) (pars c) (pcards c) (map odefault (vals c)) (snames c).

(* check_model on a network some of whose CPDs (children listed in nf) hold a non-finite entry; those CPDs are
   carried with zeros in place of the non-finite entries, which are never read: the validity test fails first *)
Definition check_node1_nf (b : bn) (nf : list var) (v : node) : cm_result :=
  match get_cpd b v with
  | None => CM_no_cpd
  | Some c =>
      if negb (seteqb (get_evidence c) (parents (bg b) v)) then CM_parents
      else if negb (forallb (sn_has (snames c)) (variables c)) then CM_no_state_names
      else if negb (is_valid_cpd c && negb (memv (child c) nf)) then CM_sum
      else CM_ok
  end.
Definition check_model_nf (b : bn) (nf : list var) : cm_result :=
  match first_fail (check_node1_nf b nf) (nodes (bg b)) with
  | CM_ok => first_fail (check_node2 b) (nodes (bg b))
  | e => e
  end.
Definition get_state_probability_nf (b : bn) (nf : list var) (states : list (var * name)) : gsp_result :=
  match check_model_nf b nf with
  | CM_ok => get_state_probability b states
  | e => GSP_check e
  end.
