(* C05 entry points for the extracted driver: sx -> sx *)
From Coq Require Import List Bool Arith ZArith QArith Qcanon.
From PV Require Import Base.Sx Base.Ravel Base.Semiring Base.FinSum Base.RefFactor Base.Graph C05.Model.
Import ListNotations.
Local Open Scope nat_scope.

Definition err_code (e : err) : Z :=
  match e with ErrValue => 1 | ErrKey => 2 | ErrIndex => 3 | ErrType => 4 end%Z.
Definition cm_code (e : cm_result) : nat :=
  match e with
  | CM_ok => 0 | CM_no_cpd => 1 | CM_parents => 2 | CM_no_state_names => 3
  | CM_sum => 4 | CM_card => 5 | CM_state_names => 6
  end.

Definition sx_sn : sx -> option snmap := sx_list (sx_pair sx_nat (sx_list sx_Z)).
Definition of_sn (m : snmap) : sx := of_list (of_pair of_nat (of_list SZ)) m.

(* constructor arguments [variable card rows evidence evidence_card state_names] *)
Definition dec_ctor (s : sx) : option (err + cpd) :=
  match s with
  | SL [sv; sc; sr; se; sec; ssn] =>
      match sx_nat sv, sx_nat sc, sx_list (sx_list sx_Qc) sr, sx_list sx_nat se, sx_list sx_nat sec, sx_sn ssn with
      | Some v, Some c, Some rows, Some ev, Some ec, Some sn => Some (mk_cpd v c rows ev ec sn)
      | _, _, _, _, _, _ => None
      end
  | _ => None
  end.

Definition of_cpdT {V} (ev : V -> sx) (c : cpdT V) : sx :=
  SL [of_nat (child c); of_nat (ccard c); of_list of_nat (pars c); of_list of_nat (pcards c);
      of_list ev (vals c); of_sn (snames c); of_list (of_list ev) (get_values c)].
Definition of_cpd : cpd -> sx := of_cpdT of_Qc.
Definition of_ocpd : ocpd -> sx := of_cpdT (of_option of_Qc).

Definition with_cpd (s : sx) (k : cpd -> sx) : sx :=
  match dec_ctor s with
  | Some (inr c) => k c
  | Some (inl e) => sx_err (err_code e)
  | None => bad_request
  end.

(* [ctor] -> [cpd ; is_valid_cpd] *)
Definition run_c05_ctor (s : sx) : sx :=
  match s with
  | SL [a] => with_cpd a (fun c => sx_ok (SL [of_cpd c; of_bool (is_valid_cpd c)]))
  | _ => bad_request
  end.

(* [ctor new_order inplace] -> [object afterwards ; returned 2-D array] *)
Definition run_c05_reorder (s : sx) : sx :=
  match s with
  | SL [a; so; si] =>
      match sx_list sx_nat so, sx_bool si with
      | Some o, Some i =>
          with_cpd a (fun c => match reorder_parents c o i with
                               | inl e => sx_err (err_code e)
                               | inr (c', rows) => sx_ok (SL [of_cpd c'; of_list (of_list of_Qc) rows])
                               end)
      | _, _ => bad_request
      end
  | _ => bad_request
  end.

Definition run_c05_marginalize (s : sx) : sx :=
  match s with
  | SL [a; sxs] =>
      match sx_list sx_nat sxs with
      | Some X => with_cpd a (fun c => match marginalize c X with
                                       | inl e => sx_err (err_code e)
                                       | inr c' => sx_ok (of_ocpd c')
                                       end)
      | None => bad_request
      end
  | _ => bad_request
  end.

Definition run_c05_reduce (s : sx) : sx :=
  match s with
  | SL [a; svs] =>
      match sx_list (sx_pair sx_nat sx_Z) svs with
      | Some vs => with_cpd a (fun c => match reduce c vs with
                                        | inl e => sx_err (err_code e)
                                        | inr c' => sx_ok (of_ocpd c')
                                        end)
      | None => bad_request
      end
  | _ => bad_request
  end.

Definition run_c05_normalize (s : sx) : sx :=
  match s with
  | SL [a] => with_cpd a (fun c => sx_ok (of_ocpd (normalize c)))
  | _ => bad_request
  end.

Definition run_c05_copy (s : sx) : sx :=
  match s with
  | SL [a] => with_cpd a (fun c => match copy c with
                                   | inl e => sx_err (err_code e)
                                   | inr c' => sx_ok (of_cpd c')
                                   end)
  | _ => bad_request
  end.

(* [ctor] -> [variables ; cardinalities ; flat values ; state names] of the factor *)
Definition run_c05_tofactor (s : sx) : sx :=
  match s with
  | SL [a] => with_cpd a (fun c =>
                let fs := to_factor c in
                sx_ok (SL [of_list of_nat (fvars (fst fs));
                           of_list of_nat (fcard Qc_sum_csr (cardf c) (fst fs));
                           of_list of_Qc (fvals (fst fs)); of_sn (snd fs)]))
  | _ => bad_request
  end.

(* [ctor [[var name]...]] -> value (get_value with the name-first rule) *)
Definition run_c05_getvalue (s : sx) : sx :=
  match s with
  | SL [a; sq] =>
      match sx_list (sx_pair sx_nat sx_Z) sq with
      | Some q => with_cpd a (fun c => sx_ok (of_Qc (get_value c (nasg_of q))))
      | None => bad_request
      end
  | _ => bad_request
  end.

(* Bayesian networks: [nodes edges [ctor ...] [query ...]] with query = [[var name] ...]
   -> [check_model code ; [get_state_probability result ...] ; get_cardinality ]
   the CPDs are added with add_cpds in the given order; result = [0 q] | [1 cm_code] | [2 err_code];
   error 5 = a CPD could not be constructed / added *)
Definition of_gsp (r : gsp_result) : sx :=
  match r with
  | GSP_ok q => SL [of_nat 0; of_Qc q]
  | GSP_check e => SL [of_nat 1; of_nat (cm_code e)]
  | GSP_err e => SL [of_nat 2; SZ (err_code e)]
  end.
Fixpoint add_all (b : bn) (l : list (err + cpd)) : option bn :=
  match l with
  | [] => Some b
  | inr c :: r => match add_cpd b c with inr b' => add_all b' r | inl _ => None end
  | inl _ :: _ => None
  end.
Definition run_c05_bn (s : sx) : sx :=
  match s with
  | SL [sn; se; sc; sq] =>
      match sx_list sx_nat sn, sx_list (sx_pair sx_nat sx_nat) se, sx_list dec_ctor sc,
            sx_list (sx_list (sx_pair sx_nat sx_Z)) sq with
      | Some ns, Some es, Some cs, Some qs =>
          match add_all {| bg := {| nodes := ns; edges := es |}; bcpds := [] |} cs with
          | Some b =>
              sx_ok (SL [of_nat (cm_code (check_model b));
                         of_list (fun q => of_gsp (get_state_probability b q)) qs;
                         of_list (of_pair of_nat of_nat) (get_cardinality b)])
          | None => sx_err 5
          end
      | _, _, _, _ => bad_request
      end
  | _ => bad_request
  end.

(* sessions on ONE CPD object: [ctor [op ...]] with op = [0 new_order] reorder_parents(inplace=True) |
   [1 X] marginalize(inplace=True) | [2 values] reduce(inplace=True) | [3] normalize(inplace=True) |
   [4] self := self.copy()  ->  the object after every operation, [[0 cpd is_valid] | [1 err_code] ...];
   an operation that raises leaves the object as the model says (unchanged: all modelled errors of these
   calls precede any mutation, except ErrKey/ErrIndex which the harness does not continue after);
   a result with non-finite entries ends the session (reply [2 ocpd]) *)
Definition dec_op (s : sx) : option (nat * list nat * list (var * name)) :=
  match s with
  | SL [SZ 0%Z; so] => match sx_list sx_nat so with Some o => Some (0, o, []) | None => None end
  | SL [SZ 1%Z; sxs] => match sx_list sx_nat sxs with Some X => Some (1, X, []) | None => None end
  | SL [SZ 2%Z; svs] => match sx_list (sx_pair sx_nat sx_Z) svs with Some v => Some (2, [], v) | None => None end
  | SL [SZ 3%Z] => Some (3, [], [])
  | SL [SZ 4%Z] => Some (4, [], [])
  | _ => None
  end.

Definition step_o (r : err + ocpd) : (err + cpd) + ocpd :=
  match r with
  | inl e => inl (inl e)
  | inr oc => match ocpd_finite oc with Some c => inl (inr c) | None => inr oc end
  end.

Fixpoint session (c : cpd) (ops : list (nat * list nat * list (var * name))) : list sx :=
  match ops with
  | [] => []
  | (k, l, vs) :: r =>
      let res : (err + cpd) + ocpd :=
        match k with
        | 0 => match reorder_parents c l true with inl e => inl (inl e) | inr (c', _) => inl (inr c') end
        | 1 => step_o (marginalize c l)
        | 2 => step_o (reduce c vs)
        | 3 => step_o (inr (normalize c))
        | _ => inl (copy c)
        end in
      match res with
      | inl (inr c') => SL [of_nat 0; of_cpd c'; of_bool (is_valid_cpd c')] :: session c' r
      | inl (inl e) => SL [of_nat 1; SZ (err_code e)] :: session c r
      | inr oc => [SL [of_nat 2; of_ocpd oc; of_bool (is_valid_ocpd oc)]]
      end
  end.

Definition run_c05_session (s : sx) : sx :=
  match s with
  | SL [a; sops] =>
      match sx_list dec_op sops with
      | Some ops => with_cpd a (fun c => sx_ok (SL (session c ops)))
      | None => bad_request
      end
  | _ => bad_request
  end.

(* ---- tables with non-finite entries: an entry travels as [] (non-finite) or [q] -------------------- *)
Definition sx_oQc (s : sx) : option (option Qc) :=
  match s with
  | SL [] => Some None
  | SL [q] => option_map Some (sx_Qc q)
  | _ => None
  end.
Definition dec_octor (s : sx) : option (err + ocpd) :=
  match s with
  | SL [sv; sc; sr; se; sec; ssn] =>
      match sx_nat sv, sx_nat sc, sx_list (sx_list sx_oQc) sr, sx_list sx_nat se, sx_list sx_nat sec, sx_sn ssn with
      | Some v, Some c, Some rows, Some ev, Some ec, Some sn => Some (mk_ocpd v c rows ev ec sn)
      | _, _, _, _, _, _ => None
      end
  | _ => None
  end.

(* [octor] -> [ocpd ; is_valid_cpd] *)
Definition run_c05_ovalid (s : sx) : sx :=
  match s with
  | SL [a] => match dec_octor a with
              | Some (inr c) => sx_ok (SL [of_ocpd c; of_bool (is_valid_ocpd c)])
              | Some (inl e) => sx_err (err_code e)
              | None => bad_request
              end
  | _ => bad_request
  end.

(* [ctor] -> is_valid_cpd() after normalize(inplace=True) *)
Definition run_c05_normvalid (s : sx) : sx :=
  match s with
  | SL [a] => with_cpd a (fun c => sx_ok (of_bool (is_valid_ocpd (normalize c))))
  | _ => bad_request
  end.

(* like c05_bn, the CPD tables may hold non-finite entries *)
Fixpoint add_all_o (b : bn) (nf : list var) (l : list (err + ocpd)) : option (bn * list var) :=
  match l with
  | [] => Some (b, nf)
  | inr oc :: r =>
      match add_cpd b (zeroed oc) with
      | inr b' =>
          let nf' := filter (fun v => negb (Nat.eqb v (child oc))) nf in      (* a replaced CPD loses its flag *)
          add_all_o b' (match ocpd_finite oc with Some _ => nf' | None => child oc :: nf' end) r
      | inl _ => None
      end
  | inl _ :: _ => None
  end.
Definition run_c05_bno (s : sx) : sx :=
  match s with
  | SL [sn; se; sc; sq] =>
      match sx_list sx_nat sn, sx_list (sx_pair sx_nat sx_nat) se, sx_list dec_octor sc,
            sx_list (sx_list (sx_pair sx_nat sx_Z)) sq with
      | Some ns, Some es, Some cs, Some qs =>
          match add_all_o {| bg := {| nodes := ns; edges := es |}; bcpds := [] |} [] cs with
          | Some (b, nf) =>
              sx_ok (SL [of_nat (cm_code (check_model_nf b nf));
                         of_list (fun q => of_gsp (get_state_probability_nf b nf q)) qs;
                         of_list (of_pair of_nat of_nat) (get_cardinality b)])
          | None => sx_err 5
          end
      | _, _, _, _ => bad_request
      end
  | _ => bad_request
  end.
