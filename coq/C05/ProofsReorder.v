(* C05 proofs, part 2: named reading of a CPD; reorder_parents keeps P and state names *)
From Coq Require Import List Arith ZArith Lia PeanoNat Bool QArith Qcanon Permutation.
From PV Require Import Base.Ravel Base.Semiring Base.FinSum Base.RefFactor Base.Graph
  C05.Model C05.Spec C05.ProofsTable.
Import ListNotations.
Local Open Scope nat_scope.

(* ---- state-name positions -------------------------------------------------------------------- *)
Lemma zindex_of_Some x l k : zindex_of x l = Some k -> k < length l /\ nth_error l k = Some x.
Proof.
  revert k. induction l as [|y l IH]; intros k H; [discriminate|]. simpl in H.
  destruct (Z.eqb x y) eqn:E.
  - inversion H; subst. apply Z.eqb_eq in E. subst. simpl. split; [lia|reflexivity].
  - destruct (zindex_of x l) as [k'|]; [|discriminate]. inversion H; subst.
    destruct (IH k' eq_refl) as [H1 H2]. simpl. split; [lia|exact H2].
Qed.

Lemma zindex_of_nth_error l : NoDup l -> forall k x, nth_error l k = Some x -> zindex_of x l = Some k.
Proof.
  induction 1 as [|y l Hy Hn IH]; intros k x Hk; [destruct k; discriminate|].
  destruct k as [|k]; simpl in *.
  - inversion Hk; subst. rewrite Z.eqb_refl. reflexivity.
  - destruct (Z.eqb x y) eqn:E.
    + apply Z.eqb_eq in E. subst. exfalso. apply Hy. eapply nth_error_In. exact Hk.
    + rewrite (IH k x Hk). reflexivity.
Qed.

Definition posd (sn : snmap) (nu : nasg) (v : var) : nat :=
  match name_no sn v (nu v) with Some k => k | None => 0 end.

Lemma otraverse_dec {A B} (f : A -> option B) l :
  (forall x, In x l -> exists y, f x = Some y) \/ (exists x, In x l /\ f x = None).
Proof.
  induction l as [|x l IH]; [left; intros x []|].
  destruct (f x) as [y|] eqn:E.
  - destruct IH as [IH|[z [Hz Hf]]].
    + left. intros z [<-|Hz]; [eexists; exact E|apply IH; exact Hz].
    + right. exists z. split; [right; exact Hz|exact Hf].
  - right. exists x. split; [left; reflexivity|exact E].
Qed.

Lemma positions_all sn vs nu :
  (forall v, In v vs -> exists k, name_no sn v (nu v) = Some k) ->
  positions sn vs nu = Some (map (posd sn nu) vs).
Proof.
  intros H. unfold positions. apply otraverse_Some. intros v Hv. destruct (H v Hv) as [k Hk].
  unfold posd. rewrite Hk. reflexivity.
Qed.

Lemma posd_lt (c : cpd) nu v k :
  wf_cpd c -> In v (variables c) -> name_no (snames c) v (nu v) = Some k -> k < cardf c v.
Proof.
  intros W Hv Hk. destruct (wf_sn c W v Hv) as [s [Hs [Hl _]]].
  unfold name_no in Hk. rewrite Hs in Hk. apply zindex_of_Some in Hk. destruct Hk as [Hk _].
  rewrite <- Hl. exact Hk.
Qed.

(* the functional reading agrees with the relational one *)
Lemma positions_names_at (c : cpd) nu idx :
  wf_cpd c -> (positions (snames c) (variables c) nu = Some idx <-> names_at (snames c) (variables c) nu idx).
Proof.
  intros W. unfold positions, names_at.
  assert (G : forall vs, incl vs (variables c) -> forall idx,
            otraverse (fun v => name_no (snames c) v (nu v)) vs = Some idx <->
            Forall2 (fun v k => exists s, sn_get (snames c) v = Some s /\ nth_error s k = Some (nu v)) vs idx).
  { induction vs as [|v vs IH]; intros Hi idx'.
    - simpl. split; [intros H; inversion H; constructor|intros H; inversion H; reflexivity].
    - assert (Hv : In v (variables c)) by (apply Hi; left; reflexivity).
      assert (Hi' : incl vs (variables c)) by (intros x Hx; apply Hi; right; exact Hx).
      destruct (wf_sn c W v Hv) as [s [Hs [_ Hnd]]]. simpl. split.
      + intros H. destruct (name_no (snames c) v (nu v)) as [k|] eqn:E; [|discriminate].
        destruct (otraverse _ vs) as [r|] eqn:E2; [|discriminate]. inversion H; subst.
        constructor; [|apply IH; [exact Hi'|reflexivity]].
        exists s. split; [exact Hs|]. unfold name_no in E. rewrite Hs in E.
        apply zindex_of_Some in E. apply E.
      + intros H. inversion H as [|? k ? r [s' [Hs' Hk]] Hr]; subst.
        rewrite Hs in Hs'. inversion Hs'; subst s'.
        apply (IH Hi') in Hr. rewrite Hr.
        assert (E : name_no (snames c) v (nu v) = Some k)
          by (unfold name_no; rewrite Hs; apply zindex_of_nth_error; assumption).
        rewrite E. reflexivity. }
  apply G. apply incl_refl.
Qed.

(* ---- numpy transpose by a permutation of named axes ---------------------------------------------- *)
Lemma in_range_map (h g : var -> nat) l :
  (forall v, In v l -> g v < h v) -> in_range (map h l) (map g l).
Proof.
  induction l as [|v l IH]; intros H; simpl; constructor.
  - apply H. left. reflexivity.
  - apply IH. intros w Hw. apply H. right. exact Hw.
Qed.

Lemma map_nth_seq {A} (d : A) l : l = map (fun p => nth p l d) (seq 0 (length l)).
Proof.
  apply nth_ext with (d := d) (d' := d); [rewrite map_length, seq_length; reflexivity|].
  intros n Hn. rewrite (nth_map_seq (fun p => nth p l d)) by exact Hn. reflexivity.
Qed.

Lemma index_of_map_inj (f : nat -> nat) l x :
  In x l -> (forall y, In y l -> f y = f x -> y = x) -> index_of (f x) (map f l) = index_of x l.
Proof.
  induction l as [|y l IH]; intros Hx Hinj; [destruct Hx|]. simpl.
  destruct (Nat.eqb (f x) (f y)) eqn:E.
  - apply Nat.eqb_eq in E. assert (y = x) by (apply Hinj; [left; reflexivity|symmetry; exact E]).
    subst. rewrite Nat.eqb_refl. reflexivity.
  - destruct (Nat.eqb x y) eqn:E2.
    + apply Nat.eqb_eq in E2. subst. rewrite Nat.eqb_refl in E. discriminate.
    + rewrite IH; [reflexivity| |].
      * destruct Hx as [Hx|Hx]; [subst; rewrite Nat.eqb_refl in E2; discriminate|exact Hx].
      * intros z Hz. apply Hinj. right. exact Hz.
Qed.

Lemma transpose_get {V} (d0 : V) (h g : var -> nat) (vars vars' : list var) (data : list V) :
  NoDup vars -> incl vars' vars -> incl vars vars' ->
  (forall v, In v vars -> g v < h v) ->
  t_get V d0 (map h vars')
    (np_transpose d0 (map h vars) data (map (fun v => pos_in v vars) vars')) (map g vars')
  = t_get V d0 (map h vars) data (map g vars).
Proof.
  intros Hn Hi' Hi Hg. unfold np_transpose.
  assert (Hshape : map (fun a => nth a (map h vars) 0) (map (fun v => pos_in v vars) vars') = map h vars').
  { rewrite map_map. apply map_ext_in. intros v Hv. destruct (nth_pos_in v vars (Hi' v Hv)) as [H1 H2].
    rewrite (nth_map_default h vars _ 0) by exact H2. f_equal. exact H1. }
  rewrite Hshape. rewrite t_get_build by (apply in_range_map; intros v Hv; apply Hg; apply Hi'; exact Hv).
  f_equal. rewrite map_length. rewrite (map_nth_seq 0 (map g vars)) at 1.
  rewrite map_length. apply map_ext_in. intros p Hp. apply in_seq in Hp.
  destruct Hp as [_ Hp]. cbn [plus] in Hp.
  set (x := nth p vars 0).
  assert (Hx : In x vars) by (apply nth_In; exact Hp).
  assert (Hpx : pos_in x vars = p) by (apply pos_in_nth; [exact Hn|exact Hp]).
  assert (Hidx : index_of p (map (fun v => pos_in v vars) vars') = index_of x vars').
  { rewrite <- Hpx. apply (index_of_map_inj (fun v => pos_in v vars) vars' x).
    - apply Hi. exact Hx.
    - intros y Hy Hyx. destruct (nth_pos_in y vars (Hi' y Hy)) as [H1 _].
      destruct (nth_pos_in x vars Hx) as [H2 _]. rewrite <- H1, <- H2, Hyx. reflexivity. }
  rewrite Hidx.
  destruct (index_of_In x vars' (Hi x Hx)) as [k Hk]. rewrite Hk.
  destruct (index_of_Some _ _ _ Hk) as [Hlt Hnth].
  rewrite (nth_map_default g vars' _ 0) by exact Hlt.
  rewrite (nth_map_default g vars _ 0) by exact Hp. f_equal. exact Hnth.
Qed.

Lemma assoc_nat_combine_map (h : var -> nat) ps v :
  In v ps -> assoc_nat (combine ps (map h ps)) v = h v.
Proof.
  induction ps as [|p ps IH]; intros Hv; [destruct Hv|]. simpl.
  destruct (Nat.eqb p v) eqn:E; [apply Nat.eqb_eq in E; subst; reflexivity|].
  apply IH. destruct Hv as [Hv|Hv]; [subst; rewrite Nat.eqb_refl in E; discriminate|exact Hv].
Qed.

Lemma pos_in_cons_other x y l : x <> y -> In x l -> pos_in x (y :: l) = S (pos_in x l).
Proof.
  intros Hne Hin. unfold pos_in. simpl. apply Nat.eqb_neq in Hne. rewrite Hne.
  destruct (index_of_In x l Hin) as [k Hk]. rewrite Hk. reflexivity.
Qed.

(* ---- reorder_parents ------------------------------------------------------------------------------- *)
Theorem reorder_ok (c : cpd) (o : list var) :
  wf_cpd c -> pars c <> [] -> Permutation o (pars c) ->
  exists ci,
    reorder_parents c o true = inr (ci, get_values ci) /\
    reorder_parents c o false = inr (c, get_values ci) /\
    child ci = child c /\ ccard ci = ccard c /\ pars ci = o /\ snames ci = snames c /\
    wf_cpd ci /\
    forall nu, P_named ci nu = P_named c nu.
Proof.
  intros W Hne Hperm.
  pose proof (wf_nodup c W) as Hnd. pose proof (wf_len c W) as Hlen.
  assert (Hchild : ~ In (child c) (pars c)) by (unfold variables in Hnd; inversion Hnd; assumption).
  assert (Hnd_p : NoDup (pars c)) by (unfold variables in Hnd; inversion Hnd; assumption).
  assert (Ho_in : forall v, In v o <-> In v (pars c)).
  { intros v. split; intros H; [eapply Permutation_in; [exact Hperm|exact H]|
      eapply Permutation_in; [apply Permutation_sym; exact Hperm|exact H]]. }
  assert (Hguard : (length (variables c) <=? 1) || negb (subsetb o (variables c)) || negb (subsetb (pars c) o) = false).
  { assert (H1 : (length (variables c) <=? 1) = false).
    { apply Nat.leb_gt. unfold variables. simpl. destruct (pars c); [congruence|simpl; lia]. }
    assert (H2 : subsetb o (variables c) = true).
    { apply subsetb_incl. intros v Hv. right. apply Ho_in. exact Hv. }
    assert (H3 : subsetb (pars c) o = true).
    { apply subsetb_incl. intros v Hv. apply Ho_in. exact Hv. }
    rewrite H1, H2, H3. reflexivity. }
  unfold reorder_parents. rewrite Hguard.
  destruct (list_eqb Nat.eqb o (pars c)) eqn:Eeq.
  { apply list_eqb_nat in Eeq. exists c. repeat split; try reflexivity; try (symmetry; exact Eeq); try apply W;
      exact (wf_sn_all c W). }
  assert (Hmem : memv (child c) o = false) by (apply memv_false; intros H; apply Hchild; apply Ho_in; exact H).
  rewrite Hmem. rewrite (Permutation_length Hperm), Nat.eqb_refl. cbn [negb].
  set (h := cardf c).
  set (vars' := child c :: o).
  assert (Hcards : cardinality c = map h (variables c)) by (apply cardinality_is_map_cardf; assumption).
  assert (Hpc : pcards c = map h (pars c)) by (apply pcards_is_map_cardf; assumption).
  assert (Hnewc : map (assoc_nat (combine (pars c) (pcards c))) o = map h o).
  { apply map_ext_in. intros v Hv. rewrite Hpc. apply assoc_nat_combine_map. apply Ho_in. exact Hv. }
  assert (Haxes : 0 :: map (fun v => S (pos_in v (pars c))) o = map (fun v => pos_in v (variables c)) vars').
  { unfold vars', variables. cbn [map]. f_equal.
    - unfold pos_in. simpl. rewrite Nat.eqb_refl. reflexivity.
    - apply map_ext_in. intros v Hv. symmetry. apply pos_in_cons_other.
      + intros E. subst. apply Hchild. apply Ho_in. exact Hv.
      + apply Ho_in. exact Hv. }
  rewrite Hnewc, Haxes.
  set (nv := np_transpose (Q2Qc 0) (cardinality c) (vals c) (map (fun v => pos_in v (variables c)) vars')).
  assert (Hnd' : NoDup vars').
  { unfold vars'. constructor.
    - intros H. apply Hchild. apply Ho_in. exact H.
    - eapply Permutation_NoDup; [apply Permutation_sym; exact Hperm|exact Hnd_p]. }
  assert (Hi' : incl vars' (variables c)).
  { intros v [<-|Hv]; [left; reflexivity|right; apply Ho_in; exact Hv]. }
  assert (Hi : incl (variables c) vars').
  { intros v [<-|Hv]; [left; reflexivity|right; apply Ho_in; exact Hv]. }
  assert (Hnvlen : length nv = prod (ccard c :: map h o)).
  { unfold nv, np_transpose. rewrite t_build_length. f_equal.
    rewrite Hcards, map_map. unfold vars'. cbn [map]. f_equal.
    - destruct (nth_pos_in (child c) (variables c) (or_introl eq_refl)) as [H1 H2].
      rewrite (nth_map_default h _ _ 0) by exact H2. rewrite H1. apply cardf_child.
    - apply map_ext_in. intros v Hv. assert (Hv' : In v (variables c)) by (right; apply Ho_in; exact Hv).
      destruct (nth_pos_in v (variables c) Hv') as [H1 H2].
      rewrite (nth_map_default h _ _ 0) by exact H2. rewrite H1. reflexivity. }
  rewrite df_init_ok;
    [|rewrite map_length; reflexivity|exact Hnvlen|exact Hnd'|exact (wf_sn_nonempty c W)|exact (wf_sn_all c W)].
  set (ci := mkcpd (child c) (ccard c) o (map h o) nv (snames c)).
  assert (Hcards' : cardinality ci = map h (variables ci)).
  { unfold cardinality, variables, ci. simpl. f_equal. symmetry. apply cardf_child. }
  assert (Hcf : forall v, In v (variables ci) -> cardf ci v = h v) by (apply cardf_of_map; exact Hcards').
  exists ci. split; [reflexivity|]. split; [reflexivity|].
  repeat split; try reflexivity.
  - exact Hnd'.
  - simpl. rewrite map_length. reflexivity.
  - exact Hnvlen.
  - exact (wf_pos c W).
  - intros v Hv. destruct (wf_sn c W v (Hi' v Hv)) as [s [Hs [Hl Hn]]].
    exists s. split; [exact Hs|]. split; [|exact Hn]. rewrite (Hcf v Hv). exact Hl.
  - exact (wf_sn_all c W).
  - intros nu. unfold P_named.
    change (snames ci) with (snames c). change (variables ci) with vars'.
    destruct (otraverse_dec (fun v => name_no (snames c) v (nu v)) (variables c)) as [Hall|[x [Hx Hnone]]].
    + rewrite (positions_all (snames c) (variables c) nu Hall).
      rewrite (positions_all (snames c) vars' nu) by (intros v Hv; apply Hall; apply Hi'; exact Hv).
      f_equal. rewrite Hcards'. change (variables ci) with vars'. change (vals ci) with nv. unfold nv.
      rewrite Hcards. apply transpose_get; [exact Hnd|exact Hi'|exact Hi|].
      intros v Hv. destruct (Hall v Hv) as [k Hk]. unfold posd. rewrite Hk.
      eapply posd_lt; eassumption.
    + unfold positions. rewrite (otraverse_None _ (variables c) x Hx Hnone).
      rewrite (otraverse_None _ vars' x (Hi x Hx) Hnone). reflexivity.
Qed.

(* a non-trivial instance: P(0 | 1, 2) with cardinalities 2 | 2, 3 and string-like state names *)
Example reorder_example :
  exists c ci, wf_cpd c /\ pars c = [1; 2]%nat /\ pcards c = [2; 3]%nat /\
    reorder_parents c [2; 1]%nat true = inr (ci, get_values ci) /\ pars ci = [2; 1]%nat /\
    vals ci <> vals c.
Proof.
  set (q := fun n : Z => Q2Qc (n # 16)).
  set (c := mkcpd 0%nat 2%nat [1; 2]%nat [2; 3]%nat
              (map q [1; 2; 3; 4; 5; 6; 15; 14; 13; 12; 11; 10]%Z)
              [(0%nat, [100; 101]%Z); (1%nat, [7; 5]%Z); (2%nat, [1; 0; 2]%Z)]).
  destruct (reorder_ok c [2; 1]%nat) as [ci [H1 [_ [_ [_ [H5 [_ [_ _]]]]]]]].
  - constructor; simpl; try reflexivity; try lia.
    + repeat constructor; simpl; intuition discriminate.
    + intros v [<-|[<-|[<-|[]]]]; eexists; (split; [reflexivity|]); (split; [reflexivity|]);
        repeat constructor; simpl; intuition discriminate.
  - discriminate.
  - apply perm_swap.
  - exists c, ci. split.
    + constructor; simpl; try reflexivity; try lia.
      * repeat constructor; simpl; intuition discriminate.
      * intros v [<-|[<-|[<-|[]]]]; eexists; (split; [reflexivity|]); (split; [reflexivity|]);
          repeat constructor; simpl; intuition discriminate.
    + split; [reflexivity|]. split; [reflexivity|]. split; [exact H1|]. split; [exact H5|].
      vm_compute in H1. injection H1 as Hci _. rewrite <- Hci. vm_compute. discriminate.
Qed.
