(* C05 store model: which parts of a CPD / factor object are fresh after copy() / to_factor().
   An object is five references (scope = variables+cardinality, values, state_names, name_to_no,
   no_to_name) into a heap of cells.  pgmpy's to_factor()/copy() build every one of the five top-level
   containers anew (list.copy / ndarray copy / dict.copy); the in-place operations of the public API
   (reduce, marginalize, maximize, normalize, set_value, del_state_names, add_state_names, reorder_parents)
   assign to / delete keys of the object's OWN five containers and never mutate an inner state-name list,
   so a container is modelled as one cell holding an immutable value.  The harness checks the modelled
   sharing graph on the real objects (identity of the five containers, numpy shares_memory) and the
   behavioural consequence (every in-place operation on one object, full by-name re-check of the other). *)
From Coq Require Import List Arith Lia PeanoNat Bool QArith Qcanon.
From PV Require Import Base.FinSum C05.Model.
Import ListNotations.
Local Open Scope nat_scope.

Definition loc := nat.
Inductive cell :=
| CScope (vs : list var) (cards : list nat)
| CVals (v : list Qc)
| CDict (d : snmap).
Record heap := { cells : loc -> option cell; next : loc }.
Record obj := { o_scope : loc; o_vals : loc; o_sn : loc; o_n2no : loc; o_no2n : loc }.

Definition locs (o : obj) : list loc := [o_scope o; o_vals o; o_sn o; o_n2no o; o_no2n o].
Definition wf_obj (h : heap) (o : obj) : Prop := forall l, In l (locs o) -> l < next h.
Definition obs (h : heap) (o : obj) : list (option cell) := map (cells h) (locs o).

Definition write (h : heap) (l : loc) (c : option cell) : heap :=
  {| cells := fun k => if Nat.eqb k l then c else cells h k; next := next h |}.
Definition alloc (h : heap) (c : option cell) : heap * loc :=
  ({| cells := fun k => if Nat.eqb k (next h) then c else cells h k; next := S (next h) |}, next h).

(* to_factor() / copy(): five fresh containers with the same contents *)
Definition clone (h : heap) (o : obj) : heap * obj :=
  let '(h1, a) := alloc h (cells h (o_scope o)) in
  let '(h2, b) := alloc h1 (cells h (o_vals o)) in
  let '(h3, c) := alloc h2 (cells h (o_sn o)) in
  let '(h4, d) := alloc h3 (cells h (o_n2no o)) in
  let '(h5, e) := alloc h4 (cells h (o_no2n o)) in
  (h5, {| o_scope := a; o_vals := b; o_sn := c; o_n2no := d; o_no2n := e |}).

(* the seeded defect: the two lookup tables are the original's own containers *)
Definition clone_shared_lookup (h : heap) (o : obj) : heap * obj :=
  let '(h1, a) := alloc h (cells h (o_scope o)) in
  let '(h2, b) := alloc h1 (cells h (o_vals o)) in
  let '(h3, c) := alloc h2 (cells h (o_sn o)) in
  (h3, {| o_scope := a; o_vals := b; o_sn := c; o_n2no := o_n2no o; o_no2n := o_no2n o |}).

(* an in-place operation on object o: any sequence of assignments (None = the container is emptied /
   replaced) to o's own containers *)
Definition inplace_on (o : obj) (ws : list (loc * option cell)) : Prop :=
  forall w, In w ws -> In (fst w) (locs o).
Definition apply_writes (h : heap) (ws : list (loc * option cell)) : heap :=
  fold_left (fun h w => write h (fst w) (snd w)) ws h.

Lemma apply_writes_frame ws : forall h l, (forall w, In w ws -> fst w <> l) ->
  cells (apply_writes h ws) l = cells h l.
Proof.
  induction ws as [|w ws IH]; intros h l H; [reflexivity|]. simpl.
  rewrite IH by (intros w' Hw'; apply H; right; exact Hw').
  simpl. destruct (Nat.eqb l (fst w)) eqn:E; [|reflexivity].
  apply Nat.eqb_eq in E. exfalso. apply (H w (or_introl eq_refl)). symmetry. exact E.
Qed.

Lemma obs_frame h o ws :
  (forall w l, In w ws -> In l (locs o) -> fst w <> l) -> obs (apply_writes h ws) o = obs h o.
Proof.
  intros H. unfold obs. apply map_ext_in. intros l Hl. apply apply_writes_frame.
  intros w Hw. apply (H w l Hw Hl).
Qed.

Lemma clone_spec h o : wf_obj h o ->
  let '(h', o') := clone h o in
  obs h' o' = obs h o /\ obs h' o = obs h o /\
  (forall l l', In l (locs o) -> In l' (locs o') -> l <> l') /\
  wf_obj h' o /\ wf_obj h' o'.
Proof.
  intros W. unfold clone, alloc. cbn [fst snd].
  assert (H1 := W (o_scope o)). assert (H2 := W (o_vals o)). assert (H3 := W (o_sn o)).
  assert (H4 := W (o_n2no o)). assert (H5 := W (o_no2n o)). unfold locs in *. simpl in H1, H2, H3, H4, H5.
  assert (L1 : o_scope o < next h) by auto. assert (L2 : o_vals o < next h) by auto.
  assert (L3 : o_sn o < next h) by auto 6. assert (L4 : o_n2no o < next h) by auto 7.
  assert (L5 : o_no2n o < next h) by auto 8.
  clear H1 H2 H3 H4 H5.
  assert (E : forall a b, a < b -> Nat.eqb a b = false) by (intros a b Hab; apply Nat.eqb_neq; lia).
  assert (E' : forall a b, b < a -> Nat.eqb a b = false) by (intros a b Hab; apply Nat.eqb_neq; lia).
  split; [|split; [|split; [|split]]].
  - unfold obs, locs. simpl.
    repeat match goal with |- context [Nat.eqb ?a ?b] => destruct (Nat.eqb_spec a b); try lia end; reflexivity.
  - unfold obs, locs. simpl.
    repeat match goal with |- context [Nat.eqb ?a ?b] => destruct (Nat.eqb_spec a b); try lia end; reflexivity.
  - intros l l' Hl Hl'. cbn [locs o_scope o_vals o_sn o_n2no o_no2n] in Hl, Hl'. simpl in Hl, Hl'.
    assert (l < next h) by (destruct Hl as [<-|[<-|[<-|[<-|[<-|[]]]]]]; assumption).
    assert (next h <= l') by (destruct Hl' as [<-|[<-|[<-|[<-|[<-|[]]]]]]; lia). lia.
  - intros l Hl. cbn [next]. specialize (W l Hl). lia.
  - intros l Hl. cbn [next locs o_scope o_vals o_sn o_n2no o_no2n] in *. simpl in Hl.
    destruct Hl as [<-|[<-|[<-|[<-|[<-|[]]]]]]; lia.
Qed.

(* ---- construction from a caller's array ------------------------------------------------------------
   TabularCPD(...) / DiscreteFactor(...) build their values with np.array(values) (a copy) and
   flatten() (a copy): the object's value container is a fresh cell holding the contents of the caller's
   array [src]; the other four containers are fresh too. *)
Definition construct (h : heap) (src : loc) (sc sn n2 no : option cell) : heap * obj :=
  let '(h1, a) := alloc h sc in
  let '(h2, b) := alloc h1 (cells h src) in
  let '(h3, c) := alloc h2 sn in
  let '(h4, d) := alloc h3 n2 in
  let '(h5, e) := alloc h4 no in
  (h5, {| o_scope := a; o_vals := b; o_sn := c; o_n2no := d; o_no2n := e |}).

Lemma construct_spec h src sc sn n2 no :
  let '(h', o) := construct h src sc sn n2 no in
  cells h' (o_vals o) = cells h src /\
  (forall l, l < next h -> cells h' l = cells h l) /\
  (forall l, In l (locs o) -> next h <= l /\ l < next h').
Proof.
  unfold construct, alloc. cbn [fst snd]. split; [|split].
  - simpl. repeat match goal with |- context [Nat.eqb ?a ?b] => destruct (Nat.eqb_spec a b); try lia end; reflexivity.
  - intros l Hl. simpl.
    repeat match goal with |- context [Nat.eqb ?a ?b] => destruct (Nat.eqb_spec a b); try lia end; reflexivity.
  - intros l Hl. simpl in Hl. simpl. destruct Hl as [<-|[<-|[<-|[<-|[<-|[]]]]]]; lia.
Qed.
