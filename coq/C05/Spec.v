(* C05 specification: what a CPD table means.
   P(child = x | parents = pi) is read off a CPD by NAMED assignment: each variable's state name is
   located in that variable's own state-name list, and the table is indexed (child first, parents in
   the CPD's current order, row-major) by those positions.  Nothing here mentions reshaping,
   transposition or how a transformation is computed. *)
From Coq Require Import List Arith ZArith Lia PeanoNat Bool QArith Qcanon.
From PV Require Import Base.Ravel Base.Semiring Base.FinSum Base.RefFactor Base.Graph C05.Model.
Import ListNotations.
Local Open Scope nat_scope.

(* position of the state name [nu v] in v's state-name list, for every variable of the list *)
Definition positions (sn : snmap) (vs : list var) (nu : nasg) : option (list nat) :=
  otraverse (fun v => name_no sn v (nu v)) vs.

(* relational reading: idx[k] is a position at which variable vs[k]'s list holds the name nu(vs[k]) *)
Definition names_at (sn : snmap) (vs : list var) (nu : nasg) (idx : list nat) : Prop :=
  Forall2 (fun v k => exists s, sn_get sn v = Some s /\ nth_error s k = Some (nu v)) vs idx.

(* P(child = nu child | parents = nu parents); None when some name is not a state of its variable *)
Definition P_named (c : cpd) (nu : nasg) : option Qc :=
  match positions (snames c) (variables c) nu with
  | Some idx => Some (t_get Qc (Q2Qc 0) (cardinality c) (vals c) idx)
  | None => None
  end.

(* column j of the 2-D table <-> the j-th parent configuration in row-major order of the evidence list *)
Definition config_of_column (parent_cards : list nat) (j : nat) : list nat := unravel parent_cards j.

(* entry (i, j) of a 2-D table given as a list of rows *)
Definition entry2 {V} (d : V) (rows : list (list V)) (i j : nat) : V := nth j (nth i rows []) d.

(* the value stored for child state i and parent configuration cfg (state indices) *)
Definition at_config {V} (d : V) (c : cpdT V) (i : nat) (cfg : list nat) : V :=
  t_get V d (cardinality c) (vals c) (i :: cfg).

(* sum of column j over the child states *)
Local Open Scope Qc_scope.
Definition colsum (c : cpd) (j : nat) : Qc :=
  qsum (map (fun i => nth (i * prod (pcards c) + j)%nat (vals c) 0) (seq 0 (ccard c))).
Definition within_tol (s : Qc) : Prop := s - 1 <= tol /\ 1 - s <= tol.
Local Close Scope Qc_scope.

(* well-formed CPD objects: what the constructor establishes (plus state-name lists of the declared
   length, which pgmpy does not validate - an assumption of the theorems, guaranteed by the harness) *)
Record wf_cpd {V} (c : cpdT V) : Prop := {
  wf_nodup : NoDup (variables c);
  wf_len : length (pcards c) = length (pars c);
  wf_vals : length (vals c) = prod (cardinality c);
  wf_pos : 0 < ccard c;
  wf_sn : forall v, In v (variables c) ->
            exists s, sn_get (snames c) v = Some s /\ length s = cardf c v /\ NoDup s;
  wf_sn_all : forallb (fun kv => znodupb (snd kv)) (snames c) = true
}.

(* state-index assignments that respect the CPD's cardinalities *)
Definition valid_for {V} (c : cpdT V) (a : asg) : Prop := valid (cardf c) a.

(* set equality of variable lists *)
Definition same_set (a b : list nat) : Prop := forall x, In x a <-> In x b.
