(* C05 proofs, part 4: check_model characterised; the joint of a validated network sums to one *)
From Coq Require Import List Arith ZArith Lia PeanoNat Bool QArith Qcanon Permutation.
From PV Require Import Base.Ravel Base.Semiring Base.FinSum Base.RefFactor Base.Graph
  C05.Model C05.Spec C05.ProofsTable C05.ProofsValid.
Import ListNotations.
Local Open Scope nat_scope.

(* ---- check_model ---------------------------------------------------------------------------------- *)
Lemma first_fail_ok {A} (f : A -> cm_result) l : first_fail f l = CM_ok <-> forall x, In x l -> f x = CM_ok.
Proof.
  induction l as [|x l IH]; simpl; [split; [intros _ x []|reflexivity]|].
  destruct (f x) eqn:E; try (split; [discriminate|intros H; specialize (H x (or_introl eq_refl)); congruence]).
  rewrite IH. split.
  - intros H y [<-|Hy]; [exact E|apply H; exact Hy].
  - intros H y Hy. apply H. right. exact Hy.
Qed.

Lemma seteqb_spec a b : seteqb a b = true <-> same_set a b.
Proof.
  unfold seteqb, same_set. rewrite andb_true_iff, !subsetb_incl. unfold incl. split.
  - intros [H1 H2] x. split; [apply H1|apply H2].
  - intros H. split; intros x Hx; apply H; exact Hx.
Qed.

Lemma olist_eqb_spec a b : olist_eqb a b = true <-> exists s, a = Some s /\ b = Some s.
Proof.
  destruct a as [x|], b as [y|]; simpl; try (split; [discriminate|intros [s [H1 H2]]; discriminate]).
  rewrite list_eqb_Z. split; [intros ->; exists y; split; reflexivity|intros [s [H1 H2]]; congruence].
Qed.

Lemma get_cpd_Some b v c : get_cpd b v = Some c -> In c (bcpds b) /\ child c = v.
Proof. unfold get_cpd. intros H. apply find_some in H. destruct H as [H1 H2]. apply Nat.eqb_eq in H2. auto. Qed.

(* what the second loop asks of one (parent, declared cardinality) pair of a CPD *)
Definition parent_ok (b : bn) (c : cpd) (u : var) (k : nat) : Prop :=
  exists pc, get_cpd b u = Some pc /\ ccard pc = k /\
             exists s, sn_get (snames pc) u = Some s /\ sn_get (snames c) u = Some s.

(* what both loops ask of one node *)
Definition node_ok (b : bn) (v : node) : Prop :=
  exists c, get_cpd b v = Some c /\
            same_set (pars c) (parents (bg b) v) /\
            (forall u, In u (variables c) -> sn_has (snames c) u = true) /\
            is_valid_cpd c = true /\
            forall u k, In (u, k) (combine (pars c) (pcards c)) -> parent_ok b c u k.

Lemma check_parent_ok b c pk : check_parent b c pk = CM_ok <-> parent_ok b c (fst pk) (snd pk).
Proof.
  unfold check_parent, parent_ok. destruct (get_cpd b (fst pk)) as [pc|]; [|split; [discriminate|intros [pc [H _]]; discriminate]].
  destruct (Nat.eqb (ccard pc) (snd pk)) eqn:E1; cbn [negb].
  - apply Nat.eqb_eq in E1.
    destruct (olist_eqb (sn_get (snames pc) (fst pk)) (sn_get (snames c) (fst pk))) eqn:E2; cbn [negb].
    + apply olist_eqb_spec in E2. split; [intros _; exists pc; auto|reflexivity].
    + split; [discriminate|]. intros [pc' [H1 [_ H3]]]. inversion H1; subst pc'.
      apply olist_eqb_spec in H3. congruence.
  - apply Nat.eqb_neq in E1. split; [discriminate|]. intros [pc' [H1 [H2 _]]]. inversion H1; subst. contradiction.
Qed.

Theorem check_model_iff (b : bn) :
  check_model b = CM_ok <-> forall v, In v (nodes (bg b)) -> node_ok b v.
Proof.
  unfold check_model. split.
  - intros H. destruct (first_fail (check_node1 b) (nodes (bg b))) eqn:E1; try discriminate.
    rewrite first_fail_ok in E1, H. intros v Hv. specialize (E1 v Hv). specialize (H v Hv).
    unfold check_node1 in E1. unfold check_node2 in H. destruct (get_cpd b v) as [c|] eqn:Eg; [|discriminate].
    destruct (seteqb (get_evidence c) (parents (bg b) v)) eqn:Ea; cbn [negb] in E1; [|discriminate].
    destruct (forallb (sn_has (snames c)) (variables c)) eqn:Eb; cbn [negb] in E1; [|discriminate].
    destruct (is_valid_cpd c) eqn:Ec; cbn [negb] in E1; [|discriminate].
    exists c. split; [exact Eg|]. split.
    { apply seteqb_spec in Ea. intros x. rewrite <- (Ea x). unfold get_evidence. apply in_rev. }
    split; [rewrite forallb_forall in Eb; exact Eb|]. split; [exact Ec|].
    intros u k Huk. rewrite first_fail_ok in H. apply (check_parent_ok b c (u, k)). apply H. exact Huk.
  - intros H.
    assert (E1 : first_fail (check_node1 b) (nodes (bg b)) = CM_ok).
    { apply first_fail_ok. intros v Hv. destruct (H v Hv) as [c [Hg [Hs [Hn [Hval _]]]]].
      unfold check_node1. rewrite Hg.
      assert (Ea : seteqb (get_evidence c) (parents (bg b) v) = true).
      { apply seteqb_spec. intros x. rewrite <- (Hs x). unfold get_evidence. symmetry. apply in_rev. }
      rewrite Ea. cbn [negb].
      assert (Eb : forallb (sn_has (snames c)) (variables c) = true) by (apply forallb_forall; exact Hn).
      rewrite Eb, Hval. reflexivity. }
    rewrite E1. apply first_fail_ok. intros v Hv. destruct (H v Hv) as [c [Hg [_ [_ [_ Hp]]]]].
    unfold check_node2. rewrite Hg. apply first_fail_ok. intros [u k] Huk.
    apply check_parent_ok. apply Hp. exact Huk.
Qed.

(* ---- the joint sums to one --------------------------------------------------------------------------- *)
Section Joint.
Variable card : var -> nat.
Local Notation R := Qc_sum_csr.
Local Open Scope Qc_scope.

Lemma sum_over_ext_valid vs : forall (g h : asg -> R) a,
  valid card a -> (forall b, valid card b -> g b = h b) ->
  sum_over vs (map card vs) g a = sum_over vs (map card vs) h a.
Proof.
  induction vs as [|v vs IH]; intros g h a Ha H; [apply H; exact Ha|].
  cbn [map sum_over]. apply sum_list_ext. intros i Hi. apply in_seq in Hi.
  apply IH; [apply valid_upd; [exact Ha|lia]|exact H].
Qed.

(* each CPD's child does not occur in the scope of an earlier CPD (list given last CPD first) *)
Fixpoint topo_rev (l : list cpd) : Prop :=
  match l with
  | [] => True
  | c :: r => (forall d, In d r -> ~ In (child c) (variables d)) /\ topo_rev r
  end.
Definition topological (cs : list cpd) : Prop := topo_rev (rev cs).

Definition consistent (c : cpd) : Prop := forall v, In v (variables c) -> cardf c v = card v.

Lemma feval_card_cardf (c : cpd) a : consistent c ->
  feval R card (cfac c) a = feval R (cardf c) (cfac c) a.
Proof.
  intros Hc. unfold feval, fcard. f_equal. apply map_ext_in. intros v Hv. symmetry. apply Hc. exact Hv.
Qed.

Lemma child_sum_card (c : cpd) a : wf_cpd c -> consistent c -> valid card a ->
  sum_over (R := R) [child c] [card (child c)] (feval R card (cfac c)) a =
    colsum c (ravel (pcards c) (map a (pars c))) /\
  (ravel (pcards c) (map a (pars c)) < prod (pcards c))%nat.
Proof.
  intros W Hc Ha. split.
  - rewrite <- (Hc (child c) (or_introl eq_refl)), cardf_child.
    rewrite <- child_sum_is_colsum by exact W.
    cbn [sum_over]. apply sum_list_ext. intros i _. apply feval_card_cardf. exact Hc.
  - apply ravel_lt. rewrite (pcards_is_map_cardf c (wf_nodup c W) (wf_len c W)).
    replace (map (cardf c) (pars c)) with (map card (pars c))
      by (apply map_ext_in; intros v Hv; symmetry; apply Hc; right; exact Hv).
    apply valid_in_range. exact Ha.
Qed.

Lemma eval_prod_snoc (fs : list (factor R)) f a :
  eval_prod R card (fs ++ [f]) a = eval_prod R card fs a * feval R card f a.
Proof.
  unfold eval_prod. rewrite map_app, prod_list_app. simpl. f_equal. apply (mul_1_r R).
Qed.

Lemma eval_prod_ignores (fs : list (factor R)) v :
  (forall g, In g fs -> ~ In v (fvars g)) -> ignores (eval_prod R card fs) v.
Proof.
  intros H a i. unfold eval_prod. f_equal. apply map_ext_in. intros g Hg.
  apply (depends_only_ignores R (feval R card g) (fvars g) v (feval_depends_only R card g) (H g Hg)).
Qed.

Theorem joint_exact (cs : list cpd) :
  topological cs ->
  (forall c, In c cs -> wf_cpd c /\ consistent c) ->
  (forall c j, In c cs -> (j < prod (pcards c))%nat -> colsum c j = 1) ->
  forall a, valid card a ->
    sum_over (R := R) (map child cs) (map card (map child cs)) (eval_prod R card (map cfac cs)) a = 1.
Proof.
  assert (G : forall l, topo_rev l ->
     (forall c, In c l -> wf_cpd c /\ consistent c) ->
     (forall c j, In c l -> (j < prod (pcards c))%nat -> colsum c j = 1) ->
     forall a, valid card a ->
       sum_over (R := R) (map child (rev l)) (map card (map child (rev l)))
         (eval_prod R card (map cfac (rev l))) a = 1).
  { induction l as [|c r IH]; intros Ht Hw Hs a Ha.
    - simpl. unfold eval_prod. reflexivity.
    - destruct Ht as [Hfresh Ht]. cbn [rev]. rewrite !map_app. cbn [map].
      rewrite sum_over_app by (rewrite !map_length; reflexivity).
      destruct (Hw c (or_introl eq_refl)) as [W Hc].
      rewrite (sum_over_ext_valid _ _ (eval_prod R card (map cfac (rev r)))) ; [|exact Ha|].
      + apply IH; [exact Ht|intros d Hd; apply Hw; right; exact Hd|
                   intros d j Hd; apply Hs; right; exact Hd|exact Ha].
      + intros b Hb.
        rewrite (sum_over_ext_fun R [child c] [card (child c)] _
                   (fun x => mul (eval_prod R card (map cfac (rev r)) x) (feval R card (cfac c) x)))
          by (intros x; apply eval_prod_snoc).
        rewrite sum_over_mul_l.
        * destruct (child_sum_card c b W Hc Hb) as [H1 H2]. rewrite H1.
          rewrite (Hs c _ (or_introl eq_refl) H2). apply (mul_1_r R).
        * intros v [<-|[]]. apply eval_prod_ignores. intros g Hg. apply in_map_iff in Hg.
          destruct Hg as [d [<- Hd]]. apply in_rev in Hd. exact (Hfresh d Hd).
        * intros x. exact I. }
  intros Ht Hw Hs a Ha. rewrite <- (rev_involutive cs). apply G.
  - exact Ht.
  - intros c Hc. apply Hw. apply in_rev. exact Hc.
  - intros c j Hc. apply Hs. apply in_rev. exact Hc.
  - exact Ha.
Qed.
End Joint.

(* ---- tolerance form: column sums in [lo, hi], non-negative entries ---------------------------------- *)
Section JointTol.
Variable card : var -> nat.
Local Notation R := Qc_sum_csr.
Local Open Scope Qc_scope.
Variables lo hi : Qc.
Hypothesis Hlo : 0 <= lo.
Hypothesis Hhi : 0 <= hi.

Lemma qmul_nonneg (a b : Qc) : 0 <= a -> 0 <= b -> 0 <= a * b.
Proof.
  intros Ha Hb. replace (Q2Qc 0) with (Q2Qc 0 * b) by ring. apply Qcmult_le_compat_r; assumption.
Qed.

Lemma qsum_le (f g : nat -> Qc) l :
  (forall i, In i l -> f i <= g i) -> sum_list (R := R) (map f l) <= sum_list (R := R) (map g l).
Proof.
  induction l as [|x l IH]; intros H; simpl; [apply Qcle_refl|].
  apply Qcplus_le_compat; [apply H; left; reflexivity|apply IH; intros i Hi; apply H; right; exact Hi].
Qed.

Lemma sum_over_le vs : forall (g h : asg -> R) a,
  valid card a -> (forall b, valid card b -> g b <= h b) ->
  sum_over vs (map card vs) g a <= sum_over vs (map card vs) h a.
Proof.
  induction vs as [|v vs IH]; intros g h a Ha H; cbn [map sum_over]; [apply H; exact Ha|].
  apply qsum_le. intros i Hi. apply in_seq in Hi.
  apply IH; [apply valid_upd; [exact Ha|lia]|exact H].
Qed.

Lemma sum_over_scale vs cs (k : Qc) (g : asg -> R) a :
  sum_over (R := R) vs cs (fun b => k * g b) a = k * sum_over (R := R) vs cs g a.
Proof.
  apply (sum_over_mul_l R vs cs (fun _ => k) g a); [intros v _ b i; reflexivity|intros b; exact I].
Qed.

Definition nonneg_cpd (c : cpd) : Prop := forall x, In x (vals c) -> 0 <= x.

Lemma feval_nonneg (c : cpd) a : nonneg_cpd c -> 0 <= feval R card (cfac c) a.
Proof.
  intros H. unfold feval, t_get.
  destruct (nth_in_or_default (ravel (fcard R card (cfac c)) (map a (fvars (cfac c)))) (fvals (cfac c)) (@zero R))
    as [Hi|He]; [apply H; exact Hi|rewrite He; apply Qcle_refl].
Qed.

Lemma eval_prod_nonneg (cs : list cpd) a :
  (forall c, In c cs -> nonneg_cpd c) -> 0 <= eval_prod R card (map cfac cs) a.
Proof.
  unfold eval_prod. induction cs as [|c cs IH]; intros H; simpl; [discriminate|].
  apply qmul_nonneg; [apply feval_nonneg; apply H; left; reflexivity|apply IH; intros d Hd; apply H; right; exact Hd].
Qed.

Theorem joint_tol (cs : list cpd) :
  topological cs ->
  (forall c, In c cs -> wf_cpd c /\ consistent card c /\ nonneg_cpd c) ->
  (forall c j, In c cs -> (j < prod (pcards c))%nat -> lo <= colsum c j /\ colsum c j <= hi) ->
  forall a, valid card a ->
    lo ^ length cs <= sum_over (R := R) (map child cs) (map card (map child cs)) (eval_prod R card (map cfac cs)) a /\
    sum_over (R := R) (map child cs) (map card (map child cs)) (eval_prod R card (map cfac cs)) a <= hi ^ length cs.
Proof.
  assert (G : forall l, topo_rev l ->
     (forall c, In c l -> wf_cpd c /\ consistent card c /\ nonneg_cpd c) ->
     (forall c j, In c l -> (j < prod (pcards c))%nat -> lo <= colsum c j /\ colsum c j <= hi) ->
     forall a, valid card a ->
       lo ^ length l <= sum_over (R := R) (map child (rev l)) (map card (map child (rev l)))
                          (eval_prod R card (map cfac (rev l))) a /\
       sum_over (R := R) (map child (rev l)) (map card (map child (rev l)))
                (eval_prod R card (map cfac (rev l))) a <= hi ^ length l).
  { induction l as [|c r IH]; intros Ht Hw Hs a Ha.
    - simpl. unfold eval_prod. simpl. split; apply Qcle_refl.
    - destruct Ht as [Hfresh Ht]. cbn [rev length]. rewrite !map_app. cbn [map].
      rewrite sum_over_app by (rewrite !map_length; reflexivity).
      destruct (Hw c (or_introl eq_refl)) as [W [Hc Hnn]].
      set (E := eval_prod R card (map cfac (rev r))).
      set (vs := map child (rev r)).
      assert (Hinner : forall b, valid card b ->
                sum_over (R := R) [child c] [card (child c)] (eval_prod R card (map cfac (rev r) ++ [cfac c])) b =
                E b * colsum c (ravel (pcards c) (map b (pars c))) /\
                (ravel (pcards c) (map b (pars c)) < prod (pcards c))%nat).
      { intros b Hb.
        rewrite (sum_over_ext_fun R [child c] [card (child c)] _
                   (fun x => mul (E x) (feval R card (cfac c) x)))
          by (intros x; apply eval_prod_snoc).
        rewrite sum_over_mul_l.
        - destruct (child_sum_card card c b W Hc Hb) as [H1 H2]. rewrite H1. split; [reflexivity|exact H2].
        - intros v [<-|[]]. apply eval_prod_ignores. intros g Hg. apply in_map_iff in Hg.
          destruct Hg as [d [<- Hd]]. apply in_rev in Hd. exact (Hfresh d Hd).
        - intros x. exact I. }
      assert (HE : forall b, 0 <= E b).
      { intros b. apply eval_prod_nonneg. intros d Hd. apply in_rev in Hd.
        destruct (Hw d (or_intror Hd)) as [_ [_ H]]. exact H. }
      destruct (IH Ht (fun d Hd => Hw d (or_intror Hd)) (fun d j Hd => Hs d j (or_intror Hd)) a Ha) as [IHlo IHhi].
      fold E vs in IHlo, IHhi. split.
      + apply Qcle_trans with (lo * sum_over vs (map card vs) E a).
        * simpl. rewrite (Qcmult_comm lo (lo ^ length r)), (Qcmult_comm lo (sum_over vs (map card vs) E a)).
          apply Qcmult_le_compat_r; assumption.
        * rewrite <- sum_over_scale. apply sum_over_le; [exact Ha|]. intros b Hb.
          destruct (Hinner b Hb) as [H1 H2]. rewrite H1.
          destruct (Hs c _ (or_introl eq_refl) H2) as [Hl _].
          rewrite (Qcmult_comm (E b)). apply Qcmult_le_compat_r; [exact Hl|apply HE].
      + apply Qcle_trans with (hi * sum_over vs (map card vs) E a).
        * rewrite <- sum_over_scale. apply sum_over_le; [exact Ha|]. intros b Hb.
          destruct (Hinner b Hb) as [H1 H2]. rewrite H1.
          destruct (Hs c _ (or_introl eq_refl) H2) as [_ Hh].
          rewrite (Qcmult_comm (E b)). apply Qcmult_le_compat_r; [exact Hh|apply HE].
        * simpl. rewrite (Qcmult_comm hi (hi ^ length r)), (Qcmult_comm hi (sum_over vs (map card vs) E a)).
          apply Qcmult_le_compat_r; assumption. }
  intros Ht Hw Hs a Ha. rewrite <- (rev_involutive cs). rewrite (rev_length (rev cs)). apply G.
  - exact Ht.
  - intros c Hc. apply Hw. apply in_rev. exact Hc.
  - intros c j Hc. apply Hs. apply in_rev. exact Hc.
  - exact Ha.
Qed.
End JointTol.

(* ---- from check_model's verdict to the hypotheses of the joint theorems ------------------------------ *)
Definition bn_card (b : bn) (v : var) : nat :=
  match get_cpd b v with Some c => ccard c | None => 1 end.

Lemma accepted_facts b order cs :
  Forall wf_cpd (bcpds b) -> check_model b = CM_ok ->
  incl order (nodes (bg b)) -> Forall2 (fun v c => get_cpd b v = Some c) order cs ->
  forall c, In c cs ->
    wf_cpd c /\ consistent (bn_card b) c /\ forall j, j < prod (pcards c) -> within_tol (colsum c j).
Proof.
  intros Hwf Hck Hincl Hf2 c Hc.
  assert (Hv : exists v, In v order /\ get_cpd b v = Some c).
  { clear -Hf2 Hc. induction Hf2 as [|v c' order cs H _ IH]; [destruct Hc|].
    destruct Hc as [<-|Hc]; [exists v; split; [left; reflexivity|exact H]|].
    destruct (IH Hc) as [w [Hw Hg]]. exists w. split; [right; exact Hw|exact Hg]. }
  destruct Hv as [v [Hv Hg]].
  destruct (get_cpd_Some b v c Hg) as [Hin Hcv].
  rewrite Forall_forall in Hwf. pose proof (Hwf c Hin) as W. split; [exact W|].
  pose proof (proj1 (check_model_iff b) Hck) as Hall.
  destruct (Hall v (Hincl v Hv)) as [c' [Hg' [_ [_ [Hval Hp]]]]].
  rewrite Hg in Hg'. inversion Hg'; subst c'. split.
  - intros u [Hu|Hu].
    + subst u. rewrite cardf_child. unfold bn_card. rewrite Hcv, Hg. reflexivity.
    + assert (Hin' : In (u, cardf c u) (combine (pars c) (pcards c))).
      { rewrite (pcards_is_map_cardf c (wf_nodup c W) (wf_len c W)).
        clear -Hu. induction (pars c) as [|p ps IH]; [destruct Hu|]. simpl.
        destruct Hu as [->|Hu]; [left; reflexivity|right; apply IH; exact Hu]. }
      destruct (Hp u _ Hin') as [pc [H1 [H2 _]]]. unfold bn_card. rewrite H1. symmetry. exact H2.
  - apply (valid_iff c W). exact Hval.
Qed.

Local Open Scope Qc_scope.
Lemma within_tol_bounds s : within_tol s -> 1 - tol <= s /\ s <= 1 + tol.
Proof.
  intros [H1 H2]. split.
  - replace (1 - tol) with ((1 - s) + (s - tol)) by ring. replace s with (tol + (s - tol)) at 3 by ring.
    apply Qcplus_le_compat; [exact H2|apply Qcle_refl].
  - replace s with ((s - 1) + 1) at 1 by ring. replace (1 + tol) with (tol + 1) by ring.
    apply Qcplus_le_compat; [exact H1|apply Qcle_refl].
Qed.
Lemma tol_lo_nonneg : 0 <= 1 - tol. Proof. unfold Qcle. vm_compute. discriminate. Qed.
Lemma tol_hi_nonneg : 0 <= 1 + tol. Proof. unfold Qcle. vm_compute. discriminate. Qed.

(* ---- non-finite entries ------------------------------------------------------------------------------- *)
Lemma otraverse_id_nth (l : list (option Qc)) l' :
  otraverse (fun x => x) l = Some l' -> forall k, (k < length l)%nat -> nth k l None <> None.
Proof.
  revert l'. induction l as [|x l IH]; intros l' H k Hk; [simpl in Hk; lia|].
  simpl in H. destruct x as [q|]; [|discriminate].
  destruct (otraverse (fun x => x) l) as [r|] eqn:E; [|discriminate].
  destruct k as [|k]; simpl; [discriminate|]. apply (IH r eq_refl). simpl in Hk. lia.
Qed.

Lemma valid_ocpd_finite (oc : ocpd) :
  is_valid_ocpd oc = true ->
  exists c : cpd, ocpd_finite oc = Some c /\ is_valid_cpd c = true /\
                  forall k, (k < length (vals oc))%nat -> nth k (vals oc) None <> None.
Proof.
  unfold is_valid_ocpd. destruct (ocpd_finite oc) as [c|] eqn:E; [|discriminate].
  intros H. exists c. split; [reflexivity|]. split; [exact H|].
  unfold ocpd_finite in E. destruct (otraverse (fun x => x) (vals oc)) as [l|] eqn:E2; [|discriminate].
  apply (otraverse_id_nth _ l E2).
Qed.

(* normalize() of a table with a zero-sum column is never valid (0/0 = nan, x/0 = +-inf) *)
Lemma normalized_zero_column_invalid (c : cpd) j :
  wf_cpd c -> (j < prod (pcards c))%nat -> colsum c j = Q2Qc 0 -> is_valid_ocpd (normalize c) = false.
Proof.
  intros W Hj Hs. destruct (is_valid_ocpd (normalize c)) eqn:E; [|reflexivity]. exfalso.
  destruct (valid_ocpd_finite _ E) as [c' [_ [_ Hfin]]].
  pose proof (wf_vals c W) as Hv. unfold cardinality in Hv. rewrite prod_cons in Hv.
  pose proof (wf_pos c W) as Hp.
  destruct (normalize_columns c j Hv Hj) as [_ Hz].
  apply (Hfin (0 * prod (pcards c) + j)%nat).
  - rewrite normalize_length by exact Hv. simpl. nia.
  - apply Hz; [exact Hs|exact Hp].
Qed.

Lemma check_model_nf_sound b nf :
  check_model_nf b nf = CM_ok ->
  check_model b = CM_ok /\
  forall v c, In v (nodes (bg b)) -> get_cpd b v = Some c -> ~ In (child c) nf.
Proof.
  unfold check_model_nf, check_model. intros H.
  destruct (first_fail (check_node1_nf b nf) (nodes (bg b))) eqn:E1; try discriminate.
  rewrite first_fail_ok in E1.
  assert (G : forall v, In v (nodes (bg b)) -> check_node1 b v = CM_ok /\
                        forall c, get_cpd b v = Some c -> ~ In (child c) nf).
  { intros v Hv. specialize (E1 v Hv). unfold check_node1_nf in E1. unfold check_node1.
    destruct (get_cpd b v) as [c|]; [|discriminate].
    destruct (negb (seteqb (get_evidence c) (parents (bg b) v))); [discriminate|].
    destruct (negb (forallb (sn_has (snames c)) (variables c))); [discriminate|].
    destruct (is_valid_cpd c) eqn:Ev; cbn [andb negb] in E1; [|discriminate].
    destruct (memv (child c) nf) eqn:Em; cbn [negb] in E1; [discriminate|].
    split; [reflexivity|]. intros c' Hc'. inversion Hc'; subst c'. apply memv_false. exact Em. }
  split.
  - assert (E : first_fail (check_node1 b) (nodes (bg b)) = CM_ok).
    { apply first_fail_ok. intros v Hv. apply (G v Hv). }
    rewrite E. exact H.
  - intros v c Hv Hc. apply (G v Hv). exact Hc.
Qed.
